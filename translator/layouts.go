// Translator "layouts": pkg/edition/java/proto/packet/**/*.go -> coq/Gen/PacketLayouts.v
//
// For every packet type registered in proto/state/register.go the Encode and Decode method bodies
// are walked statement by statement.  Bodies inside the fragment of DESIGN.md Appendix B become two
// terms of the layout language of coq/Model/Layout.v (enc_<T>, dec_<T>); anything else makes the
// whole type `Opaque T "reason @ file:line"`.  The translator never guesses: every statement must
// match one of the shapes below, and a value that is read but never stored in a field (or the
// other way round) is an error.
//
// Normal form of the output (so that Go code written in different styles compares equal after
// Layout.resolve): a block is a list of items followed by a tail; every Go `if` (version test or
// bool-guarded optional) ends its block, the statements after the `if` are copied into both branches.
package main

import (
	"fmt"
	"go/ast"
	"go/parser"
	"go/token"
	"os"
	"path/filepath"
	"sort"
	"strconv"
	"strings"
)

func init() { translators["layouts"] = translateLayouts }

// ---------- intermediate representation ----------

type fx struct {
	kind  string // path | has | neg | anon | local | fun
	path  []string
	sub   *fx
	local string
	fun   string
}

func (f *fx) coq() string {
	switch f.kind {
	case "path":
		return "(FPath " + coqPath(f.path) + ")"
	case "has":
		return "(FHas " + coqPath(f.path) + ")"
	case "neg":
		return "(FNeg " + f.sub.coq() + ")"
	case "fun":
		return "(FFun \"" + f.fun + "\" " + coqPath(f.path) + ")"
	case "anon":
		return "FAnon"
	}
	panic("unresolved field expression " + f.kind + " " + f.local)
}

func coqPath(p []string) string {
	q := make([]string, len(p))
	for i, s := range p {
		q[i] = `"` + s + `"`
	}
	return "[" + strings.Join(q, "; ") + "]"
}

func (f *fx) equal(g *fx) bool {
	if f == nil || g == nil || f.kind != g.kind {
		return false
	}
	switch f.kind {
	case "neg":
		return f.sub.equal(g.sub)
	case "local":
		return f.local == g.local
	case "anon":
		return true
	}
	return f.fun == g.fun && strings.Join(f.path, "\x00") == strings.Join(g.path, "\x00")
}

func negFx(f *fx) *fx {
	if f.kind == "neg" {
		return f.sub
	}
	return &fx{kind: "neg", sub: f}
}

type item struct {
	kind  string // prim | rep | const
	f     *fx
	prim  string // Coq term of type lprim
	konst string // Coq atom for const
	opts  repOpts
	body  *blk
	pos   token.Pos
	// decoder side bookkeeping
	conv []string // conversions applied between the read value and the field
}

type repOpts struct {
	cap  string // "None" or "(Some n)"
	neg  bool
	pre  int64
	seen bool
}

type selCase struct {
	k int64
	b *blk
}

type tail struct {
	kind  string // ver | opt | rest | sel
	cases []selCase // sel: LSel k1 b1 (LSel k2 b2 ... dflt); dflt == nil means LFail
	dflt  *blk
	g    string
	f    *fx
	a, b *blk
	lim  string
}

type blk struct {
	items []*item
	tail  *tail
}

func (b *blk) coq(ind string) string {
	var t string
	switch {
	case b.tail == nil:
		t = "LEnd"
	case b.tail.kind == "ver":
		t = "(LVer " + b.tail.g + "\n" + ind + "  " + b.tail.a.coq(ind+"  ") + "\n" + ind + "  " + b.tail.b.coq(ind+"  ") + ")"
	case b.tail.kind == "opt":
		t = "(LOpt " + b.tail.f.coq() + "\n" + ind + "  " + b.tail.a.coq(ind+"  ") + "\n" + ind + "  " + b.tail.b.coq(ind+"  ") + ")"
	case b.tail.kind == "rest":
		t = "(LRest " + b.tail.f.coq() + " " + b.tail.lim + ")"
	case b.tail.kind == "sel":
		t = "LFail"
		if b.tail.dflt != nil {
			t = b.tail.dflt.coq(ind + "  ")
		}
		for i := len(b.tail.cases) - 1; i >= 0; i-- {
			c := b.tail.cases[i]
			t = fmt.Sprintf("(LSel %s\n%s  %s\n%s  %s)", coqZ(c.k), ind, c.b.coq(ind+"  "), ind, t)
		}
	}
	for i := len(b.items) - 1; i >= 0; i-- {
		it := b.items[i]
		var s string
		if it.kind == "tag" {
			// the tag scopes over everything that follows it in this block
			t = "(LTag " + it.f.coq() + " " + it.prim + "\n" + ind + t + ")"
			continue
		}
		switch it.kind {
		case "prim":
			s = "(LPrim " + it.f.coq() + " " + it.prim + ")"
		case "const":
			s = "(LConst " + it.prim + " " + it.konst + ")"
		case "rep":
			s = fmt.Sprintf("(LRep %s (mkrep %s %v %d%%N)\n%s  %s)", it.f.coq(), it.opts.cap, it.opts.neg, it.opts.pre, ind, it.body.coq(ind+"  "))
		}
		t = "(LSeq " + s + "\n" + ind + t + ")"
	}
	return t
}

func coqZ(k int64) string {
	if k < 0 {
		return fmt.Sprintf("(%d)", k)
	}
	return fmt.Sprintf("%d", k)
}

// subBlocks: the blocks hanging off a tail
func (t *tail) subBlocks() []*blk {
	if t == nil {
		return nil
	}
	var out []*blk
	if t.a != nil {
		out = append(out, t.a, t.b)
	}
	for _, c := range t.cases {
		out = append(out, c.b)
	}
	if t.dflt != nil {
		out = append(out, t.dflt)
	}
	return out
}

func (b *blk) size() int {
	n := 1
	for _, it := range b.items {
		n++
		if it.body != nil {
			n += it.body.size()
		}
	}
	for _, sb := range b.tail.subBlocks() {
		n += sb.size()
	}
	return n
}

// opaque is the error that makes a type Opaque
type opaque struct {
	reason string
	pos    token.Pos
}

func (o *opaque) Error() string { return o.reason }

// ---------- source model ----------

type pkgInfo struct {
	name   string // package name
	dir    string
	fset   *token.FileSet
	files  []*ast.File
	consts map[string]ast.Expr
	iotas  map[string]int64 // value of iota for constants declared in a const group
	// methods by receiver type name then method name
	methods map[string]map[string]*ast.FuncDecl
	// named integer types (type X int)
	intTypes map[string]bool
	// struct types: embedded fields
	structs map[string]*ast.StructType
	imports map[*ast.File]map[string]string // alias -> import path
}

type world struct {
	repo     string
	versions map[string]int64 // Minecraft_1_8 -> 47
	ordered  []int64          // supported protocol numbers ascending
	pkgs     map[string]*pkgInfo // by dir
}

func (w *world) loadPkg(dir string) (*pkgInfo, error) {
	if p, ok := w.pkgs[dir]; ok {
		return p, nil
	}
	fset := token.NewFileSet()
	ents, err := os.ReadDir(dir)
	if err != nil {
		return nil, err
	}
	p := &pkgInfo{dir: dir, fset: fset, consts: map[string]ast.Expr{}, iotas: map[string]int64{}, methods: map[string]map[string]*ast.FuncDecl{},
		intTypes: map[string]bool{}, structs: map[string]*ast.StructType{}, imports: map[*ast.File]map[string]string{}}
	for _, e := range ents {
		n := e.Name()
		if e.IsDir() || !strings.HasSuffix(n, ".go") || strings.HasSuffix(n, "_test.go") || strings.HasPrefix(n, "verif_export") || strings.HasPrefix(n, "zz_verif") {
			continue
		}
		f, err := parser.ParseFile(fset, filepath.Join(dir, n), nil, parser.ParseComments)
		if err != nil {
			return nil, err
		}
		p.name = f.Name.Name
		p.files = append(p.files, f)
		imps := map[string]string{}
		for _, im := range f.Imports {
			path, _ := strconv.Unquote(im.Path.Value)
			alias := filepath.Base(path)
			if im.Name != nil {
				alias = im.Name.Name
			}
			imps[alias] = path
		}
		p.imports[f] = imps
		for _, d := range f.Decls {
			switch d := d.(type) {
			case *ast.FuncDecl:
				if d.Recv != nil && len(d.Recv.List) == 1 {
					rt := d.Recv.List[0].Type
					if st, ok := rt.(*ast.StarExpr); ok {
						rt = st.X
					}
					if id, ok := rt.(*ast.Ident); ok {
						if p.methods[id.Name] == nil {
							p.methods[id.Name] = map[string]*ast.FuncDecl{}
						}
						p.methods[id.Name][d.Name.Name] = d
					}
				}
			case *ast.GenDecl:
				var lastVals []ast.Expr
				for si, sp := range d.Specs {
					switch sp := sp.(type) {
					case *ast.ValueSpec:
						if d.Tok == token.CONST {
							vals := sp.Values
							if len(vals) == 0 {
								vals = lastVals // implicit repetition of the previous expression list
							} else {
								lastVals = vals
							}
							for i, nm := range sp.Names {
								if i < len(vals) {
									p.consts[nm.Name] = vals[i]
									p.iotas[nm.Name] = int64(si)
								}
							}
						}
					case *ast.TypeSpec:
						switch t := sp.Type.(type) {
						case *ast.Ident:
							switch t.Name {
							case "int", "int8", "int16", "int32", "int64", "uint8", "byte", "uint16", "uint32", "uint64":
								p.intTypes[sp.Name.Name] = true
							}
						case *ast.StructType:
							p.structs[sp.Name.Name] = t
						}
					}
				}
			}
		}
	}
	w.pkgs[dir] = p
	return p, nil
}

func (p *pkgInfo) fileOf(n ast.Node) *ast.File {
	for _, f := range p.files {
		if f.Pos() <= n.Pos() && n.Pos() <= f.End() {
			return f
		}
	}
	return nil
}

func (p *pkgInfo) where(pos token.Pos) string {
	ps := p.fset.Position(pos)
	return fmt.Sprintf("%s:%d", filepath.Base(ps.Filename), ps.Line)
}

// ---------- version table and registrations ----------

func (w *world) loadVersions() error {
	fset := token.NewFileSet()
	f, err := parser.ParseFile(fset, filepath.Join(w.repo, "pkg/edition/java/proto/version/version.go"), nil, 0)
	if err != nil {
		return err
	}
	w.versions = map[string]int64{}
	var orderedNames []string
	for _, d := range f.Decls {
		gd, ok := d.(*ast.GenDecl)
		if !ok || gd.Tok != token.VAR {
			continue
		}
		for _, sp := range gd.Specs {
			vs := sp.(*ast.ValueSpec)
			for i, nm := range vs.Names {
				if i >= len(vs.Values) {
					continue
				}
				if call, ok := vs.Values[i].(*ast.CallExpr); ok {
					if id, ok := call.Fun.(*ast.Ident); ok && id.Name == "v" && len(call.Args) >= 1 {
						n, err := evalIntLit(call.Args[0])
						if err != nil {
							return fmt.Errorf("version.go: %s: %v", nm.Name, err)
						}
						w.versions[nm.Name] = n
					}
				}
				if nm.Name == "Versions" {
					cl, ok := vs.Values[i].(*ast.CompositeLit)
					if !ok {
						return fmt.Errorf("version.go: Versions is not a composite literal")
					}
					for _, e := range cl.Elts {
						id, ok := e.(*ast.Ident)
						if !ok {
							return fmt.Errorf("version.go: Versions element is not an identifier")
						}
						orderedNames = append(orderedNames, id.Name)
					}
				}
			}
		}
	}
	if len(orderedNames) == 0 {
		return fmt.Errorf("version.go: Versions list not found")
	}
	for _, n := range orderedNames {
		v, ok := w.versions[n]
		if !ok {
			return fmt.Errorf("version.go: %s in Versions has no v(...) definition", n)
		}
		if v >= 0 {
			w.ordered = append(w.ordered, v)
		}
	}
	for i := 1; i < len(w.ordered); i++ {
		if w.ordered[i-1] >= w.ordered[i] {
			return fmt.Errorf("version.go: Versions not strictly ascending")
		}
	}
	return nil
}

func evalIntLit(e ast.Expr) (int64, error) {
	switch e := e.(type) {
	case *ast.BasicLit:
		if e.Kind == token.INT {
			return strconv.ParseInt(e.Value, 0, 64)
		}
	case *ast.UnaryExpr:
		if e.Op == token.SUB {
			n, err := evalIntLit(e.X)
			return -n, err
		}
	case *ast.ParenExpr:
		return evalIntLit(e.X)
	}
	return 0, fmt.Errorf("not an integer literal")
}

type registration struct {
	typeKey string // "packet.Handshake"
	pkgDir  string
	typ     string
	ctxs    map[[2]int64]bool // (version, clientbound)
	order   int
}

func (w *world) loadRegistrations() ([]*registration, error) {
	fset := token.NewFileSet()
	path := filepath.Join(w.repo, "pkg/edition/java/proto/state/register.go")
	f, err := parser.ParseFile(fset, path, nil, 0)
	if err != nil {
		return nil, err
	}
	imps := map[string]string{}
	for _, im := range f.Imports {
		p, _ := strconv.Unquote(im.Path.Value)
		alias := filepath.Base(p)
		if im.Name != nil {
			alias = im.Name.Name
		}
		imps[alias] = p
	}
	regs := map[string]*registration{}
	var list []*registration
	var ferr error
	ast.Inspect(f, func(n ast.Node) bool {
		call, ok := n.(*ast.CallExpr)
		if !ok || ferr != nil {
			return true
		}
		sel, ok := call.Fun.(*ast.SelectorExpr)
		if !ok || sel.Sel.Name != "Register" {
			return true
		}
		dirSel, ok := sel.X.(*ast.SelectorExpr)
		if !ok {
			return true
		}
		var cb int64
		switch dirSel.Sel.Name {
		case "ClientBound":
			cb = 1
		case "ServerBound":
			cb = 0
		default:
			ferr = fmt.Errorf("register.go:%d: Register on %s", fset.Position(call.Pos()).Line, dirSel.Sel.Name)
			return false
		}
		if len(call.Args) < 2 {
			ferr = fmt.Errorf("register.go:%d: Register without mappings", fset.Position(call.Pos()).Line)
			return false
		}
		// &alias.Type{}
		ue, ok := call.Args[0].(*ast.UnaryExpr)
		var cl *ast.CompositeLit
		if ok {
			cl, ok = ue.X.(*ast.CompositeLit)
		}
		var ts *ast.SelectorExpr
		if ok {
			ts, ok = cl.Type.(*ast.SelectorExpr)
		}
		if !ok {
			ferr = fmt.Errorf("register.go:%d: first argument of Register is not &pkg.Type{}", fset.Position(call.Pos()).Line)
			return false
		}
		alias := ts.X.(*ast.Ident).Name
		ipath, ok := imps[alias]
		if !ok {
			ferr = fmt.Errorf("register.go: unknown import alias %s", alias)
			return false
		}
		const mod = "go.minekube.com/gate/"
		if !strings.HasPrefix(ipath, mod) {
			ferr = fmt.Errorf("register.go: packet type outside the module: %s", ipath)
			return false
		}
		dir := filepath.Join(w.repo, strings.TrimPrefix(ipath, mod))
		pk, err := w.loadPkg(dir)
		if err != nil {
			ferr = err
			return false
		}
		key := pk.name + "." + ts.Sel.Name
		r := regs[key]
		if r == nil {
			r = &registration{typeKey: key, pkgDir: dir, typ: ts.Sel.Name, ctxs: map[[2]int64]bool{}, order: len(list)}
			regs[key] = r
			list = append(list, r)
		}
		// mappings: m(id, version.X) / ml(id, version.X, version.Y); same range rule as PacketRegistry.Register
		type mp struct{ from, last int64 }
		var ms []mp
		for _, a := range call.Args[1:] {
			mc, ok := a.(*ast.CallExpr)
			if !ok {
				ferr = fmt.Errorf("register.go:%d: mapping is not a call", fset.Position(a.Pos()).Line)
				return false
			}
			fn, _ := mc.Fun.(*ast.Ident)
			if fn == nil || (fn.Name != "m" && fn.Name != "ml") {
				ferr = fmt.Errorf("register.go:%d: mapping is not m(...) / ml(...)", fset.Position(a.Pos()).Line)
				return false
			}
			vn := func(e ast.Expr) (int64, error) {
				s, ok := e.(*ast.SelectorExpr)
				if !ok {
					if id, ok := e.(*ast.Ident); ok && id.Name == "nil" {
						return 0, nil
					}
					return 0, fmt.Errorf("version argument is not version.X")
				}
				v, ok := w.versions[s.Sel.Name]
				if !ok {
					return 0, fmt.Errorf("unknown version %s", s.Sel.Name)
				}
				return v, nil
			}
			from, err := vn(mc.Args[1])
			if err != nil {
				ferr = fmt.Errorf("register.go:%d: %v", fset.Position(a.Pos()).Line, err)
				return false
			}
			var last int64
			if fn.Name == "ml" {
				last, err = vn(mc.Args[2])
				if err != nil {
					ferr = fmt.Errorf("register.go:%d: %v", fset.Position(a.Pos()).Line, err)
					return false
				}
			}
			ms = append(ms, mp{from, last})
		}
		maxv := w.ordered[len(w.ordered)-1]
		for i, m := range ms {
			to := maxv
			excl := false
			if i+1 < len(ms) {
				to = ms[i+1].from
				excl = true
			} else if m.last != 0 {
				to = m.last
			}
			for _, v := range w.ordered {
				if v >= m.from && (v < to || (!excl && v == to)) {
					r.ctxs[[2]int64{v, cb}] = true
				}
			}
		}
		return true
	})
	if ferr != nil {
		return nil, ferr
	}
	if len(list) == 0 {
		return nil, fmt.Errorf("register.go: no Register calls found")
	}
	return list, nil
}

// ---------- the statement walker ----------

type side int

const (
	encSide side = iota
	decSide
)

// state of one path through a method body
type pstate struct {
	ints   map[string]int64 // local integer constants (limit := 256)
	flags  map[string]*fx   // local bools defined from field predicates (enc) : hasFavicon := s.Favicon != ""
	locals map[string]*item // decoder: locals holding a value that was read and must end up in a field
	counts map[string]*item // decoder: local holding a VarInt count (prim item still in the block, options collected here)
	bools  map[string]*item // decoder: local holding a bool that was read (flag of an optional)
	vars   map[string][]string // variable name -> path it denotes (loop variables, element temporaries)
	types  map[string]typeRef  // static type of such variables (to find the methods called on them)
	nils   map[string]bool     // decoder: locals explicitly reset to nil (an absent optional value)
	flagOf map[string][]*fx    // decoder: optional flags named after the local their branch fills, resolved when the local is stored
	idx    map[string][]string // loop index variable -> path of the slice it indexes
	depth  int
}

type typeRef struct {
	pk   *pkgInfo
	name string
}

// restore puts back the caller's name scope after a nested call
func (s *pstate) restore(saved *pstate) {
	if saved == nil {
		return
	}
	c := saved.clone()
	s.ints, s.flags, s.locals, s.counts, s.bools, s.vars, s.types, s.idx = c.ints, c.flags, c.locals, c.counts, c.bools, c.vars, c.types, c.idx
	s.nils, s.flagOf = c.nils, c.flagOf
}

// enter starts a callee scope: only the bindings of its receiver survive
func (s *pstate) enter(bind map[string][]string, types map[string]typeRef) {
	s.ints, s.flags, s.locals, s.counts, s.bools = map[string]int64{}, map[string]*fx{}, map[string]*item{}, map[string]*item{}, map[string]*item{}
	s.vars, s.types, s.idx = map[string][]string{}, map[string]typeRef{}, map[string][]string{}
	s.nils, s.flagOf = map[string]bool{}, map[string][]*fx{}
	for k, v := range bind {
		s.vars[k] = v
	}
	for k, v := range types {
		s.types[k] = v
	}
}

// cloneItems copies the items of a block for one branch and re-points the path state at the copies
func cloneItems(items []*item, st *pstate) []*item {
	m := map[*item]*item{}
	out := make([]*item, len(items))
	for i, it := range items {
		c := *it
		if it.f != nil {
			f := *it.f
			c.f = &f
		}
		out[i] = &c
		m[it] = &c
	}
	for _, mp := range []map[string]*item{st.locals, st.counts, st.bools} {
		for k, v := range mp {
			if n, ok := m[v]; ok {
				mp[k] = n
			}
		}
	}
	return out
}

func (s *pstate) clone() *pstate {
	c := &pstate{ints: map[string]int64{}, flags: map[string]*fx{}, locals: map[string]*item{}, counts: map[string]*item{},
		bools: map[string]*item{}, vars: map[string][]string{}, types: map[string]typeRef{}, idx: map[string][]string{}, depth: s.depth}
	c.nils, c.flagOf = map[string]bool{}, map[string][]*fx{}
	for k, v := range s.nils {
		c.nils[k] = v
	}
	for k, v := range s.flagOf {
		c.flagOf[k] = append([]*fx{}, v...)
	}
	for k, v := range s.types {
		c.types[k] = v
	}
	for k, v := range s.idx {
		c.idx[k] = v
	}
	for k, v := range s.ints {
		c.ints[k] = v
	}
	for k, v := range s.flags {
		c.flags[k] = v
	}
	for k, v := range s.locals {
		c.locals[k] = v
	}
	for k, v := range s.counts {
		c.counts[k] = v
	}
	for k, v := range s.bools {
		c.bools[k] = v
	}
	for k, v := range s.vars {
		c.vars[k] = v
	}
	return c
}

type walker struct {
	w    *world
	pk   *pkgInfo
	file *ast.File
	side side
	recv string // receiver variable name ("" if unnamed)
	ctx  string // *proto.PacketContext parameter name
	io   string // io.Writer / io.Reader parameter name
	pw   map[string]bool // names bound to util.PanicWriter(wr) / util.PanicReader(rd)
	util string // import alias of proto/util in this file
	notes *[]string
	budget *int
	prefix []string // path prefix when translating a nested value's method
	rtype  typeRef  // static type of the receiver
	call   *callInfo
	depth  int
	inLoop *loopInfo
	iota   int64
}

func (wk *walker) bad(n ast.Node, format string, a ...any) error {
	return &opaque{reason: fmt.Sprintf(format, a...) + " @ " + wk.pk.where(n.Pos()), pos: n.Pos()}
}

type frame struct {
	stmts    []ast.Stmt
	wk       *walker
	boundary bool    // the statements after a nested call: `return` inside the callee continues here
	saved    *pstate // caller's name scope, restored when the callee is left
}

type action int

const (
	actNext   action = iota // go on with the next statement
	actDone                 // the block is complete (an `if` absorbed the rest)
	actReturn               // return from the current function
	actCall                 // enter a nested method (wk.call describes it)
)

type callInfo struct {
	wk     *walker
	stmts  []ast.Stmt
	isRet  bool // `return x.Encode(c, wr)`: leave the caller afterwards
	bind   map[string][]string
	types  map[string]typeRef
}

var retStmt = []ast.Stmt{&ast.ReturnStmt{}}

// block translates stmts followed by the continuation frames.
func (wk *walker) block(stmts []ast.Stmt, cont []frame, st *pstate) (*blk, error) {
	return wk.blockFrom(nil, stmts, cont, st)
}

func (wk0 *walker) blockFrom(items []*item, stmts []ast.Stmt, cont []frame, st *pstate) (*blk, error) {
	wk := wk0
	*wk.budget--
	if *wk.budget < 0 {
		return nil, &opaque{reason: "too many version/optional branches (layout term would explode)"}
	}
	b := &blk{items: items}
	i := 0
	for {
		for i >= len(stmts) {
			if len(cont) == 0 {
				return b, nil
			}
			f := cont[0]
			if f.boundary {
				st.restore(f.saved)
			}
			stmts, cont, i = f.stmts, cont[1:], 0
			wk = f.wk
		}
		s := stmts[i]
		rest := stmts[i+1:]
		act, err := wk.stmt(s, rest, cont, st, b)
		if err != nil {
			return nil, err
		}
		switch act {
		case actNext:
			i++
		case actDone:
			return b, nil
		case actReturn:
			j := -1
			for k, f := range cont {
				if f.boundary {
					j = k
					break
				}
			}
			if j < 0 {
				return b, nil
			}
			f := cont[j]
			st.restore(f.saved)
			stmts, cont, i = f.stmts, cont[j+1:], 0
			wk = f.wk
		case actCall:
			ci := wk.call
			after := rest
			if ci.isRet {
				after = retStmt
			}
			cont = append([]frame{{stmts: after, wk: wk, boundary: true, saved: st.clone()}}, cont...)
			st.enter(ci.bind, ci.types)
			wk, stmts, i = ci.wk, ci.stmts, 0
		}
	}
}

// stmt handles one statement; done = the block is complete (return statement or an `if` that absorbed the rest).
func (wk *walker) stmt(s ast.Stmt, rest []ast.Stmt, cont []frame, st *pstate, b *blk) (action, error) {
	if syn, err := wk.componentIO(s, st); err != nil {
		return actNext, err
	} else if syn != nil {
		return wk.ifStmt(syn, rest, cont, st, b)
	}
	if ci, err := wk.nestedCall(s, st); err != nil {
		return actNext, err
	} else if ci != nil {
		wk.call = ci
		return actCall, nil
	}
	switch s := s.(type) {
	case *ast.EmptyStmt:
		return actNext, nil
	case *ast.ReturnStmt:
		if len(s.Results) == 0 {
			return actReturn, nil
		}
		if len(s.Results) != 1 {
			return actNext, wk.bad(s, "return with %d results", len(s.Results))
		}
		r := s.Results[0]
		if id, ok := r.(*ast.Ident); ok && (id.Name == "nil" || id.Name == "err") {
			return actReturn, nil
		}
		if call, ok := r.(*ast.CallExpr); ok {
			if err := wk.ioCall(call, nil, st, b, s); err != nil {
				return actNext, err
			}
			return actReturn, nil
		}
		return actNext, wk.bad(s, "return of %T", r)
	case *ast.DeclStmt:
		gd, ok := s.Decl.(*ast.GenDecl)
		if !ok || (gd.Tok != token.VAR && gd.Tok != token.CONST) {
			return actNext, wk.bad(s, "declaration")
		}
		for _, sp := range gd.Specs {
			vs := sp.(*ast.ValueSpec)
			if len(vs.Values) == 0 {
				// var x T : an element temporary when T is a struct of the module and we are inside a loop
				if wk.inLoop != nil && vs.Type != nil {
					if t, ok := wk.w.resolveType(wk.pk, wk.file, vs.Type); ok {
						if _, isArr := vs.Type.(*ast.ArrayType); !isArr {
							for _, nm := range vs.Names {
								wk.elemTemp(nm.Name, t, st)
							}
						}
					}
				}
				continue
			}
			if len(vs.Values) != len(vs.Names) {
				return actNext, wk.bad(s, "declaration with multi-value initialiser")
			}
			for i, nm := range vs.Names {
				if err := wk.define(nm.Name, vs.Values[i], st, b, s); err != nil {
					return actNext, err
				}
			}
		}
		return actNext, nil
	case *ast.ExprStmt:
		call, ok := s.X.(*ast.CallExpr)
		if !ok {
			return actNext, wk.bad(s, "expression statement %T", s.X)
		}
		return actNext, wk.ioCall(call, nil, st, b, s)
	case *ast.AssignStmt:
		return actNext, wk.assign(s, st, b)
	case *ast.IfStmt:
		return wk.ifStmt(s, rest, cont, st, b)
	case *ast.SwitchStmt:
		return wk.switchStmt(s, rest, cont, st, b)
	case *ast.BlockStmt:
		return actNext, wk.bad(s, "nested block")
	case *ast.RangeStmt, *ast.ForStmt:
		return actNext, wk.loop(s, st, b)
	}
	return actNext, wk.bad(s, "statement %T", s)
}

// define handles x := expr / var x = expr for non-I/O right-hand sides
func (wk *walker) elemTemp(name string, t typeRef, st *pstate) {
	root := "$elem:" + name
	st.vars[name] = []string{root}
	st.types[name] = t
	wk.inLoop.temps = append(wk.inLoop.temps, root)
}

func (wk *walker) define(name string, e ast.Expr, st *pstate, b *blk, at ast.Node) error {
	if wk.inLoop != nil {
		// x := new(T) / x := T{} / x := &T{}
		var te ast.Expr
		switch x := e.(type) {
		case *ast.CallExpr:
			if id, ok := x.Fun.(*ast.Ident); ok && id.Name == "new" && len(x.Args) == 1 {
				te = x.Args[0]
			}
		case *ast.CompositeLit:
			if len(x.Elts) == 0 {
				te = x.Type
			}
		case *ast.UnaryExpr:
			if cl, ok := x.X.(*ast.CompositeLit); ok && x.Op == token.AND && len(cl.Elts) == 0 {
				te = cl.Type
			}
		}
		if te != nil {
			if t, ok := wk.w.resolveType(wk.pk, wk.file, te); ok {
				wk.elemTemp(name, t, st)
				return nil
			}
		}
	}
	if call, ok := e.(*ast.CallExpr); ok {
		if ok, err := wk.makeCall(&ast.Ident{Name: name}, call, st); ok || err != nil {
			return err
		}
		if wk.isPanicCtor(call) {
			wk.pw[name] = true
			return nil
		}
		// x := r.Ok() / util.PReadXVal(rd)
		if wk.isIOCall(call) {
			return wk.ioCall(call, []ast.Expr{&ast.Ident{Name: name, NamePos: e.Pos()}}, st, b, at)
		}
	}
	if n, err := wk.constInt(e, st); err == nil {
		st.ints[name] = n
		return nil
	}
	if wk.side == encSide {
		if f, err := wk.pred(e, st); err == nil {
			st.flags[name] = f
			return nil
		}
	}
	return wk.bad(at, "local %s defined from an expression outside the fragment", name)
}

func (wk *walker) isPanicCtor(call *ast.CallExpr) bool {
	sel, ok := call.Fun.(*ast.SelectorExpr)
	if !ok {
		return false
	}
	x, ok := sel.X.(*ast.Ident)
	return ok && x.Name == wk.util && (sel.Sel.Name == "PanicWriter" || sel.Sel.Name == "PanicReader")
}

// constInt evaluates an integer constant expression: literals, package constants, util constants, local constants
func (wk *walker) constInt(e ast.Expr, st *pstate) (int64, error) {
	switch e := e.(type) {
	case *ast.BasicLit:
		if e.Kind == token.INT {
			return strconv.ParseInt(e.Value, 0, 64)
		}
	case *ast.ParenExpr:
		return wk.constInt(e.X, st)
	case *ast.Ident:
		if st != nil {
			if n, ok := st.ints[e.Name]; ok {
				return n, nil
			}
		}
		if e.Name == "iota" && wk.iota >= 0 {
			return wk.iota, nil
		}
		if ce, ok := wk.pk.consts[e.Name]; ok {
			save := wk.iota
			wk.iota = wk.pk.iotas[e.Name]
			n, err := wk.constInt(ce, nil)
			wk.iota = save
			return n, err
		}
	case *ast.CallExpr:
		// Action(3), byte(1): conversion of a constant
		if id, ok := e.Fun.(*ast.Ident); ok && len(e.Args) == 1 && (isBasicConv(id.Name) || wk.pk.intTypes[id.Name]) && id.Name != "string" {
			return wk.constInt(e.Args[0], st)
		}
	case *ast.SelectorExpr:
		if x, ok := e.X.(*ast.Ident); ok {
			if x.Name == wk.util {
				switch e.Sel.Name {
				case "DefaultMaxStringSize":
					return 65536, nil // bufio.MaxScanTokenSize
				case "MaxPreAllocSize":
					return 1 << 15, nil
				}
			}
			if x.Name == "math" && e.Sel.Name == "MaxInt16" {
				return 32767, nil
			}
		}
	case *ast.BinaryExpr:
		a, err := wk.constInt(e.X, st)
		if err != nil {
			return 0, err
		}
		c, err := wk.constInt(e.Y, st)
		if err != nil {
			return 0, err
		}
		switch e.Op {
		case token.ADD:
			return a + c, nil
		case token.SUB:
			return a - c, nil
		case token.MUL:
			return a * c, nil
		case token.SHL:
			return a << uint(c), nil
		}
	}
	return 0, fmt.Errorf("not a constant")
}

// fieldPath resolves p.F.G / loopvar.F / *p.F to a path; ok=false if e is not rooted in the receiver or a bound variable
func (wk *walker) fieldPath(e ast.Expr, st *pstate) ([]string, bool) {
	switch e := e.(type) {
	case *ast.ParenExpr:
		return wk.fieldPath(e.X, st)
	case *ast.StarExpr:
		return wk.fieldPath(e.X, st)
	case *ast.Ident:
		if p, ok := st.vars[e.Name]; ok {
			return append([]string{}, p...), true
		}
		if e.Name == wk.recv && wk.recv != "" {
			return append([]string{}, wk.prefix...), true
		}
		return nil, false
	case *ast.SelectorExpr:
		p, ok := wk.fieldPath(e.X, st)
		if !ok {
			return nil, false
		}
		return append(p, e.Sel.Name), true
	case *ast.IndexExpr:
		p, ok := wk.fieldPath(e.X, st)
		iv, isId := e.Index.(*ast.Ident)
		if !ok || !isId {
			return nil, false
		}
		q, bound := st.idx[iv.Name]
		if !bound {
			return nil, false
		}
		if len(q) == 1 && strings.HasPrefix(q[0], "$idx:") {
			if wk.inLoop != nil && wk.inLoop.path == nil {
				wk.inLoop.path = append([]string{}, p...)
			}
			return append(p, "#"), true
		}
		if samePath(p, q) {
			return append(p, "#"), true
		}
		return nil, false
	}
	return nil, false
}

// guard translates a condition on the packet context; ok=false if e is not such a condition
func (wk *walker) guard(e ast.Expr) (string, bool) {
	switch e := e.(type) {
	case *ast.ParenExpr:
		return wk.guard(e.X)
	case *ast.UnaryExpr:
		if e.Op == token.NOT {
			if g, ok := wk.guard(e.X); ok {
				return "(GNot " + g + ")", true
			}
		}
	case *ast.BinaryExpr:
		switch e.Op {
		case token.LAND, token.LOR:
			a, ok1 := wk.guard(e.X)
			c, ok2 := wk.guard(e.Y)
			if ok1 && ok2 {
				if e.Op == token.LAND {
					return "(GAnd " + a + " " + c + ")", true
				}
				return "(GOr " + a + " " + c + ")", true
			}
		case token.EQL, token.NEQ:
			wrap := func(g string) string {
				if e.Op == token.NEQ {
					return "(GNot " + g + ")"
				}
				return g
			}
			if wk.isCtxSel(e.X, "Protocol") {
				if v, ok := wk.versionProto(e.Y); ok {
					return wrap(fmt.Sprintf("(GEq %d)", v)), true
				}
			}
			if wk.isCtxSel(e.X, "Direction") {
				if s, ok := e.Y.(*ast.SelectorExpr); ok {
					switch s.Sel.Name {
					case "ClientBound":
						return wrap("GCb"), true
					case "ServerBound":
						return wrap("(GNot GCb)"), true
					}
				}
			}
		}
	case *ast.CallExpr:
		sel, ok := e.Fun.(*ast.SelectorExpr)
		if !ok || !wk.isCtxSel(sel.X, "Protocol") || len(e.Args) != 1 {
			return "", false
		}
		vs, ok := e.Args[0].(*ast.SelectorExpr)
		if !ok {
			return "", false
		}
		v, ok := wk.w.versions[vs.Sel.Name]
		if !ok {
			return "", false
		}
		switch sel.Sel.Name {
		case "GreaterEqual":
			return fmt.Sprintf("(GGe %d)", v), true
		case "Lower":
			return fmt.Sprintf("(GLt %d)", v), true
		case "LowerEqual":
			return fmt.Sprintf("(GLe %d)", v), true
		case "Greater":
			return fmt.Sprintf("(GGt %d)", v), true
		}
	}
	return "", false
}

func (wk *walker) isCtxSel(e ast.Expr, field string) bool {
	s, ok := e.(*ast.SelectorExpr)
	if !ok || s.Sel.Name != field {
		return false
	}
	x, ok := s.X.(*ast.Ident)
	return ok && x.Name == wk.ctx && wk.ctx != ""
}

// version.X.Protocol
func (wk *walker) versionProto(e ast.Expr) (int64, bool) {
	s, ok := e.(*ast.SelectorExpr)
	if !ok || s.Sel.Name != "Protocol" {
		return 0, false
	}
	vs, ok := s.X.(*ast.SelectorExpr)
	if !ok {
		return 0, false
	}
	v, ok := wk.w.versions[vs.Sel.Name]
	return v, ok
}

// pred translates a boolean expression over fields: p.F (bool field), p.F != nil, len(p.F) > 0, p.F != "", p.F != uuid.Nil, !e, local flag
func (wk *walker) pred(e ast.Expr, st *pstate) (*fx, error) {
	switch e := e.(type) {
	case *ast.ParenExpr:
		return wk.pred(e.X, st)
	case *ast.Ident:
		if f, ok := st.flags[e.Name]; ok {
			return f, nil
		}
	case *ast.SelectorExpr:
		if p, ok := wk.fieldPath(e, st); ok {
			return &fx{kind: "path", path: p}, nil
		}
	case *ast.UnaryExpr:
		if e.Op == token.NOT {
			f, err := wk.pred(e.X, st)
			if err != nil {
				return nil, err
			}
			return negFx(f), nil
		}
	case *ast.BinaryExpr:
		if e.Op != token.EQL && e.Op != token.NEQ && e.Op != token.GTR {
			break
		}
		var p []string
		var ok bool
		lenForm := false
		if call, isCall := e.X.(*ast.CallExpr); isCall {
			if id, isId := call.Fun.(*ast.Ident); isId && id.Name == "len" && len(call.Args) == 1 {
				p, ok = wk.fieldPath(call.Args[0], st)
				lenForm = true
			}
		} else {
			p, ok = wk.fieldPath(e.X, st)
		}
		if !ok || len(p) == 0 {
			break
		}
		zero := false
		switch y := e.Y.(type) {
		case *ast.Ident:
			zero = y.Name == "nil" && !lenForm
		case *ast.BasicLit:
			zero = (lenForm && y.Value == "0") || (!lenForm && y.Value == `""`)
		case *ast.SelectorExpr:
			if x, isId := y.X.(*ast.Ident); isId && x.Name == "uuid" && y.Sel.Name == "Nil" && !lenForm {
				zero = true
			}
		}
		if !zero {
			break
		}
		has := &fx{kind: "has", path: p}
		switch e.Op {
		case token.NEQ, token.GTR:
			return has, nil
		case token.EQL:
			return negFx(has), nil
		}
	}
	return nil, fmt.Errorf("not a field predicate")
}

// mentionsOnlyErr: condition of pure error handling (err != nil, errors.Is(err, io.EOF), err == nil && ...)
func mentionsErr(e ast.Expr) bool {
	found := false
	ast.Inspect(e, func(n ast.Node) bool {
		if id, ok := n.(*ast.Ident); ok && id.Name == "err" {
			found = true
		}
		return true
	})
	return found
}

// pureReturn: the body is a single return (error path, no I/O)
func pureReturn(b *ast.BlockStmt) bool {
	if b == nil || len(b.List) != 1 {
		return false
	}
	r, ok := b.List[0].(*ast.ReturnStmt)
	if !ok {
		return false
	}
	for _, e := range r.Results {
		if hasIOCallExpr(e) {
			return false
		}
	}
	return true
}

// returnsError: single return whose value is a non-nil error expression (validation failure)
func returnsError(b *ast.BlockStmt) bool {
	if !pureReturn(b) {
		return false
	}
	r := b.List[0].(*ast.ReturnStmt)
	if len(r.Results) != 1 {
		return false
	}
	switch x := r.Results[0].(type) {
	case *ast.Ident:
		return strings.HasPrefix(x.Name, "err") && x.Name != "err" || strings.HasPrefix(x.Name, "Err")
	case *ast.CallExpr:
		if s, ok := x.Fun.(*ast.SelectorExpr); ok {
			if id, ok := s.X.(*ast.Ident); ok {
				return (id.Name == "errors" && s.Sel.Name == "New") || (id.Name == "fmt" && s.Sel.Name == "Errorf") ||
					(id.Name == "errs" && s.Sel.Name == "NewSilentErr")
			}
		}
	}
	return false
}

func hasIOCallExpr(e ast.Expr) bool {
	found := false
	ast.Inspect(e, func(n ast.Node) bool {
		if c, ok := n.(*ast.CallExpr); ok {
			if s, ok := c.Fun.(*ast.SelectorExpr); ok {
				nm := s.Sel.Name
				if strings.HasPrefix(nm, "Write") || strings.HasPrefix(nm, "Read") || strings.HasPrefix(nm, "PWrite") ||
					strings.HasPrefix(nm, "PRead") || nm == "Encode" || nm == "Decode" {
					found = true
				}
			}
		}
		return true
	})
	return found
}

func elseStmts(s *ast.IfStmt) []ast.Stmt {
	switch e := s.Else.(type) {
	case nil:
		return nil
	case *ast.BlockStmt:
		return e.List
	case *ast.IfStmt:
		return []ast.Stmt{e}
	}
	return nil
}

func (wk *walker) ifStmt(s *ast.IfStmt, rest []ast.Stmt, cont []frame, st *pstate, b *blk) (action, error) {
	if s.Init != nil {
		// if x, err = util.ReadX(rd); err != nil { return err }   /   if err := util.WriteX(...); err != nil { return err }
		if mentionsErr(s.Cond) && pureReturn(s.Body) && s.Else == nil {
			act, err := wk.stmt(s.Init, rest, cont, st, b)
			if act == actCall {
				return actCall, err
			}
			return actNext, err
		}
		return actNext, wk.bad(s, "if with init statement")
	}
	// 1. error handling
	if mentionsErr(s.Cond) {
		if pureReturn(s.Body) && s.Else == nil {
			return actNext, nil
		}
		return actNext, wk.bad(s, "error handling with side effects")
	}
	branch := func(g string, thenS, elseS []ast.Stmt, stA, stB *pstate) (action, error) {
		k := append([]frame{{stmts: rest, wk: wk}}, cont...)
		// a version test is invisible on the wire: the items already emitted in this block move into
		// both branches (each path owns its items, so a later statement may still rename them)
		pre := b.items
		b.items = nil
		a, err := wk.blockFrom(cloneItems(pre, stA), thenS, k, stA)
		if err != nil {
			return actNext, err
		}
		c, err := wk.blockFrom(cloneItems(pre, stB), elseS, k, stB)
		if err != nil {
			return actNext, err
		}
		b.tail = &tail{kind: "ver", g: g, a: a, b: c}
		return actDone, nil
	}
	// 2. version / direction test
	if g, ok := wk.guard(s.Cond); ok {
		return branch(g, s.Body.List, elseStmts(s), st.clone(), st.clone())
	}
	// 2b. guard && rest  ==>  if guard { if rest {...} }   (only without else)
	if be, ok := s.Cond.(*ast.BinaryExpr); ok && be.Op == token.LAND && s.Else == nil {
		if g, ok := wk.guard(be.X); ok {
			inner := &ast.IfStmt{If: s.If, Cond: be.Y, Body: s.Body}
			return branch(g, []ast.Stmt{inner}, nil, st.clone(), st.clone())
		}
	}
	// 3. decoder: checks on a count that was just read
	if wk.side == decSide && s.Else == nil && pureReturn(s.Body) {
		if ok, err := wk.countCheck(s.Cond, st); ok || err != nil {
			return actNext, err
		}
	}
	// 3b. if p.F == K { .. } else { .. } on an integer field that was written / read earlier in this block: a tagged choice
	if be, ok := s.Cond.(*ast.BinaryExpr); ok && be.Op == token.EQL && !(s.Else == nil && returnsError(s.Body)) {
		if k, err := wk.constInt(be.Y, st); err == nil {
			if it := wk.tagItem(be.X, st, b); it != nil {
				it.kind = "tag"
				kf := append([]frame{{stmts: rest, wk: wk}}, cont...)
				a, err := wk.block(s.Body.List, kf, st.clone())
				if err != nil {
					return actNext, err
				}
				d, err := wk.block(elseStmts(s), kf, st.clone())
				if err != nil {
					return actNext, err
				}
				b.tail = &tail{kind: "sel", cases: []selCase{{k, a}}, dflt: d}
				return actDone, nil
			}
		}
	}
	// 4. validation of field values (encoder refuses / decoder rejects): restricts the domain, writes nothing
	if s.Else == nil && returnsError(s.Body) {
		if _, err := wk.pred(s.Cond, st); err == nil {
			*wk.notes = append(*wk.notes, "validation "+wk.pk.where(s.Pos()))
			return actNext, nil
		}
		if wk.isFieldCompare(s.Cond, st) {
			*wk.notes = append(*wk.notes, "validation "+wk.pk.where(s.Pos()))
			return actNext, nil
		}
	}
	// 5. optional guarded by a bool that was just written / read
	var flag *fx
	var flagItem *item
	if wk.side == encSide {
		f, err := wk.pred(s.Cond, st)
		if err != nil {
			return actNext, wk.bad(s, "if condition outside the fragment")
		}
		// if p.F != nil { WriteBool(true); ... } else { WriteBool(false); ... } : the flag is written inside the branches
		if tv, ok1 := wk.constBoolWrite(s.Body.List); ok1 {
			if ev, ok2 := wk.constBoolWrite(elseStmts(s)); ok2 && tv != ev {
				k := append([]frame{{stmts: rest, wk: wk}}, cont...)
				thenS, elseS := s.Body.List[1:], elseStmts(s)[1:]
				flag := f
				if !tv {
					thenS, elseS = elseS, thenS
					flag = negFx(f)
				}
				// thenS runs when the wire bool is true; the flag written is `cond` (or its negation)
				a, err := wk.block(thenS, k, st.clone())
				if err != nil {
					return actNext, err
				}
				c, err := wk.block(elseS, k, st.clone())
				if err != nil {
					return actNext, err
				}
				b.tail = &tail{kind: "opt", f: flag, a: a, b: c}
				return actDone, nil
			}
		}
		if len(b.items) == 0 {
			return actNext, wk.bad(s, "data-dependent if not preceded by a bool write")
		}
		flagItem = b.items[len(b.items)-1]
		if flagItem.kind != "prim" || flagItem.prim != "PBool" {
			return actNext, wk.bad(s, "data-dependent if not preceded by a bool write")
		}
		switch {
		case flagItem.f.equal(f):
			flag = flagItem.f
		case flagItem.f.equal(negFx(f)):
			flag = flagItem.f
			// condition is the negation of what was written: swap branches below
			b.items = b.items[:len(b.items)-1]
			k := append([]frame{{stmts: rest, wk: wk}}, cont...)
			a, err := wk.block(elseStmts(s), k, st.clone())
			if err != nil {
				return actNext, err
			}
			c, err := wk.block(s.Body.List, k, st.clone())
			if err != nil {
				return actNext, err
			}
			b.tail = &tail{kind: "opt", f: flag, a: a, b: c}
			return actDone, nil
		default:
			return actNext, wk.bad(s, "if condition differs from the bool written before it")
		}
		b.items = b.items[:len(b.items)-1]
		k := append([]frame{{stmts: rest, wk: wk}}, cont...)
		a, err := wk.block(s.Body.List, k, st.clone())
		if err != nil {
			return actNext, err
		}
		c, err := wk.block(elseStmts(s), k, st.clone())
		if err != nil {
			return actNext, err
		}
		b.tail = &tail{kind: "opt", f: flag, a: a, b: c}
		return actDone, nil
	}
	// decoder
	cond := s.Cond
	negated := false
	for {
		if p, ok := cond.(*ast.ParenExpr); ok {
			cond = p.X
			continue
		}
		if u, ok := cond.(*ast.UnaryExpr); ok && u.Op == token.NOT {
			negated = !negated
			cond = u.X
			continue
		}
		break
	}
	switch c := cond.(type) {
	case *ast.Ident:
		flagItem = st.bools[c.Name]
		if flagItem == nil {
			return actNext, wk.bad(s, "if on %s which is not a bool read from the wire", c.Name)
		}
	case *ast.SelectorExpr:
		p, ok := wk.fieldPath(c, st)
		if !ok {
			return actNext, wk.bad(s, "if condition outside the fragment")
		}
		if len(b.items) > 0 {
			last := b.items[len(b.items)-1]
			if last.kind == "prim" && last.prim == "PBool" && last.f.equal(&fx{kind: "path", path: p}) {
				flagItem = last
			}
		}
		if flagItem == nil {
			return actNext, wk.bad(s, "if on a field that was not just read as a bool")
		}
	case *ast.CallExpr:
		// if r.Ok() { / if util.PReadBoolVal(rd) {
		if !wk.isIOCall(c) {
			return actNext, wk.bad(s, "if condition outside the fragment")
		}
		tmp := &ast.Ident{Name: fmt.Sprintf("$cond%d", s.Pos()), NamePos: c.Pos()}
		if err := wk.ioCall(c, []ast.Expr{tmp}, st, b, s); err != nil {
			return actNext, err
		}
		flagItem = st.bools[tmp.Name]
		if flagItem == nil {
			return actNext, wk.bad(s, "if on a call that does not read a bool")
		}
	default:
		return actNext, wk.bad(s, "if condition outside the fragment")
	}
	if len(b.items) == 0 || b.items[len(b.items)-1] != flagItem {
		return actNext, wk.bad(s, "bool guarding the optional was not the last value read")
	}
	b.items = b.items[:len(b.items)-1]
	k := append([]frame{{stmts: rest, wk: wk}}, cont...)
	thenS, elseS := s.Body.List, elseStmts(s)
	if negated {
		thenS, elseS = elseS, thenS
	}
	// a flag that announces a value read into a LOCAL is named when that local is stored in a field
	var pendingFlag *fx
	if (flagItem.f.kind == "local" || flagItem.f.kind == "anon") && firstFilled(thenS, wk, st) == nil && firstFilled(elseS, wk, st) == nil {
		if ln := firstLocalAssigned(thenS); ln != "" {
			pendingFlag = &fx{kind: "has", path: []string{"$flag:" + ln}}
			st.flagOf[ln] = append(st.flagOf[ln], pendingFlag)
		}
	}
	// thenS runs when the wire bool is true
	a, err := wk.block(thenS, k, st.clone())
	if err != nil {
		return actNext, err
	}
	cblk, err := wk.block(elseS, k, st.clone())
	if err != nil {
		return actNext, err
	}
	flag = flagItem.f
	if flag.kind == "local" || flag.kind == "anon" {
		// name the flag after the first field that only one of the two branches fills
		fa, fb := firstFilled(thenS, wk, st), firstFilled(elseS, wk, st)
		switch {
		case pendingFlag != nil:
			flag = pendingFlag
		case fa != nil && (fb == nil || !samePath(fa, fb)):
			flag = &fx{kind: "has", path: fa}
		case fa == nil && fb != nil:
			flag = negFx(&fx{kind: "has", path: fb})
		default:
			return actNext, wk.bad(s, "cannot tell which field the bool read here announces")
		}
	}
	b.tail = &tail{kind: "opt", f: flag, a: a, b: cblk}
	return actDone, nil
}

// tagItem: the item of the current block that wrote / read the integer field e denotes (the tag of a choice)
func (wk *walker) tagItem(e ast.Expr, st *pstate, b *blk) *item {
	p, ok := wk.fieldPath(e, st)
	if !ok || len(p) == 0 {
		return nil
	}
	for _, it := range b.items {
		if (it.kind == "prim" || it.kind == "tag") && it.f != nil && it.f.kind == "path" && samePath(it.f.path, p) &&
			(it.prim == "PVarInt" || strings.HasPrefix(it.prim, "(PInt ")) {
			return it
		}
	}
	return nil
}

// switchStmt: `switch p.F { case K1: .. case K2, K3: .. default: .. }` on an integer field written / read earlier in
// this block becomes LTag .. (LSel K1 .. (LSel K2 .. (LSel K3 .. default))); a default that only returns an error is LFail,
// a missing default continues with the statements after the switch.
func (wk *walker) switchStmt(s *ast.SwitchStmt, rest []ast.Stmt, cont []frame, st *pstate, b *blk) (action, error) {
	if s.Init != nil || s.Tag == nil {
		return actNext, wk.bad(s, "switch without a tag expression")
	}
	it := wk.tagItem(s.Tag, st, b)
	if it == nil {
		return actNext, wk.bad(s, "switch on something that is not an integer field written or read earlier in this block")
	}
	kf := append([]frame{{stmts: rest, wk: wk}}, cont...)
	t := &tail{kind: "sel"}
	hasDefault := false
	seen := map[int64]bool{}
	for _, cs := range s.Body.List {
		cc, ok := cs.(*ast.CaseClause)
		if !ok {
			return actNext, wk.bad(cs, "switch body")
		}
		for _, st1 := range cc.Body {
			if br, ok := st1.(*ast.BranchStmt); ok {
				return actNext, wk.bad(br, "break / fallthrough in a switch")
			}
		}
		if cc.List == nil {
			hasDefault = true
			blkStmt := &ast.BlockStmt{List: cc.Body}
			if returnsError(blkStmt) {
				t.dflt = nil
				continue
			}
			d, err := wk.block(cc.Body, kf, st.clone())
			if err != nil {
				return actNext, err
			}
			t.dflt = d
			continue
		}
		for _, ce := range cc.List {
			k, err := wk.constInt(ce, st)
			if err != nil {
				return actNext, wk.bad(ce, "case label that is not an integer constant")
			}
			if seen[k] {
				return actNext, wk.bad(ce, "duplicate case label")
			}
			seen[k] = true
			cb, err := wk.block(cc.Body, kf, st.clone())
			if err != nil {
				return actNext, err
			}
			t.cases = append(t.cases, selCase{k, cb})
		}
	}
	if !hasDefault {
		d, err := wk.block(nil, kf, st.clone())
		if err != nil {
			return actNext, err
		}
		t.dflt = d
	}
	// canonical order of the cases (Encode and Decode may list them differently)
	sort.Slice(t.cases, func(i, j int) bool { return t.cases[i].k < t.cases[j].k })
	it.kind = "tag"
	b.tail = t
	return actDone, nil
}

// constBoolWrite: the first statement writes the constant true / false as a bool
func (wk *walker) constBoolWrite(stmts []ast.Stmt) (bool, bool) {
	if len(stmts) == 0 {
		return false, false
	}
	var call *ast.CallExpr
	switch x := stmts[0].(type) {
	case *ast.ExprStmt:
		call, _ = x.X.(*ast.CallExpr)
	case *ast.AssignStmt:
		if len(x.Rhs) == 1 {
			call, _ = x.Rhs[0].(*ast.CallExpr)
		}
	}
	if call == nil || !wk.isIOCall(call) || len(call.Args) == 0 {
		return false, false
	}
	sel := call.Fun.(*ast.SelectorExpr)
	switch sel.Sel.Name {
	case "WriteBool", "PWriteBool", "Bool":
	default:
		return false, false
	}
	id, ok := call.Args[len(call.Args)-1].(*ast.Ident)
	if !ok || (id.Name != "true" && id.Name != "false") {
		return false, false
	}
	return id.Name == "true", true
}

// firstLocalAssigned: name of the first local that receives the value of a call (x, err = f(..)) in a statement list
func firstLocalAssigned(stmts []ast.Stmt) string {
	for _, s := range stmts {
		if as, ok := s.(*ast.AssignStmt); ok && len(as.Rhs) == 1 {
			if _, isCall := as.Rhs[0].(*ast.CallExpr); isCall && len(as.Lhs) >= 1 {
				if id, ok := as.Lhs[0].(*ast.Ident); ok && id.Name != "_" && id.Name != "err" {
					return id.Name
				}
			}
		}
	}
	return ""
}

func samePath(a, b []string) bool { return strings.Join(a, "\x00") == strings.Join(b, "\x00") }

// firstFilled: the first receiver field assigned (from anything but nil) in a statement list, not descending into nested ifs on other conditions
func firstFilled(stmts []ast.Stmt, wk *walker, st *pstate) []string {
	for _, s := range stmts {
		switch s := s.(type) {
		case *ast.AssignStmt:
			for i, l := range s.Lhs {
				if p, ok := wk.fieldPath(l, st); ok && len(p) > len(wk.prefix) {
					if i < len(s.Rhs) {
						if id, ok := s.Rhs[i].(*ast.Ident); ok && id.Name == "nil" {
							continue
						}
					}
					return p
				}
			}
		case *ast.ExprStmt:
			// r.X(&p.F)
			if call, ok := s.X.(*ast.CallExpr); ok {
				for _, a := range call.Args {
					if u, ok := a.(*ast.UnaryExpr); ok && u.Op == token.AND {
						if p, ok := wk.fieldPath(u.X, st); ok && len(p) > len(wk.prefix) {
							return p
						}
					}
				}
			}
		case *ast.IfStmt:
			if s.Init != nil {
				if p := firstFilled([]ast.Stmt{s.Init}, wk, st); p != nil {
					return p
				}
			}
		}
	}
	return nil
}

// isFieldCompare: comparisons of a field with a constant used only for validation (p.ID >= 0 ...)
func (wk *walker) isFieldCompare(e ast.Expr, st *pstate) bool {
	be, ok := e.(*ast.BinaryExpr)
	if !ok {
		return false
	}
	switch be.Op {
	case token.LAND, token.LOR:
		return wk.isFieldCompare(be.X, st) && wk.isFieldCompare(be.Y, st)
	case token.EQL, token.NEQ, token.LSS, token.GTR, token.LEQ, token.GEQ:
		x := be.X
		if call, ok := x.(*ast.CallExpr); ok {
			if id, ok := call.Fun.(*ast.Ident); ok && id.Name == "len" && len(call.Args) == 1 {
				x = call.Args[0]
			}
		}
		p, ok := wk.fieldPath(x, st)
		if !ok || len(p) == 0 {
			return false
		}
		if _, err := wk.constInt(be.Y, st); err == nil {
			return true
		}
		if bl, ok := be.Y.(*ast.BasicLit); ok && bl.Kind == token.STRING {
			return true
		}
		if sel, ok := be.Y.(*ast.SelectorExpr); ok {
			if x, ok := sel.X.(*ast.Ident); ok && x.Name == "uuid" && sel.Sel.Name == "Nil" {
				return true
			}
		}
	}
	return false
}

// countCheck: n < 0, n > K, n < 0 || n > K on a count local
func (wk *walker) countCheck(e ast.Expr, st *pstate) (bool, error) {
	be, ok := e.(*ast.BinaryExpr)
	if !ok {
		return false, nil
	}
	if be.Op == token.LOR {
		a, err := wk.countCheck(be.X, st)
		if !a || err != nil {
			return a, err
		}
		return wk.countCheck(be.Y, st)
	}
	id, ok := be.X.(*ast.Ident)
	if !ok {
		return false, nil
	}
	it := st.counts[id.Name]
	if it == nil {
		return false, nil
	}
	k, err := wk.constInt(be.Y, st)
	if err != nil {
		return false, nil
	}
	switch {
	case be.Op == token.LSS && k == 0:
		it.opts.neg = true
	case be.Op == token.GTR && k >= 0:
		it.opts.cap = fmt.Sprintf("(Some %d)", k)
	case be.Op == token.GEQ && k >= 1:
		it.opts.cap = fmt.Sprintf("(Some %d)", k-1)
	default:
		return false, nil
	}
	return true, nil
}

// ---------- I/O calls ----------

type primSpec struct {
	prim   string // Coq lprim term; %d for the cap argument
	capArg bool   // reader takes a max argument
	kind   string // "" | bool | count-capable | rest
}

var writePrims = map[string]primSpec{
	"VarInt": {prim: "PVarInt"}, "String": {prim: "(PString 65536)"}, "Bytes": {prim: "(PBytes 65536)"}, "Bool": {prim: "PBool"},
	"Byte": {prim: "(PInt 1 false)"}, "Uint8": {prim: "(PInt 1 false)"}, "Int8": {prim: "(PInt 1 true)"},
	"Int16": {prim: "(PInt 2 true)"}, "Uint16": {prim: "(PInt 2 false)"}, "Int32": {prim: "(PInt 4 true)"}, "Int": {prim: "(PInt 4 true)"},
	"Uint32": {prim: "(PInt 4 false)"}, "Int64": {prim: "(PInt 8 true)"}, "Uint64": {prim: "(PInt 8 false)"},
	"Float32": {prim: "(PInt 4 false)"}, "Float64": {prim: "(PInt 8 false)"},
	"UUID": {prim: "PUUID"}, "UUIDIntArray": {prim: "PUUID"}, "Key": {prim: "PKey"},
	"CompNbt": {prim: "PNbt"}, "CompJson": {prim: "(PString 65536)"},
}

var readPrims = map[string]primSpec{
	"VarInt": {prim: "PVarInt"}, "String": {prim: "(PString 65536)"}, "StringMax": {prim: "(PString %d)", capArg: true},
	"Bytes": {prim: "(PBytes 65536)"}, "BytesLen": {prim: "(PBytes %d)", capArg: true}, "Bool": {prim: "PBool"},
	"Byte": {prim: "(PInt 1 false)"}, "Uint8": {prim: "(PInt 1 false)"}, "Int8": {prim: "(PInt 1 true)"},
	"Int16": {prim: "(PInt 2 true)"}, "Uint16": {prim: "(PInt 2 false)"}, "Int32": {prim: "(PInt 4 true)"}, "Int": {prim: "(PInt 4 true)"},
	"Uint32": {prim: "(PInt 4 false)"}, "Int64": {prim: "(PInt 8 true)"}, "Uint64": {prim: "(PInt 8 false)"},
	"Float32": {prim: "(PInt 4 false)"}, "Float64": {prim: "(PInt 8 false)"}, "UnixMilli": {prim: "(PInt 8 true)"},
	"UUID": {prim: "PUUID"}, "UUIDIntArray": {prim: "PUUID"}, "Key": {prim: "PKey"},
	"CompNbt": {prim: "PNbt"}, "CompJson": {prim: "(PString 65536)"},
}

// isIOCall: util.WriteX / util.ReadX / util.PWriteX / util.PReadX / w.X / r.X / wr.Write / io.ReadAll
func (wk *walker) isIOCall(call *ast.CallExpr) bool {
	sel, ok := call.Fun.(*ast.SelectorExpr)
	if !ok {
		return false
	}
	x, ok := sel.X.(*ast.Ident)
	if !ok {
		return false
	}
	if x.Name == wk.util || wk.pw[x.Name] {
		return true
	}
	if x.Name == wk.io && wk.io != "" && sel.Sel.Name == "Write" {
		return true
	}
	if x.Name == "io" && sel.Sel.Name == "ReadAll" {
		return true
	}
	return false
}

// composite util helpers, expanded to layouts (reader side options as in reader.go)
func (wk *walker) composite(name string, f *fx, st *pstate, pos token.Pos) *item {
	elem := func(p string) *blk {
		return &blk{items: []*item{{kind: "prim", f: &fx{kind: "path", path: append(append([]string{}, f.path...), "#")}, prim: p, pos: pos}}}
	}
	dec := wk.side == decSide
	opts := repOpts{cap: "None"}
	if dec {
		opts = repOpts{cap: "None", neg: true, pre: 32768}
	}
	switch name {
	case "Strings", "StringArray":
		return &item{kind: "rep", f: f, opts: opts, body: elem("(PString 65536)"), pos: pos}
	case "VarIntArray", "IntArray":
		return &item{kind: "rep", f: f, opts: opts, body: elem("PVarInt"), pos: pos}
	case "KeyArray":
		return &item{kind: "rep", f: f, opts: opts, body: elem("PKey"), pos: pos}
	case "Properties":
		sub := func(n string) *fx { return &fx{kind: "path", path: append(append([]string{}, f.path...), "#", n)} }
		has := &fx{kind: "has", path: sub("Signature").path}
		body := &blk{items: []*item{
			{kind: "prim", f: sub("Name"), prim: "(PString 65536)", pos: pos},
			{kind: "prim", f: sub("Value"), prim: "(PString 65536)", pos: pos},
		}, tail: &tail{kind: "opt", f: has,
			a: &blk{items: []*item{{kind: "prim", f: sub("Signature"), prim: "(PString 65536)", pos: pos}}},
			b: &blk{}}}
		return &item{kind: "rep", f: f, opts: opts, body: body, pos: pos}
	}
	return nil
}

// valueExpr: the field expression an encoder argument denotes, with the conversions peeled off
func (wk *walker) valueExpr(e ast.Expr, st *pstate) (*fx, bool, error) {
	isConst := false
	for {
		switch x := e.(type) {
		case *ast.ParenExpr:
			e = x.X
			continue
		case *ast.CallExpr:
			// conversions int(x), byte(x), int16(x) ..., string(x), []byte(x); x.UnixMilli(); len(x)
			if id, ok := x.Fun.(*ast.Ident); ok && len(x.Args) == 1 {
				switch id.Name {
				case "int", "int8", "int16", "int32", "int64", "uint8", "byte", "uint16", "uint32", "uint64", "string":
					e = x.Args[0]
					continue
				}
			}
			if s, ok := x.Fun.(*ast.SelectorExpr); ok && len(x.Args) == 0 && s.Sel.Name == "UnixMilli" {
				e = s.X
				continue
			}
			if s, ok := x.Fun.(*ast.SelectorExpr); ok && len(x.Args) == 1 {
				// pkgfunc(p.F): a pure normaliser applied to the field (named in the layout, evaluated by the judge)
				if id, ok := s.X.(*ast.Ident); ok && id.Name != wk.util {
					if p, ok := wk.fieldPath(x.Args[0], st); ok {
						return &fx{kind: "fun", fun: s.Sel.Name, path: p}, false, nil
					}
				}
			}
			if id, ok := x.Fun.(*ast.Ident); ok && len(x.Args) == 1 && id.Name != "len" {
				if p, ok := wk.fieldPath(x.Args[0], st); ok {
					return &fx{kind: "fun", fun: id.Name, path: p}, false, nil
				}
			}
		case *ast.ArrayType:
		}
		break
	}
	if cl, ok := e.(*ast.CallExpr); ok {
		if at, ok := cl.Fun.(*ast.ArrayType); ok && len(cl.Args) == 1 {
			_ = at
			return wk.valueExpr(cl.Args[0], st)
		}
	}
	switch x := e.(type) {
	case *ast.Ident:
		if x.Name == "true" || x.Name == "false" {
			isConst = true
			return &fx{kind: "anon"}, isConst, nil
		}
		if _, ok := wk.pk.consts[x.Name]; ok {
			return &fx{kind: "anon"}, true, nil
		}
	case *ast.BasicLit:
		return &fx{kind: "anon"}, true, nil
	}
	if p, ok := wk.fieldPath(e, st); ok && len(p) > 0 {
		return &fx{kind: "path", path: p}, false, nil
	}
	if f, err := wk.pred(e, st); err == nil {
		return f, false, nil
	}
	return nil, false, fmt.Errorf("argument is not a field")
}

func constAtom(e ast.Expr, wk *walker) string {
	switch x := e.(type) {
	case *ast.Ident:
		if x.Name == "true" {
			return "(ABool true)"
		}
		if x.Name == "false" {
			return "(ABool false)"
		}
		if ce, ok := wk.pk.consts[x.Name]; ok {
			return constAtom(ce, wk)
		}
	case *ast.BasicLit:
		if x.Kind == token.INT {
			return "(AZ " + x.Value + ")"
		}
	}
	return ""
}

// ioCall translates one read / write call. targets: the left-hand sides receiving the value (decoder), nil for statements.
func (wk *walker) ioCall(call *ast.CallExpr, targets []ast.Expr, st *pstate, b *blk, at ast.Node) error {
	sel, ok := call.Fun.(*ast.SelectorExpr)
	if !ok {
		return wk.bad(at, "call of %T", call.Fun)
	}
	x, ok := sel.X.(*ast.Ident)
	if !ok {
		return wk.bad(at, "call %s", lxExprString(call.Fun))
	}
	name := sel.Sel.Name
	args := call.Args
	viaPanic := wk.pw[x.Name]
	switch {
	case x.Name == wk.io && wk.io != "" && name == "Write" && wk.side == encSide:
		name, args = "RawBytes", call.Args
	case x.Name == "io" && name == "ReadAll" && wk.side == decSide:
		name = "RawBytes"
		args = nil
		// io.ReadAll(rd) or io.ReadAll(io.LimitReader(rd, K+1))
		lim := "None"
		if len(call.Args) == 1 {
			if lc, ok := call.Args[0].(*ast.CallExpr); ok {
				if ls, ok := lc.Fun.(*ast.SelectorExpr); ok && ls.Sel.Name == "LimitReader" && len(lc.Args) == 2 {
					k, err := wk.constInt(lc.Args[1], st)
					if err != nil {
						return wk.bad(at, "LimitReader with a non-constant limit")
					}
					lim = fmt.Sprintf("(Some %d%%N)", k-1)
				} else {
					return wk.bad(at, "io.ReadAll of an unexpected reader")
				}
			}
		}
		return wk.emitRest(targets, lim, st, b, at)
	case x.Name == wk.util:
		switch {
		case strings.HasPrefix(name, "PWrite") && wk.side == encSide:
			name, args = name[6:], args[1:]
		case strings.HasPrefix(name, "Write") && wk.side == encSide:
			name, args = name[5:], args[1:]
		case strings.HasPrefix(name, "PRead") && wk.side == decSide:
			name, args = name[5:], args[1:]
			if strings.HasSuffix(name, "Val") {
				name = strings.TrimSuffix(name, "Val")
			} else if len(args) >= 1 {
				// util.PReadString(rd, &p.F)
				targets, args = []ast.Expr{args[0]}, args[1:]
			}
		case name == "PVarInt" && wk.side == decSide:
			name, targets, args = "VarInt", []ast.Expr{args[1]}, nil
		case strings.HasPrefix(name, "Read") && wk.side == decSide:
			name, args = name[4:], args[1:]
		default:
			return wk.bad(at, "call util.%s", name)
		}
	case viaPanic:
		if wk.side == decSide {
			if name == "Ok" {
				name = "Bool"
			} else if len(args) >= 1 {
				targets, args = []ast.Expr{args[0]}, args[1:]
			}
		}
	default:
		return wk.bad(at, "call %s", lxExprString(call.Fun))
	}

	if wk.side == encSide {
		if name == "RawBytes" {
			if len(args) != 1 {
				return wk.bad(at, "raw write")
			}
			f, _, err := wk.valueExpr(args[0], st)
			if err != nil || (f.kind != "path" && f.kind != "fun") {
				return wk.bad(at, "raw write of something that is not a field")
			}
			b.items = append(b.items, &item{kind: "rest", f: f, pos: at.Pos()})
			return nil
		}
		if name == "Bytes17" {
			if len(args) != 2 {
				return wk.bad(at, "WriteBytes17 arguments")
			}
			f, _, err := wk.valueExpr(args[0], st)
			if err != nil || f.kind != "path" {
				return wk.bad(at, "WriteBytes17 of something that is not a field")
			}
			b.items = append(b.items, &item{kind: "prim", f: f, prim: "PBytes17", pos: at.Pos()})
			return nil
		}
		if len(args) != 1 {
			return wk.bad(at, "write call with %d value arguments", len(args))
		}
		// len(p.F) as VarInt: the count of a loop that must follow
		if name == "VarInt" {
			if lc, ok := args[0].(*ast.CallExpr); ok {
				if id, ok := lc.Fun.(*ast.Ident); ok && id.Name == "len" && len(lc.Args) == 1 {
					p, ok := wk.fieldPath(lc.Args[0], st)
					if !ok {
						return wk.bad(at, "len of something that is not a field")
					}
					b.items = append(b.items, &item{kind: "count", f: &fx{kind: "path", path: p}, pos: at.Pos()})
					return nil
				}
			}
		}
		if name == "String" {
			if mc, ok := args[0].(*ast.CallExpr); ok && len(mc.Args) == 0 {
				if ms, ok := mc.Fun.(*ast.SelectorExpr); ok && (ms.Sel.Name == "String" || ms.Sel.Name == "Undashed") {
					if p, ok := wk.fieldPath(ms.X, st); ok && len(p) > 0 && p[len(p)-1] == "UUID" {
						prim := "(PUUIDStr true)"
						if ms.Sel.Name == "Undashed" {
							prim = "(PUUIDStr false)"
						}
						b.items = append(b.items, &item{kind: "prim", f: &fx{kind: "path", path: p}, prim: prim, pos: at.Pos()})
						return nil
					}
				}
			}
		}
		f, isConst, err := wk.valueExpr(args[0], st)
		if err != nil {
			return wk.bad(at, "write of an expression outside the fragment")
		}
		if c := wk.composite(name, f, st, at.Pos()); c != nil {
			if f.kind != "path" {
				return wk.bad(at, "array helper on something that is not a field")
			}
			b.items = append(b.items, c)
			return nil
		}
		ps, ok := writePrims[name]
		if !ok {
			return wk.bad(at, "writer %s has no primitive", name)
		}
		if isConst {
			k := constAtom(args[0], wk)
			if k == "" {
				return wk.bad(at, "constant of unknown value")
			}
			b.items = append(b.items, &item{kind: "const", prim: ps.prim, konst: k, pos: at.Pos()})
			return nil
		}
		if (f.kind == "has" || f.kind == "neg") && ps.prim != "PBool" {
			return wk.bad(at, "predicate written with a non-bool writer")
		}
		b.items = append(b.items, &item{kind: "prim", f: f, prim: ps.prim, pos: at.Pos()})
		return nil
	}

	// ----- decoder -----
	if name == "RawBytes" || name == "StringWithoutLen" {
		return wk.emitRest(targets, "None", st, b, at)
	}
	if name == "Bytes17" {
		return wk.emitRead(&item{kind: "prim", prim: "PBytes17", pos: at.Pos()}, targets, st, b, at)
	}
	if c := wk.composite(name, &fx{kind: "path"}, st, at.Pos()); c != nil {
		if len(targets) == 0 {
			return wk.bad(at, "array read without target")
		}
		p, ok := wk.fieldPath(stripAddr(targets[0]), st)
		if !ok || len(p) == 0 {
			return wk.bad(at, "array read into something that is not a field")
		}
		c = wk.composite(name, &fx{kind: "path", path: p}, st, at.Pos())
		b.items = append(b.items, c)
		return nil
	}
	ps, ok := readPrims[name]
	if !ok {
		return wk.bad(at, "reader %s has no primitive", name)
	}
	prim := ps.prim
	if ps.capArg {
		if len(args) != 1 {
			return wk.bad(at, "reader %s without its limit", name)
		}
		k, err := wk.constInt(args[0], st)
		if err != nil {
			return wk.bad(at, "reader %s with a non-constant limit", name)
		}
		prim = fmt.Sprintf(ps.prim, k)
	} else if len(args) != 0 {
		return wk.bad(at, "reader %s with unexpected arguments", name)
	}
	return wk.emitRead(&item{kind: "prim", prim: prim, pos: at.Pos()}, targets, st, b, at)
}

func stripAddr(e ast.Expr) ast.Expr {
	if u, ok := e.(*ast.UnaryExpr); ok && u.Op == token.AND {
		return u.X
	}
	return e
}

func (wk *walker) emitRest(targets []ast.Expr, lim string, st *pstate, b *blk, at ast.Node) error {
	it := &item{kind: "rest", konst: lim, pos: at.Pos()}
	return wk.emitRead(it, targets, st, b, at)
}

// emitRead appends a read item and binds its value to the target (field, local, or dropped)
func (wk *walker) emitRead(it *item, targets []ast.Expr, st *pstate, b *blk, at ast.Node) error {
	var tgt ast.Expr
	for _, t := range targets {
		if id, ok := t.(*ast.Ident); ok && id.Name == "err" {
			continue
		}
		if tgt != nil {
			return wk.bad(at, "read with several value targets")
		}
		tgt = t
	}
	b.items = append(b.items, it)
	if tgt == nil {
		// value dropped: only legal for a constant the encoder writes
		if it.kind != "prim" {
			return wk.bad(at, "dropped read of a non-primitive")
		}
		it.kind, it.konst = "const", "(ABool false)"
		return nil
	}
	tgt = stripAddr(tgt)
	if id, ok := tgt.(*ast.Ident); ok {
		if id.Name == "_" {
			if it.kind != "prim" {
				return wk.bad(at, "dropped read of a non-primitive")
			}
			it.kind, it.konst = "const", "(ABool false)"
			return nil
		}
		if _, isVar := st.vars[id.Name]; !isVar {
			it.f = &fx{kind: "local", local: id.Name}
			st.locals[id.Name] = it
			delete(st.nils, id.Name)
			if it.prim == "PVarInt" {
				it.opts = repOpts{cap: "None"}
				st.counts[id.Name] = it
			}
			if it.prim == "PBool" {
				st.bools[id.Name] = it
			}
			return nil
		}
	}
	p, ok := wk.fieldPath(tgt, st)
	if !ok || len(p) == 0 {
		return wk.bad(at, "read into something that is neither a field nor a local")
	}
	it.f = &fx{kind: "path", path: p}
	return nil
}

// assign handles assignments that are not plain declarations
func (wk *walker) assign(s *ast.AssignStmt, st *pstate, b *blk) error {
	// value(s), err = call
	if len(s.Rhs) == 1 {
		if call, ok := s.Rhs[0].(*ast.CallExpr); ok && wk.isPanicCtor(call) && len(s.Lhs) == 1 {
			if id, ok := s.Lhs[0].(*ast.Ident); ok {
				wk.pw[id.Name] = true
				return nil
			}
		}
		if call, ok := s.Rhs[0].(*ast.CallExpr); ok && (wk.isIOCall(call) || wk.isNestedCall(call)) {
			return wk.ioCall(call, s.Lhs, st, b, s)
		}
	}
	// p.F, err = uuid.Parse(local)  where local was read by ReadStringMax(rd, 36 / 32)
	if len(s.Rhs) == 1 && len(s.Lhs) == 2 && wk.side == decSide {
		if call, ok := s.Rhs[0].(*ast.CallExpr); ok && lxExprString(call.Fun) == "uuid.Parse" && len(call.Args) == 1 {
			id, _ := call.Args[0].(*ast.Ident)
			p, okp := wk.fieldPath(s.Lhs[0], st)
			if id != nil && okp && len(p) > 0 {
				it := st.locals[id.Name]
				if it != nil && it.f.kind == "local" && (it.prim == "(PString 36)" || it.prim == "(PString 32)") {
					it.prim = map[string]string{"(PString 36)": "(PUUIDStr true)", "(PString 32)": "(PUUIDStr false)"}[it.prim]
					it.f = &fx{kind: "path", path: p}
					delete(st.locals, id.Name)
					return nil
				}
			}
			return wk.bad(s, "uuid.Parse of something that is not a 36/32 character string just read")
		}
	}
	if len(s.Lhs) != len(s.Rhs) {
		return wk.bad(s, "assignment shape")
	}
	for i := range s.Lhs {
		if err := wk.assign1(s, s.Lhs[i], s.Rhs[i], st, b); err != nil {
			return err
		}
	}
	return nil
}

func (wk *walker) isNestedCall(call *ast.CallExpr) bool {
	sel, ok := call.Fun.(*ast.SelectorExpr)
	if !ok {
		return false
	}
	return sel.Sel.Name == "Encode" || sel.Sel.Name == "Decode"
}

// storeElem: `slice = append(slice, elem)` / `slice[i] = elem` inside a decoding loop
func (wk *walker) storeElem(s ast.Stmt, slice []string, elem ast.Expr, st *pstate) error {
	if wk.inLoop == nil {
		return wk.bad(s, "append outside a loop")
	}
	if wk.inLoop.path != nil && !samePath(wk.inLoop.path, slice) {
		return wk.bad(s, "loop fills two slices")
	}
	wk.inLoop.path = append([]string{}, slice...)
	cur := append(append([]string{}, slice...), "#")
	bind := func(e ast.Expr, to []string) error {
		for {
			switch x := e.(type) {
			case *ast.ParenExpr:
				e = x.X
				continue
			case *ast.UnaryExpr:
				if x.Op == token.AND || x.Op == token.MUL {
					e = x.X
					continue
				}
			case *ast.StarExpr:
				e = x.X
				continue
			}
			break
		}
		id, ok := e.(*ast.Ident)
		if !ok {
			return wk.bad(s, "element built from an expression outside the fragment")
		}
		if v, ok := st.vars[id.Name]; ok && len(v) == 1 && strings.HasPrefix(v[0], "$elem:") {
			if len(to) != len(cur) {
				return wk.bad(s, "element temporary stored in a sub-field")
			}
			return nil // replaced by the current element when the loop ends
		}
		for _, fl := range st.flagOf[id.Name] {
			fl.path = append([]string{}, to...) // the optional's flag announces this field
		}
		it := st.locals[id.Name]
		if it == nil && st.nils[id.Name] {
			return nil // reset to nil and not read on this path: the field stays absent
		}
		if it != nil && it.f != nil && it.f.kind == "path" && samePath(it.f.path, to) {
			return nil // the sibling branch of an optional already stored this very value in the same field
		}
		if it == nil || it.f == nil || it.f.kind != "local" {
			return wk.bad(s, "element field %s filled from %s which holds no freshly read value on this path", to[len(to)-1], id.Name)
		}
		it.f = &fx{kind: "path", path: to}
		return nil
	}
	if cl, ok := elem.(*ast.CompositeLit); ok {
		for _, el := range cl.Elts {
			kv, ok := el.(*ast.KeyValueExpr)
			if !ok {
				return wk.bad(s, "positional composite literal")
			}
			k, ok := kv.Key.(*ast.Ident)
			if !ok {
				return wk.bad(s, "composite literal key")
			}
			if err := bind(kv.Value, append(append([]string{}, cur...), k.Name)); err != nil {
				return err
			}
		}
		return nil
	}
	return bind(elem, cur)
}

func (wk *walker) slicePathOf(e ast.Expr, st *pstate) ([]string, bool) {
	if p, ok := wk.fieldPath(e, st); ok && len(p) > 0 {
		return p, true
	}
	if id, ok := e.(*ast.Ident); ok && id.Name != "_" {
		return []string{"$slice:" + id.Name}, true
	}
	return nil, false
}

func (wk *walker) assign1(s *ast.AssignStmt, lhs, rhs ast.Expr, st *pstate, b *blk) error {
	if call, ok := rhs.(*ast.CallExpr); ok {
		if ok, err := wk.makeCall(lhs, call, st); ok || err != nil {
			return err
		}
		// x = append(x, elem)
		if id, ok := call.Fun.(*ast.Ident); ok && id.Name == "append" && len(call.Args) == 2 && wk.side == decSide {
			p1, ok1 := wk.slicePathOf(lhs, st)
			p2, ok2 := wk.slicePathOf(call.Args[0], st)
			if ok1 && ok2 && samePath(p1, p2) {
				return wk.storeElem(s, p1, call.Args[1], st)
			}
			return wk.bad(s, "append to a different slice")
		}
	}
	// x[i] = elem
	if ix, ok := lhs.(*ast.IndexExpr); ok && wk.side == decSide {
		if iv, ok := ix.Index.(*ast.Ident); ok {
			if _, bound := st.idx[iv.Name]; bound {
				if p, ok := wk.slicePathOf(ix.X, st); ok {
					return wk.storeElem(s, p, rhs, st)
				}
			}
		}
	}
	// p.F = localSlice (after the loop that filled it)
	if rid, ok := rhs.(*ast.Ident); ok && wk.side == decSide {
		alias := "$slice:" + rid.Name
		used := false
		for _, it := range b.items {
			if it.kind == "rep" && it.f != nil && len(it.f.path) == 1 && it.f.path[0] == alias {
				used = true
			}
		}
		if used {
			p, ok := wk.fieldPath(lhs, st)
			if !ok || len(p) == 0 {
				return wk.bad(s, "slice filled by a loop is stored in something that is not a field")
			}
			substPrefix(b, []string{alias}, p)
			return nil
		}
	}
	// local = nil : the local now denotes an absent optional value
	if id, ok := lhs.(*ast.Ident); ok && wk.side == decSide {
		if r, ok := rhs.(*ast.Ident); ok && r.Name == "nil" && id.Name != "_" && id.Name != "err" {
			if _, isVar := st.vars[id.Name]; !isVar {
				delete(st.locals, id.Name)
				st.nils[id.Name] = true
				return nil
			}
		}
	}
	// local definitions
	if id, ok := lhs.(*ast.Ident); ok {
		if id.Name == "_" {
			if call, ok := rhs.(*ast.CallExpr); ok && wk.isIOCall(call) {
				return wk.ioCall(call, []ast.Expr{lhs}, st, b, s)
			}
			return wk.bad(s, "blank assignment")
		}
		if id.Name == "err" {
			if call, ok := rhs.(*ast.CallExpr); ok {
				return wk.ioCall(call, nil, st, b, s)
			}
			return wk.bad(s, "err assigned from %T", rhs)
		}
		if _, isVar := st.vars[id.Name]; !isVar {
			return wk.define(id.Name, rhs, st, b, s)
		}
	}
	if wk.side == encSide {
		return wk.bad(s, "assignment in an encoder")
	}
	p, ok := wk.fieldPath(lhs, st)
	if !ok || len(p) == 0 {
		return wk.bad(s, "assignment to something that is not a field")
	}
	// p.F = nil / zero value: nothing on the wire
	if id, ok := rhs.(*ast.Ident); ok && id.Name == "nil" {
		return nil
	}
	// p.F = conv(local) / &local / !local / call(local) / PReadXVal(rd)
	e := rhs
	var conv []string
	neg := false
	fun := ""
	for {
		switch x := e.(type) {
		case *ast.ParenExpr:
			e = x.X
			continue
		case *ast.UnaryExpr:
			if x.Op == token.AND {
				e = x.X
				continue
			}
			if x.Op == token.NOT {
				neg = !neg
				e = x.X
				continue
			}
		case *ast.CallExpr:
			if wk.isIOCall(x) {
				n := len(b.items)
				tmp := &ast.Ident{Name: fmt.Sprintf("$tmp%d", x.Pos()), NamePos: x.Pos()}
				if err := wk.ioCall(x, []ast.Expr{tmp}, st, b, s); err != nil {
					return err
				}
				if len(b.items) != n+1 {
					return wk.bad(s, "read inside an expression")
				}
				e = tmp
				continue
			}
			if len(x.Args) == 1 {
				switch f := x.Fun.(type) {
				case *ast.Ident:
					if isBasicConv(f.Name) || wk.pk.intTypes[f.Name] {
						conv = append(conv, f.Name)
						e = x.Args[0]
						continue
					}
					fun = f.Name
					e = x.Args[0]
					continue
				case *ast.SelectorExpr:
					if id, ok := f.X.(*ast.Ident); ok {
						if id.Name == "time" && f.Sel.Name == "UnixMilli" {
							e = x.Args[0]
							continue
						}
						if id.Name == "json" && f.Sel.Name == "RawMessage" {
							e = x.Args[0]
							continue
						}
						if id.Name != wk.util {
							fun = f.Sel.Name
							e = x.Args[0]
							continue
						}
					}
				case *ast.ArrayType:
					e = x.Args[0]
					continue
				}
			}
		}
		break
	}
	if id, ok := e.(*ast.Ident); ok {
		it := st.locals[id.Name]
		if it == nil {
			return wk.bad(s, "field assigned from %s which does not hold a value read from the wire", id.Name)
		}
		if it.f.kind != "local" {
			if it.f.kind == "path" && samePath(it.f.path, p) {
				return nil
			}
			return wk.bad(s, "local %s stored in two fields", id.Name)
		}
		it.f = &fx{kind: "path", path: p}
		if fun != "" {
			it.f = &fx{kind: "fun", fun: fun, path: p}
		}
		if neg {
			it.f = negFx(it.f)
		}
		it.conv = conv
		applyConv(it)
		delete(st.locals, id.Name)
		return nil
	}
	// p.F = f(p.F): normaliser applied after reading the same field
	if fun != "" {
		if q, ok := wk.fieldPath(e, st); ok && samePath(q, p) {
			for i := len(b.items) - 1; i >= 0; i-- {
				if b.items[i].f != nil && b.items[i].f.kind == "path" && samePath(b.items[i].f.path, p) {
					b.items[i].f = &fx{kind: "fun", fun: fun, path: p}
					return nil
				}
			}
			return wk.bad(s, "normaliser applied to a field that was not read in this block")
		}
	}
	return wk.bad(s, "field assigned from an expression outside the fragment")
}

func isBasicConv(n string) bool {
	switch n {
	case "int", "int8", "int16", "int32", "int64", "uint8", "byte", "uint16", "uint32", "uint64", "string":
		return true
	}
	return false
}

// applyConv: an unsigned conversion of the reader's width makes the value unsigned
func applyConv(it *item) {
	for _, c := range it.conv {
		switch {
		case c == "uint16" && it.prim == "(PInt 2 true)":
			it.prim = "(PInt 2 false)"
		case c == "uint32" && it.prim == "(PInt 4 true)":
			it.prim = "(PInt 4 false)"
		case (c == "uint8" || c == "byte") && it.prim == "(PInt 1 true)":
			it.prim = "(PInt 1 false)"
		case c == "uint64" && it.prim == "(PInt 8 true)":
			it.prim = "(PInt 8 false)"
		}
	}
}

// ---------- static types (just enough to find the method a nested call refers to) ----------

func lxRecvTypeName(fd *ast.FuncDecl) string {
	if fd.Recv == nil || len(fd.Recv.List) != 1 {
		return ""
	}
	t := fd.Recv.List[0].Type
	if st, ok := t.(*ast.StarExpr); ok {
		t = st.X
	}
	if id, ok := t.(*ast.Ident); ok {
		return id.Name
	}
	return ""
}

// resolveType turns a type expression of a file of pk into a named struct type of the module (elements of slices, pointees)
func (w *world) resolveType(pk *pkgInfo, file *ast.File, e ast.Expr) (typeRef, bool) {
	switch t := e.(type) {
	case *ast.StarExpr:
		return w.resolveType(pk, file, t.X)
	case *ast.ArrayType:
		return w.resolveType(pk, file, t.Elt)
	case *ast.Ident:
		if _, ok := pk.structs[t.Name]; ok {
			return typeRef{pk, t.Name}, true
		}
	case *ast.SelectorExpr:
		x, ok := t.X.(*ast.Ident)
		if !ok || file == nil {
			return typeRef{}, false
		}
		ipath, ok := pk.imports[file][x.Name]
		const mod = "go.minekube.com/gate/"
		if !ok || !strings.HasPrefix(ipath, mod) {
			return typeRef{}, false
		}
		q, err := w.loadPkg(filepath.Join(w.repo, strings.TrimPrefix(ipath, mod)))
		if err != nil {
			return typeRef{}, false
		}
		if _, ok := q.structs[t.Sel.Name]; ok {
			return typeRef{q, t.Sel.Name}, true
		}
	}
	return typeRef{}, false
}

func (w *world) fieldType(t typeRef, field string) (typeRef, bool) {
	st := t.pk.structs[t.name]
	if st == nil {
		return typeRef{}, false
	}
	var file *ast.File
	for _, f := range t.pk.files {
		if f.Pos() <= st.Pos() && st.Pos() <= f.End() {
			file = f
		}
	}
	for _, f := range st.Fields.List {
		for _, n := range f.Names {
			if n.Name == field {
				return w.resolveType(t.pk, file, f.Type)
			}
		}
	}
	return typeRef{}, false
}

// typeOfExpr: static type of p.F.G / loop variable / element temporary
func (wk *walker) typeOfExpr(e ast.Expr, st *pstate) (typeRef, bool) {
	switch e := e.(type) {
	case *ast.ParenExpr:
		return wk.typeOfExpr(e.X, st)
	case *ast.StarExpr:
		return wk.typeOfExpr(e.X, st)
	case *ast.UnaryExpr:
		if e.Op == token.AND {
			return wk.typeOfExpr(e.X, st)
		}
	case *ast.Ident:
		if t, ok := st.types[e.Name]; ok {
			return t, true
		}
		if e.Name == wk.recv && wk.recv != "" {
			return wk.rtype, wk.rtype.name != ""
		}
	case *ast.SelectorExpr:
		t, ok := wk.typeOfExpr(e.X, st)
		if !ok {
			return typeRef{}, false
		}
		return wk.w.fieldType(t, e.Sel.Name)
	case *ast.IndexExpr:
		return wk.typeOfExpr(e.X, st) // element type: resolveType already stripped the slice
	}
	return typeRef{}, false
}

// ---------- nested method calls: x.Encode(c, wr), pack.Write(wr), j.encode116Up(c, wr) ----------

// nestedCall recognises the statement shapes that only consist of a call of a method of a module type on a
// receiver-rooted expression:  x.M(..)  |  err = x.M(..)  |  err := x.M(..)  |  return x.M(..)
func (wk *walker) nestedCall(s ast.Stmt, st *pstate) (*callInfo, error) {
	var call *ast.CallExpr
	isRet := false
	switch s := s.(type) {
	case *ast.ExprStmt:
		call, _ = s.X.(*ast.CallExpr)
	case *ast.AssignStmt:
		if len(s.Lhs) == 1 && len(s.Rhs) == 1 {
			if id, ok := s.Lhs[0].(*ast.Ident); ok && id.Name == "err" {
				call, _ = s.Rhs[0].(*ast.CallExpr)
			}
		}
	case *ast.ReturnStmt:
		if len(s.Results) == 1 {
			call, _ = s.Results[0].(*ast.CallExpr)
			isRet = true
		}
	}
	if call == nil {
		return nil, nil
	}
	sel, ok := call.Fun.(*ast.SelectorExpr)
	if !ok {
		return nil, nil
	}
	if x, ok := sel.X.(*ast.Ident); ok && (x.Name == wk.util || wk.pw[x.Name] || x.Name == wk.io || x.Name == "io" || x.Name == "fmt" || x.Name == "errors") {
		return nil, nil
	}
	path, ok := wk.fieldPath(sel.X, st)
	if !ok {
		return nil, nil
	}
	t, ok := wk.typeOfExpr(sel.X, st)
	if !ok {
		return nil, nil // not a module struct type (component holders etc. are handled elsewhere)
	}
	fd := t.pk.methods[t.name][sel.Sel.Name]
	if fd == nil || fd.Body == nil {
		return nil, nil
	}
	if wk.depth > 6 {
		return nil, wk.bad(s, "nested calls too deep")
	}
	for _, it := range st.locals {
		if it.f != nil && it.f.kind == "local" {
			return nil, wk.bad(s, "value read into a local is still pending at a nested call")
		}
	}
	file := t.pk.fileOf(fd)
	cw := &walker{w: wk.w, pk: t.pk, file: file, side: wk.side, pw: map[string]bool{}, notes: wk.notes, budget: wk.budget,
		prefix: path, rtype: t, depth: wk.depth + 1, util: "\x00none"}
	for alias, ip := range t.pk.imports[file] {
		if strings.HasSuffix(ip, "/proto/util") {
			cw.util = alias
		}
	}
	if len(fd.Recv.List[0].Names) == 1 {
		cw.recv = fd.Recv.List[0].Names[0].Name
	}
	// bind parameters by type: *proto.PacketContext -> ctx, io.Writer / io.Reader -> io
	var params []*ast.Field
	for _, f := range fd.Type.Params.List {
		n := len(f.Names)
		if n == 0 {
			n = 1
		}
		for i := 0; i < n; i++ {
			g := *f
			if len(f.Names) > 0 {
				g.Names = []*ast.Ident{f.Names[i]}
			}
			params = append(params, &g)
		}
	}
	if len(params) != len(call.Args) {
		return nil, wk.bad(s, "nested call with variadic or mismatching arguments")
	}
	for i, f := range params {
		name := ""
		if len(f.Names) == 1 && f.Names[0].Name != "_" {
			name = f.Names[0].Name
		}
		ts := lxExprString(f.Type)
		arg, _ := call.Args[i].(*ast.Ident)
		switch ts {
		case "*proto.PacketContext":
			if arg == nil || arg.Name != wk.ctx {
				return nil, wk.bad(s, "nested call with a packet context that is not the caller's")
			}
			cw.ctx = name
		case "io.Writer", "io.Reader":
			if arg == nil || arg.Name != wk.io {
				return nil, wk.bad(s, "nested call on a different stream")
			}
			cw.io = name
		default:
			return nil, wk.bad(s, "nested call with a parameter of type %s", ts)
		}
	}
	if cw.recv == "" {
		cw.recv = "\x00recv"
	}
	return &callInfo{wk: cw, stmts: fd.Body.List, isRet: isRet}, nil
}

// componentIO: chat.ComponentHolder values travel as ONE field whose wire form depends on the protocol only:
//   holder.Write(wr, c.Protocol)            = if c.Protocol >= 1.20.3 { nameless NBT tag } else { JSON text as a string }
//   chat.ReadComponentHolder[NP](rd, c.Protocol) likewise.
// (chat/component_holder.go: Write / read; this reading is part of the translator's trusted table and is
// exercised by every correspondence case.)  The statement is replaced by that `if` with two pseudo primitives.
func (wk *walker) componentIO(s ast.Stmt, st *pstate) (*ast.IfStmt, error) {
	var call *ast.CallExpr
	var lhs []ast.Expr
	mode := ""
	switch x := s.(type) {
	case *ast.ExprStmt:
		call, _ = x.X.(*ast.CallExpr)
		mode = "expr"
	case *ast.AssignStmt:
		if len(x.Rhs) == 1 {
			call, _ = x.Rhs[0].(*ast.CallExpr)
			lhs = x.Lhs
			mode = "assign"
		}
	case *ast.ReturnStmt:
		if len(x.Results) == 1 {
			call, _ = x.Results[0].(*ast.CallExpr)
			mode = "return"
		}
	}
	if call == nil || len(call.Args) != 2 {
		return nil, nil
	}
	var target ast.Expr
	if wk.side == encSide {
		sel, ok := call.Fun.(*ast.SelectorExpr)
		if !ok || sel.Sel.Name != "Write" {
			return nil, nil
		}
		t, ok := wk.typeOfExpr(sel.X, st)
		if !ok || t.name != "ComponentHolder" || t.pk.name != "chat" {
			return nil, nil
		}
		target = sel.X
	} else {
		name := ""
		switch f := call.Fun.(type) {
		case *ast.SelectorExpr:
			if x, ok := f.X.(*ast.Ident); ok && x.Name == "chat" {
				name = f.Sel.Name
			}
		case *ast.Ident:
			if wk.pk.name == "chat" {
				name = f.Name
			}
		}
		if name != "ReadComponentHolder" && name != "ReadComponentHolderNP" {
			return nil, nil
		}
		if mode != "assign" || len(lhs) != 2 {
			return nil, wk.bad(s, "component read whose value is not assigned")
		}
	}
	// arguments: the caller's stream and c.Protocol
	if id, ok := call.Args[0].(*ast.Ident); !ok || id.Name != wk.io || wk.io == "" {
		return nil, wk.bad(s, "component I/O on a different stream")
	}
	if wk.ctx == "" || !wk.isCtxSel(call.Args[1], "Protocol") {
		return nil, wk.bad(s, "component I/O with a protocol that is not c.Protocol")
	}
	pos := s.Pos()
	utilId := func() ast.Expr { return &ast.Ident{Name: wk.util, NamePos: pos} }
	ioId := &ast.Ident{Name: wk.io, NamePos: pos}
	mk := func(kind string) ast.Stmt {
		var c *ast.CallExpr
		if wk.side == encSide {
			c = &ast.CallExpr{Fun: &ast.SelectorExpr{X: utilId(), Sel: &ast.Ident{Name: "Write" + kind, NamePos: pos}}, Lparen: pos, Args: []ast.Expr{ioId, target}}
		} else {
			c = &ast.CallExpr{Fun: &ast.SelectorExpr{X: utilId(), Sel: &ast.Ident{Name: "Read" + kind, NamePos: pos}}, Lparen: pos, Args: []ast.Expr{ioId}}
		}
		switch mode {
		case "return":
			return &ast.ReturnStmt{Return: pos, Results: []ast.Expr{c}}
		case "assign":
			return &ast.AssignStmt{Lhs: lhs, TokPos: pos, Tok: token.ASSIGN, Rhs: []ast.Expr{c}}
		}
		return &ast.ExprStmt{X: c}
	}
	cond := &ast.CallExpr{
		Fun:    &ast.SelectorExpr{X: &ast.SelectorExpr{X: &ast.Ident{Name: wk.ctx, NamePos: pos}, Sel: &ast.Ident{Name: "Protocol", NamePos: pos}}, Sel: &ast.Ident{Name: "GreaterEqual", NamePos: pos}},
		Lparen: pos,
		Args:   []ast.Expr{&ast.SelectorExpr{X: &ast.Ident{Name: "version", NamePos: pos}, Sel: &ast.Ident{Name: "Minecraft_1_20_3", NamePos: pos}}},
	}
	return &ast.IfStmt{If: pos, Cond: cond, Body: &ast.BlockStmt{Lbrace: pos, List: []ast.Stmt{mk("CompNbt")}},
		Else: &ast.BlockStmt{Lbrace: pos, List: []ast.Stmt{mk("CompJson")}}}, nil
}

// ---------- loops ----------

func substPrefix(b *blk, from, to []string) {
	sub := func(f *fx) {
		for f != nil {
			if len(f.path) >= len(from) && samePath(f.path[:len(from)], from) {
				f.path = append(append([]string{}, to...), f.path[len(from):]...)
			}
			f = f.sub
		}
	}
	for _, it := range b.items {
		sub(it.f)
		if it.body != nil {
			substPrefix(it.body, from, to)
		}
	}
	if b.tail != nil {
		sub(b.tail.f)
		for _, sb := range b.tail.subBlocks() {
			substPrefix(sb, from, to)
		}
	}
}

func (wk *walker) loop(s ast.Stmt, st *pstate, b *blk) error {
	var body *ast.BlockStmt
	inner := st.clone()
	var countItem *item
	var slicePath []string
	switch l := s.(type) {
	case *ast.RangeStmt:
		body = l.Body
		p, ok := wk.fieldPath(l.X, st)
		if !ok || len(p) == 0 {
			return wk.bad(s, "range over something that is not a field")
		}
		slicePath = p
		et, hasT := wk.typeOfExpr(l.X, st)
		key, _ := l.Key.(*ast.Ident)
		val, _ := l.Value.(*ast.Ident)
		switch {
		case l.Value != nil && key != nil && key.Name == "_" && val != nil:
			inner.vars[val.Name] = append(append([]string{}, p...), "#")
			if hasT {
				inner.types[val.Name] = et
			}
		case l.Value == nil && key != nil && key.Name != "_":
			inner.idx[key.Name] = p
		default:
			return wk.bad(s, "range with key and value (map iteration order is not a wire order)")
		}
		if wk.side == encSide {
			if len(b.items) == 0 || b.items[len(b.items)-1].kind != "count" || !samePath(b.items[len(b.items)-1].f.path, p) {
				return wk.bad(s, "range loop not preceded by WriteVarInt(len(field))")
			}
			countItem = b.items[len(b.items)-1]
			countItem.opts = repOpts{cap: "None"}
		} else {
			// for i := range p.F  after  p.F = make([]T, n)
			for _, it := range b.items {
				if it.kind == "prim" && it.prim == "PVarInt" && it.f != nil && it.f.kind == "madeslice" && samePath(it.f.path, p) {
					countItem = it
				}
			}
			if countItem == nil || b.items[len(b.items)-1] != countItem {
				return wk.bad(s, "range loop over a slice whose length was not just read")
			}
		}
	case *ast.ForStmt:
		body = l.Body
		if wk.side == encSide {
			return wk.bad(s, "counting loop in an encoder")
		}
		// for i := 0; i < n; i++
		init, ok1 := l.Init.(*ast.AssignStmt)
		cond, ok2 := l.Cond.(*ast.BinaryExpr)
		_, ok3 := l.Post.(*ast.IncDecStmt)
		if !ok1 || !ok2 || !ok3 || cond.Op != token.LSS || len(init.Lhs) != 1 {
			return wk.bad(s, "loop that is not `for i := 0; i < n; i++`")
		}
		iv, _ := init.Lhs[0].(*ast.Ident)
		n, _ := cond.Y.(*ast.Ident)
		if iv == nil || n == nil {
			return wk.bad(s, "loop bound is not a local")
		}
		countItem = st.counts[n.Name]
		if countItem == nil || len(b.items) == 0 || b.items[len(b.items)-1] != countItem {
			return wk.bad(s, "loop bound %s is not the count that was just read", n.Name)
		}
		if countItem.f != nil && countItem.f.kind == "madeslice" {
			inner.idx[iv.Name] = countItem.f.path
			slicePath = countItem.f.path
		} else {
			inner.idx[iv.Name] = []string{"$idx:" + iv.Name}
		}
		delete(st.counts, n.Name)
		delete(st.locals, n.Name)
	default:
		return wk.bad(s, "loop")
	}
	inner.locals, inner.counts, inner.bools = map[string]*item{}, map[string]*item{}, map[string]*item{}
	inner.depth++
	lw := *wk
	lw.inLoop = &loopInfo{path: slicePath}
	bb, err := lw.block(body.List, nil, inner)
	if err != nil {
		return err
	}
	if slicePath == nil {
		slicePath = lw.inLoop.path
	}
	if slicePath == nil {
		return wk.bad(s, "cannot tell which field the loop fills")
	}
	// element temporaries and locals become the current element of the slice
	for _, tmp := range lw.inLoop.temps {
		substPrefix(bb, []string{tmp}, append(append([]string{}, slicePath...), "#"))
	}
	b.items = b.items[:len(b.items)-1]
	opts := countItem.opts
	if opts.cap == "" {
		opts.cap = "None"
	}
	if opts.pre == 1<<31 && strings.HasPrefix(opts.cap, "(Some ") {
		// make([]T, n) after `if n > K { error }`: at most K elements up front
		fmt.Sscanf(opts.cap, "(Some %d)", &opts.pre)
	}
	b.items = append(b.items, &item{kind: "rep", f: &fx{kind: "path", path: slicePath}, opts: opts, body: bb, pos: s.Pos()})
	return nil
}

type loopInfo struct {
	path  []string // the slice field the loop fills (decoder: learnt from append / index assignment)
	temps []string // placeholder roots of element temporaries
}

// makeCall: x = make([]T, n) / make([]T, 0, min(n, K)) / make(map..., n): options of the count n
func (wk *walker) makeCall(lhs ast.Expr, call *ast.CallExpr, st *pstate) (bool, error) {
	id, ok := call.Fun.(*ast.Ident)
	if !ok || id.Name != "make" || len(call.Args) < 2 {
		return false, nil
	}
	arg := call.Args[len(call.Args)-1]
	pre := int64(-1) // exact
	var n *ast.Ident
	switch a := arg.(type) {
	case *ast.Ident:
		n = a
	case *ast.CallExpr:
		if f, ok := a.Fun.(*ast.Ident); ok && f.Name == "min" && len(a.Args) == 2 {
			n, _ = a.Args[0].(*ast.Ident)
			k, err := wk.constInt(a.Args[1], st)
			if err != nil {
				return false, nil
			}
			pre = k
		}
	}
	if n == nil {
		return false, nil
	}
	it := st.counts[n.Name]
	if it == nil {
		return false, nil
	}
	_, isMap := call.Args[0].(*ast.MapType)
	if !isMap {
		it.opts.neg = true // makeslice panics on a negative length / capacity; RecoverFunc turns it into an error
		if pre >= 0 {
			it.opts.pre = pre
		} else if len(call.Args) == 2 {
			it.opts.pre = 1 << 31 // make([]T, n): n elements up front (bounded by the explicit cap check, if any)
		}
	}
	if len(call.Args) == 2 && !isMap {
		// p.F = make([]T, n): the slice exists before the loop; remember which field so that `for i := range p.F` finds it
		if p, ok := wk.fieldPath(lhs, st); ok && len(p) > 0 {
			it.f = &fx{kind: "madeslice", path: p}
		} else if lid, ok := lhs.(*ast.Ident); ok {
			it.f = &fx{kind: "madeslice", path: []string{"$slice:" + lid.Name}}
		}
	}
	return true, nil
}

func lxExprString(e ast.Expr) string {
	switch e := e.(type) {
	case *ast.Ident:
		return e.Name
	case *ast.SelectorExpr:
		return lxExprString(e.X) + "." + e.Sel.Name
	case *ast.CallExpr:
		return lxExprString(e.Fun) + "(..)"
	case *ast.StarExpr:
		return "*" + lxExprString(e.X)
	case *ast.IndexExpr:
		return lxExprString(e.X) + "[..]"
	}
	return fmt.Sprintf("%T", e)
}

// ---------- post-processing ----------

// finish turns pending "rest"/"count" items into tails / errors and checks that nothing is unresolved
func unresolved(f *fx) string {
	for f != nil {
		if f.kind == "madeslice" {
			return "count of a pre-made slice that no loop consumed"
		}
		for _, c := range f.path {
			if strings.HasPrefix(c, "$") {
				return "placeholder " + c + " never bound to a field"
			}
		}
		f = f.sub
	}
	return ""
}

func (wk *walker) finish(b *blk) error {
	for _, it := range b.items {
		if u := unresolved(it.f); u != "" {
			return &opaque{reason: u + " @ " + wk.pk.where(it.pos), pos: it.pos}
		}
	}
	if b.tail != nil {
		if u := unresolved(b.tail.f); u != "" {
			return &opaque{reason: u}
		}
	}
	for i, it := range b.items {
		switch it.kind {
		case "rest":
			if i != len(b.items)-1 || b.tail != nil {
				return &opaque{reason: "raw bytes (no length prefix) not at the end of the packet @ " + wk.pk.where(it.pos), pos: it.pos}
			}
			lim := it.konst
			if lim == "" {
				lim = "None"
			}
			if it.f == nil || it.f.kind == "local" {
				return &opaque{reason: "raw tail read into a local that is never stored @ " + wk.pk.where(it.pos), pos: it.pos}
			}
			b.items = b.items[:i]
			b.tail = &tail{kind: "rest", f: it.f, lim: lim}
			return nil
		case "count":
			return &opaque{reason: "VarInt(len(field)) not followed by a loop over that field @ " + wk.pk.where(it.pos), pos: it.pos}
		case "prim", "tag":
			if it.f == nil || it.f.kind == "local" {
				n := ""
				if it.f != nil {
					n = it.f.local
				}
				return &opaque{reason: "value read into local " + n + " is never stored in a field @ " + wk.pk.where(it.pos), pos: it.pos}
			}
		case "rep":
			if err := wk.finish(it.body); err != nil {
				return err
			}
		}
	}
	for _, sb := range b.tail.subBlocks() {
		if err := wk.finish(sb); err != nil {
			return err
		}
	}
	return nil
}

// ---------- per type ----------

type result struct {
	reg      *registration
	enc, dec *blk
	reason   string
	notes    []string
}

func (w *world) translateType(r *registration) *result {
	res := &result{reg: r}
	pk := w.pkgs[r.pkgDir]
	ms := pk.methods[r.typ]
	if ms == nil || ms["Encode"] == nil || ms["Decode"] == nil {
		res.reason = "Encode/Decode methods not found in " + filepath.Base(r.pkgDir)
		return res
	}
	for _, sd := range []side{encSide, decSide} {
		name := "Encode"
		if sd == decSide {
			name = "Decode"
		}
		b, err := w.translateMethod(pk, ms[name], sd, nil, &res.notes)
		if err != nil {
			res.reason = name + ": " + err.Error()
			return res
		}
		if sd == encSide {
			res.enc = b
		} else {
			res.dec = b
		}
	}
	pairConsts(res.enc, res.dec)
	return res
}

// pairConsts: a constant the encoder writes is read and dropped by the decoder; the decoder's layout
// gets the encoder's constant (i-th constant statement of Encode with the i-th dropped read of Decode,
// in source order). A mismatch in number leaves the decoder's placeholder and fails the C04 obligation.
func pairConsts(enc, dec *blk) {
	collect := func(b *blk) (order []token.Pos, byPos map[token.Pos][]*item) {
		byPos = map[token.Pos][]*item{}
		var walk func(b *blk)
		walk = func(b *blk) {
			for _, it := range b.items {
				if it.kind == "const" {
					if _, ok := byPos[it.pos]; !ok {
						order = append(order, it.pos)
					}
					byPos[it.pos] = append(byPos[it.pos], it)
				}
				if it.body != nil {
					walk(it.body)
				}
			}
			for _, sb := range b.tail.subBlocks() {
				walk(sb)
			}
		}
		walk(b)
		sort.Slice(order, func(i, j int) bool { return order[i] < order[j] })
		return
	}
	eo, em := collect(enc)
	do, dm := collect(dec)
	if len(eo) != len(do) {
		return
	}
	for i := range eo {
		k := em[eo[i]][0].konst
		for _, it := range dm[do[i]] {
			it.konst = k
		}
	}
}

func (w *world) translateMethod(pk *pkgInfo, fd *ast.FuncDecl, sd side, prefix []string, notes *[]string) (*blk, error) {
	file := pk.fileOf(fd)
	wk := &walker{w: w, pk: pk, file: file, side: sd, pw: map[string]bool{}, notes: notes, prefix: prefix, rtype: typeRef{pk, lxRecvTypeName(fd)}}
	budget := 4000
	wk.budget = &budget
	for alias, path := range pk.imports[file] {
		if strings.HasSuffix(path, "/proto/util") {
			wk.util = alias
		}
	}
	if wk.util == "" {
		wk.util = "\x00none"
	}
	if len(fd.Recv.List[0].Names) == 1 {
		wk.recv = fd.Recv.List[0].Names[0].Name
	}
	ps := fd.Type.Params.List
	var names []string
	for _, p := range ps {
		if len(p.Names) == 0 {
			names = append(names, "")
		}
		for _, n := range p.Names {
			nm := n.Name
			if nm == "_" {
				nm = ""
			}
			names = append(names, nm)
		}
	}
	if len(names) != 2 {
		return nil, &opaque{reason: "unexpected signature @ " + pk.where(fd.Pos())}
	}
	wk.ctx, wk.io = names[0], names[1]
	if fd.Body == nil {
		return nil, &opaque{reason: "no body"}
	}
	st := &pstate{ints: map[string]int64{}, flags: map[string]*fx{}, locals: map[string]*item{}, counts: map[string]*item{},
		bools: map[string]*item{}, vars: map[string][]string{}, types: map[string]typeRef{}, idx: map[string][]string{},
		nils: map[string]bool{}, flagOf: map[string][]*fx{}}
	b, err := wk.block(fd.Body.List, nil, st)
	if err != nil {
		return nil, err
	}
	if err := wk.finishAll(b); err != nil {
		return nil, err
	}
	if b.size() > 6000 {
		return nil, &opaque{reason: "layout term too large"}
	}
	return b, nil
}

func (wk *walker) finishAll(b *blk) error { return wk.finish(b) }

// ---------- output ----------

func coqIdent(key string) string {
	return strings.NewReplacer(".", "_").Replace(key)
}

func translateLayouts(repo, out string) error {
	w := &world{repo: repo, pkgs: map[string]*pkgInfo{}}
	if err := w.loadVersions(); err != nil {
		return err
	}
	regs, err := w.loadRegistrations()
	if err != nil {
		return err
	}
	var sb strings.Builder
	sb.WriteString("(* GENERATED by translator/layouts.go from " + "pkg/edition/java/proto/{packet,state,version}" + " - do not edit. *)\n")
	sb.WriteString("From Coq Require Import List ZArith NArith String Bool.\n")
	sb.WriteString("From Verif Require Import Base.Hex Model.Layout Model.LayoutPrims.\n")
	sb.WriteString("Import ListNotations.\nOpen Scope string_scope.\nOpen Scope Z_scope.\n\n")
	sb.WriteString("Definition L := layout LP.\n")
	for _, c := range []string{"LEnd", "LPrim", "LSeq", "LVer", "LOpt", "LRep", "LRest", "LConst", "LTag", "LSel", "LFail"} {
		sb.WriteString("Local Notation " + c + " := (@Layout." + c + " LP).\n")
	}
	sb.WriteString("\n")
	sb.WriteString("(* supported protocol versions (version.Versions without Unknown / Legacy) *)\n")
	vs := make([]string, len(w.ordered))
	for i, v := range w.ordered {
		vs[i] = strconv.FormatInt(v, 10)
	}
	sb.WriteString("Definition versions : list Z := [" + strings.Join(vs, "; ") + "].\n\n")
	sb.WriteString("Inductive entry :=\n| Fragment (name : string) (enc dec : L) (ctxs : list ctx)\n| Opaque (name reason : string) (ctxs : list ctx).\n\n")
	var entries []string
	nFrag := 0
	reasons := map[string]int{}
	for _, r := range regs {
		res := w.translateType(r)
		id := coqIdent(r.typeKey)
		// contexts, sorted
		var cs [][2]int64
		for c := range r.ctxs {
			cs = append(cs, c)
		}
		sort.Slice(cs, func(i, j int) bool {
			if cs[i][0] != cs[j][0] {
				return cs[i][0] < cs[j][0]
			}
			return cs[i][1] < cs[j][1]
		})
		var cstr []string
		for _, c := range cs {
			cstr = append(cstr, fmt.Sprintf("mkctx %d %v", c[0], c[1] == 1))
		}
		sb.WriteString("Definition ctxs_" + id + " : list ctx := [" + strings.Join(cstr, "; ") + "].\n")
		if res.reason != "" {
			sb.WriteString("(* " + r.typeKey + ": OPAQUE - " + strings.ReplaceAll(res.reason, "*)", "* )") + " *)\n\n")
			entries = append(entries, fmt.Sprintf("Opaque \"%s\" \"%s\" ctxs_%s", r.typeKey, strings.ReplaceAll(res.reason, `"`, "'"), id))
			reasons[res.reason]++
			continue
		}
		nFrag++
		for _, n := range res.notes {
			sb.WriteString("(* " + r.typeKey + ": " + n + " (restricts the domain, writes nothing) *)\n")
		}
		sb.WriteString("Definition enc_" + id + " : L :=\n  " + res.enc.coq("  ") + ".\n")
		sb.WriteString("Definition dec_" + id + " : L :=\n  " + res.dec.coq("  ") + ".\n\n")
		entries = append(entries, fmt.Sprintf("Fragment \"%s\" enc_%s dec_%s ctxs_%s", r.typeKey, id, id, id))
	}
	sb.WriteString("Definition packets : list entry := [\n  " + strings.Join(entries, ";\n  ") + "\n].\n\n")
	sb.WriteString(fmt.Sprintf("Definition n_registered : nat := %d.\nDefinition n_fragment : nat := %d.\n", len(regs), nFrag))
	fmt.Fprintf(os.Stderr, "layouts: %d registered types, %d in the fragment, %d opaque\n", len(regs), nFrag, len(regs)-nFrag)
	return writeIfChanged(filepath.Join(out, "PacketLayouts.v"), []byte(sb.String()))
}
