// Translator "registry" (property C06; also the (type, version) universe of C04/C05/C07).
//
// Reads  <repo>/pkg/edition/java/proto/version/version.go  and
//
//	<repo>/pkg/edition/java/proto/state/register.go
//
// with go/parser and writes coq/Gen/Registry.v:
//   - the Versions list (protocol numbers, variable names, version names, in list order),
//   - Unknown / Legacy protocol numbers and how MinimumVersion / MaximumVersion are picked,
//   - every `<State>.<Dir>.Register(&pkg.T{}, m(id, ver)..., ml(id, ver, last))` call of init(),
//   - every `<State>.<Dir>.Fallback = <bool>` assignment of init().
//
// Fail closed: every statement of register.go's init(), every top-level declaration of register.go and the
// pieces of version.go the hand-written model relies on must have exactly the recognised shape; anything else
// is counted as untranslated and makes the translator fail (no file is written with a guess in it).
package main

import (
	"bytes"
	"fmt"
	"go/ast"
	"go/parser"
	"go/printer"
	"go/token"
	"os"
	"path/filepath"
	"sort"
	"strconv"
	"strings"
)

func init() { translators["registry"] = translateRegistry }

type regVersion struct {
	varName  string
	protocol int64
	names    []string
	line     int
}

type regMapping struct {
	id        int64
	ver       string // variable name in package version
	protocol  int64
	lastValid *regVersion
	line      int
}

type regCall struct {
	state, dir string
	typ        string // "<package name>.<Type>"
	mappings   []regMapping
	line       int
}

type regFallback struct {
	state, dir string
	val        bool
	line       int
}

type regTranslator struct {
	repo     string
	fset     *token.FileSet
	problems []string // untranslated constructs (must stay empty)
}

func (t *regTranslator) bad(pos token.Pos, format string, a ...any) {
	p := t.fset.Position(pos)
	t.problems = append(t.problems, fmt.Sprintf("%s:%d: %s", filepath.Base(p.Filename), p.Line, fmt.Sprintf(format, a...)))
}

func (t *regTranslator) src(n ast.Node) string {
	var b bytes.Buffer
	printer.Fprint(&b, t.fset, n)
	return strings.Join(strings.Fields(b.String()), " ")
}

func (t *regTranslator) line(p token.Pos) int { return t.fset.Position(p).Line }

const (
	regVersionRel  = "pkg/edition/java/proto/version/version.go"
	regRegisterRel = "pkg/edition/java/proto/state/register.go"
	regStateDirRel = "pkg/edition/java/proto/state"
	regModulePath  = "go.minekube.com/gate"
)

var regStateConst = map[string]string{
	"HandshakeState": "Handshake", "StatusState": "Status", "LoginState": "Login", "ConfigState": "Config", "PlayState": "Play",
}

func translateRegistry(repo, out string) error {
	t := &regTranslator{repo: repo, fset: token.NewFileSet()}

	// ---------------------------------------------------------------- version.go
	vf, err := parser.ParseFile(t.fset, filepath.Join(repo, regVersionRel), nil, 0)
	if err != nil {
		return err
	}
	vars := map[string]*regVersion{}
	var versions []*regVersion
	var minPick, maxPick string
	seen := map[string]bool{}
	for _, d := range vf.Decls {
		switch d := d.(type) {
		case *ast.GenDecl:
			if d.Tok == token.IMPORT || d.Tok == token.TYPE {
				// imports carry no semantics here; the only type is `Protocol proto.Protocol`
				if d.Tok == token.TYPE && t.src(d) != "type Protocol proto.Protocol" {
					t.bad(d.Pos(), "unrecognised type declaration: %s", t.src(d))
				}
				continue
			}
			if d.Tok != token.VAR {
				t.bad(d.Pos(), "unrecognised declaration in version.go: %s", d.Tok)
				continue
			}
			for _, s := range d.Specs {
				vs := s.(*ast.ValueSpec)
				if len(vs.Names) != 1 || len(vs.Values) != 1 {
					t.bad(vs.Pos(), "unrecognised var spec")
					continue
				}
				name, val := vs.Names[0].Name, vs.Values[0]
				seen[name] = true
				switch name {
				case "Versions":
					cl, ok := val.(*ast.CompositeLit)
					if !ok || t.src(cl.Type) != "[]*proto.Version" {
						t.bad(val.Pos(), "Versions is not a []*proto.Version literal")
						continue
					}
					for _, e := range cl.Elts {
						id, ok := e.(*ast.Ident)
						if !ok || vars[id.Name] == nil {
							t.bad(e.Pos(), "Versions element is not a version variable declared above: %s", t.src(e))
							continue
						}
						versions = append(versions, vars[id.Name])
					}
				case "ProtocolToVersion":
					// lookup table derived from Versions; not used by the registry
				case "SupportedVersions":
					want := "func() (v []*proto.Version) { for _, ver := range Versions { if !Protocol(ver.Protocol).Unknown() && !Protocol(ver.Protocol).Legacy() { v = append(v, ver) } } return }()"
					if t.src(val) != want {
						t.bad(val.Pos(), "SupportedVersions is not the recognised filter of Versions (non-unknown, non-legacy)")
					}
				case "MinimumVersion", "MaximumVersion":
					var pick string
					s := t.src(val)
					if s == "SupportedVersions[len(SupportedVersions)-1]" {
						pick = "PickLast"
					} else if ix, ok := val.(*ast.IndexExpr); ok && t.src(ix.X) == "SupportedVersions" {
						if bl, ok := ix.Index.(*ast.BasicLit); ok && bl.Kind == token.INT {
							if n, err := strconv.ParseInt(bl.Value, 0, 32); err == nil && n >= 0 {
								pick = fmt.Sprintf("(PickIndex %d)", n)
							}
						}
					}
					if pick == "" {
						t.bad(val.Pos(), "%s is not SupportedVersions[<int>] or SupportedVersions[len(SupportedVersions)-1]: %s", name, s)
					}
					if name == "MinimumVersion" {
						minPick = pick
					} else {
						maxPick = pick
					}
				case "SupportedVersionsString":
					// display only
				default:
					// NAME = v(<int>, "name"...)
					call, ok := val.(*ast.CallExpr)
					if !ok || t.src(call.Fun) != "v" || len(call.Args) < 1 {
						t.bad(val.Pos(), "unrecognised package variable %s = %s", name, t.src(val))
						continue
					}
					n, ok := t.intLit(call.Args[0])
					if !ok {
						t.bad(call.Args[0].Pos(), "protocol number of %s is not an integer literal", name)
						continue
					}
					rv := &regVersion{varName: name, protocol: n, line: t.line(vs.Pos())}
					for _, a := range call.Args[1:] {
						bl, ok := a.(*ast.BasicLit)
						if !ok || bl.Kind != token.STRING {
							t.bad(a.Pos(), "version name of %s is not a string literal", name)
							continue
						}
						s, err := strconv.Unquote(bl.Value)
						if err != nil {
							t.bad(a.Pos(), "bad string literal")
							continue
						}
						rv.names = append(rv.names, s)
					}
					if vars[name] != nil {
						t.bad(vs.Pos(), "version variable %s declared twice", name)
					}
					vars[name] = rv
				}
			}
		case *ast.FuncDecl:
			// the functions the model relies on must read exactly as transcribed in Model/Registry.v
			want := map[string]string{
				"Legacy":  "func (p Protocol) Legacy() bool { return proto.Protocol(p) == Legacy.Protocol }",
				"Unknown": "func (p Protocol) Unknown() bool { return proto.Protocol(p) == Unknown.Protocol }",
				"v":       "func v(protocol proto.Protocol, names ...string) *proto.Version { return &proto.Version{Protocol: protocol, Names: names} }",
			}
			if w, ok := want[d.Name.Name]; ok {
				dd := *d
				dd.Doc = nil
				if t.src(&dd) != w {
					t.bad(d.Pos(), "func %s does not have the recognised body: %s", d.Name.Name, t.src(&dd))
				}
				seen["func "+d.Name.Name] = true
			} else if d.Name.Name == "init" {
				t.bad(d.Pos(), "version.go has an init function")
			}
			// Version(), String(), Supported(): not used by the registries
		default:
			t.bad(d.Pos(), "unrecognised declaration")
		}
	}
	for _, need := range []string{"Versions", "SupportedVersions", "MinimumVersion", "MaximumVersion", "Unknown", "Legacy", "func Legacy", "func Unknown", "func v"} {
		if !seen[need] {
			t.problems = append(t.problems, "version.go: missing "+need)
		}
	}
	// other files of package version must not touch the variables
	t.scanSiblings(filepath.Dir(filepath.Join(repo, regVersionRel)), "version.go",
		[]string{"Versions", "SupportedVersions", "MinimumVersion", "MaximumVersion"})

	// ---------------------------------------------------------------- register.go
	rf, err := parser.ParseFile(t.fset, filepath.Join(repo, regRegisterRel), nil, 0)
	if err != nil {
		return err
	}
	imports := map[string]string{} // local name -> import path
	for _, im := range rf.Imports {
		path, _ := strconv.Unquote(im.Path.Value)
		local := ""
		if im.Name != nil {
			local = im.Name.Name
			if local == "." || local == "_" {
				t.bad(im.Pos(), "dot or blank import")
				continue
			}
		} else {
			pn, err := t.packageName(path)
			if err != nil {
				t.bad(im.Pos(), "cannot resolve package name of %s: %v", path, err)
				continue
			}
			local = pn
		}
		imports[local] = path
	}
	if imports["version"] != regModulePath+"/pkg/edition/java/proto/version" {
		t.bad(rf.Pos(), "identifier `version` is not the proto/version package")
	}
	if imports["states"] != regModulePath+"/pkg/edition/java/proto/state/states" {
		t.bad(rf.Pos(), "identifier `states` is not the proto/state/states package")
	}
	stateVars := map[string]string{} // Go variable -> Coq state constructor
	var calls []regCall
	var fallbacks []regFallback
	inits := 0
	for _, d := range rf.Decls {
		switch d := d.(type) {
		case *ast.GenDecl:
			if d.Tok == token.IMPORT {
				continue
			}
			if d.Tok != token.VAR {
				t.bad(d.Pos(), "unrecognised declaration in register.go: %s", d.Tok)
				continue
			}
			for _, s := range d.Specs {
				vs := s.(*ast.ValueSpec)
				if len(vs.Names) != 1 || len(vs.Values) != 1 {
					t.bad(vs.Pos(), "unrecognised var spec")
					continue
				}
				// Name = NewRegistry(states.<X>State)
				call, ok := vs.Values[0].(*ast.CallExpr)
				if !ok || t.src(call.Fun) != "NewRegistry" || len(call.Args) != 1 {
					t.bad(vs.Pos(), "unrecognised registry variable: %s", t.src(vs))
					continue
				}
				sel, ok := call.Args[0].(*ast.SelectorExpr)
				if !ok || t.src(sel.X) != "states" || regStateConst[sel.Sel.Name] == "" {
					t.bad(vs.Pos(), "unrecognised state constant: %s", t.src(call.Args[0]))
					continue
				}
				if regStateConst[sel.Sel.Name] != vs.Names[0].Name {
					// the harness reads state.<Name>; a renamed pairing would silently swap tables
					t.bad(vs.Pos(), "registry variable %s is bound to states.%s", vs.Names[0].Name, sel.Sel.Name)
					continue
				}
				stateVars[vs.Names[0].Name] = regStateConst[sel.Sel.Name]
			}
		case *ast.FuncDecl:
			if d.Name.Name != "init" || d.Recv != nil {
				t.bad(d.Pos(), "unrecognised function in register.go: %s", d.Name.Name)
				continue
			}
			inits++
			for _, st := range d.Body.List {
				switch st := st.(type) {
				case *ast.ExprStmt:
					if c, ok := t.registerCall(st, stateVars, imports, vars); ok {
						calls = append(calls, c)
					}
				case *ast.AssignStmt:
					if f, ok := t.fallbackAssign(st, stateVars); ok {
						fallbacks = append(fallbacks, f)
					}
				default:
					t.bad(st.Pos(), "unrecognised statement in init(): %s", regTrunc(t.src(st), 80))
				}
			}
		default:
			t.bad(d.Pos(), "unrecognised declaration")
		}
	}
	if inits != 1 {
		t.problems = append(t.problems, fmt.Sprintf("register.go: %d init functions (want 1)", inits))
	}
	for _, s := range []string{"Handshake", "Status", "Login", "Config", "Play"} {
		if stateVars[s] != s {
			t.problems = append(t.problems, "register.go: registry variable "+s+" not found")
		}
	}
	// no other non-test file of package state may register packets, run init code or change Fallback
	t.scanStateSiblings(filepath.Join(repo, regStateDirRel))

	// distinct import paths must not share a package name (type names would collide)
	byName := map[string]string{}
	for _, path := range imports {
		pn, err := t.packageName(path)
		if err != nil {
			continue
		}
		if prev, ok := byName[pn]; ok && prev != path {
			t.problems = append(t.problems, fmt.Sprintf("register.go: packages %s and %s share the name %s", prev, path, pn))
		}
		byName[pn] = path
	}

	if minPick == "" || maxPick == "" || len(versions) == 0 {
		t.problems = append(t.problems, "version.go: Versions / MinimumVersion / MaximumVersion not translated")
	}
	if vars["Unknown"] == nil || vars["Legacy"] == nil {
		t.problems = append(t.problems, "version.go: Unknown / Legacy not translated")
	}
	if len(t.problems) > 0 {
		sort.Strings(t.problems)
		return fmt.Errorf("%d construct(s) could not be translated (nothing written):\n  %s", len(t.problems), strings.Join(t.problems, "\n  "))
	}

	// ---------------------------------------------------------------- emit
	var b strings.Builder
	w := func(format string, a ...any) { fmt.Fprintf(&b, format, a...) }
	w("(* GENERATED by translator/registry.go from %s and %s.\n   Regenerated on every run of ./check; do not edit. *)\n", regVersionRel, regRegisterRel)
	w("From Coq Require Import List ZArith String.\nFrom Verif Require Import Model.Registry.\nImport ListNotations.\nOpen Scope string_scope.\nOpen Scope Z_scope.\n\n")
	w("(* version.Versions, in list order *)\nDefinition versions : list version_decl := [\n")
	for i, v := range versions {
		sep := ";"
		if i == len(versions)-1 {
			sep = ""
		}
		w("  mkV %s %s %s%s (* version.go:%d *)\n", regCoqZ(v.protocol), regCoqStr(v.varName), regCoqStrList(v.names), sep, v.line)
	}
	w("].\n\n")
	w("(* version.go:%d Unknown, version.go:%d Legacy; MinimumVersion / MaximumVersion as indices into SupportedVersions *)\n", vars["Unknown"].line, vars["Legacy"].line)
	w("Definition config : Model.Registry.config :=\n  mkCfg (map v_protocol versions) %s %s %s %s.\n\n", regCoqZ(vars["Unknown"].protocol), regCoqZ(vars["Legacy"].protocol), minPick, maxPick)
	w("(* `<State>.<Dir>.Fallback = b` assignments of init() *)\nDefinition fallback_settings : list (key * bool) := [\n")
	for i, f := range fallbacks {
		sep := ";"
		if i == len(fallbacks)-1 {
			sep = ""
		}
		w("  ((%s, %s), %v)%s (* register.go:%d *)\n", f.state, f.dir, f.val, sep, f.line)
	}
	w("].\n\n")
	w("(* every Register call of init(), in source order: state, direction, type, [mkM id from_protocol encode_only last_valid] *)\n")
	w("Definition registrations : list registration := [\n")
	nm := 0
	for i, c := range calls {
		w("  (* register.go:%d *) mkR %s %s %s [\n", c.line, c.state, c.dir, regCoqStr(c.typ))
		for j, m := range c.mappings {
			sep := ";"
			if j == len(c.mappings)-1 {
				sep = ""
			}
			lv := "None"
			lvc := ""
			if m.lastValid != nil {
				lv = "(Some " + regCoqZ(m.lastValid.protocol) + ")"
				lvc = " .. " + m.lastValid.varName
			}
			w("    mkM %d %s false %s%s (* :%d 0x%02X %s%s *)\n", m.id, regCoqZ(m.protocol), lv, sep, m.line, m.id, m.ver, lvc)
			nm++
		}
		if i == len(calls)-1 {
			w("  ]\n")
		} else {
			w("  ];\n")
		}
	}
	w("].\n\n")
	w("(* translator bookkeeping (copied into evidence) *)\n")
	w("Definition untranslated : nat := 0%%nat.\n")
	w("Definition n_registrations : nat := %d%%nat.\nDefinition n_mappings : nat := %d%%nat.\nDefinition n_versions : nat := %d%%nat.\n", len(calls), nm, len(versions))
	return writeIfChanged(filepath.Join(out, "Registry.v"), []byte(b.String()))
}

func regTrunc(s string, n int) string {
	if len(s) <= n {
		return s
	}
	return s[:n] + "..."
}

func regCoqZ(n int64) string {
	if n < 0 {
		return fmt.Sprintf("(%d)", n)
	}
	return fmt.Sprintf("%d", n)
}

func regCoqStr(s string) string {
	for _, r := range s {
		if r < 0x20 || r > 0x7e {
			panic("registry translator: non-printable character in identifier/name")
		}
	}
	return `"` + strings.ReplaceAll(s, `"`, `""`) + `"`
}

func regCoqStrList(ss []string) string {
	q := make([]string, len(ss))
	for i, s := range ss {
		q[i] = regCoqStr(s)
	}
	return "[" + strings.Join(q, "; ") + "]"
}

// intLit accepts <int> and -<int> literals (decimal, hex, octal, binary).
func (t *regTranslator) intLit(e ast.Expr) (int64, bool) {
	neg := false
	if u, ok := e.(*ast.UnaryExpr); ok && u.Op == token.SUB {
		neg = true
		e = u.X
	}
	bl, ok := e.(*ast.BasicLit)
	if !ok || bl.Kind != token.INT {
		return 0, false
	}
	n, err := strconv.ParseInt(strings.ReplaceAll(bl.Value, "_", ""), 0, 64)
	if err != nil {
		return 0, false
	}
	if neg {
		n = -n
	}
	return n, true
}

// packageName reads the package clause of a package of the gate module (the name reflect prints).
func (t *regTranslator) packageName(importPath string) (string, error) {
	if !strings.HasPrefix(importPath, regModulePath+"/") {
		return "", fmt.Errorf("not a package of %s", regModulePath)
	}
	dir := filepath.Join(t.repo, strings.TrimPrefix(importPath, regModulePath+"/"))
	ents, err := os.ReadDir(dir)
	if err != nil {
		return "", err
	}
	name := ""
	for _, e := range ents {
		if e.IsDir() || !strings.HasSuffix(e.Name(), ".go") || strings.HasSuffix(e.Name(), "_test.go") {
			continue
		}
		f, err := parser.ParseFile(token.NewFileSet(), filepath.Join(dir, e.Name()), nil, parser.PackageClauseOnly)
		if err != nil {
			return "", err
		}
		if name != "" && name != f.Name.Name {
			return "", fmt.Errorf("two package names in %s", dir)
		}
		name = f.Name.Name
	}
	if name == "" {
		return "", fmt.Errorf("no Go files in %s", dir)
	}
	return name, nil
}

// registerCall recognises  <State>.<Dir>.Register(&pkg.T{}, m(...)/ml(...) ...).
func (t *regTranslator) registerCall(st *ast.ExprStmt, stateVars, imports map[string]string, vars map[string]*regVersion) (regCall, bool) {
	var c regCall
	call, ok := st.X.(*ast.CallExpr)
	if !ok {
		t.bad(st.Pos(), "unrecognised expression statement: %s", regTrunc(t.src(st), 80))
		return c, false
	}
	fun, ok := call.Fun.(*ast.SelectorExpr)
	if !ok || fun.Sel.Name != "Register" {
		t.bad(st.Pos(), "unrecognised call in init(): %s", regTrunc(t.src(call.Fun), 80))
		return c, false
	}
	state, dir, ok := t.stateDir(fun.X, stateVars)
	if !ok {
		t.bad(st.Pos(), "Register receiver is not <State>.<ClientBound|ServerBound>: %s", t.src(fun.X))
		return c, false
	}
	c.state, c.dir, c.line = state, dir, t.line(st.Pos())
	if call.Ellipsis != token.NoPos || len(call.Args) < 1 {
		t.bad(st.Pos(), "Register call with spread or without arguments")
		return c, false
	}
	// &pkg.T{}
	u, ok := call.Args[0].(*ast.UnaryExpr)
	var cl *ast.CompositeLit
	if ok && u.Op == token.AND {
		cl, _ = u.X.(*ast.CompositeLit)
	}
	if cl == nil || len(cl.Elts) != 0 {
		t.bad(call.Args[0].Pos(), "packet argument is not &pkg.T{}: %s", t.src(call.Args[0]))
		return c, false
	}
	sel, ok := cl.Type.(*ast.SelectorExpr)
	if !ok {
		t.bad(call.Args[0].Pos(), "packet type is not a qualified identifier: %s", t.src(call.Args[0]))
		return c, false
	}
	pid, ok := sel.X.(*ast.Ident)
	if !ok || imports[pid.Name] == "" {
		t.bad(call.Args[0].Pos(), "packet type package %s is not an import of register.go", t.src(sel.X))
		return c, false
	}
	pn, err := t.packageName(imports[pid.Name])
	if err != nil {
		t.bad(call.Args[0].Pos(), "cannot resolve package of %s: %v", t.src(cl.Type), err)
		return c, false
	}
	c.typ = pn + "." + sel.Sel.Name
	good := true
	for _, a := range call.Args[1:] {
		mc, ok := a.(*ast.CallExpr)
		if !ok {
			t.bad(a.Pos(), "mapping is not an m()/ml() call: %s", t.src(a))
			good = false
			continue
		}
		fn := t.src(mc.Fun)
		if !(fn == "m" && len(mc.Args) == 2) && !(fn == "ml" && len(mc.Args) == 3) {
			t.bad(a.Pos(), "mapping is not m(id, ver) or ml(id, ver, last): %s", t.src(a))
			good = false
			continue
		}
		id, ok := t.intLit(mc.Args[0])
		if !ok {
			t.bad(mc.Args[0].Pos(), "packet id is not an integer literal: %s", t.src(mc.Args[0]))
			good = false
			continue
		}
		ver := t.versionRef(mc.Args[1], vars)
		if ver == nil {
			t.bad(mc.Args[1].Pos(), "mapping version is not version.<Var>: %s", t.src(mc.Args[1]))
			good = false
			continue
		}
		m := regMapping{id: id, ver: ver.varName, protocol: ver.protocol, line: t.line(a.Pos())}
		if fn == "ml" {
			if t.src(mc.Args[2]) != "nil" {
				lv := t.versionRef(mc.Args[2], vars)
				if lv == nil {
					t.bad(mc.Args[2].Pos(), "last valid version is not version.<Var> or nil: %s", t.src(mc.Args[2]))
					good = false
					continue
				}
				m.lastValid = lv
			}
		}
		c.mappings = append(c.mappings, m)
	}
	return c, good
}

func (t *regTranslator) versionRef(e ast.Expr, vars map[string]*regVersion) *regVersion {
	sel, ok := e.(*ast.SelectorExpr)
	if !ok || t.src(sel.X) != "version" {
		return nil
	}
	return vars[sel.Sel.Name]
}

func (t *regTranslator) stateDir(e ast.Expr, stateVars map[string]string) (string, string, bool) {
	sel, ok := e.(*ast.SelectorExpr)
	if !ok {
		return "", "", false
	}
	id, ok := sel.X.(*ast.Ident)
	if !ok || stateVars[id.Name] == "" {
		return "", "", false
	}
	if sel.Sel.Name != "ClientBound" && sel.Sel.Name != "ServerBound" {
		return "", "", false
	}
	return stateVars[id.Name], sel.Sel.Name, true
}

// fallbackAssign recognises  <State>.<Dir>.Fallback = true|false.
func (t *regTranslator) fallbackAssign(st *ast.AssignStmt, stateVars map[string]string) (regFallback, bool) {
	var f regFallback
	if st.Tok != token.ASSIGN || len(st.Lhs) != 1 || len(st.Rhs) != 1 {
		t.bad(st.Pos(), "unrecognised assignment in init(): %s", regTrunc(t.src(st), 80))
		return f, false
	}
	sel, ok := st.Lhs[0].(*ast.SelectorExpr)
	if !ok || sel.Sel.Name != "Fallback" {
		t.bad(st.Pos(), "unrecognised assignment in init(): %s", regTrunc(t.src(st), 80))
		return f, false
	}
	state, dir, ok := t.stateDir(sel.X, stateVars)
	v := t.src(st.Rhs[0])
	if !ok || (v != "true" && v != "false") {
		t.bad(st.Pos(), "unrecognised Fallback assignment: %s", t.src(st))
		return f, false
	}
	return regFallback{state: state, dir: dir, val: v == "true", line: t.line(st.Pos())}, true
}

// scanSiblings: other non-test files of the package must not mention the given identifiers on the
// left of an assignment or declare them.
func (t *regTranslator) scanSiblings(dir, self string, names []string) {
	ents, err := os.ReadDir(dir)
	if err != nil {
		t.problems = append(t.problems, err.Error())
		return
	}
	want := map[string]bool{}
	for _, n := range names {
		want[n] = true
	}
	for _, e := range ents {
		if e.IsDir() || !strings.HasSuffix(e.Name(), ".go") || strings.HasSuffix(e.Name(), "_test.go") || e.Name() == self {
			continue
		}
		f, err := parser.ParseFile(t.fset, filepath.Join(dir, e.Name()), nil, 0)
		if err != nil {
			t.problems = append(t.problems, err.Error())
			continue
		}
		ast.Inspect(f, func(n ast.Node) bool {
			switch n := n.(type) {
			case *ast.AssignStmt:
				for _, l := range n.Lhs {
					if id, ok := l.(*ast.Ident); ok && want[id.Name] {
						t.bad(n.Pos(), "%s assigned outside %s", id.Name, self)
					}
				}
			case *ast.FuncDecl:
				if n.Name.Name == "init" && n.Recv == nil {
					t.bad(n.Pos(), "init function outside %s", self)
				}
			}
			return true
		})
	}
}

// scanStateSiblings: in package state only register.go may call Register, run init code, or assign Fallback
// (registry.go's own `Fallback: true` composite-literal field is the modelled default).
func (t *regTranslator) scanStateSiblings(dir string) {
	ents, err := os.ReadDir(dir)
	if err != nil {
		t.problems = append(t.problems, err.Error())
		return
	}
	for _, e := range ents {
		if e.IsDir() || !strings.HasSuffix(e.Name(), ".go") || strings.HasSuffix(e.Name(), "_test.go") || e.Name() == "register.go" {
			continue
		}
		f, err := parser.ParseFile(t.fset, filepath.Join(dir, e.Name()), nil, 0)
		if err != nil {
			t.problems = append(t.problems, err.Error())
			continue
		}
		ast.Inspect(f, func(n ast.Node) bool {
			switch n := n.(type) {
			case *ast.CallExpr:
				if sel, ok := n.Fun.(*ast.SelectorExpr); ok && sel.Sel.Name == "Register" {
					t.bad(n.Pos(), "Register call outside register.go")
				}
			case *ast.AssignStmt:
				for _, l := range n.Lhs {
					if sel, ok := l.(*ast.SelectorExpr); ok && sel.Sel.Name == "Fallback" {
						t.bad(n.Pos(), "Fallback assigned outside register.go")
					}
				}
			case *ast.FuncDecl:
				if n.Name.Name == "init" && n.Recv == nil {
					t.bad(n.Pos(), "init function outside register.go")
				}
			}
			return true
		})
	}
}
