// configshape: extracts the ordered validation clauses of gate's configuration validators as
// (function, guard path, kind, id) from the source text and writes coq/Gen/ConfigShape.v (property C37).
//
// Recognised shape (anything else that involves the error/warning closures is an error — fail closed):
//   e("literal" [+ "literal"...], args...)   an error site; id = clause id by stable message prefix, or Unknown:<prefix>
//   w("literal"..., args...)                 a warning site; id = one of the modelled warnings or WOther
//   calls to the other validators            kind "call" (order of inlining is part of the shape)
//   return / continue / break                kind "return" / "branch" (the Lite branch returns early; the allow-list
//                                            loops skip the later checks of an entry with continue)
// nested in if / else / for-range / switch-case, whose conditions are recorded as source text.
package main

import (
	"bytes"
	"fmt"
	"go/ast"
	"go/parser"
	"go/printer"
	"go/token"
	"path/filepath"
	"strconv"
	"strings"
)

func init() { translators["configshape"] = configShape }

type csRule struct{ prefix, contains, id string }

// the same stable prefixes the C37 harness uses to classify messages
var csErr = []csRule{
	{"config must not be nil", "", "NilConfig"},
	{"Invalid health probe bind address ", "", "HealthBind"},
	{"Bind is empty", "", "BindEmpty"},
	{"Invalid bind ", "", "BindInvalid"},
	{"Invalid quota ops ", "", "QuotaOps"},
	{"Invalid quota burst ", "", "QuotaBurst"},
	{"Invalid quota max entries ", "", "QuotaMaxEntries"},
	{"Invalid proxyProtocolTrustedProxies", "", "TrustedProxies"},
	{"bedrock.backendFloodgate requires bedrock.enabled", "", "BFNeedsBedrock"},
	{"bedrock.backendFloodgate.allowedServers must not be empty", "", "BFNoServers"},
	{"Invalid bedrock.backendFloodgate.allowedServers server name ", "", "BFBadName"},
	{"Duplicate bedrock.backendFloodgate.allowedServers server ", "", "BFDuplicate"},
	{"bedrock.backendFloodgate.allowedServers server ", "must be registered under servers", "BFUnregistered"},
	{"bedrock.backendFloodgate is incompatible with forwarding.mode", "", "BFFwdIncompatible"},
	{"bedrock.backendFloodgate requires forwarding.mode none or velocity", "", "BFFwdUnknown"},
	{"bedrock.backendFloodgate requires readable floodgateKeyPath", "", "BFKey"},
	{"No routes configured", "", "LiteNoRoutes"},
	{"Route %d: no host configured", "", "RouteNoHost"},
	{"Route %d: no backend configured", "", "RouteNoBackend"},
	{"Route %d: invalid strategy ", "", "RouteStrategy"},
	{"Route %d: backend %d: failed to parse address", "", "RouteBackendParse"},
	{"Unknown via mode ", "", "ViaMode"},
	{"Invalid via bind ", "", "ViaBind"},
	{"Unknown forwarding mode ", "", "ForwardingMode"},
	{"Invalid server name format ", "", "ServerName"},
	{"Invalid address ", " for server ", "ServerAddr"},
	{"Fallback/try server ", "must be registered under servers", "TryUnknown"},
	{"Forced host ", "must be registered under servers", "ForcedUnknown"},
	{"Forced hosts ", "differ only in letter case", "ForcedCaseDup"},
	{"Unsupported compression level ", "", "CompressionLevel"},
	{"Invalid compression threshold ", "", "CompressionThreshold"},
	{"backendFloodgate.allowedServers must not be empty when backendFloodgate is enabled", "", "BedBFNoServers"},
	{"Invalid backendFloodgate allowed server name ", "", "BedBFBadName"},
	{"Duplicate backendFloodgate allowed server ", "", "BedBFDuplicate"},
	{"Geyser listen address cannot be empty", "", "BedGeyserAddr"},
	{"Username format must contain ", "", "BedUsernameFormat"},
	{"Invalid managed engine ", "", "BedManagedEngine"},
	{"Invalid managed mode ", "", "BedManagedMode"},
}
var csWarn = []csRule{
	{"Player forwarding is disabled!", "", "WForwardingNone"},
	{"No backend servers configured.", "", "WNoServers"},
	{"All packets going through the proxy will are uncompressed", "", "WLevelZero"},
	{"All packets going through the proxy will be compressed", "", "WThresholdZero"},
}

func csMatch(rs []csRule, msg, unknown string) string {
	for _, r := range rs {
		if strings.HasPrefix(msg, r.prefix) && (r.contains == "" || strings.Contains(msg, r.contains)) {
			return r.id
		}
	}
	return unknown
}

type csSite struct{ fn, guard, kind, id string }

type csWalker struct {
	fset  *token.FileSet
	fn    string
	sites []csSite
	seen  int // e/w calls recognised by the structured walk
	err   error
}

func (w *csWalker) src(n ast.Node) string {
	var b bytes.Buffer
	_ = printer.Fprint(&b, w.fset, n)
	return strings.Join(strings.Fields(b.String()), " ")
}

// literal evaluates "a" + "b" + `c` of string literals.
func literal(e ast.Expr) (string, bool) {
	switch x := e.(type) {
	case *ast.BasicLit:
		if x.Kind != token.STRING {
			return "", false
		}
		s, err := strconv.Unquote(x.Value)
		return s, err == nil
	case *ast.BinaryExpr:
		if x.Op != token.ADD {
			return "", false
		}
		a, ok1 := literal(x.X)
		b, ok2 := literal(x.Y)
		return a + b, ok1 && ok2
	case *ast.ParenExpr:
		return literal(x.X)
	}
	return "", false
}

var csValidators = map[string]bool{
	"validateProxyProtocol": true, "validateBackendFloodgate": true, "validateVia": true, "warnLiteIgnoredSettings": true,
}

func (w *csWalker) add(guard []string, kind, id string) {
	w.sites = append(w.sites, csSite{w.fn, strings.Join(guard, " > "), kind, id})
}

func (w *csWalker) call(c *ast.CallExpr, guard []string) {
	switch f := c.Fun.(type) {
	case *ast.Ident:
		switch {
		case f.Name == "e" || f.Name == "w":
			w.seen++
			if len(c.Args) == 0 {
				w.err = fmt.Errorf("%s: %s() without a message", w.fn, f.Name)
				return
			}
			msg, ok := literal(c.Args[0])
			if !ok {
				w.err = fmt.Errorf("%s: message of %s(...) is not a string literal: %s", w.fn, f.Name, w.src(c.Args[0]))
				return
			}
			if f.Name == "e" {
				p := msg
				if len(p) > 48 {
					p = p[:48]
				}
				w.add(guard, "e", csMatch(csErr, msg, "Unknown:"+p))
			} else {
				w.add(guard, "w", csMatch(csWarn, msg, "WOther"))
			}
		case csValidators[f.Name]:
			w.add(guard, "call", f.Name)
		}
	case *ast.SelectorExpr:
		if f.Sel.Name == "Validate" {
			w.add(guard, "call", w.src(f))
		}
	}
}

func (w *csWalker) expr(e ast.Expr, guard []string) {
	if c, ok := e.(*ast.CallExpr); ok {
		w.call(c, guard)
	}
}

func (w *csWalker) stmts(list []ast.Stmt, guard []string) {
	for _, st := range list {
		w.stmt(st, guard)
	}
}

func push(guard []string, g string) []string { return append(append([]string{}, guard...), g) }

func (w *csWalker) stmt(st ast.Stmt, guard []string) {
	switch s := st.(type) {
	case *ast.ExprStmt:
		w.expr(s.X, guard)
	case *ast.AssignStmt:
		for _, r := range s.Rhs {
			if _, isLit := r.(*ast.FuncLit); isLit {
				continue // e := func(...){...}, w := ..., prefix := ...: the closures themselves
			}
			w.expr(r, guard)
		}
	case *ast.IfStmt:
		g := "if " + w.src(s.Cond)
		if s.Init != nil {
			g = "if " + w.src(s.Init) + "; " + w.src(s.Cond)
			w.stmt(s.Init, guard)
		}
		w.stmts(s.Body.List, push(guard, g))
		switch el := s.Else.(type) {
		case *ast.BlockStmt:
			w.stmts(el.List, push(guard, "else"))
		case *ast.IfStmt:
			w.stmt(el, push(guard, "else"))
		}
	case *ast.RangeStmt:
		w.stmts(s.Body.List, push(guard, "range "+w.src(s.X)))
	case *ast.ForStmt:
		w.stmts(s.Body.List, push(guard, "for"))
	case *ast.SwitchStmt:
		tag := ""
		if s.Tag != nil {
			tag = w.src(s.Tag)
		}
		for _, cc := range s.Body.List {
			c := cc.(*ast.CaseClause)
			g := "switch " + tag + " default"
			if c.List != nil {
				var xs []string
				for _, x := range c.List {
					xs = append(xs, w.src(x))
				}
				g = "switch " + tag + " case " + strings.Join(xs, ", ")
			}
			w.stmts(c.Body, push(guard, g))
		}
	case *ast.BlockStmt:
		w.stmts(s.List, guard)
	case *ast.ReturnStmt:
		w.add(guard, "return", "")
	case *ast.BranchStmt: // continue / break decide which later sites of a loop body are reachable
		w.add(guard, "branch", s.Tok.String())
	}
}

func csQuote(s string) string { return `"` + strings.ReplaceAll(s, `"`, `""`) + `"` }

func configShape(repo, out string) error {
	type target struct {
		file, recv, name, label string
	}
	targets := []target{
		{"pkg/gate/config/config.go", "Config", "Validate", "gate.Validate"},
		{"pkg/edition/java/config/config.go", "Config", "Validate", "java.Validate"},
		{"pkg/edition/java/config/config.go", "", "validateProxyProtocol", "java.validateProxyProtocol"},
		{"pkg/edition/java/config/config.go", "", "validateBackendFloodgate", "java.validateBackendFloodgate"},
		{"pkg/edition/java/config/config.go", "", "validateVia", "java.validateVia"},
		{"pkg/edition/java/lite/config/config.go", "Config", "Validate", "lite.Validate"},
		{"pkg/edition/bedrock/config/validate.go", "Config", "Validate", "bedrock.Validate"},
	}
	fset := token.NewFileSet()
	files := map[string]*ast.File{}
	var all []csSite
	for _, t := range targets {
		f := files[t.file]
		if f == nil {
			var err error
			f, err = parser.ParseFile(fset, filepath.Join(repo, t.file), nil, 0)
			if err != nil {
				return err
			}
			files[t.file] = f
		}
		var fd *ast.FuncDecl
		for _, d := range f.Decls {
			x, ok := d.(*ast.FuncDecl)
			if !ok || x.Name.Name != t.name {
				continue
			}
			recv := ""
			if x.Recv != nil && len(x.Recv.List) == 1 {
				switch r := x.Recv.List[0].Type.(type) {
				case *ast.StarExpr:
					if id, ok := r.X.(*ast.Ident); ok {
						recv = id.Name
					}
				case *ast.Ident:
					recv = r.Name
				}
			}
			if recv == t.recv {
				fd = x
			}
		}
		if fd == nil || fd.Body == nil {
			return fmt.Errorf("%s: function %s not found", t.file, t.label)
		}
		w := &csWalker{fset: fset, fn: t.label}
		w.stmts(fd.Body.List, nil)
		if w.err != nil {
			return w.err
		}
		// fail closed: every call of the error/warning closures must have been seen by the structured walk
		total := 0
		ast.Inspect(fd.Body, func(n ast.Node) bool {
			if c, ok := n.(*ast.CallExpr); ok {
				if id, ok := c.Fun.(*ast.Ident); ok && (id.Name == "e" || id.Name == "w") {
					total++
				}
			}
			return true
		})
		if total != w.seen {
			return fmt.Errorf("%s: %d calls of e/w in the source, %d in recognised positions (unrecognised statement shape)", t.label, total, w.seen)
		}
		all = append(all, w.sites...)
	}

	var b strings.Builder
	b.WriteString("(* GENERATED by translator/configshape.go from the validators' source text — do not edit.\n")
	b.WriteString("   One entry per error site / warning site / validator call / return, in source order:\n")
	b.WriteString("   (function, guard path, kind, id). *)\n")
	b.WriteString("From Coq Require Import List String.\nImport ListNotations.\nOpen Scope string_scope.\n\n")
	b.WriteString("Definition sites : list (string * string * string * string) := [\n")
	for i, s := range all {
		if i > 0 {
			b.WriteString(";\n")
		}
		fmt.Fprintf(&b, "  (%s, %s, %s, %s)", csQuote(s.fn), csQuote(s.guard), csQuote(s.kind), csQuote(s.id))
	}
	b.WriteString("\n].\n")
	return writeIfChanged(filepath.Join(out, "ConfigShape.v"), []byte(b.String()))
}
