module veriftranslator

go 1.26
