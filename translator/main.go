// Translators: regenerate coq/Gen/*.v from /repo's source text on every run (DESIGN.md 3.1).
// Standard library only (go/parser, go/ast, go/token). Each translator lives in its own file and
// registers itself in init(); usage: go run . <name> --repo /repo --out /verif/coq/Gen
package main

import (
	"flag"
	"fmt"
	"os"
	"sort"
)

// translators maps a name (as listed under "translators" in meta/CXX.json) to its entry point.
// A translator must fail closed: exit non-zero (return an error) rather than emit a guess.
var translators = map[string]func(repo, out string) error{}

func main() {
	if len(os.Args) < 2 {
		usage()
	}
	name := os.Args[1]
	fs := flag.NewFlagSet(name, flag.ExitOnError)
	repo := fs.String("repo", "/repo", "path of the gate checkout to translate")
	out := fs.String("out", "/verif/coq/Gen", "output directory for generated .v files")
	fs.Parse(os.Args[2:])
	t, ok := translators[name]
	if !ok {
		usage()
	}
	if err := os.MkdirAll(*out, 0o755); err != nil {
		fmt.Fprintln(os.Stderr, err)
		os.Exit(2)
	}
	if err := t(*repo, *out); err != nil {
		fmt.Fprintln(os.Stderr, "translator", name, "failed:", err)
		os.Exit(1)
	}
}

func usage() {
	var names []string
	for n := range translators {
		names = append(names, n)
	}
	sort.Strings(names)
	fmt.Fprintln(os.Stderr, "usage: translator <name> --repo DIR --out DIR; names:", names)
	os.Exit(2)
}

// writeIfChanged keeps timestamps stable so that make does not rebuild an unchanged Gen file.
func writeIfChanged(path string, content []byte) error {
	if old, err := os.ReadFile(path); err == nil && string(old) == string(content) {
		return nil
	}
	return os.WriteFile(path, content, 0o644)
}
