// Translator "lockfacts": lock-discipline facts of the proxy's registries -> coq/Gen/LockFacts.v
// (one `mkA ...` entry per line; the C12 harness reads the same lines for its case descriptions).
//
// For a configured list of guarded struct fields it records EVERY syntactic use of the field (and of
// every local that was assigned the field's map reference — an alias) in the non-test files of the
// package, together with the set of configured mutexes that are MUST-held at that statement:
//
//   - intra-procedural, statement order; `X.mu.Lock()/RLock()/Unlock()/RUnlock()` update the set,
//     `defer X.mu.Unlock()` keeps the lock held to the end of the function;
//   - if/switch/select: intersection of the branches that fall through;
//   - loops: the body must leave the set as it found it, goto must arrive with the set the label has;
//   - function literals (goroutines, callbacks, deferred closures) start with the EMPTY set;
//   - a `return` (or the end of the body) with a configured mutex held and no deferred unlock is a
//     lock LEAK, recorded separately.
//
// Fields and mutexes are resolved with go/types over the package's own declarations (imports are
// stubbed: only package-local struct fields matter), so `a.proxy.playerIDs` is found as well as
// `p.playerIDs`.  Fail closed: a use whose shape is not one of read / write / range / len / delete /
// alias assignment is emitted as KEscape (never guarded); a function that touches a configured field
// or mutex and contains a shape the lockset walk does not model is emitted with KUnknown accesses
// (never guarded) and counted in `untranslated`; anything the translator cannot parse is an error.
package main

import (
	"fmt"
	"go/ast"
	"go/build"
	"go/parser"
	"go/token"
	"go/types"
	"path/filepath"
	"sort"
	"strings"
)

func init() { translators["lockfacts"] = lockfacts }

type guardedField struct {
	Pkg    string // directory below the repo
	Struct string
	Field  string
	Mutex  string // field of the same struct
}

// The configured registries (DESIGN.md 3.1): the two player indices, the server map with its
// config bookkeeping, and a server's player list.
var lockfactsConfig = []guardedField{
	{"pkg/edition/java/proxy", "Proxy", "playerNames", "muP"},
	{"pkg/edition/java/proxy", "Proxy", "playerIDs", "muP"},
	{"pkg/edition/java/proxy", "Proxy", "servers", "muS"},
	{"pkg/edition/java/proxy", "Proxy", "configServers", "muS"},
	{"pkg/edition/java/proxy", "players", "list", "mu"},
}

type lfAccess struct {
	File  string   `json:"file"`
	Line  int      `json:"line"`
	Func  string   `json:"func"`
	Field string   `json:"field"` // Struct.field
	Mutex string   `json:"mutex"`
	Kind  string   `json:"kind"`
	Held  []string `json:"held"` // "mutex:R" / "mutex:W" held on the same base expression
}

type lfLeak struct {
	File  string `json:"file"`
	Line  int    `json:"line"`
	Func  string `json:"func"`
	Mutex string `json:"mutex"`
}

// lfSection: a guarded access together with the critical section (acquisition number within the
// function) it happens in; two accesses with the same non-zero number are not separated by an unlock.
type lfSection struct {
	Func   string
	Region int
	Field  string
	Write  bool
	Line   int
}

type stubImporter struct{ pkgs map[string]*types.Package }

func (s *stubImporter) Import(path string) (*types.Package, error) {
	if p, ok := s.pkgs[path]; ok {
		return p, nil
	}
	name := path[strings.LastIndex(path, "/")+1:]
	p := types.NewPackage(path, name)
	p.MarkComplete()
	s.pkgs[path] = p
	return p, nil
}

type lfPkg struct {
	fset   *token.FileSet
	info   *types.Info
	fields map[*types.Var]guardedField // guarded data fields
	mutex  map[*types.Var]string       // configured mutex fields -> "Struct.mutex"
	acc    []lfAccess
	leaks  []lfLeak
	sects  []lfSection
	untr   int
	notes  []string
}

func lockfacts(repo, out string) error {
	byPkg := map[string][]guardedField{}
	var order []string
	for _, g := range lockfactsConfig {
		if _, ok := byPkg[g.Pkg]; !ok {
			order = append(order, g.Pkg)
		}
		byPkg[g.Pkg] = append(byPkg[g.Pkg], g)
	}
	var acc []lfAccess
	var leaks []lfLeak
	var sects []lfSection
	untr := 0
	var notes []string
	for _, dir := range order {
		p, err := lockfactsPkg(filepath.Join(repo, dir), byPkg[dir])
		if err != nil {
			return fmt.Errorf("%s: %w", dir, err)
		}
		acc = append(acc, p.acc...)
		leaks = append(leaks, p.leaks...)
		sects = append(sects, p.sects...)
		untr += p.untr
		notes = append(notes, p.notes...)
	}
	sort.SliceStable(acc, func(i, j int) bool {
		if acc[i].File != acc[j].File {
			return acc[i].File < acc[j].File
		}
		return acc[i].Line < acc[j].Line
	})
	// every configured field must have been seen at least once: a rename must not empty the obligation
	for _, g := range lockfactsConfig {
		found := false
		for _, a := range acc {
			if a.Field == g.Struct+"."+g.Field {
				found = true
			}
		}
		if !found {
			return fmt.Errorf("configured field %s.%s has no access site (renamed or removed?)", g.Struct, g.Field)
		}
	}
	var sb strings.Builder
	sb.WriteString("(* GENERATED by translator/lockfacts.go from the gate sources — do not edit.\n")
	sb.WriteString("   One entry per syntactic use of a guarded registry field (or of a local aliasing its map)\n")
	sb.WriteString("   with the configured mutexes must-held there; lock leaks = returns with a mutex held. *)\n")
	sb.WriteString("From Coq Require Import List NArith String.\nFrom Verif Require Import Model.LockDiscipline.\n")
	sb.WriteString("Import ListNotations.\nOpen Scope string_scope.\nOpen Scope N_scope.\n\n")
	sb.WriteString("Definition accesses : list access := [\n")
	for i, a := range acc {
		if i > 0 {
			sb.WriteString(";\n")
		}
		var held []string
		for _, h := range a.Held {
			k := strings.LastIndex(h, ":")
			held = append(held, fmt.Sprintf("(%q, L%s)", h[:k], h[k+1:]))
		}
		fmt.Fprintf(&sb, "  mkA %q %d %q %q %q %s [%s]", a.File, a.Line, a.Func, a.Field, a.Mutex, a.Kind, strings.Join(held, "; "))
	}
	sb.WriteString("\n].\n\nDefinition lock_leaks : list leak := [\n")
	for i, l := range leaks {
		if i > 0 {
			sb.WriteString(";\n")
		}
		fmt.Fprintf(&sb, "  mkL %q %d %q %q", l.File, l.Line, l.Func, l.Mutex)
	}
	sb.WriteString("\n].\n\n")
	sb.WriteString("(* guarded accesses with the number of the critical section (lock acquisition, in statement order\n   within the function) they happen in; 0 = merged from different acquisitions *)\n")
	sb.WriteString("Definition sections : list section_fact := [\n")
	for i, x := range sects {
		if i > 0 {
			sb.WriteString(";\n")
		}
		fmt.Fprintf(&sb, "  mkSF %q %d %q %s %d", x.Func, x.Region, x.Field, map[bool]string{true: "true", false: "false"}[x.Write], x.Line)
	}
	sb.WriteString("\n].\n\n")
	fmt.Fprintf(&sb, "(* functions touching a configured field or mutex whose control flow the walk does not model *)\nDefinition untranslated : N := %d.\n", untr)
	for _, n := range notes {
		fmt.Fprintf(&sb, "(* note: %s *)\n", strings.ReplaceAll(n, "(*", "( *"))
	}
	return writeIfChanged(filepath.Join(out, "LockFacts.v"), []byte(sb.String()))
}

func lockfactsPkg(dir string, cfg []guardedField) (*lfPkg, error) {
	bp, err := build.Default.ImportDir(dir, 0)
	if err != nil {
		return nil, err
	}
	fset := token.NewFileSet()
	var files []*ast.File
	for _, name := range bp.GoFiles {
		f, err := parser.ParseFile(fset, filepath.Join(dir, name), nil, parser.ParseComments)
		if err != nil {
			return nil, err
		}
		files = append(files, f)
	}
	info := &types.Info{
		Uses:       map[*ast.Ident]types.Object{},
		Defs:       map[*ast.Ident]types.Object{},
		Selections: map[*ast.SelectorExpr]*types.Selection{},
	}
	conf := types.Config{Importer: &stubImporter{pkgs: map[string]*types.Package{}}, Error: func(error) {}, FakeImportC: true}
	pkg, _ := conf.Check(bp.ImportPath, fset, files, info) // errors from the stubbed imports are expected
	if pkg == nil {
		return nil, fmt.Errorf("type check produced no package")
	}
	p := &lfPkg{fset: fset, info: info, fields: map[*types.Var]guardedField{}, mutex: map[*types.Var]string{}}
	for _, g := range cfg {
		obj := pkg.Scope().Lookup(g.Struct)
		if obj == nil {
			return nil, fmt.Errorf("struct %s not found", g.Struct)
		}
		st, ok := obj.Type().Underlying().(*types.Struct)
		if !ok {
			return nil, fmt.Errorf("%s is not a struct", g.Struct)
		}
		var fv, mv *types.Var
		for i := 0; i < st.NumFields(); i++ {
			if st.Field(i).Name() == g.Field {
				fv = st.Field(i)
			}
			if st.Field(i).Name() == g.Mutex {
				mv = st.Field(i)
			}
		}
		if fv == nil || mv == nil {
			return nil, fmt.Errorf("field %s.%s or its mutex %s not found", g.Struct, g.Field, g.Mutex)
		}
		if _, ok := fv.Type().Underlying().(*types.Map); !ok {
			return nil, fmt.Errorf("field %s.%s is not a map: the analysis models map registries only", g.Struct, g.Field)
		}
		p.fields[fv] = g
		p.mutex[mv] = g.Struct + "." + g.Mutex
	}
	for _, f := range files {
		fname := filepath.Base(fset.Position(f.Pos()).Filename)
		for _, d := range f.Decls {
			fd, ok := d.(*ast.FuncDecl)
			if !ok || fd.Body == nil {
				continue
			}
			name := fd.Name.Name
			if fd.Recv != nil && len(fd.Recv.List) == 1 {
				name = recvTypeName(fd.Recv.List[0].Type) + "." + name
			}
			p.function(fname, name, fd.Body)
		}
	}
	return p, nil
}

func recvTypeName(e ast.Expr) string {
	switch t := e.(type) {
	case *ast.StarExpr:
		return recvTypeName(t.X)
	case *ast.Ident:
		return t.Name
	case *ast.IndexExpr:
		return recvTypeName(t.X)
	case *ast.IndexListExpr:
		return recvTypeName(t.X)
	}
	return "?"
}

// ---------- per function ----------

// held: "base|Struct.mutex" -> critical-section number << 1 | (1 if write-locked).
// Every Lock/RLock statement of a function opens a new critical section (numbered from 1 in statement
// order); 0 = the branches that reach this point hold the mutex from different acquisitions.
type held map[string]int

func lockMode(v int) byte {
	if v&1 == 1 {
		return 'W'
	}
	return 'R'
}

func (h held) clone() held {
	c := held{}
	for k, v := range h {
		c[k] = v
	}
	return c
}

func (h held) equal(o held) bool {
	if len(h) != len(o) {
		return false
	}
	for k, v := range h {
		if o[k] != v {
			return false
		}
	}
	return true
}

func meet(a, b held) held {
	c := held{}
	for k, v := range a {
		if w, ok := b[k]; ok {
			region := v >> 1
			if w>>1 != region {
				region = 0
			}
			c[k] = region<<1 | (v & w & 1)
		}
	}
	return c
}

type fnWalk struct {
	p        *lfPkg
	file     string
	name     string
	alias    map[types.Object]guardedFieldAt // local -> field it aliases
	deferred map[string]bool                 // mutex keys with a deferred unlock
	labels   map[string]held
	bad      string // first unmodelled shape
	acc      []lfAccess
	leaks    []lfLeak
	sects    []lfSection
	nregion  int
	touched  bool
	lits     []*ast.FuncLit
	loops    []held // lockset at the entry of the enclosing loops (innermost last)
}

type guardedFieldAt struct {
	g    guardedField
	base string
}

func (p *lfPkg) function(file, name string, body *ast.BlockStmt) {
	w := &fnWalk{p: p, file: file, name: name, alias: map[types.Object]guardedFieldAt{}, deferred: map[string]bool{}, labels: map[string]held{}}
	out, live := w.block(body.List, held{})
	if live {
		w.leakCheck(out, body.Rbrace)
	}
	if w.bad != "" && w.touched {
		p.untr++
		p.notes = append(p.notes, fmt.Sprintf("%s (%s): %s", name, file, w.bad))
		for i := range w.acc {
			w.acc[i].Kind = "KUnknown"
		}
	}
	p.acc = append(p.acc, w.acc...)
	p.leaks = append(p.leaks, w.leaks...)
	if w.bad == "" {
		p.sects = append(p.sects, w.sects...)
	}
	// function literals run later / elsewhere: analysed on their own with the empty lockset
	for i, l := range w.lits {
		p.function(file, fmt.Sprintf("%s.func%d", name, i+1), l.Body)
	}
}

func (w *fnWalk) line(pos token.Pos) int { return w.p.fset.Position(pos).Line }

func (w *fnWalk) leakCheck(h held, pos token.Pos) {
	keys := make([]string, 0, len(h))
	for k := range h {
		keys = append(keys, k)
	}
	sort.Strings(keys)
	for _, k := range keys {
		if !w.deferred[k] {
			w.leaks = append(w.leaks, lfLeak{File: w.file, Line: w.line(pos), Func: w.name, Mutex: k[strings.Index(k, "|")+1:]})
		}
	}
}

// lockCall recognises X.mu.Lock() etc. on a configured mutex.
func (w *fnWalk) lockCall(e ast.Expr) (key string, op string, ok bool) {
	call, isCall := e.(*ast.CallExpr)
	if !isCall || len(call.Args) != 0 {
		return
	}
	sel, isSel := call.Fun.(*ast.SelectorExpr)
	if !isSel {
		return
	}
	switch sel.Sel.Name {
	case "Lock", "RLock", "Unlock", "RUnlock", "TryLock", "TryRLock":
	default:
		return
	}
	msel, isSel := sel.X.(*ast.SelectorExpr)
	if !isSel {
		return
	}
	s := w.p.info.Selections[msel]
	if s == nil {
		return
	}
	v, isVar := s.Obj().(*types.Var)
	if !isVar {
		return
	}
	mname, isCfg := w.p.mutex[v]
	if !isCfg {
		return
	}
	return lfExprString(msel.X) + "|" + mname, sel.Sel.Name, true
}

func lfExprString(e ast.Expr) string {
	switch t := e.(type) {
	case *ast.Ident:
		return t.Name
	case *ast.SelectorExpr:
		return lfExprString(t.X) + "." + t.Sel.Name
	case *ast.ParenExpr:
		return lfExprString(t.X)
	case *ast.StarExpr:
		return "*" + lfExprString(t.X)
	}
	return fmt.Sprintf("<%T>", e)
}

func (w *fnWalk) setBad(what string, pos token.Pos) {
	if w.bad == "" {
		w.bad = fmt.Sprintf("%s at line %d", what, w.line(pos))
	}
}

// block walks statements in order; returns the lockset after them and whether control falls through.
func (w *fnWalk) block(stmts []ast.Stmt, h held) (held, bool) {
	for _, s := range stmts {
		var live bool
		h, live = w.stmt(s, h)
		if !live {
			return h, false
		}
	}
	return h, true
}

func (w *fnWalk) stmt(s ast.Stmt, h held) (held, bool) {
	switch t := s.(type) {
	case nil:
		return h, true
	case *ast.BlockStmt:
		return w.block(t.List, h)
	case *ast.ExprStmt:
		if key, op, ok := w.lockCall(t.X); ok {
			w.touched = true
			h = h.clone()
			switch op {
			case "Lock":
				w.nregion++
				h[key] = w.nregion<<1 | 1
			case "RLock":
				w.nregion++
				h[key] = w.nregion << 1
			case "Unlock", "RUnlock":
				if _, has := h[key]; !has {
					w.setBad("unlock of a mutex not known to be held", t.Pos())
				}
				delete(h, key)
			default:
				w.setBad("TryLock", t.Pos())
			}
			return h, true
		}
		w.exprs(h, t.X)
		if call, ok := t.X.(*ast.CallExpr); ok {
			if id, ok := call.Fun.(*ast.Ident); ok && id.Name == "panic" {
				return h, false
			}
		}
		return h, true
	case *ast.DeferStmt:
		if key, op, ok := w.lockCall(t.Call); ok {
			w.touched = true
			if op == "Unlock" || op == "RUnlock" {
				if _, has := h[key]; !has {
					w.setBad("deferred unlock of a mutex not held", t.Pos())
				}
				w.deferred[key] = true
			} else {
				w.setBad("deferred "+op, t.Pos())
			}
			return h, true
		}
		w.exprs(held{}, t.Call) // runs at function exit: nothing can be assumed held
		return h, true
	case *ast.GoStmt:
		w.exprs(held{}, t.Call)
		return h, true
	case *ast.AssignStmt:
		w.assign(t, h)
		return h, true
	case *ast.DeclStmt:
		if gd, ok := t.Decl.(*ast.GenDecl); ok {
			for _, sp := range gd.Specs {
				if vs, ok := sp.(*ast.ValueSpec); ok {
					for i, v := range vs.Values {
						if i < len(vs.Names) && w.fieldOf(v) != nil {
							w.aliasDef(vs.Names[i], v, h)
							continue
						}
						w.exprs(h, v)
					}
				}
			}
		}
		return h, true
	case *ast.IncDecStmt:
		w.exprs(h, t.X)
		return h, true
	case *ast.SendStmt:
		w.exprs(h, t.Chan, t.Value)
		return h, true
	case *ast.EmptyStmt:
		return h, true
	case *ast.ReturnStmt:
		w.exprsEscaping(h, t.Results...)
		w.leakCheck(h, t.Pos())
		return h, false
	case *ast.LabeledStmt:
		w.labels[t.Label.Name] = h.clone()
		return w.stmt(t.Stmt, h)
	case *ast.BranchStmt:
		switch t.Tok {
		case token.GOTO:
			lh, ok := w.labels[t.Label.Name]
			if !ok || !lh.equal(h) {
				w.setBad("goto with a lockset different from the label's (or forward goto)", t.Pos())
			}
		case token.BREAK, token.CONTINUE:
			// checked by the enclosing loop: the body must keep the lockset unchanged, so leaving early
			// with a different set is flagged there through loopSets
			w.loopExit(h, t.Pos())
		case token.FALLTHROUGH:
			w.setBad("fallthrough", t.Pos())
		}
		return h, false
	case *ast.IfStmt:
		h, _ = w.stmt(t.Init, h)
		w.exprs(h, t.Cond)
		h1, l1 := w.block(t.Body.List, h)
		h2, l2 := h, true
		if t.Else != nil {
			h2, l2 = w.stmt(t.Else, h)
		}
		switch {
		case l1 && l2:
			return meet(h1, h2), true
		case l1:
			return h1, true
		case l2:
			return h2, true
		}
		return h, false
	case *ast.ForStmt:
		h, _ = w.stmt(t.Init, h)
		w.exprs(h, t.Cond)
		w.loop(t.Body, t.Post, h, t.Pos())
		return h, true
	case *ast.RangeStmt:
		w.rangeOver(t, h)
		w.loop(t.Body, nil, h, t.Pos())
		return h, true
	case *ast.SwitchStmt:
		h, _ = w.stmt(t.Init, h)
		w.exprs(h, t.Tag)
		return w.clauses(t.Body, h)
	case *ast.TypeSwitchStmt:
		h, _ = w.stmt(t.Init, h)
		h, _ = w.stmt(t.Assign, h)
		return w.clauses(t.Body, h)
	case *ast.SelectStmt:
		return w.clauses(t.Body, h)
	}
	w.setBad(fmt.Sprintf("statement %T", s), s.Pos())
	return h, true
}

func (w *fnWalk) loopExit(h held, pos token.Pos) {
	if len(w.loops) == 0 {
		return // break out of a switch/select clause: handled as a terminated clause (conservative)
	}
	if !w.loops[len(w.loops)-1].equal(h) {
		w.setBad("break/continue with a lockset different from the loop entry", pos)
	}
}

func (w *fnWalk) loop(body *ast.BlockStmt, post ast.Stmt, h held, pos token.Pos) {
	w.loops = append(w.loops, h)
	out, live := w.block(body.List, h)
	if live {
		out, _ = w.stmt(post, out)
		if !out.equal(h) {
			w.setBad("loop body changes the lockset", pos)
		}
	}
	w.loops = w.loops[:len(w.loops)-1]
}

func (w *fnWalk) clauses(body *ast.BlockStmt, h held) (held, bool) {
	var outs []held
	hasDefault := false
	saved := w.loops
	w.loops = nil // a break inside a clause leaves the switch, not the loop
	for _, c := range body.List {
		var list []ast.Stmt
		switch cc := c.(type) {
		case *ast.CaseClause:
			if cc.List == nil {
				hasDefault = true
			}
			w.exprs(h, cc.List...)
			list = cc.Body
		case *ast.CommClause:
			if cc.Comm == nil {
				hasDefault = true
			}
			hc, _ := w.stmt(cc.Comm, h)
			_ = hc
			list = cc.Body
		}
		if o, live := w.block(list, h); live {
			outs = append(outs, o)
		} else if containsBreak(list) {
			// a clause left by break continues after the switch with whatever it held: require = entry
			outs = append(outs, h)
		}
	}
	w.loops = saved
	if !hasDefault {
		outs = append(outs, h)
	}
	if len(outs) == 0 {
		return h, false
	}
	r := outs[0]
	for _, o := range outs[1:] {
		r = meet(r, o)
	}
	return r, true
}

func containsBreak(list []ast.Stmt) bool {
	found := false
	for _, s := range list {
		ast.Inspect(s, func(n ast.Node) bool {
			switch t := n.(type) {
			case *ast.ForStmt, *ast.RangeStmt, *ast.SwitchStmt, *ast.TypeSwitchStmt, *ast.SelectStmt, *ast.FuncLit:
				return false
			case *ast.BranchStmt:
				if t.Tok == token.BREAK {
					found = true
				}
			}
			return true
		})
	}
	return found
}

// ---------- accesses ----------

// fieldOf: e is (possibly parenthesised) `base.field` for a configured field.
func (w *fnWalk) fieldOf(e ast.Expr) *guardedFieldAt {
	for {
		pe, ok := e.(*ast.ParenExpr)
		if !ok {
			break
		}
		e = pe.X
	}
	sel, ok := e.(*ast.SelectorExpr)
	if !ok {
		return nil
	}
	s := w.p.info.Selections[sel]
	if s == nil {
		return nil
	}
	v, ok := s.Obj().(*types.Var)
	if !ok {
		return nil
	}
	g, ok := w.p.fields[v]
	if !ok {
		return nil
	}
	return &guardedFieldAt{g: g, base: lfExprString(sel.X)}
}

// aliasOf: e is a local that holds a guarded map reference.
func (w *fnWalk) aliasOf(e ast.Expr) *guardedFieldAt {
	id, ok := e.(*ast.Ident)
	if !ok {
		return nil
	}
	obj := w.p.info.Uses[id]
	if obj == nil {
		return nil
	}
	if a, ok := w.alias[obj]; ok {
		return &a
	}
	return nil
}

func (w *fnWalk) record(gf *guardedFieldAt, kind string, pos token.Pos, h held) {
	w.touched = true
	var hs []string
	prefix := gf.base + "|"
	for k, v := range h {
		if strings.HasPrefix(k, prefix) {
			hs = append(hs, k[len(prefix):]+":"+string(lockMode(v)))
			if k[len(prefix):] == gf.g.Struct+"."+gf.g.Mutex {
				w.sects = append(w.sects, lfSection{Func: w.name, Region: v >> 1, Field: gf.g.Struct + "." + gf.g.Field,
					Write: kind == "KWrite" || kind == "KAliasWrite", Line: w.line(pos)})
			}
		}
	}
	sort.Strings(hs)
	w.acc = append(w.acc, lfAccess{File: w.file, Line: w.line(pos), Func: w.name, Field: gf.g.Struct + "." + gf.g.Field,
		Mutex: gf.g.Struct + "." + gf.g.Mutex, Kind: kind, Held: hs})
}

func (w *fnWalk) aliasDef(name *ast.Ident, rhs ast.Expr, h held) {
	gf := w.fieldOf(rhs)
	w.record(gf, "KAlias", rhs.Pos(), h)
	if obj := w.p.info.Defs[name]; obj != nil {
		w.alias[obj] = *gf
	} else if obj := w.p.info.Uses[name]; obj != nil {
		w.alias[obj] = *gf
	} else {
		w.setBad("alias assigned to something that is not a local", name.Pos())
	}
}

func (w *fnWalk) assign(t *ast.AssignStmt, h held) {
	// x := base.field / x = base.field : an alias of the map reference
	if len(t.Lhs) == len(t.Rhs) {
		for i, r := range t.Rhs {
			if w.fieldOf(r) != nil {
				if id, ok := t.Lhs[i].(*ast.Ident); ok {
					w.aliasDef(id, r, h)
					continue
				}
				w.record(w.fieldOf(r), "KEscape", r.Pos(), h)
				continue
			}
			if a := w.aliasOf(r); a != nil { // y := x
				w.record(a, "KEscape", r.Pos(), h)
				continue
			}
			w.exprs(h, r)
		}
	} else {
		w.exprs(h, t.Rhs...)
	}
	for i, l := range t.Lhs {
		switch lt := l.(type) {
		case *ast.IndexExpr: // m[k] = v
			if gf := w.fieldOf(lt.X); gf != nil {
				w.record(gf, "KWrite", lt.Pos(), h)
				w.exprs(h, lt.Index)
				continue
			}
			if a := w.aliasOf(lt.X); a != nil {
				w.recordAliasUse(a, "KWrite", lt.Pos(), h)
				w.exprs(h, lt.Index)
				continue
			}
			w.exprs(h, lt)
		case *ast.Ident:
			// assigning something that is not a guarded field to an alias local ends the alias
			if obj := w.p.info.Uses[lt]; obj != nil {
				if _, isAlias := w.alias[obj]; isAlias {
					if !(len(t.Lhs) == len(t.Rhs) && w.fieldOf(t.Rhs[i]) != nil) {
						delete(w.alias, obj)
					}
				}
			}
		default:
			if gf := w.fieldOf(l); gf != nil { // base.field = ...
				w.record(gf, "KWrite", l.Pos(), h)
				continue
			}
			w.exprs(h, l)
		}
	}
}

// alias uses need the lock at the use site; a write through an alias is reported as KEscape-free
// KAliasUse as well (the guard rule asks for the write lock through the kind carried in Held modes).
func (w *fnWalk) recordAliasUse(a *guardedFieldAt, kind string, pos token.Pos, h held) {
	if kind == "KWrite" {
		w.record(a, "KAliasWrite", pos, h)
		return
	}
	w.record(a, "KAliasUse", pos, h)
}

func (w *fnWalk) rangeOver(t *ast.RangeStmt, h held) {
	if gf := w.fieldOf(t.X); gf != nil {
		w.record(gf, "KRange", t.X.Pos(), h)
		return
	}
	if a := w.aliasOf(t.X); a != nil {
		w.record(a, "KAliasUse", t.X.Pos(), h)
		return
	}
	w.exprs(h, t.X)
}

func (w *fnWalk) exprs(h held, es ...ast.Expr) {
	for _, e := range es {
		if e != nil {
			w.expr(h, e, false)
		}
	}
}

// exprsEscaping: like exprs, but a bare field / alias at the top level leaves the function
func (w *fnWalk) exprsEscaping(h held, es ...ast.Expr) {
	for _, e := range es {
		if e != nil {
			w.expr(h, e, true)
		}
	}
}

func (w *fnWalk) expr(h held, e ast.Expr, escaping bool) {
	if gf := w.fieldOf(e); gf != nil {
		w.record(gf, "KEscape", e.Pos(), h) // a bare use not covered by the shapes below
		return
	}
	if a := w.aliasOf(e); a != nil {
		w.record(a, "KEscape", e.Pos(), h)
		return
	}
	switch t := e.(type) {
	case *ast.FuncLit:
		w.lits = append(w.lits, t)
	case *ast.ParenExpr:
		w.expr(h, t.X, escaping)
	case *ast.IndexExpr:
		if gf := w.fieldOf(t.X); gf != nil {
			w.record(gf, "KRead", t.Pos(), h)
		} else if a := w.aliasOf(t.X); a != nil {
			w.record(a, "KAliasUse", t.Pos(), h)
		} else {
			w.expr(h, t.X, false)
		}
		w.expr(h, t.Index, false)
	case *ast.CallExpr:
		if id, ok := t.Fun.(*ast.Ident); ok && (id.Name == "len" || id.Name == "delete" || id.Name == "clear") && len(t.Args) >= 1 {
			kind, akind := "KRead", "KAliasUse"
			if id.Name != "len" {
				kind, akind = "KWrite", "KAliasWrite"
			}
			if gf := w.fieldOf(t.Args[0]); gf != nil {
				w.record(gf, kind, t.Pos(), h)
				w.exprs(h, t.Args[1:]...)
				return
			}
			if a := w.aliasOf(t.Args[0]); a != nil {
				w.record(a, akind, t.Pos(), h)
				w.exprs(h, t.Args[1:]...)
				return
			}
		}
		if _, _, ok := w.lockCall(t); ok {
			w.setBad("lock operation inside an expression", t.Pos())
			return
		}
		w.expr(h, t.Fun, false)
		w.exprs(h, t.Args...)
	case *ast.SelectorExpr:
		w.expr(h, t.X, false)
	case *ast.StarExpr:
		w.expr(h, t.X, false)
	case *ast.UnaryExpr:
		w.expr(h, t.X, false)
	case *ast.BinaryExpr:
		w.expr(h, t.X, false)
		w.expr(h, t.Y, false)
	case *ast.KeyValueExpr:
		w.expr(h, t.Key, false)
		w.expr(h, t.Value, false)
	case *ast.CompositeLit:
		for _, el := range t.Elts {
			if kv, ok := el.(*ast.KeyValueExpr); ok {
				w.expr(h, kv.Value, false) // keys of struct literals are field names, not uses
				if _, isIdent := kv.Key.(*ast.Ident); !isIdent {
					w.expr(h, kv.Key, false)
				}
				continue
			}
			w.expr(h, el, false)
		}
	case *ast.SliceExpr:
		w.exprs(h, t.X, t.Low, t.High, t.Max)
	case *ast.TypeAssertExpr:
		w.expr(h, t.X, false)
	case *ast.IndexListExpr:
		w.expr(h, t.X, false)
	case *ast.Ident, *ast.BasicLit, *ast.ArrayType, *ast.MapType, *ast.ChanType, *ast.FuncType,
		*ast.InterfaceType, *ast.StructType, *ast.Ellipsis:
	default:
		w.setBad(fmt.Sprintf("expression %T", e), e.Pos())
	}
}
