// Package pmsg holds what the C24 and C25 harnesses share: a recording netmc.MinecraftConn and
// the Coq printers for the plugin-message model (coq/Model/PluginMsg.v, coq/Model/PluginQueue.v).
package pmsg

import (
	"context"
	"errors"
	"fmt"
	"net"
	"sync"

	"go.minekube.com/gate/pkg/edition/java/netmc"
	"go.minekube.com/gate/pkg/edition/java/proto/packet/plugin"
	"go.minekube.com/gate/pkg/edition/java/proto/state"
	"go.minekube.com/gate/pkg/edition/java/proxy/phase"
	"go.minekube.com/gate/pkg/gate/proto"
)

// Write is one recorded write.
type Write struct {
	Kind    string // "pkt" (plugin.Message via WritePacket/BufferPacket), "raw" (Write/BufferPayload), "other" (any other packet)
	OK      bool
	Channel string
	Data    []byte
	Payload []byte
	Type    string // Go type name for "other"
}

// Conn records every write; it never touches a socket.
type Conn struct {
	ID        int
	St        *state.Registry
	Proto     proto.Protocol
	FailWrite bool // WritePacket/BufferPacket return an error (and record the attempt with OK=false)

	mu      sync.Mutex
	writes  []Write
	flushes int
	closes  int
	ctx     context.Context
	cancel  context.CancelFunc
	handler netmc.SessionHandler
	ctype   phase.ConnectionType
	// Hook, if set, runs inside every write while the recorder's lock is NOT held (schedule probes).
	Hook func(w Write)
	// Gate, if set, makes WritePacket/BufferPacket wait until it is closed BEFORE the packet is looked
	// at: like a real connection, the bytes are serialised at the moment the write actually happens.
	Gate <-chan struct{}
}

var ErrWrite = errors.New("recording conn: write failure requested by the case")

func NewConn(id int, st *state.Registry, p proto.Protocol) *Conn {
	ctx, cancel := context.WithCancel(context.Background())
	return &Conn{ID: id, St: st, Proto: p, ctx: ctx, cancel: cancel}
}

func (c *Conn) record(w Write) {
	c.mu.Lock()
	c.writes = append(c.writes, w)
	h := c.Hook
	c.mu.Unlock()
	if h != nil {
		h(w)
	}
}

// Writes returns a copy of what was recorded so far.
func (c *Conn) Writes() []Write {
	c.mu.Lock()
	defer c.mu.Unlock()
	return append([]Write(nil), c.writes...)
}

func (c *Conn) Reset() {
	c.mu.Lock()
	c.writes = nil
	c.mu.Unlock()
}

func (c *Conn) CloseCount() int {
	c.mu.Lock()
	defer c.mu.Unlock()
	return c.closes
}

func (c *Conn) packet(p proto.Packet) error {
	if g := c.Gate; g != nil {
		<-g
	}
	ok := !c.FailWrite
	if m, is := p.(*plugin.Message); is {
		c.record(Write{Kind: "pkt", OK: ok, Channel: m.Channel, Data: append([]byte(nil), m.Data...)})
	} else {
		c.record(Write{Kind: "other", OK: ok, Type: typeName(p)})
	}
	if !ok {
		return ErrWrite
	}
	return nil
}

func (c *Conn) Context() context.Context { return c.ctx }
func (c *Conn) Close() error {
	c.mu.Lock()
	c.closes++
	c.mu.Unlock()
	c.cancel()
	return nil
}
func (c *Conn) State() *state.Registry   { return c.St }
func (c *Conn) Protocol() proto.Protocol { return c.Proto }
func (c *Conn) RemoteAddr() net.Addr {
	return &net.TCPAddr{IP: net.IPv4(127, 0, 0, 1), Port: 40000 + c.ID}
}
func (c *Conn) LocalAddr() net.Addr { return &net.TCPAddr{IP: net.IPv4(127, 0, 0, 1), Port: 25577} }
func (c *Conn) Type() phase.ConnectionType {
	if c.ctype != nil {
		return c.ctype
	}
	return phase.Vanilla
}
func (c *Conn) SetType(t phase.ConnectionType)                                    { c.ctype = t }
func (c *Conn) ActiveSessionHandler() netmc.SessionHandler                        { return c.handler }
func (c *Conn) SetActiveSessionHandler(_ *state.Registry, h netmc.SessionHandler) { c.handler = h }
func (c *Conn) SwitchSessionHandler(*state.Registry) bool                         { return true }
func (c *Conn) AddSessionHandler(*state.Registry, netmc.SessionHandler)           {}
func (c *Conn) SetAutoReading(bool)                                               {}
func (c *Conn) SetOutboundState(*state.Registry)                                  {}
func (c *Conn) SetProtocol(proto.Protocol)                                        {}
func (c *Conn) SetState(*state.Registry)                                          {}
func (c *Conn) SetCompressionThreshold(int) error                                 { return nil }
func (c *Conn) EnableEncryption([]byte) error                                     { return nil }
func (c *Conn) WritePacket(p proto.Packet) error                                  { return c.packet(p) }
func (c *Conn) BufferPacket(p proto.Packet) error                                 { return c.packet(p) }
func (c *Conn) Write(payload []byte) error {
	c.record(Write{Kind: "raw", OK: true, Payload: append([]byte(nil), payload...)})
	return nil
}
func (c *Conn) BufferPayload(payload []byte) error { return c.Write(payload) }
func (c *Conn) Flush() error {
	c.mu.Lock()
	c.flushes++
	c.mu.Unlock()
	return nil
}
func (c *Conn) Reader() netmc.Reader   { return nil }
func (c *Conn) Writer() netmc.Writer   { return nil }
func (c *Conn) EnablePlayPacketQueue() {}

var _ netmc.MinecraftConn = (*Conn)(nil)

func typeName(p proto.Packet) string { return fmt.Sprintf("%T", p) }
