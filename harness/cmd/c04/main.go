// C04 harness: for every registered packet type x sampled protocol versions x generated values run the
// REAL Encode -> Decode (through bytes.Reader, as codec.Decoder.decodePayload does) -> Encode and write the
// observed triple plus field dumps for the Coq judge (Check.C04.judge).
package main

import (
	"bytes"
	"errors"
	"fmt"
	"io"
	"os"
	"regexp"
	"sort"

	"go.minekube.com/brigodier"
	"go.minekube.com/gate/pkg/edition/java/proto/packet"
	"go.minekube.com/gate/pkg/edition/java/proto/util"
	"go.minekube.com/gate/pkg/edition/java/proto/version"
	"go.minekube.com/gate/pkg/gate/proto"

	"verifharness/lib"
	"verifharness/pktgen"
)

func fragmentNames() (map[string]bool, bool) {
	for _, p := range []string{"../coq/Gen/PacketLayouts.v", "coq/Gen/PacketLayouts.v", "/verif/coq/Gen/PacketLayouts.v"} {
		b, err := os.ReadFile(p)
		if err != nil {
			continue
		}
		out := map[string]bool{}
		for _, m := range regexp.MustCompile(`Fragment "([^"]+)"`).FindAllStringSubmatch(string(b), -1) {
			out[m[1]] = true
		}
		return out, true
	}
	return nil, false
}

func main() {
	f := lib.ParseFlags()
	rng := lib.NewRng(f.Seed)
	out := lib.NewOut("C04", f)
	out.Imports = "From Verif Require Import Model.AvailCmds.\n"
	out.Rule = "every (state, direction, type) of the live registry x sampled protocols (min, 1.8, 1.13, 1.19.3, 1.20.2, max; thorough: all) x generated values " +
		"(boundary lengths 0/1/127/128/255/256/32767 within the decoder's limits, optionals present/absent, counts 0..3/127/128/256, small components/NBT/brigadier trees); " +
		"a (type, version, value) whose encoder rejects the value is skipped and counted; distinct = distinct case term; non-trivial = non-empty body"

	frag, haveFrag := pktgen.FragmentNames()
	regs := pktgen.All()
	sample := map[proto.Protocol]bool{}
	for _, v := range pktgen.SampleVersions(f.Tier != "quick") { // thorough and search: every supported version
		sample[v] = true
	}
	// every (state, dir, type) is also run at the first and the last protocol it is registered for
	type sdt struct {
		st  string
		dir proto.Direction
		tn  string
	}
	lo, hi := map[sdt]proto.Protocol{}, map[sdt]proto.Protocol{}
	for _, r := range regs {
		k := sdt{r.StateName, r.Dir, r.Type.String()}
		if v, ok := lo[k]; !ok || r.Proto < v {
			lo[k] = r.Proto
		}
		if v, ok := hi[k]; !ok || r.Proto > v {
			hi[k] = r.Proto
		}
	}
	perReg := 2
	if f.Tier == "search" {
		perReg = 1
	}
	if f.Tier == "thorough" {
		perReg = 4
	}
	skipped := map[string]int{}
	nogen := map[string]bool{}
	covered := map[string]bool{}
	bigBudget := 6 // cases with a 32767-size field per run
	for _, r := range regs {
		tn := r.Type.String()
		if k := (sdt{r.StateName, r.Dir, tn}); !sample[r.Proto] && lo[k] != r.Proto && hi[k] != r.Proto {
			continue
		}
		for k := 0; k < perReg; k++ {
			cr := rng.Fork()
			g := &pktgen.G{R: cr, Proto: r.Proto, Dir: r.Dir, State: r.StateName}
			if bigBudget > 0 && cr.Chance(1, 60) {
				g.Big = true
			}
			pk, ok := pktgen.Gen(r.Type, g)
			if !ok {
				nogen[tn] = true
				continue
			}
			if g.Big == false && contains(g.Tags, "len=32767") {
				bigBudget--
			}
			var b1 bytes.Buffer
			err := util.RecoverFunc(func() error { return pk.Encode(r.Ctx(), &b1) })
			if err != nil {
				skipped[tn]++
				out.Tag("encoder-rejected")
				continue
			}
			covered[tn] = true
			dumpIt := !haveFrag || frag[tn]
			env1 := "FX"
			if dumpIt {
				env1 = pktgen.DumpAt(pk, r.Proto)
			}
			p2 := r.NewPacket()
			rd := bytes.NewReader(b1.Bytes())
			derr := util.RecoverFunc(func() error { return p2.Decode(r.Ctx(), rd) })
			dec := ""
			env2 := "FX"
			b2term := "None"
			desc := map[string]any{"type": tn, "state": r.StateName, "dir": r.Dir.String(), "protocol": int(r.Proto), "id": int(r.ID),
				"bytes1_hex": hexTrunc(b1.Bytes()), "value": fmt.Sprintf("%.600v", fmt.Sprintf("%+v", pk))}
			switch {
			case derr == nil:
				dec = fmt.Sprintf("(DecOk %d%%N)", rd.Len())
				if dumpIt {
					env2 = pktgen.DumpAt(p2, r.Proto)
				}
				var b2 bytes.Buffer
				if err := util.RecoverFunc(func() error { return p2.Encode(r.Ctx(), &b2) }); err == nil {
					b2term = lib.Some(lib.Bytes(b2.Bytes()))
					desc["bytes2_equal"] = bytes.Equal(b1.Bytes(), b2.Bytes())
				} else {
					desc["reencode_error"] = err.Error()
				}
				desc["left"] = rd.Len()
			case errors.Is(derr, io.EOF) || errors.Is(derr, io.ErrUnexpectedEOF):
				dec = fmt.Sprintf("(DecEOF %d%%N)", rd.Len())
				desc["decode_error"] = derr.Error()
			default:
				dec = "DecErr"
				desc["decode_error"] = derr.Error()
			}
			term := lib.App("Check.C04.mk", `"`+tn+`"`, lib.Z(int64(r.Proto)), lib.Bool(r.Dir == proto.ClientBound),
				env1, lib.Bytes(b1.Bytes()), dec, env2, b2term, "None")
			tags := append([]string{"type=" + tn, fmt.Sprintf("protocol=%d", r.Proto), "dir=" + r.Dir.String()}, g.Tags...)
			if frag[tn] {
				tags = append(tags, "fragment")
			} else {
				tags = append(tags, "opaque")
			}
			out.Add(term, desc, b1.Len() > 0, tags...)
		}
	}
	// ---- AvailableCommands: command GRAPHS compared by value (bytes alone cannot see a node that was never serialised) ----
	for _, r := range regs {
		if r.Type.String() != "packet.AvailableCommands" {
			continue
		}
		if r.Proto != version.Minecraft_1_13.Protocol && r.Proto != version.Minecraft_1_19_3.Protocol && r.Proto != version.Minecraft_1_19_4.Protocol &&
			r.Proto != version.MaximumVersion.Protocol && f.Tier == "quick" {
			continue
		}
		nTrees := 6
		if f.Tier != "quick" {
			nTrees = 3
		}
		for k := 0; k < nTrees; k++ {
			cr := rng.Fork()
			root, shape := cmdGraph(cr)
			pk := &packet.AvailableCommands{RootNode: root}
			var b1 bytes.Buffer
			if err := util.RecoverFunc(func() error { return pk.Encode(r.Ctx(), &b1) }); err != nil {
				skipped["packet.AvailableCommands"]++
				out.Tag("encoder-rejected")
				continue
			}
			orig := graphTerm(root)
			p2 := r.NewPacket()
			rd := bytes.NewReader(b1.Bytes())
			derr := util.RecoverFunc(func() error { return p2.Decode(r.Ctx(), rd) })
			dec, b2term, dg := "DecErr", "None", "None"
			desc := map[string]any{"type": "packet.AvailableCommands", "state": r.StateName, "dir": r.Dir.String(), "protocol": int(r.Proto), "id": int(r.ID),
				"bytes1_hex": hexTrunc(b1.Bytes()), "graph": shape}
			if derr == nil {
				dec = fmt.Sprintf("(DecOk %d%%N)", rd.Len())
				var b2 bytes.Buffer
				if err := util.RecoverFunc(func() error { return p2.Encode(r.Ctx(), &b2) }); err == nil {
					b2term = lib.Some(lib.Bytes(b2.Bytes()))
				}
				if d := p2.(*packet.AvailableCommands).RootNode; d != nil {
					dg = lib.Some(graphTerm(d))
				}
			} else {
				desc["decode_error"] = derr.Error()
			}
			term := lib.App("Check.C04.mk", `"packet.AvailableCommands"`, lib.Z(int64(r.Proto)), lib.Bool(r.Dir == proto.ClientBound),
				"FX", lib.Bytes(b1.Bytes()), dec, "FX", b2term, lib.Some(lib.Pair(orig, dg)))
			out.Add(term, desc, true, "type=packet.AvailableCommands", fmt.Sprintf("protocol=%d", r.Proto), "family=command-graph", "graph="+shape)
		}
	}
	names := pktgen.TypeNames(regs)
	nFrag := 0
	var opaque []string
	for _, n := range names {
		if frag[n] {
			nFrag++
		} else {
			opaque = append(opaque, n)
		}
	}
	var uncovered []string
	for _, n := range names {
		if !covered[n] {
			uncovered = append(uncovered, n)
		}
	}
	sort.Strings(uncovered)
	out.Extra("fragment_coverage", map[string]any{"registered_types": len(names), "fragment_types": nFrag, "opaque_types": opaque})
	out.Extra("opaque_reasons", pktgen.OpaqueReasons())
	out.Extra("encoder_rejected_by_type", skipped)
	out.Extra("types_without_any_case", uncovered)
	out.Finish()
}

func contains(xs []string, s string) bool {
	for _, x := range xs {
		if x == s {
			return true
		}
	}
	return false
}

func hexTrunc(b []byte) string {
	if len(b) > 200 {
		return fmt.Sprintf("%x…(%d bytes)", b[:200], len(b))
	}
	return fmt.Sprintf("%x", b)
}

var noopCmd = brigodier.CommandFunc(func(*brigodier.CommandContext) error { return nil })

// cmdGraph builds a random brigadier graph: literals and bool / string / integer arguments, executable flags, and
// redirects to a node inside the tree, to the root, or to a DETACHED node (a sub tree that is nobody's child - what the
// proxy produces when it injects its own commands with Redirect(&dispatcher.Root) into a backend's tree)
func cmdGraph(r *lib.Rng) (*brigodier.RootCommandNode, string) {
	argType := func() brigodier.ArgumentType {
		switch r.Intn(6) {
		case 0:
			return brigodier.Bool
		case 1:
			return brigodier.StringWord
		case 2:
			return brigodier.String
		case 3:
			return brigodier.StringPhrase
		case 4:
			return brigodier.Int
		}
		return &brigodier.Int32ArgumentType{Min: int32(-r.Intn(100)), Max: int32(r.Intn(1000))}
	}
	name := func(p string, i int) string { return fmt.Sprintf("%s%d%s", p, i, r.StringOver("abcxyz", r.Intn(3))) }
	sub := func(nm string) brigodier.CommandNode {
		l := brigodier.Literal(nm)
		if r.Bool() {
			l.Executes(noopCmd)
		}
		for j, n := 0, r.Intn(3); j < n; j++ {
			a := brigodier.Argument(name("a", j), argType())
			if r.Bool() {
				a.Executes(noopCmd)
			}
			if r.Chance(1, 3) {
				a.Then(brigodier.Argument(name("b", j), argType()).Executes(noopCmd))
			}
			l.Then(a)
		}
		return l.Build()
	}
	root := &brigodier.RootCommandNode{}
	var inTree []brigodier.CommandNode
	for i, n := 0, 1+r.Intn(3); i < n; i++ {
		nd := sub(name("l", i))
		inTree = append(inTree, nd)
		root.AddChild(nd)
	}
	shape := "plain"
	switch r.Intn(4) {
	case 0:
		root.AddChild(brigodier.Literal("alias").Redirect(inTree[r.Intn(len(inTree))]).Build())
		shape = "redirect-in-tree"
	case 1:
		root.AddChild(brigodier.Literal("again").Executes(noopCmd).Redirect(root).Build())
		shape = "redirect-root"
	case 2:
		root.AddChild(brigodier.Literal("alias").Redirect(sub("detached")).Build())
		shape = "redirect-detached"
	}
	if r.Chance(1, 3) {
		second := &brigodier.RootCommandNode{}
		second.AddChild(sub("other"))
		root.AddChild(brigodier.Literal("proxy").Redirect(second).Build())
		shape += "+second-root"
	}
	return root, shape
}

// graphTerm prints a command graph as a node table (Model.AvailCmds.node), numbered by a walk from the root:
// children in name order, then the redirect target
func graphTerm(root brigodier.CommandNode) string {
	idx := map[brigodier.CommandNode]int{}
	var order []brigodier.CommandNode
	queue := []brigodier.CommandNode{root}
	sortedChildren := func(n brigodier.CommandNode) []brigodier.CommandNode {
		var names []string
		for nm := range n.Children() {
			names = append(names, nm)
		}
		sort.Strings(names)
		var out []brigodier.CommandNode
		for _, nm := range names {
			out = append(out, n.Children()[nm])
		}
		return out
	}
	for len(queue) > 0 {
		n := queue[0]
		queue = queue[1:]
		if _, ok := idx[n]; ok {
			continue
		}
		idx[n] = len(order)
		order = append(order, n)
		queue = append(queue, sortedChildren(n)...)
		if n.Redirect() != nil {
			queue = append(queue, n.Redirect())
		}
	}
	var nodes []string
	for _, n := range order {
		kind, parser := 0, 0
		var props []byte
		switch t := n.(type) {
		case *brigodier.LiteralCommandNode:
			kind = 1
		case *brigodier.ArgumentCommandNode:
			kind = 2
			switch at := t.Type().(type) {
			case *brigodier.BoolArgumentType:
				parser = 0
			case brigodier.StringType:
				parser, props = 5, []byte{byte(at)}
			case *brigodier.Int32ArgumentType:
				parser = 3
				var fl byte
				var tail []byte
				if at.Min != brigodier.MinInt32 {
					fl |= 1
					tail = append(tail, byte(uint32(at.Min)>>24), byte(uint32(at.Min)>>16), byte(uint32(at.Min)>>8), byte(uint32(at.Min)))
				}
				if at.Max != brigodier.MaxInt32 {
					fl |= 2
					tail = append(tail, byte(uint32(at.Max)>>24), byte(uint32(at.Max)>>16), byte(uint32(at.Max)>>8), byte(uint32(at.Max)))
				}
				props = append([]byte{fl}, tail...)
			default:
				parser = 99
			}
		}
		var ch []string
		for _, c := range sortedChildren(n) {
			ch = append(ch, lib.N(uint64(idx[c])))
		}
		red := "None"
		if n.Redirect() != nil {
			red = lib.Some(lib.N(uint64(idx[n.Redirect()])))
		}
		nodes = append(nodes, lib.App("AvailCmds.mknode", lib.N(uint64(kind)), lib.Str(n.Name()), lib.Bool(n.Command() != nil), lib.List(ch), red,
			lib.N(uint64(parser)), lib.Bytes(props)))
	}
	return lib.Pair(lib.List(nodes), lib.N(0))
}
