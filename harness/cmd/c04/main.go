// C04 harness: for every registered packet type x sampled protocol versions x generated values run the
// REAL Encode -> Decode (through bytes.Reader, as codec.Decoder.decodePayload does) -> Encode and write the
// observed triple plus field dumps for the Coq judge (Check.C04.judge).
package main

import (
	"bytes"
	"errors"
	"fmt"
	"io"
	"os"
	"regexp"
	"sort"

	"go.minekube.com/gate/pkg/edition/java/proto/util"
	"go.minekube.com/gate/pkg/gate/proto"

	"verifharness/lib"
	"verifharness/pktgen"
)

func fragmentNames() (map[string]bool, bool) {
	for _, p := range []string{"../coq/Gen/PacketLayouts.v", "coq/Gen/PacketLayouts.v", "/verif/coq/Gen/PacketLayouts.v"} {
		b, err := os.ReadFile(p)
		if err != nil {
			continue
		}
		out := map[string]bool{}
		for _, m := range regexp.MustCompile(`Fragment "([^"]+)"`).FindAllStringSubmatch(string(b), -1) {
			out[m[1]] = true
		}
		return out, true
	}
	return nil, false
}

func main() {
	f := lib.ParseFlags()
	rng := lib.NewRng(f.Seed)
	out := lib.NewOut("C04", f)
	out.Rule = "every (state, direction, type) of the live registry x sampled protocols (min, 1.8, 1.13, 1.19.3, 1.20.2, max; thorough: all) x generated values " +
		"(boundary lengths 0/1/127/128/255/256/32767 within the decoder's limits, optionals present/absent, counts 0..3/127/128/256, small components/NBT/brigadier trees); " +
		"a (type, version, value) whose encoder rejects the value is skipped and counted; distinct = distinct case term; non-trivial = non-empty body"

	frag, haveFrag := pktgen.FragmentNames()
	regs := pktgen.All()
	sample := map[proto.Protocol]bool{}
	for _, v := range pktgen.SampleVersions(f.Tier != "quick") { // thorough and search: every supported version
		sample[v] = true
	}
	// every (state, dir, type) is also run at the first and the last protocol it is registered for
	type sdt struct {
		st  string
		dir proto.Direction
		tn  string
	}
	lo, hi := map[sdt]proto.Protocol{}, map[sdt]proto.Protocol{}
	for _, r := range regs {
		k := sdt{r.StateName, r.Dir, r.Type.String()}
		if v, ok := lo[k]; !ok || r.Proto < v {
			lo[k] = r.Proto
		}
		if v, ok := hi[k]; !ok || r.Proto > v {
			hi[k] = r.Proto
		}
	}
	perReg := 2
	if f.Tier == "search" {
		perReg = 1
	}
	if f.Tier == "thorough" {
		perReg = 4
	}
	skipped := map[string]int{}
	nogen := map[string]bool{}
	covered := map[string]bool{}
	bigBudget := 6 // cases with a 32767-size field per run
	for _, r := range regs {
		tn := r.Type.String()
		if k := (sdt{r.StateName, r.Dir, tn}); !sample[r.Proto] && lo[k] != r.Proto && hi[k] != r.Proto {
			continue
		}
		for k := 0; k < perReg; k++ {
			cr := rng.Fork()
			g := &pktgen.G{R: cr, Proto: r.Proto, Dir: r.Dir, State: r.StateName}
			if bigBudget > 0 && cr.Chance(1, 60) {
				g.Big = true
			}
			pk, ok := pktgen.Gen(r.Type, g)
			if !ok {
				nogen[tn] = true
				continue
			}
			if g.Big == false && contains(g.Tags, "len=32767") {
				bigBudget--
			}
			var b1 bytes.Buffer
			err := util.RecoverFunc(func() error { return pk.Encode(r.Ctx(), &b1) })
			if err != nil {
				skipped[tn]++
				out.Tag("encoder-rejected")
				continue
			}
			covered[tn] = true
			dumpIt := !haveFrag || frag[tn]
			env1 := "FX"
			if dumpIt {
				env1 = pktgen.DumpAt(pk, r.Proto)
			}
			p2 := r.NewPacket()
			rd := bytes.NewReader(b1.Bytes())
			derr := util.RecoverFunc(func() error { return p2.Decode(r.Ctx(), rd) })
			dec := ""
			env2 := "FX"
			b2term := "None"
			desc := map[string]any{"type": tn, "state": r.StateName, "dir": r.Dir.String(), "protocol": int(r.Proto), "id": int(r.ID),
				"bytes1_hex": hexTrunc(b1.Bytes()), "value": fmt.Sprintf("%.600v", fmt.Sprintf("%+v", pk))}
			switch {
			case derr == nil:
				dec = fmt.Sprintf("(DecOk %d%%N)", rd.Len())
				if dumpIt {
					env2 = pktgen.DumpAt(p2, r.Proto)
				}
				var b2 bytes.Buffer
				if err := util.RecoverFunc(func() error { return p2.Encode(r.Ctx(), &b2) }); err == nil {
					b2term = lib.Some(lib.Bytes(b2.Bytes()))
					desc["bytes2_equal"] = bytes.Equal(b1.Bytes(), b2.Bytes())
				} else {
					desc["reencode_error"] = err.Error()
				}
				desc["left"] = rd.Len()
			case errors.Is(derr, io.EOF) || errors.Is(derr, io.ErrUnexpectedEOF):
				dec = fmt.Sprintf("(DecEOF %d%%N)", rd.Len())
				desc["decode_error"] = derr.Error()
			default:
				dec = "DecErr"
				desc["decode_error"] = derr.Error()
			}
			term := lib.App("Check.C04.mk", `"`+tn+`"`, lib.Z(int64(r.Proto)), lib.Bool(r.Dir == proto.ClientBound),
				env1, lib.Bytes(b1.Bytes()), dec, env2, b2term)
			tags := append([]string{"type=" + tn, fmt.Sprintf("protocol=%d", r.Proto), "dir=" + r.Dir.String()}, g.Tags...)
			if frag[tn] {
				tags = append(tags, "fragment")
			} else {
				tags = append(tags, "opaque")
			}
			out.Add(term, desc, b1.Len() > 0, tags...)
		}
	}
	names := pktgen.TypeNames(regs)
	nFrag := 0
	var opaque []string
	for _, n := range names {
		if frag[n] {
			nFrag++
		} else {
			opaque = append(opaque, n)
		}
	}
	var uncovered []string
	for _, n := range names {
		if !covered[n] {
			uncovered = append(uncovered, n)
		}
	}
	sort.Strings(uncovered)
	out.Extra("fragment_coverage", map[string]any{"registered_types": len(names), "fragment_types": nFrag, "opaque_types": opaque})
	out.Extra("opaque_reasons", pktgen.OpaqueReasons())
	out.Extra("encoder_rejected_by_type", skipped)
	out.Extra("types_without_any_case", uncovered)
	out.Finish()
}

func contains(xs []string, s string) bool {
	for _, x := range xs {
		if x == s {
			return true
		}
	}
	return false
}

func hexTrunc(b []byte) string {
	if len(b) > 200 {
		return fmt.Sprintf("%x…(%d bytes)", b[:200], len(b))
	}
	return fmt.Sprintf("%x", b)
}
