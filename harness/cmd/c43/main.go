// C43 harness: status-phase sessions against a real classic-mode proxy (public API only, no ping
// subscribers). Each case = (client protocol number, number of connected players, sequence of
// status-phase frames); the fake client records, per frame sent, what the proxy answered and whether
// it closed. The JSON of a status response is parsed here (encoding/json) and only the numbers
// version.protocol and players.online travel to Coq.
package main

import (
	"encoding/json"
	"fmt"
	"os"
	"strings"

	"go.minekube.com/gate/pkg/edition/java/proto/version"

	"verifharness/e2e"
	"verifharness/lib"
)

type opKind int

const (
	kReq opKind = iota
	kPing
	kBad
	kEmpty
)

type op struct {
	Kind opKind
	ID   int    // packet id actually sent (bad: arbitrary)
	Body []byte // bytes after the id
	Desc string
}

type plan struct {
	Proto  int
	Parked int
	Ops    []op
	Class  string
}

type outcome struct {
	Count    int
	Obs      [][]string // Coq terms per op
	ObsDesc  [][]string
	Hang     string
	SetupErr string
}

func genOps(r *lib.Rng) []op {
	mk := func(k opKind) op {
		switch k {
		case kReq:
			o := op{Kind: kReq, ID: 0, Desc: "request"}
			if r.Chance(1, 5) {
				o.Body = r.Bytes(r.Range(1, 5))
				o.Desc = "request+trailing"
			}
			return o
		case kPing:
			n := 8
			if r.Chance(1, 4) {
				n += r.Range(1, 9)
			}
			b := r.Bytes(n)
			if r.Chance(1, 6) {
				for i := range b {
					b[i] = 0
				}
			}
			return op{Kind: kPing, ID: 1, Body: b, Desc: fmt.Sprintf("ping[%d]", n)}
		case kBad:
			switch r.Intn(4) {
			case 0:
				b := r.Bytes(r.Range(0, 7))
				return op{Kind: kPing, ID: 1, Body: b, Desc: fmt.Sprintf("short-ping[%d]", len(b))}
			case 1:
				return op{Kind: kBad, ID: 2, Body: r.Bytes(r.Range(0, 12)), Desc: "unknown-id-2"}
			case 2:
				return op{Kind: kBad, ID: 0x7f, Body: nil, Desc: "unknown-id-7f"}
			default:
				return op{Kind: kBad, ID: r.Range(3, 300), Body: r.Bytes(r.Range(0, 4)), Desc: "unknown-id"}
			}
		default:
			return op{Kind: kEmpty, Desc: "empty-frame"}
		}
	}
	var ops []op
	switch r.Intn(10) {
	case 0, 1, 2: // the vanilla exchange, possibly with something after it
		ops = []op{mk(kReq), mk(kPing)}
		for i := r.Intn(3); i > 0; i-- {
			ops = append(ops, mk(opKind(r.Intn(4))))
		}
	case 3: // repeated request
		ops = []op{mk(kReq), mk(kReq)}
		for i := r.Intn(3); i > 0; i-- {
			ops = append(ops, mk(opKind(r.Intn(4))))
		}
	case 4: // ping first
		ops = []op{mk(kPing), mk(kReq)}
	case 5: // a run of empty frames around the skip limit
		n := r.Pick(3, 10, 11, 12, 13)
		for i := 0; i < n; i++ {
			ops = append(ops, mk(kEmpty))
		}
		ops = append(ops, mk(kReq), mk(kPing))
	default:
		n := r.Range(0, 6)
		for i := 0; i < n; i++ {
			w := r.Intn(10)
			switch {
			case w < 4:
				ops = append(ops, mk(kReq))
			case w < 7:
				ops = append(ops, mk(kPing))
			case w < 9:
				ops = append(ops, mk(kBad))
			default:
				ops = append(ops, mk(kEmpty))
			}
		}
	}
	return ops
}

func sup() []int {
	var s []int
	for _, v := range version.SupportedVersions {
		s = append(s, int(v.Protocol))
	}
	return s
}

func genProto(r *lib.Rng, i int, s []int) (int, string) {
	special := []int{-1, 0, 3, 999999, -2, 6, 46, 48, 106, 400, 758 + 1000, 777, 1 << 30, -2147483648, 2147483647, 0x40000001}
	switch {
	case i < len(s):
		return s[i], "supported"
	case i < len(s)+len(special):
		return special[i-len(s)], "unsupported"
	case r.Chance(3, 5):
		return s[r.Intn(len(s))], "supported"
	case r.Chance(1, 2):
		return special[r.Intn(len(special))], "unsupported"
	default:
		p := r.Range(-5, 1200)
		for _, x := range s {
			if x == p {
				return p, "supported"
			}
		}
		return p, "unsupported"
	}
}

func run(pl plan) outcome {
	var res outcome
	cfg := e2e.Config()
	cfg.OnlineMode = false
	p, err := e2e.NewProxy(cfg, nil, nil)
	if err != nil {
		res.SetupErr = "proxy.New: " + err.Error()
		return res
	}
	// park players: offline-mode logins of 1.20.2 clients that never acknowledge stay registered
	var parked []*e2e.Client
	defer func() {
		for _, c := range parked {
			c.Close()
		}
	}()
	for k := 0; k < pl.Parked; k++ {
		c := e2e.Dial(p, e2e.P1_20_2)
		parked = append(parked, c)
		_ = c.SendHandshake("localhost", 25565, 2)
		_ = c.Send(e2e.IDLoginStart, e2e.LoginStart(c.Protocol, []byte(fmt.Sprintf("Parked_%d", k)), [16]byte{byte(k + 1)}))
		if r := c.Settle(); r.Closed || r.Hung {
			res.SetupErr = fmt.Sprintf("parking player %d failed: closed=%v hung=%v", k, r.Closed, r.Hung)
			return res
		}
	}
	res.Count = p.PlayerCount()

	c := e2e.Dial(p, pl.Proto)
	defer c.Close()
	_ = c.SendHandshake("status.example.org", 25565, 1)
	if r := c.Settle(); r.Closed || r.Hung || len(r.Packets) != 0 {
		res.SetupErr = fmt.Sprintf("after handshake: closed=%v hung=%v packets=%d", r.Closed, r.Hung, len(r.Packets))
		return res
	}
	closed := false
	for _, o := range pl.Ops {
		if o.Kind == kEmpty {
			_ = c.SendRaw([]byte{0})
		} else {
			_ = c.Send(o.ID, o.Body)
		}
		var terms, descs []string
		if !closed {
			r := c.Settle()
			if r.Hung {
				res.Hang = "proxy neither idle nor closed after " + o.Desc
				return res
			}
			for _, pk := range r.Packets {
				t, d := classify(pk)
				terms = append(terms, t)
				descs = append(descs, d)
			}
			if r.Garbled != "" {
				terms = append(terms, lib.App("OOther", lib.Z(-1), lib.Str(r.Garbled)))
				descs = append(descs, "garbled: "+r.Garbled)
			}
			if r.Closed {
				closed = true
				terms = append(terms, "OClose")
				descs = append(descs, "close")
			}
		}
		res.Obs = append(res.Obs, terms)
		res.ObsDesc = append(res.ObsDesc, descs)
	}
	return res
}

func classify(pk e2e.Packet) (string, string) {
	switch pk.ID {
	case e2e.IDStatusResponse:
		s, err := e2e.ParseString(pk.Body)
		var doc struct {
			Version *struct {
				Protocol *int64 `json:"protocol"`
			} `json:"version"`
			Players *struct {
				Online *int64 `json:"online"`
			} `json:"players"`
		}
		if err == nil {
			err = json.Unmarshal([]byte(s), &doc)
		}
		if err != nil || doc.Version == nil || doc.Version.Protocol == nil || doc.Players == nil || doc.Players.Online == nil {
			return lib.App("OOther", lib.Z(0), lib.Bytes(pk.Body)), "unparsable status response"
		}
		return lib.App("OResp", lib.Z(*doc.Version.Protocol), lib.Z(*doc.Players.Online)),
			fmt.Sprintf("response protocol=%d online=%d", *doc.Version.Protocol, *doc.Players.Online)
	case e2e.IDStatusPing:
		return lib.App("OEcho", lib.Bytes(pk.Body)), fmt.Sprintf("echo %x", pk.Body)
	default:
		return lib.App("OOther", lib.Z(int64(pk.ID)), lib.Bytes(pk.Body)), fmt.Sprintf("packet id %d", pk.ID)
	}
}

func main() {
	f := lib.ParseFlags()
	rng := lib.NewRng(f.Seed)
	out := lib.NewOut("C43", f)
	out.Imports = "From Verif Require Import Model.Status.\nImport ListNotations.\nDefinition SUP : list Z := " +
		lib.ListOf(sup(), func(v int) string { return lib.Z(int64(v)) }) + "%list.\n"
	out.Rule = "every supported protocol once, then 16 fixed unsupported numbers (-1, 0, 3, 999999, -2, gaps, int32 extremes), then random supported/unsupported; 0..2 connected players; frame sequences: vanilla request+ping (+tail), repeated request, ping first, runs of 3..13 empty frames, random sequences of length 0..6 over {request(+trailing bytes), ping (8..17 byte body, sometimes all zero), truncated ping (0..7 byte body), bad (unknown ids), empty frame}; non-trivial = at least one request or ping reached an open connection; distinct = distinct Coq term"
	s := sup()
	n := f.Count(300)
	plans := make([]plan, n)
	for i := range plans {
		r := rng.Fork()
		pr, class := genProto(r, i, s)
		plans[i] = plan{Proto: pr, Class: class, Parked: r.Pick(0, 0, 0, 1, 2), Ops: genOps(r)}
	}
	results, errs := e2e.RunParallel(n, 16, func(i int) outcome {
		if f.Only >= 0 && f.Only != i {
			return outcome{}
		}
		return run(plans[i])
	})
	supTerm := "SUP"
	for i, pl := range plans {
		res := results[i]
		var opTerms, opDescs []string
		nontrivial := false
		open := true
		for _, o := range pl.Ops {
			switch o.Kind {
			case kReq:
				opTerms = append(opTerms, "Req")
				nontrivial = nontrivial || open
			case kPing:
				opTerms = append(opTerms, lib.App("Ping", lib.Bytes(o.Body)))
				nontrivial = nontrivial || (open && len(o.Body) >= 8)
				open = false
			case kBad:
				opTerms = append(opTerms, "Bad")
				open = false
			default:
				opTerms = append(opTerms, "Empty")
			}
			opDescs = append(opDescs, o.Desc)
		}
		desc := map[string]any{"protocol": pl.Proto, "class": pl.Class, "parked_players": pl.Parked, "ops": opDescs,
			"observed": res.ObsDesc, "player_count_api": res.Count}
		if f.Only < 0 || f.Only == i {
			if errs[i] != "" || res.SetupErr != "" || res.Hang != "" {
				out.GoViolation(map[string]any{"index": i, "known": nil, "what": "E2E run did not complete",
					"panic": errs[i], "setup": res.SetupErr, "hang": res.Hang, "case": desc})
			}
		}
		obs := lib.ListOf(res.Obs, func(l []string) string { return lib.List(l) })
		term := lib.App("Check.C43.mk", supTerm, lib.Z(int64(pl.Proto)), lib.Z(int64(pl.Parked)), lib.Z(int64(res.Count)),
			lib.List(opTerms), obs)
		tags := []string{"proto=" + pl.Class, fmt.Sprintf("players=%d", pl.Parked), fmt.Sprintf("len=%d", len(pl.Ops))}
		for _, d := range opDescs {
			tags = append(tags, "op="+strings.SplitN(d, "[", 2)[0])
		}
		out.Add(term, desc, nontrivial, tags...)
	}
	if os.Getenv("VERIF_DEBUG") != "" {
		fmt.Fprintln(os.Stderr, "cases:", n)
	}
	out.Finish()
}
