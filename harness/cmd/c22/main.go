// C22 harness: drives the real clientPlaySessionHandler.HandlePacket with one command packet per
// case, over a real Proxy (proxy.New) whose command.Manager holds a generated literal tree with
// requirements and scripted executors, and a CommandExecuteEvent subscriber with a scripted
// outcome. Observed: executors invoked, packets written to the backend connection, whether the
// player was disconnected, chat messages sent to the player. The Coq side (Check/C22.v) judges.
package main

import (
	"context"
	"errors"
	"fmt"
	"os"
	"strings"
	"sync"
	"time"

	"github.com/robinbraemer/event"
	"go.minekube.com/brigodier"

	"go.minekube.com/gate/pkg/command"
	"go.minekube.com/gate/pkg/edition/java/config"
	"go.minekube.com/gate/pkg/edition/java/profile"
	"go.minekube.com/gate/pkg/edition/java/proto/packet"
	"go.minekube.com/gate/pkg/edition/java/proto/packet/chat"
	"go.minekube.com/gate/pkg/edition/java/proto/version"
	"go.minekube.com/gate/pkg/edition/java/proxy"
	"go.minekube.com/gate/pkg/edition/java/proxy/crypto"
	"go.minekube.com/gate/pkg/edition/java/proxy/crypto/keyrevision"
	"go.minekube.com/gate/pkg/gate/proto"
	"go.minekube.com/gate/pkg/util/permission"
	"go.minekube.com/gate/pkg/util/uuid"

	"verifharness/c2xfix"
	"verifharness/lib"
)

const sentinel = "zzsentinelzz"

type node struct {
	id       int
	name     string
	canUse   bool
	reqKind  int // 0 nil requirement (only if canUse), 1 closure, 2 permission through command.Requires
	exec     int // 0 none, 1 ok, 2 ErrForward, 3 syntax error, 4 other error
	children []*node
}

var execNames = []string{"None", "(Some RunOk)", "(Some RunErrForward)", "(Some RunErrSyntax)", "(Some RunErrOther)"}

func (n *node) coq() string {
	return lib.App("CNode", lib.N(uint64(n.id)), lib.Str(n.name), lib.Bool(n.canUse), execNames[n.exec],
		lib.ListOf(n.children, func(c *node) string { return c.coq() }))
}

func (n *node) desc() map[string]any {
	cs := []any{}
	for _, c := range n.children {
		cs = append(cs, c.desc())
	}
	return map[string]any{"id": n.id, "name": n.name, "can_use": n.canUse, "req_kind": n.reqKind, "exec": n.exec, "children": cs}
}

var namePool = []string{"hub", "server", "glist", "send", "find", "a", "b", "list", "to", "all", "x1", "lobby", "Hub", "se"}

type gen struct {
	r      *lib.Rng
	nextID int
}

func (g *gen) siblings(depth int) []*node {
	max := 4
	if depth > 0 {
		max = 3
	}
	k := g.r.Range(0, max)
	if depth == 0 && g.r.Chance(9, 10) && k == 0 {
		k = 1
	}
	used := map[string]bool{}
	var out []*node
	for i := 0; i < k; i++ {
		nm := namePool[g.r.Intn(len(namePool))]
		if used[nm] {
			continue
		}
		used[nm] = true
		g.nextID++
		n := &node{id: g.nextID, name: nm, canUse: g.r.Chance(4, 5)}
		if n.canUse {
			n.reqKind = g.r.Intn(3)
		} else {
			n.reqKind = 1 + g.r.Intn(2)
		}
		switch x := g.r.Intn(100); {
		case x < 22:
			n.exec = 0
		case x < 76:
			n.exec = 1
		case x < 84:
			n.exec = 2
		case x < 92:
			n.exec = 3
		default:
			n.exec = 4
		}
		if depth < 2 && g.r.Chance(1, 2) {
			n.children = g.siblings(depth + 1)
		}
		out = append(out, n)
	}
	return out
}

// line picks a command line aimed at the tree: a path of literals with structured damage.
func (g *gen) line(roots []*node) (string, string) {
	var words []string
	cur := roots
	for len(cur) > 0 && (len(words) == 0 || g.r.Chance(2, 3)) {
		n := cur[g.r.Intn(len(cur))]
		words = append(words, n.name)
		cur = n.children
	}
	s := strings.Join(words, " ")
	switch x := g.r.Intn(100); {
	case x < 46:
		return s, "path"
	case x < 56:
		return s + " " + g.r.PickS("extra", "1", "hub", "x y"), "path+word"
	case x < 62:
		return s + " ", "trailing-space"
	case x < 66:
		return strings.Replace(s, " ", "  ", 1) + g.r.PickS("", "  z"), "double-space"
	case x < 76:
		return g.r.PickS("unknowncmd", "spawn", "tp me", "hu", "hubb", "HUB", "serverx a") + g.r.PickS("", " arg"), "unknown-root"
	case x < 79:
		return "", "empty"
	case x < 83:
		return " " + s, "leading-space"
	case x < 90:
		if len(s) > 1 {
			return s[:len(s)-1], "truncated"
		}
		return s + "q", "suffixed"
	case x < 95:
		return s + "q", "suffixed"
	default:
		return "/" + s, "double-slash"
	}
}

type recorder struct {
	mu  sync.Mutex
	ran []int
}

func (r *recorder) add(id int) { r.mu.Lock(); r.ran = append(r.ran, id); r.mu.Unlock() }
func (r *recorder) get() []int {
	r.mu.Lock()
	defer r.mu.Unlock()
	return append([]int(nil), r.ran...)
}

var errOther = errors.New("scripted executor failure")

func build(n *node, rec *recorder) brigodier.LiteralNodeBuilder {
	b := brigodier.Literal(n.name)
	switch n.reqKind {
	case 1:
		v := n.canUse
		b.Requires(func(context.Context) bool { return v })
	case 2:
		perm := fmt.Sprintf("verif.node.%d", n.id)
		b.Requires(command.Requires(func(c *command.RequiresContext) bool { return c.Source != nil && c.Source.HasPermission(perm) }))
	}
	if n.exec != 0 {
		id, kind := n.id, n.exec
		b.Executes(command.Command(func(c *command.Context) error {
			rec.add(id)
			switch kind {
			case 2:
				return command.ErrForward
			case 3:
				return &brigodier.CommandSyntaxError{Err: errors.New("scripted syntax error")}
			case 4:
				return errOther
			}
			return nil
		}))
	}
	for _, c := range n.children {
		b.Then(build(c, rec))
	}
	return b
}

func perms(roots []*node, m map[string]bool) {
	for _, n := range roots {
		if n.reqKind == 2 {
			m[fmt.Sprintf("verif.node.%d", n.id)] = n.canUse
		}
		perms(n.children, m)
	}
}

type caseIn struct {
	fam      int // 0 legacy 1 keyed 2 session 3 unsigned
	p1205    bool
	fka      bool
	keyrev   int
	signed   bool
	off      int
	line     string
	denied   bool
	forward  bool
	cmd      string
	roots    []*node
	lineKind string
}

var famNames = []string{"Legacy", "Keyed", "Session", "Unsigned"}

func (c *caseIn) coq() string {
	return lib.App("mkInput", famNames[c.fam], lib.Bool(c.p1205), lib.Bool(c.fka), lib.N(uint64(c.keyrev)), lib.Bool(c.signed),
		lib.N(uint64(c.off)), lib.Str(c.line), lib.Bool(c.denied), lib.Bool(c.forward), lib.Str(c.cmd),
		lib.ListOf(c.roots, func(n *node) string { return n.coq() }))
}

type obs struct {
	ran     []int
	backend []string // coq terms
	bdesc   []string
	disc    bool
	msgs    int
	hang    bool
}

func run(c *caseIn) obs {
	cfg := config.DefaultConfig
	cfg.ForceKeyAuthentication = c.fka
	mgr := event.New()
	event.Subscribe(mgr, 0, func(e *proxy.CommandExecuteEvent) {
		if e.Command() == sentinel {
			return
		}
		if c.denied {
			e.SetAllowed(false)
		}
		if c.forward {
			e.SetForward(true)
		}
		if c.cmd != c.line {
			e.SetCommand(c.cmd)
		}
	})
	p, err := proxy.New(proxy.Options{Config: &cfg, EventMgr: mgr})
	if err != nil {
		fmt.Fprintln(os.Stderr, "proxy.New:", err)
		os.Exit(2)
	}
	rec := &recorder{}
	for _, n := range c.roots {
		p.Command().Register(build(n, rec))
	}
	var protocol proto.Protocol
	switch c.fam {
	case 0:
		protocol = version.Minecraft_1_18_2.Protocol
	case 1:
		protocol = version.Minecraft_1_19_1.Protocol
	case 2:
		protocol = version.Minecraft_1_20_3.Protocol
		if c.p1205 {
			protocol = version.Minecraft_1_21_5.Protocol
		}
	case 3:
		protocol = version.Minecraft_1_21_5.Protocol
	}
	client, backend := c2xfix.NewConn(protocol), c2xfix.NewConn(protocol)
	var key crypto.IdentifiedKey
	switch c.keyrev {
	case 1:
		key = c2xfix.Key{Rev: keyrevision.GenericV1}
	case 2:
		key = c2xfix.Key{Rev: keyrevision.LinkedV2}
	}
	pm := map[string]bool{}
	perms(c.roots, pm)
	permFn := func(s string) permission.TriState {
		v, ok := pm[s]
		if !ok {
			return permission.Undefined
		}
		if v {
			return permission.True
		}
		return permission.False
	}
	h := proxy.VerifC22NewClientPlayHandler(p, client, backend, &profile.GameProfile{ID: uuid.New(), Name: "verif"}, key, permFn)

	var orig, sent proto.Packet
	switch c.fam {
	case 0:
		orig, sent = &chat.LegacyChat{Message: "/" + c.line}, &chat.LegacyChat{Message: "/" + sentinel}
	case 1:
		orig, sent = &chat.KeyedPlayerCommand{Unsigned: !c.signed, Command: c.line}, &chat.KeyedPlayerCommand{Unsigned: true, Command: sentinel}
	case 2:
		sp := &chat.SessionPlayerCommand{Command: c.line, LastSeenMessages: chat.LastSeenMessages{Offset: c.off}}
		if c.signed {
			sp.ArgumentSignatures.Entries = []chat.ArgumentSignature{{Name: "arg", Signature: make([]byte, 256)}}
		}
		orig, sent = sp, &chat.SessionPlayerCommand{Command: sentinel}
	case 3:
		orig = &chat.UnsignedPlayerCommand{SessionPlayerCommand: chat.SessionPlayerCommand{Command: c.line}}
		sent = &chat.UnsignedPlayerCommand{SessionPlayerCommand: chat.SessionPlayerCommand{Command: sentinel}}
	}
	h.HandlePacket(&proto.PacketContext{Protocol: protocol, Packet: orig, Direction: proto.ServerBound})
	h.HandlePacket(&proto.PacketContext{Protocol: protocol, Packet: sent, Direction: proto.ServerBound})

	isSentinel := func(pk proto.Packet) bool {
		switch t := pk.(type) {
		case *chat.LegacyChat:
			return t.Message == "/"+sentinel
		case *chat.KeyedPlayerCommand:
			return t.Command == sentinel
		case *chat.SessionPlayerCommand:
			return t.Command == sentinel
		case *chat.UnsignedPlayerCommand:
			return t.Command == sentinel
		}
		return false
	}
	var o obs
	deadline := time.Now().Add(15 * time.Second)
	var written []proto.Packet
	for {
		written = backend.Written()
		if len(written) > 0 && isSentinel(written[len(written)-1]) {
			written = written[:len(written)-1]
			break
		}
		if time.Now().After(deadline) {
			o.hang = true
			break
		}
		time.Sleep(200 * time.Microsecond)
	}
	o.ran = rec.get()
	for _, pk := range written {
		var t, d string
		switch x := pk.(type) {
		case *chat.LegacyChat:
			t, d = lib.App("BLegacy", lib.Str(x.Message)), "legacy:"+x.Message
		case *chat.KeyedPlayerCommand:
			t = lib.App("BKeyed", lib.Bool(pk == orig), lib.Bool(x.Unsigned), lib.Str(x.Command))
			d = fmt.Sprintf("keyed(orig=%v,unsigned=%v):%s", pk == orig, x.Unsigned, x.Command)
		case *chat.SessionPlayerCommand:
			t = lib.App("BSession", lib.Bool(pk == orig), lib.Str(x.Command), lib.N(uint64(x.LastSeenMessages.Offset)), lib.N(uint64(len(x.ArgumentSignatures.Entries))))
			d = fmt.Sprintf("session(orig=%v,off=%d,nsig=%d):%s", pk == orig, x.LastSeenMessages.Offset, len(x.ArgumentSignatures.Entries), x.Command)
		case *chat.UnsignedPlayerCommand:
			t, d = lib.App("BUnsigned", lib.Str(x.Command)), "unsigned:"+x.Command
		case *chat.ChatAcknowledgement:
			t, d = lib.App("BAck", lib.N(uint64(x.Offset))), fmt.Sprintf("ack:%d", x.Offset)
		default:
			t, d = "BOther", fmt.Sprintf("%T", pk)
		}
		o.backend = append(o.backend, t)
		o.bdesc = append(o.bdesc, d)
	}
	o.disc = client.IsClosed()
	for _, pk := range client.Written() {
		if _, ok := pk.(*packet.Disconnect); !ok {
			o.msgs++
		}
	}
	return o
}

func main() {
	f := lib.ParseFlags()
	rng := lib.NewRng(f.Seed)
	out := lib.NewOut("C22", f)
	out.Imports = "From Verif Require Import Model.CmdDispatch.\n"
	out.Rule = "per case: a literal command tree (1-4 roots, depth <= 3, distinct sibling names from a 14-name pool incl. case variants and prefixes; per node requirement result 80% true realised as nil requirement / closure / permission lookup through command.Requires; executor none/ok/ErrForward/syntax error/other error), a command line aimed at the tree (path, path+word, trailing/double/leading space, unknown root, empty, truncated/suffixed literal, leading slash), an event outcome (allow / deny / forward / SetCommand to a second generated line, with or without forward), a protocol family (legacy 1.18.2, keyed 1.19.1 with key none/GenericV1/LinkedV2 and signed flag, session 1.20.3 or 1.21.5 with or without argument signatures and offset 0-5, unsigned 1.21.5) and ForceKeyAuthentication on/off; plus a directed stream for the keyed strict-key rewrite branches. distinct = distinct Coq case term; non-trivial = the command line resolves to a registered usable root, or the event denies/forwards/rewrites"
	n := f.Count(420)
	emit := func(c *caseIn, stream string) {
		o := run(c)
		if o.hang {
			out.GoViolation(map[string]any{"known": nil, "index": -1, "what": "chat queue never delivered the sentinel command within 15s", "case": c.coq()})
		}
		term := lib.App("Check.C22.mk", c.coq(), lib.ListOf(o.ran, func(i int) string { return lib.N(uint64(i)) }), lib.List(o.backend), lib.Bool(o.disc), lib.N(uint64(o.msgs)))
		rootsDesc := []any{}
		for _, r := range c.roots {
			rootsDesc = append(rootsDesc, r.desc())
		}
		desc := map[string]any{"family": famNames[c.fam], "protocol_ge_1_20_5": c.p1205, "forceKeyAuthentication": c.fka, "key_revision": c.keyrev,
			"signed": c.signed, "offset": c.off, "line": c.line, "event_denied": c.denied, "event_forward": c.forward, "event_command": c.cmd,
			"tree": rootsDesc, "observed_ran": o.ran, "observed_backend": o.bdesc, "observed_disconnected": o.disc, "observed_client_messages": o.msgs}
		resolves := false
		w := c.cmd
		if i := strings.IndexByte(w, ' '); i >= 0 {
			w = w[:i]
		}
		for _, r := range c.roots {
			if r.name == w && r.canUse {
				resolves = true
			}
		}
		ev := "allow"
		switch {
		case c.denied:
			ev = "deny"
		case c.forward && c.cmd != c.line:
			ev = "forward+rewrite"
		case c.forward:
			ev = "forward"
		case c.cmd != c.line:
			ev = "rewrite"
		}
		tags := []string{"family=" + famNames[c.fam], "event=" + ev, "line=" + c.lineKind, "stream=" + stream, fmt.Sprintf("resolves=%v", resolves),
			fmt.Sprintf("executed=%v", len(o.ran) > 0), fmt.Sprintf("backend_packets=%d", len(o.backend)), fmt.Sprintf("disconnected=%v", o.disc)}
		out.Add(term, desc, resolves || ev != "allow", tags...)
	}
	mk := func(r *lib.Rng) *caseIn {
		g := &gen{r: r}
		c := &caseIn{roots: g.siblings(0)}
		c.line, c.lineKind = g.line(c.roots)
		c.cmd = c.line
		switch x := r.Intn(100); {
		case x < 50:
		case x < 64:
			c.denied = true
		case x < 78:
			c.forward = true
		default:
			c.cmd, _ = g.line(c.roots)
			c.forward = r.Chance(1, 2)
			if r.Chance(1, 10) {
				c.denied = true
			}
		}
		c.fam = r.Pick(0, 1, 1, 2, 2, 2, 3)
		c.fka = r.Bool()
		switch c.fam {
		case 1:
			c.keyrev = r.Pick(0, 1, 2, 2)
			c.signed = r.Chance(3, 5)
		case 2:
			c.p1205 = r.Chance(1, 3)
			c.signed = r.Chance(2, 5)
			c.off = r.Pick(0, 0, 1, 2, 5)
			c.keyrev = r.Pick(0, 2)
		case 3:
			c.p1205 = true
		}
		return c
	}
	for i := 0; i < n; i++ {
		emit(mk(rng.Fork()), "random")
	}
	// directed: keyed family, LinkedV2 key, signed, rewritten command, all event/config combinations
	m := f.Count(40)
	for i := 0; i < m; i++ {
		r := rng.Fork()
		c := mk(r)
		c.fam, c.keyrev, c.signed, c.p1205, c.off = 1, 2, true, false, 0
		c.denied = false
		c.forward = i%2 == 0
		c.fka = (i/2)%2 == 0
		if c.cmd == c.line {
			c.cmd = c.line + " changed"
		}
		emit(c, "directed-keyed-rewrite")
	}
	out.Finish()
}
