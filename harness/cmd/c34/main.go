// C34 harness: rate limiters.
//
//	KeyCase     addrquota.ipKey (hook VerifC34IPKey) on generated address texts.
//	QuotaCase   the real Quota.Blocked in real time: addresses of one /24 or /64 must share a bucket,
//	            other groups must not; admitted counts checked by inequalities that cannot false-alarm.
//	WaveCase    concurrent first-contact callers of one fresh group (lookup-or-create must be atomic).
//	LimCase     the real packetlimiter.Limiter driven through VerifAccountAt (same locked body as Account,
//	            caller-supplied clock) with generated timestamp/size sequences.
//	AccountCase the real Limiter.Account (time.Now) in a tight burst that stayed well inside one window.
//	CounterCase the counter alone (updateAndAdd / expire / add in any order).
package main

import (
	"fmt"
	"math/big"
	"net/netip"
	"runtime"
	"strings"
	"sync"
	"sync/atomic"
	"time"

	"go.minekube.com/gate/pkg/edition/java/proxy"

	"verifharness/lib"
)

// ---------- address generators (same shapes as cmd/c33) ----------

var octetEdges = []int{0, 1, 9, 10, 99, 100, 127, 128, 199, 200, 249, 250, 254, 255}

func genOctet(r *lib.Rng) int {
	if r.Chance(1, 2) {
		return octetEdges[r.Intn(len(octetEdges))]
	}
	return r.Intn(256)
}

func genV4(r *lib.Rng) netip.Addr {
	return netip.AddrFrom4([4]byte{byte(genOctet(r)), byte(genOctet(r)), byte(genOctet(r)), byte(genOctet(r))})
}

func genV6(r *lib.Rng) netip.Addr {
	var b [16]byte
	switch r.Intn(5) {
	case 0:
		copy(b[:], r.Bytes(16))
	case 1:
		copy(b[:], r.Bytes(16))
		for g := 0; g < 8; g++ {
			if r.Chance(2, 3) {
				b[2*g], b[2*g+1] = 0, 0
			}
		}
	case 2:
		copy(b[:], r.Bytes(16))
		b[0], b[1] = 0xfe, 0x80
	case 3:
		b[15] = byte(r.Intn(3))
	case 4: // v4-compatible / near-mapped, not mapped
		copy(b[12:], r.Bytes(4))
		b[10], b[11] = byte(r.Pick(0xff, 0xfe, 0x00)), byte(r.Pick(0xfe, 0x00))
	}
	a := netip.AddrFrom16(b)
	if a.Is4In6() {
		b[0] = 0x20
		a = netip.AddrFrom16(b)
	}
	return a
}

func textV6(r *lib.Rng, a netip.Addr) string {
	if r.Chance(1, 2) {
		return a.String()
	}
	b := a.As16()
	var ps []string
	for i := 0; i < 8; i++ {
		v := int(b[2*i])<<8 | int(b[2*i+1])
		switch r.Intn(3) {
		case 0:
			ps = append(ps, fmt.Sprintf("%04x", v))
		case 1:
			ps = append(ps, fmt.Sprintf("%X", v))
		default:
			ps = append(ps, fmt.Sprintf("%x", v))
		}
	}
	if r.Chance(1, 3) {
		return strings.Join(ps[:6], ":") + fmt.Sprintf(":%d.%d.%d.%d", b[12], b[13], b[14], b[15])
	}
	return strings.Join(ps, ":")
}

func mappedText(r *lib.Rng, a netip.Addr) string {
	b := a.As4()
	switch r.Intn(3) {
	case 0:
		return fmt.Sprintf("::ffff:%d.%d.%d.%d", b[0], b[1], b[2], b[3])
	case 1:
		return fmt.Sprintf("0:0:0:0:0:ffff:%d.%d.%d.%d", b[0], b[1], b[2], b[3])
	default:
		return fmt.Sprintf("::ffff:%x:%x", int(b[0])<<8|int(b[1]), int(b[2])<<8|int(b[3]))
	}
}

var zones = []string{"eth0", "1", "en0", "lo", "wlan0.5"}

var badIPs = []string{"", "pipe", "/tmp/gate.sock", "@", "localhost", "10.0.0.256", "10.0.0", "010.0.0.1", "1.2.3.4%eth0",
	"::1%", "%eth0", "1:2:3:4:5:6:7", "1::2::3", "12345::", "[::1]", "10.0.0.1:25565", "fe80::1%eth0%x"}

func flipBit(a netip.Addr, i int) netip.Addr {
	if a.Is4() {
		b := a.As4()
		b[i/8] ^= 0x80 >> (i % 8)
		return netip.AddrFrom4(b)
	}
	b := a.As16()
	b[i/8] ^= 0x80 >> (i % 8)
	return netip.AddrFrom16(b)
}

func randomizeFrom(r *lib.Rng, a netip.Addr, from int) netip.Addr {
	for i := from; i < a.BitLen(); i++ {
		if r.Bool() {
			a = flipBit(a, i)
		}
	}
	return a
}

// text renders an address in a random accepted textual shape; zoned says whether a zone was attached.
func text(r *lib.Rng, a netip.Addr, allowZone bool) (string, bool) {
	if a.Is4() {
		switch r.Intn(4) {
		case 0:
			s := mappedText(r, a)
			if allowZone && r.Chance(1, 3) {
				return s + "%" + zones[r.Intn(len(zones))], true
			}
			return s, false
		default:
			return a.String(), false
		}
	}
	s := textV6(r, a)
	if allowZone && r.Chance(1, 3) {
		return s + "%" + zones[r.Intn(len(zones))], true
	}
	return s, false
}

// ---------- printing ----------

func zs(v int64) string {
	if v < 0 {
		return fmt.Sprintf("(%d)", v)
	}
	return fmt.Sprint(v)
}

func zlist(xs []int64) string {
	ss := make([]string, len(xs))
	for i, x := range xs {
		ss[i] = zs(x)
	}
	return lib.List(ss)
}

func csum(s *proxy.VerifC34CounterState) string {
	if s == nil {
		return "None"
	}
	return fmt.Sprintf("(Some (%d, %d, %d, %s))", s.Head, s.Tail, len(s.Times), zs(s.Total))
}

func cfull(s *proxy.VerifC34CounterState) string {
	return fmt.Sprintf("((%d, %d, %d, %s), %s, %s, %s)", s.Head, s.Tail, len(s.Times), zs(s.Total), zs(s.MinTime), zlist(s.Times), zlist(s.Counts))
}

func optFull(s *proxy.VerifC34CounterState) string {
	if s == nil {
		return "None"
	}
	return "(Some " + cfull(s) + ")"
}

func bools(bs []bool) string { return lib.ListOf(bs, lib.Bool) }

type ev struct{ now, size int64 }

func evlist(es []ev) string {
	ss := make([]string, len(es))
	for i, e := range es {
		ss[i] = fmt.Sprintf("(%s, %s)", zs(e.now), zs(e.size))
	}
	return lib.List(ss)
}

// zterm wraps a case so that every numeral in it is read in Z_scope.
func zterm(s string) string { return "(" + s + ")%Z" }

// ---------- limiter sequences ----------

type limCfg struct {
	pps, bps int
	window   time.Duration
}

var limCfgs = []limCfg{
	{5, -1, 7 * time.Second}, {20, -1, time.Second}, {500, -1, 100 * time.Millisecond}, {1, 0, 15 * time.Second},
	{3, -1, 2500 * time.Millisecond}, {-1, 1000, time.Second}, {0, 65536, 500 * time.Millisecond}, {10, 4096, 3 * time.Second},
	{50, 1 << 20, time.Second}, {1000, 100, 50 * time.Millisecond}, {7, 333, 60 * time.Second}, {2, 1, 10 * time.Second},
	{100000, 1 << 30, 7 * time.Second}, {500, -1, 7 * time.Second}, {13, 977, 1234 * time.Millisecond}, {1, 1, time.Millisecond},
	{2147483647, 2147483647, 60 * time.Second},
}

var nilCfgs = []limCfg{{0, 0, time.Second}, {-1, -5, time.Second}, {5, 5, 0}, {5, -1, -time.Second}}

func genEvents(r *lib.Rng, c limCfg) ([]ev, string) {
	w := int64(c.window)
	if w <= 0 {
		w = int64(time.Second)
	}
	t := int64(1_700_000_000_000_000_000) + int64(r.Intn(1_000_000_000))
	pktThresh := int64(-1)
	if c.pps > 0 {
		pktThresh = int64(c.pps) * w / 1_000_000_000 // events allowed inside one window
	}
	byteThresh := int64(-1)
	if c.bps > 0 {
		byteThresh = int64(c.bps) * w / 1_000_000_000
	}
	size := func() int64 {
		switch r.Intn(6) {
		case 0:
			return 0
		case 1:
			return int64(r.Intn(1 << 20))
		default:
			return int64(r.Intn(300))
		}
	}
	var es []ev
	kind := ""
	switch k := r.Intn(9); k {
	case 0: // burst at (almost) one instant until well past the threshold
		kind = "burst"
		n := 12 + r.Intn(30)
		if pktThresh >= 0 && pktThresh < 70 {
			n = int(pktThresh) + 2 + r.Intn(6)
		}
		for i := 0; i < n; i++ {
			es = append(es, ev{t, int64(r.Intn(4))})
			t += int64(r.Intn(3))
		}
	case 1: // steady stream around the permitted rate
		kind = "steady"
		n := 20 + r.Intn(40)
		step := w / int64(r.Pick(3, 8, 20, 40))
		if pktThresh > 0 && r.Bool() {
			step = w/pktThresh + int64(r.Range(-2, 2))
		}
		if step < 1 {
			step = 1
		}
		for i := 0; i < n; i++ {
			es = append(es, ev{t, size()})
			t += step + int64(r.Intn(3)) - 1
		}
	case 2: // activity, a gap longer than the window, activity again
		kind = "gap"
		for round := 0; round < 3; round++ {
			for i := r.Range(2, 12); i > 0; i-- {
				es = append(es, ev{t, size()})
				t += int64(r.Intn(int(w/16 + 1)))
			}
			t += w + int64(r.Pick(0, 1, 2, int(w/2)))
		}
	case 3, 4: // runs of >= 9 / 17 / 33 live points: forces 1, 2, 3 resizes (with wrap-around before them)
		kind = "resize"
		pre := r.Intn(7) // a few points that expire first so that head has moved when the ring fills
		for i := 0; i < pre; i++ {
			es = append(es, ev{t, int64(r.Intn(3))})
			t++
		}
		if pre > 0 && r.Bool() {
			t += w + 1
		}
		n := r.Pick(9, 10, 17, 18, 33, 34, 40)
		step := w / int64(n+8)
		for i := 0; i < n; i++ {
			es = append(es, ev{t, int64(r.Intn(3))})
			t += int64(r.Intn(int(step + 1)))
		}
		// then let everything expire and go on
		if r.Bool() {
			t += w + 1
			for i := r.Range(1, 10); i > 0; i-- {
				es = append(es, ev{t, size()})
				t += int64(r.Intn(5))
			}
		}
	case 5: // totals at rate*window - 1, exactly, + 1 (packets)
		kind = "packet-threshold"
		if pktThresh < 1 || pktThresh > 80 {
			pktThresh = int64(r.Range(3, 30))
		}
		n := pktThresh + int64(r.Pick(-1, 0, 1, 2))
		for i := int64(0); i < n; i++ {
			es = append(es, ev{t, 0})
			t += int64(r.Intn(2))
		}
	case 6: // byte totals at rate*window - 1, exactly, + 1
		kind = "byte-threshold"
		bt := byteThresh
		if bt < 1 {
			bt = int64(r.Range(10, 5000))
		}
		parts := int64(r.Range(1, 6))
		sum := int64(0)
		for i := int64(0); i < parts-1 && bt > parts; i++ {
			s := bt / parts
			es = append(es, ev{t, s})
			sum += s
			t += int64(r.Intn(2))
		}
		last := bt - sum + int64(r.Pick(-1, 0, 1))
		if last < 0 {
			last = 0
		}
		es = append(es, ev{t, last})
		es = append(es, ev{t + 1, int64(r.Pick(0, 1))})
	case 7: // expiry boundary: a point exactly one window old is still counted, one ns older is not
		kind = "expiry-boundary"
		n := r.Range(1, 6)
		t0 := t
		for i := 0; i < n; i++ {
			es = append(es, ev{t0, size()})
		}
		es = append(es, ev{t0 + w + int64(r.Pick(-1, 0)), size()})
		es = append(es, ev{t0 + w + int64(r.Pick(0, 1)), size()})
		es = append(es, ev{t0 + w + 1 + int64(r.Intn(3)), size()})
	default: // the clock steps back (wall clock adjusted): only model equality is checked
		kind = "clock-steps-back"
		for i := r.Range(3, 10); i > 0; i-- {
			es = append(es, ev{t, size()})
			t += int64(r.Intn(int(w/4 + 1)))
		}
		t -= int64(r.Intn(int(w))) + 1
		for i := r.Range(3, 12); i > 0; i-- {
			es = append(es, ev{t, size()})
			t += int64(r.Intn(int(w/3 + 1)))
		}
	}
	return es, kind
}

func main() {
	f := lib.ParseFlags()
	rng := lib.NewRng(f.Seed)
	out := lib.NewOut("C34", f)
	out.Imports = "From Verif Require Import Base.Ip Model.Limiter.\n"
	out.Rule = "KeyCase: address texts (v4, v6 in several spellings, IPv4-mapped, zoned, garbage) and neighbours that differ in bit 23/24 (v4) or 63/64 (v6). WaveCase: concurrent first contact, 4 fresh groups per case, burst+3..9 goroutines call Blocked once each from different addresses of the group, parked behind the cache mutex or released by a spin barrier; allowed total per group. QuotaCase: fresh Quota(eps, burst) fed burst+5 calls per text for 2-4 texts of one /24 or /64 (incl. mapped spellings) and one text of another group, admitted counts + measured elapsed ns. LimCase: limiter configs (packets and/or bytes, windows 1ms..60s, nil configs) x sequences {burst, steady, gap>window, resize runs of 9/17/33+ live points, packet/byte totals at rate*window-1/0/+1, expiry boundary, clock stepping back}. AccountCase: real Account in a tight burst. CounterCase: random updateAndAdd/expire/add. distinct = distinct Coq term; non-trivial = KeyCase with a parsable address; QuotaCase always; LimCase with a refusal or a resize; AccountCase valid; CounterCase with >= 9 ops"

	// ---- KeyCase ----
	nKey := f.Count(150)
	for i := 0; i < nKey; i++ {
		r := rng.Fork()
		var s string
		tags := []string{"kind=key"}
		switch k := r.Intn(10); {
		case k < 3:
			a := genV4(r)
			if r.Bool() {
				a = flipBit(a, r.Pick(22, 23, 24, 25, 31))
			}
			var z bool
			s, z = text(r, a, true)
			tags = append(tags, "v4-or-mapped")
			if z {
				tags = append(tags, "zoned")
			}
		case k < 8:
			a := genV6(r)
			if r.Bool() {
				a = flipBit(a, r.Pick(62, 63, 64, 65, 127))
			}
			var z bool
			s, z = text(r, a, true)
			tags = append(tags, "v6")
			if z {
				tags = append(tags, "zoned")
			}
		default:
			s = badIPs[r.Intn(len(badIPs))]
			tags = append(tags, "garbage")
		}
		key := proxy.VerifC34IPKey(s)
		_, perr := netip.ParseAddr(s)
		out.Add(lib.App("KeyCase", lib.Str(s), lib.Str(key)), map[string]any{"kind": "key", "addr": s, "observed_key": key}, perr == nil, tags...)
	}

	// ---- QuotaCase ----
	nQuota := f.Count(60)
	for i := 0; i < nQuota; i++ {
		r := rng.Fork()
		eps := []float32{0.001, 0.4, 0.5, 5, 50, 0.01}[r.Intn(6)]
		burst := r.Range(3, 10)
		q := proxy.VerifC34NewQuota(eps, burst, 1000)
		tags := []string{"kind=quota"}
		zonedCase := r.Chance(1, 4)
		var texts []string
		v4 := r.Bool()
		var base netip.Addr
		if v4 {
			base = genV4(r)
			tags = append(tags, "group=/24")
		} else {
			base = genV6(r)
			tags = append(tags, "group=/64")
		}
		hostFrom := 64
		if v4 {
			hostFrom = 24
		}
		for j := r.Range(2, 4); j > 0; j-- {
			a := randomizeFrom(r, base, hostFrom)
			s, _ := text(r, a, zonedCase)
			texts = append(texts, s)
		}
		// another group: the last prefix bit differs
		other := randomizeFrom(r, flipBit(base, hostFrom-1), hostFrom)
		s, _ := text(r, other, false)
		texts = append(texts, s)
		if r.Chance(1, 3) {
			texts = append(texts, badIPs[r.Intn(len(badIPs))])
		}
		for _, t := range texts {
			if strings.Contains(t, "%") {
				tags = append(tags, "has-zoned-text")
				break
			}
		}
		attempts := burst + 5
		type req struct {
			s        string
			att, adm int
		}
		var reqs []req
		start := time.Now()
		for _, t := range texts {
			adm := 0
			for k := 0; k < attempts; k++ {
				if !q.Blocked(t) {
					adm++
				}
			}
			reqs = append(reqs, req{t, attempts, adm})
		}
		elapsed := time.Since(start).Nanoseconds() + 1
		rat := new(big.Rat).SetFloat64(float64(eps)) // events per second, exact value of the float32
		rnum := new(big.Int).Set(rat.Num())
		rden := new(big.Int).Mul(rat.Denom(), big.NewInt(1_000_000_000))
		var rs []string
		var desc []any
		for _, q := range reqs {
			rs = append(rs, fmt.Sprintf("(%s, %d, %d)", lib.Str(q.s), q.att, q.adm))
			desc = append(desc, map[string]any{"addr": q.s, "attempts": q.att, "admitted": q.adm})
		}
		out.Add(zterm(lib.App("QuotaCase", zs(int64(burst)), rnum.String(), rden.String(), zs(elapsed), lib.List(rs))),
			map[string]any{"kind": "quota", "eps": eps, "burst": burst, "elapsed_ns": elapsed, "requests": desc}, true, tags...)
	}

	// ---- WaveCase: concurrent first contact ----
	// For a fresh group (IPv4 /24 with plain and IPv4-mapped spellings, or IPv6 /64) n > burst goroutines
	// call Blocked once each, from different addresses of the group, released together: either parked
	// behind the cache mutex (hook VerifLockMu, deterministic) or by a spin barrier. The group as a whole
	// must stay within burst + rate*elapsed: lookup-or-create of its bucket has to be atomic.
	nWave := f.Count(40)
	if runtime.GOMAXPROCS(0) < 8 {
		defer runtime.GOMAXPROCS(runtime.GOMAXPROCS(8))
	}
	for i := 0; i < nWave; i++ {
		r := rng.Fork()
		eps := []float32{0.001, 0.01, 0.4}[r.Intn(3)]
		burst := r.Range(2, 6)
		q := proxy.VerifC34NewQuota(eps, burst, 0) // 0 = no LRU eviction
		parked := r.Chance(2, 3)
		tags := []string{"kind=wave"}
		if parked {
			tags = append(tags, "wave=parked-behind-mutex")
		} else {
			tags = append(tags, "wave=spin-barrier")
		}
		var rs []string
		var desc []any
		start := time.Now()
		for g := 0; g < 4; g++ {
			v4 := r.Bool()
			var base netip.Addr
			hostFrom := 64
			if v4 {
				base = genV4(r)
				hostFrom = 24
				tags = append(tags, "group=/24")
			} else {
				base = genV6(r)
				tags = append(tags, "group=/64")
			}
			n := burst + r.Range(3, 9)
			texts := make([]string, n)
			for w := range texts {
				texts[w], _ = text(r, randomizeFrom(r, base, hostFrom), false)
			}
			var allowed, ready atomic.Int64
			var done sync.WaitGroup
			done.Add(n)
			if parked {
				q.VerifLockMu()
			}
			for w := 0; w < n; w++ {
				go func(ip string) {
					defer done.Done()
					ready.Add(1)
					if !parked {
						for spins := 0; ready.Load() < int64(n); spins++ {
							if spins%1024 == 1023 {
								runtime.Gosched()
							}
						}
					}
					if !q.Blocked(ip) {
						allowed.Add(1)
					}
				}(texts[w])
			}
			if parked {
				for ready.Load() < int64(n) {
					runtime.Gosched()
				}
				time.Sleep(3 * time.Millisecond) // every caller is now parked on q.mu, for more than 1 ms
				// Release and retake once: the woken waiter finds the mutex taken again after having
				// waited > 1 ms, which switches sync.Mutex to FIFO hand-off (starvation mode); the
				// whole wave is then served back to back, waiter by waiter.
				q.VerifUnlockMu()
				q.VerifLockMu()
				time.Sleep(2 * time.Millisecond)
				q.VerifUnlockMu()
			}
			done.Wait()
			// the group's total goes on its first text; the other texts still take part in the grouping
			for w, t := range texts {
				att, adm := 0, int64(0)
				if w == 0 {
					att, adm = n, allowed.Load()
				}
				rs = append(rs, fmt.Sprintf("(%s, %d, %d)", lib.Str(t), att, adm))
			}
			desc = append(desc, map[string]any{"group_of": texts[0], "members": texts, "callers": n, "allowed": allowed.Load()})
		}
		elapsedUpper := time.Since(start).Nanoseconds() + 1_000_000 // rounded up by 1 ms
		rat := new(big.Rat).SetFloat64(float64(eps))
		rnum := new(big.Int).Set(rat.Num())
		rden := new(big.Int).Mul(rat.Denom(), big.NewInt(1_000_000_000))
		out.Add(zterm(lib.App("WaveCase", zs(int64(burst)), rnum.String(), rden.String(), zs(elapsedUpper), lib.List(rs))),
			map[string]any{"kind": "wave", "eps": eps, "burst": burst, "elapsed_upper_ns": elapsedUpper, "parked": parked, "groups": desc}, true, tags...)
	}

	// ---- LimCase ----
	nLim := f.Count(150)
	for i := 0; i < nLim; i++ {
		r := rng.Fork()
		c := limCfgs[r.Intn(len(limCfgs))]
		tags := []string{"kind=lim"}
		if r.Chance(1, 20) {
			c = nilCfgs[r.Intn(len(nilCfgs))]
			tags = append(tags, "nil-limiter")
		}
		es, kind := genEvents(r, c)
		tags = append(tags, "seq="+kind)
		l := proxy.VerifC34NewLimiter(c.pps, c.bps, c.window)
		var obs []bool
		var sp, sb []string
		refused, resized := false, false
		for _, e := range es {
			ok := l.VerifAccountAt(int(e.size), e.now)
			obs = append(obs, ok)
			if !ok {
				refused = true
			}
			p, b := l.VerifState()
			if (p != nil && len(p.Times) > 8) || (b != nil && len(b.Times) > 8) {
				resized = true
			}
			sp = append(sp, csum(p))
			sb = append(sb, csum(b))
		}
		fp, fb := l.VerifState()
		if refused {
			tags = append(tags, "refused")
		}
		if resized {
			tags = append(tags, "resized")
		}
		out.Add(zterm(lib.App("LimCase", zs(int64(c.pps)), zs(int64(c.bps)), zs(int64(c.window)), evlist(es), bools(obs),
			lib.List(sp), lib.List(sb), optFull(fp), optFull(fb))),
			map[string]any{"kind": "lim", "pps": c.pps, "bps": c.bps, "window_ns": int64(c.window), "sequence": kind,
				"events": fmt.Sprint(es), "observed": fmt.Sprint(obs)}, refused || resized, tags...)
	}

	// ---- AccountCase: the real Account with the real clock ----
	nAcc := f.Count(30)
	for i := 0; i < nAcc; i++ {
		r := rng.Fork()
		cfgs := []limCfg{{5, -1, 7 * time.Second}, {3, 100, 10 * time.Second}, {1, -1, 60 * time.Second}, {-1, 500, 7 * time.Second}, {10, 1 << 20, 5 * time.Second}, {2, 64, 30 * time.Second}}
		c := cfgs[r.Intn(len(cfgs))]
		thresh := 40
		if c.pps > 0 {
			thresh = c.pps * int(c.window/time.Second)
		}
		n := thresh + r.Range(2, 6)
		var sizes []int64
		for k := 0; k < n; k++ {
			sizes = append(sizes, int64(r.Intn(40)))
		}
		l := proxy.VerifC34NewLimiter(c.pps, c.bps, c.window)
		var obs []bool
		start := time.Now()
		for _, s := range sizes {
			obs = append(obs, l.Account(int(s)))
		}
		elapsed := time.Since(start)
		valid := elapsed < c.window/2
		tag := "account-valid"
		if !valid {
			tag = "account-skipped-slow-machine"
		}
		out.Add(zterm(lib.App("AccountCase", zs(int64(c.pps)), zs(int64(c.bps)), zs(int64(c.window)), zlist(sizes), lib.Bool(valid), bools(obs))),
			map[string]any{"kind": "account", "pps": c.pps, "bps": c.bps, "window_ns": int64(c.window), "sizes": sizes,
				"observed": fmt.Sprint(obs), "elapsed_ns": elapsed.Nanoseconds()}, valid, "kind=account", tag)
	}

	// ---- CounterCase ----
	nCnt := f.Count(50)
	for i := 0; i < nCnt; i++ {
		r := rng.Fork()
		iv := int64(r.Pick(1, 1000, 1_000_000_000, 7_000_000_000))
		c := proxy.VerifC34NewCounter(iv)
		t := int64(1_700_000_000_000_000_000)
		pure := r.Chance(1, 2)
		nops := r.Range(3, 30)
		var ops, obs []string
		for k := 0; k < nops; k++ {
			t += int64(r.Intn(int(iv/4 + 2)))
			if !pure && r.Chance(1, 6) {
				t -= int64(r.Intn(int(iv + 1)))
			}
			cnt := int64(r.Intn(50))
			switch {
			case pure || r.Chance(2, 3):
				c.UpdateAndAdd(cnt, t)
				ops = append(ops, fmt.Sprintf("(0, %s, %s)", zs(cnt), zs(t)))
			case r.Bool():
				c.Expire(t)
				ops = append(ops, fmt.Sprintf("(1, %s, 0)", zs(t)))
			default:
				old := t - int64(r.Pick(0, 1, int(iv), int(iv)+1, 2*int(iv)))
				c.Add(old, cnt)
				ops = append(ops, fmt.Sprintf("(2, %s, %s)", zs(old), zs(cnt)))
			}
			obs = append(obs, cfull(c.State()))
		}
		tag := "counter-mixed-ops"
		if pure {
			tag = "counter-updateAndAdd-only"
		}
		out.Add(zterm(lib.App("CounterCase", zs(iv), lib.List(ops), lib.List(obs))),
			map[string]any{"kind": "counter", "interval_ns": iv, "ops": ops}, nops >= 9, "kind=counter", tag)
	}
	out.Finish()
}
