// C36 harness: runs the real applyMergePatch (through the verif export hook) on generated
// JSON documents and the real mergeConfigPatch on real configuration documents with one-key
// patches; writes targets, patches and what the code returned for the Coq side to judge.
package main

import (
	"bytes"
	"encoding/json"
	"fmt"
	"os"
	"sort"
	"strconv"
	"strings"
	"time"

	liteconfig "go.minekube.com/gate/pkg/edition/java/lite/config"
	"go.minekube.com/gate/pkg/gate"
	"go.minekube.com/gate/pkg/gate/config"
	"go.minekube.com/gate/pkg/util/configutil"

	"verifharness/lib"
)

// ---------- raw JSON trees (member order and duplicates preserved) ----------

const (
	kNull = iota
	kBool
	kNum
	kStr
	kArr
	kObj
)

type member struct {
	key string
	val *node
}

type node struct {
	kind int
	b    bool
	lit  string // number literal as written in the document
	num  string // canonical literal: what encoding/json prints for the decoded float64
	str  string
	arr  []*node
	obj  []member
}

func canonNum(lit string) string {
	f, err := strconv.ParseFloat(lit, 64)
	if err != nil {
		panic("bad number literal " + lit)
	}
	b, err := json.Marshal(f)
	if err != nil {
		panic(err)
	}
	return string(b)
}

func num(lit string) *node { return &node{kind: kNum, lit: lit, num: canonNum(lit)} }
func str(s string) *node   { return &node{kind: kStr, str: s} }

// Coq term of type Base.Json.json
func (n *node) coq() string {
	switch n.kind {
	case kNull:
		return "JNull"
	case kBool:
		return lib.App("JBool", lib.Bool(n.b))
	case kNum:
		return lib.App("JNum", lib.Str(n.num))
	case kStr:
		return lib.App("JStr", lib.Str(n.str))
	case kArr:
		return lib.App("JArr", lib.ListOf(n.arr, func(x *node) string { return x.coq() }))
	default:
		return lib.App("JObj", lib.ListOf(n.obj, func(m member) string { return lib.Pair(lib.Str(m.key), m.val.coq()) }))
	}
}

// JSON text; esc != nil makes random choices of whitespace and \u escapes (the decoded document
// is the same)
func (n *node) text(sb *strings.Builder, esc *lib.Rng) {
	ws := func() {
		if esc != nil && esc.Chance(1, 8) {
			sb.WriteString(esc.PickS(" ", "\n", "\t", "  "))
		}
	}
	switch n.kind {
	case kNull:
		sb.WriteString("null")
	case kBool:
		if n.b {
			sb.WriteString("true")
		} else {
			sb.WriteString("false")
		}
	case kNum:
		sb.WriteString(n.lit)
	case kStr:
		writeJSONString(sb, n.str, esc)
	case kArr:
		sb.WriteByte('[')
		for i, x := range n.arr {
			if i > 0 {
				sb.WriteByte(',')
			}
			ws()
			x.text(sb, esc)
		}
		ws()
		sb.WriteByte(']')
	case kObj:
		sb.WriteByte('{')
		for i, m := range n.obj {
			if i > 0 {
				sb.WriteByte(',')
			}
			ws()
			writeJSONString(sb, m.key, esc)
			ws()
			sb.WriteByte(':')
			ws()
			m.val.text(sb, esc)
		}
		ws()
		sb.WriteByte('}')
	}
}

func writeJSONString(sb *strings.Builder, s string, esc *lib.Rng) {
	sb.WriteByte('"')
	for _, r := range s {
		switch {
		case r == '"' || r == '\\':
			sb.WriteByte('\\')
			sb.WriteRune(r)
		case r < 0x20:
			fmt.Fprintf(sb, "\\u%04x", r)
		case esc != nil && r < 0x10000 && esc.Chance(1, 6):
			fmt.Fprintf(sb, "\\u%04x", r) // "a" is the same member name as "a"
		default:
			sb.WriteRune(r)
		}
	}
	sb.WriteByte('"')
}

func (n *node) json(esc *lib.Rng) string {
	var sb strings.Builder
	n.text(&sb, esc)
	return sb.String()
}

// parse reads a JSON text into a raw tree with a token reader (order and duplicates kept,
// numbers kept as literals).
func parse(b []byte) (*node, error) {
	dec := json.NewDecoder(bytes.NewReader(b))
	dec.UseNumber()
	n, err := parseValue(dec)
	if err != nil {
		return nil, err
	}
	if dec.More() {
		return nil, fmt.Errorf("trailing data")
	}
	return n, nil
}

func parseValue(dec *json.Decoder) (*node, error) {
	tok, err := dec.Token()
	if err != nil {
		return nil, err
	}
	switch t := tok.(type) {
	case nil:
		return &node{kind: kNull}, nil
	case bool:
		return &node{kind: kBool, b: t}, nil
	case json.Number:
		return &node{kind: kNum, lit: string(t), num: canonNum(string(t))}, nil
	case string:
		return str(t), nil
	case json.Delim:
		switch t {
		case '[':
			n := &node{kind: kArr}
			for dec.More() {
				x, err := parseValue(dec)
				if err != nil {
					return nil, err
				}
				n.arr = append(n.arr, x)
			}
			_, err := dec.Token()
			return n, err
		case '{':
			n := &node{kind: kObj}
			for dec.More() {
				kt, err := dec.Token()
				if err != nil {
					return nil, err
				}
				k, ok := kt.(string)
				if !ok {
					return nil, fmt.Errorf("non-string key")
				}
				x, err := parseValue(dec)
				if err != nil {
					return nil, err
				}
				n.obj = append(n.obj, member{k, x})
			}
			_, err := dec.Token()
			return n, err
		}
	}
	return nil, fmt.Errorf("unexpected token %v", tok)
}

func equalRaw(a, b *node) bool {
	if a.kind != b.kind {
		return false
	}
	switch a.kind {
	case kBool:
		return a.b == b.b
	case kNum:
		return a.num == b.num
	case kStr:
		return a.str == b.str
	case kArr:
		if len(a.arr) != len(b.arr) {
			return false
		}
		for i := range a.arr {
			if !equalRaw(a.arr[i], b.arr[i]) {
				return false
			}
		}
	case kObj:
		if len(a.obj) != len(b.obj) {
			return false
		}
		for i := range a.obj {
			if a.obj[i].key != b.obj[i].key || !equalRaw(a.obj[i].val, b.obj[i].val) {
				return false
			}
		}
	}
	return true
}

func (n *node) get(k string) *node { // first binding
	if n.kind != kObj {
		return nil
	}
	for _, m := range n.obj {
		if m.key == k {
			return m.val
		}
	}
	return nil
}

func (n *node) depth() int {
	d := 0
	for _, x := range n.arr {
		if e := x.depth(); e > d {
			d = e
		}
	}
	for _, m := range n.obj {
		if e := m.val.depth(); e > d {
			d = e
		}
	}
	return d + 1
}

// ---------- generators ----------

// member names: a few families whose members differ only by letter case or are equal only under
// Unicode simple case folding (K = KELVIN SIGN U+212A folds to k, ſ to s, ẞ to ß); RFC 7396
// names are exact, so every one of them is a different member
var keyAlphabet = []string{"a", "A", "b", "c", "", "ab", "Ab", "AB", "é", "É", "ß", "ẞ", "k", "K", "\u212a", "s", "ſ"}

var foldFamilies = [][]string{{"a", "A"}, {"ab", "Ab", "AB", "aB"}, {"é", "É"}, {"ß", "ẞ"}, {"k", "K", "\u212a"}, {"s", "S", "ſ"}, {"b", "B"}, {"c", "C"}}

// caseVariant returns another spelling of the same name up to case folding ("" if none)
func caseVariant(r *lib.Rng, k string) string {
	for _, fam := range foldFamilies {
		for _, m := range fam {
			if m == k {
				for tries := 0; tries < 8; tries++ {
					if v := fam[r.Intn(len(fam))]; v != k {
						return v
					}
				}
			}
		}
	}
	return ""
}
var numPoolCanon = []string{"0", "1", "-1", "2", "10", "0.5", "-2.5", "123456789", "1e+21", "1e-7"}
var numPoolOther = []string{"1.0", "1e2", "-0", "1E3", "0.10", "100000000000000000000000", "2.50"}
var strPool = []string{"", "a", "b", "x y", "null", "é", "\"q\"", "line\nbreak", "<&>"}

func genScalar(r *lib.Rng) *node {
	switch r.Intn(10) {
	case 0, 1, 2:
		return &node{kind: kNull}
	case 3:
		return &node{kind: kBool, b: r.Bool()}
	case 4, 5:
		if r.Chance(1, 4) {
			return num(numPoolOther[r.Intn(len(numPoolOther))])
		}
		return num(numPoolCanon[r.Intn(len(numPoolCanon))])
	default:
		return str(strPool[r.Intn(len(strPool))])
	}
}

// gen: depth is the remaining nesting budget (objects/arrays only while depth > 1)
func gen(r *lib.Rng, depth int, dup bool) *node {
	if depth <= 1 || r.Chance(3, 10) {
		return genScalar(r)
	}
	if r.Chance(1, 4) {
		n := &node{kind: kArr}
		for i, k := 0, r.Intn(4); i < k; i++ {
			n.arr = append(n.arr, gen(r, depth-1, dup))
		}
		return n
	}
	n := &node{kind: kObj}
	seen := map[string]bool{}
	for i, k := 0, r.Intn(5); i < k; i++ {
		key := keyAlphabet[r.Intn(len(keyAlphabet))]
		if seen[key] && !(dup && r.Chance(1, 2)) {
			continue
		}
		seen[key] = true
		n.obj = append(n.obj, member{key, gen(r, depth-1, dup)})
	}
	return n
}

// patchFor derives a patch from the target so that member names collide on purpose:
// existing members are deleted, replaced, or recursed into; new members are added.
func patchFor(r *lib.Rng, t *node, depth int, dup bool) *node {
	if t == nil || t.kind != kObj || depth <= 1 || r.Chance(1, 10) {
		return gen(r, depth, dup)
	}
	p := &node{kind: kObj}
	seen := map[string]bool{}
	add := func(k string, v *node) {
		if seen[k] && !(dup && r.Chance(1, 2)) {
			return
		}
		seen[k] = true
		p.obj = append(p.obj, member{k, v})
	}
	for _, m := range t.obj {
		switch r.Intn(8) {
		case 0, 1:
			add(m.key, &node{kind: kNull})
		case 2, 3:
			add(m.key, patchFor(r, m.val, depth-1, dup))
		case 4:
			add(m.key, genScalar(r))
		case 5:
			add(m.key, gen(r, depth-1, dup))
		}
	}
	for _, m := range t.obj { // same name in another letter case: must NOT touch the member
		if r.Chance(1, 4) {
			if v := caseVariant(r, m.key); v != "" {
				switch r.Intn(3) {
				case 0:
					add(v, &node{kind: kNull})
				case 1:
					add(v, patchFor(r, m.val, depth-1, dup))
				default:
					add(v, genScalar(r))
				}
			}
		}
	}
	for i, k := 0, r.Intn(3); i < k; i++ {
		add(keyAlphabet[r.Intn(len(keyAlphabet))], gen(r, depth-1, dup))
	}
	if dup && len(p.obj) > 0 && r.Chance(1, 3) { // repeat a member name with another value
		m := p.obj[r.Intn(len(p.obj))]
		p.obj = append(p.obj, member{m.key, gen(r, depth-1, dup)})
	}
	if r.Chance(1, 5) { // another iteration order of the document
		perm := r.Perm(len(p.obj))
		q := make([]member, len(p.obj))
		for i, j := range perm {
			q[i] = p.obj[j]
		}
		p.obj = q
	}
	return p
}

func hasDup(n *node) bool {
	seen := map[string]bool{}
	for _, m := range n.obj {
		if seen[m.key] {
			return true
		}
		seen[m.key] = true
		if hasDup(m.val) {
			return true
		}
	}
	for _, x := range n.arr {
		if hasDup(x) {
			return true
		}
	}
	return false
}

func hasOtherNum(n *node) bool {
	if n.kind == kNum && n.lit != n.num {
		return true
	}
	for _, m := range n.obj {
		if hasOtherNum(m.val) {
			return true
		}
	}
	for _, x := range n.arr {
		if hasOtherNum(x) {
			return true
		}
	}
	return false
}

// ---------- configuration documents ----------

func baseConfigs() []*config.Config {
	def := config.DefaultConfig
	// a tiny icon keeps the documents small; one base keeps the default 3 KB icon.  (An EMPTY
	// favicon is not usable here: canonicalConfigJSON prints "favicon":"" which the strict
	// decoder rejects, so every patch of such a configuration is rejected.)
	def.Config.Status.Favicon = "data:image/png;base64,iVBORw0KGgo="
	lite := def
	lite.Config.Bind = "127.0.0.1:25565"
	lite.Config.Lite.Enabled = true
	lite.Config.Lite.Routes = []liteconfig.Route{{
		Host:         []string{"play.example.test"},
		Backend:      []string{"backend.example.test:25565"},
		CachePingTTL: configutil.Duration(30 * time.Second),
	}, {
		Host:     []string{"*.example.test", "example.test"},
		Backend:  []string{"10.0.0.1:25565", "10.0.0.2:25565"},
		Strategy: liteconfig.StrategyRoundRobin,
	}}
	classic := def
	classic.Config.Servers = map[string]string{"lobby": "localhost:25566", "survival": "localhost:25567"}
	classic.Config.Try = []string{"lobby"}
	classic.HealthService.Enabled = true
	icon := config.DefaultConfig
	return []*config.Config{&def, &lite, &classic, &icon}
}

// schema knowledge written from the documented configuration (config.yml / field docs), not
// from the decoder: objects with a fixed member set, and documented fields with values of
// their documented type.  exact = the value is in the canonical form the encoder prints, so the
// re-encoded candidate must equal the RFC 7396 result member for member.
var structPaths = [][]string{
	{}, {"config"}, {"config", "status"}, {"config", "forwarding"}, {"config", "compression"},
	{"config", "query"}, {"config", "quota"}, {"config", "quota", "connections"}, {"config", "quota", "logins"},
	{"config", "lite"}, {"config", "auth"}, {"config", "packetLimiter"}, {"healthService"}, {"connect"}, {"api"},
}

type field struct {
	path  []string
	vals  []string // JSON texts
	exact bool
	ill   []string // JSON texts of an incompatible kind
}

var knownFields = []field{
	{[]string{"config", "bind"}, []string{`"0.0.0.0:25570"`, `"localhost:25566"`}, true, []string{`[1]`, `{"x":1}`}},
	{[]string{"config", "onlineMode"}, []string{`true`}, true, []string{`[true]`, `{"x":true}`}},
	{[]string{"config", "onlineMode"}, []string{`false`}, false, nil},
	{[]string{"config", "status", "showMaxPlayers"}, []string{`0`, `1`, `77`, `5000`}, true, []string{`"many"`, `[1]`, `{"n":1}`}},
	{[]string{"config", "status", "logPingRequests"}, []string{`true`, `false`}, true, []string{`[]`, `{"a":null}`}},
	{[]string{"config", "status", "motd"}, []string{`"hello"`}, false, nil},
	{[]string{"config", "status"}, nil, false, []string{`5`, `"x"`, `[1]`}},
	{[]string{"config", "forwarding", "mode"}, []string{`"none"`, `"legacy"`, `"velocity"`, `"bungeeguard"`}, true, []string{`["none"]`, `{"m":"none"}`}},
	{[]string{"config", "forwarding", "velocitySecret"}, []string{`"s3cret"`}, true, []string{`[1,2]`}},
	{[]string{"config", "compression", "threshold"}, []string{`-1`, `0`, `256`, `1024`}, true, []string{`"big"`, `[256]`}},
	{[]string{"config", "compression", "level"}, []string{`-1`, `1`, `9`}, true, []string{`"fast"`, `{"l":1}`}},
	{[]string{"config", "query", "enabled"}, []string{`true`, `false`}, true, []string{`[false]`}},
	{[]string{"config", "query", "port"}, []string{`25577`, `1`}, true, []string{`"port"`, `[1]`}},
	{[]string{"config", "quota", "connections", "enabled"}, []string{`true`, `false`}, true, []string{`{"on":true}`}},
	{[]string{"config", "quota", "connections", "burst"}, []string{`1`, `10`, `300`}, true, []string{`"ten"`, `[10]`}},
	{[]string{"config", "quota", "connections", "ops"}, []string{`5`, `2.5`, `0.5`}, true, []string{`"fast"`, `[5]`}},
	{[]string{"config", "quota", "logins", "maxEntries"}, []string{`1`, `1000`}, true, []string{`"x"`, `{"n":1}`}},
	{[]string{"config", "quota"}, nil, false, []string{`7`, `[{}]`}},
	{[]string{"config", "connectionTimeout"}, []string{`"7s"`, `"1m0s"`, `"250ms"`}, true, []string{`[5]`, `{"s":5}`, `"soon"`}},
	{[]string{"config", "connectionTimeout"}, []string{`7000`, `"60s"`}, false, nil},
	{[]string{"config", "servers"}, []string{`{"lobby":"localhost:25566"}`, `{"a":"10.0.0.1:1","b":"10.0.0.2:2"}`}, false, []string{`5`, `["lobby"]`, `"lobby"`}},
	{[]string{"config", "try"}, []string{`["lobby"]`, `["a","b"]`}, true, []string{`{"0":"lobby"}`, `5`}},
	{[]string{"config", "debug"}, []string{`true`}, true, []string{`[1]`}},
	{[]string{"config", "proxyProtocol"}, []string{`true`}, true, []string{`{"v":2}`}},
	{[]string{"config", "lite", "enabled"}, []string{`true`}, true, []string{`[true]`}},
	{[]string{"config", "lite", "routes"}, []string{
		`[{"backend":"backend.example.test:25565","host":"play.example.test"}]`,
		`[{"backend":["10.0.0.1:25565","10.0.0.2:25565"],"cachePingTTL":"3s","host":["a.example.test","b.example.test"],"strategy":"random"},{"backend":"c:1","host":"c.example.test","proxyProtocol":true}]`,
	}, true, []string{`{"host":"x"}`, `"routes"`, `7`, `[5]`, `["route"]`}},
	{[]string{"healthService", "enabled"}, []string{`true`}, true, []string{`[1]`}},
	{[]string{"healthService", "bind"}, []string{`"0.0.0.0:9091"`}, true, []string{`{"port":9091}`}},
	{[]string{"connect", "enabled"}, []string{`true`}, true, []string{`{"x":1}`}},
	{[]string{"connect", "name"}, []string{`"my-endpoint"`}, true, []string{`[1]`}},
	{[]string{"api", "enabled"}, []string{`true`}, true, []string{`["yes"]`}},
	{[]string{"api", "bind"}, []string{`"localhost:8081"`}, true, []string{`{"h":"localhost"}`}},
	{[]string{"noAutoReload"}, []string{`true`}, true, []string{`[true]`, `{"v":true}`}},
}

// variantName spells a documented member name in another letter case ("" if it has no letters)
func variantName(r *lib.Rng, name string) string {
	for tries := 0; tries < 8; tries++ {
		var v string
		switch r.Intn(4) {
		case 0:
			v = strings.ToUpper(name[:1]) + name[1:]
		case 1:
			v = strings.ToUpper(name)
		case 2:
			v = strings.ToLower(name)
		default:
			i := r.Intn(len(name))
			c := name[i : i+1]
			if c == strings.ToLower(c) {
				c = strings.ToUpper(c)
			} else {
				c = strings.ToLower(c)
			}
			v = name[:i] + c + name[i+1:]
		}
		if v != name {
			return v
		}
	}
	return ""
}

func wrap(path []string, val *node) *node {
	for i := len(path) - 1; i >= 0; i-- {
		val = &node{kind: kObj, obj: []member{{path[i], val}}}
	}
	return val
}

func mustParse(s string) *node {
	n, err := parse([]byte(s))
	if err != nil {
		panic(fmt.Sprintf("harness table: %q: %v", s, err))
	}
	return n
}

func main() {
	f := lib.ParseFlags()
	rng := lib.NewRng(f.Seed)
	out := lib.NewOut("C36", f)
	out.Imports = "From Verif Require Import Base.Json Model.MergePatch.\nImport ListNotations.\nOpen Scope string_scope.\nOpen Scope N_scope.\n"
	out.Rule = "merge stream: target = random JSON document (nesting <= 4, member names from {a,A,b,c,\"\",ab,Ab,AB,é,É,ß,ẞ,k,K,KELVIN SIGN,s,ſ}; patches also address existing members by a name that differs only in letter case, <= 4 members, nulls/arrays/scalars at every level); patch derived from the target (delete / recurse / replace existing members, add new ones, sometimes permuted, sometimes with duplicate member names, sometimes unrelated or non-object), both sent as JSON text (random whitespace and \\u escapes) through json.Unmarshal + applyMergePatch + json.Marshal. config stream: canonicalConfigJSON of 4 real configurations x one-key patches of a known class (unknown member at a documented struct path or inside a route, a documented name spelled in another letter case with a value or with null, documented field with a well-typed value, with a value of an incompatible JSON kind, null, non-object patch, not JSON) through mergeConfigPatch, plus the fixed document-level patches null, {}, true, 0, \"x\", [], [1] on every base (null: an accepted candidate must re-encode as the configuration with no member set, never as the target). distinct = distinct Coq case term; non-trivial = merge case whose patch is an object naming at least one existing target member, or config case"

	// printer/parser self-test: what is printed (with escapes) parses back to the same raw tree
	{
		st := lib.NewRng(f.Seed ^ 0x5e1f)
		for i := 0; i < 200; i++ {
			n := gen(st, 4, true)
			back, err := parse([]byte(n.json(st)))
			if err != nil || !equalRaw(n, back) {
				fmt.Fprintln(os.Stderr, "self-test: JSON printer/parser round trip failed on", n.json(nil), err)
				os.Exit(2)
			}
		}
	}

	// ---------- merge stream ----------
	nMerge := f.Count(320)
	for i := 0; i < nMerge; i++ {
		r := rng.Fork()
		dup := r.Chance(1, 5)
		var t *node
		switch r.Intn(12) {
		case 0:
			t = genScalar(r)
		case 1:
			t = &node{kind: kArr, arr: []*node{gen(r, 2, false)}}
		default:
			t = gen(r, 4, false)
			for tries := 0; t.kind != kObj && tries < 3; tries++ {
				t = gen(r, 4, false)
			}
		}
		p := patchFor(r, t, 4, dup)
		tj, pj := t.json(r), p.json(r)
		var tv, pv any
		if err := json.Unmarshal([]byte(tj), &tv); err != nil {
			panic(err)
		}
		if err := json.Unmarshal([]byte(pj), &pv); err != nil {
			panic(err)
		}
		res := gate.VerifApplyMergePatch(tv, pv)
		ob, err := json.Marshal(res)
		if err != nil {
			out.GoViolation(map[string]any{"index": i, "what": "json.Marshal of applyMergePatch result failed", "target": tj, "patch": pj, "error": err.Error()})
			continue
		}
		obs, err := parse(ob)
		if err != nil {
			panic(err)
		}
		nt := false
		tags := []string{"stream=merge", fmt.Sprintf("patch-depth=%d", p.depth())}
		if p.kind == kObj {
			tags = append(tags, "patch=object")
			for _, m := range p.obj {
				if tm := t.get(m.key); tm != nil {
					nt = true
					switch {
					case m.val.kind == kNull:
						tags = append(tags, "deletes-existing")
					case m.val.kind == kObj && tm.kind == kObj:
						tags = append(tags, "recurses-into-existing-object")
					default:
						tags = append(tags, "replaces-existing")
					}
				} else if m.val.kind == kNull {
					tags = append(tags, "deletes-absent")
				} else {
					tags = append(tags, "adds-member")
				}
				if t.get(m.key) == nil && t.kind == kObj {
					for _, tm := range t.obj {
						if strings.EqualFold(tm.key, m.key) {
							tags = append(tags, "name-differs-from-existing-only-by-case")
							nt = true
							break
						}
					}
				}
			}
		} else {
			tags = append(tags, "patch=non-object")
		}
		if t.kind != kObj {
			tags = append(tags, "target=non-object")
		}
		if hasDup(p) {
			tags = append(tags, "patch-duplicate-names")
		}
		if hasOtherNum(p) || hasOtherNum(t) {
			tags = append(tags, "non-canonical-number-literal")
		}
		tags = dedupTags(tags)
		out.Add(lib.App("MergeCase", t.coq(), p.coq(), obs.coq()),
			map[string]any{"target": tj, "patch": pj, "observed": string(ob)}, nt, tags...)
	}

	// ---------- config stream ----------
	bases := baseConfigs()
	type baseDoc struct {
		cfg  *config.Config
		doc  *node
		name string
	}
	var docs []baseDoc
	for i, c := range bases {
		b, err := gate.VerifCanonicalConfigJSON(c)
		if err != nil {
			panic(err)
		}
		d := mustParse(string(b))
		name := fmt.Sprintf("base%d", i)
		out.Imports += "Definition " + name + " : json := " + d.coq() + ".\n"
		docs = append(docs, baseDoc{c, d, name})
	}
	nCfg := f.Count(120)
	for i := 0; i < nCfg; i++ {
		r := rng.Fork()
		bi := r.Intn(len(docs))
		if r.Chance(4, 5) && bi == len(docs)-1 { // the base with the 3 KB icon less often
			bi = r.Intn(len(docs) - 1)
		}
		base := docs[bi]
		var cls, patchText string
		var patch *node
		exact := false
		caseVariant := false
		switch r.Intn(15) {
		case 11, 12: // a documented name in another letter case, with a value: an unknown member
			cls = "PcUnknownField"
			fd := knownFields[r.Intn(len(knownFields))]
			path := append([]string{}, fd.path...)
			si := r.Intn(len(path))
			path[si] = variantName(r, path[si])
			pool := append(append([]string{}, fd.vals...), fd.ill...)
			patch = wrap(path, mustParse(pool[r.Intn(len(pool))]))
			caseVariant = true
		case 13, 14: // null for a documented name in another letter case: no such member, no-op
			cls = "PcDeleteAbsent"
			fd := knownFields[r.Intn(len(knownFields))]
			path := append([]string{}, fd.path...)
			path[len(path)-1] = variantName(r, path[len(path)-1])
			patch = wrap(path, &node{kind: kNull})
			// a no-op only when the enclosing objects exist; otherwise the RFC creates empty
			// enclosing objects, which the encoder omits again (no member-for-member compare)
			exact = true
			for cur, i := base.doc, 0; i < len(path)-1; i++ {
				if cur = cur.get(path[i]); cur == nil || cur.kind != kObj {
					exact = false
					break
				}
			}
			caseVariant = true
		case 0, 1, 2: // unknown member somewhere in a fixed-shape object
			cls = "PcUnknownField"
			name := "verif" + r.StringOver("abcdefghijklmnopqrstuvwxyzABC", r.Range(1, 8))
			var val *node
			switch r.Intn(4) {
			case 0:
				val = &node{kind: kBool, b: true}
			case 1:
				val = num("1")
			case 2:
				val = str("x")
			default:
				val = &node{kind: kObj, obj: []member{{"enabled", &node{kind: kBool, b: true}}}}
			}
			if r.Chance(1, 5) { // inside an array element: a route with an extra member
				route := mustParse(`{"host":"u.example.test","backend":"u:1"}`)
				route.obj = append(route.obj, member{name, val})
				patch = wrap([]string{"config", "lite", "routes"}, &node{kind: kArr, arr: []*node{route}})
			} else {
				patch = wrap(append(append([]string{}, structPaths[r.Intn(len(structPaths))]...), name), val)
			}
		case 3, 4, 5, 6: // documented field, well typed
			cls = "PcKnownWellTyped"
			var fd field
			for {
				fd = knownFields[r.Intn(len(knownFields))]
				if len(fd.vals) > 0 {
					break
				}
			}
			patch = wrap(fd.path, mustParse(fd.vals[r.Intn(len(fd.vals))]))
			exact = fd.exact
		case 7, 8: // documented field, incompatible kind
			cls = "PcKnownIllTyped"
			var fd field
			for {
				fd = knownFields[r.Intn(len(knownFields))]
				if len(fd.ill) > 0 {
					break
				}
			}
			patch = wrap(fd.path, mustParse(fd.ill[r.Intn(len(fd.ill))]))
		case 9: // null removes a documented member (or a whole documented section)
			cls = "PcDeleteKnown"
			fd := knownFields[r.Intn(len(knownFields))]
			path := fd.path
			if r.Chance(1, 4) {
				path = path[:1]
			}
			patch = wrap(path, &node{kind: kNull})
		default:
			if r.Bool() {
				cls = "PcNonObject"
				patch = mustParse(r.PickS(`5`, `"config"`, `[1]`, `true`, `false`, `[]`, `0`, `[{"config":{}}]`, `0.5`))
			} else {
				cls = "PcNotJson"
				patchText = r.PickS(`{`, ``, `{"config":}`, `{"config":{"bind":"x"}`, `{config:1}`, `{"a":1}}`, `nul`)
			}
		}
		if patch != nil {
			patchText = patch.json(r)
		}
		cand, err := gate.VerifMergeConfigPatch(base.cfg, patchText)
		accepted := err == nil
		candTerm := "None"
		candText := ""
		if accepted && exact {
			cb, err := gate.VerifCanonicalConfigJSON(cand)
			if err != nil {
				panic(err)
			}
			candText = string(cb)
			candTerm = lib.Some(mustParse(candText).coq())
		}
		ptTerm := "JNull"
		if patch != nil {
			ptTerm = patch.coq()
		}
		errClass := ""
		if err != nil {
			errClass = "rejected"
		}
		desc := map[string]any{"base": base.name, "class": cls, "patch": patchText, "accepted": accepted, "error_class": errClass, "candidate_compared": accepted && exact}
		if len(candText) > 0 && len(candText) < 1500 {
			desc["candidate"] = candText
		}
		tags := []string{"stream=config", "class=" + cls, "base=" + base.name, fmt.Sprintf("accepted=%v", accepted)}
		if accepted && exact {
			tags = append(tags, "candidate-compared")
		}
		if caseVariant {
			tags = append(tags, "documented-name-in-other-letter-case")
		}
		out.Add(lib.App("ConfigCase", cls, base.name, ptTerm, lib.Bool(accepted), candTerm), desc, true, tags...)
	}
	// ---------- document-level patches of every JSON kind, on every base (fixed cases) ----------
	zeroJSON, err := gate.VerifCanonicalConfigJSON(&config.Config{})
	if err != nil {
		panic(err)
	}
	zeroDoc := mustParse(string(zeroJSON))
	for _, base := range docs {
		for _, pt := range []string{`null`, `{}`, `true`, `0`, `"x"`, `[]`, `[1]`} {
			cand, err := gate.VerifMergeConfigPatch(base.cfg, pt)
			accepted := err == nil
			candTerm, candText := "None", ""
			if accepted {
				cb, err := gate.VerifCanonicalConfigJSON(cand)
				if err != nil {
					panic(err)
				}
				candText = string(cb)
				candTerm = lib.Some(mustParse(candText).coq())
			}
			desc := map[string]any{"base": base.name, "patch": pt, "accepted": accepted, "candidate_compared": accepted}
			if len(candText) > 0 && len(candText) < 1500 {
				desc["candidate"] = candText
			}
			tags := []string{"stream=config", "document-level-patch=" + pt, "base=" + base.name, fmt.Sprintf("accepted=%v", accepted)}
			switch pt {
			case `null`:
				desc["class"] = "null document"
				out.Add(lib.App("NullPatchCase", base.name, zeroDoc.coq(), lib.Bool(accepted), candTerm), desc, true, tags...)
			case `{}`:
				desc["class"] = "PcEmptyObject"
				out.Add(lib.App("ConfigCase", "PcEmptyObject", base.name, mustParse(pt).coq(), lib.Bool(accepted), candTerm), desc, true, tags...)
			default:
				desc["class"] = "PcNonObject"
				out.Add(lib.App("ConfigCase", "PcNonObject", base.name, mustParse(pt).coq(), lib.Bool(accepted), candTerm), desc, true, tags...)
			}
		}
	}
	out.Finish()
}

func dedupTags(t []string) []string {
	sort.Strings(t)
	o := t[:0]
	for i, x := range t {
		if i == 0 || x != t[i-1] {
			o = append(o, x)
		}
	}
	return o
}
