// C30 harness: drives the real Lite StrategyManager and the real per-attempt backend iterator
// (findRoute's nextBackend, through the export hook) with scripted dial outcomes - no sockets -
// and records what they returned; plus real goroutines on TrackConnection / ActiveConnections and
// on round-robin selection, whose histories the Coq side validates with Base.Lin.
package main

import (
	"bytes"
	"fmt"
	"net"
	"os"
	"os/exec"
	"strings"
	"sync"
	"sync/atomic"
	"time"

	"github.com/go-logr/logr"
	"go.minekube.com/gate/pkg/edition/java/lite"
	"go.minekube.com/gate/pkg/edition/java/lite/config"

	"verifharness/lib"
)

type fakeConn struct{}

func (fakeConn) Read([]byte) (int, error)         { return 0, net.ErrClosed }
func (fakeConn) Write(b []byte) (int, error)      { return len(b), nil }
func (fakeConn) Close() error                     { return nil }
func (fakeConn) LocalAddr() net.Addr              { return &net.TCPAddr{IP: net.IPv4(127, 0, 0, 1), Port: 25565} }
func (fakeConn) RemoteAddr() net.Addr             { return &net.TCPAddr{IP: net.IPv4(127, 0, 0, 1), Port: 54321} }
func (fakeConn) SetDeadline(time.Time) error      { return nil }
func (fakeConn) SetReadDeadline(time.Time) error  { return nil }
func (fakeConn) SetWriteDeadline(time.Time) error { return nil }

var strategies = []struct {
	code uint64
	s    config.Strategy
}{{0, config.StrategySequential}, {0, ""}, {2, config.StrategyRoundRobin}, {3, config.StrategyLeastConnections}, {4, config.StrategyLowestLatency}}

var hostPool = []string{"a", "b", "c", "A", "B", "Example.com", "example.com", "EXAMPLE.COM", "10.0.0.1", "srv-1", "Srv-1"}
var portPool = []string{"", "", "", ":25565", ":25565", ":25566", ":1", ":0", ":025565", ":65536"}
var badPool = []string{":x", ":", ":25565x", ":port"}

func genBackend(r *lib.Rng, allowBad bool) string {
	if allowBad && r.Chance(1, 6) {
		return r.PickS(hostPool...) + r.PickS(badPool...)
	}
	if r.Chance(1, 25) {
		return r.PickS("a:b:c", "A:B:C", "::1")
	}
	return r.PickS(hostPool...) + r.PickS(portPool...)
}

func genBackends(r *lib.Rng) []string {
	n := r.Pick(1, 2, 2, 3, 3, 3, 4, 5)
	kind := r.Intn(4) // 0: distinct hosts (mostly alias free), 1..2: free mix, 3: free mix with unparsable entries
	var out []string
	for i := 0; i < n; i++ {
		switch kind {
		case 0:
			out = append(out, []string{"a", "b", "c", "srv-1", "10.0.0.1"}[i]+r.PickS("", ":25565", ":25566", ":1"))
		default:
			out = append(out, genBackend(r, kind == 3))
		}
	}
	return out
}

type clock struct{ t atomic.Int64 }

func (c *clock) tick() int64 { return c.t.Add(1) }

func call(op, ret string, inv, res int64) string {
	return lib.App("mkCall", op, ret, lib.Z(inv), lib.Z(res))
}

// within runs f with a watchdog.
func within(d time.Duration, f func()) bool {
	done := make(chan struct{})
	go func() { f(); close(done) }()
	select {
	case <-done:
		return true
	case <-time.After(d):
		return false
	}
}

func rrStress(goroutines, per int, strategy config.Strategy) (counts map[string]int, ok bool) {
	route := &config.Route{Host: []string{"*"}, Backend: []string{"a", "b", "c"}, Strategy: strategy}
	sm := lite.NewStrategyManager()
	res := make([]map[string]int, goroutines)
	ok = within(20*time.Second, func() {
		var wg sync.WaitGroup
		for g := 0; g < goroutines; g++ {
			res[g] = map[string]int{}
			wg.Add(1)
			go func(g int) {
				defer wg.Done()
				for i := 0; i < per; i++ {
					b, _, _ := sm.GetNextBackend(logr.Discard(), route, "rh", route.Backend)
					res[g][b]++
				}
			}(g)
		}
		wg.Wait()
	})
	counts = map[string]int{}
	if ok {
		for _, m := range res {
			for k, v := range m {
				counts[k] += v
			}
		}
	}
	return counts, ok
}

// raceChild is what a re-executed copy of this binary runs under the race detector.
func raceChild(kind string) {
	switch kind {
	case "random":
		rrStress(4, 400, config.StrategyRandom)
	default: // everything the property says is safe under concurrent connections
		sm := lite.NewStrategyManager()
		var wg sync.WaitGroup
		for _, st := range []config.Strategy{config.StrategyRoundRobin, config.StrategyLeastConnections, config.StrategyLowestLatency, config.StrategySequential} {
			route := &config.Route{Host: []string{"*"}, Backend: []string{"a", "b", "A:25565"}, Strategy: st}
			for g := 0; g < 4; g++ {
				wg.Add(1)
				go func() {
					defer wg.Done()
					for i := 0; i < 300; i++ {
						b, _, _ := sm.GetNextBackend(logr.Discard(), route, "rh", route.Backend)
						rel := sm.TrackConnection("rh", b)
						sm.RecordLatency(b, time.Duration(5+i))
						_ = sm.ActiveConnections()
						rel()
					}
				}()
			}
		}
		wg.Wait()
	}
}

func main() {
	if len(os.Args) >= 3 && os.Args[1] == "race-child" {
		raceChild(os.Args[2])
		return
	}
	f := lib.ParseFlags()
	rng := lib.NewRng(f.Seed)
	out := lib.NewOut("C30", f)
	out.Imports = "From Verif Require Import Base.Lin Model.Strategy.\n"
	out.Rule = "seq: histories of 3-9 operations on one fresh StrategyManager (TrackConnection, release, RecordLatency with latencies >= 1ns, ActiveConnections, connection attempts = the real nextBackend iterator called until exhaustion (at most len+2 calls, all dials fail) or until a scripted successful dial, then tracked) over backend lists of 1-5 entries drawn from hosts in three spellings x {no port, :25565, :25566, :1, :0, :025565, :65536} plus multi-colon and (one list kind in four) unparsable 'host:x' entries, strategies sequential/''/round-robin/least-connections/lowest-latency; canon: canonicalBackendAddress on the same pool; forward: 2-4 real lite.Forward calls per case over loopback TCP on one StrategyManager (2-3 backends that serve / refuse / reset after the handshake / close mid-pipe; client with no, some, failing, or 64 KiB late buffered bytes; sequential or least-connections), ActiveConnections after every Forward settles or returns and at quiescence, then the least-connections order through the real iterator; count: 3 goroutines x 2-3 Track/ActiveConnections/release calls + a final read after join; rr: 3 goroutines x 2-3 round-robin selections on one route; balance: 8 goroutines x 2000 selections; distinct = distinct Coq term; non-trivial = an attempt over >=2 backends, or a concurrent history with >=2 overlapping calls"

	// ---------- canonical form
	addCanon := func(b string) {
		obs := lite.VerifCanonicalBackendAddress(b)
		out.Add(lib.App("CCanon", lib.Str(b), lib.Str(obs)), map[string]any{"kind": "canon", "backend": b, "observed": obs}, false, "kind=canon")
	}
	for _, b := range []string{"Example.com", "example.com:25565", "EXAMPLE.COM:25565", "a:b:c", "A:x", "a:025565", "a:0", "a:65536", "a:", ":25565", ""} {
		addCanon(b)
	}
	for i := 0; i < f.Count(60); i++ {
		addCanon(genBackend(rng, true))
	}

	// ---------- sequential histories
	type tok struct {
		id      int
		rh, b   string
		release func()
	}
	runSeq := func(r *lib.Rng, script func(r *lib.Rng, emit func(kind string, args ...any))) {
		sm := lite.NewStrategyManager()
		var ops, obs []string
		var desc []any
		var open []tok
		nextID := 0
		nontrivial := false
		tags := map[string]bool{"kind=seq": true}
		emit := func(kind string, args ...any) {
			switch kind {
			case "track":
				rh, b := args[0].(string), args[1].(string)
				rel := sm.TrackConnection(rh, b)
				open = append(open, tok{nextID, rh, b, rel})
				ops = append(ops, lib.App("OTrack", lib.N(uint64(nextID)), lib.Str(rh), lib.Str(b)))
				obs = append(obs, "BNone")
				desc = append(desc, map[string]any{"op": "track", "id": nextID, "routeHost": rh, "backend": b})
				nextID++
			case "release":
				if len(open) == 0 {
					return
				}
				i := args[0].(int) % len(open)
				t := open[i]
				open = append(open[:i], open[i+1:]...)
				t.release()
				ops = append(ops, lib.App("ORelease", lib.N(uint64(t.id))))
				obs = append(obs, "BNone")
				desc = append(desc, map[string]any{"op": "release", "id": t.id})
			case "latency":
				b, ns := args[0].(string), args[1].(int)
				sm.RecordLatency(b, time.Duration(ns))
				ops = append(ops, lib.App("OLatency", lib.Str(b), lib.N(uint64(ns))))
				obs = append(obs, "BNone")
				desc = append(desc, map[string]any{"op": "latency", "backend": b, "ns": ns})
			case "active":
				n := sm.ActiveConnections()
				ops = append(ops, "OActive")
				obs = append(obs, lib.App("BActive", lib.N(uint64(n))))
				desc = append(desc, map[string]any{"op": "active", "observed": n})
			case "attempt":
				st, pat, bs, calls := args[0].(int), args[1].(string), args[2].([]string), args[3].(int)
				route := config.Route{Host: []string{pat}, Backend: append([]string{}, bs...), Strategy: strategies[st].s}
				rh, next := lite.VerifNextBackendC30([]config.Route{route}, pat, sm, fakeConn{})
				var ys []string
				ended := false
				if next == nil {
					out.GoViolation(map[string]any{"known": nil, "what": "findRoute returned no iterator for a route with backends", "pattern": pat, "backends": bs})
					return
				}
				for i := 0; i < calls; i++ {
					b, ok := next()
					if !ok {
						ended = true
						break
					}
					ys = append(ys, b)
				}
				ops = append(ops, lib.App("OAttempt", lib.N(strategies[st].code), lib.Str(rh), lib.ListOf(bs, lib.Str), lib.N(uint64(calls))))
				obs = append(obs, lib.App("BAttempt", lib.ListOf(ys, lib.Str), lib.Bool(ended)))
				desc = append(desc, map[string]any{"op": "attempt", "strategy": string(strategies[st].s), "routeHost": rh, "backends": bs, "calls": calls, "yields": ys, "ended": ended})
				if len(bs) >= 2 {
					nontrivial = true
				}
				tags["strategy="+string(strategies[st].s)] = true
				if !ended && len(ys) > 0 && calls < len(bs)+2 {
					// scripted: the last yielded backend's dial succeeded; Forward then tracks it
					args[4].(func(string, string))(rh, ys[len(ys)-1])
				}
			}
		}
		script(r, emit)
		var tl []string
		for t := range tags {
			tl = append(tl, t)
		}
		out.Add(lib.App("CSeq", lib.List(ops), lib.List(obs)), map[string]any{"kind": "seq", "ops": desc}, nontrivial, tl...)
	}

	// fixed corpus: the recorded findings
	runSeq(rng.Fork(), func(r *lib.Rng, emit func(string, ...any)) {
		emit("attempt", 0, "h.test", []string{"Example.com", "example.com:25565", "EXAMPLE.COM:25565"}, 5, func(string, string) {})
	})
	runSeq(rng.Fork(), func(r *lib.Rng, emit func(string, ...any)) {
		emit("attempt", 0, "h.test", []string{"a:b.internal", "fallback:25565"}, 4, func(string, string) {})
	})
	runSeq(rng.Fork(), func(r *lib.Rng, emit func(string, ...any)) {
		emit("attempt", 2, "h.test", []string{"a", "a:25565", "b"}, 5, func(string, string) {})
		emit("attempt", 2, "h.test", []string{"a", "a:25565", "b"}, 5, func(string, string) {})
	})
	nSeq := f.Count(330)
	for i := 0; i < nSeq; i++ {
		runSeq(rng.Fork(), func(r *lib.Rng, emit func(string, ...any)) {
			pats := []string{"h.test", "H.test", "g.test"}
			lists := [][]string{genBackends(r), genBackends(r)}
			nops := r.Range(3, 9)
			for j := 0; j < nops; j++ {
				switch r.Intn(10) {
				case 0, 1:
					emit("track", r.PickS(pats...), r.PickS(lists[r.Intn(2)]...))
				case 2:
					emit("release", r.Intn(8))
				case 3, 4:
					emit("latency", r.PickS(lists[r.Intn(2)]...), r.Pick(1, 5, 5, 20, 1000000, 7))
				case 5:
					emit("active")
				default:
					bs := lists[r.Intn(2)]
					calls := len(bs) + 2
					if r.Chance(1, 2) {
						calls = r.Range(1, len(bs))
					}
					emit("attempt", r.Intn(len(strategies)), r.PickS(pats...), bs, calls, func(rh, b string) { emit("track", rh, b) })
				}
			}
			emit("active")
		})
	}

	// ---------- the real lite.Forward over loopback TCP
	runForwardCase(out, rng.Fork(), true)
	for i := 0; i < f.Count(10); i++ {
		runForwardCase(out, rng.Fork(), false)
	}

	// ---------- concurrent connection counters (real goroutines, logical clock, Lin in Coq)
	nCount := f.Count(50)
	for i := 0; i < nCount; i++ {
		r := rng.Fork()
		sm := lite.NewStrategyManager()
		var clk clock
		const G = 3
		scripts := make([][]int, G) // 0 track, 1 release (own, most recent), 2 read
		keys := make([][2]string, G)
		for g := 0; g < G; g++ {
			keys[g] = [2]string{r.PickS("h.test", "H.test", "g.test"), r.PickS("a", "A", "a:25565", "b")}
			switch r.Intn(4) {
			case 0:
				scripts[g] = []int{0, 2, 1}
			case 1:
				scripts[g] = []int{0, 1, 2}
			case 2:
				scripts[g] = []int{2, 0, 1}
			default:
				scripts[g] = []int{0, 1}
			}
		}
		hist := make([][]string, G)
		var descs [][]any = make([][]any, G)
		ok := within(10*time.Second, func() {
			var wg sync.WaitGroup
			start := make(chan struct{})
			for g := 0; g < G; g++ {
				wg.Add(1)
				go func(g int) {
					defer wg.Done()
					<-start
					var rel func()
					for _, o := range scripts[g] {
						inv := clk.tick()
						switch o {
						case 0:
							rel = sm.TrackConnection(keys[g][0], keys[g][1])
							res := clk.tick()
							hist[g] = append(hist[g], call("CTrack", "0", inv, res))
							descs[g] = append(descs[g], []any{"track", keys[g], inv, res})
						case 1:
							rel()
							res := clk.tick()
							hist[g] = append(hist[g], call("CRelease", "0", inv, res))
							descs[g] = append(descs[g], []any{"release", inv, res})
						default:
							n := sm.ActiveConnections()
							res := clk.tick()
							hist[g] = append(hist[g], call("CRead", lib.N(uint64(n)), inv, res))
							descs[g] = append(descs[g], []any{"read", n, inv, res})
						}
					}
				}(g)
			}
			close(start)
			wg.Wait()
		})
		if !ok {
			out.GoViolation(map[string]any{"known": nil, "what": "TrackConnection/ActiveConnections goroutines did not finish within 10s", "scripts": scripts})
			continue
		}
		var all []string
		var alld []any
		for g := 0; g < G; g++ {
			all = append(all, hist[g]...)
			alld = append(alld, descs[g])
		}
		inv := clk.tick()
		n := sm.ActiveConnections()
		res := clk.tick()
		all = append(all, call("CRead", lib.N(uint64(n)), inv, res))
		alld = append(alld, []any{"final read", n})
		out.Add(lib.App("CCount", lib.List(all)), map[string]any{"kind": "count", "history": alld}, true, "kind=count")
	}

	// ---------- concurrent round-robin selections
	nRR := f.Count(50)
	pos := map[string]int{"a": 0, "b": 1, "c": 2}
	for i := 0; i < nRR; i++ {
		r := rng.Fork()
		sm := lite.NewStrategyManager()
		route := &config.Route{Host: []string{"*"}, Backend: []string{"a", "b", "c"}, Strategy: config.StrategyRoundRobin}
		var clk clock
		const G = 3
		per := make([]int, G)
		for g := range per {
			per[g] = r.Range(2, 3)
		}
		hist := make([][]string, G)
		descs := make([][]any, G)
		ok := within(10*time.Second, func() {
			var wg sync.WaitGroup
			start := make(chan struct{})
			for g := 0; g < G; g++ {
				wg.Add(1)
				go func(g int) {
					defer wg.Done()
					<-start
					for k := 0; k < per[g]; k++ {
						inv := clk.tick()
						b, _, _ := sm.GetNextBackend(logr.Discard(), route, "rh", route.Backend)
						res := clk.tick()
						p, known := pos[b]
						if !known {
							p = 99
						}
						hist[g] = append(hist[g], call("tt", lib.N(uint64(p)), inv, res))
						descs[g] = append(descs[g], []any{b, inv, res})
					}
				}(g)
			}
			close(start)
			wg.Wait()
		})
		if !ok {
			out.GoViolation(map[string]any{"known": nil, "what": "round-robin goroutines did not finish within 10s"})
			continue
		}
		var all []string
		var alld []any
		for g := 0; g < G; g++ {
			all = append(all, hist[g]...)
			alld = append(alld, descs[g])
		}
		out.Add(lib.App("CRR", lib.N(3), lib.List(all)), map[string]any{"kind": "rr", "history": alld}, true, "kind=rr")
	}

	// ---------- balance of many concurrent round-robin selections
	for i := 0; i < 3; i++ {
		counts, ok := rrStress(8, 2000, config.StrategyRoundRobin)
		if !ok {
			out.GoViolation(map[string]any{"known": nil, "what": "round-robin stress did not finish within 20s"})
			continue
		}
		cs := []uint64{uint64(counts["a"]), uint64(counts["b"]), uint64(counts["c"])}
		other := 16000 - counts["a"] - counts["b"] - counts["c"]
		if other != 0 {
			out.GoViolation(map[string]any{"known": nil, "what": "round-robin returned something that is not a backend of the route", "counts": counts})
		}
		out.Add(lib.App("CBalance", lib.N(3), lib.N(16000), lib.N(8), lib.ListOf(cs, lib.N)),
			map[string]any{"kind": "balance", "goroutines": 8, "calls": 16000, "counts": counts}, true, "kind=balance")
	}

	// ---------- race detector (only in a -race build, i.e. the thorough tier): children of this binary
	if raceBuild {
		self, _ := os.Executable()
		for _, kind := range []string{"safe", "random"} {
			cmd := exec.Command(self, "race-child", kind)
			cmd.Env = append(os.Environ(), "GORACE=halt_on_error=1 exitcode=66")
			var stderr bytes.Buffer
			cmd.Stderr = &stderr
			done := make(chan error, 1)
			go func() { done <- cmd.Run() }()
			var err error
			select {
			case err = <-done:
			case <-time.After(120 * time.Second):
				_ = cmd.Process.Kill()
				out.GoViolation(map[string]any{"known": nil, "what": "race child " + kind + " hung"})
				continue
			}
			rep := stderr.String()
			raced := strings.Contains(rep, "DATA RACE")
			out.Extra("race_child_"+kind, map[string]any{"data_race": raced, "exit": fmt.Sprint(err)})
			if raced {
				var known any // C30-4 (rng race) is fixed (968926e): a race report is a violation again
				if len(rep) > 1500 {
					rep = rep[:1500]
				}
				out.GoViolation(map[string]any{"known": known, "what": "data race reported by the race detector (" + kind + " strategies)", "report": rep})
			} else if err != nil {
				out.GoViolation(map[string]any{"known": nil, "what": "race child " + kind + " failed: " + fmt.Sprint(err), "stderr": rep})
			}
		}
	}
	out.Extra("race_build", raceBuild)
	out.Finish()
}
