// Forward-level cases: the real lite.Forward over loopback TCP.  What is judged is the same
// sequential model as for the direct TrackConnection cases: a Forward that reaches the pipe is
// "OTrack" when the harness sees it open and "ORelease" when Forward has returned; every other
// exit path of Forward (no route, all dials failed, hand-over of the client's buffered bytes
// failed) contributes nothing, so ActiveConnections() must be unchanged after it returns.
package main

import (
	"bufio"
	"context"
	"errors"
	"fmt"
	"io"
	"net"
	"sync"
	"time"

	"github.com/go-logr/logr"
	"go.minekube.com/gate/pkg/edition/java/lite"
	"go.minekube.com/gate/pkg/edition/java/lite/config"
	"go.minekube.com/gate/pkg/edition/java/netmc"
	"go.minekube.com/gate/pkg/edition/java/proto/packet"
	"go.minekube.com/gate/pkg/gate/proto"

	"verifharness/lib"
)

type fwdClient struct {
	netmc.MinecraftConn
	conn         net.Conn
	readBuffered func() ([]byte, error)
}

func (c *fwdClient) Conn() net.Conn                { return c.conn }
func (c *fwdClient) Context() context.Context      { return context.Background() }
func (c *fwdClient) Close() error                  { return c.conn.Close() }
func (c *fwdClient) ReadBuffered() ([]byte, error) { return c.readBuffered() }

// backend behaviours
const (
	bServe    = iota // accept, read the handshake, swallow everything until the peer closes
	bRefuse          // closed port
	bReset           // accept, read the handshake, reset the connection
	bCloseMid        // accept, read the handshake and a little more, then close
)

var bNames = []string{"serve", "refuse", "reset-after-handshake", "close-mid-pipe"}

type fwdBackend struct {
	kind  int
	addr  string
	ln    net.Listener
	mu    sync.Mutex
	acc   int // accepted connections
}

func readHandshake(conn net.Conn) error {
	rd := bufio.NewReader(conn)
	n, err := rd.ReadByte() // the payload is < 128 bytes: one-byte VarInt
	if err != nil {
		return err
	}
	_, err = io.ReadFull(rd, make([]byte, n))
	return err
}

func newFwdBackend(kind int) *fwdBackend {
	ln, err := net.Listen("tcp", "127.0.0.1:0")
	if err != nil {
		panic(err)
	}
	b := &fwdBackend{kind: kind, addr: ln.Addr().String(), ln: ln}
	if kind == bRefuse {
		_ = ln.Close()
		return b
	}
	go func() {
		for {
			conn, err := ln.Accept()
			if err != nil {
				return
			}
			b.mu.Lock()
			b.acc++
			b.mu.Unlock()
			go func() {
				_ = conn.SetDeadline(time.Now().Add(20 * time.Second))
				_ = readHandshake(conn)
				switch b.kind {
				case bServe:
					_, _ = io.Copy(io.Discard, conn)
					_ = conn.Close()
				case bReset:
					_ = conn.(*net.TCPConn).SetLinger(0) // RST on close
					_ = conn.Close()
				case bCloseMid:
					_, _ = io.ReadFull(conn, make([]byte, 8))
					_ = conn.Close()
				}
			}()
		}
	}()
	return b
}

func (b *fwdBackend) accepted() int { b.mu.Lock(); defer b.mu.Unlock(); return b.acc }

type fwdRun struct {
	id      int
	done    chan struct{}
	peer    net.Conn
	tracked bool
	backend string
}

// runForwardCase drives one StrategyManager through a script of real Forwards.
func runForwardCase(out *lib.Out, r *lib.Rng, forceLeak bool) {
	const host = "play.example.test"
	nb := r.Range(2, 3)
	kinds := make([]int, nb)
	for i := range kinds {
		kinds[i] = r.Pick(bServe, bServe, bRefuse, bReset, bCloseMid)
	}
	if forceLeak {
		kinds[0] = bReset // the hand-over failure path on the first backend, a healthy one behind it
		kinds[1] = bServe
	}
	backends := make([]*fwdBackend, nb)
	var addrs []string
	for i := range backends {
		backends[i] = newFwdBackend(kinds[i])
		addrs = append(addrs, backends[i].addr)
	}
	defer func() {
		for _, b := range backends {
			_ = b.ln.Close()
		}
	}()
	stIdx := r.Pick(0, 3) // sequential or least-connections (index into strategies)
	route := config.Route{Host: []string{host}, Backend: addrs, Strategy: strategies[stIdx].s}
	routes := []config.Route{route}
	sm := lite.NewStrategyManager()

	var ops, obs []string
	var desc []any
	emitActive := func(what string) {
		n := sm.ActiveConnections()
		ops = append(ops, "OActive")
		obs = append(obs, lib.App("BActive", lib.N(uint64(n))))
		desc = append(desc, map[string]any{"op": "active", "after": what, "observed": n})
	}
	nextID := 0
	var open []*fwdRun

	isDone := func(fr *fwdRun) bool {
		select {
		case <-fr.done:
			return true
		default:
			return false
		}
	}
	snapshot := func() []int {
		before := make([]int, nb)
		for i, b := range backends {
			before[i] = b.accepted()
		}
		return before
	}
	reached := func(before []int) string {
		for i, b := range backends {
			if b.accepted() > before[i] {
				return b.addr
			}
		}
		return ""
	}
	launch := func(clientKind int) *fwdRun {
		clientSide, peer := net.Pipe()
		fr := &fwdRun{id: nextID, done: make(chan struct{}), peer: peer}
		nextID++
		var rb func() ([]byte, error)
		switch clientKind {
		case 0:
			rb = func() ([]byte, error) { return nil, nil }
		case 1:
			rb = func() ([]byte, error) { return []byte("pipelined-login-bytes"), nil }
		case 2:
			rb = func() ([]byte, error) { return nil, errors.New("scripted ReadBuffered failure") }
		default: // 64 KiB pipelined behind the handshake, handed over after a resetting backend has reset
			rb = func() ([]byte, error) {
				time.Sleep(150 * time.Millisecond)
				return make([]byte, 64<<10), nil
			}
		}
		client := &fwdClient{conn: clientSide, readBuffered: rb}
		go func() {
			defer close(fr.done)
			lite.Forward(2*time.Second, routes, logr.Discard(), client,
				&packet.Handshake{ServerAddress: host, Port: 25565, NextStatus: 2},
				&proto.PacketContext{Payload: []byte{0x00, 0x01, 0x02, 0x03}}, sm)
		}()
		return fr
	}
	// settle: every Forward of the batch has returned (it never reached the pipe) or the count
	// covers all that are still running and they still run a little later (they are piping)
	settle := func(batch []*fwdRun, before []int) {
		deadline := time.Now().Add(4 * time.Second)
		for time.Now().Before(deadline) {
			running := 0
			for _, fr := range batch {
				if !isDone(fr) {
					running++
				}
			}
			if running == 0 {
				break
			}
			if int(sm.ActiveConnections()) >= len(open)+running {
				time.Sleep(100 * time.Millisecond)
				break
			}
			time.Sleep(2 * time.Millisecond)
		}
		addr := reached(before)
		for _, fr := range batch {
			fr.tracked = !isDone(fr)
			fr.backend = addr
		}
	}
	start := func(clientKind int) *fwdRun {
		before := snapshot()
		fr := launch(clientKind)
		settle([]*fwdRun{fr}, before)
		return fr
	}
	finish := func(fr *fwdRun) bool {
		_ = fr.peer.Close()
		select {
		case <-fr.done:
			return true
		case <-time.After(10 * time.Second):
			return false
		}
	}

	nsteps := r.Range(2, 4)
	hung := false
	for s := 0; s < nsteps && !hung; s++ {
		ck := r.Pick(0, 1, 1, 2, 3, 3)
		if forceLeak && s == 0 {
			ck = 2 // deterministic hand-over failure: ReadBuffered returns an error
		}
		fr := start(ck)
		d := map[string]any{"op": "forward", "id": fr.id, "client": []string{"no buffered bytes", "buffered bytes", "ReadBuffered error", "64 KiB after backend reset"}[ck], "reached_backend": fr.backend, "piping": fr.tracked}
		desc = append(desc, d)
		if fr.tracked {
			if fr.backend == "" {
				out.GoViolation(map[string]any{"known": nil, "what": "Forward is piping but no fake backend accepted a connection", "case": desc})
				fr.backend = addrs[0]
			}
			ops = append(ops, lib.App("OTrack", lib.N(uint64(fr.id)), lib.Str(host), lib.Str(fr.backend)))
			obs = append(obs, "BNone")
			open = append(open, fr)
		}
		emitActive(fmt.Sprintf("forward %d settled", fr.id))
		// sometimes close one of the open forwards
		if len(open) > 0 && r.Chance(1, 2) {
			i := r.Intn(len(open))
			fr := open[i]
			open = append(open[:i], open[i+1:]...)
			if !finish(fr) {
				hung = true
				out.GoViolation(map[string]any{"known": nil, "what": "Forward did not return within 10s after the client closed", "case": desc})
				break
			}
			ops = append(ops, lib.App("ORelease", lib.N(uint64(fr.id))))
			obs = append(obs, "BNone")
			desc = append(desc, map[string]any{"op": "client closed, Forward returned", "id": fr.id})
			emitActive(fmt.Sprintf("forward %d returned", fr.id))
		}
	}
	// a concurrent batch (sequential strategy: all of them reach the first backend that accepts)
	if !hung && stIdx == 0 && r.Chance(2, 3) {
		before := snapshot()
		kindsB := []int{r.Pick(0, 1), 2, r.Pick(0, 1, 2)}
		batch := make([]*fwdRun, len(kindsB))
		var wg sync.WaitGroup
		var lmu sync.Mutex
		for i := range kindsB {
			wg.Add(1)
			go func(i int) {
				defer wg.Done()
				lmu.Lock() // launch only allocates ids; the Forwards themselves run concurrently
				batch[i] = launch(kindsB[i])
				lmu.Unlock()
			}(i)
		}
		wg.Wait()
		settle(batch, before)
		var d []any
		for i, fr := range batch {
			d = append(d, map[string]any{"id": fr.id, "client_kind": kindsB[i], "piping": fr.tracked})
			if fr.tracked {
				if fr.backend == "" {
					out.GoViolation(map[string]any{"known": nil, "what": "Forward is piping but no fake backend accepted a connection", "case": desc})
					fr.backend = addrs[0]
				}
				ops = append(ops, lib.App("OTrack", lib.N(uint64(fr.id)), lib.Str(host), lib.Str(fr.backend)))
				obs = append(obs, "BNone")
				open = append(open, fr)
			}
		}
		desc = append(desc, map[string]any{"op": "concurrent forwards", "batch": d, "reached_backend": batch[0].backend})
		emitActive("concurrent batch settled")
	}
	// quiescence: close everything, all Forwards return
	for _, fr := range open {
		if !finish(fr) {
			out.GoViolation(map[string]any{"known": nil, "what": "Forward did not return within 10s after the client closed", "case": desc})
			return
		}
		ops = append(ops, lib.App("ORelease", lib.N(uint64(fr.id))))
		obs = append(obs, "BNone")
	}
	emitActive("all forwards returned")
	// per-backend strategy counters through the public accessor
	for _, a := range addrs {
		if c := sm.GetOrCreateCounter(a); c != nil && c.Load() != 0 {
			desc = append(desc, map[string]any{"op": "counter", "backend": a, "observed": c.Load()})
		}
	}
	// next least-connections order at equal (zero) load = config order, through the real iterator
	rh, next := lite.VerifNextBackendC30([]config.Route{{Host: []string{host}, Backend: addrs, Strategy: config.StrategyLeastConnections}}, host, sm, fakeConn{})
	var ys []string
	ended := false
	if next != nil {
		for i := 0; i < nb+2; i++ {
			b, ok := next()
			if !ok {
				ended = true
				break
			}
			ys = append(ys, b)
		}
	}
	ops = append(ops, lib.App("OAttempt", lib.N(3), lib.Str(rh), lib.ListOf(addrs, lib.Str), lib.N(uint64(nb+2))))
	obs = append(obs, lib.App("BAttempt", lib.ListOf(ys, lib.Str), lib.Bool(ended)))
	kn := make([]string, nb)
	for i, k := range kinds {
		kn[i] = bNames[k]
	}
	desc = append(desc, map[string]any{"op": "least-connections order at quiescence", "yields": ys, "backends": addrs, "behaviours": kn})
	out.Add(lib.App("CSeq", lib.List(ops), lib.List(obs)),
		map[string]any{"kind": "forward", "strategy": string(strategies[stIdx].s), "behaviours": kn, "ops": desc}, true, "kind=forward")
}

