// C05 harness: every registered packet id x sampled protocols x hostile payloads, decoded through the REAL
// codec.Decoder in a CHILD process (re-exec of this binary under `ulimit -v` and a watchdog), so that a fatal
// crash, an out-of-memory kill or a hang is an observation and not a dead check.
package main

import (
	"bufio"
	"bytes"
	"compress/zlib"
	"encoding/hex"
	"encoding/json"
	"errors"
	"fmt"
	"os"
	"os/exec"
	"runtime"
	"runtime/debug"
	"sort"
	"strings"
	"time"

	"github.com/go-logr/logr"
	"go.minekube.com/brigodier"

	"go.minekube.com/gate/pkg/edition/java/proto/codec"
	gbrig "go.minekube.com/gate/pkg/edition/java/proto/packet/brigadier"
	"go.minekube.com/gate/pkg/edition/java/proto/state"
	"go.minekube.com/gate/pkg/edition/java/proto/util"
	"go.minekube.com/gate/pkg/edition/java/proto/version"
	"go.minekube.com/gate/pkg/gate/proto"

	"verifharness/lib"
	"verifharness/pktgen"
)

type job struct {
	State string `json:"state"`
	Dir   int    `json:"dir"`
	Proto int    `json:"proto"`
	ID    int    `json:"id"`
	Body  string `json:"body"` // hex
	Kind  string `json:"kind"`
	Type  string `json:"type"`
	// frame-level jobs: Frame is the complete wire data (length prefix included) handed to a decoder with compression enabled
	Frame     string `json:"frame,omitempty"`
	Threshold int    `json:"threshold,omitempty"`
}

type result struct {
	I       int    `json:"i"`
	Outcome string `json:"outcome"` // packet | error | panic
	Alloc   uint64 `json:"alloc"`
	Millis  int64  `json:"millis"`
	Detail  string `json:"detail,omitempty"`
}

var states = map[string]*state.Registry{"Handshake": state.Handshake, "Status": state.Status, "Login": state.Login, "Config": state.Config, "Play": state.Play}

func frameOf(id int, body []byte) []byte {
	var pl bytes.Buffer
	_ = util.WriteVarInt(&pl, id)
	pl.Write(body)
	var fr bytes.Buffer
	_ = util.WriteVarInt(&fr, pl.Len())
	fr.Write(pl.Bytes())
	return fr.Bytes()
}

// ---------- child ----------

func decodeOne(j job) (res result) {
	body, _ := hex.DecodeString(j.Body)
	fr := frameOf(j.ID, body)
	dir := proto.Direction(j.Dir)
	if j.Frame != "" {
		fr, _ = hex.DecodeString(j.Frame)
	}
	d := codec.NewDecoder(bytes.NewReader(fr), dir, logr.Discard())
	d.SetProtocol(proto.Protocol(j.Proto))
	d.SetState(states[j.State])
	if j.Frame != "" {
		d.SetCompressionThreshold(j.Threshold)
	}
	var m0, m1 runtime.MemStats
	runtime.ReadMemStats(&m0)
	t0 := time.Now()
	func() {
		defer func() {
			if r := recover(); r != nil {
				res.Outcome = "panic"
				res.Detail = fmt.Sprint(r)
			}
		}()
		_, err := d.Decode()
		switch {
		case err == nil || errors.Is(err, proto.ErrDecoderLeftBytes):
			res.Outcome = "packet"
		default:
			res.Outcome = "error"
			res.Detail = err.Error()
			if len(res.Detail) > 200 {
				res.Detail = res.Detail[:200]
			}
		}
	}()
	res.Millis = time.Since(t0).Milliseconds()
	runtime.ReadMemStats(&m1)
	res.Alloc = m1.TotalAlloc - m0.TotalAlloc
	return
}

func child(jobsPath, outPath string, from int) {
	debug.SetMemoryLimit(3 << 30)
	f, err := os.Open(jobsPath)
	if err != nil {
		os.Exit(3)
	}
	var jobs []job
	if err := json.NewDecoder(bufio.NewReaderSize(f, 1<<20)).Decode(&jobs); err != nil {
		os.Exit(3)
	}
	out, err := os.OpenFile(outPath, os.O_APPEND|os.O_WRONLY|os.O_CREATE, 0o644)
	if err != nil {
		os.Exit(3)
	}
	for i := from; i < len(jobs); i++ {
		fmt.Fprintf(out, "S %d\n", i) // start marker: if we die now, the parent knows which payload did it
		r := decodeOne(jobs[i])
		r.I = i
		b, _ := json.Marshal(r)
		fmt.Fprintf(out, "R %s\n", b)
	}
	fmt.Fprintf(out, "D\n")
	out.Close()
}

// ---------- parent ----------

func varint(v int) []byte {
	var b bytes.Buffer
	_ = util.WriteVarInt(&b, v)
	return b.Bytes()
}

// mutations of a valid body: every offset at which a VarInt can be read gets it replaced by -1, 2^31-1, remaining+1
func mutations(rng *lib.Rng, body []byte, max int, huge int) [][]byte {
	var cands []int
	for i := 0; i < len(body) && i < 96; i++ {
		cands = append(cands, i)
	}
	var out [][]byte
	for k := 0; k < max && len(cands) > 0; k++ {
		j := rng.Intn(len(cands))
		i := cands[j]
		cands = append(cands[:j], cands[j+1:]...)
		_, n, err := util.ReadVarIntReturnN(bytes.NewReader(body[i:]))
		if err != nil || n == 0 {
			continue
		}
		repl := [][]byte{varint(-1), varint(huge), varint(len(body) - i - n + 1)}[rng.Intn(3)]
		m := append(append(append([]byte{}, body[:i]...), repl...), body[i+n:]...)
		out = append(out, m)
	}
	return out
}

func nbtNest(depth int, list bool) []byte {
	var b bytes.Buffer
	if list {
		// nameless root: TAG_List of TAG_List ... each with one element
		b.WriteByte(9)
		for i := 0; i < depth; i++ {
			b.Write([]byte{9, 0, 0, 0, 1})
		}
		b.Write([]byte{0, 0, 0, 0, 0})
		return b.Bytes()
	}
	b.WriteByte(10)
	for i := 0; i < depth; i++ {
		b.Write([]byte{10, 0, 1, 'a'})
	}
	for i := 0; i <= depth; i++ {
		b.WriteByte(0)
	}
	return b.Bytes()
}

// brigadier node lists: shapes that stress the graph resolution of AvailableCommands.Decode
func commandBodies(rng *lib.Rng, n int) map[string][]byte {
	out := map[string][]byte{}
	mk := func(name string, node func(i int, b *bytes.Buffer)) {
		var b bytes.Buffer
		b.Write(varint(n))
		for i := 0; i < n; i++ {
			node(i, &b)
		}
		b.Write(varint(0))
		out[name] = b.Bytes()
	}
	mk("flat", func(i int, b *bytes.Buffer) { b.Write([]byte{0, 0}) })
	mk("child-chain", func(i int, b *bytes.Buffer) {
		switch {
		case i == 0:
			b.Write([]byte{0, 1})
			b.Write(varint(1))
		case i+1 < n:
			b.Write([]byte{1, 1})
			b.Write(varint(i + 1))
			b.Write([]byte{1, 'a'})
		default:
			b.Write([]byte{1, 0, 1, 'a'})
		}
	})
	redirect := func(target func(i int) int) func(i int, b *bytes.Buffer) {
		return func(i int, b *bytes.Buffer) {
			t := target(i)
			switch {
			case i == 0:
				b.Write([]byte{0, 0})
			case t < 0:
				b.Write([]byte{1, 0, 1, 'a'})
			default:
				b.Write([]byte{9, 0})
				b.Write(varint(t))
				b.Write([]byte{1, 'a'})
			}
		}
	}
	mk("redirect-forward", redirect(func(i int) int {
		if i+1 < n {
			return i + 1
		}
		return -1
	}))
	mk("redirect-backward", redirect(func(i int) int {
		if i > 1 {
			return i - 1
		}
		return -1
	}))
	perm := rng.Perm(n)
	pos := make([]int, n)
	for k, v := range perm {
		pos[v] = k
	}
	mk("redirect-random-chain", redirect(func(i int) int {
		// node perm[k] redirects to perm[k+1]
		k := pos[i]
		if k+1 < n && perm[k+1] != 0 {
			return perm[k+1]
		}
		return -1
	}))
	mk("self-redirect", redirect(func(i int) int { return i }))
	return out
}

// compressedFrame builds VarInt(frame length) | VarInt(claimed uncompressed size) | zlib(real)
func compressedFrame(claimed int, real []byte) []byte {
	var z bytes.Buffer
	zw := zlib.NewWriter(&z)
	_, _ = zw.Write(real)
	_ = zw.Close()
	var inner bytes.Buffer
	inner.Write(varint(claimed))
	inner.Write(z.Bytes())
	var fr bytes.Buffer
	fr.Write(varint(inner.Len()))
	fr.Write(inner.Bytes())
	return fr.Bytes()
}

// parserNodeBodies: for EVERY registered argument property codec one AvailableCommands body
// [root -> one executable argument node "a" using that parser], built at the wire level; parsers with properties get
// them from brigadier.Encode of a representative type, the CrossStitch mod argument is written by hand in both id forms
func parserNodeBodies(p proto.Protocol) map[string][]byte {
	reps := map[string]brigodier.ArgumentType{
		"brigadier:bool": brigodier.Bool, "brigadier:float": &brigodier.Float32ArgumentType{Min: -1, Max: 5},
		"brigadier:double": &brigodier.Float64ArgumentType{Min: -1, Max: 5}, "brigadier:integer": &brigodier.Int32ArgumentType{Min: -3, Max: 9},
		"brigadier:long": &brigodier.Int64ArgumentType{Min: -3, Max: 9}, "brigadier:string": brigodier.StringPhrase,
		"minecraft:entity": gbrig.PlayerArgument, "minecraft:resource_or_tag": &gbrig.RegistryKeyArgumentType{Identifier: "minecraft:biome"},
		"minecraft:resource":            &gbrig.RegistryKeyArgumentType{Identifier: "minecraft:biome"},
		"minecraft:resource_or_tag_key": &gbrig.ResourceOrTagKeyArgumentType{Identifier: "minecraft:biome"},
		"minecraft:resource_key":        &gbrig.ResourceKeyArgumentType{Identifier: "minecraft:biome"},
		"minecraft:resource_selector":   &gbrig.ResourceSelectorArgumentType{Identifier: "minecraft:biome"},
	}
	out := map[string][]byte{}
	for _, id := range gbrig.VerifArgumentIDs() {
		var idw bytes.Buffer
		if p.GreaterEqual(version.Minecraft_1_19) {
			n, ok := gbrig.VerifArgumentWireID(id, p)
			if !ok || (n < 0 && id != "crossstitch:mod_argument") {
				continue // not defined at this protocol
			}
			idw.Write(varint(n))
		} else {
			_ = util.WriteString(&idw, id)
		}
		var arg bytes.Buffer // identifier + properties
		switch {
		case id == "crossstitch:mod_argument":
			arg.Write(idw.Bytes())
			if p.GreaterEqual(version.Minecraft_1_19) {
				arg.Write(varint(7)) // wrapped type id
			} else {
				_ = util.WriteString(&arg, "mymod:custom_arg")
			}
			_ = util.WriteBytes(&arg, []byte{1, 2, 3, 4, 5})
		case reps[id] != nil:
			if err := gbrig.Encode(&arg, reps[id], p); err != nil {
				arg.Reset()
				arg.Write(idw.Bytes())
			}
		case id == "minecraft:score_holder":
			arg.Write(idw.Bytes())
			arg.WriteByte(1)
		case id == "minecraft:time":
			arg.Write(idw.Bytes())
			if p.GreaterEqual(version.Minecraft_1_19_4) {
				arg.Write([]byte{0, 0, 0, 5})
			}
		default:
			arg.Write(idw.Bytes())
		}
		var b bytes.Buffer
		b.Write(varint(2))
		b.Write([]byte{0x00, 0x01, 0x01}) // root: flags, 1 child: node 1
		b.Write([]byte{0x06, 0x00})       // argument | executable, no children
		_ = util.WriteString(&b, "a")
		b.Write(arg.Bytes())
		b.Write(varint(0)) // root index
		out[id] = b.Bytes()
	}
	return out
}

// everyVarIntMutation: every offset at which a VarInt can be read, replaced by -1 / 2^26 / 2^31-1 / remaining+1
func everyVarIntMutation(body []byte, from int) [][]byte {
	var out [][]byte
	for i := from; i < len(body); i++ {
		_, n, err := util.ReadVarIntReturnN(bytes.NewReader(body[i:]))
		if err != nil || n == 0 {
			continue
		}
		for _, v := range []int{-1, 1 << 26, 1<<31 - 1, len(body) - i - n + 1} {
			out = append(out, append(append(append([]byte{}, body[:i]...), varint(v)...), body[i+n:]...))
		}
	}
	return out
}

func runChildren(self string, jobs []job, dir string, patience time.Duration) ([]result, []map[string]any) {
	jobsPath := dir + "/c05_jobs.json"
	outPath := dir + "/c05_results.txt"
	b, _ := json.Marshal(jobs)
	if err := os.WriteFile(jobsPath, b, 0o644); err != nil {
		panic(err)
	}
	os.Remove(outPath)
	results := make([]result, len(jobs))
	have := make([]bool, len(jobs))
	var goViol []map[string]any
	from := 0
	for from < len(jobs) {
		cmd := exec.Command("sh", "-c", fmt.Sprintf("ulimit -v 6291456; exec %q --child %q %q %d", self, jobsPath, outPath, from))
		cmd.Stderr = nil
		var stderr bytes.Buffer
		cmd.Stderr = &stderr
		if err := cmd.Start(); err != nil {
			panic(err)
		}
		done := make(chan error, 1)
		go func() { done <- cmd.Wait() }()
		// watchdog: progress = the results file grows; no growth for 40 s means a hang
		lastSize, lastChange := int64(-1), time.Now()
		if st, err := os.Stat(outPath); err == nil {
			lastSize = st.Size()
		}
		grew := false // this child has written something (it first has to load the job file)
		hung := false
		var werr error
	wait:
		for {
			select {
			case werr = <-done:
				break wait
			case <-time.After(500 * time.Millisecond):
				if st, err := os.Stat(outPath); err == nil && st.Size() != lastSize {
					lastSize, lastChange = st.Size(), time.Now()
					grew = true
				}
				limit := patience
				if !grew {
					limit = patience + 5*time.Minute // loading the job file comes first
				}
				if time.Since(lastChange) > limit {
					hung = true
					_ = cmd.Process.Kill()
					werr = <-done
					break wait
				}
			}
		}
		// read what the child managed to write
		started, finished := -1, false
		if f, err := os.Open(outPath); err == nil {
			sc := bufio.NewScanner(f)
			sc.Buffer(make([]byte, 1<<20), 1<<24)
			for sc.Scan() {
				line := sc.Text()
				switch {
				case strings.HasPrefix(line, "S "):
					fmt.Sscanf(line, "S %d", &started)
				case strings.HasPrefix(line, "R "):
					var r result
					if json.Unmarshal([]byte(line[2:]), &r) == nil && r.I >= 0 && r.I < len(jobs) {
						results[r.I], have[r.I] = r, true
					}
				case line == "D":
					finished = true
				}
			}
			f.Close()
		}
		if finished && werr == nil {
			break
		}
		// the child died or hung while decoding job `started`
		if started < 0 || started < from {
			panic(fmt.Sprintf("child failed before decoding anything: %v %s", werr, stderr.String()))
		}
		what := "crash"
		if hung {
			what = fmt.Sprintf("hang (no progress for %v)", patience)
		}
		se := stderr.String()
		if len(se) > 600 {
			se = se[:600]
		}
		goViol = append(goViol, map[string]any{"what": "decoding this payload in a child process ended in a " + what,
			"job": jobs[started], "job_index": started, "exit": fmt.Sprint(werr), "stderr": se})
		have[started] = false
		from = started + 1
	}
	var out []result
	for i := range jobs {
		if have[i] {
			out = append(out, results[i])
		}
	}
	return out, goViol
}

func main() {
	if len(os.Args) >= 5 && os.Args[1] == "--child" {
		from := 0
		fmt.Sscanf(os.Args[4], "%d", &from)
		child(os.Args[2], os.Args[3], from)
		return
	}
	f := lib.ParseFlags()
	rng := lib.NewRng(f.Seed)
	out := lib.NewOut("C05", f)
	out.Rule = "every registered (state, direction, id) at sampled protocols (min, 1.8, 1.13, 1.19.3, 1.20.2, max, first/last of the type): random bodies; a valid encoding and copies of it " +
		"with one VarInt replaced by -1 / 2^31-1 / remaining+1; truncations; deeply nested NBT for NBT-carrying types; large and adversarially ordered brigadier node lists; " +
		"FRAME-level bombs with compression enabled (threshold 0/64/256, both directions): zlib bodies of 4-64 MiB of zeros claiming threshold / 64 KiB / the cap; each decoded by codec.Decoder in a child process under ulimit -v 6 GiB with a 40 s no-progress watchdog; non-trivial = the decoder returned a packet or consumed a mutated length field (body longer than 1 byte)"
	frag, _ := pktgen.FragmentNames()

	regs := pktgen.All()
	sample := map[proto.Protocol]bool{}
	for _, v := range pktgen.SampleVersions(f.Tier == "thorough") {
		sample[v] = true
	}
	type sdt struct {
		st  string
		dir proto.Direction
		tn  string
	}
	lo, hi := map[sdt]proto.Protocol{}, map[sdt]proto.Protocol{}
	for _, r := range regs {
		k := sdt{r.StateName, r.Dir, r.Type.String()}
		if v, ok := lo[k]; !ok || r.Proto < v {
			lo[k] = r.Proto
		}
		if v, ok := hi[k]; !ok || r.Proto > v {
			hi[k] = r.Proto
		}
	}
	hiProto := regs[len(regs)-1].Proto
	for _, r := range regs {
		if r.Proto > hiProto {
			hiProto = r.Proto
		}
	}
	nMut, nRand := 3, 2
	if f.Tier != "quick" {
		nMut, nRand = 10, 4
	}
	parsersExercised := map[string]bool{}
	var jobs []job
	add := func(r pktgen.Reg, kind string, body []byte) {
		jobs = append(jobs, job{State: r.StateName, Dir: int(r.Dir), Proto: int(r.Proto), ID: int(r.ID), Body: hex.EncodeToString(body), Kind: kind, Type: r.Type.String()})
	}
	for _, r := range regs {
		tn := r.Type.String()
		if k := (sdt{r.StateName, r.Dir, tn}); !sample[r.Proto] && lo[k] != r.Proto && hi[k] != r.Proto {
			continue
		}
		cr := rng.Fork()
		huge := 1<<31 - 1
		for i := 0; i < nRand; i++ {
			add(r, "random", cr.Bytes(cr.Pick(0, 1, 2, 5, 17, 40, 300)))
		}
		g := &pktgen.G{R: cr, Proto: r.Proto, Dir: r.Dir, State: r.StateName}
		if pk, ok := pktgen.Gen(r.Type, g); ok {
			var b bytes.Buffer
			if err := util.RecoverFunc(func() error { return pk.Encode(r.Ctx(), &b) }); err == nil {
				body := b.Bytes()
				add(r, "valid", body)
				for _, m := range mutations(cr, body, nMut, huge) {
					add(r, "mutated-varint", m)
				}
				if len(body) > 1 {
					add(r, "truncated", body[:cr.Intn(len(body))])
					add(r, "truncated", body[:len(body)-1])
				}
			}
		}
		// a count / length bomb right at the start
		add(r, "bomb", varint(huge))
		add(r, "bomb", append(varint(1<<20), cr.Bytes(3)...))
		switch tn {
		case "packet.DialogShow", "packet.Disconnect", "chat.SystemChat", "title.Text", "packet.ServerData", "packet.JoinGame", "packet.Respawn":
			depth := 2000
			if f.Tier != "quick" {
				depth = 100000
			}
			pre := []byte{}
			if tn == "packet.DialogShow" && r.StateName == "Play" {
				pre = varint(0)
			}
			if tn == "packet.JoinGame" || tn == "packet.Respawn" {
				pre = []byte{0, 0, 0, 1, 0, 0, 0}
			}
			add(r, "nbt-nested-compound", append(append([]byte{}, pre...), nbtNest(depth, false)...))
			add(r, "nbt-nested-list", append(append([]byte{}, pre...), nbtNest(depth, true)...))
		case "packet.AvailableCommands":
			n := 3000
			if f.Tier != "quick" {
				n = 60000
			}
			names := []string{"flat", "child-chain", "redirect-forward", "redirect-backward", "redirect-random-chain", "self-redirect"}
			bodies := commandBodies(cr, n)
			for _, nm := range names {
				add(r, "brigadier-"+nm, bodies[nm])
			}
			// every registered brigadier parser (argument property codec): a valid node and all its length-field mutations
			// (at the oldest and newest protocol of the packet in the quick tier; the string-id form is used below 1.19)
			if f.Tier != "quick" || r.Proto == hiProto || r.Proto == lo[sdt{r.StateName, r.Dir, tn}] || r.Proto == version.Minecraft_1_18_2.Protocol {
				pb := parserNodeBodies(r.Proto)
				var ids []string
				for id := range pb {
					ids = append(ids, id)
				}
				sort.Strings(ids)
				for _, id := range ids {
					parsersExercised[id] = true
					add(r, "brigadier-parser="+id, pb[id])
					muts := everyVarIntMutation(pb[id], 8) // from the parser id on (the node prefix is covered by the generic mutations)
					if f.Tier == "quick" {
						if len(pb[id]) <= 12 && len(muts) > 4 {
							muts = muts[:4] // parsers without properties: the id itself
						}
						if r.Proto != hiProto && id != "crossstitch:mod_argument" && len(muts) > 8 {
							muts = muts[:8]
						}
					}
					for _, m := range muts {
						add(r, "brigadier-parser-mutated="+id, m)
					}
				}
			}
			if f.Tier == "thorough" && r.Proto == hiProto {
				// recorded finding C05-2 (quadratic graph resolution): one body of 160000 nodes, about 1.1 MB
				add(r, "brigadier-redirect-random-chain-large", commandBodies(cr, 160000)["redirect-random-chain"])
			}
		}
	}
	// FRAME-level bombs through codec.Decoder.Decode() with compression enabled: the zlib body inflates to far more
	// than the frame claims (all zeros, ratio about 1000:1); the decoder must not inflate beyond the claim
	// (frame decoder allocation bound: C02_alloc_bound in Properties/C02.v; here the real heap growth is measured)
	realSizes := []int{1 << 20, 4 << 20, 16 << 20, 64 << 20}
	if f.Tier == "quick" {
		realSizes = []int{4 << 20, 16 << 20, 64 << 20}
	}
	zeros := make([]byte, realSizes[len(realSizes)-1])
	// a real payload prefix so that an honest frame decodes: status request (id 0, empty) padded is not valid; use raw zeros
	for _, dir := range []proto.Direction{proto.ServerBound, proto.ClientBound} {
		capSize := codec.UncompressedCap
		if dir == proto.ServerBound {
			capSize = codec.ServerboundUncompressedCap
		}
		for _, th := range []int{0, 64, 256} {
			for ri, real := range realSizes {
				claims := []int{th, 65536, capSize}
				if th == 0 {
					claims[0] = 1
				}
				claimed := claims[(ri+th)%3]
				if f.Tier != "quick" {
					for _, cl := range claims {
						jobs = append(jobs, job{State: "Play", Dir: int(dir), Proto: int(hiProto), Kind: "frame-inflate-bomb", Type: "codec.frame",
							Frame: hex.EncodeToString(compressedFrame(cl, zeros[:real])), Threshold: th})
					}
					continue
				}
				jobs = append(jobs, job{State: "Play", Dir: int(dir), Proto: int(hiProto), Kind: "frame-inflate-bomb", Type: "codec.frame",
					Frame: hex.EncodeToString(compressedFrame(claimed, zeros[:real])), Threshold: th})
			}
			// honest frames: claimed = real (within the cap)
			jobs = append(jobs, job{State: "Play", Dir: int(dir), Proto: int(hiProto), Kind: "frame-honest", Type: "codec.frame",
				Frame: hex.EncodeToString(compressedFrame(1<<20, zeros[:1<<20])), Threshold: th})
		}
	}
	self, err := os.Executable()
	if err != nil {
		panic(err)
	}
	patience := 40 * time.Second
	if f.Tier == "quick" {
		patience = 20 * time.Second
	}
	results, goViol := runChildren(self, jobs, f.Out, patience)
	maxMs, maxRatio := int64(0), 0.0
	var slowest map[string]any
	for _, r := range results {
		j := jobs[r.I]
		body, _ := hex.DecodeString(j.Body)
		if j.Frame != "" {
			body, _ = hex.DecodeString(j.Frame) // the judge's length is the length of the whole frame
		}
		oc := map[string]string{"packet": "OPacket", "error": "OError", "panic": "OPanic"}[r.Outcome]
		bterm := "None"
		if frag[j.Type] && len(body) <= 120 && j.Kind != "random" {
			bterm = lib.Some(lib.Bytes(body))
		}
		term := lib.App("Check.C05.mk", `"`+j.Type+`"`, lib.Z(int64(j.Proto)), lib.Bool(proto.Direction(j.Dir) == proto.ClientBound),
			lib.N(uint64(len(body))), oc, lib.N(r.Alloc), lib.N(uint64(r.Millis)), bterm)
		bh := j.Body
		if j.Frame != "" {
			bh = j.Frame
		}
		if len(bh) > 400 {
			bh = bh[:400] + fmt.Sprintf("…(%d bytes)", len(body))
		}
		desc := map[string]any{"type": j.Type, "state": j.State, "dir": proto.Direction(j.Dir).String(), "protocol": j.Proto, "id": j.ID, "kind": j.Kind,
			"body_hex": bh, "compression_threshold": j.Threshold, "frame_level": j.Frame != "", "outcome": r.Outcome, "alloc": r.Alloc, "millis": r.Millis, "detail": r.Detail}
		if r.Millis > maxMs {
			maxMs, slowest = r.Millis, desc
		}
		if ratio := float64(r.Alloc) / float64(len(body)+1); len(body) > 1000 && ratio > maxRatio {
			maxRatio = ratio
		}
		out.Add(term, desc, r.Outcome == "packet" || (j.Kind == "mutated-varint" && len(body) > 1),
			"kind="+j.Kind, "outcome="+r.Outcome, "state="+j.State, "dir="+proto.Direction(j.Dir).String(), fmt.Sprintf("protocol=%d", j.Proto))
	}
	for _, gv := range goViol {
		known := any(nil)
		if j, ok := gv["job"].(job); ok && j.Type == "packet.AvailableCommands" && strings.HasPrefix(j.Kind, "brigadier-redirect-random-chain") && len(j.Body) > 1000000 {
			known = 2 // quadratic graph resolution: the watchdog fired on a > 500 kB redirect chain
		}
		gv["known"] = known
		out.GoViolation(gv)
	}
	names := pktgen.TypeNames(regs)
	nFrag := 0
	for _, n := range names {
		if frag[n] {
			nFrag++
		}
	}
	out.Extra("fragment_coverage", map[string]any{"registered_types": len(names), "fragment_types": nFrag})
	out.Extra("brigadier_parser_types_exercised", len(parsersExercised))
	out.Extra("brigadier_parser_types_registered", len(gbrig.VerifArgumentIDs()))
	out.Extra("payloads_decoded", len(results))
	out.Extra("child_crashes_or_hangs", len(goViol))
	out.Extra("slowest_decode", map[string]any{"millis": maxMs, "case": slowest})
	out.Extra("max_alloc_bytes_per_payload_byte_over_1000B", maxRatio)
	os.Remove(f.Out + "/c05_jobs.json")
	out.Finish()
}
