// C38 harness: drives the REAL config watch loop (pkg/internal/reload.watchWithOptions, reached through the
// verif export hooks) on a real temporary directory with an injected, faulty event watcher and records, per
// scenario, the exact interleaving of file operations and callback invocations (one mutex serialises the
// harness's file operations with the callback's own read of the file).  The Coq side judges the log with
// holds_C38 and asks whether it is a behaviour of Model/Reload.v.
package main

import (
	"context"
	"errors"
	"fmt"
	"os"
	"path/filepath"
	"strconv"
	"strings"
	"sync"
	"sync/atomic"
	"time"

	"github.com/fsnotify/fsnotify"
	"go.minekube.com/gate/pkg/gate"

	"verifharness/lib"
)

const debounce = gate.VerifReloadDebounce

// ---------------------------------------------------------------- plan (pure function of the PRNG)

type opKind int

const (
	opWrite opKind = iota
	opReplace
	opDelete
	opRecreate
)

func (k opKind) String() string { return [...]string{"write", "replace", "delete", "recreate"}[k] }

type delivery struct {
	DelayMs int  `json:"delay_ms"` // 0 = at once
	Other   bool `json:"other"`    // event names another file in the directory (must be ignored)
}

type planOp struct {
	WaitMs    int        `json:"wait_ms"`  // sleep before the operation
	AfterCb   bool       `json:"after_cb"` // additionally wait (bounded) for one more callback first
	Kind      opKind     `json:"-"`
	KindS     string     `json:"kind"`
	Content   int        `json:"content"`
	Deliver   []delivery `json:"deliver"`    // empty = notification lost; two or more = duplicated
	KillAfter string     `json:"kill_after"` // "", "error", "close", "dirgone": watcher lost after the op
	// Confirm: make the loop prove that it reconciled after this operation, and log IRec if it did.
	//   "event": hand it a notification for the config path, wait until taken, then a second one for another file
	//            (taken only after the first was handled completely);  "tick": wait interval + 5 ms, then 20 select rounds
	Confirm string `json:"confirm"`
}

type phase struct {
	AlignTick bool     `json:"align_tick"` // start the burst shortly after a reconcile tick
	Ops       []planOp `json:"ops"`
}

type plan struct {
	IntervalMs  int     `json:"interval_ms"`
	Mode        string  `json:"watcher"` // "scripted" | "real-filtered"
	Initial     int     `json:"initial"` // content id, -1 = file missing at start
	AttachFails int     `json:"attach_fails"`
	Phases      []phase `json:"phases"`
	Kind        string  `json:"scenario"`
}

var waits = []int{0, 0, 3, 10, 30, 60, 90, 98, 104, 115, 140}

func genDeliver(r *lib.Rng) []delivery {
	var d []delivery
	switch r.Intn(10) {
	case 0, 1, 2, 3: // lost
	case 4, 5:
		d = append(d, delivery{})
	case 6:
		d = append(d, delivery{}, delivery{}) // duplicated
	case 7:
		d = append(d, delivery{DelayMs: r.Pick(5, 40, 120, 300)}) // late
	case 8:
		d = append(d, delivery{DelayMs: r.Pick(5, 40, 120)}, delivery{DelayMs: r.Pick(150, 300, 500)})
	case 9:
		d = append(d, delivery{Other: true})
	}
	return d
}

func genPlan(r *lib.Rng, i int) plan {
	p := plan{IntervalMs: 20, Mode: "scripted", Kind: "random"}
	if r.Chance(1, 4) {
		p.IntervalMs = int(gate.VerifReloadReconcileInterval / time.Millisecond) // production default, 250
	}
	if r.Chance(1, 3) {
		p.Mode = "real-filtered"
	}
	p.Initial = r.Range(0, 2)
	if r.Chance(1, 8) {
		p.Initial = -1
	}
	p.AttachFails = r.Pick(0, 0, 1, 3)
	directed := i%12 == 3 || i%12 == 9
	if directed {
		// the two shapes of finding C38-1 at the production interval: a change inside the debounce window whose
		// notification is lost, (a) followed by a change back after the callback ran, (b) followed by nothing.
		p.IntervalMs = int(gate.VerifReloadReconcileInterval / time.Millisecond)
		p.Mode = "scripted"
		p.Initial = 0
		p.AttachFails = 0
		p.Kind = "directed-aba"
		ops := []planOp{
			{Kind: opWrite, Content: 1, Deliver: []delivery{{}}},
			{WaitMs: 30, Kind: opReplace, Content: 2},
		}
		if i%12 == 3 {
			ops = append(ops, planOp{AfterCb: true, Kind: opWrite, Content: 1})
		} else {
			p.Kind = "directed-twice"
		}
		p.Phases = []phase{{AlignTick: true, Ops: ops}, {Ops: []planOp{{Kind: opReplace, Content: r.Range(0, 2), Deliver: genDeliver(r)}}}}
		fix(&p)
		return p
	}
	if i%12 == 1 || i%12 == 5 || i%12 == 7 || i%12 == 11 {
		// the file flaps A -> B -> A inside one debounce window and the loop provably sees both steps: the second
		// reconcile must re-arm for A, and the expiry must then find A = evaluated and stay silent.
		p.Mode, p.Initial, p.AttachFails, p.Kind = "scripted", r.Range(0, 2), 0, "directed-flap"
		b := (p.Initial + 1 + r.Intn(2)) % 3
		gapMs := r.Pick(10, 20, 30, 40)
		how := "event"
		switch i % 12 {
		case 1:
			p.IntervalMs = int(gate.VerifReloadReconcileInterval / time.Millisecond)
		case 5:
			p.IntervalMs = 20
		case 7:
			p.IntervalMs, how, gapMs = 20, "tick", 0 // no notifications at all: the reconcile ticks do the work
		default:
			p.IntervalMs = r.Pick(20, int(gate.VerifReloadReconcileInterval/time.Millisecond))
		}
		k1, k2 := opKind(r.Pick(int(opWrite), int(opReplace))), opKind(r.Pick(int(opWrite), int(opReplace)))
		ops := []planOp{{Kind: k1, Content: b, Confirm: how}, {WaitMs: gapMs, Kind: k2, Content: p.Initial, Confirm: how}}
		if i%12 == 11 { // flap after a first real change, through a third content
			c := 3 - p.Initial - b
			ops = []planOp{{Kind: k1, Content: b, Confirm: how}, {WaitMs: gapMs, Kind: k2, Content: c, Confirm: how},
				{WaitMs: r.Pick(5, 15), Kind: k1, Content: b, Confirm: how}}
			p.Phases = []phase{{Ops: []planOp{{Kind: opReplace, Content: b, Deliver: genDeliver(r)}}}, {AlignTick: p.IntervalMs > 100, Ops: ops[1:]}}
			p.Phases[1].Ops[0].WaitMs = 0
		} else {
			p.Phases = []phase{{AlignTick: p.IntervalMs > 100, Ops: ops}}
		}
		p.Phases = append(p.Phases, phase{Ops: []planOp{{Kind: opReplace, Content: r.Range(0, 2), Deliver: genDeliver(r)}}})
		fix(&p)
		return p
	}
	nph := r.Range(3, 5)
	if p.IntervalMs > 100 {
		nph = r.Range(2, 3)
	}
	present := p.Initial >= 0
	for ph := 0; ph < nph; ph++ {
		var phs phase
		n := 1
		if !r.Chance(1, 3) {
			n = r.Range(2, 5)
		}
		phs.AlignTick = p.IntervalMs > 100 && r.Chance(1, 2)
		for k := 0; k < n; k++ {
			var o planOp
			if k > 0 {
				o.WaitMs = waits[r.Intn(len(waits))]
				o.AfterCb = r.Chance(1, 8)
			}
			if !present {
				o.Kind = opRecreate
			} else {
				o.Kind = opKind(r.Pick(int(opWrite), int(opWrite), int(opReplace), int(opReplace), int(opDelete)))
			}
			o.Content = r.Range(0, 2) // small alphabet: A-B-A patterns are frequent
			present = o.Kind != opDelete
			o.Deliver = genDeliver(r)
			if r.Chance(1, 12) {
				o.KillAfter = r.PickS("error", "close", "dirgone")
			} else if r.Chance(1, 3) {
				o.Confirm = "event"
				if p.IntervalMs <= 20 && r.Bool() {
					o.Confirm = "tick"
				}
			}
			phs.Ops = append(phs.Ops, o)
		}
		p.Phases = append(p.Phases, phs)
	}
	fix(&p)
	return p
}

func fix(p *plan) {
	for i := range p.Phases {
		for j := range p.Phases[i].Ops {
			p.Phases[i].Ops[j].KindS = p.Phases[i].Ops[j].Kind.String()
		}
	}
}

// ---------------------------------------------------------------- faulty watcher

type fakeWatcher struct {
	mu     sync.Mutex
	ev     chan fsnotify.Event
	er     chan error
	closed   bool
	detached bool
	real     *fsnotify.Watcher
}

// offer queues a notification for a path the loop must ignore; false if this watcher is no longer read.
func (w *fakeWatcher) offer(e fsnotify.Event) bool {
	w.mu.Lock()
	defer w.mu.Unlock()
	if w.closed || w.detached {
		return false
	}
	select {
	case w.ev <- e:
		return true
	default:
		return false
	}
}

func (w *fakeWatcher) drained() bool {
	w.mu.Lock()
	defer w.mu.Unlock()
	return len(w.ev) == 0
}

func (w *fakeWatcher) Events() <-chan fsnotify.Event { return w.ev }
func (w *fakeWatcher) Errors() <-chan error          { return w.er }
func (w *fakeWatcher) Close() error {
	w.mu.Lock()
	defer w.mu.Unlock()
	w.detached = true // the loop no longer receives from this watcher
	if w.real != nil {
		_ = w.real.Close()
		w.real = nil
	}
	return nil
}

func (w *fakeWatcher) send(e fsnotify.Event) {
	w.mu.Lock()
	defer w.mu.Unlock()
	if w.closed {
		return
	}
	select {
	case w.ev <- e:
	default: // queue overflow = one more lost notification
	}
}

func (w *fakeWatcher) kill(how, dir string) {
	w.mu.Lock()
	defer w.mu.Unlock()
	if w.closed {
		return
	}
	switch how {
	case "error":
		select {
		case w.er <- errors.New("verif: injected watcher error"):
		default:
		}
	case "close":
		w.closed = true
		close(w.ev)
	case "dirgone":
		select {
		case w.ev <- fsnotify.Event{Name: dir, Op: fsnotify.Remove}:
		default:
		}
	}
}

// ---------------------------------------------------------------- one scenario run

type logItem struct {
	Kind    string `json:"k"` // op | cb | quiet
	Op      string `json:"op,omitempty"`
	Content int    `json:"c"` // -1 missing, -2 unparsable
	AtMs    int64  `json:"at_ms"`
}

type result struct {
	Items       []logItem
	StalledGaps int // gaps during which the delay probe exceeded its limit (information only)
	Dropped     int // quiet points at which the loop did not take 20 sentinel events in time
	Hung        string
	Attaches    int
}

// the delay probe reports a gap as stalled if one of its rounds overshot by more than this
const stallLimit = 60 * time.Millisecond

func contentBytes(c int) []byte { return []byte(fmt.Sprintf("cfg=%04d", c)) }

func parseContent(b []byte, err error) int {
	if err != nil {
		if errors.Is(err, os.ErrNotExist) {
			return -1
		}
		return -2
	}
	s := string(b)
	if len(s) != 8 || !strings.HasPrefix(s, "cfg=") {
		return -2
	}
	n, e := strconv.Atoi(s[4:])
	if e != nil {
		return -2
	}
	return n
}

func runScenario(p plan, seed uint64) (res result) {
	root, err := os.MkdirTemp("/tmp", "verif-c38-")
	if err != nil {
		res.Hung = "mkdtemp: " + err.Error()
		return
	}
	defer os.RemoveAll(root)
	dir := filepath.Join(root, "conf")
	if err := os.Mkdir(dir, 0o755); err != nil {
		res.Hung = err.Error()
		return
	}
	path := filepath.Join(dir, "config.yml")
	if p.Initial >= 0 {
		if err := os.WriteFile(path, contentBytes(p.Initial), 0o600); err != nil {
			res.Hung = err.Error()
			return
		}
	}
	interval := time.Duration(p.IntervalMs) * time.Millisecond
	gap := 3 * (interval + debounce)
	frng := lib.NewRng(seed) // fault choices for real-filtered events

	var mu sync.Mutex // serialises file operations, callback reads and the log
	start := time.Now()
	var cbCount atomic.Int64
	add := func(it logItem) {
		it.AtMs = time.Since(start).Milliseconds()
		res.Items = append(res.Items, it)
	}

	// delay probe: if this process is starved of CPU, or the file system under /tmp stalls (journal commits under
	// heavy disk load were observed to block a plain open/read for seconds), the real-time gaps mean nothing.
	// Each round sleeps 4 ms, then dirties and re-reads a file next to the watched directory — the same kind of
	// system calls the watch loop's fingerprint() needs; the overshoot of the slowest round is what counts.
	var maxStall, stalledGaps, droppedMarkers atomic.Int64
	probeCtx, probeStop := context.WithCancel(context.Background())
	defer probeStop()
	probeFile := filepath.Join(root, "probe")
	_ = os.WriteFile(probeFile, []byte("probe=00"), 0o600)
	go func() {
		for n := 0; probeCtx.Err() == nil; n++ {
			t := time.Now()
			time.Sleep(4 * time.Millisecond)
			if pf, err := os.OpenFile(probeFile, os.O_WRONLY, 0); err == nil {
				_, _ = pf.WriteAt([]byte(fmt.Sprintf("probe=%02d", n%100)), 0)
				_ = pf.Close()
			}
			_, _ = os.ReadFile(probeFile)
			if d := int64(time.Since(t) - 4*time.Millisecond); d > maxStall.Load() {
				maxStall.Store(d)
			}
		}
	}()

	var wmu sync.Mutex
	var cur *fakeWatcher
	fails := p.AttachFails
	var attaches atomic.Int64
	newWatcher := func(d string) (gate.VerifReloadEventWatcher, error) {
		wmu.Lock()
		defer wmu.Unlock()
		if cur != nil && fails > 0 { // the first attach must succeed or Watch returns the error
			fails--
			return nil, errors.New("verif: injected attach failure")
		}
		w := &fakeWatcher{ev: make(chan fsnotify.Event, 64), er: make(chan error, 4)}
		if p.Mode == "real-filtered" {
			rw, err := fsnotify.NewWatcher()
			if err == nil && rw.Add(d) == nil {
				w.real = rw
				go func() { // forward real notifications with faults
					for e := range rw.Events {
						wmu.Lock()
						k := frng.Intn(6)
						delay := frng.Pick(5, 40, 120)
						wmu.Unlock()
						switch k {
						case 0, 1: // lost
						case 2:
							w.send(e)
							w.send(e)
						case 3:
							e := e
							time.AfterFunc(time.Duration(delay)*time.Millisecond, func() { w.send(e) })
						default:
							w.send(e)
						}
					}
				}()
				go func() {
					for range rw.Errors {
					}
				}()
			} else if rw != nil {
				_ = rw.Close()
			}
		}
		cur = w
		return w, nil
	}
	current := func() *fakeWatcher {
		wmu.Lock()
		defer wmu.Unlock()
		return cur
	}

	ctx, cancel := context.WithCancel(context.Background())
	defer cancel()
	err = gate.VerifReloadWatch(ctx, path, func() error {
		mu.Lock()
		defer mu.Unlock()
		t := time.Now()
		b, err := os.ReadFile(path)
		if d := int64(time.Since(t)); d > maxStall.Load() { // a slow read here counts as a stall, too
			maxStall.Store(d)
		}
		add(logItem{Kind: "cb", Content: parseContent(b, err)})
		cbCount.Add(1)
		return nil
	}, interval, newWatcher, func() { attaches.Add(1) })
	if err != nil {
		res.Hung = "watch: " + err.Error()
		return
	}
	loopStart := time.Now()

	tmpN := 0
	doOp := func(o planOp) error {
		mu.Lock()
		defer mu.Unlock()
		var err error
		switch o.Kind {
		case opWrite: // same length, no truncation, one write call: no torn intermediate content
			var f *os.File
			f, err = os.OpenFile(path, os.O_WRONLY, 0)
			if err == nil {
				_, err = f.WriteAt(contentBytes(o.Content), 0)
				if e := f.Close(); err == nil {
					err = e
				}
			}
		case opReplace:
			tmpN++
			tmp := filepath.Join(dir, fmt.Sprintf("config.yml.tmp%d", tmpN))
			if err = os.WriteFile(tmp, contentBytes(o.Content), 0o600); err == nil {
				err = os.Rename(tmp, path)
			}
		case opDelete:
			err = os.Remove(path)
		case opRecreate: // the complete file appears at once (hard link of a finished temporary)
			tmpN++
			tmp := filepath.Join(root, fmt.Sprintf("new%d", tmpN))
			if err = os.WriteFile(tmp, contentBytes(o.Content), 0o600); err == nil {
				if err = os.Link(tmp, path); err == nil {
					err = os.Remove(tmp)
				}
			}
		}
		c := o.Content
		if o.Kind == opDelete {
			c = -1
		}
		add(logItem{Kind: "op", Op: o.Kind.String(), Content: c})
		return err
	}
	evFor := func(o planOp, other bool) fsnotify.Event {
		name := path
		if other {
			name = filepath.Join(dir, "other.yml")
		}
		switch o.Kind {
		case opWrite:
			return fsnotify.Event{Name: name, Op: fsnotify.Write}
		case opDelete:
			return fsnotify.Event{Name: name, Op: fsnotify.Remove}
		default:
			return fsnotify.Event{Name: name, Op: fsnotify.Create}
		}
	}

	// drain: 20 times in a row, hand the loop a notification for another file and wait until it has taken it.
	// Each receive is one round of the loop's select; Go chooses uniformly among the ready cases, so a ticker or
	// debounce channel that was ready before the first round is still unserved after 20 rounds with probability
	// <= 2^-20.  While the watcher is lost the loop re-attaches on a tick, so the drain retries for a while.
	drain := func() bool {
		deadline := time.Now().Add(6 * gap)
		sentinel := fsnotify.Event{Name: filepath.Join(dir, "verif-sentinel"), Op: fsnotify.Chmod}
		for k := 0; k < 20; k++ {
			for {
				taken := false
				if w := current(); w != nil && w.offer(sentinel) {
					for t := time.Now(); time.Since(t) < 200*time.Millisecond; time.Sleep(100 * time.Microsecond) {
						if w.drained() {
							taken = true
							break
						}
					}
				}
				if taken {
					break
				}
				if time.Now().After(deadline) {
					return false
				}
				time.Sleep(3 * time.Millisecond)
			}
		}
		return true
	}

	// confirm: true only if the loop has certainly run reconcile() since the operation (see planOp.Confirm)
	taken := func(w *fakeWatcher, e fsnotify.Event) bool {
		if w == nil || !w.offer(e) {
			return false
		}
		for t := time.Now(); time.Since(t) < 300*time.Millisecond; time.Sleep(100 * time.Microsecond) {
			if w.drained() {
				return true
			}
		}
		return false
	}
	confirm := func(o planOp) bool {
		switch o.Confirm {
		case "event":
			w := current()
			return taken(w, evFor(o, false)) && taken(w, fsnotify.Event{Name: filepath.Join(dir, "verif-sentinel"), Op: fsnotify.Chmod}) && current() == w
		case "tick":
			time.Sleep(interval + 5*time.Millisecond)
			return drain()
		}
		return false
	}

	done := make(chan struct{})
	go func() {
		defer close(done)
		for _, ph := range p.Phases {
			if ph.AlignTick { // ticks happen at loopStart + k*interval (time.Ticker keeps its phase)
				el := time.Since(loopStart)
				next := (el/interval + 1) * interval
				time.Sleep(next - el + 12*time.Millisecond)
			}
			for _, o := range ph.Ops {
				if o.WaitMs > 0 {
					time.Sleep(time.Duration(o.WaitMs) * time.Millisecond)
				}
				if o.AfterCb {
					n := cbCount.Load()
					for t := time.Now(); cbCount.Load() == n && time.Since(t) < 2*debounce; {
						time.Sleep(time.Millisecond)
					}
				}
				if err := doOp(o); err != nil {
					res.Hung = "file operation failed: " + err.Error()
					return
				}
				if p.Mode == "scripted" {
					for _, d := range o.Deliver {
						e := evFor(o, d.Other)
						if d.DelayMs == 0 {
							if w := current(); w != nil {
								w.send(e)
							}
						} else {
							time.AfterFunc(time.Duration(d.DelayMs)*time.Millisecond, func() {
								if w := current(); w != nil {
									w.send(e)
								}
							})
						}
					}
				}
				if o.KillAfter != "" {
					if w := current(); w != nil {
						w.kill(o.KillAfter, dir)
					}
				}
				if o.Confirm != "" && confirm(o) {
					mu.Lock()
					add(logItem{Kind: "rec"})
					mu.Unlock()
				}
			}
			// Quiet point.  Wall-clock alone is not enough on a loaded machine (the loop goroutine was observed
			// to sit in a stalled open/read for seconds), so after the gap the loop is made to prove that it has
			// handled every timer that was due: see drain().  gap: the reconcile tick is due; first drain: it has
			// been handled, so the debounce is armed at the latest now; debounce + 50 ms later it is due; second
			// drain: it has been handled.
			maxStall.Store(0)
			time.Sleep(gap)
			if time.Duration(maxStall.Load()) > stallLimit {
				stalledGaps.Add(1)
			}
			ok := drain()
			time.Sleep(debounce + 50*time.Millisecond)
			ok = drain() && ok
			if !ok {
				droppedMarkers.Add(1) // the loop does not take events any more; the marker is still written
			}
			mu.Lock()
			add(logItem{Kind: "quiet"})
			mu.Unlock()
		}
	}()
	select {
	case <-done:
	case <-time.After(60 * time.Second):
		res.Hung = "scenario did not finish within 60 s (callback or file operation blocked)"
	}
	cancel()
	mu.Lock()
	res.Items = append([]logItem(nil), res.Items...)
	mu.Unlock()
	res.StalledGaps = int(stalledGaps.Load())
	res.Dropped = int(droppedMarkers.Load())
	res.Attaches = int(attaches.Load())
	return
}

// ---------------------------------------------------------------- Coq terms

func fpTerm(c int) string {
	if c == -1 {
		return "None"
	}
	if c < 0 {
		return "(Some 999)"
	}
	return fmt.Sprintf("(Some %d)", c)
}

func itemTerm(it logItem) string {
	switch it.Kind {
	case "op":
		switch it.Op {
		case "write":
			return fmt.Sprintf("IOp (Write %d)", it.Content)
		case "replace":
			return fmt.Sprintf("IOp (Replace %d)", it.Content)
		case "delete":
			return "IOp Delete"
		default:
			return fmt.Sprintf("IOp (Recreate %d)", it.Content)
		}
	case "cb":
		return "ICb " + fpTerm(it.Content)
	case "rec":
		return "IRec"
	default:
		return "IQuiet"
	}
}

func main() {
	f := lib.ParseFlags()
	rng := lib.NewRng(f.Seed)
	out := lib.NewOut("C38", f)
	out.Imports = "From Verif Require Import Model.Reload.\n"
	out.Rule = "scenarios of 2-5 bursts (1-5 file operations each: in-place write, rename-replace, delete, re-create; contents from a 3-letter alphabet so A-B-A is frequent; waits 0-140 ms around the 100 ms debounce) on a real directory under /tmp; every operation's notification is lost (40%), delivered, duplicated, late (5-500 ms) or for another file; watcher killed by error/close/dir-removed with 0-3 failing re-attaches; reconcile interval 20 ms (3/4) or the production 250 ms (1/4); watcher scripted (2/3) or real fsnotify filtered through the same faults (1/3); 2 in 12 scenarios are the directed shapes of finding C38-1, 4 in 12 are directed flaps A->B->A (or through a third content) 10-40 ms apart inside one debounce window in which the loop is made to prove each reconcile (IRec: a notification for the config path taken and followed by a second taken one, or interval+5 ms and 20 select rounds when no notification is sent), at both intervals; a third of the operations of random bursts carry the same proof; each burst is followed by a quiet point: a gap of 3 x (interval + 100 ms debounce), then the loop must take 20 sentinel notifications (for a file it ignores), 150 ms, 20 more - so that every timer due has been served even if the loop goroutine was stalled. distinct = distinct logs; non-trivial = some burst has >= 2 operations and some notification was lost, duplicated or late"

	n := f.Count(56)
	plans := make([]plan, n)
	seeds := make([]uint64, n)
	for i := range plans {
		r := rng.Fork()
		plans[i] = genPlan(r, i)
		seeds[i] = r.U64()
	}
	results := make([]result, n)
	var wg sync.WaitGroup
	sem := make(chan struct{}, 16)
	for i := range plans {
		if f.Only >= 0 && f.Only != i {
			continue
		}
		wg.Add(1)
		sem <- struct{}{}
		go func(i int) {
			defer wg.Done()
			defer func() { <-sem }()
			results[i] = runScenario(plans[i], seeds[i])
		}(i)
	}
	wg.Wait()

	unreliable := 0
	for i, p := range plans {
		res := results[i]
		if f.Only >= 0 && f.Only != i {
			out.Add("skipped", nil, false)
			continue
		}
		if res.Hung != "" {
			out.GoViolation(map[string]any{"known": nil, "index": i, "what": res.Hung, "plan": p})
		}
		var terms []string
		cbs, faults, multi := 0, 0, false
		for _, it := range res.Items {
			if it.Kind == "cb" {
				cbs++
			}
			terms = append(terms, itemTerm(it))
		}
		nops := 0
		for _, ph := range p.Phases {
			nops += len(ph.Ops)
			if len(ph.Ops) >= 2 {
				multi = true
			}
			for _, o := range ph.Ops {
				if len(o.Deliver) != 1 || o.Deliver[0].DelayMs > 0 || o.Deliver[0].Other {
					faults++
				}
			}
		}
		if p.Mode == "real-filtered" {
			faults++
		}
		tags := []string{"interval=" + strconv.Itoa(p.IntervalMs) + "ms", "watcher=" + p.Mode, "scenario=" + p.Kind,
			fmt.Sprintf("ops=%d", nops), fmt.Sprintf("callbacks=%d", cbs)}
		if res.Dropped > 0 {
			tags = append(tags, "drain-timeout(loop-takes-no-events)")
			unreliable += res.Dropped
		}
		if res.StalledGaps > 0 {
			tags = append(tags, "stall-during-gap(cpu-or-fs)")
		}
		if res.Attaches > 1 {
			tags = append(tags, "watcher-reattached")
		}
		out.Add(lib.App("Check.C38.mk", fpTerm(p.Initial), lib.List(terms)),
			map[string]any{"plan": p, "log": res.Items, "gaps_with_stall": res.StalledGaps, "drain_timeouts": res.Dropped,
				"attaches": res.Attaches}, multi && faults > 0, tags...)
	}
	out.Extra("timing", map[string]any{"debounce_ms": debounce.Milliseconds(), "gap_factor": 3, "stall_limit_ms": stallLimit.Milliseconds(),
		"drain_timeouts": unreliable, "quiet_point": "gap 3 x (interval+debounce); 20 sentinel events taken by the loop; debounce+50 ms; 20 more"})
	out.Finish()
}
