// C41 harness: builds protobuf byte strings from fields 1..15 (all wire types, random order, repeats,
// groups, truncations and other malformations), turns them into connect.Session values the way the
// proxy gets them (proto.Unmarshal; when protobuf-go itself refuses the bytes they are installed with
// the public ProtoReflect().SetUnknown so that the scan loop's own error paths are still driven), runs
// the real connectutil.ExtractSessionPrincipalWire and hands the OBSERVED unknown-field bytes plus the
// observed result to the Coq judge.
package main

import (
	"bytes"
	"fmt"
	"strconv"
	"strings"

	"go.minekube.com/connect"
	"google.golang.org/protobuf/encoding/protowire"
	"google.golang.org/protobuf/proto"
	"google.golang.org/protobuf/reflect/protoreflect"

	"go.minekube.com/gate/pkg/util/connectutil"

	"verifharness/lib"
)

type field struct {
	num uint64
	typ uint64 // 0..7
	raw []byte // tag + value, exactly as emitted
}

func tag(num, typ uint64) []byte { return protowire.AppendVarint(nil, num<<3|typ) }

func fVarint(num, v uint64) field {
	return field{num, 0, protowire.AppendVarint(tag(num, 0), v)}
}
func fBytes(num uint64, p []byte) field {
	return field{num, 2, protowire.AppendBytes(tag(num, 2), p)}
}
func fI32(num uint64, p []byte) field { return field{num, 5, append(tag(num, 5), p[:4]...)} }
func fI64(num uint64, p []byte) field { return field{num, 1, append(tag(num, 1), p[:8]...)} }
func fGroup(num uint64, body []byte) field {
	return field{num, 3, append(append(tag(num, 3), body...), tag(num, 4)...)}
}

// overlong re-encodes a varint with k extra continuation groups (still at most 10 bytes).
func overlong(v uint64, extra int) []byte {
	b := protowire.AppendVarint(nil, v)
	for i := 0; i < extra && len(b) < 10; i++ {
		b[len(b)-1] |= 0x80
		b = append(b, 0)
	}
	return b
}

func join(fs []field) []byte {
	var out []byte
	for _, f := range fs {
		out = append(out, f.raw...)
	}
	return out
}

type gen struct{ r *lib.Rng }

func (g gen) interestingU64() uint64 {
	switch g.r.Intn(10) {
	case 0:
		return 0
	case 1:
		return 2 // SESSION_PROTOCOL_BEDROCK
	case 2:
		return uint64(g.r.Intn(1000))
	case 3:
		return 1<<31 - 1
	case 4:
		return 1 << 31
	case 5:
		return 1<<32 + uint64(g.r.Intn(5))
	case 6:
		return 1<<63 - 1
	case 7:
		return 1 << 63
	case 8:
		return ^uint64(0)
	default:
		return g.r.U64() >> uint(g.r.Intn(64))
	}
}

func (g gen) text(n int) []byte {
	return []byte(g.r.StringOver("abcdefghijklmnopqrstuvwxyz0123456789-._", n))
}

// a field with a wire type that is right for the frozen v2 schema
func (g gen) goodPrincipal(num uint64) field {
	switch num {
	case 6, 10, 11:
		if g.r.Chance(1, 8) {
			return field{num, 0, append(tag(num, 0), overlong(g.interestingU64(), g.r.Range(1, 3))...)}
		}
		return fVarint(num, g.interestingU64())
	case 7, 8:
		return fBytes(num, g.text(g.r.Range(0, 20)))
	case 9:
		return fBytes(num, g.r.Bytes(16))
	default: // 12
		return fBytes(num, g.text(g.r.Range(1, 60)))
	}
}

// any field number, any wire type
func (g gen) anyField(num uint64, depth int) field {
	switch t := g.r.Pick(0, 0, 1, 2, 2, 2, 3, 5, 4, 6, 7); t {
	case 0:
		return fVarint(num, g.interestingU64())
	case 1:
		return fI64(num, g.r.Bytes(8))
	case 2:
		return fBytes(num, g.r.Bytes(g.r.Range(0, 24)))
	case 3:
		var body []field
		if depth < 3 {
			for i := g.r.Intn(3); i > 0; i-- {
				f := g.anyField(uint64(g.r.Range(1, 15)), depth+1)
				if f.typ == 4 || f.typ > 5 { // keep groups well formed here; malformed ones come from the malformed stream
					f = fVarint(f.num, 1)
				}
				body = append(body, f)
			}
		}
		return fGroup(num, join(body))
	case 5:
		return fI32(num, g.r.Bytes(4))
	default: // 4, 6, 7: a bare tag (stray end group / reserved wire type)
		return field{num, uint64(t), tag(num, uint64(t))}
	}
}

// fields 1..4 the way a Connect edge fills them
func (g gen) knownFields() []field {
	var fs []field
	if g.r.Chance(3, 4) {
		fs = append(fs, fBytes(1, g.text(g.r.Range(1, 12))))
	}
	if g.r.Chance(1, 2) {
		fs = append(fs, fBytes(2, g.text(g.r.Range(1, 12))))
	}
	if g.r.Chance(1, 2) {
		fs = append(fs, fBytes(3, fBytes(2, g.text(9)).raw)) // Player{addr}
	}
	if g.r.Chance(1, 2) {
		fs = append(fs, fBytes(4, fVarint(1, 1).raw)) // Authentication{passthrough}
	}
	return fs
}

func (g gen) shuffle(fs []field) []field {
	p := g.r.Perm(len(fs))
	out := make([]field, len(fs))
	for i, j := range p {
		out[i] = fs[j]
	}
	return out
}

// a complete, valid v2 proposal
func (g gen) fullV2() []field {
	fs := g.knownFields()
	for _, n := range []uint64{6, 7, 8, 9, 10, 11, 12} {
		fs = append(fs, g.goodPrincipal(n))
	}
	return fs
}

type msg struct {
	raw  []byte
	kind string
}

func (g gen) message() msg {
	switch k := g.r.Intn(20); {
	case k < 3: // valid, possibly with repeated scalars (last wins) and unknown neighbours
		fs := g.fullV2()
		for i := g.r.Intn(4); i > 0; i-- {
			fs = append(fs, g.goodPrincipal(uint64(g.r.Pick(6, 7, 8, 9, 10, 11))))
		}
		for i := g.r.Intn(3); i > 0; i-- {
			f := g.anyField(uint64(g.r.Pick(5, 13, 14, 15)), 0)
			if f.typ == 4 || f.typ > 5 {
				f = fI32(f.num, g.r.Bytes(4))
			}
			fs = append(fs, f)
		}
		if g.r.Bool() {
			fs = g.shuffle(fs)
		}
		return msg{join(fs), "valid-v2"}
	case k < 5: // a subset of the principal fields, no envelope
		fs := g.knownFields()
		for _, n := range []uint64{6, 7, 8, 9, 10, 11} {
			if g.r.Chance(1, 3) {
				fs = append(fs, g.goodPrincipal(n))
			}
		}
		if g.r.Chance(1, 3) {
			fs = append(fs, fBytes(9, g.r.Bytes(g.r.Pick(0, 1, 15, 17, 32)))) // odd nonce, no envelope
		}
		return msg{join(g.shuffle(fs)), "partial-no-envelope"}
	case k < 6: // v1 proposal: nothing in 6..12
		fs := g.knownFields()
		for i := g.r.Intn(3); i > 0; i-- {
			f := g.anyField(uint64(g.r.Pick(5, 13, 14, 15, 1, 2, 3, 4)), 0)
			if f.typ == 4 || f.typ > 5 {
				f = fVarint(f.num, 7)
			}
			fs = append(fs, f)
		}
		return msg{join(g.shuffle(fs)), "v1"}
	case k < 8: // envelope count / size
		fs := g.fullV2()
		fs = fs[:len(fs)-1]
		switch g.r.Intn(6) {
		case 0:
			fs = append(fs, fBytes(12, g.text(5)), fBytes(12, g.text(6)))
		case 1:
			fs = append(fs, fBytes(12, nil))
		case 2:
			fs = append(fs, fBytes(12, nil), fBytes(12, g.text(4)))
		case 3:
			fs = append(fs, fBytes(12, g.text(3)), fBytes(12, nil))
		case 4:
			fs = append(fs, fBytes(12, g.text(g.r.Pick(1, 2, 100, 300))))
		default:
			fs = append(fs, fBytes(12, g.text(8)), fVarint(12, 1))
		}
		return msg{join(g.shuffle(fs)), "envelope-count-size"}
	case k < 10: // nonce length / presence with an envelope
		fs := g.knownFields()
		for _, n := range []uint64{6, 7, 8, 10, 11, 12} {
			if n == 12 || g.r.Bool() {
				fs = append(fs, g.goodPrincipal(n))
			}
		}
		switch g.r.Intn(5) {
		case 0: // missing
		case 1:
			fs = append(fs, fBytes(9, g.r.Bytes(g.r.Pick(0, 1, 15, 17, 32))))
		case 2: // a good one overridden by a bad one
			fs = append(fs, fBytes(9, g.r.Bytes(16)), fBytes(9, g.r.Bytes(g.r.Pick(0, 15, 17))))
		case 3: // a bad one overridden by a good one
			fs = append(fs, fBytes(9, g.r.Bytes(g.r.Pick(0, 15, 17))), fBytes(9, g.r.Bytes(16)))
		default:
			fs = append(fs, fBytes(9, g.r.Bytes(16)))
		}
		if g.r.Bool() {
			fs = g.shuffle(fs)
		}
		return msg{join(fs), "nonce"}
	case k < 12: // a principal field with another wire type
		fs := g.fullV2()
		i := len(fs) - 1 - g.r.Intn(7)
		num := fs[i].num
		var f field
		for {
			f = g.anyField(num, 0)
			want := uint64(0)
			if num == 7 || num == 8 || num == 9 || num == 12 {
				want = 2
			}
			if f.typ != want {
				break
			}
		}
		if g.r.Bool() {
			fs[i] = f
		} else {
			fs = append(fs, f)
		}
		if g.r.Bool() {
			fs = g.shuffle(fs)
		}
		return msg{join(fs), "wrong-wire-type"}
	case k < 16: // field soup
		var fs []field
		for i := g.r.Range(0, 8); i > 0; i-- {
			num := uint64(g.r.Range(1, 15))
			if g.r.Chance(2, 3) && num >= 6 && num <= 12 {
				fs = append(fs, g.goodPrincipal(num))
			} else {
				f := g.anyField(num, 0)
				if (f.typ == 4 || f.typ > 5) && g.r.Chance(3, 4) {
					f = fBytes(num, g.r.Bytes(g.r.Range(0, 9)))
				}
				fs = append(fs, f)
			}
		}
		return msg{join(fs), "soup"}
	case k < 17: // big field numbers around the limits of the tag decoder
		num := []uint64{16, 2047, 1<<29 - 1, 1 << 29, 1<<31 - 1, 1 << 31, 1<<32 + 6, 1<<61 - 1, 0}[g.r.Intn(9)]
		fs := []field{g.goodPrincipal(6), fVarint(num, 5)}
		if g.r.Bool() {
			fs = append(fs, g.goodPrincipal(7))
		}
		return msg{join(fs), "big-field-number"}
	default: // malformed: truncation, overflowing varints, broken groups, length beyond the end
		base := join(g.fullV2())
		switch g.r.Intn(8) {
		case 0, 1:
			return msg{base[:g.r.Intn(len(base))], "truncated"}
		case 2:
			b := append(tag(uint64(g.r.Range(1, 15)), 0), bytes.Repeat([]byte{0xff}, g.r.Range(9, 11))...)
			b = append(b, byte(g.r.Pick(0, 1, 2, 0x7f)))
			return msg{append(b, g.goodPrincipal(6).raw...), "varint-10-11-bytes"}
		case 3:
			num := uint64(g.r.Range(1, 15))
			b := append(tag(num, 3), fVarint(uint64(g.r.Range(1, 15)), 3).raw...)
			switch g.r.Intn(3) {
			case 0: // never closed
			case 1:
				b = append(b, tag(num%15+1, 4)...) // closed by another number
			default:
				b = append(append(b, tag(num, 4)...), tag(num, 4)...) // closed twice
			}
			return msg{append(g.goodPrincipal(10).raw, b...), "broken-group"}
		case 4:
			num := uint64(g.r.Range(1, 15))
			b := protowire.AppendVarint(tag(num, 2), uint64(g.r.Pick(5, 200, 1<<31, 1<<62)))
			return msg{append(g.goodPrincipal(6).raw, append(b, 1, 2, 3)...), "length-beyond-end"}
		case 5:
			b := append([]byte{}, base...)
			b[g.r.Intn(len(b))] ^= byte(1 << uint(g.r.Intn(8)))
			return msg{b, "bitflip"}
		case 6: // overlong tag encodings (a tag may be a non-minimal varint)
			num := uint64(g.r.Range(5, 13))
			b := overlong(num<<3|0, g.r.Range(1, 9))
			b = protowire.AppendVarint(b, g.interestingU64())
			return msg{append(b, g.goodPrincipal(7).raw...), "overlong-tag"}
		default:
			return msg{g.r.Bytes(g.r.Range(1, 24)), "random-bytes"}
		}
	}
}

// bb prints bytes as a packed Uint63 list (B form) unless very short: hex string literals cost about
// six times more to elaborate in coqc, and these case files are literal-bound.
func bb(b []byte) string {
	if len(b) <= 7 {
		return lib.Bytes(b)
	}
	var sb strings.Builder
	fmt.Fprintf(&sb, "(B %d [", len(b))
	for i := 0; i < len(b); i += 7 {
		var v uint64
		for j := 6; j >= 0; j-- {
			v <<= 8
			if i+j < len(b) {
				v |= uint64(b[i+j])
			}
		}
		if i > 0 {
			sb.WriteString(";")
		}
		sb.WriteString(strconv.FormatUint(v, 10))
	}
	sb.WriteString("]%uint63)")
	return sb.String()
}

// nested builds depth start-group tags of field num, then the matching end-group tags.
func nested(num uint64, depth int) []byte {
	var b []byte
	for i := 0; i < depth; i++ {
		b = append(b, tag(num, 3)...)
	}
	for i := 0; i < depth; i++ {
		b = append(b, tag(num, 4)...)
	}
	return b
}

// expectedUnknown: what protobuf-go is expected to leave in the unknown region of a Session for a
// well-formed field sequence: every top-level field whose number is not 1..4, or whose wire type is not
// the declared one (all four known fields are length-delimited), in order.
func expectedUnknown(raw []byte) ([]byte, bool) {
	var out []byte
	for len(raw) > 0 {
		num, typ, n := protowire.ConsumeField(raw)
		if n < 0 {
			return nil, false
		}
		if !(num >= 1 && num <= 4 && typ == protowire.BytesType) {
			out = append(out, raw[:n]...)
		}
		raw = raw[n:]
	}
	return out, true
}

func main() {
	f := lib.ParseFlags()
	rng := lib.NewRng(f.Seed)
	out := lib.NewOut("C41", f)
	out.Imports = "From Verif Require Import Model.Principal.\n"
	out.Rule = "protobuf messages over fields 1..15 (plus a few huge field numbers): valid v2 proposals with repeats and shuffles, partial/v1 proposals, envelope count and size classes (0, 1, 16384, 16385 bytes, duplicates with different AND with byte-identical payloads: adjacent, separated, 1-byte, empty, three copies, any field-12 occurrence repeated verbatim at a later position), nonce classes (missing, 0/15/17/32 bytes, overridden), principal fields with every other wire type incl. groups and reserved types, field soup, malformed stream (truncations, 10/11-byte varints, broken groups, lengths beyond the end, bit flips, overlong tags, random bytes) and group nesting at the recursion limit; Session obtained by proto.Unmarshal, or by SetUnknown when Unmarshal refuses the bytes; distinct = distinct (unknown bytes, result); non-trivial = the unknown region contains a field 6..12 or the call returned an error"

	// the typed half of the function is dead for this descriptor: say so in evidence, fail loudly if not
	fields := (&connect.Session{}).ProtoReflect().Descriptor().Fields()
	for n := 6; n <= 12; n++ {
		if fields.ByNumber(protoreflect.FieldNumber(n)) != nil {
			out.GoViolation(map[string]any{"known": nil, "what": fmt.Sprintf("connect.Session descriptor now declares field %d: the typed-field path of ExtractSessionPrincipalWire is live and is not modelled", n)})
		}
	}
	out.Extra("session_descriptor_fields", fields.Len())

	g := gen{rng}
	unexpectedRegion := 0
	emit := func(m msg) {
		s := new(connect.Session)
		via := "unmarshal"
		if err := proto.Unmarshal(m.raw, s); err != nil {
			s = new(connect.Session)
			s.ProtoReflect().SetUnknown(protoreflect.RawFields(append([]byte(nil), m.raw...)))
			via = "setunknown"
		} else if want, ok := expectedUnknown(m.raw); !ok || !bytes.Equal(want, s.ProtoReflect().GetUnknown()) {
			unexpectedRegion++
		}
		unknown := append([]byte(nil), s.ProtoReflect().GetUnknown()...)
		var w *connectutil.SessionPrincipalWire
		var err error
		panicked := func() (p any) {
			defer func() { p = recover() }()
			w, err = connectutil.ExtractSessionPrincipalWire(s)
			return nil
		}()
		desc := map[string]any{"message_hex": fmt.Sprintf("%x", m.raw), "unknown_hex": fmt.Sprintf("%x", unknown), "kind": m.kind, "via": via}
		if len(m.raw) > 600 {
			desc["message_hex"] = fmt.Sprintf("%x…(%d bytes)", m.raw[:64], len(m.raw))
			desc["unknown_hex"] = fmt.Sprintf("%x…(%d bytes)", unknown[:min(64, len(unknown))], len(unknown))
		}
		if panicked != nil {
			out.GoViolation(map[string]any{"known": nil, "what": "ExtractSessionPrincipalWire panicked", "panic": fmt.Sprint(panicked), "case": desc})
			return
		}
		var obs, class string
		switch {
		case err != nil:
			obs, class = "RErr", "err"
			desc["observed"] = "error"
		case w == nil:
			obs, class = "(ROk None)", "nil"
			desc["observed"] = "nil"
		default:
			obs = lib.App("ROk", lib.Some(lib.App("mkP", lib.Z(int64(w.Protocol)), lib.Str(w.EndpointID), lib.Str(w.OrganizationID),
				bb(w.ConnectSessionNonce[:]), lib.Z(int64(w.SourceProtocolVersion)), lib.Z(w.PolicyRevision), bb(w.Envelope))))
			class = "wire"
			if w.HasEnvelope() {
				class = "wire+envelope"
			}
			desc["observed"] = map[string]any{"protocol": w.Protocol, "endpoint": w.EndpointID, "org": w.OrganizationID,
				"nonce_hex": fmt.Sprintf("%x", w.ConnectSessionNonce), "spv": w.SourceProtocolVersion, "rev": w.PolicyRevision, "envelope_len": len(w.Envelope)}
		}
		nontrivial := err != nil || w != nil
		out.Add(lib.App("Check.C41.mk", bb(unknown), obs), desc, nontrivial, "kind="+m.kind, "via="+via, "result="+class)
	}

	n := f.Count(1960)
	for i := 0; i < n; i++ {
		emit(g.message())
	}
	// a second field 12 whose bytes EQUAL the first: still a second envelope
	for i := 0; i < f.Count(160); i++ {
		fs := g.fullV2()
		env := fs[len(fs)-1]
		switch i % 8 {
		case 0: // adjacent copies
			fs = append(fs, env)
		case 1: // separated by known and unknown fields
			fs = append(fs, fBytes(1, g.text(4)), g.goodPrincipal(7), fI32(13, g.r.Bytes(4)), env)
		case 2: // one-byte envelope, twice
			env = fBytes(12, g.text(1))
			fs[len(fs)-1] = env
			fs = append(fs, g.goodPrincipal(10), env)
		case 3: // empty envelope, twice
			env = fBytes(12, nil)
			fs[len(fs)-1] = env
			fs = append(fs, env)
		case 4: // three copies
			fs = append(fs, env, fVarint(5, 9), env)
		case 5: // copy first, everything else in between
			fs = append([]field{env}, fs...)
		case 6: // copies around a group and a shuffled middle
			mid := g.shuffle(fs[:len(fs)-1])
			fs = append(append([]field{env}, mid...), fGroup(14, fVarint(12, 1).raw), env)
		default: // only the two envelopes and a nonce
			fs = []field{env, fBytes(9, g.r.Bytes(16)), env}
		}
		emit(msg{join(fs), "envelope-duplicate-identical"})
	}
	// any message that already carries a field 12: repeat one occurrence verbatim at a random later position
	for i := 0; i < f.Count(160); i++ {
		var fs []field
		var at []int
		for tries := 0; tries < 50 && len(at) == 0; tries++ {
			fs = nil
			switch g.r.Intn(3) {
			case 0:
				fs = g.fullV2()
			case 1: // soup that may hold field 12 with any wire type
				for j := g.r.Range(2, 9); j > 0; j-- {
					num := uint64(g.r.Pick(12, 12, 9, 6, 7, 5, 13, 1, 3))
					if g.r.Chance(2, 3) && num >= 6 && num <= 12 {
						fs = append(fs, g.goodPrincipal(num))
					} else if f := g.anyField(num, 0); f.typ != 4 && f.typ <= 5 {
						fs = append(fs, f)
					}
				}
			default:
				fs = g.shuffle(g.fullV2())
			}
			at = at[:0]
			for j, f := range fs {
				if f.num == 12 {
					at = append(at, j)
				}
			}
		}
		if len(at) == 0 {
			fs = g.fullV2()
			at = []int{len(fs) - 1}
		}
		src := at[g.r.Intn(len(at))]
		pos := g.r.Range(src+1, len(fs))
		dup := append(append(append([]field{}, fs[:pos]...), fs[src]), fs[pos:]...)
		emit(msg{join(dup), "field12-repeated-verbatim"})
	}
	// envelope size boundary: 16384 accepted, 16385 rejected
	for i := 0; i < f.Count(6); i++ {
		fs := g.fullV2()
		fs[len(fs)-1] = fBytes(12, g.text([]int{16384, 16385, 16383}[i%3]))
		emit(msg{join(fs), "envelope-size-boundary"})
	}
	// group nesting around protowire's recursion limit (10000): one case each, fixed shapes
	for _, d := range []int{50, 10001, 10002} {
		emit(msg{append(fVarint(6, 2).raw, nested(uint64(13), d)...), fmt.Sprintf("nesting-%d", d)})
	}
	out.Extra("unknown_region_differs_from_generator_expectation", unexpectedRegion)
	out.Finish()
}
