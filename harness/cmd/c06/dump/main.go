// C06 child process: imports gate's proto/state package (whose init() runs every Register call and PANICS on a
// duplicate id/type — which is why this is a separate process: the parent reports such a crash as a
// violation instead of dying with it) and dumps the live registries through the public API as JSON.
//
//	dump <protocol>...   probes every protocol of version.Versions plus the given extra protocols
package main

import (
	"encoding/json"
	"fmt"
	"os"
	"reflect"
	"sort"
	"strconv"

	"go.minekube.com/gate/pkg/edition/java/proto/state"
	"go.minekube.com/gate/pkg/edition/java/proto/version"
	"go.minekube.com/gate/pkg/gate/proto"
)

type IDType struct {
	ID   int    `json:"id"`
	Type string `json:"type"`
}

type Table struct {
	State       string   `json:"state"`
	Dir         string   `json:"dir"`
	Protocol    int      `json:"protocol"`
	Nil         bool     `json:"nil"`
	RegProtocol int      `json:"reg_protocol"`
	IDs         []IDType `json:"ids"`   // id -> type of CreatePacket(id), for every key of PacketIDs
	Types       []IDType `json:"types"` // type -> PacketID(new(type)), for every key of PacketTypes
}

type Version struct {
	Protocol int      `json:"protocol"`
	Names    []string `json:"names"`
}

type Dump struct {
	Versions []Version         `json:"versions"`
	Min      int               `json:"min"`
	Max      int               `json:"max"`
	Tables   []Table           `json:"tables"`
	Problems []string          `json:"problems"` // API/map inconsistencies (each is a violation on its own)
	TypePkg  map[string]string `json:"type_pkg"`
}

func main() {
	var d Dump
	d.TypePkg = map[string]string{}
	for _, v := range version.Versions {
		d.Versions = append(d.Versions, Version{int(v.Protocol), v.Names})
	}
	d.Min, d.Max = int(version.MinimumVersion.Protocol), int(version.MaximumVersion.Protocol)
	var protocols []int
	seen := map[int]bool{}
	for _, v := range version.Versions {
		if !seen[int(v.Protocol)] {
			seen[int(v.Protocol)] = true
			protocols = append(protocols, int(v.Protocol))
		}
	}
	for _, a := range os.Args[1:] {
		n, err := strconv.Atoi(a)
		if err != nil {
			fmt.Fprintln(os.Stderr, "bad protocol argument", a)
			os.Exit(3)
		}
		if !seen[n] {
			seen[n] = true
			protocols = append(protocols, n)
		}
	}
	regs := []struct {
		name string
		r    *state.Registry
	}{{"Handshake", state.Handshake}, {"Status", state.Status}, {"Login", state.Login}, {"Config", state.Config}, {"Play", state.Play}}
	name := func(t reflect.Type) string {
		s := t.String()
		if prev, ok := d.TypePkg[s]; ok && prev != t.PkgPath() {
			d.Problems = append(d.Problems, fmt.Sprintf("two packet types print as %s: %s and %s", s, prev, t.PkgPath()))
		}
		d.TypePkg[s] = t.PkgPath()
		return s
	}
	for _, rg := range regs {
		for _, dir := range []proto.Direction{proto.ClientBound, proto.ServerBound} {
			for _, p := range protocols {
				t := Table{State: rg.name, Dir: dir.String(), Protocol: p}
				pr := state.FromDirection(dir, rg.r, proto.Protocol(p))
				if pr == nil {
					t.Nil = true
					d.Tables = append(d.Tables, t)
					continue
				}
				t.RegProtocol = int(pr.Protocol)
				where := fmt.Sprintf("%s/%s/%d", rg.name, dir, p)
				for id, typ := range pr.PacketIDs {
					pk := pr.CreatePacket(id)
					if pk == nil {
						d.Problems = append(d.Problems, fmt.Sprintf("%s: CreatePacket(%#x) = nil although PacketIDs has %s", where, int(id), typ))
						t.IDs = append(t.IDs, IDType{int(id), name(typ)})
						continue
					}
					got := proto.TypeOf(pk)
					if got != typ {
						d.Problems = append(d.Problems, fmt.Sprintf("%s: CreatePacket(%#x) is %s, PacketIDs says %s", where, int(id), got, typ))
					}
					t.IDs = append(t.IDs, IDType{int(id), name(got)})
				}
				for typ, id := range pr.PacketTypes {
					pk, ok := reflect.New(typ).Interface().(proto.Packet)
					if !ok {
						d.Problems = append(d.Problems, fmt.Sprintf("%s: %s does not implement proto.Packet", where, typ))
						t.Types = append(t.Types, IDType{int(id), name(typ)})
						continue
					}
					got, found := pr.PacketID(pk)
					if !found || got != id {
						d.Problems = append(d.Problems, fmt.Sprintf("%s: PacketID(%s) = %#x,%v, PacketTypes says %#x", where, typ, int(got), found, int(id)))
					}
					t.Types = append(t.Types, IDType{int(got), name(typ)})
				}
				sort.Slice(t.IDs, func(i, j int) bool { return t.IDs[i].ID < t.IDs[j].ID })
				sort.Slice(t.Types, func(i, j int) bool { return t.Types[i].Type < t.Types[j].Type })
				d.Tables = append(d.Tables, t)
			}
		}
	}
	if err := json.NewEncoder(os.Stdout).Encode(d); err != nil {
		fmt.Fprintln(os.Stderr, err)
		os.Exit(3)
	}
}
