// C06 harness: dumps the LIVE packet registries of the real code (state.Handshake/Status/Login/Config/Play x
// ClientBound/ServerBound) for every protocol of version.Versions plus unknown protocols, through the public API,
// and writes one Coq case per (state, direction, protocol).
//
// The registries are filled by the init() of gate's proto/state package, which panics on a duplicate id or
// type.  A Go program cannot recover from a panic in a dependency's init(), so the dump runs in a child process
// (harness/cmd/c06/dump, built here with the same module file the driver used for this binary); if the child
// dies the panic text is reported as a violation (out.GoViolation) instead of the harness dying with it.
package main

import (
	"bytes"
	"crypto/sha256"
	"encoding/hex"
	"encoding/json"
	"fmt"
	"os"
	"os/exec"
	"path/filepath"
	"regexp"
	"sort"
	"strconv"
	"strings"

	"verifharness/lib"
)

type idType struct {
	ID   int    `json:"id"`
	Type string `json:"type"`
}

type table struct {
	State       string   `json:"state"`
	Dir         string   `json:"dir"`
	Protocol    int      `json:"protocol"`
	Nil         bool     `json:"nil"`
	RegProtocol int      `json:"reg_protocol"`
	IDs         []idType `json:"ids"`
	Types       []idType `json:"types"`
}

type versionT struct {
	Protocol int      `json:"protocol"`
	Names    []string `json:"names"`
}

type dump struct {
	Versions []versionT        `json:"versions"`
	Min      int               `json:"min"`
	Max      int               `json:"max"`
	Tables   []table           `json:"tables"`
	Problems []string          `json:"problems"`
	TypePkg  map[string]string `json:"type_pkg"`
}

func fatal(a ...any) {
	fmt.Fprintln(os.Stderr, a...)
	os.Exit(2)
}

func harnessDir() string {
	hdir, err := os.Getwd()
	if err != nil {
		fatal(err)
	}
	if _, err := os.Stat(filepath.Join(hdir, "cmd", "c06", "dump", "main.go")); err != nil {
		hdir = "/verif/harness"
	}
	return hdir
}

// buildChild compiles ./cmd/c06/dump against the same gate tree as this binary.
func buildChild() string {
	hdir := harnessDir()
	repo := os.Getenv("VERIF_REPO")
	if repo == "" {
		repo = "/repo"
	}
	bin := filepath.Join(filepath.Dir(hdir), "bin", "c06dump")
	args := []string{"build"}
	if repo != "/repo" {
		h := sha256.Sum256([]byte(repo))
		alt := hex.EncodeToString(h[:])[:8]
		bin += "-alt" + alt
		d := filepath.Join(hdir, ".alt", alt)
		mod := filepath.Join(d, "go.mod")
		if _, err := os.Stat(mod); err != nil { // normally written by the driver just before
			gm, err := os.ReadFile(filepath.Join(hdir, "go.mod"))
			if err != nil {
				fatal(err)
			}
			os.MkdirAll(d, 0o755)
			os.WriteFile(mod, []byte(strings.ReplaceAll(string(gm), "=> /repo", "=> "+repo)), 0o644)
			sum, _ := os.ReadFile(filepath.Join(repo, "go.sum"))
			os.WriteFile(filepath.Join(d, "go.sum"), sum, 0o644)
		}
		args = append(args, "-modfile="+mod)
	}
	args = append(args, "-tags", "verif", "-o", bin, "./cmd/c06/dump")
	cmd := exec.Command("go1.26", args...)
	cmd.Dir = hdir
	cmd.Env = append(os.Environ(), "GOFLAGS=-mod=mod", "GOPROXY=off", "GOSUMDB=off", "GOTOOLCHAIN=local")
	if outp, err := cmd.CombinedOutput(); err != nil {
		fatal("building the C06 dump child failed:", err, "\n"+string(outp))
	}
	return bin
}

func main() {
	f := lib.ParseFlags()
	rng := lib.NewRng(f.Seed)
	out := lib.NewOut("C06", f)
	out.Rule = "exhaustive: 5 states x 2 directions x every protocol of the live version.Versions (including the pseudo versions -1/-2), plus unknown protocols (fixed boundary list and seeded random ones) for the fallback clause; one case = one state.FromDirection(dir, registry, protocol) observed through Protocol/CreatePacket/PacketID; distinct = distinct (state, dir, protocol, observed table); non-trivial = the resolved registry has at least one packet or the protocol is not a supported version"

	// unknown protocols: neighbours of real ones, gaps, extremes, then random (never a live version: filtered below)
	extra := []int{-3, 0, 1, 3, 6, 46, 48, 106, 392, 500, 734, 777, 1000, 999999, 2147483647, -2147483648}
	nrand := f.Count(8)
	for i := 0; i < nrand; i++ {
		switch rng.Intn(3) {
		case 0:
			extra = append(extra, rng.Range(-50, 900))
		case 1:
			extra = append(extra, rng.Range(777, 1<<20))
		default:
			extra = append(extra, int(int32(rng.U64())))
		}
	}

	bin := buildChild()
	args := make([]string, len(extra))
	for i, e := range extra {
		args[i] = fmt.Sprint(e)
	}
	cmd := exec.Command(bin, args...)
	var stdout, stderr bytes.Buffer
	cmd.Stdout, cmd.Stderr = &stdout, &stderr
	if err := cmd.Run(); err != nil {
		msg := stderr.String()
		if len(msg) > 3000 {
			msg = msg[:3000]
		}
		// The observation of this run is "no registry can be resolved at all": one case with an empty live
		// version list and a nil registry for the handshake table every connection starts in (the judge's
		// fallback clause is false on it), carrying the panic text as its description.
		out.Imports = "From Verif Require Import Model.Registry.\n"
		out.Add(lib.App("Check.C06.mk", "Handshake", "ServerBound", lib.Z(4), "nil", lib.Z(0), lib.Z(0), "None", "None"),
			map[string]any{
				"what":  "the process that imports gate's proto/state package died before main(): package init (the Register calls of register.go) panicked, so no packet registry exists",
				"error": err.Error(), "stderr": msg,
				"input": "importing go.minekube.com/gate/pkg/edition/java/proto/state (every gate start-up); rerun: " + bin,
			}, true, "child-crashed")
		out.Finish()
		return
	}
	var d dump
	if err := json.Unmarshal(stdout.Bytes(), &d); err != nil {
		fatal("cannot parse the child's dump:", err)
	}
	for _, p := range d.Problems {
		out.GoViolation(map[string]any{"known": nil, "index": -1, "what": "registry API and maps disagree", "detail": p})
	}

	live := map[int]bool{}
	liveList := make([]string, len(d.Versions))
	lowest, haveLowest := 0, false
	for i, v := range d.Versions {
		live[v.Protocol] = true
		liveList[i] = lib.Z(int64(v.Protocol))
		if v.Protocol >= 0 && (!haveLowest || v.Protocol < lowest) {
			lowest, haveLowest = v.Protocol, true
		}
	}
	// type dictionary (one definition per type name keeps the shards small)
	var tnames []string
	for n := range d.TypePkg {
		tnames = append(tnames, n)
	}
	sort.Strings(tnames)
	tix := map[string]string{}
	var pre strings.Builder
	pre.WriteString("From Verif Require Import Model.Registry.\nImport ListNotations.\nOpen Scope string_scope.\n")
	pre.WriteString("Definition LV : list Z := " + lib.List(liveList) + ".\n")
	for i, n := range tnames {
		for _, r := range n {
			if r < 0x20 || r > 0x7e || r == '"' {
				fatal("unexpected character in type name", n)
			}
		}
		tix[n] = fmt.Sprintf("T%d", i)
		fmt.Fprintf(&pre, "Definition T%d := \"%s\".\n", i, n)
	}
	otable := func(t *table) string {
		if t == nil || t.Nil {
			return "None"
		}
		ids := lib.ListOf(t.IDs, func(e idType) string { return lib.Pair(lib.Z(int64(e.ID)), tix[e.Type]) })
		tys := lib.ListOf(t.Types, func(e idType) string { return lib.Pair(tix[e.Type], lib.Z(int64(e.ID))) })
		return lib.Some(lib.App("Check.C06.mkO", lib.Z(int64(t.RegProtocol)), ids, tys))
	}
	byKey := map[string]*table{}
	for i := range d.Tables {
		t := &d.Tables[i]
		byKey[fmt.Sprintf("%s/%s/%d", t.State, t.Dir, t.Protocol)] = t
	}
	states := []string{"Handshake", "Status", "Login", "Config", "Play"}
	dirs := []string{"ClientBound", "ServerBound"}
	for _, s := range states {
		for _, dr := range dirs {
			var mt *table
			if haveLowest {
				mt = byKey[fmt.Sprintf("%s/%s/%d", s, dr, lowest)]
			}
			fmt.Fprintf(&pre, "Definition MIN_%s_%s : option Check.C06.otable := %s.\n", s, dr, otable(mt))
		}
	}
	out.Imports = pre.String()

	var order []int
	for _, v := range d.Versions {
		order = append(order, v.Protocol)
	}
	for _, e := range extra {
		if !live[e] {
			order = append(order, e)
		}
	}
	for _, s := range states {
		for _, dr := range dirs {
			emitted := map[int]bool{}
			for _, p := range order {
				if emitted[p] {
					continue
				}
				emitted[p] = true
				t := byKey[fmt.Sprintf("%s/%s/%d", s, dr, p)]
				if t == nil {
					fatal("child did not probe", s, dr, p)
				}
				term := lib.App("Check.C06.mk", s, dr, lib.Z(int64(p)), "LV", lib.Z(int64(d.Min)), lib.Z(int64(d.Max)),
					otable(t), fmt.Sprintf("MIN_%s_%s", s, dr))
				supported := live[p] && p >= 0
				kind := "supported-version"
				if !supported {
					kind = "unknown-protocol"
					if live[p] {
						kind = "pseudo-version"
					}
				}
				inverse := len(t.IDs) == len(t.Types)
				byID := map[int]string{}
				for _, e := range t.IDs {
					byID[e.ID] = e.Type
				}
				for _, e := range t.Types {
					if byID[e.ID] != e.Type {
						inverse = false
					}
				}
				desc := map[string]any{"state": s, "dir": dr, "protocol": p, "kind": kind, "nil_registry": t.Nil, "hint_maps_inverse": inverse, "types": t.Types,
					"resolved_protocol": t.RegProtocol, "ids": t.IDs, "call": fmt.Sprintf("state.FromDirection(proto.%s, state.%s, %d)", dr, s, p)}
				size := "empty-table"
				if len(t.IDs) > 0 {
					size = "non-empty-table"
				}
				if t.Nil {
					size = "nil-registry"
				}
				out.Add(term, desc, len(t.IDs) > 0 || !supported, "kind="+kind, "state="+s, "dir="+dr, size)
			}
		}
	}
	// translator bookkeeping of the Gen file the proofs and the judge were built from (evidence only)
	if gen, err := os.ReadFile(filepath.Join(filepath.Dir(harnessDir()), "coq", "Gen", "Registry.v")); err == nil {
		for _, k := range []string{"untranslated", "n_registrations", "n_mappings", "n_versions"} {
			if m := regexp.MustCompile(`Definition ` + k + ` : nat := (\d+)%nat`).FindSubmatch(gen); m != nil {
				n, _ := strconv.Atoi(string(m[1]))
				out.Extra("translator_registry_"+k, n)
			}
		}
	}
	out.Extra("live_versions", len(d.Versions))
	out.Extra("packet_types", len(tnames))
	out.Finish()
}
