// C33 harness: PROXY protocol headers are honoured only from trusted upstreams.
//
// NetCase : netutil.ParseTrustedNetworks / TrustedNetworks.Contains / netutil.Host on generated
//
//	trusted lists and peer addresses (v4, v6, mapped, zoned, CIDR boundary bits, non-IP, garbage).
//
// WrapCase: the real newProxyProtocol + wrapConnTimeout (hook VerifC33Wrap) around a fake net.Conn
//
//	whose RemoteAddr is generated and whose stream starts with a PROXY v1 line, a v2 binary
//	header (PROXY or LOCAL), a Minecraft handshake, a short "PROX", or nothing.
//
// Every string that gate hands to net/netip is also handed to netip directly here and the result
// is printed next to it (oracle) so the Coq side can tell a wrong reference parser from a wrong gate.
package main

import (
	"bytes"
	"errors"
	"fmt"
	"io"
	"net"
	"net/netip"
	"strings"
	"time"

	"github.com/pires/go-proxyproto"

	"go.minekube.com/gate/pkg/edition/java/config"
	"go.minekube.com/gate/pkg/edition/java/proxy"
	"go.minekube.com/gate/pkg/util/netutil"

	"verifharness/lib"
)

// ---------- fake connection ----------

type strAddr struct{ network, s string }

func (a strAddr) Network() string { return a.network }
func (a strAddr) String() string  { return a.s }

type fakeConn struct {
	r      *bytes.Reader
	remote net.Addr
}

func (c *fakeConn) Read(p []byte) (int, error)       { return c.r.Read(p) }
func (c *fakeConn) Write(p []byte) (int, error)      { return len(p), nil }
func (c *fakeConn) Close() error                     { return nil }
func (c *fakeConn) LocalAddr() net.Addr              { return &net.TCPAddr{IP: net.IPv4(192, 0, 2, 1), Port: 25565} }
func (c *fakeConn) RemoteAddr() net.Addr             { return c.remote }
func (c *fakeConn) SetDeadline(time.Time) error      { return nil }
func (c *fakeConn) SetReadDeadline(time.Time) error  { return nil }
func (c *fakeConn) SetWriteDeadline(time.Time) error { return nil }

// ---------- generators ----------

var octetEdges = []int{0, 1, 9, 10, 99, 100, 127, 128, 199, 200, 249, 250, 254, 255}

func genOctet(r *lib.Rng) int {
	if r.Chance(1, 2) {
		return octetEdges[r.Intn(len(octetEdges))]
	}
	return r.Intn(256)
}

func genV4(r *lib.Rng) netip.Addr {
	return netip.AddrFrom4([4]byte{byte(genOctet(r)), byte(genOctet(r)), byte(genOctet(r)), byte(genOctet(r))})
}

func genV6(r *lib.Rng) netip.Addr {
	var b [16]byte
	switch r.Intn(6) {
	case 0: // random
		copy(b[:], r.Bytes(16))
	case 1: // mostly zero groups
		copy(b[:], r.Bytes(16))
		for g := 0; g < 8; g++ {
			if r.Chance(2, 3) {
				b[2*g], b[2*g+1] = 0, 0
			}
		}
	case 2: // unique local / link local
		copy(b[:], r.Bytes(16))
		b[0] = byte(r.Pick(0xfc, 0xfd, 0xfe))
		b[1] = byte(r.Pick(0x80, 0xbf, 0xc0, 0x00))
	case 3: // loopback neighbourhood
		b[15] = byte(r.Intn(3))
	case 4: // small groups (leading zeros inside groups)
		for g := 0; g < 8; g++ {
			b[2*g+1] = byte(r.Intn(16))
			if r.Chance(1, 3) {
				b[2*g] = byte(r.Intn(16))
			}
		}
	case 5: // near the mapped range, not mapped
		copy(b[12:], r.Bytes(4))
		b[10], b[11] = byte(r.Pick(0xff, 0xfe, 0x00)), byte(r.Pick(0xff, 0xfe))
		if b[10] == 0xff && b[11] == 0xff {
			b[9] = 1
		}
	}
	a := netip.AddrFrom16(b)
	if a.Is4In6() {
		b[0] = 0x20
		a = netip.AddrFrom16(b)
	}
	return a
}

func hexGroup(r *lib.Rng, v int) string {
	s := fmt.Sprintf("%x", v)
	switch r.Intn(5) {
	case 0:
		s = strings.ToUpper(s)
	case 1:
		s = fmt.Sprintf("%04x", v)
	}
	return s
}

// textV6 renders a (valid) textual form of a: Go's canonical form, or a hand-made one with a
// randomly placed "::", padded groups, upper case, or an embedded IPv4 tail.
func textV6(r *lib.Rng, a netip.Addr) string {
	b := a.As16()
	if r.Chance(1, 3) {
		return a.String()
	}
	g := make([]int, 8)
	for i := range g {
		g[i] = int(b[2*i])<<8 | int(b[2*i+1])
	}
	n := 8
	tail := ""
	if r.Chance(1, 4) {
		n = 6
		tail = fmt.Sprintf("%d.%d.%d.%d", b[12], b[13], b[14], b[15])
	}
	// candidate zero runs inside the first n groups
	type run struct{ lo, hi int }
	var runs []run
	for i := 0; i < n; i++ {
		if g[i] == 0 {
			j := i
			for j < n && g[j] == 0 {
				j++
			}
			for lo := i; lo < j; lo++ {
				for hi := lo + 1; hi <= j; hi++ {
					runs = append(runs, run{lo, hi})
				}
			}
			i = j
		}
	}
	parts := func(lo, hi int) string {
		var ps []string
		for i := lo; i < hi; i++ {
			ps = append(ps, hexGroup(r, g[i]))
		}
		return strings.Join(ps, ":")
	}
	var s string
	if len(runs) > 0 && r.Chance(3, 4) {
		ru := runs[r.Intn(len(runs))]
		s = parts(0, ru.lo) + "::" + parts(ru.hi, n)
		if tail != "" {
			if ru.hi < n {
				s += ":" + tail
			} else {
				s += tail
			}
		}
		return s
	}
	s = parts(0, n)
	if tail != "" {
		s += ":" + tail
	}
	return s
}

func mappedText(r *lib.Rng, a netip.Addr) string {
	b := a.As4()
	switch r.Intn(4) {
	case 0:
		return fmt.Sprintf("::ffff:%d.%d.%d.%d", b[0], b[1], b[2], b[3])
	case 1:
		return fmt.Sprintf("0:0:0:0:0:ffff:%d.%d.%d.%d", b[0], b[1], b[2], b[3])
	case 2:
		return fmt.Sprintf("::ffff:%x:%x", int(b[0])<<8|int(b[1]), int(b[2])<<8|int(b[3]))
	default:
		return fmt.Sprintf("::FFFF:%d.%d.%d.%d", b[0], b[1], b[2], b[3])
	}
}

var zones = []string{"eth0", "1", "en0", "lo", "wlan0.5", "z%z", "a/b", "x y", "[", "Ethernet 2"}

var badIPs = []string{
	"", " ", "not-an-ip", "localhost", "10.0.0.256", "10.0.0", "10.0.0.0.1", "10..0.1", ".10.0.0.1", "10.0.0.1.",
	"010.0.0.1", "10.00.0.1", "10.0.0.01", "1.2.3.4%eth0", "1.2.3.a", "1.2.3.-4", "0x10.0.0.1", "1.2.3.4 5",
	":", ":::", "1:", ":1", "1::2::3", "12345::", "1:2:3:4:5:6:7:8:9", "1:2:3:4:5:6:7", "1:2:3:4:5:6:7:8::",
	"::1:2:3:4:5:6:7:8", "g::", "fe80::1%", "%eth0", "::%", "1:2:3:4:5:6:7:1.2.3.4", "1:2:3:4:5:1.2.3.4",
	"::1.2.3", "::1.2.3.4.5", "::01.2.3.4", "::256.1.1.1", "1.2.3.4::", "::ffff:1.2.3.4:5", "fe80:::1", "1::2:",
	"[::1]", "::1]", "2001:db8::/", "a.b.c.d", "1,2,3,4", "1.2.3.4\x00", "::\t", "１.2.3.4",
}

var badBits = []string{"", "08", "00", "+8", "-1", "8 ", " 8", "33", "129", "999", "99999999999999999999999", "1e1", "0x8", "8/8", "a", "٣"}

var spaces = []string{" ", "  ", "\t", "\n", "\r\n", " \t ", "\v", "\f"}

// entry generates one trusted-list entry and says what class it belongs to.
func genEntry(r *lib.Rng) (string, string) {
	var s, class string
	switch k := r.Intn(20); {
	case k < 4:
		s, class = genV4(r).String(), "entry-v4"
	case k < 8:
		a := genV4(r)
		bits := r.Pick(0, 1, 7, 8, 9, 12, 15, 16, 17, 23, 24, 25, 30, 31, 32)
		s, class = fmt.Sprintf("%s/%d", a, bits), "entry-v4-cidr"
	case k < 10:
		s, class = textV6(r, genV6(r)), "entry-v6"
	case k < 14:
		a := genV6(r)
		bits := r.Pick(0, 1, 7, 8, 10, 16, 32, 48, 63, 64, 65, 96, 104, 120, 127, 128)
		s, class = fmt.Sprintf("%s/%d", textV6(r, a), bits), "entry-v6-cidr"
	case k == 14:
		s, class = mappedText(r, genV4(r)), "entry-mapped"
	case k == 15:
		s, class = fmt.Sprintf("%s/%d", mappedText(r, genV4(r)), r.Pick(96, 104, 120, 128, 0, 24)), "entry-mapped-cidr"
	case k == 16:
		s, class = textV6(r, genV6(r))+"%"+zones[r.Intn(len(zones))], "entry-v6-zoned"
		if r.Chance(1, 2) {
			s += "/64"
			class = "entry-v6-zoned-cidr"
		}
	case k == 17:
		s, class = badIPs[r.Intn(len(badIPs))], "entry-bad-ip"
	case k == 18:
		var a string
		if r.Bool() {
			a = genV4(r).String()
		} else {
			a = textV6(r, genV6(r))
		}
		s, class = a+"/"+badBits[r.Intn(len(badBits))], "entry-bad-bits"
	default:
		s, class = badIPs[r.Intn(len(badIPs))]+"/"+fmt.Sprint(r.Intn(40)), "entry-bad-ip-cidr"
	}
	if r.Chance(1, 4) {
		s = spaces[r.Intn(len(spaces))] + s
		class += "+space"
	}
	if r.Chance(1, 6) {
		s += spaces[r.Intn(len(spaces))]
	}
	return s, class
}

func genValidEntry(r *lib.Rng) string {
	for {
		s, _ := genEntry(r)
		if _, err := netutil.ParseTrustedNetworks([]string{s}); err == nil {
			return s
		}
	}
}

// flipBit flips bit i (0 = most significant of the address family) of a.
func flipBit(a netip.Addr, i int) netip.Addr {
	if a.Is4() {
		b := a.As4()
		b[i/8] ^= 0x80 >> (i % 8)
		return netip.AddrFrom4(b)
	}
	b := a.As16()
	b[i/8] ^= 0x80 >> (i % 8)
	return netip.AddrFrom16(b)
}

func randomizeHostBits(r *lib.Rng, a netip.Addr, from int) netip.Addr {
	for i := from; i < a.BitLen(); i++ {
		if r.Bool() {
			a = flipBit(a, i)
		}
	}
	return a
}

// peerIP picks an address relative to the trusted prefixes: inside one, just outside its last
// prefix bit, with the first host bit flipped, or unrelated.
func peerIP(r *lib.Rng, trusted []netip.Prefix) (netip.Addr, string) {
	if len(trusted) > 0 && r.Chance(3, 4) {
		p := trusted[r.Intn(len(trusted))]
		a := p.Addr()
		n := p.Bits()
		switch r.Intn(4) {
		case 0:
			return randomizeHostBits(r, a, n), "peer-inside"
		case 1:
			if n > 0 {
				return randomizeHostBits(r, flipBit(a, n-1), n), "peer-last-prefix-bit-flipped"
			}
			return randomizeHostBits(r, a, n), "peer-inside"
		case 2:
			if n < a.BitLen() {
				return flipBit(a, n), "peer-first-host-bit-flipped"
			}
			return a, "peer-inside"
		default:
			if n > 1 {
				return randomizeHostBits(r, flipBit(a, r.Intn(n)), n), "peer-some-prefix-bit-flipped"
			}
			return a, "peer-inside"
		}
	}
	if r.Bool() {
		return genV4(r), "peer-random-v4"
	}
	return genV6(r), "peer-random-v6"
}

// peerAddr turns an IP into a net.Addr of a generated shape.
func peerAddr(r *lib.Rng, ip netip.Addr) (net.Addr, string) {
	port := r.Pick(0, 1, 80, 25565, 65535)
	if ip.Is4() {
		switch r.Intn(6) {
		case 0:
			return &net.TCPAddr{IP: net.IP(ip.AsSlice()), Port: port}, "tcp4"
		case 1:
			return net.TCPAddrFromAddrPort(netip.AddrPortFrom(netip.AddrFrom16(ip.As16()), uint16(port))), "tcp-mapped-struct"
		case 2:
			return strAddr{"tcp", fmt.Sprintf("[%s]:%d", mappedText(r, ip), port)}, "str-mapped"
		case 3:
			return strAddr{"tcp", fmt.Sprintf("[%s%%%s]:%d", mappedText(r, ip), zones[r.Intn(len(zones))], port)}, "str-mapped-zoned"
		case 4:
			return strAddr{"tcp", ip.String()}, "str-v4-noport"
		default:
			return strAddr{"tcp", fmt.Sprintf("%s:%d", ip, port)}, "str-v4"
		}
	}
	switch r.Intn(6) {
	case 0:
		return &net.TCPAddr{IP: net.IP(ip.AsSlice()), Port: port}, "tcp6"
	case 1:
		return &net.TCPAddr{IP: net.IP(ip.AsSlice()), Port: port, Zone: zones[r.Intn(5)]}, "tcp6-zoned"
	case 2:
		return strAddr{"tcp", fmt.Sprintf("[%s%%%s]:%d", textV6(r, ip), zones[r.Intn(len(zones))], port)}, "str-v6-zoned"
	case 3:
		return strAddr{"tcp", textV6(r, ip)}, "str-v6-noport"
	case 4:
		return strAddr{"tcp", textV6(r, ip) + "%" + zones[r.Intn(5)]}, "str-v6-zoned-noport"
	default:
		return strAddr{"tcp", fmt.Sprintf("[%s]:%d", textV6(r, ip), port)}, "str-v6"
	}
}

var nonIPPeers = []net.Addr{
	&net.UnixAddr{Name: "/tmp/gate.sock", Net: "unix"},
	&net.UnixAddr{Name: "@abstract", Net: "unix"},
	&net.UnixAddr{Name: "", Net: "unix"},
	&net.UnixAddr{Name: "/run/a:b.sock", Net: "unix"},
	strAddr{"pipe", "pipe"},
	strAddr{"tcp", ""},
	strAddr{"tcp", "localhost:25565"},
	strAddr{"tcp", "[::1"},
	strAddr{"tcp", "::1]:80"},
	strAddr{"tcp", "[[::1]]:80"},
	strAddr{"tcp", "[10.0.0.1]:80"},
	strAddr{"tcp", "10.0.0.1:80:90"},
	strAddr{"tcp", "[::1]:80:90"},
	strAddr{"tcp", "[::1]x:80"},
	strAddr{"tcp", ":25565"},
	strAddr{"tcp", "10.0.0.1:"},
	strAddr{"tcp", "010.0.0.1:80"},
	strAddr{"tcp", "[fe80::1%]:80"},
	strAddr{"tcp", "127.0.0.1%lo:80"},
	strAddr{"udp", "127.1:80"},
}

func genPeer(r *lib.Rng, trusted []netip.Prefix) (net.Addr, []string) {
	switch k := r.Intn(12); {
	case k == 0:
		a := nonIPPeers[r.Intn(len(nonIPPeers))]
		return a, []string{"peer-non-ip"}
	case k == 1 && r.Chance(1, 3):
		return nil, []string{"peer-nil"}
	default:
		ip, c1 := peerIP(r, trusted)
		a, c2 := peerAddr(r, ip)
		return a, []string{c1, "shape=" + c2}
	}
}

// ---------- printing ----------

func goIP(a netip.Addr, bits int) string {
	b := a.As16()
	return "(" + lib.Bool(a.Is6()) + ", " + lib.Bytes(b[:]) + ", " + lib.N(uint64(bits)) + ", " + lib.Str(a.Zone()) + ")"
}

// oracle prints (text, is_prefix, netip's own answer)
func oracle(s string, isPrefix bool) string {
	res := "None"
	if isPrefix {
		if p, err := netip.ParsePrefix(s); err == nil {
			res = lib.Some(goIP(p.Addr(), p.Bits()))
		}
	} else {
		if a, err := netip.ParseAddr(s); err == nil {
			res = lib.Some(goIP(a, 0))
		}
	}
	return "(" + lib.Str(s) + ", " + lib.Bool(isPrefix) + ", " + res + ")"
}

func entryOracles(entries []string) []string {
	var os []string
	for _, e := range entries {
		t := strings.TrimSpace(e)
		os = append(os, oracle(t, strings.Contains(t, "/")))
	}
	return os
}

func optStr(a net.Addr) string {
	if a == nil {
		return "None"
	}
	return lib.Some(lib.Str(a.String()))
}

func isASCII(s string) bool {
	for i := 0; i < len(s); i++ {
		if s[i] >= 0x80 {
			return false
		}
	}
	return true
}

// ---------- streams ----------

func varint(v int) []byte {
	var out []byte
	u := uint32(v)
	for u >= 0x80 {
		out = append(out, byte(u)|0x80)
		u >>= 7
	}
	return append(out, byte(u))
}

func mcHandshake(r *lib.Rng, forceLen int) []byte {
	host := r.StringOver("abcdefghijklmnopqrstuvwxyz.", r.Range(1, 30))
	body := append([]byte{0x00}, varint(r.Pick(47, 340, 758, 767))...)
	body = append(body, varint(len(host))...)
	body = append(body, host...)
	body = append(body, byte(25565>>8), byte(25565&0xff))
	body = append(body, byte(r.Pick(1, 2)))
	for forceLen > 0 && len(body) < forceLen {
		body = append(body, 0)
	}
	if forceLen > 0 {
		body = body[:forceLen]
	}
	return append(varint(len(body)), body...)
}

func main() {
	f := lib.ParseFlags()
	rng := lib.NewRng(f.Seed)
	out := lib.NewOut("C33", f)
	out.Imports = "From Verif Require Import Base.Ip Model.Trusted.\n"
	out.Rule = "NetCase: 1-4 trusted-list entries (v4/v6 literals and CIDRs with boundary prefix lengths, IPv4-mapped forms, zoned, surrounded by ASCII space, malformed IPs/bits; entries are ASCII except two marked strings) and 6 peers placed relative to the parsed prefixes (inside, last prefix bit flipped, first host bit flipped) in every textual shape (ip:port, [v6]:port, mapped text, zoned, no port, *net.TCPAddr, unix, pipe, nil, bracket garbage). WrapCase: configured list (sometimes empty = defaults, sometimes invalid) x generated peer x first bytes {PROXY v1 line, v2 PROXY, v2 LOCAL, Minecraft handshake (also with first byte 0x50/0x0D), 'PROX', nothing}. distinct = distinct Coq term; non-trivial = NetCase with an accepted list and both trusted and untrusted peers, or a rejected list; WrapCase whose stream carries a header"

	nNet := f.Count(250)
	for i := 0; i < nNet; i++ {
		r := rng.Fork()
		ne := r.Pick(1, 1, 2, 2, 3, 4)
		var entries []string
		tags := []string{"kind=net"}
		allValid := r.Chance(2, 3)
		for j := 0; j < ne; j++ {
			if allValid {
				entries = append(entries, genValidEntry(r))
				tags = append(tags, "entry-valid")
			} else {
				e, c := genEntry(r)
				entries = append(entries, e)
				tags = append(tags, c)
			}
		}
		if r.Chance(1, 25) {
			entries = nil
			tags = append(tags, "entries-empty")
		}
		ascii := true
		for _, e := range entries {
			ascii = ascii && isASCII(e)
		}
		if !ascii { // outside the stated sub-language of trim_space (unicode.IsSpace path)
			for j := range entries {
				if !isASCII(entries[j]) {
					entries[j] = "1.2.3.4.5"
				}
			}
		}
		tn, err := netutil.ParseTrustedNetworks(entries)
		obsParsed := "None"
		if err == nil {
			var ps []string
			for _, p := range tn {
				b := p.Addr().As16()
				ps = append(ps, "("+lib.Bool(p.Addr().Is6())+", "+lib.Bytes(b[:])+", "+lib.N(uint64(p.Bits()))+")")
			}
			obsParsed = lib.Some(lib.List(ps))
			tags = append(tags, "list-accepted")
		} else {
			tags = append(tags, "list-rejected")
		}
		oracles := entryOracles(entries)
		var peers []string
		in, outside := 0, 0
		descPeers := []any{}
		if err == nil {
			for j := 0; j < 6; j++ {
				a, ptags := genPeer(r, []netip.Prefix(tn))
				tags = append(tags, ptags...)
				host := ""
				var got bool
				if a != nil {
					host = netutil.Host(a)
					oracles = append(oracles, oracle(host, false))
				}
				got = tn.Contains(a)
				if got {
					in++
				} else {
					outside++
				}
				peers = append(peers, "("+optStr(a)+", "+lib.Str(host)+", "+lib.Bool(got)+")")
				if a != nil {
					descPeers = append(descPeers, map[string]any{"addr": a.String(), "type": fmt.Sprintf("%T", a), "contains": got})
				} else {
					descPeers = append(descPeers, map[string]any{"addr": nil, "contains": got})
				}
			}
		}
		nt := err != nil || (in > 0 && outside > 0)
		out.Add(lib.App("NetCase", lib.ListOf(entries, lib.Str), lib.List(oracles), obsParsed, lib.List(peers)),
			map[string]any{"kind": "net", "entries": entries, "accepted": err == nil, "peers": descPeers}, nt, tags...)
	}

	nWrap := f.Count(250)
	for i := 0; i < nWrap; i++ {
		r := rng.Fork()
		tags := []string{"kind=wrap"}
		var entries []string
		switch k := r.Intn(10); {
		case k == 0:
			tags = append(tags, "cfg-default")
		case k == 1:
			e, _ := genEntry(r)
			if !isASCII(e) {
				e = "::ffff:1.2.3.4"
			}
			entries = []string{genValidEntry(r), e}
			tags = append(tags, "cfg-maybe-invalid")
		default:
			for j := r.Range(1, 3); j > 0; j-- {
				entries = append(entries, genValidEntry(r))
			}
			tags = append(tags, "cfg-valid")
		}
		resolved := config.ResolveProxyProtocolTrustedProxies(entries)
		tn, _ := netutil.ParseTrustedNetworks(resolved)
		peer, ptags := genPeer(r, []netip.Prefix(tn))
		tags = append(tags, ptags...)

		// stream
		payload := mcHandshake(r, 0)
		var hdr []byte
		fb := "NoHdr"
		hdrSrc := ""
		switch k := r.Intn(10); {
		case k < 2 || k == 2 || k == 3:
			v6 := r.Bool()
			h := &proxyproto.Header{Version: byte(r.Pick(1, 2)), Command: proxyproto.PROXY}
			var src, dst *net.TCPAddr
			if v6 {
				h.TransportProtocol = proxyproto.TCPv6
				src = &net.TCPAddr{IP: net.IP(genV6(r).AsSlice()), Port: r.Range(1, 65535)}
				dst = &net.TCPAddr{IP: net.IP(genV6(r).AsSlice()), Port: 25565}
			} else {
				h.TransportProtocol = proxyproto.TCPv4
				src = &net.TCPAddr{IP: net.IP(genV4(r).AsSlice()), Port: r.Range(1, 65535)}
				dst = &net.TCPAddr{IP: net.IP(genV4(r).AsSlice()), Port: 25565}
			}
			h.SourceAddr, h.DestinationAddr = src, dst
			b, err := h.Format()
			if err != nil {
				panic(err)
			}
			hdr, fb, hdrSrc = b, "HdrProxy", src.String()
			tags = append(tags, fmt.Sprintf("stream=proxy-v%d", h.Version))
		case k == 4:
			h := &proxyproto.Header{Version: 2, Command: proxyproto.LOCAL, TransportProtocol: proxyproto.UNSPEC}
			b, err := h.Format()
			if err != nil {
				panic(err)
			}
			hdr, fb = b, "HdrLocal"
			tags = append(tags, "stream=local-v2")
		case k == 5:
			payload = nil
			tags = append(tags, "stream=nothing")
		case k == 6:
			payload = []byte("PROX")
			tags = append(tags, "stream=short-PROX")
		case k == 7:
			payload = mcHandshake(r, r.Pick(0x50, 0x0d))
			tags = append(tags, "stream=handshake-first-byte-P-or-CR")
		default:
			tags = append(tags, "stream=handshake")
		}
		stream := append(append([]byte{}, hdr...), payload...)
		conn := &fakeConn{r: bytes.NewReader(stream), remote: peer}
		w, err := proxy.VerifC33Wrap(&config.Config{ProxyProtocolTrustedProxies: entries}, conn, 2*time.Second)
		cfgOK := err == nil
		obsRemote, obsClass, obsRead := "None", 0, []byte(nil)
		remoteDesc := any(nil)
		if cfgOK {
			ra := w.RemoteAddr()
			obsRemote = optStr(ra)
			data, rerr := io.ReadAll(w)
			switch {
			case rerr == nil:
				obsClass, obsRead = 0, data
			case errors.Is(rerr, proxyproto.ErrSuperfluousProxyHeader):
				obsClass = 1
			default:
				obsClass = 2
			}
			if rb := w.RemoteAddr(); optStr(rb) != obsRemote {
				obsClass = 3 // address changed between two calls
			}
			if ra != nil {
				remoteDesc = ra.String()
			}
		}
		oracles := entryOracles(resolved)
		host := ""
		if peer != nil {
			host = netutil.Host(peer)
			oracles = append(oracles, oracle(host, false))
		}
		var peerDesc any
		if peer != nil {
			peerDesc = map[string]any{"addr": peer.String(), "type": fmt.Sprintf("%T", peer)}
		}
		out.Add(lib.App("WrapCase", lib.ListOf(entries, lib.Str), lib.Bool(cfgOK), lib.List(oracles), optStr(peer), lib.Str(host),
			fb, lib.Str(hdrSrc), lib.Bytes(payload), obsRemote, lib.N(uint64(obsClass)), lib.Bytes(obsRead)),
			map[string]any{"kind": "wrap", "configured": entries, "peer": peerDesc, "first_bytes": fb, "header_source": hdrSrc,
				"stream_hex": fmt.Sprintf("%x", stream), "observed_remote": remoteDesc, "observed_read_class": obsClass, "cfg_ok": cfgOK},
			fb != "NoHdr", tags...)
	}
	out.Finish()
}
