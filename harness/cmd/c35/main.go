// C35 harness: drives real gate.Gate instances (gate.New with a Lite configuration, nothing
// started) through ApplyLiveConfig / ApplyLiveConfigIfVersion / ConfigSnapshot, sequentially
// and from concurrent goroutines, and writes what was observed for the Coq side to judge.
package main

import (
	"crypto/sha256"
	"encoding/hex"
	"encoding/json"
	"fmt"
	"go/ast"
	"go/parser"
	"go/token"
	"os"
	"path/filepath"
	"sort"
	"sync"
	"sync/atomic"
	"time"

	liteconfig "go.minekube.com/gate/pkg/edition/java/lite/config"
	"go.minekube.com/gate/pkg/edition/java/ping"
	"go.minekube.com/gate/pkg/gate"
	"go.minekube.com/gate/pkg/gate/config"
	"go.minekube.com/gate/pkg/util/configutil"

	"verifharness/lib"
)

// ---------- abstraction of a configuration: (rest, lite.enabled, routes) ----------

type content struct {
	rest   []byte
	lite   bool
	routes []byte
}

func digest(b []byte) []byte { h := sha256.Sum256(b); return h[:8] }

func routesDigest(rs []liteconfig.Route) []byte {
	if len(rs) == 0 { // nil and empty encode the same inside the configuration (omitempty)
		return digest([]byte("[]"))
	}
	b, err := json.Marshal(rs)
	if err != nil {
		panic(err)
	}
	return digest(b)
}

func alpha(c *config.Config) content {
	cp := *c
	j := cp.Config
	l := j.Lite
	j.Lite = liteconfig.Config{}
	cp.Config = j
	b, err := json.Marshal(&cp)
	if err != nil {
		panic(err)
	}
	return content{rest: digest(b), lite: l.Enabled, routes: routesDigest(l.Routes)}
}

// dg prints an 8-byte token as (d8 n), n = the bytes as a little-endian number (Check.C35.d8
// unpacks it); number literals are much cheaper for coqc than hex string literals
func dg(b []byte) string {
	if len(b) == 0 {
		return "[]"
	}
	if len(b) != 8 {
		return lib.Bytes(b)
	}
	var v uint64
	for i := 7; i >= 0; i-- {
		v = v<<8 | uint64(b[i])
	}
	return "(d8 " + lib.N(v) + ")"
}

func (c content) coq() string {
	return lib.App("mkCfg", dg(c.rest), lib.Bool(c.lite), dg(c.routes))
}

func (c content) key() string { return fmt.Sprintf("%x/%v/%x", c.rest, c.lite, c.routes) }

func versionBytes(v string) []byte {
	if v == "" {
		return nil
	}
	if len(v) >= 16 {
		if b, err := hex.DecodeString(v[:16]); err == nil {
			return b
		}
	}
	return append([]byte("?"), digest([]byte(v))[:7]...) // not a hex digest: still a token
}

// ---------- configurations ----------

func deepCopy(c *config.Config) *config.Config {
	b, err := json.Marshal(c)
	if err != nil {
		panic(err)
	}
	var out config.Config
	if err := json.Unmarshal(b, &out); err != nil {
		panic(err)
	}
	return &out
}

func baseLite() *config.Config {
	c := config.DefaultConfig
	c.Config.Bind = "127.0.0.1:25565"
	c.Config.Lite.Enabled = true
	c.Config.Lite.Routes = routePool(0)
	return deepCopy(&c)
}

func baseClassic() *config.Config {
	c := config.DefaultConfig
	c.Config.Bind = "127.0.0.1:25565"
	c.Config.Servers = map[string]string{"lobby": "localhost:25566"}
	c.Config.Try = []string{"lobby"}
	return deepCopy(&c)
}

// valid route sets (index 0 is the initial one); small so that the same content recurs
func routePool(i int) []liteconfig.Route {
	r0 := liteconfig.Route{
		Host:         []string{"play.example.test"},
		Backend:      []string{"backend.example.test:25565"},
		CachePingTTL: configutil.Duration(30 * time.Second),
	}
	switch i % 7 {
	case 0:
		return []liteconfig.Route{r0}
	case 1:
		r := r0
		r.CachePingTTL = configutil.Duration(time.Minute)
		return []liteconfig.Route{r}
	case 2:
		r := r0
		r.Backend = []string{"10.0.0.1:25565", "10.0.0.2:25565"}
		r.Strategy = liteconfig.StrategyRoundRobin
		return []liteconfig.Route{r}
	case 3:
		return []liteconfig.Route{r0, {Host: []string{"*.example.test", "example.test"}, Backend: []string{"10.0.0.3:25565"}, ProxyProtocol: true}}
	case 4:
		return []liteconfig.Route{{Host: []string{"other.example.test"}, Backend: []string{"other-backend.example.test:25566"}, CachePingTTL: configutil.Duration(-1), ModifyVirtualHost: true}}
	case 5:
		r := r0
		r.Fallback = &liteconfig.Status{
			MOTD:    &configutil.Component{},
			Version: ping.Version{Name: "Gate", Protocol: 765},
			Players: &ping.Players{Online: 1, Max: 20},
		}
		return []liteconfig.Route{r}
	default:
		r := r0
		r.TCPShieldRealIP = true
		r.Strategy = liteconfig.StrategyLeastConnections
		return []liteconfig.Route{r, r0}
	}
}

func invalidRoutes(i int) []liteconfig.Route {
	switch i % 4 {
	case 0:
		return []liteconfig.Route{}
	case 1:
		return []liteconfig.Route{{Host: []string{"play.example.test"}}} // no backend
	case 2:
		return []liteconfig.Route{{Host: []string{"play.example.test"}, Backend: []string{"b.example.test:25565"}, Strategy: "not-a-strategy"}}
	default:
		return []liteconfig.Route{{Backend: []string{"b.example.test:25565"}}} // no host
	}
}

type candidate struct {
	cfg   *config.Config // nil = nil pointer handed to the API
	kind  string
	c     content
	valid bool
}

func (cd *candidate) coq() string {
	if cd.cfg == nil {
		return "None"
	}
	return lib.Some(lib.App("mkCand", cd.c.coq(), lib.Bool(cd.valid)))
}

// makeCandidate builds a complete candidate from an owned copy of some configuration
func makeCandidate(r *lib.Rng, from *config.Config) *candidate {
	c := deepCopy(from)
	kind := ""
	switch r.Intn(16) {
	case 0:
		return &candidate{cfg: nil, kind: "nil"}
	case 1, 2:
		kind = "same"
	case 3, 4, 5, 6, 7, 8:
		kind = "routes"
		c.Config.Lite.Routes = routePool(r.Intn(7))
	case 9, 10:
		kind = "routes-invalid"
		c.Config.Lite.Routes = invalidRoutes(r.Intn(4))
	case 11:
		kind = "other"
		switch r.Intn(4) {
		case 0:
			c.Config.Bind = "127.0.0.1:25566"
		case 1:
			c.Config.OnlineMode = !c.Config.OnlineMode
		case 2:
			c.Config.Status.ShowMaxPlayers += 1 + r.Intn(3)
		default:
			c.HealthService.Bind = "0.0.0.0:9191"
		}
	case 12:
		kind = "other+routes"
		c.Config.Debug = !c.Config.Debug
		c.Config.Lite.Routes = routePool(1 + r.Intn(6))
	case 13:
		kind = "other-invalid"
		c.Config.Bind = ""
		if r.Bool() {
			c.Config.Lite.Routes = routePool(r.Intn(7))
		}
	case 14:
		kind = "lite-toggled"
		c.Config.Lite.Enabled = !c.Config.Lite.Enabled
		if r.Bool() {
			c.Config.Lite.Routes = routePool(r.Intn(7))
		}
	default:
		kind = "routes"
		c.Config.Lite.Routes = routePool(r.Intn(7))
	}
	_, errs := c.Validate()
	return &candidate{cfg: c, kind: kind, c: alpha(c), valid: len(errs) == 0}
}

// ---------- observations ----------

var codeNames = map[string]string{
	"applied": "CApplied", "unchanged": "CUnchanged", "invalid": "CInvalid", "unsupported": "CUnsupported",
	"precondition_failed": "CPrecondition", "prepare_failed": "CPrepareFailed",
}

func resultCoq(res gate.LiveConfigResult) (string, bool) {
	code, ok := codeNames[res.Code]
	consistent := ok && res.Applied == (res.Code == "applied") && res.Unchanged == (res.Code == "unchanged") &&
		res.CacheInvalidated == (res.Code == "applied")
	if !consistent {
		code = "CPrepareFailed" // the model never answers this: the case cannot pass
	}
	return lib.App("mkRes", code, dg(versionBytes(res.Version)), "None", "None"), consistent
}

func snapshot(g *gate.Gate) (content, string, error) {
	s, v, err := g.ConfigSnapshot()
	if err != nil {
		return content{}, "", err
	}
	return alpha(s), v, nil
}

type opDesc struct {
	Op        string `json:"op"`
	Candidate string `json:"candidate,omitempty"`
	Valid     bool   `json:"valid,omitempty"`
	Content   string `json:"content,omitempty"`
	Expected  string `json:"expected,omitempty"`
	Code      string `json:"code,omitempty"`
	Version   string `json:"version,omitempty"`
	After     string `json:"after,omitempty"`
	Inv       int64  `json:"inv,omitempty"`
	Res       int64  `json:"res,omitempty"`
}

// lockShape: every exported entry point takes reloadMu as its first statement and releases it
// by defer (the "one atomic action per call" premise of the schedule theorem)
func lockShape(repo string) []string {
	var bad []string
	path := filepath.Join(repo, "pkg", "gate", "gate.go")
	fset := token.NewFileSet()
	f, err := parser.ParseFile(fset, path, nil, 0)
	if err != nil {
		return []string{"cannot parse " + path + ": " + err.Error()}
	}
	want := map[string]bool{"ApplyLiveConfig": false, "ApplyLiveConfigIfVersion": false, "ConfigSnapshot": false}
	isCall := func(e ast.Expr, name string) bool {
		c, ok := e.(*ast.CallExpr)
		if !ok {
			return false
		}
		s, ok := c.Fun.(*ast.SelectorExpr)
		if !ok || s.Sel.Name != name {
			return false
		}
		m, ok := s.X.(*ast.SelectorExpr)
		return ok && m.Sel.Name == "reloadMu"
	}
	for _, d := range f.Decls {
		fd, ok := d.(*ast.FuncDecl)
		if !ok || fd.Recv == nil || fd.Body == nil {
			continue
		}
		if _, tracked := want[fd.Name.Name]; !tracked {
			continue
		}
		okShape := false
		if len(fd.Body.List) >= 2 {
			first, ok1 := fd.Body.List[0].(*ast.ExprStmt)
			second, ok2 := fd.Body.List[1].(*ast.DeferStmt)
			okShape = ok1 && ok2 && isCall(first.X, "Lock") && isCall(second.Call, "Unlock")
		}
		want[fd.Name.Name] = true
		if !okShape {
			bad = append(bad, fd.Name.Name+" does not start with reloadMu.Lock(); defer reloadMu.Unlock()")
		}
	}
	for n, seen := range want {
		if !seen {
			bad = append(bad, n+" not found in pkg/gate/gate.go")
		}
	}
	sort.Strings(bad)
	return bad
}

func main() {
	f := lib.ParseFlags()
	rng := lib.NewRng(f.Seed)
	out := lib.NewOut("C35", f)
	out.Imports = "From Verif Require Import Base.Lin Model.LiveConfig.\n"
	out.Rule = "sequential stream: one gate.New instance per history (Lite base, sometimes a non-Lite base), 6-14 calls of ApplyLiveConfig / ApplyLiveConfigIfVersion with candidates derived from the current snapshot, the initial configuration or an earlier candidate (same / routes from a pool of 7 valid sets / 4 invalid route sets / other setting changed / other+routes / invalid other / lite toggled / nil) and expected versions (current / an earlier one / garbage / empty); ConfigSnapshot and the proxy's routes are read after every call. concurrent stream: 8 goroutines behind a barrier on one instance (conditional applies with the fresh version, stale ones, unconditional applies, snapshot and proxy readers), logical-clock timestamps, bracketed by sequential snapshots. configurations are abstracted to digests of (JSON without lite section, lite.enabled, JSON of routes); validity = candidate.Validate(). distinct = distinct Coq case term; non-trivial = history with at least one applied and one rejected call"

	repo := os.Getenv("VERIF_REPO")
	if repo == "" {
		repo = "/repo"
	}
	if bad := lockShape(repo); len(bad) > 0 {
		out.GoViolation(map[string]any{"what": "reloadMu is not held for the whole body of a live-config entry point (premise of the schedule theorem)", "details": bad})
	}
	out.Extra("lock_shape_checked", []string{"ApplyLiveConfig", "ApplyLiveConfigIfVersion", "ConfigSnapshot"})

	// histories are independent (one Gate instance each): sequential ones are produced by a
	// pool of workers, results are emitted in index order; each has its own forked generator
	nSeq := f.Count(180)
	nConc := f.Count(80)
	rngs := make([]*lib.Rng, nSeq+nConc)
	for i := range rngs {
		rngs[i] = rng.Fork()
	}
	results := make([]*emitted, nSeq+nConc)
	var wg sync.WaitGroup
	sem := make(chan struct{}, 8)
	for i := 0; i < nSeq; i++ {
		wg.Add(1)
		sem <- struct{}{}
		go func(i int) {
			defer wg.Done()
			defer func() { <-sem }()
			results[i] = seqHistory(rngs[i], i)
		}(i)
	}
	wg.Wait()
	// concurrent histories one at a time: their goroutines should have the cores for themselves
	for i := nSeq; i < nSeq+nConc; i++ {
		results[i] = concHistory(rngs[i], i)
	}
	for _, e := range results {
		if e.goViolation != nil {
			out.GoViolation(e.goViolation)
		}
		out.Add(e.term, e.desc, e.nontrivial, e.tags...)
	}
	out.Finish()
}

// emitted is one finished history; when the run could not be completed the term is an empty
// sequential case (keeps indices stable) and goViolation says why
type emitted struct {
	term        string
	desc        any
	nontrivial  bool
	tags        []string
	goViolation map[string]any
}

func failed(idx int, why map[string]any) *emitted {
	why["index"] = idx
	return &emitted{term: lib.App("SeqCase", content{}.coq(), "[]", "[]"), desc: why, tags: []string{"aborted"}, goViolation: why}
}

func newGate(initial *config.Config) *gate.Gate {
	g, err := gate.New(gate.Options{Config: initial})
	if err != nil {
		fmt.Fprintln(os.Stderr, "gate.New:", err)
		os.Exit(2)
	}
	return g
}

func seqHistory(r *lib.Rng, idx int) *emitted {
	initial := baseLite()
	baseKind := "base=lite"
	if r.Chance(1, 8) {
		initial = baseClassic()
		baseKind = "base=non-lite"
	}
	if r.Chance(1, 3) {
		initial.Config.Lite.Routes = routePool(r.Intn(7))
	}
	pristine := deepCopy(initial)
	g := newGate(initial)
	c0, v0, err := snapshot(g)
	if err != nil {
		return failed(idx, map[string]any{"what": "ConfigSnapshot failed on a fresh instance", "error": err.Error()})
	}
	versions := []string{v0}
	var earlier []*candidate
	var steps []string
	var descs []opDesc
	tags := map[string]bool{"stream=sequential": true, baseKind: true}
	nApplied, nRejected := 0, 0
	curVer := v0
	n := r.Range(6, 14)
	for k := 0; k < n; k++ {
		// candidate source
		var cd *candidate
		switch {
		case len(earlier) > 0 && r.Chance(1, 5):
			cd = earlier[r.Intn(len(earlier))]
			if cd.cfg != nil { // re-validate: same content
				kind := cd.kind
				if len(kind) < 8 || kind[:8] != "earlier:" {
					kind = "earlier:" + kind
				}
				cd = &candidate{cfg: deepCopy(cd.cfg), kind: kind, c: cd.c, valid: cd.valid}
			}
		case r.Chance(1, 4):
			cd = makeCandidate(r, pristine)
		default:
			snap, _, err := g.ConfigSnapshot()
			if err != nil {
				panic(err)
			}
			cd = makeCandidate(r, snap)
		}
		earlier = append(earlier, cd)
		conditional := r.Chance(1, 2)
		var expected []byte
		expKind := ""
		expStr := ""
		if conditional {
			switch r.Intn(6) {
			case 0, 1, 2:
				expKind = "fresh"
			case 3:
				expKind = "earlier"
			case 4:
				expKind = "garbage"
			default:
				expKind = "empty"
			}
		}
		var res gate.LiveConfigResult
		opTerm := ""
		if conditional {
			// the API takes the full version string: keep the strings next to their tokens
			switch expKind {
			case "fresh":
				expStr = curVer
			case "earlier":
				expStr = versions[r.Intn(len(versions))]
			case "garbage":
				expStr = "stale"
			default:
				expStr = ""
			}
			expected = versionBytes(expStr)
			res = g.ApplyLiveConfigIfVersion(cd.cfg, expStr)
			opTerm = lib.App("ApplyIf", cd.coq(), dg(expected))
		} else {
			res = g.ApplyLiveConfig(cd.cfg)
			opTerm = lib.App("Apply", cd.coq())
		}
		resTerm, consistent := resultCoq(res)
		after, ver, err := snapshot(g)
		if err != nil {
			return failed(idx, map[string]any{"what": "ConfigSnapshot failed", "error": err.Error()})
		}
		proxy := routesDigest(g.Java().Config().Lite.Routes)
		steps = append(steps, lib.App("mkS", opTerm, resTerm, after.coq(), dg(versionBytes(ver)), dg(proxy)))
		versions = append(versions, ver)
		curVer = ver
		d := opDesc{Op: "Apply", Candidate: cd.kind, Valid: cd.valid, Content: cd.c.key(), Code: res.Code, Version: res.Version, After: after.key()}
		if cd.cfg == nil {
			d.Content = "nil"
		}
		if conditional {
			d.Op = "ApplyIf"
			d.Expected = expKind + ":" + expStr
			tags["expected="+expKind] = true
		}
		descs = append(descs, d)
		tags["cand="+cd.kind] = true
		tags["code="+res.Code] = true
		if !consistent {
			tags["result-flags-inconsistent"] = true
		}
		if res.Applied {
			nApplied++
		} else {
			nRejected++
		}
	}
	var tl []string
	for t := range tags {
		tl = append(tl, t)
	}
	sort.Strings(tl)
	return &emitted{term: lib.App("SeqCase", c0.coq(), dg(versionBytes(v0)), lib.List(steps)),
		desc: map[string]any{"initial": c0.key(), "initial_version": v0, "calls": descs}, nontrivial: nApplied > 0 && nRejected > 0, tags: tl}
}

type concCall struct {
	opTerm  string
	resTerm string
	inv     int64
	res     int64
	desc    opDesc
}

func concHistory(r *lib.Rng, idx int) *emitted {
	initial := baseLite()
	if r.Chance(1, 3) {
		initial.Config.Lite.Routes = routePool(r.Intn(7))
	}
	pristine := deepCopy(initial)
	g := newGate(initial)
	var clock atomic.Int64
	var calls []concCall
	var mu sync.Mutex
	vt := map[string]string{} // content term -> version term (insertion order kept separately)
	var vtOrder []string
	addVT := func(c content, v []byte) {
		if len(v) == 0 {
			return
		}
		k := lib.Pair(c.coq(), dg(v))
		if _, ok := vt[k]; !ok {
			vt[k] = ""
			vtOrder = append(vtOrder, k)
		}
	}
	record := func(c concCall) {
		mu.Lock()
		calls = append(calls, c)
		mu.Unlock()
	}
	doSnapshot := func() (content, string, bool) {
		inv := clock.Add(1)
		s, v, err := g.ConfigSnapshot()
		res := clock.Add(1)
		if err != nil {
			return content{}, "", false
		}
		c := alpha(s)
		vb := versionBytes(v)
		mu.Lock()
		addVT(c, vb)
		mu.Unlock()
		record(concCall{opTerm: "Snapshot", resTerm: lib.App("mkRes", "CSnapshot", dg(vb), lib.Some(c.coq()), "None"), inv: inv, res: res,
			desc: opDesc{Op: "Snapshot", Version: v, After: c.key(), Inv: inv, Res: res}})
		return c, v, true
	}
	doProxy := func() {
		inv := clock.Add(1)
		p := routesDigest(g.Java().Config().Lite.Routes)
		res := clock.Add(1)
		record(concCall{opTerm: "ProxyRoutes", resTerm: lib.App("mkRes", "CProxy", "[]", "None", lib.Some(dg(p))), inv: inv, res: res,
			desc: opDesc{Op: "ProxyRoutes", After: hex.EncodeToString(p), Inv: inv, Res: res}})
	}
	c0, v0, ok := doSnapshot()
	if !ok {
		return failed(idx, map[string]any{"what": "ConfigSnapshot failed on a fresh instance"})
	}

	// plan the goroutines before starting them (all randomness here, none inside goroutines)
	type plan struct {
		kind     string // applyif | apply | snapshot | proxy
		cd       *candidate
		expected string
		expKind  string
	}
	const workers = 8
	plans := make([]plan, workers)
	tags := map[string]bool{"stream=concurrent": true}
	for w := 0; w < workers; w++ {
		switch r.Intn(10) {
		case 0:
			plans[w] = plan{kind: "snapshot"}
		case 1:
			plans[w] = plan{kind: "proxy"}
		case 2, 3:
			plans[w] = plan{kind: "apply", cd: makeCandidate(r, pristine)}
		default:
			p := plan{kind: "applyif", cd: makeCandidate(r, pristine), expected: v0, expKind: "fresh"}
			if r.Chance(1, 4) {
				p.expected, p.expKind = r.PickS("stale", "", "0000000000000000000000000000000000000000000000000000000000000000"), "stale"
			}
			plans[w] = p
		}
		tags["worker="+plans[w].kind] = true
		if plans[w].cd != nil {
			tags["cand="+plans[w].cd.kind] = true
		}
		if plans[w].expKind != "" {
			tags["expected="+plans[w].expKind] = true
		}
	}
	start := make(chan struct{})
	var wg sync.WaitGroup
	inconsistent := atomic.Bool{}
	for w := 0; w < workers; w++ {
		wg.Add(1)
		go func(p plan) {
			defer wg.Done()
			<-start
			switch p.kind {
			case "snapshot":
				doSnapshot()
			case "proxy":
				doProxy()
			default:
				inv := clock.Add(1)
				var res gate.LiveConfigResult
				var opTerm string
				if p.kind == "apply" {
					res = g.ApplyLiveConfig(p.cd.cfg)
					opTerm = lib.App("Apply", p.cd.coq())
				} else {
					res = g.ApplyLiveConfigIfVersion(p.cd.cfg, p.expected)
					opTerm = lib.App("ApplyIf", p.cd.coq(), dg(versionBytes(p.expected)))
				}
				rs := clock.Add(1)
				resTerm, consistent := resultCoq(res)
				if !consistent {
					inconsistent.Store(true)
				}
				if res.Applied && p.cd.cfg != nil {
					mu.Lock()
					addVT(p.cd.c, versionBytes(res.Version)) // the published content is claimed to be the candidate
					mu.Unlock()
				}
				d := opDesc{Op: p.kind, Candidate: p.cd.kind, Valid: p.cd.valid, Content: p.cd.c.key(), Expected: p.expKind, Code: res.Code, Version: res.Version, Inv: inv, Res: rs}
				record(concCall{opTerm: opTerm, resTerm: resTerm, inv: inv, res: rs, desc: d})
			}
		}(plans[w])
	}
	done := make(chan struct{})
	go func() { wg.Wait(); close(done) }()
	close(start)
	select {
	case <-done:
	case <-time.After(20 * time.Second):
		return failed(idx, map[string]any{"what": "concurrent live-config calls did not return within 20 s (hang)"})
	}
	doSnapshot()
	doProxy()

	// history in invocation order; proposed linearization = by response time
	sort.Slice(calls, func(i, j int) bool { return calls[i].inv < calls[j].inv })
	order := make([]int, len(calls))
	for i := range order {
		order[i] = i
	}
	sort.SliceStable(order, func(a, b int) bool { return calls[order[a]].res < calls[order[b]].res })
	var callTerms []string
	var descs []opDesc
	nApplied, nRejected := 0, 0
	for _, c := range calls {
		callTerms = append(callTerms, lib.App("mkCall", c.opTerm, c.resTerm, lib.Z(c.inv), lib.Z(c.res)))
		descs = append(descs, c.desc)
		if c.desc.Code == "applied" {
			nApplied++
		} else if c.desc.Code != "" {
			nRejected++
		}
		if c.desc.Code != "" {
			tags["code="+c.desc.Code] = true
		}
	}
	if inconsistent.Load() {
		tags["result-flags-inconsistent"] = true
	}
	tags[fmt.Sprintf("applied=%d", nApplied)] = true
	var tl []string
	for t := range tags {
		tl = append(tl, t)
	}
	sort.Strings(tl)
	return &emitted{term: lib.App("ConcCase", c0.coq(), lib.List(vtOrder), lib.List(callTerms),
		lib.ListOf(order, func(i int) string { return lib.Nat(i) })),
		desc: map[string]any{"initial": c0.key(), "calls": descs, "proposed_order": order}, nontrivial: nApplied > 0 && nRejected > 0, tags: tl}
}
