// C14 harness: drives the REAL netmc connection (netmc.NewMinecraftConn over a net.Pipe, real encoder,
// real PlayPacketQueue) through its public API and records what the peer end of the pipe receives.
//
//   - sequential histories: WritePacket(play-only | config-valid) and SetState/SetOutboundState(Config|Play),
//     observed after every call (result class, bytes the peer has so far, Closed(conn)); boundary histories
//     with 1023/1024/1025/1026 held packets;
//   - goroutine stress: several writer goroutines plus one goroutine flipping Config/Play, observed at
//     quiescence. Runs in a CHILD process (re-exec) so that a crash of the unguarded deque is an
//     observation; with -race the child's race reports are collected per scenario.
//
// All wire bytes are handed to Coq undecoded; Check/C14.v decodes frames with the VarInt model.
package main

import (
	"bufio"
	"bytes"
	"context"
	"encoding/hex"
	"encoding/json"
	"errors"
	"fmt"
	"io"
	"net"
	"os"
	"os/exec"
	"runtime"
	"strings"
	"sync"
	"sync/atomic"
	"syscall"
	"time"

	"go.minekube.com/gate/pkg/edition/java/netmc"
	"go.minekube.com/gate/pkg/edition/java/proto/packet"
	"go.minekube.com/gate/pkg/edition/java/proto/packet/bossbar"
	"go.minekube.com/gate/pkg/edition/java/proto/packet/plugin"
	"go.minekube.com/gate/pkg/edition/java/proto/packet/title"
	"go.minekube.com/gate/pkg/edition/java/proto/state"
	"go.minekube.com/gate/pkg/edition/java/proto/util/queue"
	"go.minekube.com/gate/pkg/edition/java/proto/version"
	"go.minekube.com/gate/pkg/gate/proto"
	"go.minekube.com/gate/pkg/util/uuid"

	"verifharness/lib"
)

// ---------- packets ----------

const (
	tTimes = iota
	tBoss
	tKeepAlive
	tPlugin
)

var tyName = []string{"TTimes", "TBoss", "TKeepAlive", "TPlugin"}

type pkt struct {
	Ty  int    `json:"ty"`
	Tag uint32 `json:"tag"`
}

func (p pkt) playOnly() bool { return p.Ty == tTimes || p.Ty == tBoss }

func (p pkt) real() proto.Packet {
	switch p.Ty {
	case tTimes:
		return &title.Times{FadeIn: int(p.Tag), Stay: 20, FadeOut: 5}
	case tBoss:
		var id uuid.UUID
		id[12], id[13], id[14], id[15] = byte(p.Tag>>24), byte(p.Tag>>16), byte(p.Tag>>8), byte(p.Tag)
		return &bossbar.BossBar{ID: id, Action: bossbar.RemoveAction}
	case tKeepAlive:
		return &packet.KeepAlive{RandomID: int64(p.Tag)}
	default:
		return &plugin.Message{Channel: "vf:t", Data: []byte{byte(p.Tag >> 24), byte(p.Tag >> 16), byte(p.Tag >> 8), byte(p.Tag)}}
	}
}

func (p pkt) coq() string {
	return lib.App("mkPkt", tyName[p.Ty], lib.N(uint64(p.Tag)))
}

var protocols = []*proto.Version{
	version.Minecraft_1_20_2, version.Minecraft_1_20_3, version.Minecraft_1_20_5, version.Minecraft_1_21,
	version.Minecraft_1_21_2, version.Minecraft_1_21_4, version.Minecraft_1_21_5, version.Minecraft_1_21_6,
	version.Minecraft_1_21_7, version.Minecraft_1_21_9, version.Minecraft_1_21_11,
}

// idTable prints the packet ids of the four types from gate's own registries (0xFFFF = not registered).
func idTable(pr proto.Protocol) string {
	get := func(st *state.Registry, p proto.Packet) uint64 {
		id, ok := st.ClientBound.ProtocolRegistry(pr).PacketID(p)
		if !ok {
			return 0xFFFF
		}
		return uint64(id)
	}
	return lib.App("mkIds",
		lib.N(get(state.Config, &packet.KeepAlive{})), lib.N(get(state.Config, &plugin.Message{})),
		lib.N(get(state.Play, &title.Times{})), lib.N(get(state.Play, &bossbar.BossBar{})),
		lib.N(get(state.Play, &packet.KeepAlive{})), lib.N(get(state.Play, &plugin.Message{})))
}

// ---------- the pipe ----------

type countConn struct {
	net.Conn
	n atomic.Int64
}

func (c *countConn) Write(p []byte) (int, error) {
	n, err := c.Conn.Write(p)
	c.n.Add(int64(n))
	return n, err
}

type peer struct {
	c    net.Conn
	mu   sync.Mutex
	cond *sync.Cond
	buf  []byte
	eof  bool
}

func newPeer(c net.Conn) *peer {
	p := &peer{c: c}
	p.cond = sync.NewCond(&p.mu)
	go p.run()
	return p
}

func (p *peer) run() {
	b := make([]byte, 1<<16)
	for {
		n, err := p.c.Read(b)
		p.mu.Lock()
		p.buf = append(p.buf, b[:n]...)
		if err != nil {
			p.eof = true
		}
		p.cond.Broadcast()
		p.mu.Unlock()
		if err != nil {
			return
		}
	}
}

// wait until cond() holds (under the lock) or the deadline passes
func (p *peer) wait(d time.Duration, cond func() bool) bool {
	deadline := time.Now().Add(d)
	t := time.AfterFunc(d, func() { p.mu.Lock(); p.cond.Broadcast(); p.mu.Unlock() })
	defer t.Stop()
	p.mu.Lock()
	defer p.mu.Unlock()
	for !cond() {
		if time.Now().After(deadline) {
			return false
		}
		p.cond.Wait()
	}
	return true
}

type conn struct {
	mc   netmc.MinecraftConn
	cc   *countConn
	peer *peer
}

func newConn(pr proto.Protocol) *conn {
	a, b := net.Pipe()
	cc := &countConn{Conn: a}
	mc, _ := netmc.NewMinecraftConn(context.Background(), cc, proto.ServerBound, 5*time.Second, 5*time.Second, -1, nil)
	mc.SetProtocol(pr)
	mc.SetState(state.Play)
	return &conn{mc: mc, cc: cc, peer: newPeer(b)}
}

// settle waits until the peer has received every byte written so far and returns that count.
func (c *conn) settle() (int64, bool) {
	want := c.cc.n.Load()
	ok := c.peer.wait(3*time.Second, func() bool { return int64(len(c.peer.buf)) >= want })
	return want, ok
}

func resClass(err error) string {
	switch {
	case err == nil:
		return "ROk"
	case errors.Is(err, netmc.ErrClosedConn):
		return "RErrClosed"
	case errors.Is(err, queue.ErrQueueFull):
		return "RErrQueueFull"
	default:
		return "RErrIO"
	}
}

// ---------- sequential histories ----------

type op struct {
	Write    bool `json:"write"`
	P        pkt  `json:"p"`
	Config   bool `json:"config"`   // state change target
	Outbound bool `json:"outbound"` // SetOutboundState instead of SetState
}

func (o op) coq() string {
	if o.Write {
		return lib.App("OWrite", o.P.coq())
	}
	if o.Config {
		return "(OSet Config)"
	}
	return "(OSet Play)"
}

type tagger struct{ next uint32 }

func (t *tagger) pkt(ty int) pkt { t.next++; return pkt{ty, t.next} }

func randomHistory(r *lib.Rng) []op {
	tg := &tagger{next: uint32(r.Intn(1 << 30))}
	n := r.Pick(3, 6, 10, 20, 40, 70)
	var ops []op
	inCfg := false
	for i := 0; i < n; i++ {
		x := r.Intn(100)
		switch {
		case x < 42:
			ops = append(ops, op{Write: true, P: tg.pkt(r.Pick(tTimes, tBoss))})
		case x < 66:
			ops = append(ops, op{Write: true, P: tg.pkt(r.Pick(tKeepAlive, tPlugin))})
		default:
			// mostly alternate, sometimes repeat the current state
			toCfg := !inCfg
			if r.Chance(1, 5) {
				toCfg = inCfg
			}
			ops = append(ops, op{Config: toCfg, Outbound: r.Chance(1, 3)})
			inCfg = toCfg
		}
	}
	if r.Chance(4, 5) {
		ops = append(ops, op{Config: false, Outbound: r.Chance(1, 3)})
		if r.Bool() {
			ops = append(ops, op{Write: true, P: tg.pkt(r.Intn(4))})
		}
	}
	return ops
}

// boundaryHistory holds exactly k play-only packets in CONFIG (with config-valid ones in between), then
// keeps writing, returns to PLAY and writes again.
func boundaryHistory(r *lib.Rng, k int) []op {
	tg := &tagger{next: uint32(r.Intn(1 << 30))}
	var ops []op
	if r.Bool() {
		ops = append(ops, op{Write: true, P: tg.pkt(r.Intn(4))})
	}
	ops = append(ops, op{Config: true, Outbound: r.Chance(1, 3)})
	for i := 0; i < k; i++ {
		ops = append(ops, op{Write: true, P: tg.pkt(r.Pick(tTimes, tBoss))})
		if r.Chance(1, 200) {
			ops = append(ops, op{Write: true, P: tg.pkt(r.Pick(tKeepAlive, tPlugin))})
		}
		if r.Chance(1, 400) {
			ops = append(ops, op{Config: true}) // entering CONFIG again must keep the queue
		}
	}
	ops = append(ops, op{Write: true, P: tg.pkt(r.Pick(tKeepAlive, tPlugin))})
	ops = append(ops, op{Config: false, Outbound: r.Chance(1, 3)})
	ops = append(ops, op{Write: true, P: tg.pkt(tTimes)}, op{Write: true, P: tg.pkt(tKeepAlive)})
	return ops
}

func runSeq(out *lib.Out, pv *proto.Version, ops []op, kind string) {
	c := newConn(pv.Protocol)
	var ress []string
	var lens []string
	var closeds []string
	hang := false
	nPO, nCV, nSet := 0, 0, 0
	for _, o := range ops {
		res := "ROk"
		if o.Write {
			res = resClass(c.mc.WritePacket(o.P.real()))
			if o.P.playOnly() {
				nPO++
			} else {
				nCV++
			}
		} else {
			nSet++
			st := state.Play
			if o.Config {
				st = state.Config
			}
			if o.Outbound {
				c.mc.SetOutboundState(st)
			} else {
				c.mc.SetState(st)
			}
		}
		n, ok := c.settle()
		if !ok {
			hang = true
		}
		ress = append(ress, res)
		lens = append(lens, lib.N(uint64(n)))
		closeds = append(closeds, lib.Bool(netmc.Closed(c.mc)))
	}
	closedEnd := netmc.Closed(c.mc)
	eof := false
	if closedEnd {
		eof = c.peer.wait(2*time.Second, func() bool { return c.peer.eof })
	} else {
		time.Sleep(time.Millisecond) // a stray late frame would show up as extra bytes
	}
	c.peer.mu.Lock()
	wire := append([]byte(nil), c.peer.buf...)
	if !closedEnd {
		eof = c.peer.eof
	}
	c.peer.mu.Unlock()
	_ = c.mc.Close()
	if hang {
		out.GoViolation(map[string]any{"known": nil, "what": "peer did not receive bytes the connection reported as written within 3s", "kind": kind})
	}
	term := lib.App("Seq", idTable(pv.Protocol), lib.ListOf(ops, op.coq), lib.List(ress), lib.List(lens), lib.List(closeds),
		lib.Bytes(wire), lib.Bool(eof))
	nt := nPO > 0 && nSet > 0
	dops, dres := ops, ress
	if len(dops) > 80 {
		dops, dres = dops[:80], dres[:80]
	}
	out.Add(term, map[string]any{"kind": kind, "protocol": pv.Protocol, "n_ops": len(ops), "ops_first80": dops, "results_first80": dres, "wire_hex": trunc(hex.EncodeToString(wire), 400), "closed": closedEnd},
		nt, "seq", "kind="+kind, fmt.Sprintf("proto=%d", pv.Protocol), bucket("ops", len(ops)), "closed="+lib.Bool(closedEnd))
}

func bucket(name string, n int) string {
	switch {
	case n <= 8:
		return name + "<=8"
	case n <= 32:
		return name + "<=32"
	case n <= 128:
		return name + "<=128"
	default:
		return name + ">128"
	}
}

func trunc(s string, n int) string {
	if len(s) > n {
		return s[:n] + "..."
	}
	return s
}

// ---------- stress (child process) ----------

type scenario struct {
	Protocol int     `json:"protocol"`
	Writers  [][]pkt `json:"writers"`
	Yield    bool    `json:"yield"` // writers call Gosched between packets
}

type stressResult struct {
	Results [][]string `json:"results"`
	WireHex string     `json:"wire"`
	Closed  bool       `json:"closed"`
	Flips   int        `json:"flips"`
	Hang    bool       `json:"hang"`
}

func runScenario(sc scenario) stressResult {
	c := newConn(proto.Protocol(sc.Protocol))
	res := make([][]string, len(sc.Writers))
	var wg sync.WaitGroup
	start := make(chan struct{})
	var done atomic.Bool
	for w := range sc.Writers {
		wg.Add(1)
		go func(w int) {
			defer wg.Done()
			<-start
			for _, p := range sc.Writers[w] {
				res[w] = append(res[w], resClass(c.mc.WritePacket(p.real())))
				if sc.Yield {
					runtime.Gosched()
				}
			}
		}(w)
	}
	flips := 0
	fdone := make(chan struct{})
	go func() {
		defer close(fdone)
		<-start
		for !done.Load() {
			c.mc.SetState(state.Config)
			runtime.Gosched()
			c.mc.SetState(state.Play)
			flips++
		}
	}()
	close(start)
	wg.Wait()
	done.Store(true)
	<-fdone
	c.mc.SetState(state.Play) // quiescence: everything held must be released now
	_, ok := c.settle()
	time.Sleep(time.Millisecond)
	c.peer.mu.Lock()
	wire := hex.EncodeToString(c.peer.buf)
	c.peer.mu.Unlock()
	closed := netmc.Closed(c.mc)
	_ = c.mc.Close()
	return stressResult{Results: res, WireHex: wire, Closed: closed, Flips: flips, Hang: !ok}
}

// child: one scenario per stdin line, one result per stdout line; a marker on stderr before each
// scenario so that the parent can attribute race reports and crashes.
func childMain() {
	in := bufio.NewReaderSize(os.Stdin, 1<<20)
	w := bufio.NewWriter(os.Stdout)
	for i := 0; ; i++ {
		line, err := in.ReadBytes('\n')
		if len(bytes.TrimSpace(line)) > 0 {
			var sc scenario
			if e := json.Unmarshal(line, &sc); e != nil {
				fmt.Fprintln(os.Stderr, "bad scenario:", e)
				os.Exit(3)
			}
			fmt.Fprintf(os.Stderr, "\n@@SCENARIO\n")
			r := runScenario(sc)
			b, _ := json.Marshal(r)
			w.Write(b)
			w.WriteByte('\n')
			w.Flush()
		}
		if err != nil {
			return
		}
	}
}

type childOut struct {
	res    *stressResult // nil: the child died or hung in this scenario
	stderr string        // the child's stderr while this scenario ran
	hang   bool
}

// runChildren feeds all scenarios to child processes; a child that dies is replaced and the scenario it
// was running is reported as crashed.
func runChildren(scs []scenario) []childOut {
	outs := make([]childOut, len(scs))
	next := 0
	for next < len(scs) {
		cmd := exec.Command(os.Args[0], "child")
		cmd.Env = append(os.Environ(), "GORACE=halt_on_error=0")
		stdin, _ := cmd.StdinPipe()
		stdout, _ := cmd.StdoutPipe()
		var errBuf lockedBuf
		cmd.Stderr = &errBuf
		if err := cmd.Start(); err != nil {
			fmt.Fprintln(os.Stderr, "cannot start child:", err)
			os.Exit(2)
		}
		first := next
		go func() {
			for i := first; i < len(scs); i++ {
				b, _ := json.Marshal(scs[i])
				if _, err := stdin.Write(append(b, '\n')); err != nil {
					return
				}
			}
			stdin.Close()
		}()
		lines := make(chan []byte)
		go func() {
			rd := bufio.NewReaderSize(stdout, 1<<22)
			for {
				l, err := rd.ReadBytes('\n')
				if len(bytes.TrimSpace(l)) > 0 {
					lines <- l
				}
				if err != nil {
					close(lines)
					return
				}
			}
		}()
		got := 0
		hung := false
	loop:
		for first+got < len(scs) {
			select {
			case l, ok := <-lines:
				if !ok {
					break loop
				}
				var r stressResult
				if json.Unmarshal(l, &r) == nil {
					outs[first+got].res = &r
				}
				got++
			case <-time.After(30 * time.Second):
				hung = true
				// ask the runtime for a goroutine dump (where is it stuck?), then kill
				cmd.Process.Signal(syscall.SIGQUIT)
				time.Sleep(3 * time.Second)
				cmd.Process.Kill()
				break loop
			}
		}
		cmd.Process.Kill()
		cmd.Wait()
		// split the child's stderr by scenario markers
		parts := strings.Split(errBuf.String(), "\n@@SCENARIO\n")
		for i := 1; i < len(parts) && first+i-1 < len(scs); i++ {
			outs[first+i-1].stderr = parts[i]
		}
		next = first + got
		if next < len(scs) && outs[next].res == nil {
			outs[next].hang = hung
			next++ // the scenario the child died in
		}
	}
	return outs
}

type lockedBuf struct {
	mu sync.Mutex
	b  bytes.Buffer
}

func (l *lockedBuf) Write(p []byte) (int, error) { l.mu.Lock(); defer l.mu.Unlock(); return l.b.Write(p) }
func (l *lockedBuf) String() string              { l.mu.Lock(); defer l.mu.Unlock(); return l.b.String() }

// raceReports counts the race detector's reports: those whose stacks touch the play packet queue (its
// deque) and the others.
func raceReports(stderr string) (q, other int) {
	for _, blk := range strings.Split(stderr, "WARNING: DATA RACE")[1:] {
		end := strings.Index(blk, "==================")
		if end < 0 {
			continue // cut off (the child was killed while printing it)
		}
		blk = blk[:end]
		if strings.Contains(blk, "queue.(*PlayPacketQueue)") {
			q++
		} else {
			other++
		}
	}
	return
}

func crashKind(co childOut) string {
	if co.res != nil && !co.res.Hang {
		return "CrNone"
	}
	if co.hang {
		// the child was sent SIGQUIT: a goroutine that is RUNNING (or runnable) inside the packet queue
		// means the corrupted deque never drains (ReleaseQueue spins under c.mu)
		for _, g := range strings.Split(co.stderr, "\n\ngoroutine ")[1:] {
			head := g
			if i := strings.Index(g, "\n"); i >= 0 {
				head = g[:i]
			}
			if (strings.Contains(head, "[running") || strings.Contains(head, "[runnable")) &&
				strings.Contains(g, "queue.(*PlayPacketQueue)") {
				return "CrHangQueue"
			}
		}
		// no dump: with -race the process can stop responding inside the race detector while it prints
		// reports; if those reports are about the packet queue the hang belongs to the same defect
		if q, _ := raceReports(co.stderr); q > 0 {
			return "CrHangQueue"
		}
		return "CrHang"
	}
	if co.res != nil && co.res.Hang {
		return "CrHang"
	}
	// the child died: attribute by the panicking goroutine's stack
	s := co.stderr
	if i := strings.Index(s, "panic:"); i >= 0 {
		s = s[i:]
	} else if i := strings.Index(s, "fatal error:"); i >= 0 {
		s = s[i:]
	}
	if j := strings.Index(s, "\n\ngoroutine "); j >= 0 { // first goroutine = the one that died
		if k := strings.Index(s[j+2:], "\n\n"); k >= 0 {
			s = s[:j+2+k]
		}
	}
	if strings.Contains(s, "queue.(*PlayPacketQueue)") {
		return "CrQueue"
	}
	return "CrOther"
}

func randomScenario(r *lib.Rng) scenario {
	pv := protocols[r.Intn(len(protocols))]
	nw := r.Pick(1, 2, 2, 3, 4)
	per := r.Pick(20, 40, 60, 100)
	mix := r.Pick(0, 0, 20, 40) // percent of config-valid packets
	base := uint32(r.Intn(1 << 20))
	sc := scenario{Protocol: int(pv.Protocol), Yield: r.Chance(1, 3)}
	for w := 0; w < nw; w++ {
		var ps []pkt
		for i := 0; i < per; i++ {
			ty := r.Pick(tTimes, tBoss)
			if r.Intn(100) < mix {
				ty = r.Pick(tKeepAlive, tPlugin)
			}
			ps = append(ps, pkt{ty, base + uint32(w)<<12 + uint32(i)})
		}
		sc.Writers = append(sc.Writers, ps)
	}
	return sc
}

func main() {
	if len(os.Args) > 1 && os.Args[1] == "child" {
		childMain()
		return
	}
	f := lib.ParseFlags()
	rng := lib.NewRng(f.Seed)
	out := lib.NewOut("C14", f)
	out.Imports = "From Verif Require Import Model.PlayQueue.\n"
	out.Rule = "sequential histories of 3..70 calls over {WritePacket(title.Times|BossBar), WritePacket(KeepAlive|plugin.Message), SetState|SetOutboundState(Config|Play)} on protocols 1.20.2..1.21.11 with unique tags, mostly ending back in PLAY; boundary histories holding exactly 1023/1024/1025/1026 play-only packets in CONFIG; stress scenarios with 1..4 writer goroutines (20..100 packets each, 0..40% config-valid) racing one goroutine that flips Config/Play until the writers are done, observed after a final SetState(Play), each in a child process. Distinct = distinct Coq term; non-trivial = at least one play-only write and one state change (seq) / at least one play-only packet (stress)."

	// sequential
	nSeq := f.Count(72)
	for i := 0; i < nSeq; i++ {
		r := rng.Fork()
		pv := protocols[r.Intn(len(protocols))]
		runSeq(out, pv, randomHistory(r), "random")
	}
	bounds := []int{1023, 1024, 1025, 1026}
	nB := f.Count(4)
	if nB > 16 {
		nB = 16
	}
	for i := 0; i < nB; i++ {
		r := rng.Fork()
		pv := protocols[r.Intn(len(protocols))]
		k := bounds[i%len(bounds)]
		runSeq(out, pv, boundaryHistory(r, k), fmt.Sprintf("boundary-%d", k))
	}

	// stress
	nSt := f.Count(16)
	scs := make([]scenario, nSt)
	for i := range scs {
		scs[i] = randomScenario(rng.Fork())
	}
	results := runChildren(scs)
	lost, racesQ := 0, 0
	for i, sc := range scs {
		co := results[i]
		rq, ro := raceReports(co.stderr)
		racesQ += rq
		crash := crashKind(co)
		var ress []string
		wire := []byte{}
		closed := false
		flips := 0
		if co.res != nil {
			for _, rs := range co.res.Results {
				ress = append(ress, lib.List(rs))
			}
			wire, _ = hex.DecodeString(co.res.WireHex)
			closed = co.res.Closed
			flips = co.res.Flips
		}
		total := 0
		for _, w := range sc.Writers {
			total += len(w)
		}
		frames := countFrames(wire)
		if crash == "CrNone" && frames < total {
			lost += total - frames
		}
		term := lib.App("Stress", idTable(proto.Protocol(sc.Protocol)),
			lib.ListOf(sc.Writers, func(ps []pkt) string { return lib.ListOf(ps, pkt.coq) }),
			lib.List(ress), lib.Bytes(wire), lib.Bool(closed), crash, lib.N(uint64(rq)), lib.N(uint64(ro)))
		desc := map[string]any{"kind": "stress", "scenario": sc, "crash": crash, "closed": closed, "flips": flips,
			"frames_on_wire": frames, "packets_written": total, "race_reports_queue": rq, "race_reports_other": ro}
		if crash != "CrNone" || ro > 0 {
			desc["child_stderr"] = trunc(co.stderr, 6000)
			if i := strings.Index(co.stderr, "SIGQUIT"); i >= 0 {
				desc["child_goroutine_dump"] = trunc(co.stderr[i:], 8000)
			}
		}
		out.Add(term, desc, true, "stress", fmt.Sprintf("writers=%d", len(sc.Writers)), "crash="+crash, fmt.Sprintf("proto=%d", sc.Protocol))
	}
	out.Extra("stress_packets_missing_from_wire", lost)
	out.Extra("stress_race_reports_on_queue", racesQ)
	out.Finish()
}

func countFrames(b []byte) int {
	n := 0
	rd := bytes.NewReader(b)
	for rd.Len() > 0 {
		l, err := readVarInt(rd)
		if err != nil || l < 0 || l > rd.Len() {
			return n
		}
		rd.Seek(int64(l), io.SeekCurrent)
		n++
	}
	return n
}

func readVarInt(rd *bytes.Reader) (int, error) {
	v := 0
	for i := 0; i < 5; i++ {
		b, err := rd.ReadByte()
		if err != nil {
			return 0, err
		}
		v |= int(b&0x7f) << (7 * i)
		if b&0x80 == 0 {
			return v, nil
		}
	}
	return 0, errors.New("varint too long")
}
