// C37 harness: runs the REAL configuration validation ((*gate/config.Config).Validate, which calls the java, lite
// and bedrock validators) on configurations built by perturbing a valid base around each constraint boundary,
// one clause at a time and in pairs, maps the returned messages to clause ids by stable prefix, and — for accepted
// configurations — runs the serialize-and-reload round trip (yaml.Marshal / json.Marshal -> gate.LoadConfig and the
// strict live-reload loader) and compares the result field by field in Go.  The clause ids are judged in Coq against
// Model/ConfigValidate.v; the round trip is differential testing only (yaml.v3, encoding/json, viper have no model).
package main

import (
	"encoding/json"
	"fmt"
	"math"
	"os"
	"path/filepath"
	"reflect"
	"sort"
	"strconv"
	"strings"

	"github.com/spf13/viper"
	"gopkg.in/yaml.v3"

	jconfig "go.minekube.com/gate/pkg/edition/java/config"
	lconfig "go.minekube.com/gate/pkg/edition/java/lite/config"
	"go.minekube.com/gate/pkg/gate"
	gconfig "go.minekube.com/gate/pkg/gate/config"
	"go.minekube.com/gate/pkg/util/netutil"

	"verifharness/lib"
)

// ---------------------------------------------------------------- base configuration

// fresh returns what the loader starts from (gate.newConfigCandidate: a JSON clone of DefaultConfig).
func fresh() *gconfig.Config {
	enc, err := json.Marshal(gconfig.DefaultConfig)
	if err != nil {
		panic(err)
	}
	var c gconfig.Config
	if err := json.Unmarshal(enc, &c); err != nil {
		panic(err)
	}
	c.Config.Servers = map[string]string{}
	c.Config.ForcedHosts = map[string][]string{}
	return &c
}

func base(lite bool) *gconfig.Config {
	c := fresh()
	j := &c.Config
	if lite {
		j.Lite.Enabled = true
		j.Lite.Routes = []lconfig.Route{
			{Host: []string{"*.example.com", "example.com"}, Backend: []string{"localhost:25566", "10.0.0.2:25565"}, Strategy: lconfig.StrategyRandom},
			{Host: []string{"*.lobby.example.com"}, Backend: []string{"$1.servers.svc:25565"}},
		}
		return c
	}
	j.Servers = map[string]string{"server1": "localhost:25566", "server2": "localhost:25567", "Lobby-3": "[::1]:25568"}
	j.Try = []string{"server1", "server2"}
	j.ForcedHosts = map[string][]string{"creative.example.com": {"server2"}, "lobby.example.com": {"Lobby-3", "server1"}}
	return c
}

// ---------------------------------------------------------------- value pools (ASCII only)

var hostPorts = []string{
	// accepted by net.SplitHostPort
	"0.0.0.0:25565", "localhost:25565", "[::1]:25565", ":25565", "host:", ":", "a:b", "[]:1", "[a:b]:1", "example.com:0", " :1",
	// rejected
	"", "localhost", "::1", "[::1]", "a:b:c", "[::1]25565", "[::1]:1:2", "a[b:1", "a]b:1", "[a:1", "[[a]:1", "[a]]:1", "[a]:1]", "[a]b:1", "1.2.3.4", "[", "]",
}
var spaceOnly = []string{"", " ", "\t", " \t\r\n", "\v\f", "   "}
var names = []string{
	"server1", "a", "A", "9", "A-b_c.d9", "a.b", strings.Repeat("x", 63), "s_1", "Lobby-3",
	"", "-a", "a-", ".a", "a.", "_", "a b", "a/b", strings.Repeat("x", 64), "a\n", "a:b", "$1",
}
var backends = []string{
	"localhost:25565", "h", "10.0.0.2:25565", "[::1]:25565", "h:+1", "h:-1", "h:0", "h:65536", "h:9223372036854775807", "a:b:c", "::1", "[x", "[::1]",
	"h:", "h:x", "h:9223372036854775808", "h:-9223372036854775809", "h:1_0", "h: 1", "x]:1", "a[b", "[[a]:1", "[a]]x:1", "h:+", "h:-",
	"$1.h:x", "h:$1", "$1", "h:$x", "[$1", "$", "$a:]",
}
var strategies = []string{"", "sequential", "random", "round-robin", "least-connections", "lowest-latency", "Random", "roundrobin", " random", "lowest_latency"}
var fwdModes = []string{"none", "legacy", "velocity", "bungeeguard", "", "Legacy", "modern", "velocity ", "bungee"}
var viaModes = []string{"", "embedded", "subprocess", "Embedded", "native", " "}
var trustedLists = [][]string{
	nil, {"10.0.0.0/8"}, {"203.0.113.7", "198.51.100.0/24"}, {" 10.0.0.1 "}, {"::1", "fc00::/7"}, {"0.0.0.0/0"},
	{"not-an-ip"}, {"1.2.3.4/33"}, {"::ffff:1.2.3.4"}, {"10.0.0.0/8", ""}, {"1.2.3"}, {"::ffff:10.0.0.0/104"}, {"fe80::1%eth0"},
}
var f32s = []float32{5, 0.4, 1e-38, math.SmallestNonzeroFloat32, math.MaxFloat32, float32(math.Inf(1)),
	0, float32(math.Copysign(0, -1)), -1e-38, -5, float32(math.Inf(-1)), float32(math.NaN())}

func randStr(r *lib.Rng, alphabet string, max int) string { return r.StringOver(alphabet, r.Range(0, max)) }

// ---------------------------------------------------------------- perturbations

type mut struct {
	name  string
	apply func(c *gconfig.Config)
}

func pick[T any](r *lib.Rng, xs []T) T { return xs[r.Intn(len(xs))] }

// classic-mode and common perturbations; every closure captures concrete values so that it can be applied twice
func genMut(r *lib.Rng, lite bool, keyOK, keyMissing string) mut {
	common := []func() mut{
		func() mut {
			v := pick(r, hostPorts)
			if r.Chance(1, 4) {
				v = pick(r, spaceOnly)
			} else if r.Chance(1, 4) {
				v = randStr(r, "ab1:[]. ", 7)
			}
			return mut{"bind", func(c *gconfig.Config) { c.Config.Bind = v }}
		},
		func() mut {
			en, v := r.Chance(3, 4), pick(r, hostPorts)
			return mut{"health", func(c *gconfig.Config) { c.HealthService.Enabled = en; c.HealthService.Bind = v }}
		},
		func() mut {
			which, en := r.Intn(2), r.Chance(5, 6)
			ops, burst, max := pick(r, f32s), r.Pick(-1, 0, 1, 2, 10), r.Pick(-1, 0, 1, 2, 1000)
			if r.Chance(1, 5) {
				ops = float32(math.NaN())
			}
			field := r.Pick(0, 0, 1, 2)
			return mut{"quota", func(c *gconfig.Config) {
				q := &c.Config.Quota.Connections
				if which == 1 {
					q = &c.Config.Quota.Logins
				}
				q.Enabled = en
				switch field {
				case 0:
					q.OPS = ops
				case 1:
					q.Burst = burst
				default:
					q.MaxEntries = max
				}
			}}
		},
		func() mut {
			l, pp := pick(r, trustedLists), r.Bool()
			return mut{"trusted", func(c *gconfig.Config) {
				c.Config.ProxyProtocolTrustedProxies = append([]string(nil), l...)
				c.Config.ProxyProtocol = pp
			}}
		},
		func() mut {
			bed, n := r.Chance(3, 4), r.Range(0, 3)
			var allowed []string
			for i := 0; i < n; i++ {
				switch r.Intn(5) {
				case 0:
					allowed = append(allowed, pick(r, names))
				case 1:
					allowed = append(allowed, "SERVER1") // same as server1 ignoring case
				case 2:
					allowed = append(allowed, "server2")
				case 3:
					allowed = append(allowed, "Server2")
				default:
					allowed = append(allowed, "lobby-3")
				}
			}
			key := keyOK
			if r.Chance(1, 4) {
				key = keyMissing
			}
			var mode *string
			if r.Chance(2, 3) {
				m := pick(r, fwdModes)
				mode = &m
			}
			return mut{"backendFloodgate", func(c *gconfig.Config) {
				c.Config.Bedrock.Enabled = bed
				c.Config.Bedrock.FloodgateKeyPath = key
				c.Config.Bedrock.BackendFloodgate.Enabled = true
				c.Config.Bedrock.BackendFloodgate.AllowedServers = append([]string(nil), allowed...)
				if mode != nil {
					c.Config.Forwarding.Mode = jconfig.ForwardingMode(*mode)
				}
			}}
		},
		// fields that validation does not look at, for the round trip
		func() mut {
			k := r.Intn(8)
			return mut{"unvalidated-field", func(c *gconfig.Config) {
				j := &c.Config
				switch k {
				case 0:
					j.OnlineMode = false
				case 1:
					j.ForceKeyAuthentication = false
				case 2:
					j.BuiltinCommands = false
				case 3:
					j.BungeePluginChannelEnabled = false
				case 4:
					j.Debug = true
					j.AcceptTransfers = true
				case 5:
					j.Status.ShowMaxPlayers = 0
				case 6:
					j.Forwarding.VelocitySecret = "s3cr3t: \"x\"\n#y"
				default:
					j.ProxyProtocolBackend = true
					j.AnnounceForge = true
				}
			}}
		},
	}
	classic := []func() mut{
		func() mut {
			en, m, b := r.Chance(4, 5), pick(r, viaModes), pick(r, append([]string{"", "", "127.0.0.1:0"}, hostPorts...))
			return mut{"via", func(c *gconfig.Config) { c.Config.Via.Enabled = en; c.Config.Via.Mode = m; c.Config.Via.Bind = b }}
		},
		func() mut {
			m := pick(r, fwdModes)
			return mut{"forwarding", func(c *gconfig.Config) { c.Config.Forwarding.Mode = jconfig.ForwardingMode(m) }}
		},
		func() mut {
			n, a := pick(r, names), pick(r, hostPorts)
			if r.Chance(1, 2) {
				a = "localhost:25570"
			} else if r.Chance(1, 2) {
				n = "extra"
			}
			return mut{"server", func(c *gconfig.Config) { c.Config.Servers[n] = a }}
		},
		func() mut {
			return mut{"no-servers", func(c *gconfig.Config) {
				c.Config.Servers = map[string]string{}
				c.Config.Try = nil
				c.Config.ForcedHosts = map[string][]string{}
			}}
		},
		func() mut {
			n := pick(r, []string{"server1", "Server1", "server3", "", "lobby-3", "Lobby-3", "server2 "})
			return mut{"try", func(c *gconfig.Config) { c.Config.Try = append(c.Config.Try, n) }}
		},
		func() mut {
			h := pick(r, []string{"pvp.example.com", "Creative.Example.com", "creative.example.com", "CREATIVE.example.com", "x", ""})
			ns := []string{pick(r, []string{"server1", "server2", "Server2", "nope", "Lobby-3"})}
			if r.Chance(1, 3) {
				ns = append(ns, pick(r, []string{"server1", "ghost"}))
			}
			return mut{"forcedHost", func(c *gconfig.Config) { c.Config.ForcedHosts[h] = append([]string(nil), ns...) }}
		},
		func() mut {
			l := r.Pick(-3, -2, -1, 0, 1, 8, 9, 10, 11, 100)
			return mut{"compression.level", func(c *gconfig.Config) { c.Config.Compression.Level = l }}
		},
		func() mut {
			t := r.Pick(-3, -2, -1, 0, 1, 256, 1 << 20)
			return mut{"compression.threshold", func(c *gconfig.Config) { c.Config.Compression.Threshold = t }}
		},
	}
	liteM := []func() mut{
		func() mut {
			return mut{"lite.no-routes", func(c *gconfig.Config) { c.Config.Lite.Routes = nil }}
		},
		func() mut {
			i, k := r.Intn(2), r.Intn(3)
			return mut{"lite.route-empty", func(c *gconfig.Config) {
				rs := c.Config.Lite.Routes
				if i >= len(rs) {
					return
				}
				switch k {
				case 0:
					rs[i].Host = nil
				case 1:
					rs[i].Backend = nil
				default:
					rs[i].Host, rs[i].Backend = nil, nil
				}
			}}
		},
		func() mut {
			i, s := r.Intn(2), pick(r, strategies)
			return mut{"lite.strategy", func(c *gconfig.Config) {
				if i < len(c.Config.Lite.Routes) {
					c.Config.Lite.Routes[i].Strategy = lconfig.Strategy(s)
				}
			}}
		},
		func() mut {
			i, b, repl := r.Intn(2), pick(r, backends), r.Bool()
			if r.Chance(1, 5) {
				b = randStr(r, "h1:[]$+-", 6)
			}
			return mut{"lite.backend", func(c *gconfig.Config) {
				rs := c.Config.Lite.Routes
				if i >= len(rs) {
					return
				}
				if repl && len(rs[i].Backend) > 0 {
					rs[i].Backend[0] = b
				} else {
					rs[i].Backend = append(rs[i].Backend, b)
				}
			}}
		},
		func() mut {
			// classic-only settings that Lite must ignore (no error may come from them)
			m, l := pick(r, fwdModes), r.Pick(-3, 10)
			return mut{"lite.ignored-classic-settings", func(c *gconfig.Config) {
				c.Config.Forwarding.Mode = jconfig.ForwardingMode(m)
				c.Config.Compression.Level = l
				c.Config.Try = []string{"ghost"}
				c.Config.Via.Enabled = true
				c.Config.Via.Mode = "bogus"
			}}
		},
		func() mut {
			b := pick(r, backends)
			return mut{"lite.extra-route", func(c *gconfig.Config) {
				c.Config.Lite.Routes = append(c.Config.Lite.Routes, lconfig.Route{Host: []string{"x.example.com"}, Backend: []string{b}})
			}}
		},
	}
	pool := append([]func() mut{}, common...)
	if lite {
		pool = append(pool, liteM...)
		pool = append(pool, liteM...) // weight
	} else {
		pool = append(pool, classic...)
	}
	return pool[r.Intn(len(pool))]()
}

// ---------------------------------------------------------------- message -> clause id (stable prefixes only)

var routeIdx = func(msg string) (i, j int, rest string, ok bool) {
	// "Route %d: ..." and "Route %d: backend %d: ..."
	if !strings.HasPrefix(msg, "Route ") {
		return
	}
	s := msg[len("Route "):]
	k := strings.Index(s, ": ")
	if k < 0 {
		return
	}
	i, err := strconv.Atoi(s[:k])
	if err != nil {
		return
	}
	rest = s[k+2:]
	j = -1
	if strings.HasPrefix(rest, "backend ") {
		t := rest[len("backend "):]
		k2 := strings.Index(t, ": ")
		if k2 >= 0 {
			if jj, err := strconv.Atoi(t[:k2]); err == nil {
				j, rest = jj, t[k2+2:]
			}
		}
	}
	return i, j, rest, true
}

type rule struct{ prefix, contains, id string }

var javaErr = []rule{
	{"Bind is empty", "", "BindEmpty"},
	{"Invalid bind ", "", "BindInvalid"},
	{"Invalid quota ops ", "", "QuotaOps"},
	{"Invalid quota burst ", "", "QuotaBurst"},
	{"Invalid quota max entries ", "", "QuotaMaxEntries"},
	{"Invalid proxyProtocolTrustedProxies", "", "TrustedProxies"},
	{"bedrock.backendFloodgate requires bedrock.enabled", "", "BFNeedsBedrock"},
	{"bedrock.backendFloodgate.allowedServers must not be empty", "", "BFNoServers"},
	{"Invalid bedrock.backendFloodgate.allowedServers server name ", "", "BFBadName"},
	{"Duplicate bedrock.backendFloodgate.allowedServers server ", "", "BFDuplicate"},
	{"bedrock.backendFloodgate.allowedServers server ", "must be registered under servers", "BFUnregistered"},
	{"bedrock.backendFloodgate is incompatible with forwarding.mode", "", "BFFwdIncompatible"},
	{"bedrock.backendFloodgate requires forwarding.mode none or velocity", "", "BFFwdUnknown"},
	{"bedrock.backendFloodgate requires readable floodgateKeyPath", "", "BFKey"},
	{"No routes configured", "", "LiteNoRoutes"},
	{"Unknown via mode ", "", "ViaMode"},
	{"Invalid via bind ", "", "ViaBind"},
	{"Unknown forwarding mode ", "", "ForwardingMode"},
	{"Invalid server name format ", "", "ServerName"},
	{"Invalid address ", " for server ", "ServerAddr"},
	{"Fallback/try server ", "must be registered under servers", "TryUnknown"},
	{"Forced host ", "must be registered under servers", "ForcedUnknown"},
	{"Forced hosts ", "differ only in letter case", "ForcedCaseDup"}, // fix commit ad3d3c8
	{"Unsupported compression level ", "", "CompressionLevel"},
	{"Invalid compression threshold ", "", "CompressionThreshold"},
}
var bedrockErr = []rule{
	{"backendFloodgate.allowedServers must not be empty when backendFloodgate is enabled", "", "BedBFNoServers"},
	{"Invalid backendFloodgate allowed server name ", "", "BedBFBadName"},
	{"Duplicate backendFloodgate allowed server ", "", "BedBFDuplicate"},
}
var javaWarn = []rule{
	{"Player forwarding is disabled!", "", "WForwardingNone"},
	{"No backend servers configured.", "", "WNoServers"},
	{"All packets going through the proxy will are uncompressed", "", "WLevelZero"},
	{"All packets going through the proxy will be compressed", "", "WThresholdZero"},
}

func match(rs []rule, msg string) string {
	for _, r := range rs {
		if strings.HasPrefix(msg, r.prefix) && (r.contains == "" || strings.Contains(msg, r.contains)) {
			return r.id
		}
	}
	return ""
}

// classifyErr maps one top-level error message to a Coq clause term ("" = not an error-class message).
func classifyErr(msg string) string {
	if strings.HasPrefix(msg, "Invalid health probe bind address ") {
		return "HealthBind"
	}
	if s, ok := strings.CutPrefix(msg, "java: "); ok {
		if i, j, rest, ok := routeIdx(s); ok {
			switch {
			case j < 0 && strings.HasPrefix(rest, "no host configured"):
				return fmt.Sprintf("(RouteNoHost %d)", i)
			case j < 0 && strings.HasPrefix(rest, "no backend configured"):
				return fmt.Sprintf("(RouteNoBackend %d)", i)
			case j < 0 && strings.HasPrefix(rest, "invalid strategy "):
				return fmt.Sprintf("(RouteStrategy %d)", i)
			case j >= 0 && strings.HasPrefix(rest, "failed to parse address"):
				return fmt.Sprintf("(RouteBackendParse %d %d)", i, j)
			}
			return ""
		}
		return match(javaErr, s)
	}
	if s, ok := strings.CutPrefix(msg, "bedrock: "); ok {
		return match(bedrockErr, s)
	}
	return ""
}

func classifyWarn(msg string) string {
	if s, ok := strings.CutPrefix(msg, "java: "); ok {
		return match(javaWarn, s)
	}
	return ""
}

// ---------------------------------------------------------------- Coq term of the validated fields

// str prints a string as an explicit byte list: string literals are an order of magnitude slower to parse in coqc
func str(s string) string {
	if s == "" {
		return "[]"
	}
	var sb strings.Builder
	sb.WriteByte('[')
	for i := 0; i < len(s); i++ {
		if i > 0 {
			sb.WriteByte(';')
		}
		sb.WriteString(strconv.Itoa(int(s[i])))
	}
	sb.WriteByte(']')
	return sb.String()
}

func strList(xs []string) string { return lib.ListOf(xs, str) }

func quotaTerm(q jconfig.QuotaSettings) string {
	return lib.App("mkq", lib.Bool(q.Enabled), lib.N(uint64(math.Float32bits(q.OPS))), lib.Z(int64(q.Burst)), lib.Z(int64(q.MaxEntries)))
}

func bfKeyOK(c *gconfig.Config) bool {
	bc := c.Config.Bedrock.ToConfig()
	if bc.FloodgateKeyPath == "" {
		return false
	}
	_, err := os.ReadFile(bc.FloodgateKeyPath)
	if err != nil {
		m := bc.GetManaged()
		return os.IsNotExist(err) && m.Enabled
	}
	return true
}

func cfgTerm(c *gconfig.Config) string {
	j := &c.Config
	_, terr := netutil.ParseTrustedNetworks(jconfig.ResolveProxyProtocolTrustedProxies(j.ProxyProtocolTrustedProxies))
	var routes []string
	for _, r := range j.Lite.Routes {
		routes = append(routes, lib.App("mkr", strList(r.Host), strList(r.Backend), str(string(r.Strategy))))
	}
	snames := make([]string, 0, len(j.Servers))
	for n := range j.Servers {
		snames = append(snames, n)
	}
	sort.Strings(snames)
	var servers []string
	for _, n := range snames {
		servers = append(servers, lib.Pair(str(n), str(j.Servers[n])))
	}
	hosts := make([]string, 0, len(j.ForcedHosts))
	for h := range j.ForcedHosts {
		hosts = append(hosts, h)
	}
	sort.Strings(hosts)
	var forced []string
	for _, h := range hosts {
		forced = append(forced, lib.Pair(str(h), strList(j.ForcedHosts[h])))
	}
	return lib.App("mkcfg",
		lib.Bool(c.HealthService.Enabled), str(c.HealthService.Bind),
		str(j.Bind),
		quotaTerm(j.Quota.Connections), quotaTerm(j.Quota.Logins),
		lib.Bool(terr == nil),
		lib.Bool(j.Bedrock.BackendFloodgate.Enabled), lib.Bool(j.Bedrock.Enabled), strList(j.Bedrock.BackendFloodgate.AllowedServers), lib.Bool(bfKeyOK(c)),
		lib.Bool(j.Lite.Enabled), lib.List(routes),
		lib.Bool(j.Via.Enabled), str(j.Via.Mode), str(j.Via.Bind),
		str(string(j.Forwarding.Mode)),
		lib.List(servers), strList(j.Try), lib.List(forced),
		lib.Z(int64(j.Compression.Level)), lib.Z(int64(j.Compression.Threshold)))
}

// ---------------------------------------------------------------- round trip (evaluated in Go)

type fdiff struct {
	Path         string `json:"path"`
	ExpZero      bool   `json:"expected_is_zero"`
	GotIsDefault bool   `json:"loaded_is_default"`
	Exp          string `json:"expected"`
	Got          string `json:"loaded"`
}

func show(v reflect.Value) string {
	if !v.IsValid() {
		return "<none>"
	}
	s := fmt.Sprintf("%+v", v)
	if len(s) > 80 {
		s = s[:80] + "..."
	}
	return s
}

func isEmptyish(v reflect.Value) bool {
	switch v.Kind() {
	case reflect.Slice, reflect.Map:
		return v.Len() == 0
	case reflect.Ptr, reflect.Interface:
		return v.IsNil()
	}
	return v.IsZero()
}

// walk compares expected e with loaded g, treating nil and empty slices/maps as equal and floats by value with
// NaN = NaN; d is the loader's default at the same path (valid iff dOK).
func walk(path string, e, g, d reflect.Value, dOK bool, out *[]fdiff) {
	leaf := func() {
		def := false
		if dOK {
			var tmp []fdiff
			walk(path, d, g, reflect.Value{}, false, &tmp)
			def = len(tmp) == 0
		}
		*out = append(*out, fdiff{path, isEmptyish(e), def, show(e), show(g)})
	}
	if e.Type() != g.Type() {
		leaf()
		return
	}
	switch e.Kind() {
	case reflect.Ptr, reflect.Interface:
		if e.IsNil() || g.IsNil() {
			if e.IsNil() != g.IsNil() {
				leaf()
			}
			return
		}
		dd, ok := reflect.Value{}, false
		if dOK && !d.IsNil() {
			dd, ok = d.Elem(), true
		}
		if e.Elem().Type() != g.Elem().Type() {
			leaf()
			return
		}
		if ok && dd.Type() != e.Elem().Type() {
			ok = false
		}
		walk(path, e.Elem(), g.Elem(), dd, ok, out)
	case reflect.Struct:
		for i := 0; i < e.NumField(); i++ {
			dd := reflect.Value{}
			if dOK {
				dd = d.Field(i)
			}
			walk(path+"."+e.Type().Field(i).Name, e.Field(i), g.Field(i), dd, dOK, out)
		}
	case reflect.Slice, reflect.Array:
		if e.Len() != g.Len() {
			leaf()
			return
		}
		for i := 0; i < e.Len(); i++ {
			dd, ok := reflect.Value{}, false
			if dOK && i < d.Len() {
				dd, ok = d.Index(i), true
			}
			walk(fmt.Sprintf("%s[%d]", path, i), e.Index(i), g.Index(i), dd, ok, out)
		}
	case reflect.Map:
		if e.Len() != g.Len() {
			leaf()
			return
		}
		for _, k := range e.MapKeys() {
			gv := g.MapIndex(k)
			if !gv.IsValid() {
				leaf()
				return
			}
			dd, ok := reflect.Value{}, false
			if dOK && !d.IsNil() {
				if dv := d.MapIndex(k); dv.IsValid() {
					dd, ok = dv, true
				}
			}
			walk(fmt.Sprintf("%s[%v]", path, k), e.MapIndex(k), gv, dd, ok, out)
		}
	case reflect.Bool:
		if e.Bool() != g.Bool() {
			leaf()
		}
	case reflect.Int, reflect.Int8, reflect.Int16, reflect.Int32, reflect.Int64:
		if e.Int() != g.Int() {
			leaf()
		}
	case reflect.Uint, reflect.Uint8, reflect.Uint16, reflect.Uint32, reflect.Uint64, reflect.Uintptr:
		if e.Uint() != g.Uint() {
			leaf()
		}
	case reflect.Float32, reflect.Float64:
		a, b := e.Float(), g.Float()
		if !(a == b || (math.IsNaN(a) && math.IsNaN(b))) {
			leaf()
		}
	case reflect.String:
		if e.String() != g.String() {
			leaf()
		}
	default: // func, chan, complex, unsafe pointer: not expected in a configuration
		leaf()
	}
}

type rtLeg struct {
	Leg   string  `json:"leg"`
	Err   string  `json:"error,omitempty"`
	Diffs []fdiff `json:"diffs,omitempty"`
}

// roundTrip returns 1 (all legs equal), 3 (every difference is a zero-valued field that came back as the
// loader's default: finding C37-3), 2 (anything else), and the details for the replay.
func roundTrip(c0, expected *gconfig.Config, dir string) (int, []rtLeg) {
	var legs []rtLeg
	code := 1
	worse := func(n int) {
		if n == 2 || code == 2 {
			code = 2
		} else if n == 3 {
			code = 3
		}
	}
	def := fresh()
	for _, ext := range []string{"yml", "json"} {
		var data []byte
		var err error
		if ext == "yml" {
			data, err = yaml.Marshal(c0)
		} else {
			data, err = json.Marshal(c0)
		}
		if err != nil {
			legs = append(legs, rtLeg{Leg: ext + "/marshal", Err: err.Error()})
			worse(2)
			continue
		}
		path := filepath.Join(dir, "config."+ext)
		if err := os.WriteFile(path, data, 0o600); err != nil {
			panic(err)
		}
		for _, loader := range []string{"LoadConfig", "live"} {
			var got *gconfig.Config
			if loader == "LoadConfig" {
				v := viper.New()
				v.SetConfigFile(path)
				got, err = gate.LoadConfig(v)
			} else {
				got, err = gate.VerifLoadLiveConfigCandidate(viper.New(), path)
			}
			leg := rtLeg{Leg: ext + "/" + loader}
			if err != nil || got == nil {
				leg.Err = fmt.Sprint(err)
				legs = append(legs, leg)
				worse(2)
				continue
			}
			walk("cfg", reflect.ValueOf(expected).Elem(), reflect.ValueOf(got).Elem(), reflect.ValueOf(def).Elem(), true, &leg.Diffs)
			if len(leg.Diffs) > 0 {
				all := true
				for _, d := range leg.Diffs {
					if !(d.ExpZero && d.GotIsDefault) {
						all = false
					}
				}
				if all {
					worse(3)
				} else {
					worse(2)
				}
				if len(leg.Diffs) > 8 {
					leg.Diffs = leg.Diffs[:8]
				}
				legs = append(legs, leg)
			}
		}
	}
	return code, legs
}

// zeroWithDefault: does c have a zero-valued leaf whose loader default is not zero (trigger class of C37-3)?
func zeroWithDefault(c *gconfig.Config) bool {
	found := false
	var rec func(v, d reflect.Value)
	rec = func(v, d reflect.Value) {
		if found {
			return
		}
		switch v.Kind() {
		case reflect.Struct:
			for i := 0; i < v.NumField(); i++ {
				rec(v.Field(i), d.Field(i))
			}
		case reflect.Ptr, reflect.Interface, reflect.Slice, reflect.Map:
			if isEmptyish(v) && !isEmptyish(d) {
				found = true
			} else if v.Kind() == reflect.Ptr && !v.IsNil() && !d.IsNil() {
				rec(v.Elem(), d.Elem())
			}
		default:
			if v.IsZero() && !d.IsZero() {
				found = true
			}
		}
	}
	rec(reflect.ValueOf(c).Elem(), reflect.ValueOf(fresh()).Elem())
	return found
}

// ---------------------------------------------------------------- main

func main() {
	f := lib.ParseFlags()
	rng := lib.NewRng(f.Seed)
	out := lib.NewOut("C37", f)
	out.Imports = "From Verif Require Import Model.ConfigValidate.\n"
	out.Rule = "a valid base (classic: 3 servers, try, forcedHosts; or Lite: 2 routes) perturbed by 0-3 mutators (mostly 1 or 2), each setting one validated field to a value from a pool that sits on both sides of its boundary (host:port strings incl. brackets/colons/empties, qualified names incl. length 63/64, float32 ops incl. -0, denormals, Inf, NaN, burst/maxEntries -1..2, levels -3..11, thresholds -3..1, trusted-proxy lists, via/forwarding/strategy spellings, Lite backends with signs, overflow, parameters); ASCII only; every case calls the top-level Validate; accepted cases with finite ops run 4 round-trip legs (yaml|json x LoadConfig|live loader). distinct = distinct (configuration, outcome); non-trivial = at least one mutator applied"

	tmp, err := os.MkdirTemp("/tmp", "verif-c37-")
	if err != nil {
		panic(err)
	}
	defer os.RemoveAll(tmp)
	keyOK := filepath.Join(tmp, "floodgate.pem")
	if err := os.WriteFile(keyOK, []byte("0123456789abcdef"), 0o600); err != nil {
		panic(err)
	}
	keyMissing := filepath.Join(tmp, "missing", "key.pem")

	n := f.Count(420)
	unmapped := 0
	for i := 0; i < n; i++ {
		r := rng.Fork()
		lite := r.Chance(1, 3)
		k := r.Pick(0, 1, 1, 1, 1, 2, 2, 2, 2, 3)
		muts := make([]mut, k)
		for m := range muts {
			muts[m] = genMut(r, lite, keyOK, keyMissing)
		}
		if !out.Wanted() {
			out.Add("skipped", nil, false)
			continue
		}
		build := func() *gconfig.Config {
			c := base(lite)
			for _, m := range muts {
				m.apply(c)
			}
			return c
		}
		c0 := build()
		warns, errs := c0.Validate()

		var errIDs, warnIDs, raw []string
		for _, e := range errs {
			id := classifyErr(e.Error())
			if id == "" {
				id = "Unmapped"
				unmapped++
			}
			errIDs = append(errIDs, id)
			raw = append(raw, e.Error())
		}
		for _, w := range warns {
			if id := classifyErr(w.Error()); id != "" {
				warnIDs = append(warnIDs, id) // an error-class message downgraded to a warning
			} else if id := classifyWarn(w.Error()); id != "" {
				warnIDs = append(warnIDs, id)
			}
		}
		sort.Strings(errIDs)
		sort.Strings(warnIDs)

		rt, zd := 0, false
		var legs []rtLeg
		finite := func(x float32) bool { return !math.IsNaN(float64(x)) && !math.IsInf(float64(x), 0) }
		if len(errs) == 0 && finite(c0.Config.Quota.Connections.OPS) && finite(c0.Config.Quota.Logins.OPS) {
			expected := build()
			if len(expected.Config.ForcedHosts) > 0 { // the loader's documented normalisation
				low := map[string][]string{}
				for h, s := range expected.Config.ForcedHosts {
					low[strings.ToLower(h)] = s
				}
				expected.Config.ForcedHosts = low
			}
			d := filepath.Join(tmp, fmt.Sprintf("rt%d", i))
			if err := os.Mkdir(d, 0o755); err != nil {
				panic(err)
			}
			rt, legs = roundTrip(c0, expected, d)
			os.RemoveAll(d)
			zd = zeroWithDefault(c0)
		}

		var mnames []string
		for _, m := range muts {
			mnames = append(mnames, m.name)
		}
		tags := []string{fmt.Sprintf("mutators=%d", k), fmt.Sprintf("errors=%d", min(len(errs), 4)), fmt.Sprintf("roundtrip=%d", rt)}
		if lite {
			tags = append(tags, "mode=lite")
		} else {
			tags = append(tags, "mode=classic")
		}
		for _, m := range mnames {
			tags = append(tags, "mut="+m)
		}
		for _, id := range errIDs {
			tags = append(tags, "clause="+strings.Trim(strings.SplitN(id, " ", 2)[0], "("))
		}
		term := lib.App("Check.C37.mk", cfgTerm(c0), lib.List(errIDs), lib.List(warnIDs), lib.N(uint64(rt)), lib.Bool(zd))
		cj, _ := yaml.Marshal(c0.Config.Lite)
		desc := map[string]any{"mutators": mnames, "lite": lite, "errors": raw, "error_ids": errIDs, "warn_ids": warnIDs,
			"roundtrip": rt, "roundtrip_legs": legs, "zero_with_default": zd,
			"bind": c0.Config.Bind, "servers": c0.Config.Servers, "try": c0.Config.Try, "forcedHosts": c0.Config.ForcedHosts,
			"compression": c0.Config.Compression, "forwarding": c0.Config.Forwarding.Mode, "lite_routes_yaml": string(cj),
			"quota_ops_bits": []uint32{math.Float32bits(c0.Config.Quota.Connections.OPS), math.Float32bits(c0.Config.Quota.Logins.OPS)}}
		out.Add(term, desc, k > 0, tags...)
	}
	out.Extra("unmapped_messages", unmapped)
	out.Extra("roundtrip", "differential testing only: yaml.v3 / encoding/json / viper have no Coq model; equality is a field-by-field reflect walk (nil = empty slice/map, NaN = NaN) against the in-memory configuration with forcedHosts keys lower-cased")
	out.Finish()
}
