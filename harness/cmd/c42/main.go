// C42 harness: drives the real pkg/internal/future (through the verif re-export in package proxy)
// with generated histories of ThenAccept / Complete / ThenCompose calls and records, per call,
// which log callbacks ran on the calling goroutine (future, tag, value) and whether the call hung.
// Three streams: sequential histories (compared exactly with the model inside Coq), re-entrant
// histories (a callback re-enters a future whose mutex is held: the call must hang exactly where
// the model says) and goroutine runs stamped with a logical clock (validated by Base.Lin in Coq).
package main

import (
	"bytes"
	"fmt"
	"runtime"
	"strconv"
	"strings"
	"sync"
	"sync/atomic"
	"time"

	"go.minekube.com/gate/pkg/edition/java/proxy"

	"verifharness/lib"
)

type fut = proxy.VerifC42Future[int]

const (
	kAccept = iota
	kComplete
	kCompose
)

type op struct {
	kind       int
	f          int
	c          uint64 // ThenAccept: tag
	v          int    // Complete: value
	completing bool   // ThenCompose: user function completes g with v+add before returning it
	g          int
	add        int
	out        int
	gated      bool // ThenAccept: the callback records, signals "started" and blocks until released
}

type runrec struct {
	f    int
	c    uint64
	v    int
}

type result struct {
	o        op
	runs     []runrec
	hung     bool
	inv, res int64
	thread   int
	delay    int // busy iterations between the invocation stamp and the call (widens overlap)
	meet     func()
}

var sink atomic.Int64

func spin(n int) {
	for i := 0; i < n; i++ {
		sink.Add(1)
	}
}

// goid reads the current goroutine's id from its stack header ("goroutine 12 [running]:").
// Callbacks run on whichever goroutine completes the future (or registers on a completed one);
// the id is the only way a closure can learn on whose call it is running.
func goid() uint64 {
	var buf [64]byte
	n := runtime.Stack(buf[:], false)
	b := buf[:n]
	b = bytes.TrimPrefix(b, []byte("goroutine "))
	i := bytes.IndexByte(b, ' ')
	id, _ := strconv.ParseUint(string(b[:i]), 10, 64)
	return id
}

type world struct {
	futs  []*fut
	clock atomic.Int64
	mu    sync.Mutex
	cur   map[uint64]*result // goroutine id -> call it is executing

	started     chan struct{} // gated scenarios: closed when the gated callback is entered
	startedOnce sync.Once
	release     chan struct{} // gated scenarios: closed to let the gated callback return
}

func newWorld(nfut int, outs map[int]bool) *world {
	w := &world{futs: make([]*fut, nfut), cur: map[uint64]*result{}}
	for i := range w.futs {
		if !outs[i] {
			w.futs[i] = proxy.VerifC42New[int]()
		}
	}
	return w
}

func (w *world) log(f int, c uint64, v int) {
	id := goid()
	w.mu.Lock()
	r := w.cur[id]
	if r != nil {
		r.runs = append(r.runs, runrec{f, c, v})
	}
	w.mu.Unlock()
	if r != nil && r.thread != 0 {
		spin(200) // a callback that takes a little while: the future's mutex stays held meanwhile
	}
}

// exec performs one API call on the current goroutine.
func (w *world) exec(r *result) { w.execAfter(r, nil) }

// spinBarrier lets n goroutines leave at (almost) the same instant, round after round.
type spinBarrier struct {
	n       int64
	arrived atomic.Int64
}

func (b *spinBarrier) wait(round int64) {
	b.arrived.Add(1)
	for i := 0; b.arrived.Load() < b.n*round; i++ {
		if i&0xffff == 0xffff {
			runtime.Gosched()
		}
	}
}

func (w *world) execAfter(r *result, gate func()) {
	id := goid()
	w.mu.Lock()
	w.cur[id] = r
	w.mu.Unlock()
	o := r.o
	if gate != nil {
		gate()
	}
	inv := w.clock.Add(1)
	w.mu.Lock()
	r.inv = inv
	w.mu.Unlock()
	if r.meet != nil {
		r.meet() // wait (bounded) until every call of this round has taken its invocation stamp
	}
	spin(r.delay)
	switch o.kind {
	case kAccept:
		if o.gated {
			w.futs[o.f].ThenAccept(func(v int) {
				w.log(o.f, o.c, v)
				w.startedOnce.Do(func() { close(w.started) })
				<-w.release
			})
		} else {
			w.futs[o.f].ThenAccept(func(v int) { w.log(o.f, o.c, v) })
		}
	case kComplete:
		w.futs[o.f].Complete(o.v)
	case kCompose:
		w.futs[o.out] = proxy.VerifC42ThenCompose(w.futs[o.f], func(v int) *fut {
			g := w.futs[o.g]
			if o.completing {
				g.Complete(v + o.add)
			}
			return g
		})
	}
	res := w.clock.Add(1)
	w.mu.Lock()
	r.res = res
	delete(w.cur, id)
	w.mu.Unlock()
}

const hangAfter = 60 * time.Second // upper bound only; real hangs are recognised much earlier

// blockedOnMutex reports whether goroutine gid is parked in sync.Mutex.Lock.  In a sequential
// history nobody else is running, so a call parked on a mutex can never be woken: it hangs.
func blockedOnMutex(gid uint64) bool {
	buf := make([]byte, 1<<20)
	n := runtime.Stack(buf, true)
	hdr := []byte(fmt.Sprintf("goroutine %d [", gid))
	i := bytes.Index(buf[:n], hdr)
	if i < 0 {
		return false
	}
	rest := buf[i+len(hdr) : n]
	j := bytes.IndexByte(rest, ']')
	if j < 0 {
		return false
	}
	st := string(rest[:j])
	return strings.HasPrefix(st, "sync.Mutex.Lock") || strings.HasPrefix(st, "semacquire")
}

// execWatched runs one call on a fresh goroutine and returns what it did; a call found parked on a
// mutex (twice in a row) is recorded as hung (its goroutine stays blocked for ever, holding
// whatever mutexes it holds) and a snapshot of its record is returned.
func (w *world) execWatched(r *result) *result {
	done := make(chan struct{})
	gidc := make(chan uint64, 1)
	go func() { gidc <- goid(); w.exec(r); close(done) }()
	gid := <-gidc
	deadline := time.After(hangAfter)
	strikes := 0
	for {
		select {
		case <-done:
			return r
		case <-deadline:
			strikes = 2
		case <-time.After(15 * time.Millisecond):
			if blockedOnMutex(gid) {
				strikes++
			} else {
				strikes = 0
			}
		}
		if strikes >= 2 {
			select {
			case <-done:
				return r
			default:
			}
			w.mu.Lock()
			cp := &result{o: r.o, runs: append([]runrec(nil), r.runs...), hung: true, inv: r.inv, res: 1 << 40, thread: r.thread}
			w.mu.Unlock()
			return cp
		}
	}
}

// ---------- printing ----------

func opTerm(o op) string {
	switch o.kind {
	case kAccept:
		return lib.App("ThenAccept", lib.Nat(o.f), lib.N(o.c))
	case kComplete:
		return lib.App("Complete", lib.Nat(o.f), lib.N(uint64(o.v)))
	default:
		u := lib.App("UExisting", lib.Nat(o.g))
		if o.completing {
			u = lib.App("UCompleting", lib.Nat(o.g), lib.N(uint64(o.add)))
		}
		return lib.App("ThenCompose", lib.Nat(o.f), u, lib.Nat(o.out))
	}
}

func opDesc(o op) string {
	switch o.kind {
	case kAccept:
		return fmt.Sprintf("f%d.ThenAccept(log %d)", o.f, o.c)
	case kComplete:
		return fmt.Sprintf("f%d.Complete(%d)", o.f, o.v)
	default:
		if o.completing {
			return fmt.Sprintf("f%d=ThenCompose(f%d, func(v){f%d.Complete(v+%d); return f%d})", o.out, o.f, o.g, o.add, o.g)
		}
		return fmt.Sprintf("f%d=ThenCompose(f%d, func(v){return f%d})", o.out, o.f, o.g)
	}
}

func caseTerm(nfut int, concurrent bool, rs []*result) string {
	calls := lib.ListOf(rs, func(r *result) string {
		runs := lib.ListOf(r.runs, func(x runrec) string {
			return "(" + lib.Nat(x.f) + ", " + lib.N(x.c) + ", " + lib.N(uint64(x.v)) + ")"
		})
		return lib.App("Lin.mkCall", opTerm(r.o), lib.Pair(runs, lib.Some(lib.Bool(r.hung))), lib.Z(r.inv), lib.Z(r.res))
	})
	return lib.App("Check.C42.mk", lib.Nat(nfut), lib.Bool(concurrent), calls)
}

func caseDesc(kind string, nfut int, rs []*result) map[string]any {
	var calls []map[string]any
	for _, r := range rs {
		var runs []string
		for _, x := range r.runs {
			runs = append(runs, fmt.Sprintf("f%d/log%d(%d)", x.f, x.c, x.v))
		}
		calls = append(calls, map[string]any{"call": opDesc(r.o), "thread": r.thread, "ran": runs, "hung": r.hung, "inv": r.inv, "res": r.res})
	}
	return map[string]any{"kind": kind, "futures": nfut, "calls": calls}
}

// ---------- generators ----------

// seqProgram: nfut futures; the last k of them are results of ThenCompose calls (created in id
// order).  With reentrant=false every compose has f < g < out, so nested lock acquisition always
// goes to a larger id and no call can block.
func seqProgram(r *lib.Rng, reentrant bool) (int, map[int]bool, []op) {
	base := r.Range(1, 4)
	k := r.Pick(0, 0, 1, 1, 2, 3)
	if base < 2 && !reentrant {
		k = 0
	}
	if reentrant && k == 0 {
		k = 1
	}
	nfut := base + k
	outs := map[int]bool{}
	var composes []op
	for j := 0; j < k; j++ {
		out := base + j
		outs[out] = true
		var f, g int
		if reentrant {
			f = r.Intn(out)
			g = r.Intn(out) // any existing future, f itself included
			if j == 0 && r.Chance(1, 2) {
				g = f
			}
		} else {
			f = r.Intn(out - 1)
			g = r.Range(f+1, out-1)
		}
		o := op{kind: kCompose, f: f, g: g, out: out}
		if r.Chance(1, 3) {
			o.completing = true
			o.add = r.Range(1, 5) * 10
		}
		composes = append(composes, o)
	}
	n := r.Range(2, 12)
	if reentrant {
		n = r.Range(2, 7) // every call after a hang may hang too; bound the waiting
	}
	var ops []op
	created := base // futures with id < created exist
	ci := 0
	for i := 0; i < n; i++ {
		// place pending composes at random points, in order
		if ci < k && (r.Chance(1, 3) || n-i <= k-ci) {
			ops = append(ops, composes[ci])
			ci++
			created++
			continue
		}
		f := r.Intn(created)
		if r.Chance(3, 5) {
			ops = append(ops, op{kind: kAccept, f: f, c: uint64(r.Range(1, 4))})
		} else {
			ops = append(ops, op{kind: kComplete, f: f, v: r.Range(1, 9)})
		}
	}
	for ; ci < k; ci++ {
		ops = append(ops, composes[ci])
		created++
	}
	if !reentrant {
		// closing probes: one fresh-tag ThenAccept per future shows whether and with what it completed
		for f := 0; f < nfut; f++ {
			if r.Chance(2, 3) {
				ops = append(ops, op{kind: kAccept, f: f, c: uint64(100 + f)})
			}
		}
	}
	return nfut, outs, ops
}

func runSequential(nfut int, outs map[int]bool, ops []op) []*result {
	w := newWorld(nfut, outs)
	var rs []*result
	hangs := 0
	for _, o := range ops {
		if hangs >= 3 {
			break
		}
		// a call on a future that was never created (its ThenCompose hung before returning)
		// cannot be made at all
		if w.futs[o.f] == nil || (o.kind == kCompose && w.futs[o.g] == nil) {
			continue
		}
		r := w.execWatched(&result{o: o})
		if r.hung {
			hangs++
		}
		rs = append(rs, r)
	}
	return rs
}

type concProgram struct {
	nfut    int
	outs    map[int]bool
	prefix  []op
	threads [][]op
	delays  [][]int
}

// concProgramGen: compose graph restricted so that every call acquires all its mutexes before it
// releases any (linear chains: at most one non-log callback per future, f < g < out, inner
// functions only return an existing future).  Under that shape each call is atomic and the
// history must be linearizable w.r.t. the sequential model; see Model/Future.v.
func concProgramGen(r *lib.Rng) concProgram {
	base := r.Range(2, 5)
	k := r.Pick(0, 1, 1, 2)
	nonlog := map[int]int{}
	outs := map[int]bool{}
	var composes []op
	for j := 0; j < k; j++ {
		out := base + len(composes)
		var cand [][2]int
		for f := 0; f < out-1; f++ {
			for g := f + 1; g < out; g++ {
				if nonlog[f] == 0 && nonlog[g] == 0 {
					cand = append(cand, [2]int{f, g})
				}
			}
		}
		if len(cand) == 0 {
			break
		}
		p := cand[r.Intn(len(cand))]
		nonlog[p[0]]++
		nonlog[p[1]]++
		outs[out] = true
		composes = append(composes, op{kind: kCompose, f: p[0], g: p[1], out: out})
	}
	nfut := base + len(composes)
	cp := concProgram{nfut: nfut, outs: outs}
	// composes go to the prefix, except possibly the last one which a thread performs itself
	inThread := -1
	nthreads := r.Range(2, 4)
	lastInThread := len(composes) > 0 && r.Chance(1, 3)
	pre := composes
	if lastInThread {
		pre = composes[:len(composes)-1]
		inThread = r.Intn(nthreads)
	}
	created := base
	for _, c := range pre {
		if r.Chance(1, 3) {
			cp.prefix = append(cp.prefix, randomCall(r, created, 1))
		}
		cp.prefix = append(cp.prefix, c)
		created++
	}
	if r.Chance(1, 3) {
		cp.prefix = append(cp.prefix, randomCall(r, created, 1))
	}
	budget := 7 // a non-linearizable history makes the Coq-side search visit every order: keep it small
	for t := 0; t < nthreads; t++ {
		n := r.Range(1, 3)
		var ops []op
		vis := created
		for i := 0; i < n && budget > 0; i++ {
			if t == inThread && i == 0 {
				ops = append(ops, composes[len(composes)-1])
				vis = created + 1
				budget--
				continue
			}
			ops = append(ops, randomCall(r, vis, t+1))
			budget--
		}
		cp.threads = append(cp.threads, ops)
		ds := make([]int, len(ops))
		for i := range ds {
			ds[i] = r.Pick(5, 40, 150, 500)
		}
		cp.delays = append(cp.delays, ds)
	}
	return cp
}

func randomCall(r *lib.Rng, created, tagBase int) op {
	f := r.Intn(created)
	if r.Chance(1, 2) {
		return op{kind: kAccept, f: f, c: uint64(tagBase*10 + r.Range(1, 3))}
	}
	return op{kind: kComplete, f: f, v: tagBase*10 + r.Range(1, 3)}
}

func runConcurrent(cp concProgram) ([]*result, bool) {
	w := newWorld(cp.nfut, cp.outs)
	var rs []*result
	for _, o := range cp.prefix {
		r := &result{o: o}
		w.exec(r)
		rs = append(rs, r)
	}
	start := make(chan struct{})
	var wg sync.WaitGroup
	per := make([][]*result, len(cp.threads))
	bar := &spinBarrier{n: int64(len(cp.threads))}
	rounds := 0
	for _, ops := range cp.threads {
		if len(ops) > rounds {
			rounds = len(ops)
		}
	}
	for t, ops := range cp.threads {
		for _, o := range ops {
			per[t] = append(per[t], &result{o: o, thread: t + 1, delay: cp.delays[t][len(per[t])]})
		}
	}
	// meet: the calls of round i wait for each other right after their invocation stamps, so that
	// they overlap in (logical) time whatever the OS scheduler does; bounded by 20 ms
	for i := 0; i < rounds; i++ {
		n := int64(0)
		for t := range per {
			if i < len(per[t]) {
				n++
			}
		}
		cnt := new(atomic.Int64)
		for t := range per {
			if i < len(per[t]) {
				per[t][i].meet = func() {
					cnt.Add(1)
					dl := time.Now().Add(20 * time.Millisecond)
					for j := 0; cnt.Load() < n; j++ {
						if j&0xfff == 0xfff && time.Now().After(dl) {
							return
						}
					}
				}
			}
		}
	}
	for t := range cp.threads {
		wg.Add(1)
		go func(t int) {
			defer wg.Done()
			<-start
			// round i: everybody's i-th call starts together (threads with fewer calls keep
			// taking part in the barrier so that it stays balanced)
			for i := 0; i < rounds; i++ {
				round := int64(i + 1)
				if i < len(per[t]) {
					w.execAfter(per[t][i], func() { bar.wait(round) })
				} else {
					bar.wait(round)
				}
			}
		}(t)
	}
	close(start)
	done := make(chan struct{})
	go func() { wg.Wait(); close(done) }()
	hung := false
	select {
	case <-done:
	case <-time.After(2 * hangAfter):
		hung = true
		w.mu.Lock()
		for _, rr := range per {
			for _, r := range rr {
				if r.res == 0 {
					r.hung = true
					r.res = 1 << 40
					if r.inv == 0 {
						r.inv = 1 << 39
					}
				}
			}
		}
		w.mu.Unlock()
	}
	for _, rr := range per {
		rs = append(rs, rr...)
	}
	return rs, hung
}


// ---------- gated scenarios: a second completion while a callback of the first is in flight ----------

type gatedProgram struct {
	prefix []op // registrations before completion; exactly one of them is gated
	first  op   // Complete(0, v1), on its own goroutine
	window []op // calls made, one goroutine each, while the gated callback is blocked
	post   []op // calls made after everything returned
}

func gatedGen(r *lib.Rng) gatedProgram {
	var g gatedProgram
	tag := uint64(0)
	acc := func(gated bool) op { tag++; return op{kind: kAccept, f: 0, c: tag, gated: gated} }
	nPre := r.Range(1, 3)
	gatedAt := r.Intn(nPre)
	for i := 0; i < nPre; i++ {
		g.prefix = append(g.prefix, acc(i == gatedAt))
	}
	v1 := r.Range(1, 9)
	other := func() int {
		v := r.Range(1, 9)
		if v == v1 {
			v = v1 + 10
		}
		return v
	}
	g.first = op{kind: kComplete, f: 0, v: v1}
	g.window = []op{acc(false), {kind: kComplete, f: 0, v: other()}}
	if r.Chance(1, 2) {
		g.window = append(g.window, acc(false))
	}
	if r.Chance(1, 3) {
		g.window = append(g.window, op{kind: kComplete, f: 0, v: other()})
	}
	for i, j := range r.Perm(len(g.window)) { // launch order
		g.window[i], g.window[j] = g.window[j], g.window[i]
	}
	g.post = []op{acc(false)}
	if r.Chance(1, 2) {
		g.post = append(g.post, op{kind: kComplete, f: 0, v: other()}, acc(false))
	}
	return g
}

// runGated is deterministic: the first completion's gated callback is blocked on a channel; every
// window call is started on its own goroutine and the harness waits until it has returned or is
// parked on the future's mutex before starting the next; then the callback is released.
func runGated(g gatedProgram) ([]*result, bool) {
	w := newWorld(1, nil)
	w.started = make(chan struct{})
	w.release = make(chan struct{})
	var rs []*result
	for _, o := range g.prefix {
		r := &result{o: o}
		w.exec(r)
		rs = append(rs, r)
	}
	type running struct {
		r    *result
		done chan struct{}
		gid  uint64
	}
	launch := func(o op, thread int) running {
		x := running{r: &result{o: o, thread: thread}, done: make(chan struct{})}
		gidc := make(chan uint64, 1)
		go func() { gidc <- goid(); w.exec(x.r); close(x.done) }()
		x.gid = <-gidc
		return x
	}
	settle := func(x running) {
		deadline := time.After(3 * time.Second)
		for {
			select {
			case <-x.done:
				return
			case <-deadline:
				return
			case <-time.After(3 * time.Millisecond):
				if blockedOnMutex(x.gid) {
					return
				}
			}
		}
	}
	all := []running{launch(g.first, 1)}
	select {
	case <-w.started:
	case <-time.After(5 * time.Second):
	}
	for i, o := range g.window {
		x := launch(o, i+2)
		settle(x)
		all = append(all, x)
	}
	close(w.release)
	hung := false
	for _, x := range all {
		select {
		case <-x.done:
			rs = append(rs, x.r)
		case <-time.After(10 * time.Second):
			hung = true
			w.mu.Lock()
			rs = append(rs, &result{o: x.r.o, runs: append([]runrec(nil), x.r.runs...), hung: true, inv: x.r.inv, res: 1 << 40, thread: x.r.thread})
			w.mu.Unlock()
		}
	}
	if !hung {
		for _, o := range g.post {
			r := &result{o: o}
			w.exec(r)
			rs = append(rs, r)
		}
	}
	return rs, hung
}

func overlaps(rs []*result) bool {
	for i, a := range rs {
		for j, b := range rs {
			if i < j && a.thread != b.thread && a.thread != 0 && b.thread != 0 && a.inv < b.res && b.inv < a.res {
				return true
			}
		}
	}
	return false
}

func main() {
	f := lib.ParseFlags()
	rng := lib.NewRng(f.Seed)
	out := lib.NewOut("C42", f)
	out.Imports = "From Verif Require Import Base.Lin Model.Future.\n"
	out.Rule = "three streams over the real future.Future[int]: (seq) 2..12 random ThenAccept/Complete/ThenCompose calls on 1..7 futures, composes with f<g<out, repeated tags and repeated completions, closing probe registrations; (reentrant) same but the composed function may return a future whose mutex is held, so calls hang (3 s watchdog per call); (conc) 2..4 goroutines with 1..3 calls each after a sequential prefix, compose graph restricted to linear chains, logical-clock stamps. (gated, deterministic) 1..3 callbacks registered on one future, one of them blocks on a channel; Complete(v1) runs on its own goroutine and enters that callback; while it is blocked further registrations and Complete calls with other values are started one goroutine each (the harness waits until each has returned or is parked on the mutex), then the callback is released and more registrations/completions follow; judged on the observed (callback, value) pairs (one value per future, each callback once) and for linearizability. Non-trivial: gated = always; seq/reentrant = at least one callback ran and the history has a ThenCompose, a repeated Complete of one future, or a hang; conc = two calls of different goroutines overlapped in time. Distinct = distinct Coq case terms."

	type job struct {
		kind string
		run  func() (string, any, bool, []string)
	}
	var jobs []job
	nSeq, nRe, nConc := f.Count(220), f.Count(8), f.Count(100)
	for i := 0; i < nSeq; i++ {
		r := rng.Fork()
		jobs = append(jobs, job{"seq", func() (string, any, bool, []string) {
			nfut, outs, ops := seqProgram(r, false)
			rs := runSequential(nfut, outs, ops)
			return seqCase("seq", nfut, rs)
		}})
	}
	for i := 0; i < nRe; i++ {
		r := rng.Fork()
		jobs = append(jobs, job{"reentrant", func() (string, any, bool, []string) {
			nfut, outs, ops := seqProgram(r, true)
			rs := runSequential(nfut, outs, ops)
			return seqCase("reentrant", nfut, rs)
		}})
	}
	for i := 0; i < f.Count(12); i++ {
		r := rng.Fork()
		jobs = append(jobs, job{"gated", func() (string, any, bool, []string) {
			g := gatedGen(r)
			rs, hung := runGated(g)
			tags := []string{"kind=gated", fmt.Sprintf("window=%d", len(g.window))}
			if hung {
				tags = append(tags, "gated-hang")
			}
			return caseTerm(1, true, rs), caseDesc("gated", 1, rs), true, tags
		}})
	}
	for i := 0; i < nConc; i++ {
		r := rng.Fork()
		jobs = append(jobs, job{"conc", func() (string, any, bool, []string) {
			cp := concProgramGen(r)
			// a run in which nothing overlapped says little: try the same program again (fresh futures)
			rs, hung := runConcurrent(cp)
			for a := 0; a < 4 && !hung && !overlaps(rs); a++ {
				rs, hung = runConcurrent(cp)
			}
			tags := []string{"kind=conc", fmt.Sprintf("threads=%d", len(cp.threads))}
			ov := overlaps(rs)
			if ov {
				tags = append(tags, "conc-overlap")
			}
			if hung {
				tags = append(tags, "conc-hang")
			}
			return caseTerm(cp.nfut, true, rs), caseDesc("conc", cp.nfut, rs), ov, tags
		}})
	}
	// run: sequential-kind jobs in parallel workers (they only wait on watchdogs), goroutine runs
	// one at a time so that their goroutines really share the processors
	type res struct {
		term string
		desc any
		nt   bool
		tags []string
	}
	results := make([]res, len(jobs))
	var wg sync.WaitGroup
	sem := make(chan struct{}, 16)
	for i, j := range jobs {
		if j.kind == "conc" || !wantedIdx(f, i) {
			continue
		}
		wg.Add(1)
		sem <- struct{}{}
		go func(i int, j job) {
			defer wg.Done()
			t, d, nt, tags := j.run()
			results[i] = res{t, d, nt, tags}
			<-sem
		}(i, j)
	}
	for i, j := range jobs {
		if j.kind != "conc" || !wantedIdx(f, i) {
			continue
		}
		t, d, nt, tags := j.run()
		results[i] = res{t, d, nt, tags}
	}
	wg.Wait()
	for i := range jobs {
		r := results[i]
		out.Add(r.term, r.desc, r.nt, r.tags...)
	}
	out.Finish()
}

func wantedIdx(f lib.Flags, i int) bool { return f.Only < 0 || f.Only == i }

func seqCase(kind string, nfut int, rs []*result) (string, any, bool, []string) {
	tags := []string{"kind=" + kind}
	ran, compose, hang := false, false, false
	completes := map[int]int{}
	for _, r := range rs {
		if len(r.runs) > 0 {
			ran = true
		}
		if r.o.kind == kCompose {
			compose = true
		}
		if r.o.kind == kComplete {
			completes[r.o.f]++
		}
		if r.hung {
			hang = true
		}
	}
	rep := false
	for _, n := range completes {
		if n > 1 {
			rep = true
		}
	}
	if compose {
		tags = append(tags, "has-compose")
	}
	if rep {
		tags = append(tags, "repeated-complete")
	}
	if hang {
		tags = append(tags, "hang")
	}
	tags = append(tags, fmt.Sprintf("calls=%d", len(rs)/4*4))
	return caseTerm(nfut, false, rs), caseDesc(kind, nfut, rs), ran && (compose || rep || hang), tags
}
