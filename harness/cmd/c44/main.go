// C44 harness: real netmc connections (netmc.NewMinecraftConn over net.Pipe, real read loop) with a
// session handler that panics with error / string / runtime.Error / custom values inside HandlePacket,
// up to 32 goroutines closing the connection concurrently in different ways (Close, CloseWith,
// CloseUnknown, the peer closing its end = read EOF, a write failing on the broken pipe), and writes
// started after everything is closed.  Every scenario runs in a CHILD process (re-exec of this binary) so
// that a panic that is not contained is an observation (the child dies), not a harness crash.
package main

import (
	"bufio"
	"bytes"
	"context"
	"encoding/json"
	"errors"
	"fmt"
	"io"
	"net"
	"os"
	"os/exec"
	"strings"
	"sync"
	"sync/atomic"
	"time"

	"go.minekube.com/gate/pkg/edition/java/netmc"
	"go.minekube.com/gate/pkg/edition/java/proto/packet"
	"go.minekube.com/gate/pkg/edition/java/proto/state"
	"go.minekube.com/gate/pkg/edition/java/proto/version"
	"go.minekube.com/gate/pkg/gate/proto"

	"verifharness/lib"
)

const (
	hReturn = iota
	hPanicError
	hPanicString
	hPanicIndex  // runtime.Error: index out of range
	hPanicNilMap // runtime.Error: assignment to entry in nil map
	hPanicCustom
)

var hCoq = []string{"HReturn", "(HPanic PError)", "(HPanic PString)", "(HPanic PRuntime)", "(HPanic PRuntime)", "(HPanic PCustom)"}
var hName = []string{"return", "panic-error", "panic-string", "panic-runtime-index", "panic-runtime-nilmap", "panic-custom"}

const (
	kClose = iota
	kCloseWith
	kCloseUnknown
	kPeerClose
	kWriteFail
)

var kCoq = []string{"KClose", "KCloseWith", "KCloseUnknown", "KPeerClose", "KWriteFail"}

type scenario struct {
	Script     []int `json:"script"`
	Closers    []int `json:"closers"`
	DrainFirst bool  `json:"drain_first"`
	NAfter     int   `json:"n_after"`
	Writers    int   `json:"writers"` // goroutines writing while the closers run (results not judged)
	Cancel     int   `json:"cancel"`  // parent context: 0 never cancelled, 1 before the closers, 2 after everything, 3 racing the closers
	DiscOps    []int `json:"disc_ops"` // what Disconnected() does with ITS OWN connection
	Paired     bool  `json:"paired"`   // a second connection: this one's Disconnected() kicks it (CloseWith), its Disconnected() closes this one unless already closed and writes to it
}

const (
	dWritePacket = iota
	dWrite
	dBufferPacket
	dBufferPayload
	dCloseWith
	dGuardedClose
)

var dCoq = []string{"DWrite", "DWrite", "DWrite", "DWrite", "DCloseWith", "DGuardedClose"}
var dName = []string{"WritePacket", "Write", "BufferPacket", "BufferPayload", "CloseWith", "guarded-CloseUnknown"}

var cCoq = []string{"CNone", "CBefore", "CAfter", "CRacing"}

type result struct {
	Handled      []int    `json:"handled"`
	Disc         int      `json:"disc"`
	Winners      int      `json:"winners"`
	After        []string `json:"after"`
	Closed       bool     `json:"closed"`
	LoopReturned bool     `json:"loop_returned"`
	ClosersDone  bool     `json:"closers_returned"`
	DRes         []string `json:"dres"`
	PDisc        int      `json:"pdisc"`
	Note         string   `json:"note,omitempty"`
}

type custom struct{ n int }

type handler struct {
	script  []int
	mu      sync.Mutex
	cond    *sync.Cond
	handled []int
	disc    atomic.Int32
	onDisc  func() // runs inside Disconnected(), i.e. inside the connection's teardown
}

func (h *handler) HandlePacket(pc *proto.PacketContext) {
	p := pc.Payload
	if len(p) < 4 {
		return
	}
	idx := int(p[len(p)-4])<<24 | int(p[len(p)-3])<<16 | int(p[len(p)-2])<<8 | int(p[len(p)-1])
	h.mu.Lock()
	h.handled = append(h.handled, idx)
	h.cond.Broadcast()
	h.mu.Unlock()
	if idx < 0 || idx >= len(h.script) {
		return
	}
	switch h.script[idx] {
	case hPanicError:
		panic(errors.New("handler failed"))
	case hPanicString:
		panic("handler failed")
	case hPanicIndex:
		var a []int
		_ = a[idx+1]
	case hPanicNilMap:
		var m map[string]int
		m["x"] = idx
	case hPanicCustom:
		panic(custom{idx})
	}
}
func (h *handler) Disconnected() {
	h.disc.Add(1)
	if h.onDisc != nil {
		h.onDisc()
	}
}
func (h *handler) Activated()    {}
func (h *handler) Deactivated()  {}

func frame(idx int) []byte {
	return []byte{5, 0x7E, byte(idx >> 24), byte(idx >> 16), byte(idx >> 8), byte(idx)}
}

func dclass(err error) string {
	if errors.Is(err, netmc.ErrClosedConn) {
		return "DClosed"
	}
	return "DOther"
}

// ownOp is one call the handler makes on a connection from inside a teardown.
func ownOp(mc netmc.MinecraftConn, op int) string {
	ka := &packet.KeepAlive{RandomID: 9}
	switch op {
	case dWritePacket:
		return dclass(mc.WritePacket(ka))
	case dWrite:
		return dclass(mc.Write([]byte{0x7E, 1}))
	case dBufferPacket:
		return dclass(mc.BufferPacket(ka))
	case dBufferPayload:
		return dclass(mc.BufferPayload([]byte{0x7E, 1}))
	case dCloseWith:
		return dclass(netmc.CloseWith(mc, ka))
	default: // serverConnection.disconnect0: only close if not already closing
		if !netmc.Closed(mc) {
			_ = netmc.CloseUnknown(mc)
			return "DOther"
		}
		return "DSkipped"
	}
}

func wclass(err error) string {
	switch {
	case err == nil:
		return "WOk"
	case errors.Is(err, netmc.ErrClosedConn):
		return "WClosed"
	default:
		return "WIO"
	}
}

func runScenario(sc scenario) result {
	a, b := net.Pipe()
	h := &handler{script: sc.Script}
	h.cond = sync.NewCond(&h.mu)
	// the connection's own context is a child of this one (proxy shutdown / tunnel context in production)
	parent, cancelParent := context.WithCancel(context.Background())
	defer cancelParent()
	readTimeout := 5 * time.Second
	if sc.Cancel == 1 || sc.Cancel == 3 {
		// after a parent cancel CloseWith and writes close nothing; a read loop that nobody wakes up
		// only notices at its next read timeout
		readTimeout = 1500 * time.Millisecond
	}
	mc, loop := netmc.NewMinecraftConn(parent, a, proto.ServerBound, readTimeout, 5*time.Second, -1, nil)
	mc.SetProtocol(version.Minecraft_1_21_4.Protocol)
	mc.SetActiveSessionHandler(state.Play, h)
	var dmu sync.Mutex
	var dres []string
	var ph *handler
	if sc.Paired {
		// the "player" of this "backend": torn down by the backend's teardown, and its own teardown comes
		// back to the backend (which is then in the middle of closing)
		pa, pb := net.Pipe()
		go io.Copy(io.Discard, pb)
		defer pb.Close()
		ph = &handler{}
		ph.cond = sync.NewCond(&ph.mu)
		player, _ := netmc.NewMinecraftConn(context.Background(), pa, proto.ServerBound, 5*time.Second, 5*time.Second, -1, nil)
		player.SetProtocol(version.Minecraft_1_21_4.Protocol)
		player.SetActiveSessionHandler(state.Play, ph)
		h.onDisc = func() { _ = netmc.CloseWith(player, &packet.KeepAlive{RandomID: 8}) }
		ph.onDisc = func() {
			r1 := ownOp(mc, dGuardedClose)
			r2 := ownOp(mc, dWritePacket)
			dmu.Lock()
			dres = append(dres, r1, r2)
			dmu.Unlock()
		}
	} else if len(sc.DiscOps) > 0 {
		h.onDisc = func() {
			for _, op := range sc.DiscOps {
				r := ownOp(mc, op)
				dmu.Lock()
				dres = append(dres, r)
				dmu.Unlock()
			}
		}
	}
	loopDone := make(chan struct{})
	go func() { loop(); close(loopDone) }()
	go io.Copy(io.Discard, b) // whatever the connection writes (CloseWith's packet, keep-alives)

	var res result
	feed := func() {
		for i := range sc.Script {
			b.SetWriteDeadline(time.Now().Add(3 * time.Second))
			if _, err := b.Write(frame(i)); err != nil {
				return
			}
		}
	}
	fed := make(chan struct{})
	if sc.DrainFirst {
		feed()
		close(fed)
		// wait until every packet was handled (or the process dies / 5 s pass)
		deadline := time.Now().Add(5 * time.Second)
		t := time.AfterFunc(5*time.Second, func() { h.mu.Lock(); h.cond.Broadcast(); h.mu.Unlock() })
		h.mu.Lock()
		for len(h.handled) < len(sc.Script) && time.Now().Before(deadline) {
			h.cond.Wait()
		}
		h.mu.Unlock()
		t.Stop()
		time.Sleep(2 * time.Millisecond) // let the last handler call (and its panic) unwind
	} else {
		go func() { feed(); close(fed) }()
	}

	if sc.Cancel == 1 {
		cancelParent() // before anything closed the connection
	}
	start := make(chan struct{})
	var wg sync.WaitGroup
	var winners atomic.Int32
	if sc.Cancel == 3 {
		wg.Add(1)
		go func() { defer wg.Done(); <-start; cancelParent() }()
	}
	ka := func() proto.Packet { return &packet.KeepAlive{RandomID: 7} }
	for _, k := range sc.Closers {
		wg.Add(1)
		go func(k int) {
			defer wg.Done()
			<-start
			var err error
			switch k {
			case kClose:
				err = mc.Close()
			case kCloseWith:
				err = netmc.CloseWith(mc, ka())
			case kCloseUnknown:
				err = netmc.CloseUnknown(mc)
			case kPeerClose:
				b.Close()
				return
			case kWriteFail:
				b.Close()
				_ = mc.WritePacket(ka())
				return
			}
			if !errors.Is(err, netmc.ErrClosedConn) {
				winners.Add(1)
			}
		}(k)
	}
	for w := 0; w < sc.Writers; w++ {
		wg.Add(1)
		go func() {
			defer wg.Done()
			<-start
			for i := 0; i < 5; i++ {
				_ = mc.WritePacket(ka())
			}
		}()
	}
	close(start)
	closersDone := make(chan struct{})
	go func() { wg.Wait(); close(closersDone) }()
	collect := func() {
		res.Closed = netmc.Closed(mc)
		res.Winners = int(winners.Load())
		res.Disc = int(h.disc.Load())
		if ph != nil {
			res.PDisc = int(ph.disc.Load())
		}
		dmu.Lock()
		res.DRes = append([]string{}, dres...)
		dmu.Unlock()
		h.mu.Lock()
		res.Handled = append([]int{}, h.handled...)
		h.mu.Unlock()
	}
	select {
	case <-closersDone:
		res.ClosersDone = true
	case <-time.After(3 * time.Second):
		// a close call hangs (teardown stuck): anything else we did with this connection would hang too
		res.Note = "closing goroutines did not return within 3s"
		collect()
		return res
	}
	select {
	case <-loopDone:
		res.LoopReturned = true
	case <-time.After(8 * time.Second):
		res.Note = "read loop did not return within 8s"
	}
	select {
	case <-fed:
	case <-time.After(4 * time.Second):
	}
	if sc.Cancel == 2 {
		cancelParent()
	}
	for i := 0; i < sc.NAfter; i++ {
		var err error
		switch i % 4 {
		case 0:
			err = mc.WritePacket(ka())
		case 1:
			err = mc.Write([]byte{0x7E, 1, 2, 3})
		case 2:
			err = mc.BufferPacket(ka())
		default:
			err = mc.BufferPayload([]byte{0x7E, 1, 2, 3})
		}
		res.After = append(res.After, wclass(err))
	}
	collect()
	b.Close()
	return res
}

func childMain() {
	in := bufio.NewReaderSize(os.Stdin, 1<<20)
	w := bufio.NewWriter(os.Stdout)
	for {
		line, err := in.ReadBytes('\n')
		if len(bytes.TrimSpace(line)) > 0 {
			var sc scenario
			if e := json.Unmarshal(line, &sc); e != nil {
				fmt.Fprintln(os.Stderr, "bad scenario:", e)
				os.Exit(3)
			}
			fmt.Fprintf(os.Stderr, "\n@@SCENARIO\n")
			r := runScenario(sc)
			b, _ := json.Marshal(r)
			w.Write(b)
			w.WriteByte('\n')
			w.Flush()
		}
		if err != nil {
			return
		}
	}
}

type childOut struct {
	res    *result
	stderr string
	hang   bool
}

type lockedBuf struct {
	mu sync.Mutex
	b  bytes.Buffer
}

func (l *lockedBuf) Write(p []byte) (int, error) { l.mu.Lock(); defer l.mu.Unlock(); return l.b.Write(p) }
func (l *lockedBuf) String() string              { l.mu.Lock(); defer l.mu.Unlock(); return l.b.String() }

func runChildren(scs []scenario) []childOut {
	outs := make([]childOut, len(scs))
	next := 0
	for next < len(scs) {
		cmd := exec.Command(os.Args[0], "child")
		cmd.Env = append(os.Environ(), "GORACE=halt_on_error=0")
		stdin, _ := cmd.StdinPipe()
		stdout, _ := cmd.StdoutPipe()
		var errBuf lockedBuf
		cmd.Stderr = &errBuf
		if err := cmd.Start(); err != nil {
			fmt.Fprintln(os.Stderr, "cannot start child:", err)
			os.Exit(2)
		}
		first := next
		go func() {
			for i := first; i < len(scs); i++ {
				b, _ := json.Marshal(scs[i])
				if _, err := stdin.Write(append(b, '\n')); err != nil {
					return
				}
			}
			stdin.Close()
		}()
		lines := make(chan []byte)
		go func() {
			rd := bufio.NewReaderSize(stdout, 1<<22)
			for {
				l, err := rd.ReadBytes('\n')
				if len(bytes.TrimSpace(l)) > 0 {
					lines <- l
				}
				if err != nil {
					close(lines)
					return
				}
			}
		}()
		got := 0
		hung := false
	loop:
		for first+got < len(scs) {
			select {
			case l, ok := <-lines:
				if !ok {
					break loop
				}
				var r result
				if json.Unmarshal(l, &r) == nil {
					outs[first+got].res = &r
				}
				got++
			case <-time.After(40 * time.Second):
				hung = true
				cmd.Process.Kill()
				break loop
			}
		}
		cmd.Process.Kill()
		cmd.Wait()
		parts := strings.Split(errBuf.String(), "\n@@SCENARIO\n")
		for i := 1; i < len(parts) && first+i-1 < len(scs); i++ {
			outs[first+i-1].stderr = parts[i]
		}
		next = first + got
		if next < len(scs) && outs[next].res == nil {
			outs[next].hang = hung
			next++
		}
	}
	return outs
}

func randomScenario(r *lib.Rng, i int) scenario {
	var sc scenario
	n := r.Pick(0, 1, 3, 6, 12)
	for j := 0; j < n; j++ {
		if r.Chance(1, 2) {
			sc.Script = append(sc.Script, r.Range(1, 5))
		} else {
			sc.Script = append(sc.Script, hReturn)
		}
	}
	nc := r.Pick(1, 2, 4, 8, 32)
	if i%5 == 0 {
		nc = 32
	}
	peerUsed := false
	for j := 0; j < nc; j++ {
		k := r.Pick(kClose, kClose, kCloseWith, kCloseUnknown, kPeerClose, kWriteFail)
		if k == kPeerClose || k == kWriteFail {
			if peerUsed && r.Chance(2, 3) {
				k = kClose
			}
			peerUsed = true
		}
		sc.Closers = append(sc.Closers, k)
	}
	sc.DrainFirst = r.Chance(3, 4)
	sc.NAfter = r.Pick(1, 4, 8)
	sc.Writers = r.Pick(0, 0, 1, 3)
	sc.Cancel = r.Pick(0, 0, 0, 1, 1, 2, 3, 3)
	switch r.Intn(4) {
	case 0:
		sc.Paired = true
	case 1, 2:
		for j, n := 0, r.Range(1, 4); j < n; j++ {
			sc.DiscOps = append(sc.DiscOps, r.Intn(6))
		}
	}
	return sc
}

func dopsCoq(sc scenario) []string {
	if sc.Paired {
		return []string{"DGuardedClose", "DWrite"}
	}
	out := make([]string, len(sc.DiscOps))
	for i, op := range sc.DiscOps {
		out[i] = dCoq[op]
	}
	return out
}

func raceCount(stderr string) int { return strings.Count(stderr, "WARNING: DATA RACE") }

func main() {
	if len(os.Args) > 1 && os.Args[1] == "child" {
		childMain()
		return
	}
	f := lib.ParseFlags()
	rng := lib.NewRng(f.Seed)
	out := lib.NewOut("C44", f)
	out.Imports = "From Verif Require Import Model.ConnClose.\n"
	out.Rule = "scenarios on a real connection over net.Pipe in a child process: 0..12 incoming packets whose handler returns or panics (error, string, runtime.Error index/nil map, custom value; half of the packets panic), 1..32 goroutines released together that close it (Close, CloseWith, CloseUnknown, peer closes its end = read EOF, write failure on the broken pipe; every fifth scenario has 32), 0..3 goroutines writing meanwhile, 1..8 writes (WritePacket, Write, BufferPacket, BufferPayload) started afterwards; the parent context given to NewMinecraftConn is never cancelled / cancelled before the first close / after everything / by a goroutine racing the closers; the handler's Disconnected() calls WritePacket/Write/BufferPacket/BufferPayload/CloseWith/a guarded CloseUnknown on its own connection, or a second (paired) connection is kicked by it and its own teardown closes-if-not-closed and writes back (player/backend cycle); fixed scenarios for each single closer kind and each panic kind, for each closer kind after a parent-context cancel, and for each closer kind with own-connection calls / a paired connection. Distinct = distinct Coq term; non-trivial = at least one panicking packet or at least two closers."

	var scs []scenario
	// fixed: every closer kind alone with every panic kind, and 32 of one kind
	for k := kClose; k <= kWriteFail; k++ {
		scs = append(scs, scenario{Script: []int{hReturn, 1 + k%5, hReturn}, Closers: []int{k}, DrainFirst: true, NAfter: 4})
	}
	for hk := hPanicError; hk <= hPanicCustom; hk++ {
		scs = append(scs, scenario{Script: []int{hk, hk, hReturn, hk}, Closers: []int{kClose, kCloseWith}, DrainFirst: true, NAfter: 2})
	}
	all32 := func(k int) []int {
		ks := make([]int, 32)
		for i := range ks {
			ks[i] = k
		}
		return ks
	}
	scs = append(scs, scenario{Script: []int{hPanicString}, Closers: all32(kClose), DrainFirst: true, NAfter: 4},
		scenario{Script: []int{hPanicError}, Closers: all32(kCloseWith), DrainFirst: true, NAfter: 4},
		scenario{Script: nil, Closers: append(all32(kCloseUnknown), kPeerClose), DrainFirst: true, NAfter: 4})
	// parent context cancelled BEFORE the first close: every way of closing, alone and from many goroutines
	for k := kClose; k <= kWriteFail; k++ {
		scs = append(scs, scenario{Script: []int{hReturn, hPanicString}, Closers: []int{k}, DrainFirst: true, NAfter: 4, Cancel: 1})
	}
	scs = append(scs,
		scenario{Script: []int{hPanicError}, Closers: []int{kClose, kCloseUnknown, kClose, kCloseUnknown, kClose, kCloseUnknown, kClose, kCloseUnknown}, DrainFirst: true, NAfter: 4, Cancel: 1},
		scenario{Script: nil, Closers: all32(kClose), DrainFirst: true, NAfter: 2, Cancel: 1},
		scenario{Script: nil, Closers: append(all32(kCloseWith), kClose), DrainFirst: true, NAfter: 2, Cancel: 1},
		scenario{Script: []int{hReturn}, Closers: all32(kClose), DrainFirst: true, NAfter: 2, Cancel: 3},
		scenario{Script: []int{hReturn}, Closers: []int{kPeerClose}, DrainFirst: true, NAfter: 2, Cancel: 3},
		scenario{Script: []int{hReturn}, Closers: []int{kClose, kCloseWith}, DrainFirst: true, NAfter: 4, Cancel: 2})
	// the teardown handler touches its own connection / the paired connection comes back, for every trigger
	for _, k := range []int{kClose, kCloseWith, kCloseUnknown, kPeerClose, kWriteFail} {
		scs = append(scs,
			scenario{Script: []int{hReturn}, Closers: []int{k}, DrainFirst: true, NAfter: 2, DiscOps: []int{dWritePacket, dWrite, dBufferPacket, dBufferPayload, dCloseWith, dGuardedClose}},
			scenario{Script: []int{hPanicString}, Closers: []int{k}, DrainFirst: true, NAfter: 2, Paired: true})
	}
	for op := dWritePacket; op <= dGuardedClose; op++ {
		scs = append(scs, scenario{Closers: []int{kClose, kClose, kCloseUnknown, kCloseWith}, DrainFirst: true, NAfter: 1, DiscOps: []int{op}})
	}
	scs = append(scs, scenario{Closers: all32(kClose), DrainFirst: true, NAfter: 2, Paired: true},
		scenario{Closers: append(all32(kCloseWith), kPeerClose), DrainFirst: true, NAfter: 2, DiscOps: []int{dCloseWith, dWritePacket}})
	n := f.Count(60)
	for i := 0; i < n; i++ {
		scs = append(scs, randomScenario(rng.Fork(), i))
	}

	results := runChildren(scs)
	races := 0
	for i, sc := range scs {
		co := results[i]
		alive := co.res != nil
		var r result
		if alive {
			r = *co.res
		}
		rc := raceCount(co.stderr)
		races += rc
		nPanic := 0
		for _, h := range sc.Script {
			if h != hReturn {
				nPanic++
			}
		}
		term := lib.App("Check.C44.mk",
			lib.ListOf(sc.Script, func(h int) string { return hCoq[h] }),
			lib.ListOf(sc.Closers, func(k int) string { return kCoq[k] }),
			lib.Bool(sc.DrainFirst), lib.Nat(sc.NAfter), cCoq[sc.Cancel],
			lib.List(dopsCoq(sc)), lib.Bool(sc.Paired),
			lib.Bool(alive),
			lib.ListOf(r.Handled, func(x int) string { return lib.Nat(x) }),
			lib.Nat(r.Disc), lib.Nat(r.Winners), lib.List(r.After), lib.Bool(r.Closed), lib.Bool(r.LoopReturned),
			lib.Bool(r.ClosersDone), lib.List(r.DRes), lib.Nat(r.PDisc))
		desc := map[string]any{"scenario": sc, "alive": alive, "result": r, "race_reports": rc}
		if !alive {
			desc["child_stderr"] = trunc(co.stderr, 6000)
			desc["hang"] = co.hang
		}
		kinds := map[string]bool{}
		for _, h := range sc.Script {
			kinds["handler="+hName[h]] = true
		}
		for _, op := range sc.DiscOps {
			out.Tag("disc_op=" + dName[op])
		}
		tags := []string{"cancel=" + cCoq[sc.Cancel], "paired=" + lib.Bool(sc.Paired), fmt.Sprintf("closers=%d", len(sc.Closers)), "drain_first=" + lib.Bool(sc.DrainFirst), "alive=" + lib.Bool(alive)}
		for k := range kinds {
			tags = append(tags, k)
		}
		for _, k := range sc.Closers {
			out.Tag("closer=" + kCoq[k])
		}
		out.Add(term, desc, nPanic > 0 || len(sc.Closers) >= 2, tags...)
		if rc > 0 {
			out.GoViolation(map[string]any{"known": nil, "index": i, "what": "data race reported while closing a connection concurrently", "scenario": sc, "report": trunc(co.stderr, 6000)})
		}
	}
	out.Extra("race_reports", races)
	out.Finish()
}

func trunc(s string, n int) string {
	if len(s) > n {
		return s[:n] + "..."
	}
	return s
}
