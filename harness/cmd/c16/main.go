// C16 harness: histories of connection requests of one player against scripted fake backends through
// a real proxy built from the public API (package e2eb).
//
// Sequential cases: log in (try list walk), then 4-7 operations (Connect, ConnectWithIndication, kick
// from / loss of the current backend, a request issued while another one is in flight on a stalling
// backend). After every operation the harness waits (bounded) for the proxy to become quiescent and
// records: result(s), CurrentServer, each RegisteredServer.Players(), open backend connections per
// server, Player.Active(). Check/C16.v replays the same history through Model/Switch.v.
//
// Concurrent cases: from a quiescent state 2-3 goroutines call Connect at the same moment; the
// invocation/response order is stamped with a logical clock, then the final state is observed.
// Check/C16.v searches a linearization (Base/Lin.v) against the atomic specification and, failing
// that, against the implementation's step structure (finding C16-1).
package main

import (
	"context"
	"fmt"
	"os"
	"sort"
	"strings"
	"sync"
	"sync/atomic"
	"time"

	"github.com/robinbraemer/event"
	"go.minekube.com/gate/pkg/edition/java/proxy"

	"verifharness/e2eb"
	"verifharness/lib"
)

var debug = os.Getenv("VERIF_C16_DEBUG") != ""

type obs struct {
	res   []string
	cur   int // -1 none
	lists []bool
	open  []int
	alive bool
}

func (o obs) coq() string {
	cur := "None"
	if o.cur >= 0 {
		cur = lib.Some(lib.Nat(o.cur))
	}
	return lib.App("Switch.mkObs", lib.List(o.res), cur,
		lib.ListOf(o.lists, lib.Bool), lib.ListOf(o.open, lib.Nat), lib.Bool(o.alive))
}

func (o obs) String() string {
	return fmt.Sprintf("res=%v cur=%d lists=%v open=%v alive=%v", o.res, o.cur, o.lists, o.open, o.alive)
}

type innerReq struct {
	ind bool
	t   int
}

type op struct {
	kind  string // connect, connect-ind, kick, drop, during, snapshot, stale
	t     int
	inner []innerReq // during: requests issued while Connect(stalling backend t) is in flight
	prev  int        // stale: the server the player was on when the request object was created (-1 none)
}

func (o op) String() string {
	if o.kind == "stale" {
		return fmt.Sprintf("Connect on the request object for s%d created while on server %d", o.t, o.prev)
	}
	if o.kind != "during" {
		return fmt.Sprintf("%s(s%d)", o.kind, o.t)
	}
	var in []string
	for _, q := range o.inner {
		if q.ind {
			in = append(in, fmt.Sprintf("ConnectWithIndication(s%d)", q.t))
		} else {
			in = append(in, fmt.Sprintf("Connect(s%d)", q.t))
		}
	}
	return fmt.Sprintf("during Connect(s%d): %s", o.t, strings.Join(in, ", "))
}

func (o op) coq() string {
	switch o.kind {
	case "connect":
		return lib.App("Switch.OConnect", lib.Nat(o.t))
	case "connect-ind":
		return lib.App("Switch.OConnectInd", lib.Nat(o.t))
	case "kick":
		return "Switch.OKick"
	case "drop":
		return "Switch.ODrop"
	case "stale":
		prev := "None"
		if o.prev >= 0 {
			prev = lib.Some(lib.Nat(o.prev))
		}
		return lib.App("Switch.OConnectSnap", prev, lib.Nat(o.t))
	case "during":
		return lib.App("Switch.ODuring", lib.Nat(o.t), lib.ListOf(o.inner, func(q innerReq) string {
			return lib.Pair(lib.Bool(q.ind), lib.Nat(q.t))
		}))
	}
	panic("op")
}

var behNames = map[e2eb.Behaviour]string{
	e2eb.Accept: "Switch.BAccept", e2eb.Refuse: "Switch.BRefuse", e2eb.KickLogin: "Switch.BKickLogin",
	e2eb.KickConfig: "Switch.BKickConfig", e2eb.KickPlay: "Switch.BKickPlay", e2eb.Stall: "Switch.BStall",
}

// world is one proxy + backends + one client.
type world struct {
	px       *e2eb.Proxy
	bes      []*e2eb.Backend
	rss      []proxy.RegisteredServer
	cl       *e2eb.Client
	pl       proxy.Player
	name     string
	scripts  [][]e2eb.Behaviour
	setupErr string

	// request objects kept for later ("stale" operations): one per target server, first created in a
	// PostLoginEvent subscriber (before the initial join), re-created by "snapshot" operations
	slotMu   sync.Mutex
	slots    []proxy.ConnectionRequest
	slotPrev []int // server the player was on when the slot's request was created (-1 none)
}

func (w *world) close() {
	if w.cl != nil {
		w.cl.Close()
	}
	if w.px != nil {
		w.px.Close()
	}
	for _, b := range w.bes {
		b.Close()
	}
}

func newWorld(v e2eb.Version, name string, scripts [][]e2eb.Behaviour, try []int, connTimeoutMs int) *world {
	return newWorldSync(v, name, scripts, try, connTimeoutMs, nil)
}

func newWorldSync(v e2eb.Version, name string, scripts [][]e2eb.Behaviour, try []int, connTimeoutMs int, sink *e2eb.SyncSink) *world {
	w := &world{name: name, scripts: scripts}
	var tryNames []string
	for _, t := range try {
		tryNames = append(tryNames, fmt.Sprintf("s%d", t))
	}
	px, err := e2eb.StartProxy(e2eb.ProxyOpts{ClientThreshold: 256, Try: tryNames, ConnectionTimeoutMs: connTimeoutMs, Sync: sink})
	if err != nil {
		w.setupErr = err.Error()
		return w
	}
	w.px = px
	for i := range scripts {
		sc := scripts[i]
		be, err := e2eb.NewBackend(fmt.Sprintf("s%d", i), func(n int) e2eb.Script {
			if n < len(sc) {
				return e2eb.Script{Do: sc[n], Threshold: 64}
			}
			return e2eb.Script{Do: e2eb.Accept, Threshold: 64}
		})
		if err != nil {
			w.setupErr = err.Error()
			return w
		}
		w.bes = append(w.bes, be)
		rs, err := px.Register(be)
		if err != nil {
			w.setupErr = err.Error()
			return w
		}
		w.rss = append(w.rss, rs)
	}
	w.slots = make([]proxy.ConnectionRequest, len(w.rss))
	w.slotPrev = make([]int, len(w.rss))
	event.Subscribe(px.Ev, 0, func(e *proxy.PostLoginEvent) {
		if e.Player().Username() != name {
			return
		}
		w.slotMu.Lock()
		defer w.slotMu.Unlock()
		for i, rs := range w.rss {
			w.slots[i] = e.Player().CreateConnectionRequest(rs)
			w.slotPrev[i] = w.srvIndex(e2eb.CurrentServerName(e.Player()))
		}
	})
	cl, err := e2eb.Dial(px.Addr(), v, name)
	if err != nil {
		w.setupErr = err.Error()
		return w
	}
	cl.ReplyKeepAlive = true
	w.cl = cl
	return w
}

func (w *world) srvIndex(name string) int {
	for i, b := range w.bes {
		if b.Name == name {
			return i
		}
	}
	return -1
}

func (w *world) snapshot() obs {
	o := obs{cur: -1}
	if w.pl != nil {
		o.cur = w.srvIndex(e2eb.CurrentServerName(w.pl))
		o.alive = w.pl.Active()
	}
	for i := range w.bes {
		o.lists = append(o.lists, e2eb.HasPlayer(w.rss[i], w.name))
		o.open = append(o.open, len(w.bes[i].Open()))
	}
	return o
}

// consistent is the property's own steady-state shape; the harness only uses it to decide how long to
// wait (connections are closed and lists updated asynchronously to the API results).
func consistent(o obs) bool {
	total := 0
	for i := range o.open {
		total += o.open[i]
		if o.lists[i] != (o.cur == i) {
			return false
		}
		if o.open[i] != b2i(o.cur == i) {
			return false
		}
	}
	return total == b2i(o.cur >= 0)
}

func b2i(b bool) int {
	if b {
		return 1
	}
	return 0
}

// settle waits up to d for a consistent snapshot that is stable for 30 ms; returns the last snapshot.
func (w *world) settle(d time.Duration) obs {
	deadline := time.Now().Add(d)
	for {
		o := w.snapshot()
		if consistent(o) {
			time.Sleep(30 * time.Millisecond)
			o2 := w.snapshot()
			if consistent(o2) && fmt.Sprint(o) == fmt.Sprint(o2) {
				return o2
			}
			continue
		}
		if time.Now().After(deadline) {
			return o
		}
		time.Sleep(3 * time.Millisecond)
	}
}

func statusName(r proxy.ConnectionResult, err error) string {
	if err != nil || r == nil {
		return "Switch.RErr"
	}
	switch r.Status() {
	case proxy.SuccessConnectionStatus:
		return "Switch.RSuccess"
	case proxy.AlreadyConnectedConnectionStatus:
		return "Switch.RAlready"
	case proxy.InProgressConnectionStatus:
		return "Switch.RInProgress"
	case proxy.CanceledConnectionStatus:
		return "Switch.RCanceled"
	case proxy.ServerDisconnectedConnectionStatus:
		return "Switch.RKicked"
	}
	return "Switch.RErr"
}

func boolRes(b bool) string {
	if b {
		return "Switch.RTrue"
	}
	return "Switch.RFalse"
}

// login performs the initial connection and waits for its outcome.
func (w *world) login() obs {
	err := w.cl.Login("localhost", 25565)
	if err == nil {
		deadline := time.Now().Add(90 * time.Second)
		for time.Now().Before(deadline) {
			if w.pl == nil {
				w.pl = w.px.P.PlayerByName(w.name)
			}
			if w.pl != nil && (!w.pl.Active() || e2eb.CurrentServerName(w.pl) != "") {
				break
			}
			if w.cl.IsClosed() {
				break
			}
			time.Sleep(3 * time.Millisecond)
		}
	}
	o := w.settle(8 * time.Second)
	if w.pl == nil {
		o.alive = false
	}
	o.res = []string{"Switch.RNone"}
	return o
}

func (w *world) connect(t int, d time.Duration) string {
	ctx, cancel := context.WithTimeout(context.Background(), d)
	defer cancel()
	r, err := w.pl.CreateConnectionRequest(w.rss[t]).Connect(ctx)
	return statusName(r, err)
}

func (w *world) connectInd(t int, d time.Duration) string {
	ctx, cancel := context.WithTimeout(context.Background(), d)
	defer cancel()
	return boolRes(w.pl.CreateConnectionRequest(w.rss[t]).ConnectWithIndication(ctx))
}

// currentConn returns the open joined backend connection of the current server.
func (w *world) currentConn() *e2eb.BackendConn {
	i := w.srvIndex(e2eb.CurrentServerName(w.pl))
	if i < 0 {
		return nil
	}
	for _, c := range w.bes[i].Open() {
		if c.Phase() == e2eb.PhaseJoined {
			return c
		}
	}
	return nil
}

func (w *world) doOp(o *op, stall int) obs {
	if w.pl == nil || !w.pl.Active() {
		if o.kind == "stale" {
			w.slotMu.Lock()
			o.prev = w.slotPrev[o.t]
			w.slotMu.Unlock()
		}
		ob := w.settle(500 * time.Millisecond)
		ob.res = []string{"Switch.RSkipped"}
		return ob
	}
	var res []string
	long := 90 * time.Second
	switch o.kind {
	case "connect":
		d := long
		if o.t == stall {
			d = 400 * time.Millisecond
		}
		res = []string{w.connect(o.t, d)}
	case "connect-ind":
		d := long
		if o.t == stall {
			d = 400 * time.Millisecond
		}
		res = []string{w.connectInd(o.t, d)}
	case "stale":
		w.slotMu.Lock()
		req, prev := w.slots[o.t], w.slotPrev[o.t]
		if req == nil { // no PostLoginEvent seen (should not happen): create it now
			req, prev = w.pl.CreateConnectionRequest(w.rss[o.t]), w.srvIndex(e2eb.CurrentServerName(w.pl))
			w.slots[o.t], w.slotPrev[o.t] = req, prev
		}
		w.slotMu.Unlock()
		o.prev = prev
		ctx, cancel := context.WithTimeout(context.Background(), long)
		r, err := req.Connect(ctx)
		cancel()
		res = []string{statusName(r, err)}
	case "kick", "drop":
		c := w.currentConn()
		if c == nil {
			res = []string{"Switch.RSkipped"}
			break
		}
		if o.kind == "kick" {
			_ = c.Kick("kicked by script")
		} else {
			c.Close()
		}
		// the proxy reacts on the backend connection's goroutine: wait for the end of the fallback walk
		deadline := time.Now().Add(90 * time.Second)
		for time.Now().Before(deadline) {
			if !w.pl.Active() {
				break
			}
			if cc := w.currentConn(); cc != nil && cc != c {
				break
			}
			time.Sleep(3 * time.Millisecond)
		}
		res = []string{"Switch.RNone"}
	case "during":
		before := len(w.bes[stall].Conns())
		outer := make(chan string, 1)
		// the outer request's context is cancelled by the harness once the inner requests are done
		// (no wall-clock race between the two under load); 90 s is only a watchdog
		octx, ocancel := context.WithTimeout(context.Background(), 90*time.Second)
		go func() {
			r, err := w.pl.CreateConnectionRequest(w.rss[stall]).Connect(octx)
			outer <- statusName(r, err)
		}()
		// once the stalling backend has accepted the connection the in-flight slot is taken
		if bc := w.bes[stall].WaitConn(before, 60*time.Second); bc == nil {
			ocancel()
			res = []string{"Switch.RSkipped", <-outer}
			break
		}
		for _, q := range o.inner {
			if q.ind {
				res = append(res, w.connectInd(q.t, long))
			} else {
				res = append(res, w.connect(q.t, long))
			}
		}
		ocancel()
		res = append(res, <-outer)
	}
	ob := w.settle(8 * time.Second)
	ob.res = res
	return ob
}

type seqCase struct {
	fam     string
	v       e2eb.Version
	n       int
	stall   int // -1 none
	try     []int
	scripts [][]e2eb.Behaviour
	ops     []op
	obs     []obs
	err     string
}

var famA, _ = e2eb.VersionByName("1.20.1")
var famA2, _ = e2eb.VersionByName("1.12.2")
var famA3, _ = e2eb.VersionByName("1.16.5")
var famB1, _ = e2eb.VersionByName("1.21.4")
var famB2, _ = e2eb.VersionByName("1.20.4")

func genSeq(r *lib.Rng, i int) *seqCase {
	c := &seqCase{fam: "Switch.FamA", v: famA, stall: -1}
	switch r.Intn(4) {
	case 0:
		c.v = famA2
	case 1:
		c.v = famA3
	}
	if i%2 == 1 {
		c.fam = "Switch.FamB"
		c.v = famB1
		if r.Chance(1, 4) {
			c.v = famB2
		}
	}
	c.n = 3
	if r.Chance(1, 2) {
		c.n = 4
		c.stall = 3
	}
	// try list: non-empty ordered subset of the normal servers; rarely the stalling one inside
	perm := r.Perm(3)
	k := r.Range(1, 3)
	c.try = append(c.try, perm[:k]...)
	stallInTry := c.stall >= 0 && r.Chance(1, 8) // then no "during" operations (their timing assumes short fallback walks)
	if stallInTry {
		pos := r.Intn(len(c.try) + 1)
		c.try = append(c.try[:pos], append([]int{c.stall}, c.try[pos:]...)...)
	}
	for s := 0; s < c.n; s++ {
		var sc []e2eb.Behaviour
		for a := 0; a < 8; a++ {
			if s == c.stall {
				sc = append(sc, e2eb.Stall)
				continue
			}
			switch x := r.Intn(100); {
			case x < 58:
				sc = append(sc, e2eb.Accept)
			case x < 68:
				sc = append(sc, e2eb.Refuse)
			case x < 78:
				sc = append(sc, e2eb.KickLogin)
			case x < 89:
				// For 1.20.2+ clients a kick in the configuration phase is handled by two goroutines that
				// race inside gate (the config handler disconnects first, so the request sees an error and may
				// clear the in-flight slot before the handler looks at it and then starts its own fallback
				// walk): the outcome is timing dependent, so those clients get the play-phase kick instead.
				if c.fam == "Switch.FamB" {
					sc = append(sc, e2eb.KickPlay)
				} else {
					sc = append(sc, e2eb.KickConfig)
				}
			default:
				sc = append(sc, e2eb.KickPlay)
			}
		}
		if s == c.stall {
			for a := 0; a < 24; a++ {
				sc = append(sc, e2eb.Stall)
			}
		}
		c.scripts = append(c.scripts, sc)
	}
	if r.Chance(3, 4) { // most histories start with a successful login
		for _, t := range c.try {
			if t != c.stall {
				c.scripts[t][0] = e2eb.Accept
				break
			}
		}
	}
	nops := r.Range(4, 7)
	for j := 0; j < nops; j++ {
		x := r.Intn(100)
		if r.Chance(1, 5) { // a request object kept from earlier (PostLogin or an earlier "snapshot")
			if r.Chance(1, 4) {
				c.ops = append(c.ops, op{kind: "snapshot", t: r.Intn(3)})
			}
			c.ops = append(c.ops, op{kind: "stale", t: r.Intn(3)})
			continue
		}
		switch {
		case x < 36:
			c.ops = append(c.ops, op{kind: "connect", t: r.Intn(3)})
		case x < 64:
			c.ops = append(c.ops, op{kind: "connect-ind", t: r.Intn(3)})
		case x < 74:
			c.ops = append(c.ops, op{kind: "kick"})
		case x < 82:
			c.ops = append(c.ops, op{kind: "drop"})
		case x < 93 && c.stall >= 0 && !stallInTry:
			o := op{kind: "during", t: c.stall}
			for k := r.Range(1, 2); k > 0; k-- {
				o.inner = append(o.inner, innerReq{ind: r.Chance(1, 3), t: r.Intn(3)})
			}
			c.ops = append(c.ops, o)
		case c.stall >= 0:
			if r.Bool() {
				c.ops = append(c.ops, op{kind: "connect", t: c.stall})
			} else {
				c.ops = append(c.ops, op{kind: "connect-ind", t: c.stall})
			}
		default:
			c.ops = append(c.ops, op{kind: "connect", t: r.Intn(3)})
		}
	}
	return c
}

func runSeq(c *seqCase, idx int) {
	w := newWorld(c.v, fmt.Sprintf("Q%d", idx), c.scripts, c.try, 4000)
	defer w.close()
	if w.setupErr != "" {
		c.err = w.setupErr
		return
	}
	c.obs = append(c.obs, w.login())
	var dbg strings.Builder
	if debug {
		sc := c.scripts
		if c.stall >= 0 {
			sc = sc[:3]
		}
		fmt.Fprintf(&dbg, "case %d %s try=%v stall=%d scripts=%v\n  login: %v\n", idx, c.v.Name, c.try, c.stall, sc, c.obs[0])
	}
	for i := range c.ops {
		o := &c.ops[i]
		if o.kind == "snapshot" { // re-create the kept request object now; not an operation of the history
			if w.pl != nil && w.pl.Active() {
				w.slotMu.Lock()
				w.slots[o.t] = w.pl.CreateConnectionRequest(w.rss[o.t])
				w.slotPrev[o.t] = w.srvIndex(e2eb.CurrentServerName(w.pl))
				w.slotMu.Unlock()
			}
			continue
		}
		ob := w.doOp(o, c.stall)
		c.obs = append(c.obs, ob)
		if debug {
			fmt.Fprintf(&dbg, "  %s: %v\n", o, ob)
		}
	}
	if debug {
		fmt.Fprint(os.Stderr, dbg.String())
	}
}

// ---------- concurrent cases ----------

type call struct {
	t        int
	res      string
	inv, ret int64
}

type conCase struct {
	forced  int // > 0: number of requests of a forced burst (all held at newServerConnection until all arrived)
	arrived int
	atts    [][2]int64
	fam     string
	v       e2eb.Version
	targets []int
	calls   []call
	final   obs
	overlap bool // two backend connections of this burst were in progress at the same time
	err     string
}

func genCon(r *lib.Rng, i int) *conCase {
	c := &conCase{fam: "Switch.FamA", v: famA}
	if i%2 == 1 {
		c.fam = "Switch.FamB"
		c.v = famB1
	}
	k := 2
	if r.Chance(1, 4) {
		k = 3
	}
	if i%5 == 4 { // forced burst: 4-16 requests to other servers, released together at newServerConnection
		k = []int{4, 6, 8, 12, 16}[r.Intn(5)]
		c.forced = k
		c.fam, c.v = "Switch.FamA", []e2eb.Version{famA, famA2, famA3}[r.Intn(3)]
		for j := 0; j < k; j++ {
			c.targets = append(c.targets, 1+r.Intn(2))
		}
		return c
	}
	for j := 0; j < k; j++ {
		c.targets = append(c.targets, r.Intn(3)) // 0 is the current server: AlreadyConnected
	}
	return c
}

func runCon(c *conCase, idx int) {
	scripts := [][]e2eb.Behaviour{nil, nil, nil}
	var sink *e2eb.SyncSink
	if c.forced > 0 {
		sink = e2eb.NewSyncSink()
	}
	w := newWorldSync(c.v, fmt.Sprintf("R%d", idx), scripts, []int{0}, 0, sink)
	defer w.close()
	if w.setupErr != "" {
		c.err = w.setupErr
		return
	}
	lo := w.login()
	if lo.cur != 0 || !lo.alive {
		c.err = "login failed: " + lo.String()
		return
	}
	var clock atomic.Int64
	start := make(chan struct{})
	var wg sync.WaitGroup
	c.calls = make([]call, len(c.targets))
	for j, t := range c.targets {
		wg.Add(1)
		go func(j, t int) {
			defer wg.Done()
			<-start
			inv := clock.Add(1)
			res := w.connect(t, 90*time.Second)
			c.calls[j] = call{t: t, res: res, inv: inv, ret: clock.Add(1)}
		}(j, t)
	}
	if sink != nil {
		sink.Arm(c.forced, 1500*time.Millisecond)
	}
	close(start)
	wg.Wait()
	if sink != nil {
		c.arrived = sink.Disarm()
	}
	c.final = w.settle(8 * time.Second)
	c.final.res = []string{"Switch.RNone"}
	// evidence for the description: did two backend connections overlap?
	type iv struct{ a, b int64 }
	var ivs []iv
	for s := 0; s < 3; s++ {
		for k, bc := range w.bes[s].Conns() {
			if s == 0 && k == 0 {
				continue
			}
			b := bc.JoinedAt.Load()
			if b == 0 {
				b = bc.EndedAt.Load()
			}
			if b == 0 {
				b = time.Now().UnixNano()
			}
			ivs = append(ivs, iv{bc.AcceptedAt.Load(), b})
			c.atts = append(c.atts, [2]int64{bc.AcceptedAt.Load(), b})
		}
	}
	for x := 0; x < len(ivs); x++ {
		for y := x + 1; y < len(ivs); y++ {
			if ivs[x].a < ivs[y].b && ivs[y].a < ivs[x].b {
				c.overlap = true
			}
		}
	}
	if debug {
		fmt.Fprintf(os.Stderr, "con %d %s targets=%v calls=%v final=%v overlap=%v\n", idx, c.v.Name, c.targets, c.calls, c.final, c.overlap)
	}
}

func main() {
	f := lib.ParseFlags()
	rng := lib.NewRng(f.Seed)
	out := lib.NewOut("C16", f)
	out.Imports = "From Verif Require Import Model.Switch.\n"
	out.Rule = "sequential histories: client family alternates pre-1.20.2 (1.20.1, 1.12.2, 1.16.5) / 1.20.2+ (1.21.4, sometimes 1.20.4); 3 scripted backends (per accepted connection: accept 58%, refuse 10%, kick in login 10%, kick in configuration 11% (pre-1.20.2 clients only; 1.20.2+ get a play kick instead), kick in play before JoinGame 11%) and in half of the histories a 4th backend that never answers the login; try list = ordered subset of the 3 (rarely with the stalling one); log in, then 4-7 operations drawn from Connect / ConnectWithIndication to a random backend, kick from or loss of the current backend, Connect on a request object created earlier (in a PostLoginEvent subscriber before the first join, or at an earlier point of the history) so that its previousServer snapshot is stale (1 in 5 operations), 1-2 requests issued one after the other while a request to the stalling backend is in flight, requests to the stalling backend (400 ms context; the outer request of a during-operation is cancelled by the harness after the inner ones); observation after each operation = (results, CurrentServer, Players() of every server, open backend connections per server, Active). concurrent histories: player on s0, 2-3 goroutines call Connect at once to random backends (s0 = current), logical-clock stamps + final observation; every 5th burst is forced: 4-16 requests of a pre-1.20.2 client to other servers, each held (by a discarding logr sink, no change of gate code or decisions) at newServerConnection - after its checks, before it takes the in-flight slot - until all arrived or 1.5 s passed, then released together; the backends' accept/JoinGame stamps of every dialled connection travel with the case. non-trivial = a sequential history with at least one successful switch and one failed attempt, or a concurrent history in which at least two calls were admitted or one was refused as in-progress; distinct = distinct case term"
	nSeq := f.Count(44)
	nCon := f.Count(20)
	seqs := make([]*seqCase, nSeq)
	for i := range seqs {
		seqs[i] = genSeq(rng.Fork(), i)
	}
	cons := make([]*conCase, nCon)
	for i := range cons {
		cons[i] = genCon(rng.Fork(), i)
	}
	e2eb.RunParallel(nSeq+nCon, 16, func(i int) int {
		if f.Only >= 0 && f.Only != i {
			return 0 // replay / reconfirmation of one case: generated as always, not run
		}
		if i < nSeq {
			runSeq(seqs[i], i)
		} else {
			runCon(cons[i-nSeq], i-nSeq)
		}
		return 0
	})
	for i, c := range seqs {
		emitSeq(out, i, c)
	}
	for i, c := range cons {
		emitCon(out, i, c)
	}
	out.Finish()
}

func emitSeq(out *lib.Out, i int, c *seqCase) {
	if !out.Wanted() {
		out.Add("skipped", nil, false)
		return
	}
	if c.err != "" {
		out.GoViolation(map[string]any{"known": nil, "index": -1, "what": "C16 sequential history could not be set up", "history": i, "error": c.err})
		c.ops, c.obs = nil, nil
	}
	stall := "None"
	if c.stall >= 0 {
		stall = lib.Some(lib.Nat(c.stall))
	}
	scripts := lib.ListOf(c.scripts, func(sc []e2eb.Behaviour) string {
		return lib.ListOf(sc, func(b e2eb.Behaviour) string { return behNames[b] })
	})
	var real []op // "snapshot" steps are harness bookkeeping, not operations of the history
	for _, o := range c.ops {
		if o.kind != "snapshot" {
			real = append(real, o)
		}
	}
	if c.err == "" {
		c.ops = real
	}
	ops := lib.ListOf(c.ops, func(o op) string { return o.coq() })
	observed := lib.ListOf(c.obs, func(o obs) string { return o.coq() })
	term := lib.App("Check.C16.Seq", c.fam, lib.Nat(c.n), stall, lib.ListOf(c.try, lib.Nat), scripts, ops, observed)
	var opDesc, obsDesc []string
	succ, fail := false, false
	for j, o := range c.ops {
		opDesc = append(opDesc, o.String())
		if j+1 < len(c.obs) {
			for _, r := range c.obs[j+1].res {
				if r == "Switch.RSuccess" || r == "Switch.RTrue" {
					succ = true
				}
				if r == "Switch.RErr" || r == "Switch.RKicked" || r == "Switch.RFalse" {
					fail = true
				}
			}
		}
		out.Tag("op:" + o.kind)
	}
	for _, o := range c.obs {
		obsDesc = append(obsDesc, o.String())
		for _, r := range o.res {
			out.Tag("result:" + strings.TrimPrefix(r, "Switch."))
		}
	}
	var scDesc []string
	for s, sc := range c.scripts {
		var b []string
		for _, x := range sc {
			b = append(b, x.String())
		}
		if s == c.stall {
			b = []string{"always stall"}
		}
		scDesc = append(scDesc, fmt.Sprintf("s%d: %s", s, strings.Join(b, ",")))
	}
	desc := map[string]any{"kind": "sequential", "history": i, "client": c.v.Name, "try": c.try, "scripts": scDesc, "ops": opDesc, "observed": obsDesc}
	out.Add(term, desc, succ && fail, "kind=sequential", "client="+c.v.Name)
}

func emitCon(out *lib.Out, i int, c *conCase) {
	if !out.Wanted() {
		out.Add("skipped", nil, false)
		return
	}
	if c.err != "" {
		out.GoViolation(map[string]any{"known": nil, "index": -1, "what": "C16 concurrent history could not be set up", "history": i, "error": c.err})
		c.calls = nil
		c.final = obs{cur: 0, lists: []bool{true, false, false}, open: []int{1, 0, 0}, alive: true, res: []string{"Switch.RNone"}}
	}
	calls := lib.ListOf(c.calls, func(k call) string {
		return lib.App("Check.C16.mkReq", lib.Nat(k.t), k.res, lib.Z(k.inv), lib.Z(k.ret))
	})
	// rank-transform the backend clocks' stamps
	var stamps []int64
	for _, a := range c.atts {
		stamps = append(stamps, a[0], a[1])
	}
	sort.Slice(stamps, func(x, y int) bool { return stamps[x] < stamps[y] })
	rank := func(v int64) int64 {
		return int64(sort.Search(len(stamps), func(k int) bool { return stamps[k] >= v }))
	}
	atts := lib.ListOf(c.atts, func(a [2]int64) string { return lib.Pair(lib.Z(rank(a[0])), lib.Z(rank(a[1]))) })
	term := lib.App("Check.C16.Con", c.fam, calls, atts, c.final.coq())
	admitted, refused := 0, 0
	var cd []string
	for _, k := range c.calls {
		cd = append(cd, fmt.Sprintf("Connect(s%d)=%s [%d,%d]", k.t, strings.TrimPrefix(k.res, "Switch."), k.inv, k.ret))
		switch k.res {
		case "Switch.RInProgress":
			refused++
		case "Switch.RAlready":
		default:
			admitted++
		}
		out.Tag("concurrent-result:" + strings.TrimPrefix(k.res, "Switch."))
	}
	kind := "concurrent"
	if c.forced > 0 {
		kind = "concurrent-forced"
	}
	desc := map[string]any{"kind": kind, "requests": len(c.targets), "held_at_newServerConnection": c.arrived, "backend_connections_dialled": len(c.atts), "history": i, "client": c.v.Name, "calls": cd, "final": c.final.String(), "backend_connections_overlapped": c.overlap}
	out.Add(term, desc, admitted >= 2 || refused >= 1, "kind="+kind, "client="+c.v.Name, fmt.Sprintf("admitted=%d", admitted))
}
