// C15 harness: a real proxy (public API), a fake client and a fake backend (package e2eb, own wire
// codec). A player is brought to play, then both sides send a stream of pass-through packets at the
// same time; what arrives on the far side is recorded. One case per direction per run; the Coq side
// (Check/C15.v) runs the model's dispatch on the sent stream and compares.
//
// How "pass-through" is determined: gate's state registry is asked which packet ids decode to a known
// type for (Play, direction, version). Ids it does not know are pass-through (HandlePacket forwards
// !KnownPacket() packets untouched). Of the known types only clientbound KeepAlive and HeaderAndFooter are
// used (their case in the dispatch switch, or the default branch, calls forward(pc) with the untouched
// payload - determined by reading session_backend_play.go / session_client_play.go); a serverbound
// KeepAlive whose id nobody waits for is swallowed (kind drop) and is sent now and then to check that
// the relative order of the others is unaffected. Every other known id is marked intercepted and never
// sent.
package main

import (
	"bytes"
	"crypto/sha256"
	"encoding/binary"
	"fmt"
	"sort"
	"strings"
	"time"

	"go.minekube.com/common/minecraft/component"
	"go.minekube.com/gate/pkg/edition/java/proto/packet"
	"go.minekube.com/gate/pkg/edition/java/proto/packet/chat"
	"go.minekube.com/gate/pkg/edition/java/proto/state"
	"go.minekube.com/gate/pkg/gate/proto"

	"verifharness/e2eb"
	"verifharness/lib"
)

const (
	kIntercept = "Relay.KIntercept"
	kForward   = "Relay.KForward"
	kDrop      = "Relay.KDrop"
)

type dirResult struct {
	sent, recv [][]byte
	kinds      []string // per sent packet: unknown / forward-known / drop
	complete   bool     // end sentinel arrived
	note       string
}

type runResult struct {
	skipped  bool
	ver      e2eb.Version
	tc, ts   int
	setupErr string
	up, down dirResult
	upTable  []string
	dnTable  []string
	chunked  bool
	online   bool // online-mode proxy: the client connection is encrypted (AES/CFB8)
}

var thresholds = []int{-1, 0, 64, 256}

func table(dir proto.Direction, p proto.Protocol) (coq []string, unknown []int, fwd map[string]int, dropID int) {
	ids, types := e2eb.KnownIDs(state.Play, dir, p)
	fwd = map[string]int{}
	dropID = -1
	known := map[int]bool{}
	for _, id := range ids {
		known[id] = true
		k := kIntercept
		t := types[id]
		if dir == proto.ClientBound && (t == "packet.KeepAlive" || t == "packet.HeaderAndFooter") {
			k = kForward
			fwd[t] = id
		}
		if dir == proto.ServerBound && t == "packet.KeepAlive" {
			k = kDrop
			dropID = id
		}
		coq = append(coq, lib.Pair(lib.N(uint64(id)), k))
	}
	for id := 0; id < 0x100; id++ {
		if !known[id] {
			unknown = append(unknown, id)
		}
	}
	// a few ids that need 2 and 3 VarInt bytes
	unknown = append(unknown, 0x1234, 0x3fff, 0x4000, 0x12345)
	return
}

func genSize(r *lib.Rng, ta, tb int) int {
	switch x := r.Intn(100); {
	case x < 35:
		return r.Range(0, 40)
	case x < 50:
		return r.Range(41, 300)
	case x < 80: // around a threshold of either side (payload length = id bytes + body)
		t := []int{ta, tb, 64, 256}[r.Intn(4)]
		if t < 1 {
			t = []int{64, 256}[r.Intn(2)]
		}
		n := t + r.Range(-3, 2)
		if n < 0 {
			n = 0
		}
		return n
	case x < 94:
		return r.Range(300, 4096)
	default:
		return r.Range(8192, 40*1024)
	}
}

func genBody(r *lib.Rng, n int) []byte {
	if r.Chance(1, 3) { // compressible
		b := make([]byte, n)
		pat := r.Bytes(r.Range(1, 7))
		for i := range b {
			b[i] = pat[i%len(pat)]
		}
		return b
	}
	return r.Bytes(n)
}

func genStream(r *lib.Rng, v e2eb.Version, dir proto.Direction, ta, tb int, unknown []int, fwd map[string]int, dropID int, big bool) (ps [][]byte, kinds []string) {
	n := r.Range(50, 200)
	for i := 0; i < n; i++ {
		x := r.Intn(100)
		switch {
		case big && x >= 85: // frames that never fit one read of the proxy's 4 KiB bufio reader
			id := unknown[r.Intn(len(unknown))]
			ps = append(ps, e2eb.MakePayload(id, genBody(r, r.Range(8192, 40*1024))))
			kinds = append(kinds, "unknown")
		case dir == proto.ClientBound && x < 6 && has(fwd, "packet.KeepAlive"):
			id := int64(r.Intn(1<<30)) * 2 // even ids: never equal to a serverbound one
			ps = append(ps, e2eb.MustBuild(state.Play, dir, v.Protocol, &packet.KeepAlive{RandomID: id}))
			kinds = append(kinds, "forward-known")
		case dir == proto.ClientBound && x < 12 && has(fwd, "packet.HeaderAndFooter"):
			txt := r.StringOver("abcdefghij KLMNOP", r.Range(0, 300))
			hf := &packet.HeaderAndFooter{
				Header: *chat.FromComponentProtocol(&component.Text{Content: txt}, v.Protocol),
				Footer: *chat.FromComponentProtocol(&component.Text{Content: "f"}, v.Protocol),
			}
			p, err := e2eb.Build(state.Play, dir, v.Protocol, hf)
			if err != nil {
				ps = append(ps, e2eb.MakePayload(unknown[0], []byte(txt)))
				kinds = append(kinds, "unknown")
			} else {
				ps = append(ps, p)
				kinds = append(kinds, "forward-known")
			}
		case dir == proto.ServerBound && x < 6 && dropID >= 0:
			id := int64(r.Intn(1<<30))*2 + 1
			ps = append(ps, e2eb.MustBuild(state.Play, dir, v.Protocol, &packet.KeepAlive{RandomID: id}))
			kinds = append(kinds, "drop")
		default:
			id := unknown[r.Intn(len(unknown))]
			ps = append(ps, e2eb.MakePayload(id, genBody(r, genSize(r, ta, tb))))
			kinds = append(kinds, "unknown")
		}
	}
	return
}

func has(m map[string]int, k string) bool { _, ok := m[k]; return ok }

// sentinel packets use the largest one-byte id the registry does not know for that direction
func sentinel(run int, dir string, end bool, unknown []int) []byte {
	id := unknown[0]
	for _, u := range unknown {
		if u < 0x100 {
			id = u
		}
	}
	s := fmt.Sprintf("verif-c15-sentinel run=%d dir=%s end=%v", run, dir, end)
	return e2eb.MakePayload(id, []byte(s))
}

func indexOf(ps [][]byte, p []byte, from int) int {
	for i := from; i < len(ps); i++ {
		if bytes.Equal(ps[i], p) {
			return i
		}
	}
	return -1
}

func oneRun(run int, seed uint64) (res runResult) {
	r := lib.NewRng(seed)
	res.ver = e2eb.Versions[run%len(e2eb.Versions)]
	res.tc = thresholds[r.Intn(4)]
	res.ts = thresholds[r.Intn(4)]
	res.chunked = r.Chance(2, 3)
	res.online = run%4 == 3
	if res.online {
		res.chunked = true
	}
	v := res.ver
	upT, upUnknown, _, dropID := table(proto.ServerBound, v.Protocol)
	dnT, dnUnknown, dnFwd, _ := table(proto.ClientBound, v.Protocol)
	res.upTable, res.dnTable = upT, dnT
	// thresholds as seen by each direction: sending side first
	res.up.sent, res.up.kinds = genStream(r.Fork(), v, proto.ServerBound, res.tc, res.ts, upUnknown, nil, dropID, res.online)
	res.down.sent, res.down.kinds = genStream(r.Fork(), v, proto.ClientBound, res.ts, res.tc, dnUnknown, dnFwd, -1, res.online)
	chunkUp, chunkDown := r.Fork(), r.Fork()

	be, err := e2eb.NewBackend("alpha", func(int) e2eb.Script { return e2eb.Script{Do: e2eb.Accept, Threshold: res.ts} })
	if err != nil {
		res.setupErr = "backend: " + err.Error()
		return
	}
	defer be.Close()
	px, err := e2eb.StartProxy(e2eb.ProxyOpts{ClientThreshold: res.tc, Try: []string{"alpha"}, ConnectionTimeoutMs: 60000, Online: res.online})
	if err != nil {
		res.setupErr = "proxy: " + err.Error()
		return
	}
	defer px.Close()
	if _, err = px.Register(be); err != nil {
		res.setupErr = "register: " + err.Error()
		return
	}
	name := fmt.Sprintf("P%d", run)
	cl, err := e2eb.Dial(px.Addr(), v, name)
	if err != nil {
		res.setupErr = "dial: " + err.Error()
		return
	}
	defer cl.Close()
	if err = cl.Login("localhost", 25565); err != nil {
		res.setupErr = "login: " + err.Error()
		return
	}
	if !cl.WaitJoins(1, 60*time.Second) {
		res.setupErr = fmt.Sprintf("no JoinGame (closed=%v)", cl.IsClosed())
		return
	}
	if cl.Encrypted() != res.online {
		res.setupErr = fmt.Sprintf("encryption exchange: got %v, want %v", cl.Encrypted(), res.online)
		return
	}
	if cl.Threshold() != res.tc && !(res.tc < 0 && cl.Threshold() < 0) {
		res.setupErr = fmt.Sprintf("proxy announced threshold %d, configured %d", cl.Threshold(), res.tc)
		return
	}
	pl := px.Player(name, 5*time.Second)
	if pl == nil {
		res.setupErr = "player not registered"
		return
	}
	for i := 0; i < 4000 && e2eb.CurrentServerName(pl) == ""; i++ {
		time.Sleep(5 * time.Millisecond)
	}
	if e2eb.CurrentServerName(pl) != "alpha" {
		res.setupErr = "player never got a current server"
		return
	}
	bc := be.WaitConn(0, time.Second)
	if bc == nil {
		res.setupErr = "no backend connection"
		return
	}
	// start sentinels: everything the proxy wrote on its own while joining comes before them
	sUp, sDown := sentinel(run, "up", false, upUnknown), sentinel(run, "down", false, dnUnknown)
	eUp, eDown := sentinel(run, "up", true, upUnknown), sentinel(run, "down", true, dnUnknown)
	if err = cl.Send(sUp); err != nil {
		res.setupErr = "send: " + err.Error()
		return
	}
	if err = bc.Send(sDown); err != nil {
		res.setupErr = "send: " + err.Error()
		return
	}
	waitFor := func(get func() [][]byte, p []byte, d time.Duration) int {
		deadline := time.Now().Add(d)
		from := 0
		for {
			ps := get()
			if i := indexOf(ps, p, from); i >= 0 {
				return i
			}
			if len(ps) > 0 {
				from = len(ps) - 1
			}
			if time.Now().After(deadline) {
				return -1
			}
			time.Sleep(2 * time.Millisecond)
		}
	}
	baseUp := waitFor(bc.Received, sUp, 15*time.Second)
	baseDown := waitFor(cl.Received, sDown, 15*time.Second)
	if baseUp < 0 || baseDown < 0 {
		res.setupErr = fmt.Sprintf("start sentinel lost (up %d, down %d)", baseUp, baseDown)
		return
	}
	if res.chunked {
		cl.W.Chunk = func() int { return chunkSize(chunkUp) }
		bc.W.Chunk = func() int { return chunkSize(chunkDown) }
	}
	// both directions at the same time; each stream in a few batches so that frames share TCP writes
	done := make(chan string, 2)
	sendAll := func(send func([][]byte) error, ps [][]byte, end []byte, r *lib.Rng) {
		i := 0
		for i < len(ps) {
			k := r.Range(1, 12)
			if i+k > len(ps) {
				k = len(ps) - i
			}
			if err := send(ps[i : i+k]); err != nil {
				done <- err.Error()
				return
			}
			i += k
		}
		if err := send([][]byte{end}); err != nil {
			done <- err.Error()
			return
		}
		done <- ""
	}
	go sendAll(cl.SendAll, res.up.sent, eUp, r.Fork())
	go sendAll(bc.SendAll, res.down.sent, eDown, r.Fork())
	for i := 0; i < 2; i++ {
		if e := <-done; e != "" {
			res.up.note += "send error: " + e + "; "
		}
	}
	endUp := waitFor(bc.Received, eUp, 20*time.Second)
	endDown := waitFor(cl.Received, eDown, 20*time.Second)
	collect := func(all [][]byte, base, end int) ([][]byte, bool) {
		if end < 0 {
			time.Sleep(300 * time.Millisecond)
			return all[base+1:], false
		}
		return all[base+1 : end], true
	}
	res.up.recv, res.up.complete = collect(bc.Received(), baseUp, endUp)
	if endUp < 0 {
		res.up.recv, _ = collect(bc.Received(), baseUp, -1)
	}
	res.down.recv, res.down.complete = collect(cl.Received(), baseDown, endDown)
	if endDown < 0 {
		res.down.recv, _ = collect(cl.Received(), baseDown, -1)
	}
	return
}

func chunkSize(r *lib.Rng) int {
	switch r.Intn(10) {
	case 0, 1, 2:
		return r.Range(1, 5)
	case 3, 4, 5:
		return r.Range(6, 200)
	case 6, 7:
		return r.Range(200, 3000)
	default:
		return 0 // rest of the batch
	}
}

func repr(p []byte) []byte {
	var out []byte
	if len(p) <= 40 {
		out = append(out, p...)
	} else {
		out = append(out, p[:8]...)
		h := sha256.Sum256(p)
		out = append(out, h[:]...)
	}
	return binary.BigEndian.AppendUint32(out, uint32(len(p)))
}

func blob(ps [][]byte) (lens string, b string) {
	var all []byte
	ls := make([]string, len(ps))
	for i, p := range ps {
		ls[i] = lib.N(uint64(len(p)))
		all = append(all, repr(p)...)
	}
	return lib.List(ls), lib.Bytes(all)
}

func firstDiff(a, b [][]byte) int {
	for i := 0; i < len(a) && i < len(b); i++ {
		if !bytes.Equal(a[i], b[i]) {
			return i
		}
	}
	if len(a) != len(b) {
		if len(a) < len(b) {
			return len(a)
		}
		return len(b)
	}
	return -1
}

// ---------- long-run scenario ----------
// One player on one backend (client threshold 256, backend threshold 64, so every packet below is
// compressed on the way in and most on the way out), >= 45,000 pass-through packets clientbound, then
// >= 2,000 serverbound, in the same process as all other runs (gate's buffer pools are process-wide
// and re-calibrate after tens of thousands of uses). Compared in Go on (index, length, SHA-256).

type longDirResult struct {
	up               bool
	nSent, nRecv     int
	dSent, dRecv     []byte
	firstDiff        int
	expLen, actLen   int
	expHead, actHead []byte
	ids              []int
	complete         bool
	bytes            int
	secs             float64
}

type longResult struct {
	skipped  bool
	ver      e2eb.Version
	tc, ts   int
	setupErr string
	dirs     []longDirResult
	upTable  []string
	dnTable  []string
}

func chain(prev []byte, idx int, p []byte) []byte {
	h := sha256.New()
	h.Write(prev)
	var b [8]byte
	binary.BigEndian.PutUint32(b[:4], uint32(idx))
	binary.BigEndian.PutUint32(b[4:], uint32(len(p)))
	h.Write(b[:])
	d := sha256.Sum256(p)
	h.Write(d[:])
	return h.Sum(nil)
}

func longRun(seed uint64, nDown, nUp int) (res longResult) {
	r := lib.NewRng(seed)
	res.ver = e2eb.Versions[r.Intn(len(e2eb.Versions))]
	res.tc, res.ts = 256, 64
	v := res.ver
	upT, upUnknown, _, _ := table(proto.ServerBound, v.Protocol)
	dnT, dnUnknown, _, _ := table(proto.ClientBound, v.Protocol)
	res.upTable, res.dnTable = upT, dnT
	be, err := e2eb.NewBackend("alpha", func(int) e2eb.Script { return e2eb.Script{Do: e2eb.Accept, Threshold: res.ts} })
	if err != nil {
		res.setupErr = "backend: " + err.Error()
		return
	}
	defer be.Close()
	px, err := e2eb.StartProxy(e2eb.ProxyOpts{ClientThreshold: res.tc, Try: []string{"alpha"}, ConnectionTimeoutMs: 60000})
	if err != nil {
		res.setupErr = "proxy: " + err.Error()
		return
	}
	defer px.Close()
	if _, err = px.Register(be); err != nil {
		res.setupErr = "register: " + err.Error()
		return
	}
	cl, err := e2eb.Dial(px.Addr(), v, "Longrun")
	if err != nil {
		res.setupErr = "dial: " + err.Error()
		return
	}
	defer cl.Close()
	if err = cl.Login("localhost", 25565); err != nil {
		res.setupErr = "login: " + err.Error()
		return
	}
	if !cl.WaitJoins(1, 30*time.Second) {
		res.setupErr = "no JoinGame"
		return
	}
	pl := px.Player("Longrun", 5*time.Second)
	for i := 0; pl != nil && i < 6000 && e2eb.CurrentServerName(pl) == ""; i++ {
		time.Sleep(5 * time.Millisecond)
	}
	if pl == nil || e2eb.CurrentServerName(pl) != "alpha" {
		res.setupErr = "player never got a current server"
		return
	}
	bc := be.WaitConn(0, time.Second)
	if bc == nil {
		res.setupErr = "no backend connection"
		return
	}
	one := func(up bool, n int, unknown []int, send func([][]byte) error, get func() [][]byte, recvThr int) longDirResult {
		t0 := time.Now()
		d := longDirResult{up: up, firstDiff: -1}
		dir := "down"
		if up {
			dir = "up"
		}
		// a handful of one-byte unknown ids
		var ids []int
		for _, u := range unknown {
			if u < 0x80 && len(ids) < 5 {
				ids = append(ids, u)
			}
		}
		d.ids = ids
		start, end := sentinel(-1, dir, false, unknown), sentinel(-1, dir, true, unknown)
		if err := send([][]byte{start}); err != nil {
			return d
		}
		type rec struct {
			n    int
			sum  [32]byte
			head []byte
		}
		sent := make([]rec, 0, n)
		var batch [][]byte
		dig := make([]byte, 32)
		for i := 0; i < n; i++ {
			var ln int
			switch x := r.Intn(100); {
			case x < 88: // just above the receiving side's threshold: compressed on the way out
				ln = recvThr + 1 + r.Intn(180)
			case x < 97:
				ln = 1 + r.Intn(recvThr+1)
			default:
				ln = 2000 + r.Intn(18000)
			}
			p := e2eb.MakePayload(ids[r.Intn(len(ids))], r.Bytes(ln-1))
			sent = append(sent, rec{len(p), sha256.Sum256(p), append([]byte(nil), head(p)...)})
			dig = chain(dig, i, p)
			d.bytes += len(p)
			batch = append(batch, p)
			if len(batch) == 64 || i == n-1 {
				if err := send(batch); err != nil {
					break
				}
				batch = batch[:0]
			}
		}
		d.nSent, d.dSent = len(sent), dig
		_ = send([][]byte{end})
		// wait for the end sentinel (or for the stream to stall)
		deadline := time.Now().Add(240 * time.Second)
		var all [][]byte
		si, ei, from := -1, -1, 0
		lastLen, lastChange := 0, time.Now()
		for {
			all = get()
			if si < 0 {
				si = indexOf(all, start, 0)
			}
			if si >= 0 {
				if from <= si {
					from = si + 1
				}
				if ei = indexOf(all, end, from); ei >= 0 {
					break
				}
				if len(all) > 0 {
					from = len(all)
				}
			}
			if len(all) != lastLen {
				lastLen, lastChange = len(all), time.Now()
			}
			if time.Now().After(deadline) || time.Since(lastChange) > 45*time.Second {
				break
			}
			time.Sleep(5 * time.Millisecond)
		}
		d.complete = ei >= 0
		var recv [][]byte
		switch {
		case si < 0:
		case ei >= 0:
			recv = all[si+1 : ei]
		default:
			recv = all[si+1:]
		}
		d.nRecv = len(recv)
		rd := make([]byte, 32)
		for i, p := range recv {
			rd = chain(rd, i, p)
			if d.firstDiff < 0 && (i >= len(sent) || sent[i].n != len(p) || sent[i].sum != sha256.Sum256(p)) {
				d.firstDiff = i
				d.actLen, d.actHead = len(p), append([]byte(nil), head(p)...)
				if i < len(sent) {
					d.expLen, d.expHead = sent[i].n, sent[i].head
				}
			}
		}
		d.dRecv = rd
		if d.firstDiff < 0 && len(recv) < len(sent) {
			d.firstDiff = len(recv)
			d.expLen, d.expHead = sent[len(recv)].n, sent[len(recv)].head
		}
		d.secs = time.Since(t0).Seconds()
		return d
	}
	res.dirs = append(res.dirs, one(false, nDown, dnUnknown, bc.SendAll, cl.Received, res.tc))
	res.dirs = append(res.dirs, one(true, nUp, upUnknown, cl.SendAll, bc.Received, res.ts))
	return
}

func emitLong(out *lib.Out, res longResult) {
	if res.setupErr != "" {
		out.GoViolation(map[string]any{"known": nil, "index": -1, "what": "C15 long run could not bring a player to play on the backend", "version": res.ver.Name, "error": res.setupErr})
		res.dirs = []longDirResult{{up: false, firstDiff: -1, dSent: make([]byte, 32), dRecv: make([]byte, 32)}, {up: true, firstDiff: -1, dSent: make([]byte, 32), dRecv: make([]byte, 32)}}
	}
	for _, d := range res.dirs {
		ta, tb, tbl, dir := res.ts, res.tc, res.dnTable, "clientbound"
		if d.up {
			ta, tb, tbl, dir = res.tc, res.ts, res.upTable, "serverbound"
		}
		fd := "None"
		if d.firstDiff >= 0 {
			fd = lib.Some(lib.N(uint64(d.firstDiff)))
		}
		ids := make([]string, len(d.ids))
		for i, id := range d.ids {
			ids[i] = lib.N(uint64(id))
		}
		term := lib.App("Check.C15.long", lib.N(uint64(res.ver.Protocol)), lib.Bool(d.up), lib.Z(int64(ta)), lib.Z(int64(tb)),
			lib.List(tbl), lib.List(ids), lib.N(uint64(d.nSent)), lib.N(uint64(d.nRecv)), lib.Bytes(d.dSent), lib.Bytes(d.dRecv),
			fd, lib.N(uint64(d.expLen)), lib.N(uint64(d.actLen)), lib.Bytes(d.expHead), lib.Bytes(d.actHead))
		desc := map[string]any{
			"kind": "long-run", "version": res.ver.Name, "direction": dir, "threshold_sender_side": ta, "threshold_receiver_side": tb,
			"sent": d.nSent, "received": d.nRecv, "bytes": d.bytes, "end_sentinel_arrived": d.complete, "seconds": fmt.Sprintf("%.1f", d.secs),
			"first_differing_packet_index": d.firstDiff,
		}
		if d.firstDiff >= 0 {
			desc["expected_len"] = d.expLen
			desc["expected_head"] = fmt.Sprintf("%x", d.expHead)
			desc["received_len"] = d.actLen
			desc["received_head"] = fmt.Sprintf("%x", d.actHead)
		}
		out.Add(term, desc, d.nSent >= 1000, "kind=long-run", "version="+res.ver.Name, "dir="+dir, fmt.Sprintf("ta=%d,tb=%d", ta, tb))
		for j := 0; j < d.nSent; j += 1000 {
			out.Tag("long-run-packets(x1000):" + dir)
		}
	}
}

func main() {
	f := lib.ParseFlags()
	rng := lib.NewRng(f.Seed)
	out := lib.NewOut("C15", f)
	out.Imports = "From Verif Require Import Model.Relay.\n"
	out.Rule = "runs cycle through 8 client versions (1.8, 1.12.2, 1.16.5, 1.19.4, 1.20.1, 1.20.4, 1.21.1, 1.21.4); client-side and backend-side compression thresholds drawn independently from {-1,0,64,256}; per direction 50-200 packets: ids unknown to gate's Play registry for the version (1-3 byte VarInt ids), bodies random or repetitive with sizes 0-40, 41-300, threshold-3..threshold+2 of either side, 300-4096, 8-40 KiB; clientbound also KeepAlive and HeaderAndFooter built by gate's encoders (forwarded as-is), serverbound also unmatched KeepAlive replies (swallowed); every 4th run against an online-mode proxy (real RSA + AES/CFB8 login with a scripted session server, so the client connection is encrypted) with 15% of the packets 8-40 KiB and always chunked writes; both directions sent concurrently, in batches, 2/3 of the runs with the TCP writes cut at random byte positions; one case per direction; plus one long run in the same process (client threshold 256, backend threshold 64): 46,000 clientbound then 2,500 serverbound unknown-id packets, 88% just above the receiving side threshold, 9% below, 3% 2-20 KB, compared in Go on (index, length, SHA-256), two summary cases; non-trivial = at least one packet is compressed on exactly one of the two sides; distinct = distinct case term"
	runs := f.Count(16)
	seeds := make([]uint64, runs)
	for i := range seeds {
		seeds[i] = rng.U64()
	}
	longSeed := rng.U64()
	nDown, nUp := 46000, 2500
	if f.Tier != "quick" {
		nDown, nUp = 120000, 10000
	}
	longCh := make(chan longResult, 1)
	// case indices: run i -> 2i (serverbound), 2i+1 (clientbound); long run -> 2*runs, 2*runs+1.
	// With --only (replay / reconfirmation) only the run that produces the wanted case is executed.
	wantRun := func(i int) bool { return f.Only < 0 || f.Only/2 == i }
	go func() {
		if wantRun(runs) {
			lr := longRun(longSeed, nDown, nUp)
			for try := 0; try < 2 && lr.setupErr != ""; try++ {
				lr = longRun(longSeed, nDown, nUp)
			}
			longCh <- lr
		} else {
			longCh <- longResult{skipped: true}
		}
	}()
	results := e2eb.RunParallel(runs, 16, func(i int) runResult {
		if !wantRun(i) {
			return runResult{skipped: true}
		}
		// bringing the player to play can fail for reasons of machine load alone (gate gives a 1.20.2+
		// client 3 s to acknowledge the configuration): the set-up is retried before it is reported
		res := oneRun(i, seeds[i])
		for try := 0; try < 2 && res.setupErr != ""; try++ {
			res = oneRun(i, seeds[i])
		}
		return res
	})
	for i, res := range results {
		if res.skipped {
			out.Add("skipped", nil, false)
			out.Add("skipped", nil, false)
			continue
		}
		if res.setupErr != "" {
			// the player could not be brought to play: nothing to judge, report as a failed observation
			out.GoViolation(map[string]any{"known": nil, "index": -1, "what": "C15 run could not bring a player to play on the backend", "run": i, "version": res.ver.Name, "client_threshold": res.tc, "backend_threshold": res.ts, "error": res.setupErr})
			// keep the case numbering stable: two placeholder cases that the judge accepts trivially
			for d := 0; d < 2; d++ {
				emit(out, i, res, d == 0, dirResult{}, nil)
			}
			continue
		}
		emit(out, i, res, true, res.up, res.upTable)
		emit(out, i, res, false, res.down, res.dnTable)
	}
	if lr := <-longCh; lr.skipped {
		out.Add("skipped", nil, false)
		out.Add("skipped", nil, false)
	} else {
		emitLong(out, lr)
	}
	out.Finish()
}

func emit(out *lib.Out, run int, res runResult, up bool, d dirResult, tbl []string) {
	ta, tb := res.tc, res.ts
	dir := "serverbound"
	if !up {
		ta, tb = res.ts, res.tc
		dir = "clientbound"
	}
	sl, sb := blob(d.sent)
	rl, rb := blob(d.recv)
	term := lib.App("Check.C15.mk", lib.N(uint64(res.ver.Protocol)), lib.Bool(up), lib.Z(int64(ta)), lib.Z(int64(tb)),
		lib.List(tbl), sl, sb, rl, rb)
	// non-trivial: some packet is compressed on exactly one side
	nt := false
	comp := func(t, n int) bool { return t >= 0 && n >= t }
	kc := map[string]int{}
	var total int
	for i, p := range d.sent {
		if comp(ta, len(p)) != comp(tb, len(p)) {
			nt = true
		}
		kc[d.kinds[i]]++
		total += len(p)
	}
	// expected (Go-side, for the replay description only): sent without the swallowed ones
	var exp [][]byte
	for i, p := range d.sent {
		if d.kinds[i] != "drop" {
			exp = append(exp, p)
		}
	}
	kk := make([]string, 0, len(kc))
	for k, n := range kc {
		kk = append(kk, fmt.Sprintf("%s=%d", k, n))
	}
	sort.Strings(kk)
	desc := map[string]any{
		"run": run, "version": res.ver.Name, "direction": dir, "threshold_sender_side": ta, "threshold_receiver_side": tb,
		"chunked_writes": res.chunked, "client_connection_encrypted": res.online, "sent": len(d.sent), "received": len(d.recv), "bytes": total, "kinds": strings.Join(kk, " "),
		"end_sentinel_arrived": d.complete, "first_difference_at": firstDiff(exp, d.recv), "note": d.note,
	}
	if fd := firstDiff(exp, d.recv); fd >= 0 {
		if fd < len(exp) {
			desc["expected_len_at_diff"] = len(exp[fd])
			desc["expected_head_at_diff"] = fmt.Sprintf("%x", head(exp[fd]))
		}
		if fd < len(d.recv) {
			desc["received_len_at_diff"] = len(d.recv[fd])
			desc["received_head_at_diff"] = fmt.Sprintf("%x", head(d.recv[fd]))
		}
	}
	out.Add(term, desc, nt, "version="+res.ver.Name, "dir="+dir, fmt.Sprintf("ta=%d,tb=%d", ta, tb), fmt.Sprintf("chunked=%v", res.chunked), fmt.Sprintf("encrypted-client=%v", res.online))
	for k, n := range kc {
		for j := 0; j < n; j++ {
			out.Tag("packets:" + k)
		}
	}
}

func head(p []byte) []byte {
	if len(p) > 16 {
		return p[:16]
	}
	return p
}
