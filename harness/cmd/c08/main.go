// C08 harness: login-phase packet sequences against a real proxy (public API only). The proxy's
// authenticator is a real auth.New (real RSA key, Verify, DecryptSharedSecret, GenerateServerID,
// AuthenticateJoin status mapping) whose HTTP transport is a scripted session server. The fake client
// encrypts with the advertised public key, flips bits for the invalid variants and decrypts whatever
// follows with ITS secret, so "encryption was enabled with that secret" is observed on the wire.
package main

import (
	"bytes"
	"crypto/md5"
	"crypto/rand"
	"crypto/rsa"
	"crypto/x509"
	"encoding/hex"
	"fmt"
	"strings"
	"time"

	"go.minekube.com/gate/pkg/edition/java/proto/packet"
	"go.minekube.com/gate/pkg/edition/java/proto/state/states"
	"go.minekube.com/gate/pkg/edition/java/proxy"
	"go.minekube.com/gate/pkg/edition/java/proxy/crypto/keyrevision"
	"go.minekube.com/gate/pkg/gate/proto"
	"go.minekube.com/gate/pkg/util/netutil"
	guuid "go.minekube.com/gate/pkg/util/uuid"

	"verifharness/e2e"
	"verifharness/lib"
)

type opKind int

const (
	kLogin opKind = iota
	kEnc
	kPlugin
	kAck
	kUnknown
)

type op struct {
	Kind      opKind
	NameValid bool
	Key       string // none | expired | invalid   (only meaningful for protocol 759/760)
	Keyed     string // keyed encryption response shape: sig-ok | sig-bad | nosalt-exact | nosalt-junk | nosalt-empty
	EncVar    string // good | bad-token-value | bad-token-ct | bad-secret-ct | bad-secret-len
	UnkVar    int
	PluginID  int // kPlugin: message id answered (1..n outstanding ones, anything else unsolicited)
}

type plan struct {
	Protocol  int
	Online    bool
	PreLogin  string
	PreMsgs   int
	Threshold int
	ForceKey  bool
	Outcome   e2e.Outcome
	Ops       []op
	Name      string
	BadName   string
	Secret    []byte
	Secret32  []byte // Secret followed by 16 more bytes
	Shape     string
}

type stepObs struct {
	Frames     []string
	EncOn      bool
	Joins      int
	Registered bool
}

type result struct {
	OpTerms  []string
	OpDescs  []string
	Obs      []stepObs
	PubKey   []byte
	Secret   []byte
	JoinArgs [][2]string
	Err      string
	Notes    []string
}

var protocols = []int{e2e.P1_8, e2e.P1_19_1, e2e.P1_20_1, e2e.P1_20_2, e2e.P26_2}

func offlineUUID(name string) [16]byte {
	u := md5.Sum([]byte("OfflinePlayer:" + name))
	u[6] = u[6]&0x0f | 0x30
	u[8] = u[8]&0x3f | 0x80
	return u
}

func run(pl plan) (res result) {
	key, err := rsa.GenerateKey(rand.Reader, 1024)
	if err != nil {
		res.Err = "rsa: " + err.Error()
		return
	}
	authn, err := e2e.NewAuth(key, pl.Outcome)
	if err != nil {
		res.Err = "auth: " + err.Error()
		return
	}
	ev := e2e.NewEvents(pl.PreLogin)
	ev.PluginMessages = pl.PreMsgs
	cfg := e2e.Config()
	cfg.OnlineMode = pl.Online
	cfg.Compression.Threshold = pl.Threshold
	cfg.ForceKeyAuthentication = pl.ForceKey
	p, err := e2e.NewProxy(cfg, ev.Mgr, authn)
	if err != nil {
		res.Err = "proxy.New: " + err.Error()
		return
	}
	ev.Bind(p)
	res.PubKey = authn.PublicKey()
	profileID, _ := hex.DecodeString(authn.ProfileID)
	offID := offlineUUID(pl.Name)

	c := e2e.Dial(p, pl.Protocol)
	defer c.Close()
	_ = c.SendHandshake("play.example.org", 25565, 2)
	if r := c.Settle(); r.Closed || r.Hung || len(r.Packets) != 0 {
		res.Err = fmt.Sprintf("after handshake: closed=%v hung=%v packets=%d", r.Closed, r.Hung, len(r.Packets))
		return
	}

	var encReq *e2e.EncryptionRequest
	encOn := false
	successSeen := false
	closed := false
	nJoins, nEvents := 0, 0
	everRegistered := false
	var lastSecret []byte
	res.Secret = pl.Secret
	keyWindow := pl.Protocol >= e2e.P1_19 && pl.Protocol < e2e.P1_19_3
	dummyKey, _ := rsa.GenerateKey(rand.Reader, 1024)
	dummyDER, _ := x509.MarshalPKIXPublicKey(&dummyKey.PublicKey)

	for _, o := range pl.Ops {
		var term, desc string
		ackAfterSuccess := false
		switch o.Kind {
		case kLogin:
			name := pl.Name
			if !o.NameValid {
				name = pl.BadName
			}
			ks := "KNone"
			body := e2e.LoginStart(pl.Protocol, []byte(name), [16]byte{9, 9, 9})
			if keyWindow && o.Key != "none" {
				exp := time.Now().Add(24 * time.Hour).UnixMilli()
				ks = "KInvalid"
				if o.Key == "expired" {
					exp = time.Now().Add(-24 * time.Hour).UnixMilli()
					ks = "KExpired"
				}
				body = e2e.LoginStartWithKey(pl.Protocol, []byte(name), [16]byte{9, 9, 9}, exp, dummyDER, bytes.Repeat([]byte{0x5a}, 256))
			}
			term = lib.App("LoginStart", lib.Bool(o.NameValid), ks)
			desc = fmt.Sprintf("login-start name=%q key=%s", name, ks)
			_ = c.Send(e2e.IDLoginStart, body)
		case kEnc:
			token := []byte{1, 2, 3, 4}
			pub := &key.PublicKey // a client that never saw a request can still know the server key
			if encReq != nil {
				token = encReq.VerifyToken
				if k, err := x509.ParsePKIXPublicKey(encReq.PublicKey); err == nil {
					if rk, ok := k.(*rsa.PublicKey); ok {
						pub = rk
					}
				}
			}
			secret := pl.Secret
			tok := append([]byte{}, token...)
			switch o.EncVar {
			case "bad-token-value":
				tok[0] ^= 0x01
			case "bad-secret-len":
				secret = pl.Secret[:8]
			case "token-empty":
				tok = nil
			case "token-prefix1", "token-prefix2", "token-prefix3":
				if n := int(o.EncVar[len(o.EncVar)-1] - '0'); n < len(tok) {
					tok = tok[:n]
				}
			case "token-plus1":
				tok = append(tok, 0x00)
			case "token-plus4":
				tok = append(tok, 0xde, 0xad, 0xbe, 0xef)
			case "secret-len0":
				secret = nil
			case "secret-len15":
				secret = pl.Secret[:15]
			case "secret-len17":
				secret = pl.Secret32[:17]
			case "secret-len32":
				secret = pl.Secret32
			}
			tokCT, _ := rsa.EncryptPKCS1v15(rand.Reader, pub, tok)
			secCT, _ := rsa.EncryptPKCS1v15(rand.Reader, pub, secret)
			switch o.EncVar {
			case "bad-token-ct":
				tokCT[len(tokCT)/2] ^= 0x10
			case "bad-secret-ct":
				secCT[len(secCT)/2] ^= 0x10
			}
			// ground truth with the proxy's private key (RSA is an input of the model, not modelled)
			dt, e1 := rsa.DecryptPKCS1v15(nil, key, tokCT)
			tokenOK := encReq != nil && e1 == nil && bytes.Equal(dt, encReq.VerifyToken)
			ds, e2 := rsa.DecryptPKCS1v15(nil, key, secCT)
			secretOK := e2 == nil
			keylenOK := secretOK && (len(ds) == 16 || len(ds) == 24 || len(ds) == 32)
			term = lib.App("EncResp", lib.Bool(tokenOK), lib.Bool(secretOK), lib.Bool(keylenOK))
			desc = fmt.Sprintf("encryption-response %s (token_ok=%v secret_ok=%v keylen_ok=%v, request seen=%v)", o.EncVar, tokenOK, secretOK, keylenOK, encReq != nil)
			_ = c.Send(e2e.IDEncryptionResponse, e2e.EncryptionResponse(pl.Protocol, secCT, tokCT))
			// like a real client: switch the stream ciphers on right after answering a request
			if encReq != nil && !encOn && (len(secret) == 16 || len(secret) == 24 || len(secret) == 32) {
				if err := c.EnableEncryption(secret); err == nil {
					encOn = true
				}
			}
			lastSecret = secret
		case kPlugin:
			term, desc = lib.App("PluginResp", lib.Nat(o.PluginID)), fmt.Sprintf("login-plugin-response id=%d", o.PluginID)
			_ = c.Send(e2e.IDLoginPluginResponse, e2e.LoginPluginResponse(o.PluginID, o.UnkVar%2 == 0, []byte{1, 2, 3}))
		case kAck:
			term, desc = "LoginAck", "login-acknowledged"
			_ = c.Send(e2e.IDLoginAcknowledged, nil)
			if c.State == "login-success" {
				c.State = "config"
				ackAfterSuccess = true
			}
		default:
			term = "Unknown"
			switch o.UnkVar % 4 {
			case 0:
				desc = "unknown packet id 0x7f"
				_ = c.Send(0x7f, []byte{1, 2, 3})
			case 1:
				desc = "unknown packet id 0x30"
				_ = c.Send(0x30, nil)
			case 2:
				desc = "login start with an empty name (decode error)"
				_ = c.Send(e2e.IDLoginStart, e2e.LoginStart(pl.Protocol, nil, [16]byte{}))
			default:
				desc = "truncated encryption response (decode error)"
				_ = c.Send(e2e.IDEncryptionResponse, []byte{0x05, 1})
			}
		}
		res.OpTerms = append(res.OpTerms, term)
		res.OpDescs = append(res.OpDescs, desc)

		var so stepObs
		if !closed {
			stateBefore := c.State
			r := c.Settle()
			if r.Hung {
				res.Err = "proxy neither idle nor closed after " + desc
				return
			}
			if !r.Closed && ackAfterSuccess {
				// the proxy finishes the login asynchronously (event.FireParallel): give it time
				r2 := c.AwaitClose(3 * time.Second)
				r.Packets = append(r.Packets, r2.Packets...)
				r.Closed, r.Garbled = r2.Closed, r.Garbled+r2.Garbled
			}
			so.EncOn = encOn
			st := stateBefore
			for _, pk := range r.Packets {
				var f string
				switch st {
				case "login", "login-success":
					switch pk.ID {
					case e2e.IDLoginDisconnect:
						f = "ODisconnect"
					case e2e.IDEncryptionRequest:
						f = "OOther"
						if er, err := e2e.ParseEncryptionRequest(pl.Protocol, pk.Body); err == nil && len(er.VerifyToken) > 0 && bytes.Equal(er.PublicKey, res.PubKey) {
							f = "OEncRequest"
							encReq = &er
						}
					case e2e.IDSetCompression:
						f = "OOther"
						if t, err := e2e.ParseSetCompression(pk.Body); err == nil && t == pl.Threshold {
							f = "OSetCompression"
						}
					case e2e.IDLoginPluginMessage:
						f = "OOther"
						if id, n := e2e.GetVarInt(pk.Body); n > 0 && id >= 0 && id < 5000 {
							f = lib.App("OPluginMsg", lib.Nat(id))
						}
					case e2e.IDLoginSuccess:
						f = "OOther"
						if s, err := e2e.ParseLoginSuccess(pl.Protocol, pk.Body); err == nil && s.Username == pl.Name {
							switch {
							case bytes.Equal(s.UUID[:], profileID):
								f = "(OSuccess USession)"
							case s.UUID == offID:
								f = "(OSuccess UOffline)"
							}
						}
						successSeen = true
						if pl.Protocol >= e2e.P1_20_2 {
							st = "login-success"
						} else {
							st = "play"
						}
					default:
						f = "OOther"
					}
				default:
					f = "OPost"
				}
				if f == "OPost" && len(so.Frames) > 0 && so.Frames[len(so.Frames)-1] == "OPost" {
					continue
				}
				so.Frames = append(so.Frames, f)
			}
			if r.Garbled != "" {
				so.Frames = append(so.Frames, "OOther")
				res.Notes = append(res.Notes, "garbled: "+r.Garbled)
			}
			if r.Closed {
				closed = true
				so.Frames = append(so.Frames, "OClose")
			}
			calls := authn.Calls()
			so.Joins = len(calls) - nJoins
			if so.Joins > 0 && o.Kind == kEnc {
				res.Secret = lastSecret // the secret of the response that led to the hasJoined call
			}
			nJoins = len(calls)
			evs := ev.List()
			// registration evidence that cannot race with the close: PostLoginEvent fired while
			// Proxy.Player(id) != nil (before 1.20.2 it fires before the kick), or a positive player
			// count while the connection is still open (1.20.2+: the player waits for the acknowledgement)
			evidence := false
			for _, e := range evs[nEvents:] {
				if e.Kind == "postlogin" && e.Registered {
					evidence = true
				}
			}
			nEvents = len(evs)
			if !r.Closed && p.PlayerCount() > 0 {
				evidence = true
			}
			so.Registered = evidence && !everRegistered
			everRegistered = everRegistered || evidence
		}
		res.Obs = append(res.Obs, so)
	}
	_ = successSeen
	for _, jc := range authn.Calls() {
		res.JoinArgs = append(res.JoinArgs, [2]string{jc.URLServerID, jc.URLUser})
		if jc.URLServerID != jc.ServerID || jc.URLUser != jc.Username {
			res.Notes = append(res.Notes, "AuthenticateJoin arguments differ from what reached the session server")
		}
	}
	return
}

// genWaiting: histories for a proxy whose PreLogin subscriber sends n login plugin messages: the login
// start is answered with the messages and continues only when the client has answered all of them.
func genWaiting(r *lib.Rng, n int) []op {
	login := op{Kind: kLogin, NameValid: true, Key: "none"}
	ans := func(id int) op { return op{Kind: kPlugin, PluginID: id, UnkVar: r.Intn(4)} }
	good := op{Kind: kEnc, EncVar: "good"}
	ack := op{Kind: kAck}
	var answers []op
	for _, i := range r.Perm(n) {
		answers = append(answers, ans(i+1))
	}
	switch r.Intn(9) {
	case 0: // well behaved
		return append(append([]op{login}, answers...), good, ack)
	case 1: // duplicate login start BEFORE answering
		return append(append([]op{login, login}, answers...), good, ack)
	case 2: // duplicate login start between the answers / after the first answer
		ops := append([]op{login}, answers...)
		i := 1 + r.Intn(len(ops))
		ops = append(ops[:i], append([]op{login}, ops[i:]...)...)
		return append(ops, good, ack)
	case 3: // encryption response or acknowledgement before answering
		return append([]op{login, []op{good, ack}[r.Intn(2)]}, answers...)
	case 4: // duplicated and unknown answers, then the real ones
		return append(append([]op{login, ans(77), ans(answers[0].PluginID)}, ans(answers[0].PluginID)), append(answers[1:], good, ack)...)
	case 5: // only unknown ids: the login must keep waiting
		return []op{login, ans(9), ans(0), ans(n + 1)}
	case 6: // not all answered, then a second login start
		return []op{login, answers[0], login, good}
	case 7: // answers, then a late duplicate answer and a bad response
		return append(append([]op{login}, answers...), ans(1), op{Kind: kEnc, EncVar: "token-prefix2"})
	default:
		ops := []op{login}
		for i := r.Range(1, 5); i > 0; i-- {
			switch r.Intn(6) {
			case 0:
				ops = append(ops, login)
			case 1:
				ops = append(ops, good)
			case 2:
				ops = append(ops, op{Kind: kUnknown, UnkVar: r.Intn(4)})
			default:
				ops = append(ops, ans(r.Pick(1, 2, 1, 2, 3, 77)))
			}
		}
		return ops
	}
}

// runKeyed drives a 1.19 - 1.19.2 login that presents a VALID profile key. Such a key cannot be put on
// the wire (it needs Mojang's signature), so the decoded packets are delivered to the real
// initialLoginSessionHandler (hook VerifNewInitialLoginHandler) on a recording connection; the key is
// an e2e.ProfileKey whose data signatures are verified with real RSA.
func runKeyed(pl plan) (res result) {
	key, err := rsa.GenerateKey(rand.Reader, 1024)
	if err != nil {
		res.Err = "rsa: " + err.Error()
		return
	}
	authn, err := e2e.NewAuth(key, pl.Outcome)
	if err != nil {
		res.Err = "auth: " + err.Error()
		return
	}
	ev := e2e.NewEvents(pl.PreLogin)
	cfg := e2e.Config()
	cfg.OnlineMode = pl.Online
	cfg.Compression.Threshold = pl.Threshold
	cfg.ForceKeyAuthentication = pl.ForceKey
	p, err := e2e.NewProxy(cfg, ev.Mgr, authn)
	if err != nil {
		res.Err = "proxy.New: " + err.Error()
		return
	}
	ev.Bind(p)
	res.PubKey = authn.PublicKey()
	res.Secret = pl.Secret
	profileID, _ := hex.DecodeString(authn.ProfileID)
	var holder [16]byte
	copy(holder[:], profileID)
	rev := keyrevision.LinkedV2
	if pl.Protocol == e2e.P1_19 {
		rev = keyrevision.GenericV1
	}
	pkey, err := e2e.NewProfileKey(holder, rev)
	if err != nil {
		res.Err = "profile key: " + err.Error()
		return
	}
	conn := e2e.NewHandlerConn(pl.Protocol)
	conn.Install(proxy.VerifNewInitialLoginHandler(p, conn, netutil.NewAddr("play.example.org:25565", "tcp")))
	defer conn.Close()

	offID := offlineUUID(pl.Name)
	var issued []byte
	nWritten, nJoins, nEvents := 0, 0, 0
	everRegistered, closed := false, false
	enc := func(b []byte) []byte { ct, _ := rsa.EncryptPKCS1v15(rand.Reader, &key.PublicKey, b); return ct }
	for _, o := range pl.Ops {
		var term, desc string
		var pk proto.Packet
		switch o.Kind {
		case kLogin:
			name := pl.Name
			if !o.NameValid {
				name = pl.BadName
			}
			term = lib.App("LoginStart", lib.Bool(o.NameValid), "KValid")
			desc = fmt.Sprintf("login-start name=%q with a valid profile key", name)
			pk = &packet.ServerLogin{Username: name, PlayerKey: pkey, HolderID: guuid.UUID(holder)}
		case kEnc:
			secretCT := enc(pl.Secret)
			resp := &packet.EncryptionResponse{SharedSecret: secretCT}
			salt := int64(0x0123456789abcdef)
			saltBytes := []byte{0x01, 0x23, 0x45, 0x67, 0x89, 0xab, 0xcd, 0xef}
			tok := issued
			if tok == nil {
				tok = []byte{1, 2, 3, 4}
			}
			switch o.Keyed {
			case "sig-ok":
				resp.Salt, resp.VerifyToken = &salt, pkey.Sign(tok, saltBytes)
			case "sig-bad":
				sig := pkey.Sign(tok, saltBytes)
				sig[len(sig)/2] ^= 0x04
				resp.Salt, resp.VerifyToken = &salt, sig
			case "sig-other-salt":
				resp.Salt, resp.VerifyToken = &salt, pkey.Sign(tok, []byte{9, 9, 9, 9, 9, 9, 9, 9})
			case "nosalt-exact":
				resp.VerifyToken = enc(tok)
			case "nosalt-junk":
				resp.VerifyToken = []byte("not the verify token")
			default: // nosalt-empty
				resp.VerifyToken = nil
			}
			// ground truth: with a key presented the token counts only as a signature over token+salt
			tokenOK := issued != nil && resp.Salt != nil && pkey.VerifyDataSignature(resp.VerifyToken, issued, saltBytes)
			term = lib.App("EncResp", lib.Bool(tokenOK), "true", "true")
			desc = fmt.Sprintf("encryption-response keyed %s (token_ok=%v, genuine secret, request seen=%v)", o.Keyed, tokenOK, issued != nil)
			pk = resp
		case kPlugin:
			term, desc = lib.App("PluginResp", lib.Nat(o.PluginID)), fmt.Sprintf("login-plugin-response id=%d", o.PluginID)
			pk = &packet.LoginPluginResponse{ID: o.PluginID, Success: true, Data: []byte{1}}
		case kAck:
			term, desc = "LoginAck", "login-acknowledged (not a packet of this version: unknown id)"
			pk = nil
		default:
			term, desc = "Unknown", "unknown packet id"
			pk = nil
		}
		res.OpTerms = append(res.OpTerms, term)
		res.OpDescs = append(res.OpDescs, desc)
		var so stepObs
		if !closed {
			conn.Handle(pk)
			w, encSecret, cl := conn.Snapshot()
			so.EncOn = encSecret != nil && bytes.Equal(encSecret, pl.Secret)
			for _, x := range w[nWritten:] {
				f := "OOther"
				if x.State != states.LoginState.String() {
					f = "OPost"
				} else {
					switch t := x.Packet.(type) {
					case *packet.EncryptionRequest:
						if len(t.VerifyToken) > 0 && bytes.Equal(t.PublicKey, res.PubKey) {
							f = "OEncRequest"
							issued = append([]byte{}, t.VerifyToken...)
						}
					case *packet.SetCompression:
						if t.Threshold == pl.Threshold {
							f = "OSetCompression"
						}
					case *packet.ServerLoginSuccess:
						if t.Username == pl.Name {
							switch {
							case bytes.Equal(t.UUID[:], profileID):
								f = "(OSuccess USession)"
							case [16]byte(t.UUID) == offID:
								f = "(OSuccess UOffline)"
							}
						}
					case *packet.Disconnect:
						f = "ODisconnect"
					case *packet.LoginPluginMessage:
						f = lib.App("OPluginMsg", lib.Nat(t.ID))
					}
				}
				if f == "OPost" && len(so.Frames) > 0 && so.Frames[len(so.Frames)-1] == "OPost" {
					continue
				}
				so.Frames = append(so.Frames, f)
			}
			nWritten = len(w)
			if cl {
				closed = true
				so.Frames = append(so.Frames, "OClose")
			}
			calls := authn.Calls()
			so.Joins = len(calls) - nJoins
			nJoins = len(calls)
			evs := ev.List()
			evidence := false
			for _, e := range evs[nEvents:] {
				if e.Kind == "postlogin" && e.Registered {
					evidence = true
				}
			}
			nEvents = len(evs)
			if !cl && p.PlayerCount() > 0 {
				evidence = true
			}
			so.Registered = evidence && !everRegistered
			everRegistered = everRegistered || evidence
		}
		res.Obs = append(res.Obs, so)
	}
	for _, jc := range authn.Calls() {
		res.JoinArgs = append(res.JoinArgs, [2]string{jc.URLServerID, jc.URLUser})
	}
	res.Notes = append(res.Notes, "keyed login driven at handler level (decoded packets, recording connection)")
	return
}

// genKeyed: login start with a valid profile key, then an encryption response in one of the shapes
func genKeyed(r *lib.Rng) []op {
	shapes := []string{"sig-ok", "sig-ok", "sig-bad", "sig-other-salt", "nosalt-exact", "nosalt-exact", "nosalt-junk", "nosalt-empty"}
	login := op{Kind: kLogin, NameValid: true}
	e := op{Kind: kEnc, Keyed: shapes[r.Intn(len(shapes))]}
	switch r.Intn(6) {
	case 0:
		return []op{login, {Kind: kPlugin, PluginID: 5}, e}
	case 1:
		return []op{login, e, {Kind: kEnc, Keyed: "sig-ok"}}
	case 2:
		return []op{e, login}
	case 3:
		return []op{login, login, e}
	default:
		return []op{login, e}
	}
}

func genOps(r *lib.Rng, protocol int) ([]op, string) {
	encVars := []string{"good", "good", "good", "good", "bad-token-value", "bad-token-ct", "bad-secret-ct", "bad-secret-len",
		"token-empty", "token-prefix1", "token-prefix3", "token-plus1", "secret-len15", "secret-len32"}
	lengthVars := []string{"token-empty", "token-prefix1", "token-prefix2", "token-prefix3", "token-plus1", "token-plus4",
		"secret-len0", "secret-len15", "secret-len17", "secret-len32"}
	keyVar := func() string {
		if r.Chance(1, 4) {
			return r.PickS("expired", "invalid")
		}
		return "none"
	}
	login := func(valid bool) op { return op{Kind: kLogin, NameValid: valid, Key: keyVar()} }
	enc := func(v string) op { return op{Kind: kEnc, EncVar: v} }
	random := func() op {
		switch r.Intn(8) {
		case 0, 1:
			return login(r.Chance(4, 5))
		case 2, 3:
			return enc(encVars[r.Intn(len(encVars))])
		case 4:
			return op{Kind: kPlugin, UnkVar: r.Intn(4), PluginID: r.Pick(1, 1, 2, 3, 77, 78)}
		case 5, 6:
			return op{Kind: kAck}
		default:
			return op{Kind: kUnknown, UnkVar: r.Intn(4)}
		}
	}
	switch r.Intn(10) {
	case 0, 1, 2: // the vanilla exchange with one variant of the response, then acknowledge
		ops := []op{login(true), enc(encVars[r.Intn(len(encVars))]), {Kind: kAck}}
		if r.Chance(1, 3) {
			ops = append(ops, random())
		}
		return ops, "vanilla"
	case 3, 4: // vanilla with one extra packet inserted somewhere (duplicate / unknown / plugin)
		ops := []op{login(true), enc("good"), {Kind: kAck}}
		i := r.Intn(len(ops) + 1)
		x := random()
		ops = append(ops[:i], append([]op{x}, ops[i:]...)...)
		return ops, "vanilla+inserted"
	case 5: // skipping a step
		return [][]op{{enc("good")}, {{Kind: kAck}}, {login(true), {Kind: kAck}}, {enc("good"), login(true)}, {login(true), login(true), enc("good")},
			{login(true), enc("good"), enc("good")}, {login(true), enc("good"), {Kind: kAck}, {Kind: kAck}}}[r.Intn(7)], "skipped-or-repeated"
	case 6: // bad names and keys
		if r.Chance(1, 2) {
			return []op{login(false), enc("good")}, "invalid-name"
		}
		fallthrough
	case 7: // a correctly encrypted token/secret of the wrong LENGTH (prefix, empty, extended), everything else valid
		return []op{{Kind: kLogin, NameValid: true, Key: "none"}, enc(lengthVars[r.Intn(len(lengthVars))]), {Kind: kAck}}, "wrong-length"
	default:
		n := r.Range(0, 6)
		var ops []op
		for i := 0; i < n; i++ {
			ops = append(ops, random())
		}
		return ops, "random"
	}
}

func main() {
	f := lib.ParseFlags()
	rng := lib.NewRng(f.Seed)
	out := lib.NewOut("C08", f)
	out.Imports = "From Verif Require Import Model.Login.\n"
	out.Rule = "protocols 1.8 / 1.19.1 (key window) / 1.20.1 / 1.20.2 / 26.2; online mode 85%, pre-login result none/deny/force-online/force-offline, compression on/off, ForceKeyAuthentication on/off, session outcome profile (40%) or one of 204/401/500/transport error/empty body/bad profile; packet sequences of length <= 6: vanilla exchange with one response variant (good, wrong token, corrupted token ciphertext, corrupted secret ciphertext, 8-byte secret, correctly encrypted tokens of the wrong length: empty / 1-3 byte prefix / issued token + 1 or 4 bytes, secrets of 0/15/17/32 bytes), vanilla with one inserted packet, skipped/repeated steps, invalid names, random sequences over {login start (valid/invalid name, no/expired/forged key), encryption response variants, plugin response (outstanding, duplicate or unsolicited id), login acknowledged, unknown/undecodable packet}; every 10th case presents a VALID profile key on 1.19/1.19.1 (delivered as decoded packets through the hook VerifNewInitialLoginHandler; key = e2e.ProfileKey with real RSA data signatures) with encryption response shapes salt+valid signature / salt+bad signature / signature over another salt / NO salt + exact token / NO salt + junk / NO salt + empty; every 6th case has a PreLogin subscriber sending 1-2 login plugin messages, with histories that answer them in any order, duplicate answers, answer unknown ids, or send a second login start / an encryption response before, between or after the answers; non-trivial = the sequence contains a login start AND an encryption response; distinct = distinct (configuration, operations) ignoring key material"
	n := f.Count(300)
	validAlpha := "abcdefghijklmnopqrstuvwxyzABCDEFGHIJKLMNOPQRSTUVWXYZ0123456789_"
	plans := make([]plan, n)
	for i := range plans {
		r := rng.Fork()
		pl := plan{Protocol: protocols[i%len(protocols)], Online: r.Chance(17, 20), Threshold: 256, ForceKey: r.Chance(1, 2)}
		if r.Chance(1, 4) {
			pl.PreLogin = r.PickS("deny", "force-online", "force-offline")
		}
		if r.Chance(1, 4) {
			pl.Threshold = -1
		}
		if r.Chance(2, 5) {
			pl.Outcome = e2e.OutProfile
		} else {
			pl.Outcome = e2e.Outcome(r.Range(1, 6))
		}
		pl.Ops, pl.Shape = genOps(r, pl.Protocol)
		if i%6 == 5 { // PreLogin subscriber that talks to the client first (also on 1.8, where the proxy must refuse)
			pl.PreMsgs = r.Pick(1, 1, 2)
			pl.Ops, pl.Shape = genWaiting(r, pl.PreMsgs), "prelogin-plugin-messages"
			if r.Chance(3, 4) {
				pl.Online, pl.PreLogin, pl.Outcome, pl.ForceKey = true, "", e2e.OutProfile, false
			}
		} else if r.Chance(1, 12) {
			pl.PreMsgs = 1
		}
		if i%10 == 7 { // a VALID profile key on 1.19 / 1.19.1 (handler-level run, see runKeyed)
			pl.Protocol = []int{e2e.P1_19, e2e.P1_19_1}[(i/10)%2]
			pl.PreMsgs, pl.Ops, pl.Shape = 0, genKeyed(r), "keyed"
			pl.Online, pl.PreLogin, pl.Outcome = true, "", e2e.OutProfile
		}
		if pl.Shape == "wrong-length" { // make sure nothing else stands between this response and an admission
			pl.Online, pl.PreLogin, pl.Outcome, pl.ForceKey = true, "", e2e.OutProfile, false
		}
		pl.Name = r.StringOver(validAlpha, r.Range(2, 16))
		pl.BadName = r.PickS("x", "bad name", "way_too_long_name_17", "semi;colon", "tab\tname")
		pl.Secret = r.Bytes(16)
		pl.Secret32 = append(append([]byte{}, pl.Secret...), r.Bytes(16)...)
		plans[i] = pl
	}
	results, errs := e2e.RunParallel(n, 16, func(i int) result {
		if f.Only >= 0 && f.Only != i {
			return result{}
		}
		if plans[i].Shape == "keyed" {
			return runKeyed(plans[i])
		}
		return run(plans[i])
	})
	seen := map[string]bool{}
	for i, pl := range plans {
		res := results[i]
		conf := lib.App("mkCfg", lib.Bool(pl.Online),
			map[string]string{"": "PAllow", "deny": "PDeny", "force-online": "PForceOnline", "force-offline": "PForceOffline"}[pl.PreLogin],
			"false", lib.Bool(pl.Threshold >= 0 && pl.Protocol >= e2e.P1_8), lib.Bool(pl.Protocol >= e2e.P1_13), lib.Bool(pl.Protocol >= e2e.P1_20_2),
			lib.Bool(pl.Protocol >= e2e.P1_19 && pl.Protocol < e2e.P1_19_3), lib.Bool(pl.ForceKey),
			[]string{"SProfile", "SNoContent", "SUnauthorized", "SOtherStatus", "STransport", "SEmptyBody", "SBadProfile"}[pl.Outcome],
			lib.Nat(pl.PreMsgs))
		obsTerm := lib.ListOf(res.Obs, func(s stepObs) string {
			return lib.App("Check.C08.mkObs", lib.List(s.Frames), lib.Bool(s.EncOn), lib.Nat(s.Joins), lib.Bool(s.Registered))
		})
		joinTerm := lib.ListOf(res.JoinArgs, func(a [2]string) string { return lib.Pair(lib.Str(a[0]), lib.Str(a[1])) })
		term := lib.App("Check.C08.mk", conf, lib.List(res.OpTerms), obsTerm, lib.Bytes(res.Secret), lib.Bytes(res.PubKey), lib.Str(pl.Name), joinTerm)
		var obsDesc []string
		for _, s := range res.Obs {
			obsDesc = append(obsDesc, fmt.Sprintf("%s enc=%v joins=%d registered=%v", strings.Join(s.Frames, ","), s.EncOn, s.Joins, s.Registered))
		}
		desc := map[string]any{"protocol": pl.Protocol, "online_mode": pl.Online, "prelogin": pl.PreLogin, "prelogin_plugin_messages": pl.PreMsgs, "compression": pl.Threshold,
			"force_key_auth": pl.ForceKey, "session_outcome": pl.Outcome.String(), "shape": pl.Shape, "name": pl.Name,
			"ops": res.OpDescs, "observed": obsDesc, "join_args": res.JoinArgs, "notes": res.Notes}
		if (f.Only < 0 || f.Only == i) && (errs[i] != "" || res.Err != "") {
			out.GoViolation(map[string]any{"index": i, "known": nil, "what": "E2E run did not complete", "panic": errs[i], "error": res.Err, "case": desc})
		}
		hasLogin, hasEnc := false, false
		for _, o := range pl.Ops {
			hasLogin = hasLogin || o.Kind == kLogin
			hasEnc = hasEnc || o.Kind == kEnc
		}
		sig := conf + lib.List(res.OpTerms)
		nt := hasLogin && hasEnc && !seen[sig]
		seen[sig] = true
		tags := []string{fmt.Sprintf("protocol=%d", pl.Protocol), "shape=" + pl.Shape, "outcome=" + pl.Outcome.String(),
			fmt.Sprintf("online=%v", pl.Online), "prelogin=" + pl.PreLogin, fmt.Sprintf("prelogin-msgs=%d", pl.PreMsgs), fmt.Sprintf("len=%d", len(pl.Ops))}
		admitted := false
		for _, s := range res.Obs {
			admitted = admitted || s.Registered
		}
		tags = append(tags, fmt.Sprintf("admitted=%v", admitted))
		out.Add(term, desc, nt, tags...)
	}
	out.Finish()
}
