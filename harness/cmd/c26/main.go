// C26 harness. Dispatch layer: the public bungeecord.NewMessageResponder over fake Providers built
// from a generated proxy state; every effect the responder asks for is recorded by the fakes.
// Adapter layer: well-formed Forward requests through the real bungee.go adapter over a Proxy holding
// the same kind of state on recording connections (verif_export_c26.go).
package main

import (
	"bytes"
	"encoding/hex"
	"fmt"
	"net"
	"strings"
	"sync"
	"time"

	"go.minekube.com/common/minecraft/component"
	"go.minekube.com/common/minecraft/component/codec/legacy"

	"go.minekube.com/gate/pkg/edition/java/proto/packet/plugin"
	"go.minekube.com/gate/pkg/edition/java/proto/state"
	"go.minekube.com/gate/pkg/edition/java/proto/util"
	"go.minekube.com/gate/pkg/edition/java/proto/version"
	"go.minekube.com/gate/pkg/edition/java/proxy"
	"go.minekube.com/gate/pkg/edition/java/proxy/bungeecord"
	"go.minekube.com/gate/pkg/edition/java/proxy/message"
	gproto "go.minekube.com/gate/pkg/gate/proto"
	"go.minekube.com/gate/pkg/util/uuid"

	"verifharness/lib"
	"verifharness/pmsg"
)

// ---------- proxy state ----------

type playerSt struct {
	name   string
	id     uuid.UUID
	ip     net.IP
	port   int
	server string // "" = none
	modern bool
}
type serverSt struct {
	name string
	ip   net.IP
	port int
}
type stateSt struct {
	players []playerSt
	servers []serverSt
}

func (s *stateSt) term() string {
	ps := lib.ListOf(s.players, func(p playerSt) string {
		return lib.App("mkP", lib.Str(p.name), lib.Str(p.id.Undashed()), lib.Str(p.ip.String()), lib.N(uint64(p.port)),
			lib.Opt(p.server != "", lib.Str(p.server)), lib.Bool(p.modern))
	})
	ss := lib.ListOf(s.servers, func(v serverSt) string {
		return lib.App("mkS", lib.Str(v.name), lib.Str(v.ip.String()), lib.N(uint64(v.port)))
	})
	return lib.App("mkPS", ps, ss)
}

func (s *stateSt) String() string {
	var b strings.Builder
	for _, p := range s.players {
		fmt.Fprintf(&b, "player %s id=%s addr=%s:%d server=%q modern=%v; ", p.name, p.id.Undashed(), p.ip, p.port, p.server, p.modern)
	}
	for _, v := range s.servers {
		fmt.Fprintf(&b, "server %s addr=%s:%d; ", v.name, v.ip, v.port)
	}
	return b.String()
}

func protoOf(modern bool) gproto.Protocol {
	if modern {
		return version.Minecraft_1_20_2.Protocol
	}
	return version.Minecraft_1_12_2.Protocol
}

// ---------- effects recorded by the fakes ----------

// The recorder keeps effects as thunks: byte slices handed to the fakes are NOT copied when the effect
// happens but printed when the case (or the whole history) is over — what a consumer that writes later sees.
type recorder struct {
	mu  sync.Mutex
	eff []func() string
	n   map[string]int
}

func (r *recorder) add(kind, term string) { r.addLazy(kind, func() string { return term }) }

func (r *recorder) addLazy(kind string, term func() string) {
	r.mu.Lock()
	r.eff = append(r.eff, term)
	r.n[kind]++
	r.mu.Unlock()
}

func (r *recorder) count() int {
	r.mu.Lock()
	defer r.mu.Unlock()
	return len(r.eff)
}

// terms prints the effects [from, to)
func (r *recorder) terms(from, to int) []string {
	r.mu.Lock()
	defer r.mu.Unlock()
	out := make([]string, 0, to-from)
	for _, f := range r.eff[from:to] {
		out = append(out, f())
	}
	return out
}

func plain(c component.Component) string {
	switch t := c.(type) {
	case nil:
		return ""
	case *component.Text:
		s := t.Content
		for _, e := range t.Extra {
			s += plain(e)
		}
		return s
	}
	b := new(strings.Builder)
	_ = (&legacy.Legacy{}).Marshal(b, c)
	return b.String()
}

type fakeWorld struct {
	st  *stateSt
	req *playerSt
	rec *recorder
}

type fakePlayer struct {
	w *fakeWorld
	p *playerSt
}

func (f *fakePlayer) ID() uuid.UUID             { return f.p.id }
func (f *fakePlayer) Username() string          { return f.p.name }
func (f *fakePlayer) RemoteAddr() net.Addr      { return &net.TCPAddr{IP: f.p.ip, Port: f.p.port} }
func (f *fakePlayer) Protocol() gproto.Protocol { return version.Minecraft_1_20_2.Protocol }
func (f *fakePlayer) Disconnect(reason component.Component) {
	f.w.rec.add("kick", lib.App("EKick", lib.Str(f.p.name), lib.Str(plain(reason))))
}

type fakeConn struct {
	w     *fakeWorld
	owner *playerSt
}

func (c *fakeConn) Name() string              { return c.owner.server }
func (c *fakeConn) Protocol() gproto.Protocol { return protoOf(c.owner.modern) }
func (c *fakeConn) WritePacket(p gproto.Packet) error {
	m, ok := p.(*plugin.Message)
	if !ok {
		c.w.rec.add("weird", "EOracleMiss")
		return nil
	}
	data, owner := m.Data, c.owner.name // the slice as handed over, not a copy
	switch m.Channel {
	case "bungeecord:main":
		c.w.rec.addLazy("response", func() string { return lib.App("EResponse", lib.Str(owner), "true", lib.Bytes(data)) })
	case "BungeeCord":
		c.w.rec.addLazy("response", func() string { return lib.App("EResponse", lib.Str(owner), "false", lib.Bytes(data)) })
	default:
		c.w.rec.add("weird", "EOracleMiss")
	}
	return nil
}

type fakeServer struct {
	w *fakeWorld
	s *serverSt
}

func (s *fakeServer) Name() string   { return s.s.name }
func (s *fakeServer) Addr() net.Addr { return &net.TCPAddr{IP: s.s.ip, Port: s.s.port} }
func (s *fakeServer) on() []*playerSt {
	var out []*playerSt
	for i := range s.w.st.players {
		if s.w.st.players[i].server == s.s.name {
			out = append(out, &s.w.st.players[i])
		}
	}
	return out
}
func (s *fakeServer) PlayerCount() int { return len(s.on()) }
func (s *fakeServer) Players() []bungeecord.Player {
	var out []bungeecord.Player
	for _, p := range s.on() {
		out = append(out, &fakePlayer{s.w, p})
	}
	return out
}
func (s *fakeServer) BroadcastPluginMessage(id message.ChannelIdentifier, data []byte) {
	if id == nil || id.ID() != "BungeeCord" {
		s.w.rec.add("weird", "EOracleMiss")
		return
	}
	name := s.s.name
	s.w.rec.addLazy("forward", func() string { return lib.App("EForward", lib.Str(name), lib.Bytes(data)) })
}
func (s *fakeServer) Connect(p bungeecord.Player) {
	s.w.rec.add("connect", lib.App("EConnect", lib.Str(p.Username()), lib.Str(s.s.name)))
}
func (s *fakeServer) BroadcastMessage(c component.Component) {
	s.w.rec.add("message", lib.App("EMessage", lib.App("TServer", lib.Str(s.s.name)), lib.Str(plain(c))))
}

// Providers (plus the two methods the repair diffs fixes/C26-2..4 add to the interfaces)
func (w *fakeWorld) find(name string) *playerSt {
	for i := range w.st.players {
		if strings.EqualFold(w.st.players[i].name, name) {
			return &w.st.players[i]
		}
	}
	return nil
}
func (w *fakeWorld) PlayerByName(username string) bungeecord.Player {
	if p := w.find(username); p != nil {
		return &fakePlayer{w, p}
	}
	return nil
}
func (w *fakeWorld) PlayerCount() int { return len(w.st.players) }
func (w *fakeWorld) Players() []bungeecord.Player {
	var out []bungeecord.Player
	for i := range w.st.players {
		out = append(out, &fakePlayer{w, &w.st.players[i]})
	}
	return out
}
func (w *fakeWorld) BroadcastMessage(c component.Component) {
	w.rec.add("message", lib.App("EMessage", "TAll", lib.Str(plain(c))))
}
func (w *fakeWorld) Server(name string) bungeecord.Server {
	for i := range w.st.servers {
		if strings.EqualFold(w.st.servers[i].name, name) {
			return &fakeServer{w, &w.st.servers[i]}
		}
	}
	return nil
}
func (w *fakeWorld) Servers() []bungeecord.Server {
	var out []bungeecord.Server
	for i := range w.st.servers {
		out = append(out, &fakeServer{w, &w.st.servers[i]})
	}
	return out
}
func (w *fakeWorld) connOf(p *playerSt) bungeecord.ServerConnection {
	if p == nil || p.server == "" {
		return nil
	}
	return &fakeConn{w, p}
}
func (w *fakeWorld) ConnectedServer() bungeecord.ServerConnection { return w.connOf(w.req) }
func (w *fakeWorld) ConnectedServerOf(p bungeecord.Player) bungeecord.ServerConnection {
	return w.connOf(w.find(p.Username()))
}
func (w *fakeWorld) SendMessage(p bungeecord.Player, c component.Component) {
	w.rec.add("message", lib.App("EMessage", lib.App("TPlayer", lib.Str(p.Username())), lib.Str(plain(c))))
}

// ---------- generators ----------

var playerNames = []string{"Alice", "bob", "Carol_99", "dave"}
var serverNames = []string{"lobby", "Survival", "mini-1"}

func genState(r *lib.Rng) (*stateSt, int) {
	st := &stateSt{}
	ns := r.Range(1, 3)
	for i := 0; i < ns; i++ {
		st.servers = append(st.servers, serverSt{name: serverNames[i], ip: net.IPv4(10, 0, byte(r.Intn(3)), byte(1+r.Intn(250))),
			port: r.Pick(25565, 25566, 40000, 65535, 1)})
	}
	np := r.Range(1, 4)
	for i := 0; i < np; i++ {
		p := playerSt{name: playerNames[i], ip: net.IPv4(192, 168, byte(r.Intn(4)), byte(1+r.Intn(250))), port: r.Range(1024, 65535), modern: r.Chance(2, 3)}
		copy(p.id[:], r.Bytes(16))
		if !r.Chance(1, 10) {
			p.server = st.servers[r.Intn(ns)].name
		}
		st.players = append(st.players, p)
	}
	req := r.Intn(np)
	if st.players[req].server == "" && r.Chance(3, 4) {
		st.players[req].server = st.servers[r.Intn(ns)].name
	}
	return st, req
}

func varyCase(r *lib.Rng, s string) string {
	switch r.Intn(4) {
	case 0:
		return strings.ToUpper(s)
	case 1:
		return strings.ToLower(s)
	}
	return s
}

func utf(b *bytes.Buffer, s string) { _ = util.WriteUTF(b, s) }

type request struct {
	sub    string
	data   []byte
	text   string // the text argument, if the sub-channel has one
	hasTxt bool
	tags   []string
}

var subs = []string{"ForwardToPlayer", "Forward", "Connect", "ConnectOther", "IP", "IPOther", "UUID", "UUIDOther", "PlayerCount",
	"PlayerList", "GetServers", "GetServer", "Message", "MessageRaw", "ServerIP", "KickPlayer", "KickPlayerRaw", "GetPlayerServer"}

func genPlayerArg(r *lib.Rng, st *stateSt) (string, string) {
	switch k := r.Intn(10); {
	case k < 7:
		return varyCase(r, st.players[r.Intn(len(st.players))].name), "player=known"
	case k < 9:
		return r.PickS("ghost", "Alicee", "ALL"), "player=unknown"
	}
	return "", "player=empty"
}

func genServerArg(r *lib.Rng, st *stateSt) (string, string) {
	switch k := r.Intn(10); {
	case k < 6:
		return varyCase(r, st.servers[r.Intn(len(st.servers))].name), "server=known"
	case k < 8:
		return r.PickS("nowhere", "lobbyy", ""), "server=unknown"
	}
	return r.PickS("ALL", "ALL", "ONLINE", "all", "Online"), "server=ALL/ONLINE"
}

func genPayload(r *lib.Rng, b *bytes.Buffer) string {
	ch := r.PickS("MyChan", "x:y", "", "Return")
	body := r.Bytes(r.Pick(0, 1, 3, 20, 40))
	switch k := r.Intn(12); {
	case k < 8:
		utf(b, ch)
		_ = util.WriteUint16(b, uint16(len(body)))
		b.Write(body)
		if k == 7 {
			b.Write(r.Bytes(r.Range(1, 4))) // trailing bytes after the payload
			return "payload=trailing"
		}
		return "payload=ok"
	case k == 8: // negative int16 length
		utf(b, ch)
		_ = util.WriteUint16(b, uint16(r.Pick(0xffff, 0x8000, 0x9c40)))
		b.Write(body)
		return "payload=negative-length"
	case k == 9: // length beyond what follows
		utf(b, ch)
		_ = util.WriteUint16(b, uint16(len(body)+r.Range(1, 300)))
		b.Write(body)
		return "payload=short-body"
	case k == 10: // channel cut
		_ = util.WriteUint16(b, uint16(len(ch)+5))
		b.WriteString(ch)
		return "payload=short-channel"
	}
	return "payload=missing"
}

func genText(r *lib.Rng, raw bool) string {
	t := r.PickS("hello world", "You were kicked", "", "x")
	if !raw {
		return t
	}
	if r.Chance(1, 5) {
		return r.PickS("{oops", "", "[1,")
	}
	return `{"text":"` + t + `"}`
}

func genRequest(r *lib.Rng, st *stateSt) request {
	var q request
	k := r.Intn(len(subs) + 2)
	switch {
	case k == len(subs):
		q.sub = r.PickS("Nope", "forward", "IPother")
	case k == len(subs)+1:
		q.sub = ""
	default:
		q.sub = subs[k]
	}
	b := new(bytes.Buffer)
	utf(b, q.sub)
	tag := func(t string) { q.tags = append(q.tags, t) }
	pl := func() { s, t := genPlayerArg(r, st); utf(b, s); tag(t) }
	sv := func() { s, t := genServerArg(r, st); utf(b, s); tag(t) }
	txt := func(raw bool) { q.text, q.hasTxt = genText(r, raw), true; utf(b, q.text) }
	switch q.sub {
	case "ForwardToPlayer":
		pl()
		tag(genPayload(r, b))
	case "Forward":
		sv()
		tag(genPayload(r, b))
	case "Connect", "ServerIP", "PlayerCount", "PlayerList":
		sv()
	case "ConnectOther":
		pl()
		sv()
	case "IPOther", "UUIDOther", "GetPlayerServer":
		pl()
	case "Message", "MessageRaw":
		if r.Chance(1, 2) {
			pl()
		} else {
			sv()
		}
		txt(q.sub == "MessageRaw")
	case "KickPlayer", "KickPlayerRaw":
		pl()
		txt(q.sub == "KickPlayerRaw")
	}
	q.data = b.Bytes()
	if r.Chance(1, 5) && len(q.data) > 0 { // truncated argument bytes
		q.data = q.data[:r.Intn(len(q.data))]
		tag("truncated")
	}
	return q
}

func decodeOracle(sub string, texts []string) string {
	var dec func(string) (component.Component, error)
	switch sub {
	case "Message", "KickPlayer":
		dec = func(s string) (component.Component, error) { return (&legacy.Legacy{}).Unmarshal([]byte(s)) }
	case "MessageRaw":
		dec = func(s string) (component.Component, error) { return util.DefaultJsonCodec().Unmarshal([]byte(s)) }
	case "KickPlayerRaw":
		dec = func(s string) (component.Component, error) {
			return util.JsonCodec(version.Minecraft_1_20_2.Protocol).Unmarshal([]byte(s))
		}
	default:
		return "[]"
	}
	seen := map[string]bool{}
	var items []string
	for _, t := range texts {
		if seen[t] {
			continue
		}
		seen[t] = true
		c, err := dec(t)
		items = append(items, lib.Pair(lib.Str(t), lib.Opt(err == nil, lib.Str(plain(c)))))
	}
	return lib.List(items)
}

// ---------- adapter layer ----------

// runAdapter sends one Forward request per payload. With gated = true every player connection blocks in
// WritePacket until all requests have been processed (deterministic: a closed channel releases them).
func runAdapter(st *stateSt, req int, target string, payloads [][]byte, gated bool) (string, int, int) {
	gate := make(chan struct{})
	w := proxy.VerifC26NewWorld()
	for _, s := range st.servers {
		w.AddServer(s.name, &net.TCPAddr{IP: s.ip, Port: s.port})
	}
	type pc struct{ client, backend *pmsg.Conn }
	conns := make([]pc, len(st.players))
	var mu sync.Mutex
	total := 0
	hook := func(pmsg.Write) { mu.Lock(); total++; mu.Unlock() }
	for i, p := range st.players {
		c := pmsg.NewConn(2*i, state.Play, version.Minecraft_1_20_2.Protocol)
		b := pmsg.NewConn(2*i+1, state.Play, protoOf(p.modern))
		c.Hook, b.Hook = hook, hook
		if gated {
			c.Gate, b.Gate = gate, gate
		}
		conns[i] = pc{c, b}
		w.AddPlayer(p.name, p.id, c, p.server, b)
	}
	resp := w.Responder(st.players[req].name)
	for _, payload := range payloads {
		buf := new(bytes.Buffer)
		utf(buf, "Forward")
		utf(buf, target)
		buf.Write(payload)
		func() {
			defer func() { _ = recover() }()
			resp.Process(&plugin.Message{Channel: "BungeeCord", Data: buf.Bytes()})
		}()
	}
	if gated {
		time.Sleep(5 * time.Millisecond) // let the delivery goroutines reach the gate, then open it
	}
	close(gate)
	// BroadcastPluginMessage writes from one goroutine per player: wait until nothing has changed for 25 ms
	last, since := -1, time.Now()
	for deadline := time.Now().Add(2 * time.Second); time.Now().Before(deadline); time.Sleep(2 * time.Millisecond) {
		mu.Lock()
		t := total
		mu.Unlock()
		if t != last {
			last, since = t, time.Now()
		} else if time.Since(since) > 25*time.Millisecond {
			break
		}
	}
	var items []string
	nc, nb := 0, 0
	for i, p := range st.players {
		for side, cn := range []*pmsg.Conn{conns[i].client, conns[i].backend} {
			for _, wr := range cn.Writes() {
				ch, data := wr.Channel, wr.Data
				if wr.Kind != "pkt" {
					ch = "<" + wr.Kind + wr.Type + ">"
				}
				items = append(items, lib.App("mkW", lib.Str(p.name), lib.Bool(side == 0), lib.Str(ch), lib.Bytes(data)))
				if side == 0 {
					nc++
				} else {
					nb++
				}
			}
		}
	}
	return lib.List(items), nc, nb
}

// runAdapterRequest sends one query request through the real bungee.go adapter over a Proxy holding the
// state; the answers are the plugin messages written on the players' BACKEND connections.
func runAdapterRequest(st *stateSt, req int, data []byte) (effects []string, handled, panicked bool, kinds map[string]int) {
	w := proxy.VerifC26NewWorld()
	for _, s := range st.servers {
		w.AddServer(s.name, &net.TCPAddr{IP: s.ip, Port: s.port})
	}
	type pc struct{ client, backend *pmsg.Conn }
	conns := make([]pc, len(st.players))
	for i, p := range st.players {
		c := pmsg.NewConn(2*i, state.Play, version.Minecraft_1_20_2.Protocol)
		b := pmsg.NewConn(2*i+1, state.Play, protoOf(p.modern))
		conns[i] = pc{c, b}
		w.AddPlayer(p.name, p.id, c, p.server, b)
	}
	kinds = map[string]int{}
	func() {
		defer func() {
			if x := recover(); x != nil {
				panicked = true
			}
		}()
		handled = w.Responder(st.players[req].name).Process(&plugin.Message{Channel: "BungeeCord", Data: data})
	}()
	for i, p := range st.players {
		for _, wr := range conns[i].backend.Writes() {
			switch {
			case wr.Kind == "pkt" && wr.Channel == "bungeecord:main":
				effects = append(effects, lib.App("EResponse", lib.Str(p.name), "true", lib.Bytes(wr.Data)))
				kinds["response"]++
			case wr.Kind == "pkt" && wr.Channel == "BungeeCord":
				effects = append(effects, lib.App("EResponse", lib.Str(p.name), "false", lib.Bytes(wr.Data)))
				kinds["response"]++
			default:
				effects = append(effects, "EOracleMiss")
				kinds["weird"]++
			}
		}
		for range conns[i].client.Writes() { // nothing of these requests may reach a client
			effects = append(effects, "EOracleMiss")
			kinds["weird"]++
		}
	}
	if panicked {
		handled = true
		effects = append(effects, "EPanic")
		kinds["panic"]++
	}
	return
}

func main() {
	f := lib.ParseFlags()
	rng := lib.NewRng(f.Seed)
	out := lib.NewOut("C26", f)
	out.Imports = "From Verif Require Import Model.Bungee.\n"
	out.Rule = "dispatch layer: a pool of 40 proxy states of 1..3 servers and 1..4 players (10% without server, 2/3 modern connections), requester drawn from the players; sub-channel uniform over the 18 known ones plus unknown/empty names; player arguments known (any case) 70% / unknown 20% / empty 10%, server arguments known 60% / unknown 20% / ALL,ONLINE in several cases 20%; forward payloads well-formed 58%, with trailing bytes, negative int16 length, body or channel shorter than announced, or missing; texts plain, empty, JSON {\"text\":..} and invalid JSON; 20% of all requests cut at a random byte; 4% on a non-BungeeCord channel. adapter layer: well-formed Forward requests to a server / ALL / ONLINE through bungee.go over recording connections. dispatch histories: 2..3 requests (3/4 Forward/ForwardToPlayer with equal or shrinking frames) through ONE responder, the slices handed to the fake Providers printed only after the last request. adapter query cases: PlayerCount / PlayerList / ServerIP / GetServers / GetServer / Connect / ConnectOther through bungee.go with a registered server name, a case variant, an unregistered name or ALL (lists kept to one element: map order of the real Proxy is not an observable; Connect only towards unregistered names), answers read off the players' backend connections, panics recovered and recorded. adapter two-request cases: Forward A then Forward B to the same target through bungee.go while every player connection blocks in WritePacket (channel-gated), released afterwards. distinct = distinct Coq term; non-trivial = at least one effect (or write) observed, or a panic"
	// a pool of proxy states, defined once per shard file (parsing literals is what costs time in coqc)
	type pooled struct {
		st   *stateSt
		name string
	}
	var pool []pooled
	var defs strings.Builder
	for i, k := 0, f.Count(40); i < k; i++ {
		st, _ := genState(rng.Fork())
		nm := fmt.Sprintf("st_%d", i)
		pool = append(pool, pooled{st, nm})
		fmt.Fprintf(&defs, "Definition %s : pstate := %s.\n", nm, st.term())
	}
	out.Imports += "Import ListNotations.\nOpen Scope string_scope.\nOpen Scope N_scope.\n" + defs.String()
	pick := func(r *lib.Rng) (*stateSt, int, string) {
		p := pool[r.Intn(len(pool))]
		req := r.Intn(len(p.st.players))
		if p.st.players[req].server == "" && r.Chance(3, 4) { // requests come from a backend: prefer a connected requester
			for j := range p.st.players {
				if p.st.players[j].server != "" {
					req = j
					break
				}
			}
		}
		return p.st, req, p.name
	}
	n := f.Count(1000)
	for i := 0; i < n; i++ {
		r := rng.Fork()
		st, req, stName := pick(r)
		q := genRequest(r, st)
		channel := r.PickS("BungeeCord", "bungeecord:main", "bungeecord:main", "BUNGEECORD:MAIN", "bungeecord")
		if r.Chance(1, 25) {
			channel = r.PickS("bungeecord:other", "minecraft:brand", "")
		}
		rec := &recorder{n: map[string]int{}}
		fw := &fakeWorld{st: st, req: &st.players[req], rec: rec}
		handled, panicked := false, false
		func() {
			defer func() {
				if x := recover(); x != nil {
					panicked = true
				}
			}()
			handled = bungeecord.NewMessageResponder(&fakePlayer{fw, fw.req}, fw).Process(&plugin.Message{Channel: channel, Data: q.data})
		}()
		if panicked {
			handled = true // the model's word for "Process was inside a sub-channel handler"
			rec.add("panic", "EPanic")
		}
		oracle := "[]"
		if q.hasTxt {
			oracle = decodeOracle(q.sub, []string{q.text, ""})
		}
		term := lib.App("Check.C26.mk", stName, lib.Str(fw.req.name), oracle, lib.Str(channel), lib.Bytes(q.data), lib.Bool(handled), lib.List(rec.terms(0, rec.count())))
		desc := map[string]any{"layer": "dispatch", "sub": q.sub, "channel": channel, "data_hex": hex.EncodeToString(q.data), "requester": fw.req.name,
			"requester_server": fw.req.server, "state": st.String(), "handled": handled,
			"effects": rec.n, "panic": panicked}
		tags := append([]string{"layer=dispatch", "sub=" + q.sub}, q.tags...)
		for k := range rec.n {
			tags = append(tags, "effect="+k)
		}
		out.Add(term, desc, rec.count() > 0, tags...)
	}
	m := f.Count(40)
	for i := 0; i < m; i++ {
		r := rng.Fork()
		st, req, stName := pick(r)
		target := r.PickS("ALL", "ONLINE", varyCase(r, st.servers[r.Intn(len(st.servers))].name), st.servers[0].name, "nowhere")
		pb := new(bytes.Buffer)
		utf(pb, r.PickS("MyChan", "x:y"))
		body := r.Bytes(r.Pick(0, 3, 20))
		_ = util.WriteUint16(pb, uint16(len(body)))
		pb.Write(body)
		obs, nc, nb := "[]", 0, 0
		if out.Wanted() {
			obs, nc, nb = runAdapter(st, req, target, [][]byte{pb.Bytes()}, false)
		}
		term := lib.App("Check.C26.mkA", stName, lib.Str(st.players[req].name), lib.Str(target), lib.Bytes(pb.Bytes()), obs)
		desc := map[string]any{"layer": "adapter", "target": target, "payload_hex": hex.EncodeToString(pb.Bytes()), "requester": st.players[req].name,
			"requester_server": st.players[req].server, "state": st.String(),
			"client_writes": nc, "backend_writes": nb}
		out.Add(term, desc, nc+nb > 0, "layer=adapter", fmt.Sprintf("client_writes=%d", nc), fmt.Sprintf("backend_writes=%d", nb))
	}
	// dispatch histories: 2..3 requests through the SAME responder; slices printed after the last one
	hn := f.Count(60)
	for i := 0; i < hn; i++ {
		r := rng.Fork()
		st, req, stName := pick(r)
		k := r.Range(2, 3)
		rec := &recorder{n: map[string]int{}}
		fw := &fakeWorld{st: st, req: &st.players[req], rec: rec}
		resp := bungeecord.NewMessageResponder(&fakePlayer{fw, fw.req}, fw)
		channel := r.PickS("BungeeCord", "bungeecord:main")
		var datas [][]byte
		var subsUsed []string
		type span struct {
			from, to int
			handled  bool
		}
		var spans []span
		blen := r.Pick(3, 12, 30)
		for j := 0; j < k; j++ {
			var data []byte
			if r.Chance(3, 4) { // forwards with frames that fit the previous one's memory
				b := new(bytes.Buffer)
				sub := r.PickS("Forward", "Forward", "ForwardToPlayer")
				utf(b, sub)
				if sub == "Forward" {
					utf(b, r.PickS("ALL", st.servers[r.Intn(len(st.servers))].name))
				} else {
					utf(b, st.players[r.Intn(len(st.players))].name)
				}
				utf(b, "MyChan")
				body := r.Bytes(blen - j*r.Intn(2))
				_ = util.WriteUint16(b, uint16(len(body)))
				b.Write(body)
				data = b.Bytes()
				subsUsed = append(subsUsed, sub)
			} else {
				q := genRequest(r, st)
				if q.hasTxt { // text sub-channels need an oracle: keep histories to the others
					q = request{sub: "GetServers", data: append([]byte{0, 10}, []byte("GetServers")...)}
				}
				data = q.data
				subsUsed = append(subsUsed, q.sub)
			}
			datas = append(datas, data)
			from := rec.count()
			handled := false
			func() {
				defer func() {
					if x := recover(); x != nil {
						handled = true
						rec.add("panic", "EPanic")
					}
				}()
				handled = resp.Process(&plugin.Message{Channel: channel, Data: append([]byte(nil), data...)})
			}()
			spans = append(spans, span{from, rec.count(), handled})
		}
		obs := make([]string, len(spans))
		for j, sp := range spans {
			obs[j] = lib.Pair(lib.Bool(sp.handled), lib.List(rec.terms(sp.from, sp.to)))
		}
		term := lib.App("Check.C26.mkH", stName, lib.Str(fw.req.name), "[]", lib.Str(channel), lib.ListOf(datas, lib.Bytes), lib.List(obs))
		desc := map[string]any{"layer": "dispatch-history", "subs": subsUsed, "channel": channel, "requester": fw.req.name,
			"data_hex": lib.ListOf(datas, func(d []byte) string { return hex.EncodeToString(d) }), "state": st.String(), "effects": rec.n}
		out.Add(term, desc, rec.count() > 0, "layer=dispatch-history", fmt.Sprintf("history-requests=%d", k))
	}
	// adapter layer, server-addressed query sub-channels: registered / unregistered / ALL / case variants
	qn := f.Count(90)
	for i := 0; i < qn; i++ {
		r := rng.Fork()
		st, req, stName := pick(r)
		known := st.servers[r.Intn(len(st.servers))].name
		var arg, argTag string
		switch r.Intn(8) {
		case 0, 1:
			arg, argTag = known, "server=registered"
		case 2:
			arg, argTag = varyCase(r, known), "server=case-variant"
		case 3, 4, 5:
			arg, argTag = r.PickS("nowhere", known+"y", "", "lobby2"), "server=unregistered"
		default:
			arg, argTag = r.PickS("ALL", "ALL", "all"), "server=ALL"
		}
		onArg := 0
		for _, p := range st.players {
			if strings.EqualFold(p.server, arg) && arg != "" {
				onArg++
			}
		}
		sub := r.PickS("PlayerCount", "PlayerCount", "PlayerList", "PlayerList", "ServerIP", "ServerIP", "GetServers", "GetServer", "Connect", "ConnectOther")
		// map iteration order of the real Proxy is not an observable: keep lists to at most one element
		if sub == "PlayerList" && (onArg > 1 || (strings.EqualFold(arg, "ALL") && len(st.players) > 1)) {
			sub = "PlayerCount"
		}
		if sub == "GetServers" && len(st.servers) > 1 {
			sub = "ServerIP"
		}
		if (sub == "Connect" || sub == "ConnectOther") && argTag != "server=unregistered" {
			arg, argTag = "nowhere", "server=unregistered" // a real connection attempt needs a dialer
		}
		b := new(bytes.Buffer)
		utf(b, sub)
		switch sub {
		case "GetServers", "GetServer":
			argTag = "server=none"
		case "ConnectOther":
			utf(b, st.players[r.Intn(len(st.players))].name)
			utf(b, arg)
		default:
			utf(b, arg)
		}
		data := b.Bytes()
		if r.Chance(1, 12) && len(data) > 0 {
			data = data[:r.Intn(len(data))]
			argTag = "truncated"
		}
		var eff []string
		handled, panicked := false, false
		kinds := map[string]int{}
		if out.Wanted() {
			eff, handled, panicked, kinds = runAdapterRequest(st, req, data)
		}
		term := lib.App("Check.C26.mk", stName, lib.Str(st.players[req].name), "[]", lib.Str("BungeeCord"), lib.Bytes(data), lib.Bool(handled), lib.List(eff))
		desc := map[string]any{"layer": "adapter-query", "sub": sub, "arg": arg, "data_hex": hex.EncodeToString(data), "requester": st.players[req].name,
			"requester_server": st.players[req].server, "state": st.String(), "handled": handled, "effects": kinds, "panic": panicked}
		out.Add(term, desc, len(eff) > 0, "layer=adapter-query", "sub="+sub, argTag)
	}
	// adapter layer, two Forward requests while every player connection is blocked
	an := f.Count(24)
	for i := 0; i < an; i++ {
		r := rng.Fork()
		st, req, stName := pick(r)
		target := r.PickS("ALL", "ONLINE", st.servers[r.Intn(len(st.servers))].name, st.servers[0].name)
		mkPayload := func(n int) []byte {
			pb := new(bytes.Buffer)
			utf(pb, "MyChan")
			body := r.Bytes(n)
			_ = util.WriteUint16(pb, uint16(len(body)))
			pb.Write(body)
			return pb.Bytes()
		}
		n := r.Pick(4, 12, 30)
		pa, pbb := mkPayload(n), mkPayload(n-r.Intn(3))
		obs, nc, nb := "[]", 0, 0
		if out.Wanted() {
			obs, nc, nb = runAdapter(st, req, target, [][]byte{pa, pbb}, true)
		}
		term := lib.App("Check.C26.mkA2", stName, lib.Str(st.players[req].name), lib.Str(target), lib.Bytes(pa), lib.Bytes(pbb), obs)
		desc := map[string]any{"layer": "adapter-two-requests", "target": target, "payload_a_hex": hex.EncodeToString(pa), "payload_b_hex": hex.EncodeToString(pbb),
			"requester": st.players[req].name, "requester_server": st.players[req].server, "state": st.String(), "client_writes": nc, "backend_writes": nb}
		out.Add(term, desc, nc+nb > 0, "layer=adapter-two-requests", fmt.Sprintf("client_writes=%d", nc), fmt.Sprintf("backend_writes=%d", nb))
	}
	out.Finish()
}
