// Reload family: the real reload decision.  For every exported field of lite/config.Route
// (enumerated by reflection, so new fields are covered automatically) and every field below
// Route.Fallback: configuration A is published in a real proxy.Proxy, a status ping primes the
// real ping cache exactly as the handshake handler does (configSnapshot ->
// ResolveStatusResponseWithGeneration), the real Proxy.ApplyLiveConfig is called with a
// configuration B that differs from A in exactly that field, and a second ping starts afterwards.
// Observed: whether the backend was contacted again and how the route generation moved.  Both
// route lists go to Coq as flat field lists; whether they differ is computed there.
package main

import (
	"fmt"
	"reflect"
	"strings"
	"sync/atomic"
	"time"

	"net"

	"go.minekube.com/gate/pkg/edition/java/auth"
	jconfig "go.minekube.com/gate/pkg/edition/java/config"
	"go.minekube.com/gate/pkg/edition/java/lite"
	"go.minekube.com/gate/pkg/edition/java/lite/config"
	"go.minekube.com/gate/pkg/edition/java/proxy"
	"go.minekube.com/gate/pkg/util/configutil"

	"verifharness/lib"
)

type kv struct{ k, v string }

// flatten lists every leaf of v as (path, printed value); pointers and interfaces are followed.
func flatten(v reflect.Value, path string, out *[]kv) {
	switch v.Kind() {
	case reflect.Ptr, reflect.Interface:
		if v.IsNil() {
			*out = append(*out, kv{path, "nil"})
			return
		}
		flatten(v.Elem(), path+"*", out)
	case reflect.Struct:
		n := 0
		for i := 0; i < v.NumField(); i++ {
			if v.Type().Field(i).IsExported() {
				flatten(v.Field(i), path+"."+v.Type().Field(i).Name, out)
				n++
			}
		}
		if n == 0 {
			*out = append(*out, kv{path, fmt.Sprintf("%#v", v.Interface())})
		}
	case reflect.Slice, reflect.Array:
		*out = append(*out, kv{path + "#len", fmt.Sprint(v.Len())})
		for i := 0; i < v.Len(); i++ {
			flatten(v.Index(i), fmt.Sprintf("%s[%d]", path, i), out)
		}
	default:
		*out = append(*out, kv{path, fmt.Sprintf("%#v", v.Interface())})
	}
}

// leafPaths enumerates the field paths of a struct type that the family changes one at a time:
// plain struct fields recurse, everything else (scalars, slices, pointers) is one leaf.
func leafPaths(t reflect.Type, prefix []int, name string, out *[][]int, names *[]string) {
	for i := 0; i < t.NumField(); i++ {
		f := t.Field(i)
		if !f.IsExported() {
			continue
		}
		p := append(append([]int{}, prefix...), i)
		if f.Type.Kind() == reflect.Struct {
			leafPaths(f.Type, p, name+f.Name+".", out, names)
			continue
		}
		*out = append(*out, p)
		*names = append(*names, name+f.Name)
	}
}

// mutate changes the addressable value to something different that survives validation and the
// JSON clone of the routes; false = this harness does not know how to change such a field.
func mutate(v reflect.Value) bool {
	switch v.Interface().(type) {
	case config.Strategy:
		if v.String() == string(config.StrategyRoundRobin) {
			v.SetString(string(config.StrategySequential))
		} else {
			v.SetString(string(config.StrategyRoundRobin))
		}
		return true
	case configutil.Duration:
		v.SetInt(v.Int() + int64(time.Minute))
		return true
	}
	if v.Type().PkgPath() == "go.minekube.com/gate/pkg/util/favicon" && v.Kind() == reflect.String {
		v.SetString("data:image/png;base64,iVBORw0KGgoAAAANSUhEUgAAAAEAAAABCAYAAAAfFcSJAAAADUlEQVR42mNkYPhfDwAChwGA60e6kgAAAABJRU5ErkJggg==")
		return true
	}
	switch v.Kind() {
	case reflect.Bool:
		v.SetBool(!v.Bool())
	case reflect.String:
		v.SetString(v.String() + "verif-changed")
	case reflect.Int, reflect.Int8, reflect.Int16, reflect.Int32, reflect.Int64:
		v.SetInt(v.Int() + 1)
	case reflect.Uint, reflect.Uint8, reflect.Uint16, reflect.Uint32, reflect.Uint64:
		v.SetUint(v.Uint() + 1)
	case reflect.Ptr:
		if v.IsNil() {
			v.Set(reflect.New(v.Type().Elem()))
		} else {
			v.Set(reflect.Zero(v.Type()))
		}
	case reflect.Slice:
		e := reflect.New(v.Type().Elem()).Elem()
		if e.Kind() == reflect.String {
			e.SetString("127.0.0.1:1") // a valid extra host pattern and a valid extra backend address
		}
		v.Set(reflect.Append(v, e))
	default:
		return false
	}
	return true
}

type acceptCounter struct {
	ln net.Listener
	n  atomic.Int64
}

// countingStatusServer answers status requests and counts every accepted connection (a PROXY
// header or a rewritten handshake in front of the request does not matter for the count).
func countingStatusServer(name string) (*acceptCounter, string) {
	ln, err := net.Listen("tcp", "127.0.0.1:0")
	if err != nil {
		panic(err)
	}
	ac := &acceptCounter{ln: ln}
	go func() {
		for {
			c, err := ln.Accept()
			if err != nil {
				return
			}
			ac.n.Add(1)
			go func() {
				defer c.Close()
				buf := make([]byte, 2048)
				for { // swallow whatever precedes and forms the status request, until the client waits
					_ = c.SetReadDeadline(time.Now().Add(25 * time.Millisecond))
					if _, err := c.Read(buf); err != nil {
						break
					}
				}
				js := `{"version":{"name":"` + name + `","protocol":765},"players":{"max":1,"online":0},"description":{"text":"` + name + `"}}`
				_ = c.SetWriteDeadline(time.Now().Add(2 * time.Second))
				_, _ = c.Write(statusFrame(js))
			}()
		}
	}()
	return ac, ln.Addr().String()
}

func coqRoutes(rs []config.Route) string {
	return lib.ListOf(rs, func(r config.Route) string {
		var out []kv
		flatten(reflect.ValueOf(r), "Route", &out)
		return lib.ListOf(out, func(x kv) string { return lib.Pair(lib.Str(x.k), lib.Str(x.v)) })
	})
}

func runReloadFamily(out *lib.Out, r *lib.Rng) {
	authn, err := auth.New(auth.Options{})
	if err != nil {
		out.GoViolation(map[string]any{"known": nil, "what": "reload family: cannot create an authenticator: " + err.Error()})
		return
	}
	const host = "reload-field.test"
	type variant struct {
		name     string
		base     func(backend string) []config.Route // configuration A
		routeIdx int                                 // which route of A is changed
		path     []int                               // field path inside that route (nil: nothing changes)
	}
	var variants []variant
	oneRoute := func(withFallback bool) func(string) []config.Route {
		return func(b string) []config.Route {
			rt := config.Route{Host: []string{host}, Backend: []string{b}, CachePingTTL: configutil.Duration(time.Hour)}
			if withFallback {
				rt.Fallback = &config.Status{}
			}
			return []config.Route{rt}
		}
	}
	twoRoutes := func(b string) []config.Route {
		return []config.Route{oneRoute(false)(b)[0], {Host: []string{"other.test"}, Backend: []string{"127.0.0.1:2"}}}
	}
	var paths [][]int
	var names []string
	leafPaths(reflect.TypeOf(config.Route{}), nil, "", &paths, &names)
	for i := range paths {
		variants = append(variants, variant{"Route." + names[i], oneRoute(false), 0, paths[i]})
		variants = append(variants, variant{"Routes[1]." + names[i], twoRoutes, 1, paths[i]})
	}
	// below Fallback (a pointer: its own fields are not reached by the enumeration above)
	fbIdx := -1
	rtT := reflect.TypeOf(config.Route{})
	for i := 0; i < rtT.NumField(); i++ {
		if rtT.Field(i).Type == reflect.TypeOf(&config.Status{}) {
			fbIdx = i
		}
	}
	if fbIdx >= 0 {
		var fp [][]int
		var fn []string
		leafPaths(reflect.TypeOf(config.Status{}), nil, "", &fp, &fn)
		for i := range fp {
			variants = append(variants, variant{"Route.Fallback." + fn[i], oneRoute(true), 0, append([]int{fbIdx, -1}, fp[i]...)})
		}
	}
	variants = append(variants, variant{"(nothing: control)", oneRoute(false), 0, nil})
	variants = append(variants, variant{"(nothing, with fallback: control)", oneRoute(true), 0, nil})

	for vi, v := range variants {
		ac, addr := countingStatusServer(fmt.Sprintf("verif-reload-%d", vi))
		cfgA := jconfig.DefaultConfig
		cfgA.Bind = "127.0.0.1:0"
		cfgA.Lite = config.Config{Enabled: true, Routes: v.base(addr)}
		p, err := proxy.New(proxy.Options{Config: &cfgA, Authenticator: authn})
		if err != nil {
			out.GoViolation(map[string]any{"known": nil, "what": "reload family: proxy.New failed: " + err.Error()})
			_ = ac.ln.Close()
			continue
		}
		lite.ResetPingCache()
		ping := func() (fresh bool, gen uint64) {
			cfg, g := proxy.VerifConfigSnapshotC32(p)
			before := ac.n.Load()
			_, _ = resolveOnce(cfg.Lite.Routes, host, g)
			return ac.n.Load() > before, g
		}
		primed, genA := ping()
		again, _ := ping()
		// configuration B: a deep copy of A (fresh base) with exactly one field changed
		cfgB := cfgA
		cfgB.Lite.Routes = v.base(addr)
		supported := true
		if v.path != nil {
			fv := reflect.ValueOf(&cfgB.Lite.Routes[v.routeIdx]).Elem()
			for _, i := range v.path {
				if i == -1 {
					fv = fv.Elem()
				} else {
					fv = fv.Field(i)
				}
			}
			supported = mutate(fv)
		}
		if !supported {
			out.GoViolation(map[string]any{"known": nil, "what": "reload family: the harness cannot change a field of this kind; extend mutate()", "field": v.name})
			_ = ac.ln.Close()
			continue
		}
		aerr := p.ApplyLiveConfig(&cfgB)
		fresh, genB := ping()
		_ = ac.ln.Close()
		if !primed || again {
			out.GoViolation(map[string]any{"known": nil, "what": "reload family: priming failed (first ping must contact the backend, the second must be cached)", "field": v.name, "first_fetched": primed, "second_fetched": again})
			continue
		}
		if aerr != nil {
			// the candidate was rejected (validation): nothing was reloaded, not a case
			out.Tag("reload-rejected=" + v.name)
			out.Extra("reload_rejected_"+v.name, aerr.Error())
			continue
		}
		out.Add(lib.App("CReload", lib.Str(v.name), coqRoutes(cfgA.Lite.Routes), coqRoutes(cfgB.Lite.Routes),
			lib.N(genA), lib.N(genB), lib.Bool(fresh)),
			map[string]any{"kind": "reload", "changed_field": v.name, "generation_before": genA, "generation_after": genB,
				"second_ping_contacted_backend": fresh, "what": "ping, ApplyLiveConfig(B differs from A in exactly this field), ping"},
			v.path != nil, "kind=reload-field", "field="+strings.TrimPrefix(v.name, "Routes[1]."))
	}
	_ = r
}
