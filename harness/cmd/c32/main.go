// C32 harness.
//
// sched: builds a real pingStatusCache (export hook) with an injected clock and a GATED flight
// group - a real singleflight.Group behind a wrapper that stops every request right before
// DoChan - and loaders that block on channels.  A PRNG-driven script of atomic steps (request
// reaches CS1 / proceeds through DoChan / a loader returns / reset / clock advance / fast-path get)
// is realised exactly, one step at a time, and every answer is recorded.
// free : free-running goroutines (real singleflight, no gates, racing resets) with a logical
// clock; the no-stale predicate is evaluated on the recorded history.
// resolve: ResolveStatusResponseWithGeneration against fake status servers on loopback TCP.
package main

import (
	"bytes"
	"context"
	"errors"
	"fmt"
	"io"
	"net"
	"strconv"
	"strings"
	"sync"
	"sync/atomic"
	"time"

	"github.com/go-logr/logr"
	"go.minekube.com/gate/pkg/edition/java/lite"
	"go.minekube.com/gate/pkg/edition/java/lite/config"
	"go.minekube.com/gate/pkg/edition/java/netmc"
	"go.minekube.com/gate/pkg/edition/java/ping"
	"go.minekube.com/gate/pkg/edition/java/proto/packet"
	"go.minekube.com/gate/pkg/edition/java/proto/util"
	"go.minekube.com/gate/pkg/gate/proto"
	"golang.org/x/sync/singleflight"

	"verifharness/lib"
)

// one model time unit; ttl are odd, clock steps even multiples: never a tie. Only the injected
// clock can be moved (ttlcache stamps entries with time.Now), so an entry is seen as expired as soon
// as the injected offset reaches its ttl - the model has the same two clocks.
const unit = 30 * time.Minute

type keyT struct {
	backend  string
	protocol int
	routeGen uint64
}

func (k keyT) coq() string {
	return "(" + lib.Str(k.backend) + ", " + lib.N(uint64(k.protocol)) + ", " + lib.N(k.routeGen) + ")"
}

type verr struct{ id int }

func (e *verr) Error() string { return "scripted backend failure" }

type retT struct {
	id    int
	found bool // false: Get miss
	fetch int
	ok    bool
}

// ---------- the gated flight group ----------

type arrival struct {
	key  string
	gate chan struct{}
}

type gateGroup struct {
	real       singleflight.Group
	arrived    chan arrival
	registered chan string
}

func (g *gateGroup) DoChan(key string, fn func() (any, error)) <-chan singleflight.Result {
	gate := make(chan struct{})
	g.arrived <- arrival{key, gate}
	<-gate
	ch := g.real.DoChan(key, fn)
	g.registered <- key
	return ch
}

type flightT struct {
	leader  int
	members []int
}

type sched struct {
	cache    *lite.VerifPingCacheC32
	group    *gateGroup
	offset   atomic.Int64 // model units
	returned chan retT
	started  chan int
	release  map[int]chan bool
	gates    map[int]chan struct{}
	keyOf    map[int]string // flight key string seen at the gate
	inflight map[string]*flightT
	reqKey   map[int]keyT
	events   []string
	desc     []any
	answers  map[int]retT
	fetches  []int
	hung     string
}

const watchdog = 20 * time.Second

func newSched() *sched {
	s := &sched{
		group:    &gateGroup{arrived: make(chan arrival), registered: make(chan string)},
		returned: make(chan retT, 64), started: make(chan int, 64),
		release: map[int]chan bool{}, gates: map[int]chan struct{}{}, keyOf: map[int]string{},
		inflight: map[string]*flightT{}, reqKey: map[int]keyT{}, answers: map[int]retT{},
	}
	s.cache = lite.VerifNewPingCacheC32(func() time.Time {
		return time.Now().Add(time.Duration(s.offset.Load()) * unit)
	}, s.group)
	return s
}

func decode(id int, status string, err error) retT {
	if err != nil {
		var ve *verr
		if errors.As(err, &ve) {
			return retT{id, true, ve.id, false}
		}
		return retT{id, true, -1, false}
	}
	n, perr := strconv.Atoi(strings.TrimPrefix(status, "s"))
	if perr != nil {
		n = -1
	}
	return retT{id, true, n, true}
}

func (s *sched) record(r retT) { s.answers[r.id] = r }

// cs1 starts request i and runs it up to the gate (or to its return on a cache hit).
func (s *sched) cs1(i int, k keyT, ttl int) {
	s.reqKey[i] = k
	rel := make(chan bool)
	s.release[i] = rel
	s.events = append(s.events, lib.App("ECs1", lib.N(uint64(i)), k.coq(), lib.N(uint64(ttl))))
	s.desc = append(s.desc, map[string]any{"ev": "cs1", "req": i, "backend": k.backend, "protocol": k.protocol, "routeGen": k.routeGen, "ttl_units": ttl})
	go func() {
		status, err := s.cache.Load(k.backend, k.protocol, k.routeGen, time.Duration(ttl)*unit, func() (string, error) {
			s.started <- i
			if <-rel {
				return "s" + strconv.Itoa(i), nil
			}
			return "", &verr{i}
		})
		s.returned <- decode(i, status, err)
	}()
	select {
	case a := <-s.group.arrived:
		s.gates[i] = a.gate
		s.keyOf[i] = a.key
	case r := <-s.returned:
		s.record(r)
	case <-time.After(watchdog):
		s.hung = fmt.Sprintf("request %d neither returned nor reached DoChan", i)
	}
}

func (s *sched) parked() []int {
	var out []int
	for i := range s.gates {
		out = append(out, i)
	}
	sortInts(out)
	return out
}

func (s *sched) active() []int {
	var out []int
	for _, f := range s.inflight {
		out = append(out, f.leader)
	}
	sortInts(out)
	return out
}

func sortInts(a []int) {
	for i := 1; i < len(a); i++ {
		for j := i; j > 0 && a[j-1] > a[j]; j-- {
			a[j-1], a[j] = a[j], a[j-1]
		}
	}
}

// dochan lets the parked request i pass the gate: it joins the flight in progress under its key or
// becomes the leader of a new one (then its loader starts, or CS2 answers from the cache).
func (s *sched) dochan(i int) {
	gate, isParked := s.gates[i]
	if !isParked || s.hung != "" {
		return // the request was answered in CS1 (fixed scripts do not know in advance)
	}
	delete(s.gates, i)
	s.events = append(s.events, lib.App("EDoChan", lib.N(uint64(i))))
	s.desc = append(s.desc, map[string]any{"ev": "dochan", "req": i, "flightKey": s.keyOf[i]})
	close(gate)
	var key string
	select {
	case key = <-s.group.registered:
	case <-time.After(watchdog):
		s.hung = fmt.Sprintf("request %d did not register with the flight group", i)
		return
	}
	if f, ok := s.inflight[key]; ok {
		f.members = append(f.members, i)
		return
	}
	select {
	case j := <-s.started:
		if j != i {
			s.hung = fmt.Sprintf("loader of request %d started, expected %d", j, i)
		}
		s.fetches = append(s.fetches, j)
		s.inflight[key] = &flightT{leader: i, members: []int{i}}
	case r := <-s.returned:
		s.record(r) // answered by CS2 from the cache
	case <-time.After(watchdog):
		s.hung = fmt.Sprintf("leader %d neither started its loader nor returned", i)
	}
}

// complete makes the loader of leader f return and waits for every member of the flight.
func (s *sched) complete(f int, ok bool) {
	var key string
	var fl *flightT
	for k, x := range s.inflight {
		if x.leader == f {
			key, fl = k, x
		}
	}
	if fl == nil || s.hung != "" {
		return // f leads no fetch (it joined another flight or was answered from the cache)
	}
	s.events = append(s.events, lib.App("EComplete", lib.N(uint64(f)), lib.Bool(ok)))
	s.desc = append(s.desc, map[string]any{"ev": "complete", "leader": f, "ok": ok, "members": fl.members})
	s.release[f] <- ok
	for range fl.members {
		select {
		case r := <-s.returned:
			s.record(r)
		case <-time.After(watchdog):
			s.hung = fmt.Sprintf("a member of flight %d did not return", f)
			return
		}
	}
	delete(s.inflight, key)
}

func (s *sched) reset() {
	s.cache.Reset()
	s.events = append(s.events, "EReset")
	s.desc = append(s.desc, map[string]any{"ev": "reset"})
}

func (s *sched) tick(d int) {
	s.offset.Add(int64(d))
	s.events = append(s.events, lib.App("ESkew", lib.N(uint64(d))))
	s.desc = append(s.desc, map[string]any{"ev": "skew (injected clock only)", "units": d})
}

func (s *sched) get(i int, k keyT) {
	s.reqKey[i] = k
	status, err, found := s.cache.Get(k.backend, k.protocol, k.routeGen)
	s.events = append(s.events, lib.App("EGet", lib.N(uint64(i)), k.coq()))
	s.desc = append(s.desc, map[string]any{"ev": "get", "req": i, "backend": k.backend, "protocol": k.protocol, "routeGen": k.routeGen})
	if !found {
		s.record(retT{id: i, found: false})
		return
	}
	s.record(decode(i, status, err))
}

func valCoq(r retT) string {
	if !r.found {
		return "None"
	}
	f := r.fetch
	if f < 0 {
		f = 999999 // a value no loader of this run produced
	}
	return lib.Some("(" + lib.N(uint64(f)) + ", " + lib.Bool(r.ok) + ")")
}

var keyPool = []keyT{{"a:25565", 765, 1}, {"a:25565", 765, 1}, {"a:25565", 47, 1}, {"b:25565", 765, 1}, {"a:25565", 765, 2}}

func runSched(out *lib.Out, r *lib.Rng, script func(s *sched, r *lib.Rng)) {
	s := newSched()
	script(s, r)
	// drain: everything parked proceeds, every loader returns
	for s.hung == "" && (len(s.gates) > 0 || len(s.inflight) > 0) {
		if p := s.parked(); len(p) > 0 {
			s.dochan(p[0])
		} else {
			s.complete(s.active()[0], true)
		}
	}
	if s.hung != "" {
		out.GoViolation(map[string]any{"known": nil, "what": "ping cache schedule hung: " + s.hung, "events": s.desc})
		return
	}
	ids := make([]int, 0, len(s.answers))
	for i := range s.answers {
		ids = append(ids, i)
	}
	sortInts(ids)
	resp := make([]string, len(ids))
	hits := 0
	for n, i := range ids {
		resp[n] = lib.Pair(lib.N(uint64(i)), valCoq(s.answers[i]))
		if s.answers[i].found && s.answers[i].fetch != i {
			hits++
		}
	}
	fet := make([]uint64, len(s.fetches))
	for n, f := range s.fetches {
		fet[n] = uint64(f)
	}
	tags := []string{"kind=sched", fmt.Sprintf("fetches=%d", min(len(fet), 6))}
	if strings.Contains(strings.Join(s.events, " "), "EReset") {
		tags = append(tags, "has-reset")
	}
	out.Add(lib.App("CSched", lib.List(s.events), lib.List(resp), lib.ListOf(fet, lib.N)),
		map[string]any{"kind": "sched", "events": s.desc, "answers": resp, "fetches": s.fetches},
		hits > 0, tags...)
}

func randomScript(s *sched, r *lib.Rng) {
	n := r.Range(6, 18)
	next := 0
	for e := 0; e < n && s.hung == ""; e++ {
		p, a := s.parked(), s.active()
		switch x := r.Intn(100); {
		case x < 38 || (len(p) == 0 && len(a) == 0 && x < 70):
			s.cs1(next, keyPool[r.Intn(len(keyPool))], r.Pick(3, 3, 5, 9))
			next++
		case x < 58 && len(p) > 0:
			s.dochan(p[r.Intn(len(p))])
		case x < 78 && len(a) > 0:
			s.complete(a[r.Intn(len(a))], !r.Chance(1, 4))
		case x < 86:
			s.reset()
		case x < 95:
			s.tick(r.Pick(2, 2, 4, 6))
		default:
			s.get(next, keyPool[r.Intn(len(keyPool))])
			next++
		}
	}
}

// ---------- free-running goroutines ----------

func runFree(out *lib.Out, r *lib.Rng) {
	var clk atomic.Int64
	cache := lite.VerifNewPingCacheC32(time.Now, new(singleflight.Group))
	type reqRec struct {
		id, fetch     int
		inv, res      int64
		ok            bool
	}
	const G, per = 4, 4
	var mu sync.Mutex
	var reqs []reqRec
	fetchStart := map[int]int64{}
	type rr struct{ inv, res int64 }
	var resets []rr
	delays := make([]int, G*per)
	for i := range delays {
		delays[i] = r.Intn(300)
	}
	nReset := r.Range(1, 3)
	done := make(chan struct{})
	go func() {
		var wg sync.WaitGroup
		for g := 0; g < G; g++ {
			wg.Add(1)
			go func(g int) {
				defer wg.Done()
				for k := 0; k < per; k++ {
					id := g*per + k
					inv := clk.Add(1)
					status, err := cache.Load("a:25565", 765, 1, time.Hour, func() (string, error) {
						t := clk.Add(1)
						mu.Lock()
						fetchStart[id] = t
						mu.Unlock()
						time.Sleep(time.Duration(delays[id]) * time.Microsecond)
						return "s" + strconv.Itoa(id), nil
					})
					res := clk.Add(1)
					d := decode(id, status, err)
					mu.Lock()
					reqs = append(reqs, reqRec{id, d.fetch, inv, res, d.ok})
					mu.Unlock()
				}
			}(g)
		}
		wg.Add(1)
		go func() {
			defer wg.Done()
			for k := 0; k < nReset; k++ {
				time.Sleep(time.Duration(100+50*k) * time.Microsecond)
				inv := clk.Add(1)
				cache.Reset()
				res := clk.Add(1)
				mu.Lock()
				resets = append(resets, rr{inv, res})
				mu.Unlock()
			}
		}()
		wg.Wait()
		close(done)
	}()
	select {
	case <-done:
	case <-time.After(watchdog):
		out.GoViolation(map[string]any{"known": nil, "what": "free-running ping cache goroutines hung"})
		return
	}
	// the predicate, evaluated here on the recorded history (Go side; the gated schedules are the Coq cases)
	bad := []any{}
	for _, q := range reqs {
		fs, ok := fetchStart[q.fetch]
		if !ok {
			bad = append(bad, map[string]any{"req": q.id, "why": "value of a loader that never ran", "fetch": q.fetch})
			continue
		}
		for _, rs := range resets {
			if rs.res < q.inv && fs < rs.inv {
				bad = append(bad, map[string]any{"req": q.id, "fetch": q.fetch, "fetch_start": fs, "reset": rs, "req_inv": q.inv})
			}
		}
	}
	out.Tag("kind=free")
	if len(bad) > 0 {
		out.GoViolation(map[string]any{"known": nil, "what": "a request that started after a reset returned was answered with a status whose fetch started before that reset was called", "witnesses": bad})
	}
}

// ---------- ResolveStatusResponse against loopback backends ----------

type stubClient struct {
	netmc.MinecraftConn
	conn net.Conn
	ctx  context.Context
}

func (c stubClient) Conn() net.Conn           { return c.conn }
func (c stubClient) Context() context.Context { return c.ctx }

type fakeConn struct{}

func (fakeConn) Read([]byte) (int, error)         { return 0, net.ErrClosed }
func (fakeConn) Write(b []byte) (int, error)      { return len(b), nil }
func (fakeConn) Close() error                     { return nil }
func (fakeConn) LocalAddr() net.Addr              { return &net.TCPAddr{IP: net.IPv4(127, 0, 0, 1), Port: 25565} }
func (fakeConn) RemoteAddr() net.Addr             { return &net.TCPAddr{IP: net.IPv4(127, 0, 0, 1), Port: 54321} }
func (fakeConn) SetDeadline(time.Time) error      { return nil }
func (fakeConn) SetReadDeadline(time.Time) error  { return nil }
func (fakeConn) SetWriteDeadline(time.Time) error { return nil }

func readFrame(c net.Conn) error {
	n, err := util.ReadVarInt(c)
	if err != nil {
		return err
	}
	_, err = io.CopyN(io.Discard, c, int64(n))
	return err
}

// statusServer answers every connection's status request with a description naming the server.
func statusServer(name string) (addr string, hits *atomic.Int64, stop func()) {
	return statusServerAt("127.0.0.1:0", name)
}

func deadAddr() string {
	ln, err := net.Listen("tcp", "127.0.0.1:0")
	if err != nil {
		panic(err)
	}
	a := ln.Addr().String()
	_ = ln.Close()
	return a
}

func resolveOnce(routes []config.Route, host string, routeGen uint64) (string, error) {
	hs := &packet.Handshake{ProtocolVersion: 765, ServerAddress: host, Port: 25565, NextStatus: 1}
	var hb bytes.Buffer
	_ = util.WriteVarInt(&hb, 0)
	hctx := &proto.PacketContext{Direction: proto.ServerBound, Protocol: 765, PacketID: 0}
	_ = hs.Encode(hctx, &hb)
	hctx.Payload = hb.Bytes()
	sctx := &proto.PacketContext{Direction: proto.ServerBound, Protocol: 765, PacketID: 0, Payload: []byte{0}}
	ctx, cancel := context.WithTimeout(context.Background(), 10*time.Second)
	defer cancel()
	_, res, err := lite.ResolveStatusResponseWithGeneration(2*time.Second, routeGen, routes, logr.Discard(),
		stubClient{conn: fakeConn{}, ctx: ctx}, hs, hctx, sctx, lite.NewStrategyManager())
	if err != nil || res == nil {
		if err == nil {
			err = errors.New("nil response")
		}
		return "", err
	}
	return res.Status, nil
}

func classify(status string, err error, names []string) string {
	if err != nil {
		return "AError"
	}
	if strings.Contains(status, "verif-fallback") {
		return "AFallback"
	}
	for i, n := range names {
		if strings.Contains(status, `"`+n+`"`) {
			return lib.App("AStatus", lib.N(uint64(i)))
		}
	}
	return lib.App("AStatus", lib.N(99))
}

func runResolve(out *lib.Out, r *lib.Rng, idx int) {
	nb := r.Range(1, 3)
	oks := make([]bool, nb)
	names := make([]string, nb)
	var backends []string
	var stops []func()
	for j := 0; j < nb; j++ {
		oks[j] = r.Chance(2, 5)
		names[j] = fmt.Sprintf("verif-backend-%d-%d", idx, j)
		if oks[j] {
			a, _, stop := statusServer(names[j])
			backends = append(backends, a)
			stops = append(stops, stop)
		} else {
			backends = append(backends, deadAddr())
		}
	}
	defer func() {
		for _, s := range stops {
			s()
		}
	}()
	fb := r.Chance(3, 5)
	cached := r.Bool()
	route := config.Route{Host: []string{"ping.test"}, Backend: backends}
	if !cached {
		route.CachePingTTL = -1
	}
	if fb {
		route.Fallback = &config.Status{Version: ping.Version{Name: "verif-fallback", Protocol: 765}}
	}
	lite.ResetPingCache()
	status, err := resolveOnce([]config.Route{route}, "ping.test", uint64(idx))
	obs := classify(status, err, names)
	out.Add(lib.App("CResolve", lib.ListOf(oks, lib.Bool), lib.Bool(fb), obs),
		map[string]any{"kind": "resolve", "backends_up": oks, "fallback": fb, "cache": cached, "observed": obs},
		nb >= 2, "kind=resolve", "answer="+strings.Fields(strings.Trim(obs, "()"))[0])
}

// runReload: the public path of the property - cached within the TTL, fresh after ResetPingCache.
func runReload(out *lib.Out, idx int) {
	nameA, nameB := fmt.Sprintf("verif-old-%d", idx), fmt.Sprintf("verif-new-%d", idx)
	addrA, hitsA, stopA := statusServer(nameA)
	routes := []config.Route{{Host: []string{"reload.test"}, Backend: []string{addrA}}}
	lite.ResetPingCache()
	s1, e1 := resolveOnce(routes, "reload.test", 7)
	s2, e2 := resolveOnce(routes, "reload.test", 7)
	hitsBefore := hitsA.Load()
	stopA()
	// the same address now answers differently: a new server on the same port
	addrB, _, stopB := statusServerAt(addrA, nameB)
	defer stopB()
	s3, e3 := resolveOnce(routes, "reload.test", 7) // within TTL: still the cached old status
	lite.ResetPingCache()
	s4, e4 := resolveOnce(routes, "reload.test", 7) // after the reset: must be the new one
	ok := e1 == nil && e2 == nil && e3 == nil && e4 == nil && addrB == addrA &&
		strings.Contains(s1, nameA) && strings.Contains(s2, nameA) && hitsBefore == 1 &&
		strings.Contains(s3, nameA) && strings.Contains(s4, nameB)
	out.Tag("kind=reload")
	if !ok {
		out.GoViolation(map[string]any{"known": nil, "what": "public path: status must be cached within the TTL (one backend request for two pings) and fresh after ResetPingCache",
			"first": s1, "second": s2, "backend_requests_before_reset": hitsBefore, "within_ttl_after_backend_changed": s3, "after_reset": s4,
			"errors": fmt.Sprint(e1, e2, e3, e4), "same_port": addrB == addrA})
	}
}

// runRealTTL: both clocks are the real one (production wiring): a second load within the TTL is
// served from the cache, one after the TTL fetches again.
func runRealTTL(out *lib.Out) {
	cache := lite.VerifNewPingCacheC32(time.Now, new(singleflight.Group))
	n := 0
	load := func() (string, error) { n++; return "s" + strconv.Itoa(n), nil }
	const ttl = 1500 * time.Millisecond
	a, _ := cache.Load("a:25565", 765, 1, ttl, load)
	b, _ := cache.Load("a:25565", 765, 1, ttl, load)
	time.Sleep(ttl + 400*time.Millisecond)
	c, _ := cache.Load("a:25565", 765, 1, ttl, load)
	out.Tag("kind=real-ttl")
	if a != "s1" || b != "s1" || c != "s2" {
		out.GoViolation(map[string]any{"known": nil, "what": "real clock: cached for the TTL (1.5s), fetched again after it", "first": a, "within_ttl": b, "after_ttl": c})
	}
}

func statusFrame(js string) []byte {
	var body bytes.Buffer
	_ = util.WriteVarInt(&body, 0)
	_ = util.WriteString(&body, js)
	var frame bytes.Buffer
	_ = util.WriteVarInt(&frame, body.Len())
	frame.Write(body.Bytes())
	return frame.Bytes()
}

func statusServerAt(addr, name string) (string, *atomic.Int64, func()) {
	var ln net.Listener
	var err error
	for i := 0; i < 50; i++ {
		ln, err = net.Listen("tcp", addr)
		if err == nil {
			break
		}
		time.Sleep(20 * time.Millisecond)
	}
	if err != nil {
		return "", new(atomic.Int64), func() {}
	}
	hits := new(atomic.Int64)
	go func() {
		for {
			c, err := ln.Accept()
			if err != nil {
				return
			}
			go func() {
				defer c.Close()
				_ = c.SetDeadline(time.Now().Add(5 * time.Second))
				if readFrame(c) != nil || readFrame(c) != nil {
					return
				}
				hits.Add(1)
				js := `{"version":{"name":"` + name + `","protocol":765},"players":{"max":1,"online":0},"description":{"text":"` + name + `"}}`
				var body bytes.Buffer
				_ = util.WriteVarInt(&body, 0)
				_ = util.WriteString(&body, js)
				var frame bytes.Buffer
				_ = util.WriteVarInt(&frame, body.Len())
				frame.Write(body.Bytes())
				_, _ = c.Write(frame.Bytes())
			}()
		}
	}()
	return ln.Addr().String(), hits, func() { _ = ln.Close() }
}

func main() {
	f := lib.ParseFlags()
	rng := lib.NewRng(f.Seed)
	out := lib.NewOut("C32", f)
	out.Imports = "From Verif Require Import Model.PingCache.\n"
	out.Rule = "sched: PRNG scripts of 6-18 atomic steps (38% new request over 4 keys = backend x protocol x route generation with ttl 3/5/9 units, 20% a parked request passes DoChan, 20% a running loader returns (25% of them an error), 8% reset, 9% clock +2/4/6 units, 5% fast-path get) realised step by step on a real pingStatusCache with a gated real singleflight.Group, then drained; free: 4 goroutines x 4 loads racing 1-3 resets on a real cache, predicate evaluated on the history; resolve: 1-3 loopback backends up (40%) or down, fallback configured (60%), cache on/off; reload: cached within TTL, fresh after ResetPingCache over the public API; real-ttl: production clock wiring, ttl 1.5s; reload-field: for every exported field of lite/config.Route (reflection; on the pinged route and on a second route) and every field below Route.Fallback: ping, real Proxy.ApplyLiveConfig with a configuration differing in exactly that field, ping - plus two unchanged controls; distinct = distinct Coq term; non-trivial = a schedule in which some request was answered with another request's fetch (cache hit or shared flight), or a resolve over >=2 backends"

	// fixed corpus: reset while a fetch is in flight, then a request after the reset
	runSched(out, rng.Fork(), func(s *sched, r *lib.Rng) {
		k := keyPool[0]
		s.cs1(0, k, 3)
		s.dochan(0)
		s.reset()
		s.cs1(1, k, 3)
		s.dochan(1)
		s.complete(0, true) // old generation: must not be stored
		s.cs1(2, k, 3)      // joins request 1's flight, not the old value
		s.dochan(2)
		s.complete(1, true)
		s.cs1(3, k, 3) // cache hit on the new value
		s.tick(4)
		s.cs1(4, k, 3) // expired
	})
	// CS2: the flight finished between a request's CS1 and its DoChan
	runSched(out, rng.Fork(), func(s *sched, r *lib.Rng) {
		k := keyPool[0]
		s.cs1(0, k, 5)
		s.dochan(0)
		s.cs1(1, k, 5)
		s.complete(0, true)
		s.dochan(1)
		s.get(2, k)
		s.get(3, keyPool[3])
	})
	n := f.Count(260)
	for i := 0; i < n; i++ {
		runSched(out, rng.Fork(), randomScript)
	}
	m := f.Count(20)
	for i := 0; i < m; i++ {
		runFree(out, rng.Fork())
	}
	k := f.Count(30)
	for i := 0; i < k; i++ {
		runResolve(out, rng.Fork(), i)
	}
	for i := 0; i < 2; i++ {
		runReload(out, i)
	}
	runReloadFamily(out, rng.Fork())
	runRealTTL(out)
	out.Finish()
}
