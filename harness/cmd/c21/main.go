// C21 harness: feeds generated client histories (chat, signed/unsigned-argument session commands,
// UnsignedPlayerCommands, ChatAcknowledgements) through the real clientPlaySessionHandler.HandlePacket
// of a real player (real chatQueue/ChatState, real command.Manager and event manager) over a
// recording backend connection. Command outcomes are scripted through the CommandExecuteEvent
// subscriber and registered commands; subscribers, executors and the backend's WritePacket sleep
// PRNG-chosen amounts and the feeder pauses at PRNG-chosen points, which shifts how the read loop
// interleaves with the queue's asynchronous stages. Observed: packet kinds, tags and offsets in
// backend order, ChatState.delayedAckCount when idle, disconnect. The Coq side (Check/C21.v) judges.
package main

import (
	"fmt"
	"os"
	"strconv"
	"strings"
	"time"

	"github.com/robinbraemer/event"
	"go.minekube.com/brigodier"

	"go.minekube.com/gate/pkg/command"
	"go.minekube.com/gate/pkg/edition/java/config"
	"go.minekube.com/gate/pkg/edition/java/profile"
	"go.minekube.com/gate/pkg/edition/java/proto/packet/chat"
	"go.minekube.com/gate/pkg/edition/java/proto/version"
	"go.minekube.com/gate/pkg/edition/java/proxy"
	"go.minekube.com/gate/pkg/gate/proto"
	"go.minekube.com/gate/pkg/util/permission"
	"go.minekube.com/gate/pkg/util/uuid"

	"verifharness/c2xfix"
	"verifharness/lib"
)

const sentinel = "zzsentinelzz"

type opKind int

const (
	kChat opKind = iota
	kCmd
	kUCmd
	kAck
)

// outcome classes of the model and the way the harness brings them about
const (
	oForward  = iota // event SetForward(true), command unchanged
	oUnknown         // allowed, not a proxy command: forwarded unchanged (model: OForward)
	oRewriteF        // event SetCommand(other) + SetForward(true) (model: ORewrite)
	oRewriteU        // event SetCommand(other), other unknown to the proxy (model: ORewrite)
	oRan             // registered proxy command runs (model: OConsumed)
	oSyntax          // registered proxy command, surplus argument: syntax error (model: OConsumed)
	oDenied          // event SetAllowed(false)
)

var outcomeCoq = []string{"OForward", "OForward", "ORewrite", "ORewrite", "OConsumed", "OConsumed", "ODenied"}
var outcomeName = []string{"forward", "unknown", "rewrite+forward", "rewrite-unknown", "ran", "syntax-error", "denied"}

type op struct {
	kind     opKind
	id       int
	off      int
	modified bool // chat
	signed   bool // cmd
	outcome  int
	dEvent   time.Duration // sleep inside the event subscriber (read loop)
	dExec    time.Duration // sleep inside the proxy command executor (queue stage)
	dWrite   time.Duration // sleep inside the backend's WritePacket (queue stage)
	dFeed    time.Duration // pause of the read loop before this packet
}

func (o *op) coq() string {
	switch o.kind {
	case kChat:
		return lib.App("Chat", lib.N(uint64(o.id)), lib.N(uint64(o.off)), lib.Bool(o.modified))
	case kCmd:
		return lib.App("Cmd", lib.N(uint64(o.id)), lib.N(uint64(o.off)), lib.Bool(o.signed), outcomeCoq[o.outcome])
	case kUCmd:
		return lib.App("UCmd", lib.N(uint64(o.id)), outcomeCoq[o.outcome])
	}
	return lib.App("Ack", lib.N(uint64(o.off)))
}

func (o *op) desc() string {
	switch o.kind {
	case kChat:
		return fmt.Sprintf("chat#%d(off=%d,modified=%v)", o.id, o.off, o.modified)
	case kCmd:
		return fmt.Sprintf("cmd#%d(off=%d,signed=%v,%s)", o.id, o.off, o.signed, outcomeName[o.outcome])
	case kUCmd:
		return fmt.Sprintf("ucmd#%d(%s)", o.id, outcomeName[o.outcome])
	}
	return fmt.Sprintf("ack(%d)", o.off)
}

// command line of a command op: the first letter selects the scripted outcome
func (o *op) line() string {
	id := strconv.Itoa(o.id)
	switch o.outcome {
	case oForward:
		return "f" + id
	case oUnknown:
		return "u" + id
	case oRewriteF:
		return "w" + id
	case oRewriteU:
		return "v" + id
	case oRan:
		return "x " + id
	case oSyntax:
		return "x " + id + " surplus"
	}
	return "d" + id
}

// id carried by a text the backend received
func tagOf(s string) (int, bool) {
	s = strings.TrimPrefix(s, "x ")
	if len(s) < 2 {
		return 0, false
	}
	v, err := strconv.Atoi(s[1:])
	return v, err == nil
}

type hist struct {
	fka   bool
	p1205 bool
	ops   []*op
	kind  string
}

func micros(r *lib.Rng, max int) time.Duration {
	if r.Chance(1, 2) {
		return 0
	}
	return time.Duration(r.Intn(max)) * time.Microsecond
}

func genHist(r *lib.Rng, kind string) *hist {
	h := &hist{fka: r.Chance(1, 4), p1205: r.Bool(), kind: kind}
	n := r.Pick(1, 3, 6, 10, 16, 24)
	// probability (percent) of the two defect-triggering shapes per command
	pSignedConsumed, pRewrite := 0, 0
	switch kind {
	case "clean":
	case "mixed":
		pSignedConsumed, pRewrite = 8, 8
	case "ack-heavy":
		pSignedConsumed, pRewrite = 3, 3
	}
	id := 0
	for i := 0; i < n; i++ {
		o := &op{dEvent: micros(r, 300), dExec: micros(r, 600), dWrite: micros(r, 300), dFeed: micros(r, 400)}
		x := r.Intn(100)
		ackShare := 35
		if kind == "ack-heavy" {
			ackShare = 70
		}
		switch {
		case x < ackShare:
			o.kind = kAck
			o.off = r.Pick(0, 1, 1, 1, 2, 3, 5, 8, 19, 20, 21, 39, 40, 45)
			if kind == "ack-heavy" {
				o.off = r.Pick(1, 1, 2, 3, 7, 10, 19, 20)
			}
		case x < ackShare+15:
			id++
			o.kind, o.id = kChat, id
			o.off = r.Pick(0, 0, 1, 2, 4, 7)
			o.modified = r.Chance(1, 4)
		case x < ackShare+25 && h.p1205:
			id++
			o.kind, o.id = kUCmd, id
			o.outcome = r.Pick(oForward, oUnknown, oUnknown, oRewriteF, oRewriteU, oRan, oRan, oSyntax, oDenied)
		default:
			id++
			o.kind, o.id = kCmd, id
			o.off = r.Pick(0, 0, 1, 2, 3, 6)
			y := r.Intn(100)
			switch {
			case y < pSignedConsumed:
				o.signed = true
				o.outcome = r.Pick(oRan, oSyntax, oDenied, oDenied)
			case y < pSignedConsumed+pRewrite:
				o.signed = r.Chance(1, 4)
				o.outcome = r.Pick(oRewriteF, oRewriteU)
			default:
				o.signed = r.Chance(1, 3)
				if o.signed {
					o.outcome = r.Pick(oForward, oUnknown, oUnknown)
				} else {
					o.outcome = r.Pick(oForward, oUnknown, oUnknown, oRan, oRan, oSyntax, oDenied)
				}
			}
		}
		h.ops = append(h.ops, o)
		// a signed command that is consumed or rewritten disconnects the player under
		// ForceKeyAuthentication: the read loop ends there, so the history does too
		if h.fka && o.kind == kCmd && o.signed && o.outcome != oForward && o.outcome != oUnknown {
			break
		}
	}
	return h
}

type obs struct {
	out     []string
	outDesc []string
	delayed int32
	disc    bool
	hang    bool
}

func runHist(h *hist) obs {
	cfg := config.DefaultConfig
	cfg.ForceKeyAuthentication = h.fka
	byLine := map[string]*op{}
	byMsg := map[string]*op{}
	for _, o := range h.ops {
		switch o.kind {
		case kCmd, kUCmd:
			byLine[o.line()] = o
		case kChat:
			byMsg["m"+strconv.Itoa(o.id)] = o
		}
	}
	mgr := event.New()
	event.Subscribe(mgr, 0, func(e *proxy.CommandExecuteEvent) {
		o := byLine[e.Command()]
		if o == nil {
			return
		}
		time.Sleep(o.dEvent)
		switch o.outcome {
		case oForward:
			e.SetForward(true)
		case oRewriteF:
			e.SetCommand("r" + strconv.Itoa(o.id))
			e.SetForward(true)
		case oRewriteU:
			e.SetCommand("r" + strconv.Itoa(o.id))
		case oDenied:
			e.SetAllowed(false)
		}
	})
	event.Subscribe(mgr, 0, func(e *proxy.PlayerChatEvent) {
		o := byMsg[e.Original()]
		if o == nil {
			return
		}
		time.Sleep(o.dEvent)
		if o.modified {
			e.SetMessage("M" + strconv.Itoa(o.id))
		}
	})
	p, err := proxy.New(proxy.Options{Config: &cfg, EventMgr: mgr})
	if err != nil {
		fmt.Fprintln(os.Stderr, "proxy.New:", err)
		os.Exit(2)
	}
	byID := map[int]*op{}
	for _, o := range h.ops {
		if o.kind != kAck {
			byID[o.id] = o
		}
	}
	p.Command().Register(brigodier.Literal("x").Then(brigodier.Argument("n", brigodier.Int).Executes(command.Command(func(c *command.Context) error {
		if o := byID[c.Int("n")]; o != nil {
			time.Sleep(o.dExec)
		}
		return nil
	}))))
	protocol := version.Minecraft_1_20_3.Protocol
	if h.p1205 {
		protocol = version.Minecraft_1_21_5.Protocol
	}
	client, backend := c2xfix.NewConn(protocol), c2xfix.NewConn(protocol)
	backend.Delay = func(pk proto.Packet) {
		var txt string
		switch t := pk.(type) {
		case *chat.SessionPlayerChat:
			txt = t.Message
		case *chat.SessionPlayerCommand:
			txt = t.Command
		case *chat.UnsignedPlayerCommand:
			txt = t.Command
		}
		if id, ok := tagOf(txt); ok {
			if o := byID[id]; o != nil {
				time.Sleep(o.dWrite)
			}
		}
	}
	hd := proxy.VerifC21NewClientPlayHandler(p, client, backend, &profile.GameProfile{ID: uuid.New(), Name: "verif"},
		func(string) permission.TriState { return permission.Undefined })
	send := func(pk proto.Packet) {
		hd.HandlePacket(&proto.PacketContext{Protocol: protocol, Packet: pk, Direction: proto.ServerBound})
	}
	for _, o := range h.ops {
		if o.dFeed > 0 {
			time.Sleep(o.dFeed)
		}
		switch o.kind {
		case kAck:
			send(&chat.ChatAcknowledgement{Offset: o.off})
		case kChat:
			send(&chat.SessionPlayerChat{Message: "m" + strconv.Itoa(o.id), LastSeenMessages: chat.LastSeenMessages{Offset: o.off}})
		case kCmd:
			sp := &chat.SessionPlayerCommand{Command: o.line(), LastSeenMessages: chat.LastSeenMessages{Offset: o.off}}
			if o.signed {
				sp.ArgumentSignatures.Entries = []chat.ArgumentSignature{{Name: "n", Signature: make([]byte, 256)}}
			}
			send(sp)
		case kUCmd:
			send(&chat.UnsignedPlayerCommand{SessionPlayerCommand: chat.SessionPlayerCommand{Command: o.line()}})
		}
	}
	// the queue is idle once a trailing UnsignedPlayerCommand (no last-seen update, unknown to the
	// proxy: forwarded without touching ChatState) has reached the backend
	send(&chat.UnsignedPlayerCommand{SessionPlayerCommand: chat.SessionPlayerCommand{Command: sentinel}})
	var res obs
	deadline := time.Now().Add(20 * time.Second)
	var written []proto.Packet
	for {
		written = backend.Written()
		if n := len(written); n > 0 {
			if u, ok := written[n-1].(*chat.UnsignedPlayerCommand); ok && u.Command == sentinel {
				written = written[:n-1]
				break
			}
		}
		if time.Now().After(deadline) {
			res.hang = true
			break
		}
		time.Sleep(100 * time.Microsecond)
	}
	for _, pk := range written {
		var t, d string
		switch x := pk.(type) {
		case *chat.SessionPlayerChat:
			if id, ok := tagOf(x.Message); ok {
				t = lib.App("PChat", lib.N(uint64(id)), lib.N(uint64(x.LastSeenMessages.Offset)))
			}
			d = fmt.Sprintf("chat %q off=%d", x.Message, x.LastSeenMessages.Offset)
		case *chat.SessionPlayerCommand:
			if id, ok := tagOf(x.Command); ok {
				t = lib.App("PCmd", lib.N(uint64(id)), lib.N(uint64(x.LastSeenMessages.Offset)))
			}
			d = fmt.Sprintf("cmd %q off=%d", x.Command, x.LastSeenMessages.Offset)
		case *chat.UnsignedPlayerCommand:
			if id, ok := tagOf(x.Command); ok {
				t = lib.App("PUCmd", lib.N(uint64(id)))
			}
			d = fmt.Sprintf("ucmd %q", x.Command)
		case *chat.ChatAcknowledgement:
			if x.Offset >= 0 {
				t = lib.App("PAck", lib.N(uint64(x.Offset)))
			}
			d = fmt.Sprintf("ack %d", x.Offset)
		default:
			d = fmt.Sprintf("%T", pk)
		}
		if t == "" {
			t = "POther"
		}
		res.out = append(res.out, t)
		res.outDesc = append(res.outDesc, d)
	}
	res.delayed = proxy.VerifC21DelayedAckCount(hd)
	res.disc = client.IsClosed()
	return res
}

func main() {
	f := lib.ParseFlags()
	rng := lib.NewRng(f.Seed)
	out := lib.NewOut("C21", f)
	out.Imports = "From Verif Require Import Model.ChatQueue.\n"
	out.Rule = "per case one client history of 1-24 packets for a 1.20.3 or 1.21.5 player with ForceKeyAuthentication on (25%) or off: ChatAcknowledgement(offset from {0,1,2,3,5,8,19,20,21,39,40,45}), SessionPlayerChat (offset 0-7, 25% rewritten by the PlayerChatEvent), SessionPlayerCommand (offset 0-6, with/without argument signatures; outcome forward / unknown-to-proxy / rewrite+forward / rewrite-to-unknown / ran on proxy / syntax error / denied) and, for 1.21.5, UnsignedPlayerCommand with the same outcomes; three streams: clean (no signed-consumed and no rewritten session command: today's code must equal the repaired model), mixed (8% each per command), ack-heavy (70% acknowledgements, so the 40-threshold flush is crossed repeatedly). Event subscribers (read loop), proxy executors and backend writes (queue stages) sleep 0-600us chosen by the PRNG per packet and the feeder pauses 0-400us at PRNG-chosen packets. distinct = distinct Coq case term; non-trivial = the history holds at least one acknowledgement and one packet with a last-seen update"
	n := f.Count(300)
	for i := 0; i < n; i++ {
		kind := []string{"clean", "clean", "mixed", "mixed", "ack-heavy"}[i%5]
		h := genHist(rng.Fork(), kind)
		o := runHist(h)
		if o.hang {
			out.GoViolation(map[string]any{"known": nil, "index": -1, "what": "chat queue never delivered the trailing sentinel command within 20s (a queued task never completed)",
				"history": lib.ListOf(h.ops, func(x *op) string { return x.desc() })})
		}
		d := o.delayed
		if d < 0 {
			d = 0
		}
		term := lib.App("Check.C21.mk", lib.App("mkCfg", lib.Bool(h.fka), lib.Bool(h.p1205)),
			lib.ListOf(h.ops, func(x *op) string { return x.coq() }), lib.List(o.out), lib.N(uint64(d)), lib.Bool(o.disc))
		var hd []string
		acks, carriers, signedConsumed, rewrites := 0, 0, 0, 0
		for _, x := range h.ops {
			hd = append(hd, x.desc())
			switch x.kind {
			case kAck:
				acks++
			case kChat:
				carriers++
			case kCmd:
				carriers++
				if x.signed && x.outcome >= oRan {
					signedConsumed++
				}
				if x.outcome == oRewriteF || x.outcome == oRewriteU {
					rewrites++
				}
			}
		}
		ln := "len<=6"
		if len(h.ops) > 16 {
			ln = "len>16"
		} else if len(h.ops) > 6 {
			ln = "len<=16"
		}
		out.Add(term, map[string]any{"forceKeyAuthentication": h.fka, "protocol_ge_1_20_5": h.p1205, "history": hd,
			"observed_backend": o.outDesc, "observed_delayedAckCount": o.delayed, "observed_disconnected": o.disc},
			acks > 0 && carriers > 0,
			"stream="+kind, ln, fmt.Sprintf("fka=%v", h.fka), fmt.Sprintf("p1205=%v", h.p1205),
			fmt.Sprintf("signed_consumed=%v", signedConsumed > 0), fmt.Sprintf("rewritten=%v", rewrites > 0),
			fmt.Sprintf("disconnected=%v", o.disc), fmt.Sprintf("flushed_ack=%v", strings.Contains(strings.Join(o.outDesc, ";"), "ack ")))
	}
	out.Finish()
}
