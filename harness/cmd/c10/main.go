// C10 harness. (1) uuid.OfflinePlayerUUID on generated names; (2) names sent through the real login
// path of an offline-mode proxy (public API, fake client): admitted or not, and the identity that
// login success announces.
package main

import (
	"bytes"
	"fmt"
	"strings"
	"unicode/utf8"

	"go.minekube.com/gate/pkg/edition/java/config"
	"go.minekube.com/gate/pkg/util/uuid"

	"verifharness/e2e"
	"verifharness/lib"
)

type loginPlan struct {
	Name       []byte
	Protocol   int
	Forwarding config.ForwardingMode
	Threshold  int
	Kind       string
}

type loginRes struct {
	Term, Desc string
	Err        string
}

func runLogin(pl loginPlan) loginRes {
	cfg := e2e.Config()
	cfg.OnlineMode = false
	cfg.Forwarding.Mode = pl.Forwarding
	cfg.Compression.Threshold = pl.Threshold
	p, err := e2e.NewProxy(cfg, nil, nil)
	if err != nil {
		return loginRes{Err: "proxy.New: " + err.Error()}
	}
	c := e2e.Dial(p, pl.Protocol)
	defer c.Close()
	_ = c.SendHandshake("play.example.org", 25565, 2)
	_ = c.Send(e2e.IDLoginStart, e2e.LoginStart(pl.Protocol, pl.Name, [16]byte{0xaa, 1, 2, 3}))
	r := c.Settle()
	if r.Hung {
		return loginRes{Err: "proxy neither idle nor closed after login start"}
	}
	if r.Garbled != "" {
		return loginRes{Term: "Unexpected", Desc: "garbled: " + r.Garbled}
	}
	pk := r.Packets
	// optional SetCompression first
	if len(pk) > 0 && pk[0].ID == e2e.IDSetCompression {
		t, err := e2e.ParseSetCompression(pk[0].Body)
		if err != nil || t != pl.Threshold || pl.Threshold < 0 || pl.Protocol < e2e.P1_8 {
			return loginRes{Term: "Unexpected", Desc: fmt.Sprintf("unexpected SetCompression %v %v", t, err)}
		}
		pk = pk[1:]
	} else if pl.Threshold >= 0 && pl.Protocol >= e2e.P1_8 && len(pk) > 0 && pk[0].ID == e2e.IDLoginSuccess {
		return loginRes{Term: "Unexpected", Desc: "login success without SetCompression"}
	}
	switch {
	case len(pk) == 0 && r.Closed:
		return loginRes{Term: "ClosedSilently", Desc: "closed without a packet"}
	case len(pk) == 1 && pk[0].ID == e2e.IDLoginDisconnect && r.Closed:
		reason, _ := e2e.ParseString(pk[0].Body)
		return loginRes{Term: "Disconnected", Desc: "disconnect: " + reason}
	case len(pk) >= 1 && pk[0].ID == e2e.IDLoginSuccess:
		s, err := e2e.ParseLoginSuccess(pl.Protocol, pk[0].Body)
		if err != nil {
			return loginRes{Term: "Unexpected", Desc: "unparsable login success: " + err.Error()}
		}
		// before 1.20.2 the proxy moves on to play and (no servers) disconnects; from 1.20.2 on it waits
		if pl.Protocol < e2e.P1_20_2 && !(len(pk) == 2 && r.Closed) {
			return loginRes{Term: "Unexpected", Desc: fmt.Sprintf("after login success: %d packets, closed=%v", len(pk)-1, r.Closed)}
		}
		if pl.Protocol >= e2e.P1_20_2 && !(len(pk) == 1 && !r.Closed) {
			return loginRes{Term: "Unexpected", Desc: fmt.Sprintf("after login success: %d packets, closed=%v", len(pk)-1, r.Closed)}
		}
		if pl.Protocol >= e2e.P1_20_2 && p.PlayerByName(s.Username) == nil {
			return loginRes{Term: "Unexpected", Desc: "login success sent but player not registered"}
		}
		return loginRes{Term: lib.App("Accepted", lib.Bytes(s.UUID[:]), lib.Str(s.Username)),
			Desc: fmt.Sprintf("accepted uuid=%x name=%q", s.UUID, s.Username)}
	default:
		var ids []string
		for _, x := range pk {
			ids = append(ids, fmt.Sprint(x.ID))
		}
		return loginRes{Term: "Unexpected", Desc: fmt.Sprintf("packets %s closed=%v", strings.Join(ids, ","), r.Closed)}
	}
}

func main() {
	f := lib.ParseFlags()
	rng := lib.NewRng(f.Seed)
	out := lib.NewOut("C10", f)
	out.Imports = "From Verif Require Import Model.OfflineId.\n"
	out.Rule = "uuid: the real uuid.OfflinePlayerUUID on valid names, printable ASCII, multi-byte UTF-8, invalid UTF-8, empty, lengths around the MD5 block boundaries (41,42,49,50 bytes + 14 prefix) and 1 KiB names; login: ALL strings of length <= 2 over the 12 symbols {a Z 0 _ - space \\n NUL e-acute . DEL 0xff} (157), boundary lengths 1,2,15,16,17,64,65 of valid characters and of one invalid character at the start/middle/end, 16 multi-byte runes, every one of 43 confusable code points (Kelvin sign, long s, dotted/dotless i, fullwidth, Latin-1, combining marks, Greek/Cyrillic look-alikes, ...) at every position of a valid 3-letter name plus whole confusable names, random names; protocols 1.8/1.12.2/1.20.1/1.20.2/26.2, forwarding none/legacy, compression on/off; non-trivial = uuid case with a non-empty name, or login case whose name has length >= 2; distinct = distinct Coq term"

	// ---- (1) direct uuid calls --------------------------------------------------------------------
	type ucase struct {
		name []byte
		kind string
	}
	var us []ucase
	validAlpha := "abcdefghijklmnopqrstuvwxyzABCDEFGHIJKLMNOPQRSTUVWXYZ0123456789_"
	us = append(us, ucase{[]byte{}, "empty"}, ucase{[]byte("Notch"), "valid"}, ucase{[]byte("jeb_"), "valid"})
	for _, n := range []int{41, 42, 49, 50, 105, 106} { // 14+n = 55,56,63,64,119,120: padding boundaries
		us = append(us, ucase{[]byte(rng.StringOver(validAlpha, n)), "block-boundary"})
	}
	nu := f.Count(70)
	for i := 0; i < nu; i++ {
		switch i % 5 {
		case 0, 1:
			us = append(us, ucase{[]byte(rng.StringOver(validAlpha, rng.Range(2, 16))), "valid"})
		case 2:
			n := rng.Range(1, 40)
			b := make([]byte, n)
			for j := range b {
				b[j] = byte(rng.Range(32, 126))
			}
			us = append(us, ucase{b, "ascii"})
		case 3:
			us = append(us, ucase{[]byte(rng.StringOver("äöüßéèñ中文日本語🙂Ωж_aZ9", rng.Range(1, 20))), "multibyte"})
		default:
			us = append(us, ucase{rng.Bytes(rng.Range(1, 48)), "raw-bytes"})
		}
	}
	// 1 KiB names (17 MD5 blocks each): spread over the list so that they land in different shards
	for i := 0; i < f.Count(2); i++ {
		big := ucase{[]byte(rng.StringOver(validAlpha+" é", 1024)), "1KiB"}
		at := (i*37 + 11) % len(us)
		us = append(us[:at], append([]ucase{big}, us[at:]...)...)
	}
	for _, u := range us {
		id := uuid.OfflinePlayerUUID(string(u.name))
		tags := []string{"case=uuid", "uuid=" + u.kind}
		if !utf8.Valid(u.name) {
			tags = append(tags, "uuid-invalid-utf8")
		}
		out.Add(lib.App("Check.C10.mk", lib.Bytes(u.name), lib.App("KUuid", lib.Bytes(id[:]))),
			map[string]any{"kind": "uuid", "name_hex": fmt.Sprintf("%x", u.name), "class": u.kind, "observed": id.String()},
			len(u.name) > 0, tags...)
	}

	// ---- (2) names through the login path ---------------------------------------------------------
	symbols := [][]byte{[]byte("a"), []byte("Z"), []byte("0"), []byte("_"), []byte("-"), []byte(" "), []byte("\n"), {0},
		[]byte("é"), []byte("."), {0x7f}, {0xff}}
	protos := []int{e2e.P1_8, 340, e2e.P1_20_1, e2e.P1_20_2, e2e.P26_2}
	var plans []loginPlan
	add := func(name []byte, kind string) {
		i := len(plans)
		fw := config.NoneForwardingMode
		if i%3 == 2 {
			fw = config.LegacyForwardingMode
		}
		th := 256
		if i%4 == 3 {
			th = -1
		}
		plans = append(plans, loginPlan{Name: name, Protocol: protos[i%len(protos)], Forwarding: fw, Threshold: th, Kind: kind})
	}
	add([]byte{}, "exhaustive")
	for _, a := range symbols {
		add(a, "exhaustive")
	}
	for _, a := range symbols {
		for _, b := range symbols {
			add(append(append([]byte{}, a...), b...), "exhaustive")
		}
	}
	for _, n := range []int{1, 2, 15, 16, 17, 64, 65} {
		add(bytes.Repeat([]byte("x"), n), "boundary-valid")
		add([]byte(rng.StringOver(validAlpha, n)), "boundary-valid")
		for _, bad := range []byte{'-', '\n', 0, 0xc3} {
			for _, pos := range []int{0, n / 2, n - 1} {
				b := []byte(rng.StringOver(validAlpha, n))
				b[pos] = bad
				add(b, "boundary-one-invalid")
			}
		}
	}
	add([]byte(strings.Repeat("é", 16)), "multibyte-16-runes")
	add([]byte(strings.Repeat("é", 8)), "multibyte-8-runes")
	add([]byte("Notch\n"), "trailing-newline")
	add([]byte("\nNotch"), "leading-newline")
	add([]byte("Not ch"), "space")
	// code points that case-fold, normalise or merely look like ASCII letters/digits/underscore: every
	// one at every position of a valid 3-letter name, plus a few whole names (raw UTF-8 bytes travel)
	confusable := []rune{0x212A, 0x017F, 0x0130, 0x0131, 0x212B, 0x2126, 0x01C5,
		0xFF21, 0xFF3A, 0xFF41, 0xFF5A, 0xFF10, 0xFF19, 0xFF3F,
		0x00C0, 0x00E9, 0x00DF, 0x00FF, 0x00B5, 0x00AA, 0x00BA, 0x00B2,
		0x0301, 0x0308, 0x0327, 0x200D, 0x200B, 0x00AD, 0xFEFF,
		0x0391, 0x039A, 0x03BF, 0x0430, 0x0435, 0x043E, 0x041A, 0x0441,
		0x2460, 0x2160, 0xFE4D, 0x203F, 0x1D400, 0x1D7CE}
	bases := []string{"ksi", "KSI", "a0_"}
	for ci, cp := range confusable {
		base := []rune(bases[ci%len(bases)])
		for pos := 0; pos < 3; pos++ {
			r := append([]rune{}, base...)
			r[pos] = cp
			add([]byte(string(r)), "confusable-replace")
		}
	}
	for _, cp := range []rune{0x0301, 0x0308, 0x0327, 0x200D, 0x20DD} { // combining mark after an ASCII letter
		add([]byte("St"+string(cp)+"eve"), "confusable-combining")
	}
	add([]byte("\u212Aevin"), "confusable-name")
	add([]byte("\u017Fteve"), "confusable-name")
	add([]byte("Mi\u017F\u017Fy"), "confusable-name")
	add([]byte("D\u0130NO"), "confusable-name")
	add([]byte("d\u0131no"), "confusable-name")
	add([]byte("\uFF21\uFF22\uFF23"), "confusable-name")
	add([]byte("Player\uFF11"), "confusable-name")
	nr := f.Count(40)
	for i := 0; i < nr; i++ {
		if rng.Chance(2, 3) {
			add([]byte(rng.StringOver(validAlpha, rng.Range(2, 16))), "random-valid")
		} else {
			add([]byte(rng.StringOver(validAlpha+"-. é\n", rng.Range(1, 20))), "random-mixed")
		}
	}
	results, errs := e2e.RunParallel(len(plans), 16, func(i int) loginRes {
		if !(f.Only < 0 || f.Only == len(us)+i) {
			return loginRes{Term: "Unexpected"}
		}
		return runLogin(plans[i])
	})
	for i, pl := range plans {
		res := results[i]
		desc := map[string]any{"kind": "login", "name_hex": fmt.Sprintf("%x", pl.Name), "name": fmt.Sprintf("%q", pl.Name), "class": pl.Kind,
			"protocol": pl.Protocol, "forwarding": string(pl.Forwarding), "compression": pl.Threshold, "observed": res.Desc}
		if (f.Only < 0 || f.Only == len(us)+i) && (errs[i] != "" || res.Err != "") {
			out.GoViolation(map[string]any{"index": len(us) + i, "known": nil, "what": "E2E login did not complete", "panic": errs[i], "error": res.Err, "case": desc})
			res.Term = "Unexpected"
		}
		out.Add(lib.App("Check.C10.mk", lib.Bytes(pl.Name), lib.App("KLogin", res.Term)), desc, len(pl.Name) >= 2,
			"case=login", "login="+pl.Kind, fmt.Sprintf("protocol=%d", pl.Protocol), "forwarding="+string(pl.Forwarding),
			"observed="+strings.SplitN(res.Term, " ", 2)[0])
	}
	out.Finish()
}
