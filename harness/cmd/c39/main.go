// C39 harness: an independent reference of Floodgate's hostname codec (AES-GCM via crypto/aes +
// cipher.NewGCM, java.util.Base64-style topping, "^Floodgate^" + 0x3E header, '!' splitter, twelve
// NUL-joined fields — written from Floodgate's format, not from gate's cipher.go) produces hostnames for
// the real floodgate.ReadHostname, and decodes what the real WriteHostname produces. AEAD results are
// handed to Coq as per-case oracle tables; the Coq judge evaluates the model and the property predicate.
package main

import (
	"bytes"
	"crypto/aes"
	"crypto/cipher"
	"encoding/base64"
	"fmt"
	"strconv"
	"strings"
	"sync"

	"go.minekube.com/gate/pkg/edition/bedrock/geyser/floodgate"

	"verifharness/lib"
)

// ---------- reference Floodgate codec (independent of gate) ----------

const refHeader = "^Floodgate^\x3e"

func gcmFor(key []byte) cipher.AEAD {
	b, err := aes.NewCipher(key)
	if err != nil {
		panic(err)
	}
	g, err := cipher.NewGCM(b)
	if err != nil {
		panic(err)
	}
	return g
}

// refEncrypt: AesCipher.encrypt with Base64Topping
func refEncrypt(key, iv, plain []byte) (blob string, ct []byte) {
	ct = gcmFor(key).Seal(nil, iv, plain, nil)
	return refHeader + base64.StdEncoding.EncodeToString(iv) + "!" + base64.StdEncoding.EncodeToString(ct), ct
}

// javaB64 decodes like java.util.Base64.getDecoder(): padding optional, nothing outside the alphabet.
func javaB64(s string) ([]byte, bool) {
	if strings.ContainsAny(s, "\r\n") {
		return nil, false
	}
	enc := base64.StdEncoding
	if len(s)%4 != 0 {
		enc = base64.RawStdEncoding
	}
	b, err := enc.DecodeString(s)
	return b, err == nil
}

// javaSplit is String.split("\0"): trailing empty strings are dropped.
func javaSplit(s string) []string {
	if s == "" {
		return []string{""}
	}
	p := strings.Split(s, "\x00")
	for len(p) > 0 && p[len(p)-1] == "" {
		p = p[:len(p)-1]
	}
	return p
}

type refDecoded struct {
	host   string
	fields []string
	iv, ct []byte
	plain  []byte
}

// refDecode: Floodgate's handshake side: host NUL data, AesCipher.decrypt, BedrockData.fromString's length check
func refDecode(key []byte, hostname string) (*refDecoded, bool) {
	parts := strings.Split(hostname, "\x00")
	if len(parts) != 2 || !strings.HasPrefix(parts[1], refHeader) {
		return nil, false
	}
	rest := parts[1][len(refHeader):]
	i := strings.IndexByte(rest, '!')
	if i < 0 {
		return nil, false
	}
	iv, ok1 := javaB64(rest[:i])
	ct, ok2 := javaB64(rest[i+1:])
	if !ok1 || !ok2 || len(iv) != 12 {
		return nil, false
	}
	plain, err := gcmFor(key).Open(nil, iv, ct, nil)
	if err != nil {
		return nil, false
	}
	fs := javaSplit(string(plain))
	if len(fs) != 12 {
		return nil, false
	}
	return &refDecoded{parts[0], fs, iv, ct, plain}, true
}

// ---------- what ReadHostname will hand to the cipher (to fill the oracle table) ----------

func envelopeOf(hostname string) (iv, ct []byte, ok bool) {
	parts := strings.Split(hostname, "\x00")
	if len(parts) != 2 {
		return nil, nil, false
	}
	data := parts[1]
	if j := strings.IndexByte(data, ':'); j >= 0 {
		data = data[:j]
	}
	if len(data) < 25 || !strings.HasPrefix(data, refHeader) {
		return nil, nil, false
	}
	rest := data[len(refHeader):]
	i := strings.IndexByte(rest, '!')
	if i < 0 {
		return nil, nil, false
	}
	iv, err1 := base64.StdEncoding.DecodeString(rest[:i])
	ct, err2 := base64.StdEncoding.DecodeString(rest[i+1:])
	if err1 != nil || err2 != nil {
		return nil, nil, false
	}
	return iv, ct, true
}

// ---------- data ----------

type bd struct {
	version, username, language, ip, linked, subscribe, verify string
	xuid                                                       int64
	device, ui, input                                          int
	proxy                                                      bool
}

func (d bd) fields() []string {
	p := "0"
	if d.proxy {
		p = "1"
	}
	return []string{d.version, d.username, strconv.FormatInt(d.xuid, 10), strconv.Itoa(d.device), d.language,
		strconv.Itoa(d.ui), strconv.Itoa(d.input), d.ip, d.linked, p, d.subscribe, d.verify}
}

func (d bd) coq() string {
	return lib.App("mkB", lib.Str(d.version), lib.Str(d.username), lib.Z(d.xuid), lib.Z(int64(d.device)), lib.Str(d.language),
		lib.Z(int64(d.ui)), lib.Z(int64(d.input)), lib.Str(d.ip), lib.Str(d.linked), lib.Bool(d.proxy), lib.Str(d.subscribe), lib.Str(d.verify))
}

func fromGate(g *floodgate.BedrockData) bd {
	return bd{g.Version, g.Username, g.Language, g.IP, g.LinkedPlayer, g.SubscribeID, g.VerifyCode, g.Xuid, g.DeviceOS.ID, g.UIProfile, g.InputMode, g.Proxy}
}

func (d bd) gate() *floodgate.BedrockData {
	return &floodgate.BedrockData{Version: d.version, Username: d.username, Xuid: d.xuid, DeviceOS: floodgate.DeviceOSFromID(d.device),
		Language: d.language, UIProfile: d.ui, InputMode: d.input, IP: d.ip, LinkedPlayer: d.linked, Proxy: d.proxy, SubscribeID: d.subscribe, VerifyCode: d.verify}
}

type gen struct{ r *lib.Rng }

func (g gen) tag(short bool) string {
	n := g.r.Range(1, 16)
	if short {
		n = g.r.Range(1, 4)
	}
	switch g.r.Intn(4) {
	case 0:
		return g.r.StringOver("abcXYZ019_ ", n)
	case 1:
		return g.r.StringOver("äß水🙂 x", n)
	default:
		return g.r.StringOver("abcdefghijklmnopqrstuvwxyzABCDEFGHIJKLMNOPQRSTUVWXYZ0123456789", n)
	}
}

func (g gen) xuid() int64 {
	switch g.r.Intn(8) {
	case 0:
		return 1
	case 1:
		return 1<<63 - 1
	case 2:
		return -int64(g.r.U64() >> 1)
	case 3:
		return -1 << 63
	default:
		return int64(g.r.U64()>>uint(g.r.Range(1, 40))) + 1
	}
}

func (g gen) data(short bool) bd {
	d := bd{version: g.r.PickS("0", "1", "2"), username: g.tag(short), language: g.r.PickS("en_US", "de_DE", "", "zh_CN"),
		ip: g.r.PickS("127.0.0.1", "203.0.113.9", "2001:db8::1", ""), linked: g.r.PickS("", "null", "Linked_1;0c5e9f0e-0b0c-4c9a-9c0e-000000000001;x"),
		subscribe: strconv.Itoa(g.r.Intn(100000)), verify: strconv.Itoa(g.r.Range(1, 99999)), xuid: g.xuid(), device: g.r.Range(0, 15),
		ui: g.r.Range(0, 1), input: g.r.Range(0, 3), proxy: g.r.Bool()}
	if short {
		d.language, d.ip, d.linked, d.subscribe, d.verify = "en", "", "", "1", "7"
	}
	if !short && g.r.Chance(1, 6) {
		d.ui, d.input = g.r.Pick(-1, 2, 1<<31, -1<<31-1, 1<<62), g.r.Pick(-7, 99, 1<<40)
	}
	if !short && g.r.Chance(1, 8) {
		d.subscribe, d.verify = g.r.PickS("", "sub id"), g.r.PickS("code", "x y", "0")
	}
	return d
}

func (g gen) host() string {
	return g.r.PickS("play.example.org", "mc.example.com:19132", "10.0.0.7", "", "[2001:db8::1]:25565", "bedrock.example.net")
}

func (g gen) key() []byte { return g.r.Bytes(g.r.Pick(16, 24, 32)) }

// ---------- observation ----------

type obsRead struct {
	panicked bool
	err      bool
	host     string
	d        bd
}

func observeRead(key []byte, hostname string) (o obsRead) {
	fg, err := floodgate.NewFloodgate(key)
	if err != nil {
		panic(err)
	}
	defer func() {
		if r := recover(); r != nil {
			o = obsRead{panicked: true}
		}
	}()
	h, d, err := fg.ReadHostname(hostname)
	if err != nil || d == nil {
		return obsRead{err: true}
	}
	return obsRead{host: h, d: fromGate(d)}
}

func (o obsRead) coq() string {
	switch {
	case o.panicked:
		return "Panic"
	case o.err:
		return "Err"
	default:
		return lib.App("Ok", lib.Pair(lib.Str(o.host), o.d.coq()))
	}
}

func (o obsRead) class() string {
	switch {
	case o.panicked:
		return "panic"
	case o.err:
		return "err"
	default:
		return "ok"
	}
}

type origin struct {
	iv, ct []byte
	d      bd
}

func main() {
	f := lib.ParseFlags()
	rng := lib.NewRng(f.Seed)
	out := lib.NewOut("C39", f)
	out.Imports = "From Verif Require Import Model.Floodgate.\n"
	out.Rule = "reference-encoded hostnames for random keys (16/24/32 bytes), nonces and field values (gamertags with spaces and non-ASCII text, XUIDs incl. int64 extremes, numeric fields in and out of range, empty strings), the same under another key, with a :port suffix, with non-numeric or empty required fields; every single-byte replacement (3 replacement bytes per position: low bit flipped, another base64 letter, one of NUL ! : = LF A) of one encoding per key size; structural mutations (no/extra NUL part, no splitter, truncated, nonce of 0/3/9/15/16 bytes, ciphertext shorter than the tag, header altered, padding removed, CR/LF inserted, last base64 letter replaced by its slack twin); WriteHostname outputs decoded by the reference decoder; 8 goroutines x 1500 (quick) WriteHostname calls on ONE Floodgate instance per key size, every output read back by the reference decoder, nonces compared pairwise (summary case + first failing output). distinct = distinct (key, hostname / data); non-trivial = the hostname reaches the cipher (header, splitter and both base64 parts parse) or is a write case"

	g := gen{rng}
	emitRead := func(key []byte, hostname string, org *origin, mustReject bool, kind string) {
		var tab []string
		addOpen := func(iv, ct []byte) {
			if len(iv) != 12 {
				return
			}
			p, err := gcmFor(key).Open(nil, iv, ct, nil)
			tab = append(tab, fmt.Sprintf("(%s, %s, %s)", bb(iv), bb(ct), lib.Opt(err == nil, bb(p))))
		}
		iv, ct, reaches := envelopeOf(hostname)
		if reaches {
			addOpen(iv, ct)
		}
		orgT := "None"
		if org != nil {
			orgT = lib.Some(fmt.Sprintf("(%s, %s, %s)", bb(org.iv), bb(org.ct), org.d.coq()))
		}
		o := observeRead(key, hostname)
		desc := map[string]any{"dir": "read", "kind": kind, "key_hex": fmt.Sprintf("%x", key), "hostname_hex": fmt.Sprintf("%x", hostname), "observed": o.class(), "must_reject": mustReject}
		out.Add(lib.App("CRead", bb(key), bb([]byte(hostname)), lib.List(tab), orgT, lib.Bool(mustReject), o.coq()),
			desc, reaches, "dir=read", "kind="+kind, "result="+o.class(), fmt.Sprintf("keylen=%d", len(key)))
	}
	encode := func(key []byte, d bd, host string) (string, *origin) {
		iv := g.r.Bytes(12)
		blob, ct := refEncrypt(key, iv, []byte(strings.Join(d.fields(), "\x00")))
		return host + "\x00" + blob, &origin{iv, ct, d}
	}

	// 1. valid encodings, the same under another key, with a port suffix
	for i := 0; i < f.Count(150); i++ {
		key := g.key()
		d := g.data(false)
		hn, org := encode(key, d, g.host())
		emitRead(key, hn, org, false, "valid")
		if i%3 == 0 {
			other := g.r.Bytes(len(key))
			emitRead(other, hn, nil, true, "other-key")
		}
		if i%4 == 0 {
			emitRead(key, hn+":"+strconv.Itoa(g.r.Range(1, 65535)), org, false, "port-suffix")
		}
	}
	// 2. field strings Floodgate could send that gate's typed record cannot hold (no expectation beyond the model)
	for i := 0; i < f.Count(90); i++ {
		key := g.key()
		fs := g.data(false).fields()
		switch g.r.Intn(9) {
		case 0:
			fs[1] = ""
		case 1:
			fs[2] = g.r.PickS("0", "", "abc", "+5", "-0", "00012", "9223372036854775808", "-9223372036854775809", " 7", "7 ", "1_000", "0x10", "１２")
		case 2:
			fs[3] = g.r.PickS("16", "-1", "99", "", "x", "+3", "03")
		case 3:
			fs[5] = g.r.PickS("", "a", "+1", "9223372036854775808")
		case 4:
			fs[6] = g.r.PickS("", "1.0", "-2", "99999999999999999999")
		case 5:
			fs[9] = g.r.PickS("true", "", "2", "01", "1 ")
		case 6:
			fs = fs[:g.r.Range(0, 11)]
		case 7:
			fs = append(fs, "extra")
		default:
			fs[11] = ""
		}
		iv := g.r.Bytes(12)
		blob, _ := refEncrypt(key, iv, []byte(strings.Join(fs, "\x00")))
		emitRead(key, g.host()+"\x00"+blob, nil, false, "odd-fields")
	}
	// 3. structural mutations
	for i := 0; i < f.Count(120); i++ {
		key := g.key()
		d := g.data(true)
		host := g.host()
		hn, org := encode(key, d, host)
		blob := hn[len(host)+1:]
		ivB64 := blob[len(refHeader) : len(refHeader)+16]
		ctB64 := blob[len(refHeader)+17:]
		kind := ""
		var m string
		switch i % 15 {
		case 0:
			kind, m = "no-nul", host+blob
		case 1:
			kind, m = "extra-nul-part", hn+"\x00FML\x00"
		case 2:
			kind, m = "leading-nul", "\x00"+hn
		case 3:
			kind, m = "no-splitter", host+"\x00"+refHeader+ivB64+ctB64
		case 4:
			kind, m = "truncated", hn[:g.r.Range(0, len(hn)-1)]
		case 5: // nonce of another length: 0, 3, 9, 15, 16 bytes
			n := g.r.Pick(0, 3, 9, 15, 16)
			kind, m = fmt.Sprintf("nonce-%d-bytes", n), host+"\x00"+refHeader+base64.StdEncoding.EncodeToString(g.r.Bytes(n))+"!"+ctB64
		case 6:
			kind, m = "ciphertext-shorter-than-tag", host+"\x00"+refHeader+ivB64+"!"+base64.StdEncoding.EncodeToString(g.r.Bytes(g.r.Range(0, 15)))
		case 7:
			hb := []byte(refHeader)
			hb[g.r.Intn(len(hb))] ^= byte(1 << uint(g.r.Intn(7)))
			kind, m = "header-altered", host+"\x00"+string(hb)+ivB64+"!"+ctB64
		case 8:
			kind, m = "padding-removed", host+"\x00"+refHeader+ivB64+"!"+strings.TrimRight(ctB64, "=")
		case 9: // Go's decoder skips CR/LF: the decoded nonce and ciphertext are unchanged
			j := g.r.Intn(len(ctB64))
			kind, m = "crlf-inserted", host+"\x00"+refHeader+ivB64[:5]+"\r"+ivB64[5:]+"!"+ctB64[:j]+"\n"+ctB64[j:]
		case 10: // last-character slack: another letter with the same significant bits
			kind, m = "b64-slack-twin", host+"\x00"+refHeader+ivB64+"!"+slackTwin(ctB64)
		case 11:
			kind, m = "second-splitter", host+"\x00"+refHeader+ivB64+"!"+ctB64+"!"+ctB64
		case 12:
			kind, m = "empty", ""
		case 13:
			kind, m = "port-then-garbage", hn+":25565:x"
		default:
			kind, m = "colon-inside", host+"\x00"+blob[:20]+":"+blob[20:]
		}
		emitRead(key, m, org, false, kind)
	}
	// 4. every single-byte replacement of one encoding per key size
	for _, kl := range []int{16, 24, 32} {
		key := g.r.Bytes(kl)
		d := g.data(true)
		host := "h.example"
		hn, org := encode(key, d, host)
		specials := []byte{0, '!', ':', '=', '\n', 'A'}
		step := 1
		if f.Tier == "quick" {
			step = 1
		}
		for pos := 0; pos < len(hn); pos += step {
			c := hn[pos]
			reps := []byte{c ^ 1, "ABCDEFGHIJKLMNOPQRSTUVWXYZabcdefghijklmnopqrstuvwxyz0123456789+/"[g.r.Intn(64)], specials[pos%len(specials)]}
			for ri, r := range reps {
				if r == c {
					r = c ^ 2
				}
				b := []byte(hn)
				b[pos] = r
				region := "data"
				if pos <= len(host) {
					region = "host"
				}
				emitRead(key, string(b), org, false, fmt.Sprintf("byte-mutation-%s-r%d", region, ri))
			}
		}
	}
	// 5. the out direction: gate encodes, Floodgate's decoder reads
	for i := 0; i < f.Count(150); i++ {
		key := g.key()
		d := g.data(false)
		if g.r.Chance(1, 10) {
			d.username = "a\x00b"
		}
		host := g.host()
		if g.r.Chance(1, 12) {
			host = "x\x00y"
		}
		fg, err := floodgate.NewFloodgate(key)
		if err != nil {
			panic(err)
		}
		var got string
		var werr error
		panicked := func() (p any) {
			defer func() { p = recover() }()
			got, werr = fg.WriteHostname(host, d.gate())
			return nil
		}()
		desc := map[string]any{"dir": "write", "key_hex": fmt.Sprintf("%x", key), "host": host, "fields": d.fields()}
		if panicked != nil {
			out.GoViolation(map[string]any{"known": nil, "what": "WriteHostname panicked", "panic": fmt.Sprint(panicked), "case": desc})
			continue
		}
		if werr != nil {
			out.Add(lib.App("CWrite", lib.Bytes(key), lib.Str(host), d.coq(), "[]", "[]", "[]", "None", "None"), desc, true, "dir=write", "result=err")
			continue
		}
		desc["output_hex"] = fmt.Sprintf("%x", got)
		ref, ok := refDecode(key, got)
		refT, iv, stab, otab := "None", []byte(nil), "[]", "[]"
		if ok {
			refT = lib.Some(lib.Pair(lib.Str(ref.host), lib.ListOf(ref.fields, lib.Str)))
		}
		// nonce and ciphertext as they stand in the output, for the oracle tables (also when refDecode refused the fields)
		if eiv, ect, ok2 := envelopeOf(got); ok2 && len(eiv) == 12 {
			iv = eiv
			if p, err := gcmFor(key).Open(nil, eiv, ect, nil); err == nil {
				otab = lib.List([]string{fmt.Sprintf("(%s, %s, %s)", bb(eiv), bb(ect), lib.Some(bb(p)))})
				// Seal is recomputed by the harness from the plaintext it expects gate to have built
				want := []byte(strings.Join(d.fields(), "\x00"))
				sealed := gcmFor(key).Seal(nil, eiv, want, nil)
				stab = lib.List([]string{fmt.Sprintf("(%s, %s, %s)", bb(eiv), bb(want), bb(sealed))})
				if !bytes.Equal(p, want) {
					desc["plaintext_differs"] = true
				}
			}
		}
		out.Add(lib.App("CWrite", bb(key), lib.Str(host), d.coq(), bb(iv), stab, otab, refT, lib.Some(bb([]byte(got)))),
			desc, true, "dir=write", "result=ok", fmt.Sprintf("keylen=%d", len(key)))
	}
	// 6. concurrent encodes on ONE Floodgate instance per key size (the proxy shares one instance between
	// all connections): every output must read back, with the reference decoder, to the fields that were
	// encoded, and no nonce may be emitted twice. Only a summary and the first failing output become a case.
	perG := f.Count(1500)
	for _, kl := range []int{16, 24, 32} {
		key := g.r.Bytes(kl)
		base := g.data(false)
		base.verify, base.device, base.ui, base.input = "4711", 7, 0, 1
		if base.xuid == 0 {
			base.xuid = 1
		}
		fg, err := floodgate.NewFloodgate(key)
		if err != nil {
			panic(err)
		}
		const workers = 8
		type failure struct {
			host, out string
			d         bd
			panicMsg  string
		}
		var mu sync.Mutex
		var first *failure
		decoded := 0
		nonces := map[[12]byte]struct{}{}
		var wg sync.WaitGroup
		for w := 0; w < workers; w++ {
			wg.Add(1)
			go func(w int) {
				defer wg.Done()
				okLocal := 0
				var ivs [][12]byte
				var myFirst *failure
				for i := 0; i < perG; i++ {
					d := base
					d.username = fmt.Sprintf("P%d_%d", w, i)
					d.xuid = base.xuid/2 + int64(w)*1_000_000 + int64(i) + 1
					d.proxy = i%2 == 0
					host := fmt.Sprintf("h%d.example:%d", w, 19000+i%100)
					var got string
					var werr error
					pm := func() (p any) {
						defer func() { p = recover() }()
						got, werr = fg.WriteHostname(host, d.gate())
						return nil
					}()
					good := false
					if pm == nil && werr == nil {
						if ref, ok := refDecode(key, got); ok && ref.host == host && strings.Join(ref.fields, "\x00") == strings.Join(d.fields(), "\x00") {
							good = true
							var iv [12]byte
							copy(iv[:], ref.iv)
							ivs = append(ivs, iv)
						}
					}
					if good {
						okLocal++
					} else if myFirst == nil {
						myFirst = &failure{host: host, out: got, d: d}
						if pm != nil {
							myFirst.panicMsg = fmt.Sprint(pm)
						}
					}
				}
				mu.Lock()
				decoded += okLocal
				for _, iv := range ivs {
					nonces[iv] = struct{}{}
				}
				if myFirst != nil && (first == nil || myFirst.host < first.host) {
					first = myFirst
				}
				mu.Unlock()
			}(w)
		}
		wg.Wait()
		total := workers * perG
		desc := map[string]any{"dir": "write-concurrent", "keylen": kl, "key_hex": fmt.Sprintf("%x", key), "goroutines": workers, "encodes": total, "decoded_to_same_fields": decoded, "distinct_nonces": len(nonces)}
		failT := "None"
		if first != nil {
			otab := "[]"
			if eiv, ect, ok := envelopeOf(first.out); ok && len(eiv) == 12 {
				p, err := gcmFor(key).Open(nil, eiv, ect, nil)
				otab = lib.List([]string{fmt.Sprintf("(%s, %s, %s)", bb(eiv), bb(ect), lib.Opt(err == nil, bb(p)))})
			}
			failT = lib.Some(fmt.Sprintf("(%s, %s, %s, %s, %s)", bb(key), lib.Str(first.host), first.d.coq(), bb([]byte(first.out)), otab))
			desc["first_failing_output_hex"] = fmt.Sprintf("%x", first.out)
			desc["first_failing_host"] = first.host
			desc["first_failing_fields"] = first.d.fields()
			if first.panicMsg != "" {
				desc["panic"] = first.panicMsg
			}
		}
		out.Add(lib.App("CConc", lib.N(uint64(kl)), lib.N(uint64(total)), lib.N(uint64(decoded)), lib.N(uint64(len(nonces))), failT),
			desc, true, "dir=write-concurrent", fmt.Sprintf("keylen=%d", kl))
		out.Tag(fmt.Sprintf("concurrent-encodes=%d", total))
	}
	out.Finish()
}

// bb prints bytes as a packed Uint63 list (B form) unless very short: hex string literals cost
// about six times more to elaborate in coqc, and these case files are literal-bound.
func bb(b []byte) string {
	if len(b) <= 7 {
		return lib.Bytes(b)
	}
	var sb strings.Builder
	fmt.Fprintf(&sb, "(B %d [", len(b))
	for i := 0; i < len(b); i += 7 {
		var v uint64
		for j := 6; j >= 0; j-- {
			v <<= 8
			if i+j < len(b) {
				v |= uint64(b[i+j])
			}
		}
		if i > 0 {
			sb.WriteString(";")
		}
		sb.WriteString(strconv.FormatUint(v, 10))
	}
	sb.WriteString("]%uint63)")
	return sb.String()
}

// slackTwin replaces the last significant base64 letter of a padded string by another letter that
// differs only in the bits the decoder discards; unpadded strings are returned unchanged.
func slackTwin(s string) string {
	const alpha = "ABCDEFGHIJKLMNOPQRSTUVWXYZabcdefghijklmnopqrstuvwxyz0123456789+/"
	n := len(s)
	if n < 4 || s[n-1] != '=' {
		return s
	}
	i := n - 2
	if s[i] == '=' {
		i = n - 3
	}
	v := strings.IndexByte(alpha, s[i])
	return s[:i] + string(alpha[v^1]) + s[i+1:]
}
