// C18 harness: drives the real keep-alive bookkeeping of package proxy (recordBackendKeepAlive via
// the backend session handlers, forwardKeepAlive via the client session handlers) over a
// connectedPlayer with up to three serverConnections on recording backend connections, and
// records per call which KeepAlive packets reached which backend in which protocol state.
// Streams: sequential histories (exact comparison with the model inside Coq), overflow histories
// (> 64 pending ids on one connection), goroutine runs stamped with a logical clock (Base.Lin).
package main

import (
	"fmt"
	"runtime"
	"sync"
	"sync/atomic"
	"time"

	"go.minekube.com/gate/pkg/edition/java/proto/packet"
	"go.minekube.com/gate/pkg/edition/java/proto/state"
	"go.minekube.com/gate/pkg/edition/java/proto/version"
	"go.minekube.com/gate/pkg/edition/java/proxy"
	gproto "go.minekube.com/gate/pkg/gate/proto"

	"verifharness/lib"
	"verifharness/recconn"
)

// connection status: 0 nil, 1 closed, 2.. open in Handshake, Status, Login, Config, Play
const (
	stNil = iota
	stClosed
	stHandshake
	stStatus
	stLogin
	stConfig
	stPlay
)

var registries = map[int]*state.Registry{
	stHandshake: state.Handshake, stStatus: state.Status, stLogin: state.Login, stConfig: state.Config, stPlay: state.Play,
}

func statTerm(st int) string {
	switch st {
	case stNil:
		return "CNil"
	case stClosed:
		return "CClosed"
	}
	return "(COpen " + pstateTerm(st) + ")"
}

func pstateTerm(st int) string {
	return map[int]string{stHandshake: "PHandshake", stStatus: "PStatus", stLogin: "PLogin", stConfig: "PConfig", stPlay: "PPlay"}[st]
}

func regToStat(r *state.Registry) int {
	for k, v := range registries {
		if v == r {
			return k
		}
	}
	return stNil
}

const (
	kBackend = iota
	kReply
	kSetStat
	kSetCurrent
	kSetInFlight
)

type op struct {
	kind int
	c    int // connection index, -1 = nil (SetCurrent/SetInFlight)
	id   int64
	st   int
	via  int
}

type wr struct {
	c  int
	id int64
	st int
}

type result struct {
	o        op
	writes   []wr
	inv, res int64
	thread   int
	delay    int
	meet     func()
}

type world struct {
	env   *proxy.VerifC18Env
	srv   []*proxy.VerifC18Server
	clock atomic.Int64
	mu    sync.Mutex
	cur   map[uint64]*result
}

func (w *world) newConn(ci, st int) *recconn.Conn {
	reg := registries[st]
	if reg == nil {
		reg = state.Play
	}
	bc := recconn.New(ci+1, reg, version.Minecraft_1_20_3.Protocol)
	bc.OnPacket = func(c *recconn.Conn, p gproto.Packet, at *state.Registry) {
		ka, ok := p.(*packet.KeepAlive)
		if !ok {
			return
		}
		id := recconn.Goid()
		w.mu.Lock()
		if r := w.cur[id]; r != nil {
			r.writes = append(r.writes, wr{ci, ka.RandomID, regToStat(at)})
		}
		w.mu.Unlock()
	}
	return bc
}

func (w *world) setStat(ci, st int) {
	switch st {
	case stNil:
		w.srv[ci].SetConn(nil)
	case stClosed:
		bc := w.newConn(ci, stPlay)
		bc.Close()
		w.srv[ci].SetConn(bc)
	default:
		w.srv[ci].SetConn(w.newConn(ci, st))
	}
}

func newWorld(stats []int, cur, inf int) *world {
	w := &world{cur: map[uint64]*result{}}
	client := recconn.New(0, state.Play, version.Minecraft_1_20_3.Protocol)
	w.env = proxy.VerifC18NewEnv(client)
	for i := range stats {
		w.srv = append(w.srv, w.env.NewServer(fmt.Sprintf("s%d", i), nil))
	}
	for i, st := range stats {
		w.setStat(i, st)
	}
	w.setSlot(true, cur)
	w.setSlot(false, inf)
	return w
}

func (w *world) setSlot(current bool, c int) {
	var s *proxy.VerifC18Server
	if c >= 0 {
		s = w.srv[c]
	}
	if current {
		w.env.SetConnected(s)
	} else {
		w.env.SetInFlight(s)
	}
}

var sink atomic.Int64

func spin(n int) {
	for i := 0; i < n; i++ {
		sink.Add(1)
	}
}

func (w *world) exec(r *result, gate func()) {
	id := recconn.Goid()
	w.mu.Lock()
	w.cur[id] = r
	w.mu.Unlock()
	if gate != nil {
		gate()
	}
	o := r.o
	r.inv = w.clock.Add(1)
	if r.meet != nil {
		r.meet() // wait (bounded) until every call of this round has taken its invocation stamp
	}
	spin(r.delay)
	switch o.kind {
	case kBackend:
		w.srv[o.c].BackendKeepAlive(o.id, o.via)
	case kReply:
		w.env.ClientReply(o.id, o.via)
	case kSetStat:
		w.setStat(o.c, o.st)
	case kSetCurrent:
		w.setSlot(true, o.c)
	case kSetInFlight:
		w.setSlot(false, o.c)
	}
	r.res = w.clock.Add(1)
	w.mu.Lock()
	delete(w.cur, id)
	w.mu.Unlock()
}

// ---------- printing ----------

func optNat(c int) string {
	if c < 0 {
		return "None"
	}
	return lib.Some(lib.Nat(c))
}

func opTerm(o op) string {
	switch o.kind {
	case kBackend:
		return lib.App("BackendKA", lib.Nat(o.c), lib.Z(o.id))
	case kReply:
		return lib.App("ClientReply", lib.Z(o.id))
	case kSetStat:
		return lib.App("SetStat", lib.Nat(o.c), statTerm(o.st))
	case kSetCurrent:
		return lib.App("SetCurrent", optNat(o.c))
	default:
		return lib.App("SetInFlight", optNat(o.c))
	}
}

func opDesc(o op) string {
	switch o.kind {
	case kBackend:
		return fmt.Sprintf("backend %d sends keep-alive %d (via %d)", o.c, o.id, o.via)
	case kReply:
		return fmt.Sprintf("client replies %d (via %d)", o.id, o.via)
	case kSetStat:
		return fmt.Sprintf("backend %d connection := %s", o.c, statTerm(o.st))
	case kSetCurrent:
		return fmt.Sprintf("connected server := %d", o.c)
	default:
		return fmt.Sprintf("in-flight connection := %d", o.c)
	}
}

func caseTerm(stats []int, cur, inf int, concurrent bool, rs []*result) string {
	calls := lib.ListOf(rs, func(r *result) string {
		ws := lib.ListOf(r.writes, func(x wr) string {
			return "(" + lib.Nat(x.c) + ", " + lib.Z(x.id) + ", " + pstateOr(x.st) + ")"
		})
		return lib.App("Lin.mkCall", opTerm(r.o), ws, lib.Z(r.inv), lib.Z(r.res))
	})
	return lib.App("Check.C18.mk", lib.ListOf(stats, statTerm), optNat(cur), optNat(inf), lib.Bool(concurrent), calls)
}

func pstateOr(st int) string {
	if s := pstateTerm(st); s != "" {
		return s
	}
	return "PHandshake"
}

func caseDesc(kind string, stats []int, cur, inf int, rs []*result) map[string]any {
	var calls []map[string]any
	for _, r := range rs {
		var ws []string
		for _, x := range r.writes {
			ws = append(ws, fmt.Sprintf("backend %d <- keep-alive %d (state %s)", x.c, x.id, pstateOr(x.st)))
		}
		calls = append(calls, map[string]any{"call": opDesc(r.o), "thread": r.thread, "writes": ws, "inv": r.inv, "res": r.res})
	}
	return map[string]any{"kind": kind, "conn_status": lib.ListOf(stats, statTerm), "connected": cur, "in_flight": inf, "calls": calls}
}

// ---------- generators ----------

func randStat(r *lib.Rng) int {
	return r.Pick(stPlay, stPlay, stPlay, stPlay, stPlay, stConfig, stConfig, stConfig, stLogin, stHandshake, stStatus, stClosed, stNil)
}

func seqHistory(r0 *lib.Rng) ([]int, int, int, []op) {
	r := r0
	n := r.Range(1, 3)
	stats := make([]int, n)
	for i := range stats {
		stats[i] = randStat(r)
	}
	slot := func() int {
		if r.Chance(1, 6) {
			return -1
		}
		return r.Intn(n)
	}
	cur, inf := slot(), slot()
	if r.Chance(1, 2) && n >= 2 { // the usual shape during a switch
		cur, inf = 0, 1
	}
	m := r.Range(4, 40)
	var ops []op
	for i := 0; i < m; i++ {
		switch x := r.Intn(20); {
		case x < 8:
			ops = append(ops, op{kind: kBackend, c: r.Intn(n), id: randIDx(r), via: r.Intn(4)})
		case x < 16:
			ops = append(ops, op{kind: kReply, id: randIDx(r), via: r.Intn(3)})
		case x < 18:
			ops = append(ops, op{kind: kSetStat, c: r.Intn(n), st: randStat(r)})
		case x < 19:
			ops = append(ops, op{kind: kSetCurrent, c: slot()})
		default:
			ops = append(ops, op{kind: kSetInFlight, c: slot()})
		}
	}
	return stats, cur, inf, ops
}

func randIDx(r *lib.Rng) int64 {
	switch r.Intn(12) {
	case 0:
		return int64(r.U64())
	case 1:
		return []int64{0, -1, 1<<63 - 1, -1 << 63}[r.Intn(4)]
	default:
		return int64(r.Range(1, 6))
	}
}

// overflowHistory: more than 64 distinct ids pending on one connection, some refreshed (Set of a
// present id moves it to the front) before the overflow, then replies around the eviction boundary.
func overflowHistory(r *lib.Rng) ([]int, int, int, []op) {
	stats := []int{r.Pick(stPlay, stConfig), r.Pick(stPlay, stConfig)}
	cur, inf := 0, 1
	target := r.Intn(2)
	total := r.Range(60, 72)
	var ops []op
	base := int64(r.Range(1000, 2000))
	for i := 0; i < total; i++ {
		ops = append(ops, op{kind: kBackend, c: target, id: base + int64(i), via: r.Intn(4)})
		if r.Chance(1, 10) && i > 2 { // refresh an older id
			ops = append(ops, op{kind: kBackend, c: target, id: base + int64(r.Intn(i)), via: 0})
		}
		if r.Chance(1, 15) && i > 2 { // answer one in between
			ops = append(ops, op{kind: kReply, id: base + int64(r.Intn(i)), via: r.Intn(3)})
		}
	}
	// replies: the oldest few, around the boundary, the newest, each possibly twice
	probe := []int{0, 1, 2, total - 66, total - 65, total - 64, total - 63, total - 2, total - 1, total}
	for _, p := range probe {
		if p < 0 {
			continue
		}
		ops = append(ops, op{kind: kReply, id: base + int64(p), via: r.Intn(3)})
		if r.Chance(1, 3) {
			ops = append(ops, op{kind: kReply, id: base + int64(p), via: 0})
		}
	}
	for i := 0; i < 6; i++ {
		ops = append(ops, op{kind: kReply, id: base + int64(r.Intn(total)), via: r.Intn(3)})
	}
	return stats, cur, inf, ops
}

func runSequential(stats []int, cur, inf int, ops []op) []*result {
	w := newWorld(stats, cur, inf)
	var rs []*result
	for _, o := range ops {
		r := &result{o: o}
		w.exec(r, nil)
		rs = append(rs, r)
	}
	return rs
}

type concProgram struct {
	stats    []int
	cur, inf int
	prefix   []op
	threads  [][]op
	delays   [][]int
}

// concGen: ids of different connections are disjoint (connection c uses c*100+k), statuses and
// slots do not change while goroutines run; then a reply touches at most one connection's
// pending set and the whole call is atomic (see Model/KeepAlive.v), so the history must be
// linearizable w.r.t. step_op.  Replies for the same id race with each other and with the backend.
func concGen(r *lib.Rng) concProgram {
	n := r.Range(1, 3)
	cp := concProgram{cur: 0, inf: -1}
	for i := 0; i < n; i++ {
		cp.stats = append(cp.stats, r.Pick(stPlay, stPlay, stConfig, stLogin))
	}
	if n >= 2 {
		cp.inf = 1
	}
	idOf := func(c int) int64 { return int64(c*100 + r.Range(1, 2)) }
	for i := r.Intn(3); i > 0; i-- {
		c := r.Intn(n)
		cp.prefix = append(cp.prefix, op{kind: kBackend, c: c, id: idOf(c), via: r.Intn(4)})
	}
	nthreads := r.Range(2, 4)
	budget := 7
	for t := 0; t < nthreads; t++ {
		k := r.Range(1, 3)
		var ops []op
		for i := 0; i < k && budget > 0; i++ {
			c := r.Intn(n)
			if r.Chance(2, 5) {
				ops = append(ops, op{kind: kBackend, c: c, id: idOf(c), via: r.Intn(4)})
			} else {
				ops = append(ops, op{kind: kReply, id: idOf(c), via: r.Intn(3)})
			}
			budget--
		}
		ds := make([]int, len(ops))
		for i := range ds {
			ds[i] = r.Pick(5, 40, 150, 500)
		}
		cp.threads = append(cp.threads, ops)
		cp.delays = append(cp.delays, ds)
	}
	return cp
}

type spinBarrier struct {
	n       int64
	arrived atomic.Int64
}

func (b *spinBarrier) wait(round int64) {
	b.arrived.Add(1)
	for i := 0; b.arrived.Load() < b.n*round; i++ {
		if i&0xffff == 0xffff {
			runtime.Gosched()
		}
	}
}

func runConcurrent(cp concProgram) []*result {
	w := newWorld(cp.stats, cp.cur, cp.inf)
	var rs []*result
	for _, o := range cp.prefix {
		r := &result{o: o}
		w.exec(r, nil)
		rs = append(rs, r)
	}
	per := make([][]*result, len(cp.threads))
	rounds := 0
	for t, ops := range cp.threads {
		for i, o := range ops {
			per[t] = append(per[t], &result{o: o, thread: t + 1, delay: cp.delays[t][i]})
		}
		if len(ops) > rounds {
			rounds = len(ops)
		}
	}
	bar := &spinBarrier{n: int64(len(cp.threads))}
	// meet: the calls of round i wait for each other right after their invocation stamps, so that
	// they overlap in (logical) time whatever the OS scheduler does; bounded by 20 ms
	for i := 0; i < rounds; i++ {
		n := int64(0)
		for t := range per {
			if i < len(per[t]) {
				n++
			}
		}
		cnt := new(atomic.Int64)
		for t := range per {
			if i < len(per[t]) {
				per[t][i].meet = func() {
					cnt.Add(1)
					dl := time.Now().Add(20 * time.Millisecond)
					for j := 0; cnt.Load() < n; j++ {
						if j&0xfff == 0xfff && time.Now().After(dl) {
							return
						}
					}
				}
			}
		}
	}
	var wg sync.WaitGroup
	start := make(chan struct{})
	for t := range cp.threads {
		wg.Add(1)
		go func(t int) {
			defer wg.Done()
			<-start
			for i := 0; i < rounds; i++ {
				round := int64(i + 1)
				if i < len(per[t]) {
					w.exec(per[t][i], func() { bar.wait(round) })
				} else {
					bar.wait(round)
				}
			}
		}(t)
	}
	close(start)
	done := make(chan struct{})
	go func() { wg.Wait(); close(done) }()
	select {
	case <-done:
	case <-time.After(20 * time.Second):
		// nothing here can block; a hang is a finding in itself
		panic("C18 harness: goroutine run did not finish within 20 s")
	}
	for _, rr := range per {
		rs = append(rs, rr...)
	}
	return rs
}


// runStress: the at-most-once clause under real contention.  Every round backend 0 (PLAY) sends
// ONE keep-alive with a fresh id, then `workers` goroutines released by a spin barrier all call
// forwardKeepAlive with that id.  Exactly one of them may reach the backend.  Returns the history
// of the first round in which the id was written more than once (bad = true), otherwise of the
// last round, plus how many rounds ran.
func runStress(rounds, workers, via int) (rs []*result, bad bool, ran int) {
	w := newWorld([]int{stPlay}, 0, -1)
	for round := 1; round <= rounds; round++ {
		id := int64(round)
		rec := &result{o: op{kind: kBackend, c: 0, id: id, via: 0}}
		w.exec(rec, nil)
		res := make([]*result, workers)
		bar := &spinBarrier{n: int64(workers)}
		var wg sync.WaitGroup
		for i := range res {
			res[i] = &result{o: op{kind: kReply, id: id, via: via}, thread: i + 1}
			wg.Add(1)
			go func(r *result) {
				defer wg.Done()
				w.exec(r, func() { bar.wait(1) })
			}(res[i])
		}
		wg.Wait()
		writes := 0
		for _, r := range res {
			writes += len(r.writes)
		}
		ran = round
		rs = append([]*result{rec}, res...)
		if writes > 1 {
			return rs, true, ran
		}
	}
	return rs, false, ran
}

func overlaps(rs []*result) bool {
	for i, a := range rs {
		for j, b := range rs {
			if i < j && a.thread != b.thread && a.thread != 0 && b.thread != 0 && a.inv < b.res && b.inv < a.res {
				return true
			}
		}
	}
	return false
}

func seqTags(kind string, rs []*result) (bool, []string) {
	tags := []string{"kind=" + kind}
	wrote, dropped := 0, 0
	for _, r := range rs {
		if r.o.kind == kReply {
			if len(r.writes) > 0 {
				wrote++
			} else {
				dropped++
			}
		}
	}
	if wrote > 0 {
		tags = append(tags, "some-forwarded")
	}
	if dropped > 0 {
		tags = append(tags, "some-dropped")
	}
	tags = append(tags, fmt.Sprintf("calls=%d", len(rs)/10*10))
	return wrote > 0 && dropped > 0, tags
}

func main() {
	f := lib.ParseFlags()
	rng := lib.NewRng(f.Seed)
	out := lib.NewOut("C18", f)
	out.Imports = "From Verif Require Import Base.Lin Model.KeepAlive.\n"
	out.Rule = "three streams over a real connectedPlayer with 1..3 serverConnections on recording backend connections: (seq) 4..40 calls: backend keep-alives (through recordBackendKeepAlive or the transition/config/play backend handlers), client replies (through forwardKeepAlive or the play/config client handlers), connection status changes (nil, closed, Handshake..Play) and changes of the connected / in-flight slot; ids mostly from a pool of 6 (repeats, duplicates, unknown), some random or extreme int64; (overflow) 60..72 distinct ids pending on one connection with refreshes and intermediate replies, then replies around the eviction boundary; (conc) 2..4 goroutines, 1..3 calls each, ids disjoint per connection, logical clock; (stress) per case 5000 rounds of: one fresh id from a PLAY backend, then 8 goroutines released by a spin barrier all reply with that id — the case shown to Coq is the first round in which the id reached the backend twice, else the last round. Non-trivial: seq/overflow = at least one reply forwarded and at least one dropped; conc = two calls of different goroutines overlapped. Distinct = distinct Coq case terms."

	nSeq, nOv, nConc := f.Count(200), f.Count(10), f.Count(90)
	for i := 0; i < nSeq; i++ {
		r := rng.Fork()
		stats, cur, inf, ops := seqHistory(r)
		if !out.Wanted() {
			out.Add("", nil, false)
			continue
		}
		rs := runSequential(stats, cur, inf, ops)
		nt, tags := seqTags("seq", rs)
		out.Add(caseTerm(stats, cur, inf, false, rs), caseDesc("seq", stats, cur, inf, rs), nt, tags...)
	}
	for i := 0; i < nOv; i++ {
		r := rng.Fork()
		stats, cur, inf, ops := overflowHistory(r)
		if !out.Wanted() {
			out.Add("", nil, false)
			continue
		}
		rs := runSequential(stats, cur, inf, ops)
		nt, tags := seqTags("overflow", rs)
		out.Add(caseTerm(stats, cur, inf, false, rs), caseDesc("overflow", stats, cur, inf, rs), nt, tags...)
	}
	for i := 0; i < nConc; i++ {
		r := rng.Fork()
		cp := concGen(r)
		if !out.Wanted() {
			out.Add("", nil, false)
			continue
		}
		// a run in which nothing overlapped says little: try the same program again (fresh world)
		rs := runConcurrent(cp)
		ov := overlaps(rs)
		for a := 0; a < 4 && !ov; a++ {
			rs = runConcurrent(cp)
			ov = overlaps(rs)
		}
		tags := []string{"kind=conc", fmt.Sprintf("threads=%d", len(cp.threads))}
		if ov {
			tags = append(tags, "conc-overlap")
		}
		out.Add(caseTerm(cp.stats, cp.cur, cp.inf, true, rs), caseDesc("conc", cp.stats, cp.cur, cp.inf, rs), ov, tags...)
	}
	// stress: same id answered by 8 goroutines at once, thousands of rounds per case
	nStress := 2
	if f.Tier != "quick" {
		nStress = 6
	}
	for i := 0; i < nStress; i++ {
		r := rng.Fork()
		via := r.Intn(3)
		if !out.Wanted() {
			out.Add("", nil, false)
			continue
		}
		const rounds, workers = 5000, 8
		rs, bad, ran := runStress(rounds, workers, via)
		tags := []string{"kind=stress"}
		if bad {
			tags = append(tags, "stress-double-forward")
		}
		d := caseDesc("stress", []int{stPlay}, 0, -1, rs)
		d["rounds_run"] = ran
		d["workers"] = workers
		d["shown"] = "the first round in which the id reached the backend more than once, else the last round"
		out.Add(caseTerm([]int{stPlay}, 0, -1, true, rs), d, true, tags...)
	}
	out.Extra("stress_rounds_per_case", 5000)
	out.Finish()
}
