// C25 harness: hands one plugin message to HandlePacket of each of the four session handlers
// (client play, client config, backend config, backend play), built by the verif hooks over
// recording connections, the real event manager (recording subscribers) and the real channel
// registrar, and writes what was observed for the Coq side to judge.
package main

import (
	"bytes"
	"fmt"
	"strings"
	"sync"
	"time"

	"github.com/robinbraemer/event"

	"go.minekube.com/gate/pkg/edition/java/netmc"
	"go.minekube.com/gate/pkg/edition/java/proto/packet/plugin"
	"go.minekube.com/gate/pkg/edition/java/proto/state"
	"go.minekube.com/gate/pkg/edition/java/proto/util"
	"go.minekube.com/gate/pkg/edition/java/proto/version"
	"go.minekube.com/gate/pkg/edition/java/proxy"
	"go.minekube.com/gate/pkg/edition/java/proxy/message"
	"go.minekube.com/gate/pkg/edition/java/proxy/phase"
	gproto "go.minekube.com/gate/pkg/gate/proto"

	"verifharness/lib"
	"verifharness/pmsg"
)

type srvSpec struct {
	present, hasConn, play, writeOK, closed bool
	phase                                   int // 0 vanilla, 1 unknown, 2 transition
}

type caseSpec struct {
	handler        int // 0 client play, 1 client config, 2 backend config, 3 backend play
	ver13          bool
	existing       int
	connected      srvSpec
	inflight       srvSpec
	clientComplete bool
	known          bool
	sub            int // 0 default, 1 allow, 2 deny
	ready          bool
	channel        string
	data           []byte
	kindTag        string
}

var handlerNames = []string{"HClientPlay", "HClientConfig", "HBackendConfig", "HBackendPlay"}
var phaseNames = []string{"BVanilla", "BUnknown", "BTransition"}
var subNames = []string{"SDefault", "SAllow", "SDeny"}

func srvTerm(s srvSpec, conn int) string {
	if !s.present {
		return "None"
	}
	return lib.Some(lib.App("mkSrv", lib.N(uint64(conn)), lib.Bool(s.hasConn), lib.Bool(s.play), phaseNames[s.phase],
		lib.Bool(s.writeOK), lib.Bool(s.closed)))
}

type evRec struct {
	kind string // reg | unreg | pm
	chs  []string
	id   string
	data []byte
}

func idsOf(ids []message.ChannelIdentifier) []string {
	out := make([]string, 0, len(ids))
	for _, i := range ids {
		out = append(out, i.ID())
	}
	return out
}

// channel list items for register/unregister bodies
var items = []string{"my:chan", "ns.a-b_c:val/ue", "plain", ":lead", "Upper:case", "a:b:c", "", "FML|HS", "ns:", "x:y",
	"minecraft:brand", "bad ns:x", "\xc3\xa9:x", "legacy:foo", "0:1"}

func genChannelList(r *lib.Rng, existing int) []byte {
	join := func(k int, pick func(i int) string) []byte {
		parts := make([]string, k)
		for i := range parts {
			parts[i] = pick(i)
		}
		return []byte(strings.Join(parts, "\x00"))
	}
	if existing > 0 { // sit on the 1024-channel cap: existing + count = 1023 / 1024 / 1025
		k := 1024 - existing + r.Pick(-1, 0, 1)
		if k < 1 {
			k = 1
		}
		return join(k, func(int) string { return items[r.Intn(len(items))] })
	}
	switch r.Intn(40) {
	case 0, 1, 2:
		return nil
	case 3: // 32 KiB boundary
		n := r.Pick(32766, 32767, 32768)
		b := bytes.Repeat([]byte("ab:cd\x00"), n/6+1)
		return b[:n]
	case 4, 5, 6, 7: // count cap with nothing registered yet
		n := r.Pick(1023, 1024, 1025)
		return join(n, func(i int) string { return r.PickS("a", "b:c", "") })
	}
	b := join(r.Range(1, 6), func(int) string { return items[r.Intn(len(items))] })
	if r.Chance(1, 6) {
		b = append(b, 0)
	}
	return b
}

func mixCase(r *lib.Rng, s string) string {
	b := []byte(s)
	for i := range b {
		if b[i] >= 'a' && b[i] <= 'z' && r.Chance(1, 3) {
			b[i] -= 32
		}
	}
	return string(b)
}

func gen(r *lib.Rng) caseSpec {
	var c caseSpec
	c.handler = r.Intn(4)
	c.ver13 = r.Chance(3, 4)
	if r.Chance(1, 8) {
		c.existing = r.Pick(1019, 1020, 1021, 1022, 1023, 1024)
	}
	mk := func(present int) srvSpec {
		return srvSpec{present: r.Chance(present, 100), hasConn: r.Chance(92, 100), play: r.Chance(88, 100),
			writeOK: r.Chance(60, 100), closed: r.Chance(8, 100), phase: r.Pick(0, 0, 0, 0, 1, 2)}
	}
	c.connected = mk(93)
	c.inflight = mk(25)
	if c.handler >= 2 {
		c.connected.present = true
		c.connected.phase = 0
		c.connected.hasConn = r.Chance(97, 100)
	}
	c.clientComplete = r.Chance(4, 5)
	c.sub = r.Intn(3)
	c.ready = r.Chance(3, 4)
	switch k := r.Intn(100); {
	case k < 34:
		c.kindTag = "register"
		c.channel = r.PickS("minecraft:register", "REGISTER", "minecraft:register", mixCase(r, "minecraft:register"), "register")
		c.data = genChannelList(r, c.existing)
	case k < 46:
		c.kindTag = "unregister"
		c.channel = r.PickS("minecraft:unregister", "UNREGISTER", mixCase(r, "minecraft:unregister"))
		c.data = genChannelList(r, c.existing)
	case k < 54:
		c.kindTag = "brand"
		c.channel = r.PickS("minecraft:brand", "MC|Brand", mixCase(r, "minecraft:brand"))
		c.data = append([]byte{7}, []byte("vanilla")...)
	case k < 59:
		c.kindTag = "bungee"
		c.channel = r.PickS("bungeecord:main", "BungeeCord", "BUNGEECORD:MAIN")
		c.data = r.Bytes(r.Range(0, 12))
	default:
		c.kindTag = "custom"
		c.channel = r.PickS("my:chan", "legacy:foo", "ns.a:val/ue", "minecraft:registerx", "xminecraft:register", "MY:Chan", "plainlegacy", "x:y")
		n := r.Pick(0, 1, 2, 8, 32, 64, 200)
		c.data = r.Bytes(n)
	}
	c.known = r.Chance(3, 5)
	return c
}

func payloadOf(channel string, data []byte) []byte {
	buf := new(bytes.Buffer)
	_ = util.WriteVarInt(buf, 0x18)
	_ = util.WriteString(buf, channel)
	buf.Write(data)
	return buf.Bytes()
}

func main() {
	f := lib.ParseFlags()
	rng := lib.NewRng(f.Seed)
	out := lib.NewOut("C25", f)
	out.Imports = "From Verif Require Import Model.PluginMsg.\n"
	out.Rule = "one HandlePacket call per case; handler uniform over the four; message kind register 34% / unregister 12% / brand 8% / BungeeCord 5% / custom 41% with mixed-case ASCII channel names; register bodies are NUL-separated lists over 15 item shapes (valid, no namespace, leading colon, upper case, two colons, empty, FML|HS, non-ASCII), empty bodies, 32766/32767/32768-byte bodies, 1023/1024/1025 channels, existing channel count 0 or 1019..1024 with lists sized to land on 1023/1024/1025 in total; server connection present/has conn/PLAY state/write result/closed/phase, in-flight connection, client phase, registrar membership, subscriber decision (default/allow/deny), config readiness drawn independently; distinct = distinct Coq term; non-trivial = an event fired, a write happened or the message was queued; plus 48 histories (12 per handler): 2..4 messages on registered channels back to back through ONE handler instance, bodies of equal / decreasing / increasing length, the PluginMessageEvent subscriber of each message channel-gated until the next message has been handled, recording Data() at its start and end and the bytes written; plus 60 register histories: 3..6 register/unregister messages of one player through one client play handler (new channels, one more, all known, subset of known, partly new, empty, invalid only, over the 1024 cap, unregister), per step the register events and backend writes"
	n := f.Count(480)
	for i := 0; i < n; i++ {
		r := rng.Fork()
		c := gen(r)
		term, desc, nt, tags := runCase(c)
		out.Add(term, desc, nt, tags...)
	}
	// histories: 2..4 messages back to back through the SAME handler instance, events still in flight
	hn := f.Count(48)
	for i := 0; i < hn; i++ {
		r := rng.Fork()
		term, desc, tags := runHistoryCase(r, i%4)
		out.Add(term, desc, true, tags...)
	}
	// register histories: one player, the known channel set grows and shrinks
	rn := f.Count(60)
	for i := 0; i < rn; i++ {
		r := rng.Fork()
		term, desc, tags := runRegisterHistory(r)
		out.Add(term, desc, true, tags...)
	}
	out.Finish()
}

// runRegisterHistory sends 3..6 register (occasionally unregister) messages of ONE player through ONE
// client play handler: new channels, one more, all known, a subset of the known ones, partly new,
// empty, only invalid names, over the 1024 cap. Per step: the register events and the backend writes.
func runRegisterHistory(r *lib.Rng) (string, map[string]any, []string) {
	ver13 := r.Chance(3, 4)
	writeOK := r.Chance(5, 6)
	prot := version.Minecraft_1_12_2.Protocol
	if ver13 {
		prot = version.Minecraft_1_20_2.Protocol
	}
	mgr := event.New()
	client := pmsg.NewConn(0, state.Play, prot)
	backend := pmsg.NewConn(1, state.Play, prot)
	backend.FailWrite = !writeOK
	env := proxy.VerifC25NewEnv(client, mgr, message.NewChannelRegistrar(), phase.VanillaClientPhase)
	sa := env.NewServer("alpha", backend, phase.VanillaBackendPhase)
	env.SetConnectedServer(sa)
	h := env.ClientPlayHandler()
	var mu sync.Mutex
	var evs []string
	event.Subscribe(mgr, 0, func(e *proxy.PlayerChannelRegisterEvent) {
		mu.Lock()
		evs = append(evs, lib.App("ERegister", lib.ListOf(idsOf(e.Channels()), lib.Str)))
		mu.Unlock()
	})
	event.Subscribe(mgr, 0, func(e *proxy.PlayerChannelUnregisterEvent) {
		mu.Lock()
		evs = append(evs, lib.App("EUnregister", lib.ListOf(idsOf(e.Channels()), lib.Str)))
		mu.Unlock()
	})
	fresh := 0
	newName := func() string {
		fresh++
		if ver13 {
			return fmt.Sprintf("ns%d:c%d", fresh%3, fresh)
		}
		return fmt.Sprintf("lc%d", fresh)
	}
	var known []string
	pickKnown := func(n int) []string {
		if len(known) == 0 {
			return nil
		}
		perm := r.Perm(len(known))
		if n > len(perm) {
			n = len(perm)
		}
		out := make([]string, n)
		for i := range out {
			out[i] = known[perm[i]]
		}
		return out
	}
	steps := r.Range(3, 6)
	var msgT, obsT, shapes []string
	nEvents, nForwarded := 0, 0
	for i := 0; i < steps; i++ {
		shape := "new"
		if i > 0 {
			shape = r.PickS("one-more", "all-known", "all-known", "subset", "subset", "partly-new", "empty", "invalid-only", "over-cap", "new", "unregister")
		}
		channel := r.PickS("minecraft:register", "minecraft:register", "REGISTER")
		var items []string
		switch shape {
		case "new":
			for j, n := 0, r.Range(1, 3); j < n; j++ {
				items = append(items, newName())
			}
		case "one-more":
			items = []string{newName()}
		case "all-known":
			items = pickKnown(len(known))
		case "subset":
			items = pickKnown(r.Range(1, 2))
		case "partly-new":
			items = append(pickKnown(r.Range(1, 2)), newName())
		case "invalid-only":
			items = []string{"Upper:Case", "bad ns:x"}
		case "over-cap":
			items = make([]string, 1025-len(known)+r.Pick(0, 1, 3))
			for j := range items {
				items[j] = "a"
			}
		case "unregister":
			channel = "minecraft:unregister"
			items = pickKnown(r.Range(1, 2))
		}
		data := []byte(strings.Join(items, "\x00"))
		if shape == "empty" {
			data = nil
		}
		// the harness' own view of the known set, only to steer the generator
		if shape == "unregister" {
			var rest []string
			for _, k := range known {
				drop := false
				for _, it := range items {
					drop = drop || it == k
				}
				if !drop {
					rest = append(rest, k)
				}
			}
			known = rest
		} else if shape != "over-cap" && shape != "invalid-only" {
			for _, it := range items {
				dup := false
				for _, k := range known {
					dup = dup || k == it
				}
				if !dup {
					known = append(known, it)
				}
			}
		}
		mu.Lock()
		evs = nil
		mu.Unlock()
		backend.Reset()
		payload := payloadOf(channel, data)
		h.HandlePacket(&gproto.PacketContext{Direction: gproto.ServerBound, Protocol: prot, PacketID: 0x18,
			Packet: &plugin.Message{Channel: channel, Data: append([]byte(nil), data...)}, Payload: payload})
		mgr.Wait()
		var wt []string
		for _, w := range backend.Writes() {
			wt = append(wt, lib.App("WPkt", lib.N(1), lib.Bool(w.OK), lib.Str(w.Channel), lib.Bytes(w.Data)))
			if w.OK {
				nForwarded++
			}
		}
		mu.Lock()
		nEvents += len(evs)
		obsT = append(obsT, lib.App("mkOut", lib.List(append([]string(nil), evs...)), lib.List(wt), "false"))
		mu.Unlock()
		msgT = append(msgT, lib.App("mkMsg", lib.Str(channel), lib.Bytes(data), lib.Bytes(payload)))
		shapes = append(shapes, shape)
	}
	envT := lib.App("mkEnv", lib.Bool(ver13), lib.N(0), srvTerm(srvSpec{present: true, hasConn: true, play: true, writeOK: writeOK}, 1), "None",
		"true", "false", "SDefault", "false")
	term := lib.App("Check.C25.mkReg", envT, lib.List(msgT), lib.List(obsT))
	desc := map[string]any{"kind": "register-history", "ver13": ver13, "write_ok": writeOK, "steps": shapes, "events": nEvents,
		"forwarded": nForwarded, "clientside_channels_after": env.ClientsideChannelCount()}
	tags := []string{"kind=register-history", "handler=HClientPlay"}
	for _, sh := range shapes {
		tags = append(tags, "reg-step="+sh)
	}
	return term, desc, tags
}

// runHistoryCase drives k plugin messages on registered channels through one handler instance. The
// PluginMessageEvent subscriber of message i records Data(), then blocks until message i+1 has been
// handled (channel-gated), records Data() again and allows forwarding; the write of message i is
// awaited before the next gate opens, so the j-th write belongs to the j-th message.
func runHistoryCase(r *lib.Rng, handler int) (string, map[string]any, []string) {
	const wait = 5 * time.Second
	k := r.Range(2, 4)
	shape := r.PickS("equal", "equal", "decreasing", "decreasing", "increasing")
	base := r.Pick(4, 8, 18, 40)
	type hm struct {
		channel string
		data    []byte
		payload []byte
	}
	msgs := make([]hm, k)
	for i := range msgs {
		n := base
		switch shape {
		case "decreasing":
			n = base + (k-1-i)*r.Range(1, 3)
		case "increasing":
			n = base + i*r.Range(1, 3)
		}
		ch := r.PickS("my:chan", "my:chan", "x:y")
		d := r.Bytes(n)
		msgs[i] = hm{ch, d, payloadOf(ch, d)}
	}
	prot := version.Minecraft_1_20_2.Protocol
	mgr := event.New()
	reg := message.NewChannelRegistrar()
	for _, c := range []string{"my:chan", "x:y"} {
		id, _ := message.ChannelIdentifierFrom(c)
		reg.Register(id)
	}
	client := pmsg.NewConn(0, state.Play, prot)
	backend := pmsg.NewConn(1, state.Play, prot)
	env := proxy.VerifC25NewEnv(client, mgr, reg, phase.VanillaClientPhase)
	sa := env.NewServer("alpha", backend, phase.VanillaBackendPhase)
	env.SetConnectedServer(sa)

	var mu sync.Mutex
	type wrec struct {
		conn int
		w    pmsg.Write
	}
	var writes []wrec
	wrote := make(chan struct{}, 64)
	hook := func(id int) func(pmsg.Write) {
		return func(w pmsg.Write) {
			mu.Lock()
			writes = append(writes, wrec{id, w})
			mu.Unlock()
			wrote <- struct{}{}
		}
	}
	starts, ends := make([][]byte, k), make([][]byte, k)
	started := make([]chan struct{}, k)
	gates := make([]chan struct{}, k)
	for i := range gates {
		started[i], gates[i] = make(chan struct{}), make(chan struct{})
	}
	next := 0
	hang := ""
	event.Subscribe(mgr, 0, func(e *proxy.PluginMessageEvent) {
		mu.Lock()
		i := next
		next++
		mu.Unlock()
		if i >= k {
			return
		}
		starts[i] = append([]byte{}, e.Data()...)
		close(started[i])
		select {
		case <-gates[i]:
		case <-time.After(wait):
		}
		ends[i] = append([]byte{}, e.Data()...)
		e.SetForward(true)
	})
	var h netmc.SessionHandler
	switch handler {
	case 0:
		h = env.ClientPlayHandler()
	case 1:
		h = env.ClientConfigHandler()
		_ = proxy.VerifC24FlushConfig(h, sa)
	case 2:
		h = sa.BackendConfigHandler()
	case 3:
		h = sa.BackendPlayHandler()
	}
	client.Hook, backend.Hook = hook(0), hook(1)
	dir := gproto.ServerBound
	if handler >= 2 {
		dir = gproto.ClientBound
	}
	awaitWrite := func(i int) {
		select {
		case <-wrote:
		case <-time.After(wait):
			hang = fmt.Sprintf("no write for message %d", i)
		}
	}
	for i, m := range msgs {
		pc := &gproto.PacketContext{Direction: dir, Protocol: prot, PacketID: 0x18,
			Packet: &plugin.Message{Channel: m.channel, Data: append([]byte(nil), m.data...)}, Payload: append([]byte(nil), m.payload...)}
		h.HandlePacket(pc)
		select {
		case <-started[i]:
		case <-time.After(wait):
			hang = fmt.Sprintf("subscriber of message %d never started", i)
		}
		if i > 0 {
			close(gates[i-1]) // message i has been handled: the subscriber of message i-1 may go on
			awaitWrite(i - 1)
		}
	}
	close(gates[k-1])
	awaitWrite(k - 1)
	mgr.Wait()

	envT := lib.App("mkEnv", "true", lib.N(0), srvTerm(srvSpec{present: true, hasConn: true, play: true, writeOK: true}, 1), "None",
		"true", "true", "SAllow", lib.Bool(handler == 1))
	msgT := lib.ListOf(msgs, func(m hm) string {
		return lib.App("mkMsg", lib.Str(m.channel), lib.Bytes(m.data), lib.Bytes(m.payload))
	})
	mu.Lock()
	ws := append([]wrec(nil), writes...)
	mu.Unlock()
	obs := make([]string, k)
	stable := true
	for i := range msgs {
		var wt []string
		if i < len(ws) {
			w := ws[i]
			switch w.w.Kind {
			case "raw":
				wt = append(wt, lib.App("WRaw", lib.N(uint64(w.conn)), lib.Bytes(w.w.Payload)))
			case "pkt":
				wt = append(wt, lib.App("WPkt", lib.N(uint64(w.conn)), lib.Bool(w.w.OK), lib.Str(w.w.Channel), lib.Bytes(w.w.Data)))
			default:
				wt = append(wt, lib.App("WPkt", lib.N(uint64(w.conn)), "false", lib.Str("<"+w.w.Type+">"), "[]"))
			}
		}
		if i == k-1 && len(ws) > k { // more writes than messages: show them on the last one
			wt = append(wt, lib.App("WPkt", lib.N(99), "false", lib.Str("<extra>"), "[]"))
		}
		if hang != "" && i == 0 {
			wt = append(wt, lib.App("WPkt", lib.N(99), "false", lib.Str("<hang>"), "[]"))
		}
		if !bytes.Equal(starts[i], ends[i]) {
			stable = false
		}
		obs[i] = lib.App("mkH", lib.Bytes(starts[i]), lib.Bytes(ends[i]), lib.List(wt))
	}
	term := lib.App("Check.C25.mkHist", handlerNames[handler], envT, msgT, lib.List(obs))
	lens := make([]int, k)
	for i, m := range msgs {
		lens[i] = len(m.data)
	}
	desc := map[string]any{"kind": "history", "handler": handlerNames[handler], "messages": k, "body_lengths": lens, "shape": shape,
		"bodies_hex":        lib.ListOf(msgs, func(m hm) string { return fmt.Sprintf("%s:%x", m.channel, m.data) }),
		"event_data_stable": stable, "writes": len(ws), "hang": hang}
	return term, desc, []string{"handler=" + handlerNames[handler], "kind=history", "history-lengths=" + shape, fmt.Sprintf("history-messages=%d", k)}
}

func runCase(c caseSpec) (string, map[string]any, bool, []string) {
	prot := version.Minecraft_1_12_2.Protocol
	if c.ver13 {
		prot = version.Minecraft_1_20_2.Protocol
	}
	mgr := event.New()
	reg := message.NewChannelRegistrar()
	known := false
	if c.known {
		if id, err := message.ChannelIdentifierFrom(c.channel); err == nil && id.ID() == c.channel {
			reg.Register(id)
			known = true
		}
	}
	client := pmsg.NewConn(0, state.Play, prot)
	cphase := phase.VanillaClientPhase
	if !c.clientComplete {
		cphase = phase.NotStartedLegacyForgeHandshakeClientPhase
	}
	env := proxy.VerifC25NewEnv(client, mgr, reg, cphase)
	for i := 0; i < c.existing; i++ {
		env.AddClientsideChannels(fmt.Sprintf("zz:c%d", i))
	}
	bphases := []phase.BackendConnectionPhase{phase.VanillaBackendPhase, phase.UnknownBackendPhase, phase.InTransitionBackendPhase}
	conns := []*pmsg.Conn{client, nil, nil}
	mkSrv := func(s srvSpec, id int, name string) *proxy.VerifC25Server {
		if !s.present {
			return nil
		}
		st := state.Play
		if !s.play {
			st = state.Config
		}
		bc := pmsg.NewConn(id, st, prot)
		bc.FailWrite = !s.writeOK
		conns[id] = bc
		var mc netmc.MinecraftConn
		if s.hasConn {
			mc = bc
		}
		srv := env.NewServer(name, mc, bphases[s.phase])
		return srv
	}
	sa := mkSrv(c.connected, 1, "alpha")
	sb := mkSrv(c.inflight, 2, "beta")
	env.SetConnectedServer(sa)
	env.SetInFlight(sb)

	var mu sync.Mutex
	var evs []evRec
	event.Subscribe(mgr, 0, func(e *proxy.PlayerChannelRegisterEvent) {
		mu.Lock()
		evs = append(evs, evRec{kind: "reg", chs: idsOf(e.Channels())})
		mu.Unlock()
	})
	event.Subscribe(mgr, 0, func(e *proxy.PlayerChannelUnregisterEvent) {
		mu.Lock()
		evs = append(evs, evRec{kind: "unreg", chs: idsOf(e.Channels())})
		mu.Unlock()
	})
	event.Subscribe(mgr, 0, func(e *proxy.PluginMessageEvent) {
		mu.Lock()
		evs = append(evs, evRec{kind: "pm", id: e.Identifier().ID(), data: append([]byte(nil), e.Data()...)})
		mu.Unlock()
		switch c.sub {
		case 1:
			e.SetForward(true)
		case 2:
			e.SetForward(false)
		}
	})

	var h netmc.SessionHandler
	ready := false
	switch c.handler {
	case 0:
		h = env.ClientPlayHandler()
	case 1:
		h = env.ClientConfigHandler()
		if c.ready {
			t := sb
			if t == nil {
				t = sa
			}
			if t != nil && proxy.VerifC24FlushConfig(h, t) == nil {
				ready = true
			}
		}
	case 2:
		h = sa.BackendConfigHandler()
	case 3:
		h = sa.BackendPlayHandler()
	}
	// closing happens after construction (a closed connection stays attached to its serverConnection)
	if c.connected.present && c.connected.closed {
		conns[1].Close()
	}
	if c.inflight.present && c.inflight.closed {
		conns[2].Close()
	}
	for _, cn := range conns {
		if cn != nil {
			cn.Reset()
		}
	}
	payload := payloadOf(c.channel, c.data)
	dir := gproto.ServerBound
	if c.handler >= 2 {
		dir = gproto.ClientBound
	}
	pc := &gproto.PacketContext{Direction: dir, Protocol: prot, PacketID: 0x18,
		Packet: &plugin.Message{Channel: c.channel, Data: append([]byte(nil), c.data...)}, Payload: payload}
	panicked := ""
	func() {
		defer func() {
			if r := recover(); r != nil {
				panicked = fmt.Sprint(r)
			}
		}()
		h.HandlePacket(pc)
	}()
	mgr.Wait()

	isBrand := plugin.McBrand(&plugin.Message{Channel: c.channel})
	var evT, wrT []string
	mu.Lock()
	for _, e := range evs {
		switch e.kind {
		case "reg":
			evT = append(evT, lib.App("ERegister", lib.ListOf(e.chs, lib.Str)))
		case "unreg":
			evT = append(evT, lib.App("EUnregister", lib.ListOf(e.chs, lib.Str)))
		case "pm":
			evT = append(evT, lib.App("EPM", lib.Str(e.id), lib.Bytes(e.data)))
		}
	}
	nev := len(evs)
	mu.Unlock()
	nwr := 0
	for id, cn := range conns {
		if cn == nil {
			continue
		}
		for _, w := range cn.Writes() {
			nwr++
			switch {
			case w.Kind == "raw":
				wrT = append(wrT, lib.App("WRaw", lib.N(uint64(id)), lib.Bytes(w.Payload)))
			case w.Kind == "pkt" && isBrand:
				wrT = append(wrT, lib.App("WBrand", lib.N(uint64(id)), lib.Str(w.Channel)))
			case w.Kind == "pkt":
				wrT = append(wrT, lib.App("WPkt", lib.N(uint64(id)), lib.Bool(w.OK), lib.Str(w.Channel), lib.Bytes(w.Data)))
			default: // a packet type the model has no word for: shows up as a mismatch
				wrT = append(wrT, lib.App("WPkt", lib.N(uint64(id)), lib.Bool(w.OK), lib.Str("<"+w.Type+">"), "[]"))
			}
		}
	}
	if panicked != "" {
		wrT = append(wrT, lib.App("WPkt", lib.N(99), "false", lib.Str("<panic>"), "[]"))
	}
	queued := false
	if c.handler <= 1 {
		cnt, _, _ := proxy.VerifC24QueueStats(h)
		queued = cnt > 0
	}
	envT := lib.App("mkEnv", lib.Bool(c.ver13), lib.N(uint64(c.existing)), srvTerm(c.connected, 1), srvTerm(c.inflight, 2),
		lib.Bool(c.clientComplete), lib.Bool(known), subNames[c.sub], lib.Bool(ready))
	msgT := lib.App("mkMsg", lib.Str(c.channel), lib.Bytes(c.data), lib.Bytes(payload))
	obsT := lib.App("mkOut", lib.List(evT), lib.List(wrT), lib.Bool(queued))
	term := lib.App("Check.C25.mk", handlerNames[c.handler], envT, msgT, obsT)
	desc := map[string]any{"handler": handlerNames[c.handler], "channel": c.channel, "data_hex": fmt.Sprintf("%x", trunc(c.data, 200)),
		"data_len": len(c.data), "ver13": c.ver13, "existing": c.existing, "connected": fmt.Sprintf("%+v", c.connected),
		"inflight": fmt.Sprintf("%+v", c.inflight), "client_complete": c.clientComplete, "known": known, "sub": subNames[c.sub],
		"ready": ready, "events": nev, "writes": nwr, "queued": queued, "panic": panicked}
	tags := []string{"handler=" + handlerNames[c.handler], "kind=" + c.kindTag, fmt.Sprintf("events=%d", nev), fmt.Sprintf("writes=%d", nwr)}
	if queued {
		tags = append(tags, "queued")
	}
	return term, desc, nev > 0 || nwr > 0 || queued, tags
}

func trunc(b []byte, n int) []byte {
	if len(b) > n {
		return b[:n]
	}
	return b
}
