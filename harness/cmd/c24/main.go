// C24 harness: drives sequential histories of client plugin messages, flushes and switches through
// the real clientConfigSessionHandler / clientPlaySessionHandler (built by the verif hooks over
// recording connections) and writes the observed backend writes, disconnects and queue counters for
// the Coq side to judge against the queue machine of coq/Model/PluginQueue.v.
package main

import (
	"fmt"
	"strconv"
	"strings"
	"sync"
	"sync/atomic"
	"time"

	"github.com/robinbraemer/event"

	"go.minekube.com/gate/pkg/edition/java/netmc"
	"go.minekube.com/gate/pkg/edition/java/proto/packet/plugin"
	"go.minekube.com/gate/pkg/edition/java/proto/state"
	"go.minekube.com/gate/pkg/edition/java/proto/version"
	"go.minekube.com/gate/pkg/edition/java/proxy"
	"go.minekube.com/gate/pkg/edition/java/proxy/message"
	"go.minekube.com/gate/pkg/edition/java/proxy/phase"
	gproto "go.minekube.com/gate/pkg/gate/proto"

	"verifharness/lib"
	"verifharness/pmsg"
)

const (
	maxMsgs  = 1024
	maxBytes = 4 * 1024 * 1024
)

type opSpec struct {
	kind  int // 0 message, 1 flush, 2 switch
	tgt   int // message: 0 none, 1, 2; flush: 1, 2
	size  int
	noCon bool
	probe bool // config flush: a client message arrives while the flush is writing
}

func (o opSpec) term() string {
	switch o.kind {
	case 0:
		t := "None"
		if o.tgt != 0 {
			t = lib.Some(lib.N(uint64(o.tgt)))
		}
		return lib.App("OMsg", t, lib.N(uint64(o.size)))
	case 1:
		r := "FOk"
		if o.noCon {
			r = "FNoConn"
		}
		return lib.App("OFlush", lib.N(uint64(o.tgt)), r)
	}
	return "OSwitch"
}

type outRec struct {
	disconnect bool
	srv, id    int
	size       int
}

type result struct {
	outs             []outRec
	maxLen, maxBytes int
	ln, bytes        int
	ovf              bool
	probeEarly       bool // the concurrent message got through while the flush was still writing
	hang             bool
	bad              string
}

type world struct {
	kind     int // 0 config, 1 pre-join
	env      *proxy.VerifC25Env
	client   *pmsg.Conn
	conns    [3]*pmsg.Conn
	srv      [3]*proxy.VerifC25Server
	h        netmc.SessionHandler
	readyFor int
	next     int
	mu       sync.Mutex
	outs     []outRec
	res      result
}

func newWorld(kind int) *world {
	w := &world{kind: kind}
	prot := version.Minecraft_1_20_2.Protocol
	if kind == 1 {
		prot = version.Minecraft_1_12_2.Protocol
	}
	mgr := event.New()
	w.client = pmsg.NewConn(0, state.Play, prot)
	w.client.Hook = func(wr pmsg.Write) {
		if wr.Kind == "other" && strings.HasSuffix(wr.Type, "packet.Disconnect") {
			w.mu.Lock()
			w.outs = append(w.outs, outRec{disconnect: true})
			w.mu.Unlock()
		}
	}
	w.env = proxy.VerifC25NewEnv(w.client, mgr, message.NewChannelRegistrar(), phase.NotStartedLegacyForgeHandshakeClientPhase)
	for i := 1; i <= 2; i++ {
		i := i
		c := pmsg.NewConn(i, state.Play, prot)
		c.Hook = func(wr pmsg.Write) { w.logWrite(i, wr) }
		w.conns[i] = c
		w.srv[i] = w.env.NewServer([]string{"", "alpha", "beta"}[i], c, phase.VanillaBackendPhase)
	}
	w.newHandler()
	return w
}

func (w *world) logWrite(srv int, wr pmsg.Write) {
	if wr.Kind != "pkt" || !strings.HasPrefix(wr.Channel, "q:m") {
		w.mu.Lock()
		w.res.bad = fmt.Sprintf("unexpected write on backend %d: %+v", srv, wr.Kind+" "+wr.Channel+" "+wr.Type)
		w.mu.Unlock()
		return
	}
	id, _ := strconv.Atoi(wr.Channel[3:])
	w.mu.Lock()
	w.outs = append(w.outs, outRec{srv: srv, id: id, size: len(wr.Data)})
	w.mu.Unlock()
}

func (w *world) newHandler() {
	if w.kind == 0 {
		w.h = w.env.ClientConfigHandler()
	} else {
		w.h = w.env.ClientPlayHandler()
	}
}

func (w *world) packet(size int) *gproto.PacketContext {
	id := w.next
	w.next++
	return &gproto.PacketContext{Direction: gproto.ServerBound, Protocol: w.client.Proto, PacketID: 0x0d,
		Packet: &plugin.Message{Channel: "q:m" + strconv.Itoa(id), Data: make([]byte, size)}, Payload: []byte{0x0d}}
}

func (w *world) setTarget(t int) {
	var s *proxy.VerifC25Server
	if t != 0 {
		s = w.srv[t]
	}
	if w.kind == 0 {
		w.env.SetInFlight(s)
		w.env.SetConnectedServer(nil)
	} else {
		w.env.SetInFlight(nil)
		w.env.SetConnectedServer(s)
		// environment script: phases towards t are complete from the flush towards t on
		if t != 0 && w.readyFor == t {
			w.env.SetClientPhase(phase.VanillaClientPhase)
		} else {
			w.env.SetClientPhase(phase.NotStartedLegacyForgeHandshakeClientPhase)
		}
	}
}

func (w *world) apply(o opSpec) {
	switch o.kind {
	case 0:
		w.setTarget(o.tgt)
		w.h.HandlePacket(w.packet(o.size))
	case 1:
		s := w.srv[o.tgt]
		if o.noCon {
			s.VerifC24SetConn(nil)
		}
		if w.kind == 0 {
			if o.probe {
				w.setTarget(o.tgt) // the racing message is for the backend being flushed
				w.probeFlush(o.tgt)
			} else {
				_ = proxy.VerifC24FlushConfig(w.h, s)
			}
		} else {
			w.env.SetConnectedServer(s)
			w.h.(interface{ FlushQueuedPluginMessages() }).FlushQueuedPluginMessages()
			if !o.noCon {
				w.readyFor = o.tgt
			}
		}
		if o.noCon {
			s.VerifC24SetConn(w.conns[o.tgt])
		}
	case 2:
		if w.kind == 0 {
			w.newHandler() // entering a new CONFIG phase installs a fresh handler
		} else {
			w.h.Deactivated()
			w.readyFor = 0
		}
	}
	ln, by, _ := proxy.VerifC24QueueStats(w.h)
	if ln > w.res.maxLen {
		w.res.maxLen = ln
	}
	if by > w.res.maxBytes {
		w.res.maxBytes = by
	}
}

// probeFlush: while flushQueuedPluginMessagesTo is inside its first backend write, the client
// goroutine hands the next plugin message to the handler. With h.mu held across drain, write and
// the readyServer update the message cannot get through before the flush is done.
func (w *world) probeFlush(tgt int) {
	c := w.conns[tgt]
	orig := c.Hook
	var once sync.Once
	var done atomic.Bool
	fin := make(chan struct{})
	started := false
	late := w.packet(5)
	c.Hook = func(wr pmsg.Write) {
		orig(wr)
		once.Do(func() {
			started = true
			go func() {
				w.h.HandlePacket(late)
				done.Store(true)
				close(fin)
			}()
			time.Sleep(4 * time.Millisecond)
			if done.Load() {
				w.res.probeEarly = true
			}
		})
	}
	_ = proxy.VerifC24FlushConfig(w.h, w.srv[tgt])
	c.Hook = orig
	if !started { // empty queue: nothing was written, the message simply comes afterwards
		w.h.HandlePacket(late)
		return
	}
	select {
	case <-fin:
	case <-time.After(3 * time.Second):
		w.res.hang = true
	}
}

func runHistory(kind int, ops []opSpec) result {
	w := newWorld(kind)
	for _, o := range ops {
		w.apply(o)
	}
	w.res.ln, w.res.bytes, w.res.ovf = proxy.VerifC24QueueStats(w.h)
	w.mu.Lock()
	w.res.outs = append([]outRec(nil), w.outs...)
	w.mu.Unlock()
	return w.res
}

// ---------- generators ----------

func msgs(n, tgt int, size func(i int) int) []opSpec {
	out := make([]opSpec, n)
	for i := range out {
		out[i] = opSpec{kind: 0, tgt: tgt, size: size(i)}
	}
	return out
}

func flush(t int) opSpec { return opSpec{kind: 1, tgt: t} }

func genRandom(r *lib.Rng) []opSpec {
	n := r.Range(4, 40)
	main := r.Pick(1, 1, 1, 2)
	var ops []opSpec
	for i := 0; i < n; i++ {
		switch k := r.Intn(100); {
		case k < 64:
			t := main
			if r.Chance(1, 8) {
				t = r.Pick(0, 1, 2)
			}
			ops = append(ops, opSpec{kind: 0, tgt: t, size: r.Pick(0, 1, 5, 60, 300, 70000)})
		case k < 90:
			t := main
			if r.Chance(1, 6) {
				t = 3 - main
			}
			ops = append(ops, opSpec{kind: 1, tgt: t, noCon: r.Chance(1, 9)})
		default:
			ops = append(ops, opSpec{kind: 2})
			if r.Chance(1, 2) {
				main = r.Pick(1, 2)
			}
		}
	}
	return ops
}

// count boundary: 1023 / 1024 / 1025 / 1026 messages before the flush
func genCount(r *lib.Rng) []opSpec {
	n := r.Pick(1023, 1024, 1025, 1026)
	var ops []opSpec
	pre := 0
	if r.Chance(1, 3) { // an earlier flush towards another server resets nothing but the byte counter
		pre = r.Range(1, 5)
		ops = append(ops, msgs(pre, 1, func(int) int { return r.Intn(4) })...)
		ops = append(ops, flush(2))
	}
	ops = append(ops, msgs(n, 1, func(int) int { return r.Intn(4) })...)
	ops = append(ops, flush(1))
	ops = append(ops, msgs(r.Range(1, 3), 1, func(int) int { return r.Intn(9) })...)
	if r.Chance(1, 2) {
		ops = append(ops, opSpec{kind: 2})
		ops = append(ops, msgs(r.Range(1, 4), 1, func(int) int { return 2 })...)
		ops = append(ops, flush(1))
	}
	return ops
}

// byte boundary: sizes summing to 4 MiB - 1 / 4 MiB / 4 MiB + 1 (and one oversized single message)
func genBytes(r *lib.Rng) []opSpec {
	total := maxBytes + r.Pick(-1, 0, 1)
	k := r.Range(1, 6)
	sizes := make([]int, k)
	left := total
	for i := 0; i < k-1; i++ {
		sizes[i] = r.Intn(left/2 + 1)
		left -= sizes[i]
	}
	sizes[k-1] = left
	var ops []opSpec
	ops = append(ops, msgs(k, 1, func(i int) int { return sizes[i] })...)
	if r.Chance(1, 2) {
		ops = append(ops, opSpec{kind: 0, tgt: 1, size: r.Pick(0, 1)}) // the one that may tip it over
	}
	ops = append(ops, flush(1))
	ops = append(ops, msgs(2, 1, func(int) int { return 7 })...)
	return ops
}

// refill after a flush: the byte counter must start from zero again (a flush towards the other
// backend empties the queue but leaves this target unready, so the next messages are queued again)
func genRefill(r *lib.Rng) []opSpec {
	part := func(total, k int) []int {
		sizes := make([]int, k)
		left := total
		for i := 0; i < k-1; i++ {
			sizes[i] = r.Intn(left/2 + 1)
			left -= sizes[i]
		}
		sizes[k-1] = left
		return sizes
	}
	a := part(r.Range(maxBytes/2, maxBytes), r.Range(1, 4))
	b := part(maxBytes+r.Pick(-1, 0, 0, 1), r.Range(1, 4))
	var ops []opSpec
	ops = append(ops, msgs(len(a), 1, func(i int) int { return a[i] })...)
	ops = append(ops, flush(2))
	ops = append(ops, msgs(len(b), 1, func(i int) int { return b[i] })...)
	ops = append(ops, flush(1))
	ops = append(ops, msgs(1, 1, func(int) int { return 3 })...)
	return ops
}

// life after an overflow: swallowed messages, flush, direct delivery, switch, second overflow
func genAfterOverflow(r *lib.Rng) []opSpec {
	var ops []opSpec
	ops = append(ops, msgs(r.Range(0, 3), 1, func(int) int { return 10 })...)
	ops = append(ops, opSpec{kind: 0, tgt: 1, size: maxBytes + r.Pick(-9, 1, 100)}) // overflow by bytes (mostly)
	ops = append(ops, msgs(r.Range(1, 4), 1, func(int) int { return 3 })...)
	for i, n := 0, r.Range(2, 7); i < n; i++ {
		switch r.Intn(4) {
		case 0:
			ops = append(ops, flush(r.Pick(1, 1, 2)))
		case 1:
			ops = append(ops, opSpec{kind: 2})
		case 2:
			ops = append(ops, opSpec{kind: 0, tgt: 1, size: maxBytes + 1})
		default:
			ops = append(ops, msgs(r.Range(1, 3), 1, func(int) int { return 4 })...)
		}
	}
	return ops
}

// a client message racing with the flush (config queue only)
func genProbe(r *lib.Rng) []opSpec {
	var ops []opSpec
	ops = append(ops, msgs(r.Range(0, 6), 1, func(int) int { return r.Intn(50) })...)
	ops = append(ops, opSpec{kind: 1, tgt: 1, probe: true})
	ops = append(ops, msgs(r.Range(0, 2), 1, func(int) int { return 1 })...)
	return ops
}

func main() {
	f := lib.ParseFlags()
	rng := lib.NewRng(f.Seed)
	out := lib.NewOut("C24", f)
	out.Imports = "From Verif Require Import Model.PluginQueue.\n"
	out.Rule = "sequential histories over two backends through the real handler, alternating the config-phase queue and the pre-join queue; random histories of 4..40 operations (64% messages mostly for one target, 26% flushes incl. 1/9 without connection, 10% switches), count-boundary histories (1023/1024/1025/1026 messages then flush), byte-boundary histories (1..6 sizes summing to 4 MiB-1/4 MiB/4 MiB+1, optional tipping message), refill histories (2..4 MiB, flush towards the other backend, then 4 MiB-1/4 MiB/4 MiB+1 again), post-overflow histories (swallowed messages, flush, switch, second overflow) and, for the config queue, flushes with a client message arriving from a second goroutine during the first backend write; distinct = distinct Coq term; non-trivial = at least one message delivered or an overflow"
	type genT struct {
		name string
		n    int
		g    func(*lib.Rng) []opSpec
		cfg  bool // config queue only
	}
	gens := []genT{{"random", f.Count(170), genRandom, false}, {"count-boundary", f.Count(10), genCount, false},
		{"byte-boundary", f.Count(16), genBytes, false}, {"refill-after-flush", f.Count(10), genRefill, false}, {"after-overflow", f.Count(16), genAfterOverflow, false},
		{"flush-race-probe", f.Count(12), genProbe, true}}
	early, hangs := 0, 0
	for _, g := range gens {
		for i := 0; i < g.n; i++ {
			r := rng.Fork()
			kind := i % 2
			if g.cfg {
				kind = 0
			}
			ops := g.g(r)
			var res result
			if out.Wanted() {
				res = runHistory(kind, ops)
			}
			if res.probeEarly {
				early++
			}
			if res.hang {
				hangs++
			}
			// the Coq history: a probe flush is "flush, then the late message"
			var terms []string
			for _, o := range ops {
				terms = append(terms, o.term())
				if o.probe {
					terms = append(terms, opSpec{kind: 0, tgt: o.tgt, size: 5}.term())
				}
			}
			outsT := make([]string, len(res.outs))
			delivered, disc := 0, 0
			for j, e := range res.outs {
				if e.disconnect {
					outsT[j] = "Disconnect"
					disc++
				} else {
					outsT[j] = lib.App("Deliver", lib.N(uint64(e.srv)), lib.N(uint64(e.id)), lib.N(uint64(e.size)))
					delivered++
				}
			}
			if res.bad != "" || res.hang { // cannot be a delivery the model knows: make it visible
				outsT = append(outsT, lib.App("Deliver", lib.N(99), lib.N(0), lib.N(0)))
			}
			kindT := []string{"QConfig", "QPreJoin"}[kind]
			term := lib.App("Check.C24.mk", kindT, lib.List(terms), lib.List(outsT), lib.N(uint64(res.maxLen)), lib.N(uint64(res.maxBytes)),
				lib.N(uint64(res.ln)), lib.N(uint64(res.bytes)), lib.Bool(res.ovf))
			desc := map[string]any{"queue": kindT, "generator": g.name, "ops": len(terms), "ops_head": headOps(terms, 12),
				"delivered": delivered, "disconnects": disc, "max_len": res.maxLen, "max_bytes": res.maxBytes,
				"final_len": res.ln, "final_bytes": res.bytes, "overflowed": res.ovf, "probe_early": res.probeEarly, "hang": res.hang, "bad": res.bad}
			tags := []string{"queue=" + kindT, "gen=" + g.name, fmt.Sprintf("disconnects=%d", disc)}
			if res.maxLen == maxMsgs {
				tags = append(tags, "reached-1024-messages")
			}
			if res.maxBytes == maxBytes {
				tags = append(tags, "reached-4MiB")
			}
			out.Add(term, desc, delivered > 0 || disc > 0, tags...)
		}
	}
	out.Extra("flush_race_probe_message_got_through_during_write", early)
	out.Extra("hangs", hangs)
	out.Finish()
}

func headOps(t []string, n int) []string {
	if len(t) > n {
		return append(append([]string{}, t[:n]...), fmt.Sprintf("... %d more", len(t)-n))
	}
	return t
}
