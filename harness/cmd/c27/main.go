// C27 harness: runs generated histories of QueueResourcePack / OnResourcePackResponse / Remove /
// ClearAppliedResourcePacks on the handler the real resourcepack.NewHandler returns for a fake
// player of a given protocol, every call in its own goroutine under a 2 s watchdog, and writes
// what each call made visible for the Coq side to judge.
package main

import (
	"encoding/hex"
	"fmt"
	"runtime"
	"sort"
	"strconv"
	"strings"
	"sync"
	"time"

	"go.minekube.com/common/minecraft/component"
	"go.minekube.com/gate/pkg/edition/java/proto/packet"
	"go.minekube.com/gate/pkg/edition/java/proto/state"
	"go.minekube.com/gate/pkg/edition/java/proxy"
	"go.minekube.com/gate/pkg/gate/proto"
	"go.minekube.com/gate/pkg/util/uuid"

	"verifharness/lib"
)

const (
	watchdog    = 2 * time.Second  // a call that has not returned by then is examined
	watchdogMax = 40 * time.Second // a call whose goroutine is still runnable is given this long (loaded machine)
)

// goid returns the id of the calling goroutine (first line of its stack dump: "goroutine 12 [running]:").
func goid() string {
	buf := make([]byte, 64)
	n := runtime.Stack(buf, false)
	f := strings.Fields(string(buf[:n]))
	if len(f) > 1 {
		return f[1]
	}
	return "?"
}

// One goroutine dump serves every history whose watchdog fired before it was taken.
var (
	dumpMu     sync.Mutex
	dumpAt     time.Time
	dumpStates map[string]string
)

func statesSince(t time.Time) map[string]string {
	dumpMu.Lock()
	defer dumpMu.Unlock()
	if dumpStates != nil && dumpAt.After(t) {
		return dumpStates
	}
	buf := make([]byte, 8<<20)
	n := runtime.Stack(buf, true)
	at := time.Now()
	st := map[string]string{}
	for _, blk := range strings.Split(string(buf[:n]), "\n\n") {
		if !strings.HasPrefix(blk, "goroutine ") {
			continue
		}
		rest := blk[len("goroutine "):]
		i := strings.Index(rest, " [")
		j := strings.IndexByte(rest, ']')
		if i < 0 || j < i {
			continue
		}
		st[rest[:i]] = rest[i+2 : j]
	}
	dumpAt, dumpStates = at, st
	return st
}

// goroutineBlocked reports whether the goroutine is parked (waiting for a lock, a channel, ...)
// as opposed to running or runnable but starved; unknown if it cannot be found in the dump.
func goroutineBlocked(id string, since time.Time) (blocked, known bool) {
	st, ok := statesSince(since)[id]
	if !ok {
		return false, false
	}
	for _, p := range []string{"running", "runnable", "syscall", "GC ", "preempted", "copystack"} {
		if strings.HasPrefix(st, p) {
			return false, true
		}
	}
	return true, true
}

// ---- ids, hashes ----

func idOf(i int) uuid.UUID {
	var u uuid.UUID
	if i != 0 {
		u[0], u[7], u[15] = 0xc2, 0x27, byte(i)
	}
	return u
}

func idxOf(u uuid.UUID) int {
	if u == uuid.Nil {
		return 0
	}
	return int(u[15])
}

func hashOf(h int) []byte {
	if h == 0 {
		return nil
	}
	b := make([]byte, 20)
	for i := range b {
		b[i] = byte(h)
	}
	return b
}

// ---- recording player / backend ----

type recorder struct {
	mu  sync.Mutex
	evs []string
}

func (r *recorder) add(s string) { r.mu.Lock(); r.evs = append(r.evs, s); r.mu.Unlock() }
func (r *recorder) take() []string {
	r.mu.Lock()
	defer r.mu.Unlock()
	out := r.evs
	r.evs = nil
	return out
}

var statusNames = []string{"Successful", "Declined", "FailedDownload", "Accepted", "Downloaded", "InvalidURL", "FailedReload", "Discarded"}

type backendWriter struct{ rec *recorder }

func (b *backendWriter) WritePacket(p proto.Packet) error {
	switch x := p.(type) {
	case *packet.ResourcePackResponse:
		h := 0
		if len(x.Hash) > 0 {
			h = int(x.Hash[0])
		}
		st := "InvalidStatus"
		if int(x.Status) >= 0 && int(x.Status) < len(statusNames) {
			st = statusNames[x.Status]
		}
		b.rec.add(lib.App("ORep", lib.N(uint64(idxOf(x.ID))), lib.N(uint64(h)), st))
	default:
		b.rec.add(fmt.Sprintf("(UnexpectedBackendPacket %T)", p))
	}
	return nil
}

type fakePlayer struct {
	protocol proto.Protocol
	rec      *recorder
	backend  *backendWriter // nil: no backend in flight
}

func (f *fakePlayer) ID() uuid.UUID { return idOf(200) }
func (f *fakePlayer) WritePacket(p proto.Packet) error {
	switch x := p.(type) {
	case *packet.ResourcePackRequest:
		uid, err := strconv.Atoi(strings.TrimPrefix(x.URL, "http://p/"))
		if err != nil {
			uid = 999999
		}
		h := 0
		if x.Hash != "" {
			raw, err := hex.DecodeString(x.Hash)
			if err != nil || len(raw) == 0 {
				h = 255
			} else {
				h = int(raw[0])
			}
		}
		f.rec.add(lib.App("OReq", lib.N(uint64(uid)), lib.N(uint64(idxOf(x.ID))), lib.N(uint64(h)), lib.Bool(x.Required)))
	default:
		f.rec.add(fmt.Sprintf("(UnexpectedPlayerPacket %T)", p))
	}
	return nil
}
func (f *fakePlayer) BundleHandler() *proxy.VerifC27BundleDelimiterHandler { return nil }
func (f *fakePlayer) State() *state.Registry                               { return state.Play }
func (f *fakePlayer) Protocol() proto.Protocol                             { return f.protocol }
func (f *fakePlayer) BackendInFlight() proto.PacketWriter {
	if f.backend == nil {
		return nil
	}
	return f.backend
}
func (f *fakePlayer) Disconnect(component.Component) {}

// ---- histories ----

type op struct {
	Kind    string `json:"kind"` // queue | response | remove | clear
	ID      int    `json:"id"`
	Hash    int    `json:"hash,omitempty"`
	Force   bool   `json:"force,omitempty"`
	Backend bool   `json:"backend,omitempty"`
	Status  int    `json:"status,omitempty"`
}

func (o op) coq() string {
	switch o.Kind {
	case "queue":
		return lib.App("Queue", lib.N(uint64(o.ID)), lib.N(uint64(o.Hash)), lib.Bool(o.Force), lib.Bool(o.Backend))
	case "response":
		return lib.App("Response", lib.App("mkBundle", lib.N(uint64(o.ID)), lib.N(uint64(o.Hash)), statusNames[o.Status]))
	case "remove":
		return lib.App("Remove", lib.N(uint64(o.ID)))
	}
	return "Clear"
}

type stepObs struct {
	Events  []string `json:"events"`
	Ret     string   `json:"ret"`
	Applied [][2]int `json:"applied"`
	Pending [][2]int `json:"pending"`
}

func (s stepObs) coq() string {
	pr := func(xs [][2]int) string {
		return lib.ListOf(xs, func(p [2]int) string { return lib.Pair(lib.N(uint64(p[0])), lib.N(uint64(p[1]))) })
	}
	return lib.App("mkStep", lib.List(s.Events), s.Ret, pr(s.Applied), pr(s.Pending))
}

func proj(infos []*proxy.VerifC27Info) [][2]int {
	out := [][2]int{}
	for _, i := range infos {
		if i == nil {
			out = append(out, [2]int{254, 999999})
			continue
		}
		uid, err := strconv.Atoi(strings.TrimPrefix(i.URL, "http://p/"))
		if err != nil {
			uid = 999999
		}
		out = append(out, [2]int{idxOf(i.ID), uid})
	}
	sort.Slice(out, func(a, b int) bool { return out[a][0] < out[b][0] || (out[a][0] == out[b][0] && out[a][1] < out[b][1]) })
	return out
}

// runHistory executes the history on a fresh handler; it stops after the first call that does not return.
func runHistory(protocol int, hasBackend bool, ops []op) []stepObs {
	rec := &recorder{}
	pl := &fakePlayer{protocol: proto.Protocol(protocol), rec: rec}
	if hasBackend {
		pl.backend = &backendWriter{rec: rec}
	}
	h := proxy.VerifC27NewHandler(pl)
	var steps []stepObs
	queued := 0
	for _, o := range ops {
		o := o
		uid := queued
		if o.Kind == "queue" {
			queued++
		}
		done := make(chan stepObs, 1)
		gid := make(chan string, 1)
		go func() {
			gid <- goid()
			var r stepObs
			func() {
				defer func() {
					if x := recover(); x != nil {
						r.Ret = "RPanic"
					}
				}()
				switch o.Kind {
				case "queue":
					origin := proxy.VerifC27PluginOnProxyOrigin
					if o.Backend {
						origin = proxy.VerifC27DownstreamServerOrigin
					}
					err := h.QueueResourcePack(&proxy.VerifC27Info{ID: idOf(o.ID), URL: fmt.Sprintf("http://p/%d", uid),
						Hash: hashOf(o.Hash), ShouldForce: o.Force, Origin: origin})
					r.Ret = "RUnit"
					if err != nil {
						r.Ret = "RErr"
					}
				case "response":
					handled, err := h.OnResourcePackResponse(&proxy.VerifC27ResponseBundle{ID: idOf(o.ID), Hash: hashOf(o.Hash),
						Status: packet.ResponseStatus(o.Status)})
					r.Ret = lib.App("RHandled", lib.Bool(handled))
					if err != nil {
						r.Ret = "RErr"
					}
				case "remove":
					r.Ret = lib.App("RBool", lib.Bool(h.Remove(idOf(o.ID))))
				case "clear":
					h.ClearAppliedResourcePacks()
					r.Ret = "RUnit"
				}
			}()
			r.Events = rec.take()
			r.Applied = proj(h.AppliedResourcePacks())
			r.Pending = proj(h.PendingResourcePacks())
			done <- r
		}()
		id := <-gid // the goroutine has started
		var res *stepObs
		deadline := time.Now().Add(watchdogMax)
		wait := watchdog
		for res == nil {
			select {
			case r := <-done:
				res = &r
			case <-time.After(wait):
				// no return within the watchdog: stuck if the goroutine is parked (it waits for a lock it
				// will never get); if it is merely starved on a loaded machine, keep waiting
				blocked, known := goroutineBlocked(id, time.Now())
				if (known && blocked) || time.Now().After(deadline) {
					steps = append(steps, stepObs{Events: rec.take(), Ret: "RStuck", Applied: [][2]int{}, Pending: [][2]int{}})
					return steps // the instance is abandoned
				}
				wait = 500 * time.Millisecond
			}
		}
		steps = append(steps, *res)
	}
	return steps
}

// ---- generation ----

var (
	legacyProtos    = []int{47, 340, 578, 754}            // 1.8, 1.12.2, 1.15.2, 1.16.4
	legacy117Protos = []int{755, 759, 762, 764}           // 1.17, 1.19, 1.19.4, 1.20.2
	modernProtos    = []int{765, 766, 767, 769, 772, 774} // 1.20.3 .. 1.21.11
)

var statusWeights = []int{25, 20, 8, 25, 8, 3, 3, 8} // indexed like statusNames

func pickStatus(r *lib.Rng) int {
	t := 0
	for _, w := range statusWeights {
		t += w
	}
	x := r.Intn(t)
	for i, w := range statusWeights {
		if x < w {
			return i
		}
		x -= w
	}
	return 0
}

func genQueue(r *lib.Rng, ids int) op {
	return op{Kind: "queue", ID: r.Intn(ids), Hash: r.Pick(0, 0, 1, 2, 3), Force: r.Chance(1, 3), Backend: r.Bool()}
}

func genHistory(r *lib.Rng, fam string) []op {
	ids := r.Pick(2, 3, 4) // small id pool (0 is uuid.Nil) so that responses meet queued packs
	n := r.Range(1, 14)
	var ops []op
	switch r.Intn(8) {
	case 0: // client declines, then several packs are queued (tick flushes / forced packs on 1.17+)
		ops = append(ops, genQueue(r, ids), op{Kind: "response", ID: r.Intn(ids), Status: 1})
		for i := r.Range(2, 5); i > 0; i-- {
			ops = append(ops, genQueue(r, ids))
		}
	case 1: // several packs of one id (modern: slice order), answered one after the other
		id := r.Intn(ids)
		k := r.Range(2, 4)
		for i := 0; i < k; i++ {
			q := genQueue(r, ids)
			q.ID = id
			ops = append(ops, q)
		}
		for i := 0; i < k; i++ {
			ops = append(ops, op{Kind: "response", ID: id, Status: r.Pick(0, 0, 1, 2, 7)})
		}
	case 2: // response before anything is queued
		ops = append(ops, op{Kind: "response", ID: r.Intn(ids), Hash: r.Pick(0, 1), Status: pickStatus(r)})
	case 3, 4: // a well-behaved client: packs are queued, every prompt is answered accepted -> (downloaded) -> final
		k := r.Range(2, 4)
		var qs []op
		for i := 0; i < k; i++ {
			q := genQueue(r, ids)
			if fam != "modern" && q.ID == 0 {
				q.ID = 1
			}
			qs = append(qs, q)
			ops = append(ops, q)
		}
		for _, q := range qs {
			final := r.Pick(0, 0, 0, 1, 2, 7)
			if final != 1 {
				ops = append(ops, op{Kind: "response", ID: q.ID, Hash: q.Hash, Status: 3})
				if r.Bool() {
					ops = append(ops, op{Kind: "response", ID: q.ID, Hash: q.Hash, Status: 4})
				}
			}
			ops = append(ops, op{Kind: "response", ID: q.ID, Hash: q.Hash, Status: final})
			if r.Chance(1, 4) {
				ops = append(ops, genQueue(r, ids))
			}
		}
	}
	for len(ops) < n {
		x := r.Intn(100)
		switch {
		case x < 40:
			ops = append(ops, genQueue(r, ids))
		case x < 85:
			ops = append(ops, op{Kind: "response", ID: r.Intn(ids), Hash: r.Pick(0, 0, 1, 2), Status: pickStatus(r)})
		case x < 92:
			if fam == "modern" || r.Chance(1, 3) {
				ops = append(ops, op{Kind: "remove", ID: r.Intn(ids)})
			} else {
				ops = append(ops, op{Kind: "clear"})
			}
		default:
			ops = append(ops, op{Kind: "clear"})
		}
	}
	return ops
}

type caseT struct {
	fam     string
	proto   int
	backend bool
	ops     []op
	steps   []stepObs
}

func main() {
	f := lib.ParseFlags()
	rng := lib.NewRng(f.Seed)
	out := lib.NewOut("C27", f)
	out.Imports = "From Verif Require Import Model.ResourcePack.\n"
	out.Rule = "histories of 1..14 operations (queue 40% / response 45% / remove, clear 15%; ids from a pool of 2..4 incl. uuid.Nil, 8 response statuses weighted towards accepted/successful/declined; 5 of 8 histories start with a scenario: decline-then-queue, several packs of one id, response before any queue, a well-behaved client answering every prompt accepted/downloaded/final) on a fresh handler from resourcepack.NewHandler for protocols of all three families (legacy 47..754, 1.17-1.20.2 755..764, modern 765..774), with and without a backend in flight; every call in a goroutine with a 2 s watchdog (a call counts as stuck when it has not returned by then and its goroutine is parked, e.g. in sync.RWMutex.Lock; a merely starved goroutine is given up to 40 s); distinct = distinct (protocol, backend, history); non-trivial = at least 3 operations with a queue and a response among them"

	var cases []*caseT
	add := func(fam string, protos []int, n int) {
		for i := 0; i < n; i++ {
			r := rng.Fork()
			c := &caseT{fam: fam, proto: protos[r.Intn(len(protos))], backend: r.Chance(4, 5)}
			c.ops = genHistory(r, fam)
			cases = append(cases, c)
		}
	}
	add("legacy", legacyProtos, f.Count(110))
	add("legacy117", legacy117Protos, f.Count(130))
	add("modern", modernProtos, f.Count(120))

	// execute (stuck calls cost the watchdog time each, so histories run concurrently)
	var wg sync.WaitGroup
	sem := make(chan struct{}, 64)
	for i, c := range cases {
		if f.Only >= 0 && f.Only != i {
			continue
		}
		wg.Add(1)
		sem <- struct{}{}
		go func(c *caseT) {
			defer wg.Done()
			defer func() { <-sem }()
			c.steps = runHistory(c.proto, c.backend, c.ops)
		}(c)
	}
	wg.Wait()

	stuck := 0
	for _, c := range cases {
		nq, nr := 0, 0
		for _, o := range c.ops {
			switch o.Kind {
			case "queue":
				nq++
			case "response":
				nr++
			}
		}
		tags := []string{"family=" + c.fam, fmt.Sprintf("len=%d", (len(c.ops)+4)/5*5), "backend=" + strconv.FormatBool(c.backend)}
		if n := len(c.steps); n > 0 && c.steps[n-1].Ret == "RStuck" {
			tags = append(tags, "observed-stuck")
			stuck++
		}
		for _, s := range c.steps {
			if s.Ret == "RPanic" {
				tags = append(tags, "observed-panic")
				break
			}
		}
		prompts, reports, applied := 0, 0, false
		for _, s := range c.steps {
			for _, e := range s.Events {
				if strings.HasPrefix(e, "(OReq") {
					prompts++
				} else if strings.HasPrefix(e, "(ORep") {
					reports++
				}
			}
			if len(s.Applied) > 0 {
				applied = true
			}
		}
		pb := "0"
		switch {
		case prompts >= 3:
			pb = "3+"
		case prompts > 0:
			pb = strconv.Itoa(prompts)
		}
		tags = append(tags, c.fam+":prompts="+pb)
		if reports > 0 {
			tags = append(tags, c.fam+":backend-reports")
		}
		if applied {
			tags = append(tags, c.fam+":pack-applied")
		}
		term := lib.App("Check.C27.mk", lib.N(uint64(c.proto)), lib.Bool(c.backend),
			lib.ListOf(c.ops, func(o op) string { return o.coq() }),
			lib.ListOf(c.steps, func(s stepObs) string { return s.coq() }))
		out.Add(term, map[string]any{"protocol": c.proto, "backend_in_flight": c.backend, "ops": c.ops, "observed": c.steps},
			len(c.ops) >= 3 && nq > 0 && nr > 0, tags...)
	}
	out.Extra("stuck_histories", stuck)
	out.Finish()
}
