// C28 harness: drives the real tab list (internal/tablist through the proxy export hook) of a
// 1.19.3+ viewer with histories of API calls (Add, RemoveAll, entry setters) and backend
// player-info packets (ProcessUpdate / ProcessRemove + forwarding), records every packet the
// viewer receives as the BYTES the real encoder produces, and the proxy's Entries() after each
// operation, for the Coq side (reference vanilla client) to judge.
package main

import (
	"bytes"
	"fmt"
	"sort"
	"time"

	"go.minekube.com/common/minecraft/component"
	"go.minekube.com/gate/pkg/edition/java/profile"
	"go.minekube.com/gate/pkg/edition/java/proto/packet/chat"
	"go.minekube.com/gate/pkg/edition/java/proto/packet/tablist/playerinfo"
	"go.minekube.com/gate/pkg/edition/java/proxy"
	"go.minekube.com/gate/pkg/edition/java/proxy/crypto"
	"go.minekube.com/gate/pkg/edition/java/proxy/tablist"
	"go.minekube.com/gate/pkg/gate/proto"
	"go.minekube.com/gate/pkg/util/uuid"

	"verifharness/lib"
)

// ---- pools ----

func idOf(i int) uuid.UUID {
	var u uuid.UUID
	u[15] = byte(i) // 0 is uuid.Nil
	return u
}
func idxOf(u uuid.UUID) uint64 {
	var hi uint64
	for _, b := range u[:8] {
		hi = hi<<8 | uint64(b)
	}
	if hi != 0 {
		return 1 << 40 // not from the pool
	}
	var lo uint64
	for _, b := range u[8:] {
		lo = lo<<8 | uint64(b)
	}
	return lo
}

var names = []string{"Alice", "Bob", "Carol_16_chars__", "", "Dave"}
var propSets = [][]profile.Property{
	nil,
	{{Name: "textures", Value: "dmFsdWU="}},
	{{Name: "textures", Value: "abc", Signature: "c2ln"}, {Name: "x", Value: ""}},
}
var displayNames = []string{"A", "name two", "ünï"}

func dnComp(i int) component.Component {
	if i < 0 {
		return nil
	}
	return &component.Text{Content: displayNames[i]}
}
func dnIndex(c component.Component) int {
	if c == nil {
		return -1
	}
	if t, ok := c.(*component.Text); ok && len(t.Extra) == 0 {
		for i, s := range displayNames {
			if s == t.Content {
				return i
			}
		}
	}
	return 99
}

// ---- viewer ----

type pkt struct {
	kind string // U | R | other
	b    []byte
}

type viewer struct {
	protocol proto.Protocol
	pkts     []pkt
	err      error
}

func (v *viewer) record(p proto.Packet) error {
	var buf bytes.Buffer
	if err := p.Encode(&proto.PacketContext{Protocol: v.protocol, Direction: proto.ClientBound, Packet: p}, &buf); err != nil {
		v.err = err
		return err
	}
	k := "X"
	switch p.(type) {
	case *playerinfo.Upsert:
		k = "U"
	case *playerinfo.Remove:
		k = "R"
	}
	v.pkts = append(v.pkts, pkt{k, buf.Bytes()})
	return nil
}
func (v *viewer) WritePacket(p proto.Packet) error    { return v.record(p) }
func (v *viewer) BufferPacket(p proto.Packet) error   { return v.record(p) }
func (v *viewer) Flush() error                        { return nil }
func (v *viewer) Protocol() proto.Protocol            { return v.protocol }
func (v *viewer) IdentifiedKey() crypto.IdentifiedKey { return nil }
func (v *viewer) take() []pkt                         { p := v.pkts; v.pkts = nil; return p }

// ---- operations ----

type attrs struct {
	ID      int   `json:"id"`
	Name    int   `json:"name"`
	Props   int   `json:"props"`
	Latency int64 `json:"latency_ms"`
	GM      int   `json:"gamemode"`
	Listed  bool  `json:"listed"`
	DN      int   `json:"display_name"` // -1 none
	Order   int   `json:"order"`
	Hat     bool  `json:"hat"`
}

type bentry struct {
	attrs
	Chat bool `json:"-"`
}

type op struct {
	Kind    string   `json:"kind"`
	Adds    []attrs  `json:"adds,omitempty"`
	ID      int      `json:"id,omitempty"`
	IDs     []int    `json:"ids,omitempty"`
	Z       int64    `json:"value,omitempty"`
	B       bool     `json:"flag,omitempty"`
	DN      int      `json:"dn,omitempty"`
	Acts    []bool   `json:"actions,omitempty"`
	Entries []bentry `json:"entries,omitempty"`
}

func coqStr(s string) string { return lib.Str(s) }

func coqProps(i int) string {
	return lib.ListOf(propSets[i], func(p profile.Property) string {
		return lib.App("mkProp", coqStr(p.Name), coqStr(p.Value), coqStr(p.Signature))
	})
}

func coqOptN(i int) string {
	if i < 0 {
		return "None"
	}
	return lib.Some(lib.N(uint64(i)))
}

func (a attrs) coq() string {
	return lib.Pair(lib.N(uint64(a.ID)), lib.App("mkA", coqStr(names[a.Name]), coqProps(a.Props), lib.Z(a.Latency), lib.Z(int64(a.GM)),
		lib.Bool(a.Listed), coqOptN(a.DN), lib.Z(int64(a.Order)), lib.Bool(a.Hat)))
}

func (e bentry) coq() string {
	return lib.App("mkB", lib.N(uint64(e.ID)), coqStr(names[e.Name]), coqProps(e.Props), lib.Z(int64(e.GM)), lib.Bool(e.Listed),
		lib.Z(e.Latency), coqOptN(e.DN), lib.Z(int64(e.Order)), lib.Bool(e.Hat))
}

func coqIDs(ids []int) string {
	return lib.ListOf(ids, func(i int) string { return lib.N(uint64(i)) })
}

func (o op) coq() string {
	switch o.Kind {
	case "add":
		return lib.App("Add", lib.ListOf(o.Adds, func(a attrs) string { return a.coq() }))
	case "addlive":
		return lib.App("AddLive", lib.N(uint64(o.ID)))
	case "removeall":
		return lib.App("RemoveAll", coqIDs(o.IDs))
	case "setlatency":
		return lib.App("SetLatency", lib.N(uint64(o.ID)), lib.Z(o.Z))
	case "setgamemode":
		return lib.App("SetGameMode", lib.N(uint64(o.ID)), lib.Z(o.Z))
	case "setlisted":
		return lib.App("SetListed", lib.N(uint64(o.ID)), lib.Bool(o.B))
	case "setdisplayname":
		return lib.App("SetDisplayName", lib.N(uint64(o.ID)), coqOptN(o.DN))
	case "setlistorder":
		return lib.App("SetListOrder", lib.N(uint64(o.ID)), lib.Z(o.Z))
	case "setshowhat":
		return lib.App("SetShowHat", lib.N(uint64(o.ID)), lib.Bool(o.B))
	case "bupsert":
		return lib.App("BackendUpsert", lib.ListOf(o.Acts, lib.Bool), lib.ListOf(o.Entries, func(e bentry) string { return e.coq() }))
	case "bremove":
		return lib.App("BackendRemove", coqIDs(o.IDs))
	}
	panic("op kind")
}

type viewRec struct {
	ID      uint64 `json:"id"`
	Name    string `json:"name"`
	Props   []profile.Property
	Listed  bool  `json:"listed"`
	Latency int64 `json:"latency_ms"`
	GM      int   `json:"gamemode"`
	DN      int   `json:"display_name"`
	Order   int   `json:"order"`
}

type stepObs struct {
	Ret  string    `json:"ret"`
	Pkts []string  `json:"packets"`
	View []viewRec `json:"view"`
	pkts []pkt
	Note string `json:"note,omitempty"`
}

func (s stepObs) coq() string {
	ps := lib.ListOf(s.pkts, func(p pkt) string {
		k := "KOther"
		switch p.kind {
		case "U":
			k = "KUpsert"
		case "R":
			k = "KRemove"
		}
		return lib.Pair(k, lib.Bytes(p.b))
	})
	vs := lib.ListOf(s.View, func(v viewRec) string {
		props := lib.ListOf(v.Props, func(p profile.Property) string {
			return lib.App("mkProp", coqStr(p.Name), coqStr(p.Value), coqStr(p.Signature))
		})
		return lib.Pair(lib.N(v.ID), lib.App("mkV", coqStr(v.Name), props, lib.Bool(v.Listed), lib.Z(v.Latency), lib.Z(int64(v.GM)),
			coqOptN(v.DN), lib.Z(int64(v.Order))))
	})
	return lib.App("mkO", s.Ret, ps, vs)
}

var canonical = playerinfo.UpsertActions

func runHistory(protocol int, ops []op) (steps []stepObs, goErr string) {
	v := &viewer{protocol: proto.Protocol(protocol)}
	tl := proxy.VerifC28NewTabList(v)
	newEntry := func(a attrs) *proxy.VerifC28Entry {
		return &proxy.VerifC28Entry{OwningTabList: tl, EntryAttributes: proxy.VerifC28EntryAttributes{
			Profile:     profile.GameProfile{ID: idOf(a.ID), Name: names[a.Name], Properties: propSets[a.Props]},
			DisplayName: dnComp(a.DN), Latency: time.Duration(a.Latency) * time.Millisecond, GameMode: a.GM,
			Listed: a.Listed, ListOrder: a.Order, ShowsHat: a.Hat}}
	}
	for _, o := range ops {
		o := o
		var st stepObs
		st.Ret = "TOk"
		func() {
			defer func() {
				if x := recover(); x != nil {
					st.Ret = "TPanic"
					st.Note = fmt.Sprint(x)
				}
			}()
			var err error
			switch o.Kind {
			case "add":
				var entries []tablist.Entry
				for _, a := range o.Adds {
					entries = append(entries, newEntry(a))
				}
				err = tl.Add(entries...)
			case "addlive":
				if e, ok := tl.Entries()[idOf(o.ID)]; ok {
					err = tl.Add(e)
				}
			case "removeall":
				ids := make([]uuid.UUID, len(o.IDs))
				for i, x := range o.IDs {
					ids[i] = idOf(x)
				}
				err = tl.RemoveAll(ids...)
			case "setlatency", "setgamemode", "setlisted", "setdisplayname", "setlistorder", "setshowhat":
				if e, ok := tl.Entries()[idOf(o.ID)]; ok {
					switch o.Kind {
					case "setlatency":
						err = e.SetLatency(time.Duration(o.Z) * time.Millisecond)
					case "setgamemode":
						err = e.SetGameMode(int(o.Z))
					case "setlisted":
						err = e.SetListed(o.B)
					case "setdisplayname":
						err = e.SetDisplayName(dnComp(o.DN))
					case "setlistorder":
						err = e.SetListOrder(int(o.Z))
					case "setshowhat":
						err = e.SetShowHat(o.B)
					}
				}
			case "bupsert":
				up := &playerinfo.Upsert{}
				for i, on := range o.Acts {
					if on {
						up.ActionSet = append(up.ActionSet, canonical[i])
					}
				}
				for _, e := range o.Entries {
					up.Entries = append(up.Entries, &playerinfo.Entry{
						ProfileID: idOf(e.ID),
						Profile:   profile.GameProfile{ID: idOf(e.ID), Name: names[e.Name], Properties: propSets[e.Props]},
						Listed:    e.Listed, Latency: int(e.Latency), GameMode: e.GM,
						DisplayName: chat.FromComponentProtocol(dnComp(e.DN), v.protocol),
						ShowHat:     e.Hat, ListOrder: e.Order,
					})
				}
				// the backend's bytes: encoded, then decoded by the real decoder as the proxy does,
				// processed, and forwarded unchanged
				var buf bytes.Buffer
				pc := &proto.PacketContext{Protocol: v.protocol, Direction: proto.ClientBound, Packet: up}
				if e := up.Encode(pc, &buf); e != nil {
					goErr = "backend upsert does not encode: " + e.Error()
					return
				}
				dec := &playerinfo.Upsert{}
				if e := dec.Decode(pc, bytes.NewReader(buf.Bytes())); e != nil {
					goErr = "gate cannot decode its own canonical upsert: " + e.Error()
					return
				}
				err = tl.ProcessUpdate(dec)
				v.pkts = append(v.pkts, pkt{"U", buf.Bytes()})
			case "bremove":
				rm := &playerinfo.Remove{}
				for _, x := range o.IDs {
					rm.PlayersToRemove = append(rm.PlayersToRemove, idOf(x))
				}
				var buf bytes.Buffer
				pc := &proto.PacketContext{Protocol: v.protocol, Direction: proto.ClientBound, Packet: rm}
				if e := rm.Encode(pc, &buf); e != nil {
					goErr = "backend remove does not encode: " + e.Error()
					return
				}
				dec := &playerinfo.Remove{}
				if e := dec.Decode(pc, bytes.NewReader(buf.Bytes())); e != nil {
					goErr = "gate cannot decode its own remove: " + e.Error()
					return
				}
				tl.ProcessRemove(dec)
				v.pkts = append(v.pkts, pkt{"R", buf.Bytes()})
			}
			if err != nil {
				st.Ret = "TErr"
				st.Note = err.Error()
			}
		}()
		st.pkts = v.take()
		for _, p := range st.pkts {
			st.Pkts = append(st.Pkts, fmt.Sprintf("%s:%x", p.kind, p.b))
		}
		for id, e := range tl.Entries() {
			pr := e.Profile()
			st.View = append(st.View, viewRec{ID: idxOf(id), Name: pr.Name, Props: pr.Properties, Listed: e.Listed(),
				Latency: e.Latency().Milliseconds(), GM: e.GameMode(), DN: dnIndex(e.DisplayName()), Order: e.ListOrder()})
		}
		sort.Slice(st.View, func(a, b int) bool { return st.View[a].ID < st.View[b].ID })
		steps = append(steps, st)
		if goErr != "" {
			return
		}
	}
	return
}

// ---- generation ----

var protocols = []int{761, 763, 764, 765, 767, 768, 769, 774}

func genAttrs(r *lib.Rng, ids int) attrs {
	a := attrs{ID: r.Range(1, ids), Name: r.Intn(len(names)), Props: r.Intn(len(propSets)),
		Latency: int64(r.Pick(0, 0, 1, 1, 5, 127, 128, 300, 70000, -1)), GM: r.Pick(-1, -1, 0, 1, 2, 3, 5, 256),
		Listed: r.Bool(), DN: r.Pick(-1, -1, 0, 1, 2), Order: r.Pick(0, 0, 0, 3, -2, 1000), Hat: r.Bool()}
	return a
}

func genBackendUpsert(r *lib.Rng, protocol, ids int) op {
	n := 6
	if protocol >= 768 {
		n = 7
	}
	if protocol >= 769 {
		n = 8
	}
	acts := make([]bool, 8)
	switch r.Intn(4) {
	case 0: // what a vanilla server sends for a joining player
		acts[0], acts[1], acts[2], acts[3], acts[4], acts[5] = true, true, true, true, true, true
		if n > 6 {
			acts[6] = true
		}
		if n > 7 {
			acts[7] = true
		}
	case 1: // one update action
		acts[r.Range(2, n-1)] = true
	default:
		for i := 0; i < n; i++ {
			acts[i] = r.Chance(2, 5)
		}
	}
	o := op{Kind: "bupsert", Acts: acts}
	for k := r.Pick(1, 1, 2, 3); k > 0; k-- {
		o.Entries = append(o.Entries, bentry{attrs: genAttrs(r, ids)})
	}
	return o
}

func genIDs(r *lib.Rng, ids int) []int {
	var out []int
	for k := r.Pick(1, 1, 2); k > 0; k-- {
		out = append(out, r.Range(1, ids))
	}
	return out
}

func genHistory(r *lib.Rng, protocol int) []op {
	ids := r.Pick(2, 3, 4)
	n := r.Range(1, 10)
	var ops []op
	switch r.Intn(6) {
	case 0: // benign first add (listed byte = latency byte, nothing else), then only things the client decodes as written
		a := genAttrs(r, ids)
		a.DN, a.GM, a.Order, a.Hat = -1, -1, 0, false
		a.Latency = int64(r.Pick(0, 1))
		a.Listed = a.Latency == 1
		ops = append(ops, op{Kind: "add", Adds: []attrs{a}}, op{Kind: "addlive", ID: a.ID})
	case 1: // backend announces a player, then the API re-adds the very entry / an entry with another profile
		b := genBackendUpsert(r, protocol, ids)
		b.Acts[0] = true
		ops = append(ops, b)
		e := b.Entries[0].attrs
		if r.Bool() {
			ops = append(ops, op{Kind: "addlive", ID: e.ID})
		} else {
			e2 := attrs{ID: e.ID, Name: (e.Name + 1) % len(names), Props: e.Props, Latency: 0, GM: -1, Listed: false, DN: -1, Order: 0, Hat: true}
			if !b.Acts[2] {
				e2.GM = -1
			} else {
				e2.GM = e.GM
			}
			if b.Acts[3] {
				e2.Listed = e.Listed
			}
			if b.Acts[4] {
				e2.Latency = e.Latency
			}
			if b.Acts[6] {
				e2.Order = e.Order
			}
			if !b.Acts[5] { // display names that came from the backend are never compared by content here
				ops = append(ops, op{Kind: "add", Adds: []attrs{e2}})
			}
		}
	}
	for len(ops) < n {
		x := r.Intn(100)
		if len(ops) == 0 && r.Chance(3, 4) {
			x = r.Pick(0, 0, 70) // most histories start by putting somebody on the list
		}
		switch {
		case x < 22:
			o := op{Kind: "add"}
			for k := r.Pick(1, 1, 1, 2, 3); k > 0; k-- {
				a := genAttrs(r, ids)
				if r.Chance(1, 40) {
					a.ID = 0 // uuid.Nil: rejected
				}
				o.Adds = append(o.Adds, a)
			}
			ops = append(ops, o)
		case x < 27:
			ops = append(ops, op{Kind: "addlive", ID: r.Range(1, ids)})
		case x < 37:
			if r.Chance(1, 4) {
				ops = append(ops, op{Kind: "removeall"})
			} else {
				ops = append(ops, op{Kind: "removeall", IDs: genIDs(r, ids)})
			}
		case x < 44:
			ops = append(ops, op{Kind: "setlatency", ID: r.Range(1, ids), Z: int64(r.Pick(0, 1, 42, 128, 16384, -1, 2097152))})
		case x < 50:
			ops = append(ops, op{Kind: "setgamemode", ID: r.Range(1, ids), Z: int64(r.Pick(0, 1, 2, 3, -1, 7))})
		case x < 56:
			ops = append(ops, op{Kind: "setlisted", ID: r.Range(1, ids), B: r.Bool()})
		case x < 62:
			ops = append(ops, op{Kind: "setdisplayname", ID: r.Range(1, ids), DN: r.Pick(-1, 0, 1, 2)})
		case x < 66:
			ops = append(ops, op{Kind: "setlistorder", ID: r.Range(1, ids), Z: int64(r.Pick(0, 1, -5, 300))})
		case x < 69:
			ops = append(ops, op{Kind: "setshowhat", ID: r.Range(1, ids), B: r.Bool()})
		case x < 92:
			ops = append(ops, genBackendUpsert(r, protocol, ids))
		default:
			ops = append(ops, op{Kind: "bremove", IDs: genIDs(r, ids)})
		}
	}
	return ops
}

func dnTable(protocol int) ([][]byte, error) {
	var out [][]byte
	for i := range displayNames {
		var buf bytes.Buffer
		if err := chat.FromComponentProtocol(dnComp(i), proto.Protocol(protocol)).Write(&buf, proto.Protocol(protocol)); err != nil {
			return nil, err
		}
		out = append(out, buf.Bytes())
	}
	return out, nil
}

func main() {
	f := lib.ParseFlags()
	rng := lib.NewRng(f.Seed)
	out := lib.NewOut("C28", f)
	out.Imports = "From Verif Require Import Model.TabList.\n"
	out.Rule = "histories of 1..10 operations on the real tab list of a 1.19.3+ viewer (protocols 761..774): Add of 1..3 fresh entries (22%), Add of the very entry the list holds (5%), RemoveAll of ids / of all (10%), entry setters latency / game mode / listed / display name / list order / hat (32%), backend Upsert (23%; full join set, single action, random action subsets; 1..3 entries) and backend Remove (8%) over an id pool of 2..4, names incl. empty and 16 chars, 0..2 profile properties, latencies incl. negative and multi-byte VarInts, game modes incl. -1 / 256 / out of range; a third of the histories start with a scenario (first add the client happens to decode as written, backend join followed by a re-add / a re-add with another profile); every packet the viewer receives is the bytes of the real encoder; distinct = distinct (protocol, history); non-trivial = at least one packet reaches the viewer and the list is non-empty at some point"

	n := f.Count(300)
	goViol := 0
	for i := 0; i < n; i++ {
		r := rng.Fork()
		protocol := protocols[r.Intn(len(protocols))]
		ops := genHistory(r, protocol)
		if !out.Wanted() {
			out.Add("", nil, false)
			continue
		}
		tbl, err := dnTable(protocol)
		if err != nil {
			out.GoViolation(map[string]any{"known": nil, "index": i, "what": "display-name component does not encode: " + err.Error()})
			goViol++
		}
		steps, goErr := runHistory(protocol, ops)
		if goErr != "" {
			out.GoViolation(map[string]any{"known": nil, "index": i, "what": goErr, "protocol": protocol, "ops": ops})
			goViol++
		}
		nt, pk := false, false
		tags := []string{fmt.Sprintf("protocol=%d", protocol), fmt.Sprintf("len=%d", (len(ops)+4)/5*5)}
		for _, s := range steps {
			if len(s.pkts) > 0 {
				pk = true
			}
			if len(s.View) > 0 {
				nt = true
			}
			if s.Ret == "TPanic" {
				tags = append(tags, "observed-panic")
			}
			if s.Ret == "TErr" {
				tags = append(tags, "observed-error")
			}
		}
		kinds := map[string]bool{}
		for _, o := range ops {
			kinds[o.Kind] = true
		}
		for k := range kinds {
			tags = append(tags, "has-"+k)
		}
		sort.Strings(tags)
		term := lib.App("Check.C28.mk", lib.N(uint64(protocol)), lib.ListOf(tbl, lib.Bytes),
			lib.ListOf(ops, func(o op) string { return o.coq() }),
			lib.ListOf(steps, func(s stepObs) string { return s.coq() }))
		out.Add(term, map[string]any{"protocol": protocol, "ops": ops, "observed": steps}, nt && pk, tags...)
	}
	out.Extra("go_side_errors", goViol)
	out.Finish()
}
