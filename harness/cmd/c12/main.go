// C12 harness.
//
//  1. Site cases: reads coq/Gen/LockFacts.v (written by translator lockfacts just before, from the same
//     tree) and emits one CSite case per access site, so that a verdict names file:line:function.
//  2. Listing histories: 16 goroutines x barrier rounds of registry mutations (register/unregister
//     players, a server's players.add/remove, Register/Unregister servers) against listing calls
//     (Players, PlayerCount, Servers, server.Players().Range/Len) on the REAL proxy; logical clock;
//     linearization against the atomic-snapshot specification searched here, validated in Coq (Lin).
//  3. Stress: the same API hammered for ~2 s (20 s thorough) including DisconnectAll; with the -race
//     build (thorough) the race detector's reports are parsed.
//
// Everything that runs gate code concurrently happens in a CHILD process (this binary re-executed with
// --child), so that "fatal error: concurrent map iteration and map write" is an observation and not a
// crashed check. Crashes and race reports are reported through out.GoViolation with the number of the
// open finding when the culprit is a function of an open finding (none at present: all are violations).
package main

import (
	"bufio"
	"bytes"
	"context"
	"encoding/json"
	"flag"
	"fmt"
	"net"
	"os"
	"os/exec"
	"path/filepath"
	"regexp"
	"runtime"
	"sort"
	"strconv"
	"strings"
	"sync"
	"sync/atomic"
	"time"

	"go.minekube.com/common/minecraft/component"
	"go.minekube.com/gate/pkg/edition/java/config"
	"go.minekube.com/gate/pkg/edition/java/netmc"
	"go.minekube.com/gate/pkg/edition/java/profile"
	"go.minekube.com/gate/pkg/edition/java/proto/state"
	"go.minekube.com/gate/pkg/edition/java/proto/version"
	"go.minekube.com/gate/pkg/edition/java/proxy"
	"go.minekube.com/gate/pkg/edition/java/proxy/phase"
	"go.minekube.com/gate/pkg/gate/proto"
	"go.minekube.com/gate/pkg/util/uuid"

	"verifharness/lib"
)

// ---------- lock facts (same file the Coq side compiles) ----------

type site struct {
	File, Func, Field, Mutex, Kind string
	Line                           int
	Held                           []string
}

var siteRe = regexp.MustCompile(`^\s*mkA "([^"]*)" (\d+) "([^"]*)" "([^"]*)" "([^"]*)" (K\w+) \[([^\]]*)\];?\s*$`)

func readSites() ([]site, error) {
	root := os.Getenv("VERIF_ROOT")
	if root == "" {
		wd, _ := os.Getwd()
		root = filepath.Dir(wd) // the driver runs the harness inside /verif/harness
		if _, err := os.Stat(filepath.Join(root, "coq", "Gen", "LockFacts.v")); err != nil {
			root = "/verif"
		}
	}
	b, err := os.ReadFile(filepath.Join(root, "coq", "Gen", "LockFacts.v"))
	if err != nil {
		return nil, err
	}
	var out []site
	in := false
	for _, ln := range strings.Split(string(b), "\n") {
		if strings.HasPrefix(ln, "Definition accesses") {
			in = true
			continue
		}
		if in && strings.HasPrefix(ln, "].") {
			break
		}
		if !in || strings.TrimSpace(ln) == "" {
			continue
		}
		m := siteRe.FindStringSubmatch(ln)
		if m == nil {
			return nil, fmt.Errorf("LockFacts.v: unparsable access line %q", ln)
		}
		n, _ := strconv.Atoi(m[2])
		out = append(out, site{File: m[1], Line: n, Func: m[3], Field: m[4], Mutex: m[5], Kind: m[6], Held: strings.Split(m[7], ";")})
	}
	if len(out) == 0 {
		return nil, fmt.Errorf("LockFacts.v: no access sites")
	}
	return out, nil
}

func (s site) guarded() bool {
	if s.Kind == "KEscape" || s.Kind == "KUnknown" {
		return false
	}
	write := s.Kind == "KWrite" || s.Kind == "KAliasWrite"
	for _, h := range s.Held {
		h = strings.TrimSpace(h)
		if strings.Contains(h, `"`+s.Mutex+`"`) && (strings.Contains(h, "LW") || !write) {
			return true
		}
	}
	return false
}

// OPEN findings by function (mirrors Model.LockDiscipline.c12_known_sites). Empty: findings C12-1
// (Proxy.Players), C12-2 (Proxy.DisconnectAll) and C12-3 (players.Range) are repaired in /repo, so every
// crash, race report or unguarded site is reported with known = nil (a violation).
var knownSites = map[string]int{}

// frames of the Go runtime's traces for the functions of open findings (none)
var knownFrames = map[string]int{}

// ---------- proxy environment (same construction as cmd/c11) ----------

type memConn struct {
	once sync.Once
	done chan struct{}
}

func newMemConn() *memConn { return &memConn{done: make(chan struct{})} }

type memAddr struct{}

func (memAddr) Network() string { return "mem" }
func (memAddr) String() string  { return "mem:0" }

func (c *memConn) Read(b []byte) (int, error)       { <-c.done; return 0, net.ErrClosed }
func (c *memConn) Write(b []byte) (int, error)      { return len(b), nil }
func (c *memConn) Close() error                     { c.once.Do(func() { close(c.done) }); return nil }
func (c *memConn) LocalAddr() net.Addr              { return memAddr{} }
func (c *memConn) RemoteAddr() net.Addr             { return memAddr{} }
func (c *memConn) SetDeadline(time.Time) error      { return nil }
func (c *memConn) SetReadDeadline(time.Time) error  { return nil }
func (c *memConn) SetWriteDeadline(time.Time) error { return nil }

type env struct {
	p       *proxy.Proxy
	players []*proxy.VerifC11Player
	byPtr   map[*proxy.VerifC11Player]int
	srv     proxy.RegisteredServer // the server whose player list is exercised
	infos   []proxy.ServerInfo     // servers registered / unregistered by VReg / VUnreg
}

func uuidAt(i int) uuid.UUID {
	var u uuid.UUID
	for k := range u {
		u[k] = byte(i + 1 + 7*k)
	}
	u[0] = byte(i >> 8)
	u[1] = byte(i)
	return u
}

func newEnv(nPlayers, nServers int) *env {
	cfg := config.DefaultConfig
	cfg.OnlineMode = false
	cfg.Compression.Threshold = -1
	cfg.Servers = map[string]string{}
	cfg.Try = nil
	p, err := proxy.New(proxy.Options{Config: &cfg})
	if err != nil {
		fmt.Fprintln(os.Stderr, "proxy.New:", err)
		os.Exit(3)
	}
	e := &env{p: p, byPtr: map[*proxy.VerifC11Player]int{}}
	for i := 0; i < nPlayers; i++ {
		e.addPlayer(i)
	}
	rs, err := p.Register(proxy.NewServerInfo("lobby", &net.TCPAddr{IP: net.IPv4(127, 0, 0, 1), Port: 30000}))
	if err != nil {
		fmt.Fprintln(os.Stderr, "Register lobby:", err)
		os.Exit(3)
	}
	e.srv = rs
	for v := 0; v < nServers; v++ {
		e.infos = append(e.infos, proxy.NewServerInfo(fmt.Sprintf("srv%d", v), &net.TCPAddr{IP: net.IPv4(127, 0, 0, 1), Port: 30001 + v}))
	}
	return e
}

func (e *env) addPlayer(i int) {
	conn, _ := netmc.NewMinecraftConn(context.Background(), newMemConn(), proto.ServerBound, 0, 0, -1, nil)
	conn.SetProtocol(version.Minecraft_1_20_2.Protocol)
	conn.SetType(phase.Vanilla)
	// distinct names and uuids: registerConnection is never refused (see finding C11-2)
	pl := proxy.VerifC11NewPlayer(e.p, conn, &profile.GameProfile{ID: uuidAt(i), Name: fmt.Sprintf("Player_%d", i)}, false)
	conn.SetActiveSessionHandler(state.Play, proxy.VerifC11InitialConnectHandler(pl))
	e.players = append(e.players, pl)
	e.byPtr[pl] = i
}

func (e *env) handles(pls []proxy.Player) []int {
	out := make([]int, 0, len(pls))
	for _, pl := range pls {
		cp, _ := pl.(*proxy.VerifC11Player)
		if h, ok := e.byPtr[cp]; ok {
			out = append(out, h)
		} else {
			out = append(out, 999999)
		}
	}
	sort.Ints(out)
	return out
}

// ---------- listing ops ----------

type lop struct {
	K string // PReg PUnreg SAdd SRem VReg VUnreg QPlayers QCount QRange QLen QServers
	H int
}

type lres struct {
	Kind string // U L N
	L    []int
	N    int
}

type callRec struct {
	O        lop
	R        lres
	Inv, Res int64
}

func (o lop) coq() string {
	switch o.K {
	case "PReg", "PUnreg", "SAdd", "SRem", "VReg", "VUnreg":
		return lib.App(o.K, lib.N(uint64(o.H)))
	}
	return o.K
}

func (r lres) coq() string {
	switch r.Kind {
	case "L":
		return lib.App("RL", lib.ListOf(r.L, func(v int) string { return lib.N(uint64(v)) }))
	case "N":
		return lib.App("RN", lib.N(uint64(r.N)))
	}
	return "RU"
}

func (o lop) String() string {
	if strings.HasPrefix(o.K, "Q") {
		return o.K
	}
	return fmt.Sprintf("%s(%d)", o.K, o.H)
}

func (e *env) exec(o lop) lres {
	switch o.K {
	case "PReg":
		if !proxy.VerifC11Register(e.p, e.players[o.H]) {
			fmt.Fprintln(os.Stderr, "VERIF-C12-HARNESS: registerConnection refused (generator bug)")
		}
	case "PUnreg":
		proxy.VerifC11Unregister(e.p, e.players[o.H])
	case "SAdd":
		proxy.VerifC12ServerPlayersAdd(e.srv, e.players[o.H])
	case "SRem":
		proxy.VerifC12ServerPlayersRemove(e.srv, e.players[o.H])
	case "VReg":
		_, _ = e.p.Register(e.infos[o.H])
	case "VUnreg":
		e.p.Unregister(e.infos[o.H])
	case "QPlayers":
		return lres{Kind: "L", L: e.handles(e.p.Players())}
	case "QCount":
		return lres{Kind: "N", N: e.p.PlayerCount()}
	case "QRange":
		var pls []proxy.Player
		e.srv.Players().Range(func(p proxy.Player) bool { pls = append(pls, p); return true })
		return lres{Kind: "L", L: e.handles(pls)}
	case "QLen":
		return lres{Kind: "N", N: e.srv.Players().Len()}
	case "QServers":
		var l []int
		for _, rs := range e.p.Servers() {
			nm := rs.ServerInfo().Name()
			if strings.HasPrefix(nm, "srv") {
				v, _ := strconv.Atoi(nm[3:])
				l = append(l, v)
			}
		}
		sort.Ints(l)
		return lres{Kind: "L", L: l}
	}
	return lres{Kind: "U"}
}

const nGoroutines = 16
const nPlayers = 6
const nServers = 3

// genRounds: per round 16 ops; at most one mutation per player registration / server-list membership /
// server per round, and only mutations that change the state (so every mutation result is fixed and
// registerConnection is never refused).
func genRounds(r *lib.Rng, nRounds int) [][]lop {
	reg := make([]bool, nPlayers)
	in := make([]bool, nPlayers)
	sv := make([]bool, nServers)
	var rounds [][]lop
	for i := 0; i < nRounds; i++ {
		usedP := make([]bool, nPlayers)
		usedS := make([]bool, nPlayers)
		usedV := make([]bool, nServers)
		var ops []lop
		for len(ops) < nGoroutines {
			switch k := r.Intn(100); {
			case k < 25:
				h := r.Intn(nPlayers)
				if usedP[h] {
					continue
				}
				usedP[h] = true
				if reg[h] {
					ops = append(ops, lop{"PUnreg", h})
				} else {
					ops = append(ops, lop{"PReg", h})
				}
				reg[h] = !reg[h]
			case k < 42:
				h := r.Intn(nPlayers)
				if usedS[h] {
					continue
				}
				usedS[h] = true
				if in[h] {
					ops = append(ops, lop{"SRem", h})
				} else {
					ops = append(ops, lop{"SAdd", h})
				}
				in[h] = !in[h]
			case k < 52:
				v := r.Intn(nServers)
				if usedV[v] {
					continue
				}
				usedV[v] = true
				if sv[v] {
					ops = append(ops, lop{"VUnreg", v})
				} else {
					ops = append(ops, lop{"VReg", v})
				}
				sv[v] = !sv[v]
			case k < 70:
				ops = append(ops, lop{K: "QPlayers"})
			case k < 78:
				ops = append(ops, lop{K: "QCount"})
			case k < 90:
				ops = append(ops, lop{K: "QRange"})
			case k < 94:
				ops = append(ops, lop{K: "QLen"})
			default:
				ops = append(ops, lop{K: "QServers"})
			}
		}
		// shuffle so that mutations and listings are spread over the goroutines
		perm := r.Perm(len(ops))
		sh := make([]lop, len(ops))
		for a, b := range perm {
			sh[a] = ops[b]
		}
		rounds = append(rounds, sh)
	}
	return rounds
}

func histRng(seed uint64, i int) *lib.Rng { return lib.NewRng(seed*1000003 + uint64(i)*7919 + 12) }

func runRounds(rounds [][]lop) []callRec {
	e := newEnv(nPlayers, nServers)
	var clock atomic.Int64
	var hist []callRec
	for _, ops := range rounds {
		recs := make([]callRec, len(ops))
		start := make(chan struct{})
		var wg sync.WaitGroup
		for g := range ops {
			wg.Add(1)
			go func(g int) {
				defer wg.Done()
				<-start
				inv := clock.Add(1)
				r := e.exec(ops[g])
				res := clock.Add(1)
				recs[g] = callRec{ops[g], r, inv, res}
			}(g)
		}
		close(start)
		wg.Wait()
		hist = append(hist, recs...)
	}
	return hist
}

// ---------- child modes ----------

func childRounds(seed uint64, from, n int) {
	w := bufio.NewWriter(os.Stdout)
	for i := from; i < n; i++ {
		r := histRng(seed, i)
		rounds := genRounds(r, r.Range(3, 6))
		h := runRounds(rounds)
		b, _ := json.Marshal(map[string]any{"i": i, "calls": h})
		w.Write(b)
		w.WriteString("\n")
		w.Flush()
	}
}

func childStress(seed uint64, dur time.Duration) {
	const writers = 6
	const perWriter = 8
	e := newEnv(writers*perWriter, 2)
	stop := make(chan struct{})
	var wg sync.WaitGroup
	var lists, bad atomic.Int64
	var badMu sync.Mutex
	var badDesc []string
	check := func(what string, l []int) {
		lists.Add(1)
		for i := range l {
			if l[i] == 999999 || (i > 0 && l[i] == l[i-1]) {
				bad.Add(1)
				badMu.Lock()
				if len(badDesc) < 5 {
					badDesc = append(badDesc, fmt.Sprintf("%s returned %v", what, l))
				}
				badMu.Unlock()
				return
			}
		}
	}
	for wi := 0; wi < writers; wi++ {
		wg.Add(1)
		go func(wi int) {
			defer wg.Done()
			r := lib.NewRng(seed + uint64(wi)*977)
			for {
				select {
				case <-stop:
					return
				default:
				}
				h := wi*perWriter + r.Intn(perWriter) // this writer's own players only
				switch r.Intn(3) {
				case 0:
					e.exec(lop{"PReg", h})
					e.exec(lop{"PUnreg", h})
				case 1:
					e.exec(lop{"SAdd", h})
					e.exec(lop{"SRem", h})
				default:
					if wi < 2 {
						e.exec(lop{"VReg", wi})
						e.exec(lop{"VUnreg", wi})
					}
				}
			}
		}(wi)
	}
	for ri := 0; ri < nGoroutines-writers-1; ri++ {
		wg.Add(1)
		go func(ri int) {
			defer wg.Done()
			r := lib.NewRng(seed + 5000 + uint64(ri))
			for {
				select {
				case <-stop:
					return
				default:
				}
				switch r.Intn(6) {
				case 0, 1:
					check("Players", e.exec(lop{K: "QPlayers"}).L)
				case 2:
					e.exec(lop{K: "QCount"})
					e.exec(lop{K: "QLen"})
				case 3, 4:
					check("Range", e.exec(lop{K: "QRange"}).L)
				default:
					check("Servers", e.exec(lop{K: "QServers"}).L)
					e.p.Player(uuidAt(r.Intn(writers * perWriter)))
					e.p.PlayerByName(fmt.Sprintf("player_%d", r.Intn(writers*perWriter)))
				}
			}
		}(ri)
	}
	// one goroutine disconnects everyone now and then (players that were disconnected stay closed;
	// the registry calls above keep working on them)
	wg.Add(1)
	go func() {
		defer wg.Done()
		for {
			select {
			case <-stop:
				return
			case <-time.After(3 * time.Millisecond):
				e.p.DisconnectAll(&component.Text{Content: "verif"})
			}
		}
	}()
	time.Sleep(dur)
	close(stop)
	finished := make(chan struct{})
	go func() { wg.Wait(); close(finished) }()
	select {
	case <-finished:
	case <-time.After(10 * time.Second):
		// a worker never came back: dump every goroutine so that the parent can say where it sits
		buf := make([]byte, 4<<20)
		n := runtime.Stack(buf, true)
		fmt.Fprintf(os.Stderr, "VERIF-C12-STRESS-HANG: workers still running 10 s after stop\n%s\n", buf[:n])
		os.Exit(4)
	}
	badMu.Lock()
	b, _ := json.Marshal(map[string]any{"lists": lists.Load(), "bad_lists": bad.Load(), "bad": badDesc})
	badMu.Unlock()
	fmt.Println(string(b))
}

// ---------- parent: running children, reading their reports ----------

type childResult struct {
	stdout   []byte
	stderr   string
	exitCode int
	timedOut bool
}

func runChild(f lib.Flags, timeout time.Duration, args ...string) childResult {
	ctx, cancel := context.WithTimeout(context.Background(), timeout)
	defer cancel()
	all := append([]string{"--seed", strconv.FormatUint(f.Seed, 10), "--tier", f.Tier, "--out", f.Out}, args...)
	cmd := exec.CommandContext(ctx, os.Args[0], all...)
	cmd.Env = append(os.Environ(), "GOTRACEBACK=all", "GORACE=halt_on_error=0 exitcode=66")
	var so, se bytes.Buffer
	cmd.Stdout = &so
	cmd.Stderr = &se
	err := cmd.Run()
	res := childResult{stdout: so.Bytes(), stderr: se.String()}
	if ctx.Err() != nil {
		res.timedOut = true
	}
	if err != nil {
		if ee, ok := err.(*exec.ExitError); ok {
			res.exitCode = ee.ExitCode()
		} else {
			res.exitCode = -1
		}
	}
	return res
}

type observation struct {
	Kind     string   `json:"kind"` // fatal | race | hang | harness
	Known    any      `json:"known"`
	Index    int      `json:"index"`
	What     string   `json:"what"`
	Frames   []string `json:"frames,omitempty"`
	Excerpt  string   `json:"excerpt,omitempty"`
	ChildCmd string   `json:"child_cmd,omitempty"`
}

var frameRe = regexp.MustCompile(`(?m)^\s*(?:go\.minekube\.com/gate/pkg/edition/java/)?(proxy\.\(\*?\w+\)\.\w+|proxy\.\w+)(?:\.func\d+|\.gowrap\d+|\.\d+)*\(`)

func framesOf(text string) []string {
	var out []string
	for _, m := range frameRe.FindAllStringSubmatch(text, -1) {
		out = append(out, m[1])
	}
	return out
}

// scopeFuncs: functions of the C12 registries (from the lock facts), as trace frame names.
func scopeFrames(sites []site) map[string]bool {
	m := map[string]bool{}
	for _, s := range sites {
		parts := strings.SplitN(s.Func, ".", 3)
		if len(parts) >= 2 {
			m["proxy.(*"+parts[0]+")."+parts[1]] = true
		}
	}
	return m
}

func knownOf(frames []string) any {
	best := 0
	for _, fr := range frames {
		if k, ok := knownFrames[fr]; ok && (best == 0 || k < best) {
			best = k
		}
	}
	if best == 0 {
		return nil
	}
	return best
}

// analyse: turns a child's stderr / exit status into observations.
func analyse(res childResult, sites []site, cmdline string, stillUnguarded map[int]bool, ignored *int) []observation {
	var obs []observation
	scope := scopeFrames(sites)
	text := "\n" + res.stderr // markers below are looked for at line starts, the first line included
	// race detector reports
	for _, blk := range strings.Split(text, "==================") {
		if !strings.Contains(blk, "WARNING: DATA RACE") {
			continue
		}
		acc := blk
		if i := strings.Index(acc, "Goroutine "); i >= 0 {
			acc = acc[:i] // keep the two access stacks, drop the "created at" parts
		}
		frames := framesOf(acc)
		k := knownOf(frames)
		inScope := false
		for _, fr := range frames {
			if scope[fr] {
				inScope = true
			}
		}
		if k == nil && !inScope {
			*ignored++
			continue
		}
		if ki, ok := k.(int); ok && !stillUnguarded[ki] {
			k = nil // the facts say the function is guarded now: a race there is new
		}
		obs = append(obs, observation{Kind: "race", Known: k, Index: -1, What: "race detector: data race on a registry map", Frames: frames, Excerpt: trunc(blk, 1500), ChildCmd: cmdline})
	}
	died := -1
	for _, marker := range []string{"\nfatal error:", "\npanic: "} {
		if i := strings.Index(text, marker); i >= 0 && (died < 0 || i < died) {
			died = i
		}
	}
	if i := strings.Index(text, "VERIF-C12-STRESS-HANG"); i >= 0 {
		// which goroutines are parked inside a registry function
		dump := text[i:]
		var stuck []string
		for _, g := range strings.Split(dump, "\n\n") {
			if strings.Contains(g, "[sync.WaitGroup.Wait") || strings.Contains(g, "[sync.RWMutex") || strings.Contains(g, "[sync.Mutex") || strings.Contains(g, "[semacquire") {
				for _, fr := range framesOf(g) {
					if _, ok := knownFrames[fr]; ok || scope[fr] {
						stuck = append(stuck, fr)
					}
				}
			}
		}
		k := knownOf(stuck)
		if ki, ok := k.(int); ok && !stillUnguarded[ki] {
			k = nil
		}
		obs = append(obs, observation{Kind: "hang", Known: k, Index: -1, What: "stress workers never returned (a goroutine is parked inside a registry function)", Frames: stuck, Excerpt: trunc(dump, 2500), ChildCmd: cmdline})
	} else if died >= 0 {
		msg := strings.TrimLeft(text[died:], "\n")
		line := msg
		if j := strings.Index(line, "\n"); j >= 0 {
			line = line[:j]
		}
		// the goroutine that detected it comes first; the other party is somewhere in the dump
		running := msg
		if j := strings.Index(msg, "\n\ngoroutine "); j >= 0 {
			if k2 := strings.Index(msg[j+2:], "\n\n"); k2 >= 0 {
				running = msg[:j+2+k2]
			}
		}
		k := knownOf(framesOf(running))
		if k == nil {
			k = knownOf(framesOf(msg))
		}
		if ki, ok := k.(int); ok && !stillUnguarded[ki] {
			k = nil
		}
		obs = append(obs, observation{Kind: "fatal", Known: k, Index: -1, What: "child process died: " + strings.TrimSpace(line), Frames: framesOf(running), Excerpt: trunc(msg, 2500), ChildCmd: cmdline})
	} else if res.timedOut {
		obs = append(obs, observation{Kind: "hang", Known: nil, Index: -1, What: "child process did not finish (watchdog)", Excerpt: trunc(text, 1500), ChildCmd: cmdline})
	} else if res.exitCode != 0 && res.exitCode != 66 {
		obs = append(obs, observation{Kind: "fatal", Known: nil, Index: -1, What: fmt.Sprintf("child process exited with status %d", res.exitCode), Excerpt: trunc(text, 2500), ChildCmd: cmdline})
	}
	if strings.Contains(text, "VERIF-C12-HARNESS:") {
		obs = append(obs, observation{Kind: "harness", Known: nil, Index: -1, What: "harness generator invariant broken", Excerpt: trunc(text, 800), ChildCmd: cmdline})
	}
	return obs
}

func trunc(s string, n int) string {
	if len(s) <= n {
		return s
	}
	return s[:n] + "…"
}

// ---------- linearization search (untrusted; Coq validates) ----------

type spec struct{ players, srv, servers []int }

func insSorted(l []int, x int) []int {
	i := sort.SearchInts(l, x)
	if i < len(l) && l[i] == x {
		return l
	}
	out := append([]int{}, l[:i]...)
	out = append(out, x)
	return append(out, l[i:]...)
}

func remSorted(l []int, x int) []int {
	i := sort.SearchInts(l, x)
	if i >= len(l) || l[i] != x {
		return l
	}
	out := append([]int{}, l[:i]...)
	return append(out, l[i+1:]...)
}

func eqInts(a, b []int) bool {
	if len(a) != len(b) {
		return false
	}
	for i := range a {
		if a[i] != b[i] {
			return false
		}
	}
	return true
}

func (s spec) apply(o lop, r lres) (spec, bool) {
	switch o.K {
	case "PReg":
		s.players = insSorted(s.players, o.H)
	case "PUnreg":
		s.players = remSorted(s.players, o.H)
	case "SAdd":
		s.srv = insSorted(s.srv, o.H)
	case "SRem":
		s.srv = remSorted(s.srv, o.H)
	case "VReg":
		s.servers = insSorted(s.servers, o.H)
	case "VUnreg":
		s.servers = remSorted(s.servers, o.H)
	case "QPlayers":
		return s, r.Kind == "L" && eqInts(r.L, s.players)
	case "QCount":
		return s, r.Kind == "N" && r.N == len(s.players)
	case "QRange":
		return s, r.Kind == "L" && eqInts(r.L, s.srv)
	case "QLen":
		return s, r.Kind == "N" && r.N == len(s.srv)
	case "QServers":
		return s, r.Kind == "L" && eqInts(r.L, s.servers)
	}
	return s, r.Kind == "U"
}

func search(h []callRec) []int {
	n := len(h)
	if n == 0 {
		return []int{}
	}
	placed := make([]bool, n)
	var order []int
	dead := map[string]bool{}
	budget := 3000000
	var rec func(s spec, cnt int) bool
	rec = func(s spec, cnt int) bool {
		if cnt == n {
			return true
		}
		budget--
		if budget < 0 {
			return false
		}
		var kb strings.Builder
		for _, p := range placed {
			if p {
				kb.WriteByte('1')
			} else {
				kb.WriteByte('0')
			}
		}
		fmt.Fprint(&kb, s.players, s.srv, s.servers)
		key := kb.String()
		if dead[key] {
			return false
		}
		minRes := int64(1 << 62)
		for i := 0; i < n; i++ {
			if !placed[i] && h[i].Res < minRes {
				minRes = h[i].Res
			}
		}
		for i := 0; i < n; i++ {
			if placed[i] || h[i].Inv > minRes {
				continue
			}
			s2, ok := s.apply(h[i].O, h[i].R)
			if !ok {
				continue
			}
			placed[i] = true
			order = append(order, i)
			if rec(s2, cnt+1) {
				return true
			}
			order = order[:len(order)-1]
			placed[i] = false
		}
		dead[key] = true
		return false
	}
	if rec(spec{}, 0) {
		return append([]int{}, order...)
	}
	return nil
}

var opMap = map[string]int{"PReg": 0, "PUnreg": 0, "QPlayers": 0, "QCount": 0, "SAdd": 1, "SRem": 1, "QRange": 1, "QLen": 1, "VReg": 2, "VUnreg": 2, "QServers": 2}
var opFunc = map[string]string{"QPlayers": "Proxy.Players", "QRange": "players.Range", "QServers": "Proxy.Servers", "QCount": "Proxy.PlayerCount", "QLen": "players.Len"}

// reduce mirrors Check.C12.reduce: drop listing calls of recorded unguarded functions that overlap a
// mutation of the same map.
func reduce(h []callRec, racyFunc map[string]bool) (out []callRec, dropped int) {
	for _, c := range h {
		racy := false
		if fn, ok := opFunc[c.O.K]; ok && racyFunc[fn] {
			for _, d := range h {
				if !strings.HasPrefix(d.O.K, "Q") && opMap[d.O.K] == opMap[c.O.K] && !(c.Res < d.Inv) && !(d.Res < c.Inv) {
					racy = true
					break
				}
			}
		}
		if racy {
			dropped++
		} else {
			out = append(out, c)
		}
	}
	return
}

// ---------- main ----------

func main() {
	child := flag.String("child", "", "internal: rounds | stress")
	from := flag.Int("from", 0, "internal: first history of a rounds child")
	cnt := flag.Int("n", 0, "internal: number of histories")
	dur := flag.Duration("dur", 2*time.Second, "internal: stress duration")
	f := lib.ParseFlags()
	switch *child {
	case "rounds":
		childRounds(f.Seed, *from, *cnt)
		return
	case "stress":
		childStress(f.Seed, *dur)
		return
	}

	out := lib.NewOut("C12", f)
	out.Imports = "From Verif Require Import Base.Lin.\n"
	out.Rule = "site cases: one per access site of Gen/LockFacts.v (every syntactic use of Proxy.playerNames/playerIDs/servers/configServers and players.list or of a local aliasing them), non-trivial = the site is an alias use or a write; listing histories: 16 goroutines x 3-6 barrier rounds of register/unregister player, server players.add/remove, Register/Unregister server against Players/PlayerCount/Servers/Range/Len on the real proxy in a child process, linearization against the atomic-snapshot specification searched in Go and validated in Coq, non-trivial = a listing overlaps a mutation of the same map; stress: 16 goroutines (6 writers, 9 listers, 1 DisconnectAll) for 2 s (20 s thorough, -race build) in a child process, race reports / fatal runtime errors parsed"

	sites, err := readSites()
	if err != nil {
		fmt.Fprintln(os.Stderr, "c12:", err)
		os.Exit(2)
	}
	racyFunc := map[string]bool{}
	stillUnguarded := map[int]bool{}
	for i, s := range sites {
		g := s.guarded()
		k, isKnown := knownSites[s.Func]
		if !g && s.Kind == "KAliasUse" && isKnown {
			racyFunc[s.Func] = true
			stillUnguarded[k] = true
		}
		tags := []string{"kind=site", "site-kind=" + s.Kind}
		if !g {
			tags = append(tags, "site-unguarded")
		}
		nt := s.Kind != "KRead"
		out.Add(lib.App("CSite", lib.Nat(i), `"`+s.File+`"`, lib.N(uint64(s.Line)), `"`+s.Func+`"`),
			map[string]any{"site": fmt.Sprintf("%s:%d", s.File, s.Line), "func": s.Func, "field": s.Field, "mutex": s.Mutex, "use": s.Kind, "held": s.Held, "guarded_by_harness_reading": g},
			nt, tags...)
	}

	ignored := 0
	var observations []observation
	seen := map[string]bool{}
	addObs := func(os_ []observation) {
		for _, o := range os_ {
			key := fmt.Sprint(o.Kind, o.Known, o.What)
			if o.Known == nil {
				key += strings.Join(o.Frames, ",")
			}
			if seen[key] {
				continue
			}
			seen[key] = true
			observations = append(observations, o)
		}
	}

	// listing histories (child process; restarted after a crash)
	nHist := f.Count(24)
	hists := make([][]callRec, nHist)
	got := make([]bool, nHist)
	crashes := 0
	if f.Only < 0 || f.Only >= len(sites) {
		next := 0
		for next < nHist && crashes < 6 {
			args := []string{"--child", "rounds", "--from", strconv.Itoa(next), "--n", strconv.Itoa(nHist)}
			res := runChild(f, 120*time.Second, args...)
			sc := bufio.NewScanner(bytes.NewReader(res.stdout))
			sc.Buffer(make([]byte, 1<<20), 1<<26)
			for sc.Scan() {
				var rec struct {
					I     int       `json:"i"`
					Calls []callRec `json:"calls"`
				}
				if json.Unmarshal(sc.Bytes(), &rec) == nil && rec.I >= 0 && rec.I < nHist {
					hists[rec.I] = rec.Calls
					got[rec.I] = true
					if rec.I+1 > next {
						next = rec.I + 1
					}
				}
			}
			addObs(analyse(res, sites, os.Args[0]+" "+strings.Join(args, " "), stillUnguarded, &ignored))
			if next < nHist {
				crashes++
				next++ // the history that was running when the child died is lost
			}
		}
	}
	overl := 0
	for i := 0; i < nHist; i++ {
		if !got[i] {
			out.Add(lib.App("CList", "[]", "[]"), map[string]any{"note": "history lost: the child process died while running it (see go_violations)"}, false, "kind=list-lost")
			continue
		}
		h := hists[i]
		order := search(h)
		tags := []string{"kind=list", fmt.Sprintf("list-calls=%d", len(h))}
		used := h
		if order == nil {
			red, dropped := reduce(h, racyFunc)
			if dropped > 0 {
				order = search(red)
				tags = append(tags, "list-needed-reduction")
			}
			_ = red
		}
		nt := false
		for _, c := range h {
			if strings.HasPrefix(c.O.K, "Q") {
				for _, d := range h {
					if !strings.HasPrefix(d.O.K, "Q") && opMap[d.O.K] == opMap[c.O.K] && !(c.Res < d.Inv) && !(d.Res < c.Inv) {
						nt = true
					}
				}
			}
		}
		if nt {
			overl++
		}
		var calls []string
		for _, c := range used {
			rs := c.R.Kind
			if c.R.Kind == "L" {
				rs = fmt.Sprint(c.R.L)
			} else if c.R.Kind == "N" {
				rs = fmt.Sprint(c.R.N)
			}
			calls = append(calls, fmt.Sprintf("[%d,%d] %s -> %s", c.Inv, c.Res, c.O, rs))
		}
		if order == nil {
			order = []int{}
			tags = append(tags, "list-no-linearization")
		}
		out.Add(lib.App("CList",
			lib.ListOf(h, func(c callRec) string { return lib.App("mkCall", c.O.coq(), c.R.coq(), lib.Z(c.Inv), lib.Z(c.Res)) }),
			lib.ListOf(order, func(i int) string { return lib.Nat(i) })),
			map[string]any{"calls": calls, "order": order}, nt, tags...)
	}

	// stress (child process)
	if f.Only < 0 {
		d := 2 * time.Second
		if f.Tier != "quick" {
			d = 20 * time.Second
		}
		args := []string{"--child", "stress", "--dur", d.String()}
		res := runChild(f, d+60*time.Second, args...)
		addObs(analyse(res, sites, os.Args[0]+" "+strings.Join(args, " "), stillUnguarded, &ignored))
		var sum struct {
			Lists    int64    `json:"lists"`
			BadLists int64    `json:"bad_lists"`
			Bad      []string `json:"bad"`
		}
		if json.Unmarshal(bytes.TrimSpace(res.stdout), &sum) == nil {
			out.Extra("stress_lists_returned", sum.Lists)
			out.Extra("stress_lists_with_duplicates_or_foreign_entries", sum.BadLists)
			if sum.BadLists > 0 {
				k := any(nil)
				if len(stillUnguarded) > 0 {
					for kk := range stillUnguarded {
						if k == nil || kk < k.(int) {
							k = kk
						}
					}
				}
				addObs([]observation{{Kind: "race", Known: k, Index: -1, What: "stress: a returned list holds a duplicate or an unknown entry", Excerpt: strings.Join(sum.Bad, "; ")}})
			}
		} else {
			out.Extra("stress_summary", "child produced no summary (died?)")
		}
		out.Extra("stress_duration", d.String())
	}
	out.Extra("histories_lost_to_child_crashes", crashes)
	out.Extra("listing_histories_with_overlap", overl)
	out.Extra("race_reports_outside_the_registries_ignored", ignored)
	for _, o := range observations {
		b, _ := json.Marshal(o)
		var m map[string]any
		json.Unmarshal(b, &m)
		out.GoViolation(m)
		out.Tag("observation=" + o.Kind)
	}
	out.Finish()
}
