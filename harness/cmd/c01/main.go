// C01 harness: payload sequences through the real netmc.NewWriter (bufio + Encoder + optional
// CFB8 StreamWriter) into an in-memory conn, then back through netmc.NewReader (bufio + optional CFB8
// StreamReader + fullReader + Decoder) with the conn handing out PRNG-sized chunks.
// Observed: the wire bytes, the chunk sizes, the payloads read back and how reading ended.
// Oracles (independent library calls): compress/zlib output per payload, AES first byte per register.
package main

import (
	"bytes"
	"compress/zlib"
	"crypto/aes"
	"crypto/sha256"
	"errors"
	"fmt"
	"io"
	"net"
	"time"

	"github.com/go-logr/logr"
	"go.minekube.com/gate/pkg/edition/java/netmc"
	"go.minekube.com/gate/pkg/edition/java/proto/codec"
	"go.minekube.com/gate/pkg/edition/java/proto/state"
	"go.minekube.com/gate/pkg/edition/java/proto/state/states"
	"go.minekube.com/gate/pkg/gate/proto"

	"verifharness/lib"
)

const maxFrame = 1<<21 - 1

// memConn is the in-memory net.Conn: Write collects the wire, Read hands it out in chunks.
type memConn struct {
	wire   []byte
	pos    int
	sizes  []int // planned chunk sizes; when exhausted the rest comes in one piece
	k      int
	got    []int // sizes actually returned
	hitEOF bool
}

func (c *memConn) Write(p []byte) (int, error) { c.wire = append(c.wire, p...); return len(p), nil }
func (c *memConn) Read(p []byte) (int, error) {
	if c.pos >= len(c.wire) {
		c.hitEOF = true
		return 0, io.EOF
	}
	n := len(c.wire) - c.pos
	if c.k < len(c.sizes) {
		n = min(n, c.sizes[c.k])
	}
	n = min(n, len(p)) // the caller's buffer limits the chunk; the rest of the planned chunk comes next
	if c.k < len(c.sizes) {
		c.sizes[c.k] -= n
		if c.sizes[c.k] <= 0 {
			c.k++
		}
	}
	copy(p, c.wire[c.pos:c.pos+n])
	c.pos += n
	c.got = append(c.got, n)
	return n, nil
}
func (c *memConn) Close() error                     { return nil }
func (c *memConn) LocalAddr() net.Addr              { return &net.TCPAddr{} }
func (c *memConn) RemoteAddr() net.Addr             { return &net.TCPAddr{} }
func (c *memConn) SetDeadline(time.Time) error      { return nil }
func (c *memConn) SetReadDeadline(time.Time) error  { return nil }
func (c *memConn) SetWriteDeadline(time.Time) error { return nil }

// op is one call on the netmc.Writer; the reader mirrors threshold / encryption changes after the same packets
type op struct {
	kind   string // write | thr | enc | flush
	p      []byte
	thr    int
	secret []byte
}

type session struct {
	thr, lvl   int
	sb         bool
	secret     []byte // nil = no encryption
	payloads   [][]byte
	chunkStyle string
	ops        []op // the history; built from the fields above for single-configuration sessions
}

type result struct {
	wire   []byte
	encN   int // number of wire bytes written after EnableEncryption (sum of the n's Write returned)
	chunks []int
	read   [][]byte
	term   string // ONeedMore | OFrameTooLarge | OErr | OFuel
	werr   error
}

func direction(sb bool) proto.Direction {
	if sb {
		return proto.ServerBound
	}
	return proto.ClientBound
}

// singleConfig: configure first (encryption and threshold in either order), then write, flushing now and then
func singleConfig(s session, rng *lib.Rng) []op {
	var ops []op
	encFirst := rng.Bool()
	if s.secret != nil && encFirst {
		ops = append(ops, op{kind: "enc", secret: s.secret})
	}
	ops = append(ops, op{kind: "thr", thr: s.thr})
	if s.secret != nil && !encFirst {
		ops = append(ops, op{kind: "enc", secret: s.secret})
	}
	for _, p := range s.payloads {
		ops = append(ops, op{kind: "write", p: p})
		if rng.Chance(1, 3) {
			ops = append(ops, op{kind: "flush"})
		}
	}
	return append(ops, op{kind: "flush"})
}

// run drives the real writer and reader once along the history.
func run(s session, rng *lib.Rng) (res result) {
	wc := &memConn{}
	w := netmc.NewWriter(wc, direction(s.sb), time.Second, s.lvl, logr.Discard())
	encrypting := false
	nWrites := 0
	for _, o := range s.ops {
		var err error
		switch o.kind {
		case "write":
			var n int
			n, err = w.Write(o.p)
			if encrypting {
				res.encN += n
			}
			nWrites++
		case "thr":
			err = w.SetCompressionThreshold(o.thr)
		case "enc":
			err = w.EnableEncryption(o.secret)
			encrypting = true
		case "flush":
			err = w.Flush()
		}
		if err != nil {
			res.werr = err
			return
		}
	}
	res.wire = wc.wire

	rc := &memConn{wire: wc.wire, sizes: planChunks(len(wc.wire), s.chunkStyle, rng)}
	r := netmc.NewReader(rc, direction(s.sb), time.Second, logr.Discard())
	r.SetState(state.NewRegistry(states.HandshakeState)) // empty registry: every packet id is "unknown", payload is returned as is
	res.term = "OFuel"
	classify := func(err error) string {
		var fe *codec.FrameTooLargeError
		switch {
		case rc.hitEOF:
			return "ONeedMore"
		case errors.As(err, &fe):
			return "OFrameTooLarge"
		}
		return "OErr"
	}
	done := false
	for _, o := range s.ops {
		if done {
			break
		}
		switch o.kind {
		case "write":
			ctx, err := r.ReadPacket()
			if err != nil {
				res.term = classify(err)
				done = true
				break
			}
			// keep the returned slice (no copy): payloads are compared only after the whole session was read back
			res.read = append(res.read, ctx.Payload)
		case "thr":
			_ = r.SetCompressionThreshold(o.thr)
		case "enc":
			if err := r.EnableEncryption(o.secret); err != nil {
				res.werr = err
				return
			}
		}
	}
	for i := 0; !done && i < nWrites+40; i++ {
		ctx, err := r.ReadPacket()
		if err != nil {
			res.term = classify(err)
			break
		}
		res.read = append(res.read, ctx.Payload)
	}
	res.chunks = rc.got
	return
}

func planChunks(n int, style string, rng *lib.Rng) []int {
	var out []int
	switch style {
	case "all":
		return nil
	case "bytewise":
		for i := 0; i < n; i++ {
			out = append(out, 1)
		}
	case "small":
		for t := 0; t < n; {
			k := rng.Range(1, 7)
			out = append(out, k)
			t += k
		}
	default: // mixed
		for t := 0; t < n; {
			var k int
			switch rng.Intn(4) {
			case 0:
				k = 1
			case 1:
				k = rng.Range(2, 16)
			case 2:
				k = rng.Range(17, 300)
			default:
				k = rng.Range(1, n+1)
			}
			out = append(out, k)
			t += k
		}
	}
	return out
}

func varint(v int) []byte {
	u := uint32(v)
	var b []byte
	for u >= 0x80 {
		b = append(b, byte(u)|0x80)
		u >>= 7
	}
	return append(b, byte(u))
}

// payload = packet id VarInt + content of the requested total size (at least the id)
func genPayload(size int, rng *lib.Rng) ([]byte, string) {
	id := varint(rng.Pick(1, 0x7f, 0x80, 0x3fff, 0x4000, 0x1fffff, rng.Intn(1<<28)))
	if size <= 2 {
		id = varint(rng.Range(1, 0x7f))
	}
	if size < len(id) {
		size = len(id)
	}
	body := make([]byte, size-len(id))
	kind := rng.PickS("random", "constant", "repetitive")
	switch kind {
	case "random":
		copy(body, rng.Bytes(len(body)))
	case "constant":
		b := byte(rng.Intn(256))
		for i := range body {
			body[i] = b
		}
	default:
		pat := rng.Bytes(rng.Range(2, 9))
		for i := range body {
			body[i] = pat[i%len(pat)]
		}
	}
	return append(id, body...), kind
}

func zlibAt(p []byte, lvl int) []byte {
	var b bytes.Buffer
	zw, err := zlib.NewWriterLevel(&b, lvl)
	if err != nil {
		panic(err)
	}
	zw.Write(p)
	zw.Close()
	return b.Bytes()
}

func sizeNear(t int, rng *lib.Rng, budget int) int {
	cands := []int{1, 2, 3, 127, 128, 129, 255, 256, 257}
	if t > 0 {
		cands = append(cands, t-1, t, t+1, t, t-1)
	}
	if rng.Chance(1, 3) {
		return rng.Range(1, max(1, budget))
	}
	s := cands[rng.Intn(len(cands))]
	if s < 1 {
		s = 1
	}
	if s > budget {
		s = rng.Range(1, max(1, budget))
	}
	return s
}

var thresholds = []int{-1, 0, 1, 64, 256, 1 << 20}

func oterm(s string) string { return "Check.C01." + s }

func main() {
	f := lib.ParseFlags()
	rng := lib.NewRng(f.Seed)
	out := lib.NewOut("C01", f)
	out.Imports = "From Verif Require Import Model.Codec.\n"
	out.Rule = "sessions of 1..12 payloads (packet-id VarInt + random/constant/repetitive content; sizes from {1,2,3,t-1,t,t+1,127..129,255..257} and random) " +
		"through netmc.NewWriter -> in-memory conn -> netmc.NewReader; threshold in {-1,0,1,64,256,2^20}, level -1..9, encryption on/off with random 16-byte secret, " +
		"conn.Read chunking bytewise / 1..7 / mixed / all-at-once. Coq-judged sessions keep the wire <= 4 KiB (<= 1.5 KiB when encrypted: one AES table row per wire byte). " +
		"Two sessions in five are histories: 0..3 writes, mostly still unflushed in the bufio.Writer, in front of each SetCompressionThreshold / EnableEncryption call (in shuffled order, optionally a second threshold change), the reader making the same changes after the same packets. A few sessions are outside Encoder.Write's contract (empty payload, payload without a packet id). distinct = distinct case term; " +
		"non-trivial = the session compresses at least one payload, or is encrypted, or is split into more than one chunk. " +
		"The payload slices ReadPacket returned are kept without copying and compared only after the whole session was read. Large payloads (up to 2^21-1 bytes) run through the implementation only and are compared in Go as (length, sha256), see coverage.big_sessions."

	n := f.Count(150)
	for i := 0; i < n; i++ {
		cr := rng.Fork()
		s := session{thr: thresholds[cr.Intn(len(thresholds))], lvl: cr.Range(-1, 9), sb: cr.Bool()}
		if i%6 == 0 { // make every threshold/level meet deterministically
			s.thr = thresholds[(i/6)%len(thresholds)]
			s.lvl = (i/6)%11 - 1
		}
		budget := 3600
		if cr.Chance(1, 2) {
			s.secret = cr.Bytes(16)
			budget = 1300
		}
		s.chunkStyle = cr.PickS("all", "bytewise", "small", "mixed", "mixed")
		if s.chunkStyle == "bytewise" && budget > 1500 {
			budget = 1500
		}
		np := cr.Range(1, 12)
		contract := true
		var kinds []string
		for j := 0; j < np && budget > 8; j++ {
			sz := sizeNear(s.thr, cr, min(budget-6, 1400))
			p, kind := genPayload(sz, cr)
			if cr.Chance(1, 60) {
				contract = false
				if cr.Bool() {
					p = nil
				} else {
					p = []byte{0x80 | byte(cr.Intn(128))}
				}
				kind = "outside-contract"
			}
			// incompressible payloads above the threshold grow a little; keep the wire inside the budget
			s.payloads = append(s.payloads, p)
			kinds = append(kinds, kind)
			budget -= len(p) + 16
		}
		history := i%5 == 3 || i%5 == 4 // two sessions in five change the configuration between buffered writes
		if history && contract {
			s.ops, s.secret = historyOps(&s, cr)
		} else {
			history = false
			s.ops = singleConfig(s, cr)
		}
		res := run(s, cr)
		if res.werr != nil {
			out.GoViolation(map[string]any{"known": nil, "index": i, "what": "writer/reader setup returned an error", "error": res.werr.Error(),
				"thr": s.thr, "lvl": s.lvl})
			continue
		}
		// oracles
		var dt []string
		seen := map[string]bool{}
		compressed := false
		curThr := -1
		for _, o := range s.ops {
			if o.kind == "thr" {
				curThr = o.thr
			}
			if o.kind == "write" && curThr >= 0 && len(o.p) >= curThr && !seen[string(o.p)] {
				seen[string(o.p)] = true
				compressed = true
				dt = append(dt, lib.Pair(lib.Bytes(o.p), lib.Bytes(zlibAt(o.p, s.lvl))))
			}
		}
		var et []byte
		if s.secret != nil && res.encN <= len(res.wire) {
			blk, _ := aes.NewCipher(s.secret)
			enc := res.wire[len(res.wire)-res.encN:]
			regs := append(append([]byte{}, s.secret...), enc...)
			o := make([]byte, 16)
			for k := 0; k < len(enc); k++ {
				blk.Encrypt(o, regs[k:k+16])
				et = append(et, o[0])
			}
		}
		term := lib.App("Check.C01.mk", lib.Z(int64(s.lvl)), lib.Bool(s.sb), coqOps(s.ops),
			lib.List(dt), lib.Bytes(et), lib.Bytes(res.wire),
			rle(res.chunks),
			lib.ListOf(res.read, lib.Bytes), oterm(res.term))
		tags := []string{fmt.Sprintf("thr=%d", s.thr), fmt.Sprintf("lvl=%d", s.lvl), "chunks=" + s.chunkStyle}
		if history {
			tags = append(append(tags, "history"), historyTags(s.ops)...)
		} else {
			tags = append(tags, "single-config")
		}
		if s.secret != nil {
			tags = append(tags, "encrypted")
		} else {
			tags = append(tags, "plain")
		}
		if compressed {
			tags = append(tags, "compresses")
		}
		if !contract {
			tags = append(tags, "outside-contract")
		}
		if s.sb {
			tags = append(tags, "serverbound")
		} else {
			tags = append(tags, "clientbound")
		}
		sizes := make([]int, len(s.payloads))
		for k, p := range s.payloads {
			sizes[k] = len(p)
		}
		out.Add(term, map[string]any{"thr": s.thr, "lvl": s.lvl, "serverbound": s.sb, "secret_hex": fmt.Sprintf("%x", s.secret),
			"payload_sizes": sizes, "payload_kinds": kinds, "payloads_hex": hexList(s.payloads), "wire_len": len(res.wire), "chunks": res.chunks,
			"read_sizes": lens(res.read), "term": res.term, "history": describeOps(s.ops)},
			compressed || s.secret != nil || len(res.chunks) > 1, tags...)
	}

	// large sessions: implementation only, compared in Go by (length, sha256)
	bigN := f.Count(10)
	bigOK, bigReject := 0, 0
	var bigSizes []int
	for i := 0; i < bigN; i++ {
		cr := rng.Fork()
		s := session{thr: thresholds[cr.Intn(len(thresholds))], lvl: cr.Range(-1, 9), sb: cr.Bool(), chunkStyle: "mixed"}
		if cr.Bool() {
			s.secret = cr.Bytes(16)
		}
		np := cr.Range(1, 3)
		expectReject := -1
		for j := 0; j < np; j++ {
			sz := cr.Pick(maxFrame, maxFrame-1, maxFrame-5, 1<<20, 1<<20-1, 1<<20+1, 65536, 32768, cr.Range(4097, maxFrame))
			if i == 0 && j == 0 { // the reachable guard: incompressible maximal payload, stored blocks
				sz, s.thr, s.lvl = maxFrame, 0, 0
			}
			p, _ := genPayload(sz, cr)
			s.payloads = append(s.payloads, p)
			body := len(p)
			if s.thr >= 0 && len(p) < s.thr {
				body = len(p) + 1
			} else if s.thr >= 0 {
				body = len(varint(len(p))) + len(zlibAt(p, s.lvl))
			}
			if body > maxFrame && expectReject < 0 {
				expectReject = j
			}
		}
		s.ops = singleConfig(s, cr)
		res := run(s, cr)
		bigSizes = append(bigSizes, lens(s.payloads)...)
		want := s.payloads
		wantTerm := "ONeedMore"
		if expectReject >= 0 {
			want = s.payloads[:expectReject]
			wantTerm = "OFrameTooLarge"
			bigReject++
		}
		ok := res.werr == nil && len(res.read) == len(want) && res.term == wantTerm
		for k := 0; ok && k < len(want); k++ {
			ok = len(res.read[k]) == len(want[k]) && sha256.Sum256(res.read[k]) == sha256.Sum256(want[k])
		}
		if ok {
			bigOK++
		} else {
			out.GoViolation(map[string]any{"known": nil, "what": "large session: payloads read back differ from payloads written (compared as length+sha256)",
				"big_index": i, "thr": s.thr, "lvl": s.lvl, "encrypted": s.secret != nil, "payload_sizes": lens(s.payloads),
				"read_sizes": lens(res.read), "term": res.term, "expected_term": wantTerm, "seed": f.Seed})
		}
	}
	out.Extra("big_sessions", map[string]any{"run": bigN, "agree": bigOK, "expected_frame_too_large": bigReject, "payload_sizes": bigSizes,
		"note": "payloads above 4 KiB are run through the real writer/reader only; written and read payloads are compared in Go as (length, sha256); not evaluated in Coq"})
	out.Finish()
}

func lens(xs [][]byte) []int {
	o := make([]int, len(xs))
	for i, x := range xs {
		o[i] = len(x)
	}
	return o
}

func hexList(xs [][]byte) []string {
	o := make([]string, len(xs))
	for i, x := range xs {
		if len(x) > 64 {
			o[i] = fmt.Sprintf("%x…(%d bytes)", x[:64], len(x))
		} else {
			o[i] = fmt.Sprintf("%x", x)
		}
	}
	return o
}

// rle prints chunk sizes run-length encoded as (size, times) pairs
func rle(xs []int) string {
	var items []string
	for i := 0; i < len(xs); {
		j := i
		for j < len(xs) && xs[j] == xs[i] {
			j++
		}
		items = append(items, lib.Pair(fmt.Sprint(xs[i]), fmt.Sprint(j-i)))
		i = j
	}
	return lib.List(items)
}

// historyOps: writes before, between and after SetCompressionThreshold / EnableEncryption calls, most of them
// still unflushed in the bufio.Writer when the change happens; the payloads were generated for s.thr.
func historyOps(s *session, rng *lib.Rng) ([]op, []byte) {
	var ops []op
	secret := s.secret // the wire budget was chosen for this (one AES table row per encrypted byte)
	ps := s.payloads
	cuts := []string{"thr"}
	if secret != nil {
		cuts = append(cuts, "enc")
	}
	if rng.Bool() {
		cuts = append(cuts, "thr2")
	}
	for i := range cuts { // shuffle the order of the changes
		j := rng.Intn(i + 1)
		cuts[i], cuts[j] = cuts[j], cuts[i]
	}
	flushP := rng.Pick(0, 0, 4, 2) // 0 = never flush before the end
	emit := func(k int) {
		for ; k > 0 && len(ps) > 0; k-- {
			ops = append(ops, op{kind: "write", p: ps[0]})
			ps = ps[1:]
			if flushP > 0 && rng.Chance(1, flushP) {
				ops = append(ops, op{kind: "flush"})
			}
		}
	}
	for _, c := range cuts {
		emit(rng.Range(0, 3)) // 0..3 buffered writes in front of the change
		switch c {
		case "thr":
			ops = append(ops, op{kind: "thr", thr: s.thr})
		case "thr2":
			ops = append(ops, op{kind: "thr", thr: thresholds[rng.Intn(len(thresholds))]})
		default:
			ops = append(ops, op{kind: "enc", secret: secret})
		}
	}
	emit(len(ps))
	return append(ops, op{kind: "flush"}), secret
}

func coqOps(ops []op) string {
	items := make([]string, len(ops))
	for i, o := range ops {
		switch o.kind {
		case "write":
			items[i] = lib.App("WWrite", lib.Bytes(o.p))
		case "thr":
			items[i] = lib.App("WThr", lib.Z(int64(o.thr)))
		case "enc":
			items[i] = lib.App("WEnc", lib.Bytes(o.secret))
		default:
			items[i] = "WFlush"
		}
	}
	return lib.List(items)
}

func describeOps(ops []op) []string {
	var d []string
	for _, o := range ops {
		switch o.kind {
		case "write":
			d = append(d, fmt.Sprintf("write(%d bytes)", len(o.p)))
		case "thr":
			d = append(d, fmt.Sprintf("threshold(%d)", o.thr))
		case "enc":
			d = append(d, "encrypt")
		default:
			d = append(d, "flush")
		}
	}
	return d
}

// which changes had unflushed writes in front of them
func historyTags(ops []op) []string {
	var tags []string
	pending := 0
	for _, o := range ops {
		switch o.kind {
		case "write":
			pending++
		case "flush":
			pending = 0
		case "enc":
			if pending > 0 {
				tags = append(tags, "unflushed-before-encryption")
			}
		case "thr":
			if pending > 0 {
				tags = append(tags, "unflushed-before-threshold")
			}
		}
	}
	return tags
}
