// C07 harness: the packets the proxy builds itself, encoded by the REAL Encode for generated values at the
// protocol versions around every format change; the Coq judge parses the bytes with the vanilla reference
// decoder (Model/Vanilla.v) and compares with the intended values.
package main

import (
	"bytes"
	"fmt"
	"sort"
	"strings"
	"sync"
	"time"

	"go.minekube.com/common/minecraft/component"

	p "go.minekube.com/gate/pkg/edition/java/proto/packet"
	"go.minekube.com/gate/pkg/edition/java/proto/packet/chat"
	"go.minekube.com/gate/pkg/edition/java/proto/packet/plugin"
	"go.minekube.com/gate/pkg/edition/java/proto/packet/tablist/playerinfo"
	"go.minekube.com/gate/pkg/edition/java/proto/util"
	"go.minekube.com/gate/pkg/edition/java/proto/version"
	"go.minekube.com/gate/pkg/gate/proto"
	"go.minekube.com/gate/pkg/util/uuid"

	"verifharness/lib"
	"verifharness/pktgen"
)

var refTypes = map[string]bool{
	"packet.Handshake": true, "packet.StatusRequest": true, "packet.StatusResponse": true, "packet.StatusPing": true,
	"packet.KeepAlive": true, "packet.SetCompression": true, "packet.Transfer": true, "packet.LoginPluginMessage": true,
	"packet.LoginPluginResponse": true, "packet.EncryptionRequest": true, "packet.EncryptionResponse": true,
	"packet.ServerLoginSuccess": true, "plugin.Message": true, "playerinfo.Remove": true,
}

// protocols at both sides of every format change of the listed packets
var eraVersions = []int{4, 5, 47, 107, 338, 340, 393, 573, 735, 758, 759, 760, 761, 763, 764, 765, 766, 767, 768, 769, 775, 776}

func perms(xs []int, k int) [][]int {
	if k == 0 {
		return [][]int{{}}
	}
	var out [][]int
	for i, x := range xs {
		rest := append(append([]int{}, xs[:i]...), xs[i+1:]...)
		for _, t := range perms(rest, k-1) {
			out = append(out, append([]int{x}, t...))
		}
	}
	return out
}

// gatedWriter records what is written and, after the FIRST Write, waits until it is released
type gatedWriter struct {
	buf    bytes.Buffer
	n      int
	paused chan struct{}
	resume chan struct{}
}

func (g *gatedWriter) Write(p []byte) (int, error) {
	g.buf.Write(p)
	g.n++
	if g.n == 1 {
		close(g.paused)
		<-g.resume
	}
	return len(p), nil
}

func actsTerm(a []int) string {
	return lib.ListOf(a, func(i int) string { return lib.N(uint64(i)) })
}

func main() {
	f := lib.ParseFlags()
	rng := lib.NewRng(f.Seed)
	out := lib.NewOut("C07", f)
	out.Imports = "From Verif Require Import Check.C04.\n"
	out.Rule = "handshake, status, keep-alive, compression, transfer, login plugin messages, encryption request/response, login success, plugin message, player-info remove: " +
		"every registration at the protocols on both sides of each format change, generated values; login start with/without key and holder; disconnect with a plain text reason in every state; " +
		"player-info update: every subset of the actions in canonical order, every permutation of 2, of 3 and of 4 actions (quick: all 2-permutations, samples of the 3- and 4-permutations; thorough: all 336 and 1680) with 0-3 entries; " +
		"concurrency: staged pairs (viewer A held after its first write while viewer B with another action set is encoded) and 8 goroutines encoding their own updates in parallel (every distinct output judged); non-trivial = non-empty body"
	era := map[int]bool{}
	for _, v := range eraVersions {
		era[v] = true
	}
	regs := pktgen.All()
	emit := func(tn string, r pktgen.Reg, kind, env string, obs []byte, desc map[string]any, tags ...string) {
		term := lib.App("Check.C07.mk", `"`+tn+`"`, lib.Z(int64(r.Proto)), lib.Bool(r.Dir == proto.ClientBound), kind, env, lib.Bytes(obs))
		desc["type"], desc["protocol"], desc["dir"], desc["state"], desc["bytes_hex"] = tn, int(r.Proto), r.Dir.String(), r.StateName, fmt.Sprintf("%.400x", obs)
		out.Add(term, desc, len(obs) > 0, append(tags, "type="+tn, fmt.Sprintf("protocol=%d", r.Proto))...)
	}
	encode := func(pk proto.Packet, r pktgen.Reg) ([]byte, error) {
		var b bytes.Buffer
		err := util.RecoverFunc(func() error { return pk.Encode(r.Ctx(), &b) })
		return b.Bytes(), err
	}
	nVal := 2
	if f.Tier != "quick" {
		nVal = 6
	}
	rejected := 0
	var upsertRegs []pktgen.Reg
	for _, r := range regs {
		tn := r.Type.String()
		if !era[int(r.Proto)] && f.Tier != "thorough" {
			continue
		}
		switch {
		case refTypes[tn]:
			for i := 0; i < nVal; i++ {
				g := &pktgen.G{R: rng.Fork(), Proto: r.Proto, Dir: r.Dir, State: r.StateName}
				pk, _ := pktgen.Gen(r.Type, g)
				if h, ok := pk.(*p.Handshake); ok && h.Port >= 32768 && i == 0 {
					h.Port = 25565
				}
				b, err := encode(pk, r)
				if err != nil {
					rejected++
					continue
				}
				emit(tn, r, "Check.C07.KRef", pktgen.DumpAt(pk, r.Proto), b, map[string]any{"value": fmt.Sprintf("%.300v", fmt.Sprintf("%+v", pk))}, g.Tags...)
			}
		case tn == "packet.ServerLogin":
			for i := 0; i < nVal+2; i++ {
				g := &pktgen.G{R: rng.Fork(), Proto: r.Proto, Dir: r.Dir, State: r.StateName}
				pk, _ := pktgen.Gen(r.Type, g)
				s := pk.(*p.ServerLogin)
				b, err := encode(pk, r)
				if err != nil {
					rejected++
					continue
				}
				// the values the proxy means to send: the key (1.19 - 1.19.2) and the profile uuid of the key holder
				hasKey := s.PlayerKey != nil
				holder := s.HolderID
				if r.Proto.Lower(version.Minecraft_1_20_2) && hasKey && s.PlayerKey.SignatureHolder() != uuid.Nil {
					holder = s.PlayerKey.SignatureHolder()
				}
				fields := []string{
					lib.Pair(`"Username"`, "(FBy "+lib.Str(s.Username)+")"),
					lib.Pair(`"HasKey"`, "(FB "+lib.Bool(hasKey)+")"),
					lib.Pair(`"HasHolder"`, "(FB "+lib.Bool(holder != uuid.Nil)+")"),
					lib.Pair(`"Holder"`, "(FU "+lib.Bytes(holder[:])+")"),
				}
				if hasKey {
					fields = append(fields,
						lib.Pair(`"KeyExpiry"`, "(FZ "+lib.Z(s.PlayerKey.ExpiryTemporal().UnixMilli())+")"),
						lib.Pair(`"KeyBytes"`, "(FBy "+lib.Bytes(s.PlayerKey.SignedPublicKeyBytes())+")"),
						lib.Pair(`"KeySignature"`, "(FBy "+lib.Bytes(s.PlayerKey.Signature())+")"))
				}
				emit(tn, r, "Check.C07.KLoginStart", "(FS "+lib.List(fields)+")", b,
					map[string]any{"username": s.Username, "has_key": hasKey, "holder": holder.String()}, fmt.Sprintf("key=%v", hasKey), fmt.Sprintf("holder=%v", holder != uuid.Nil))
			}
		case tn == "packet.Disconnect":
			for i := 0; i < nVal; i++ {
				cr := rng.Fork()
				text := cr.StringOver("abcdefghijklmnopqrstuvwxyzABCDEFGHIJKLMNOPQRSTUVWXYZ0123456789 .,!", cr.Pick(0, 1, 12, 60))
				pk := p.NewDisconnect(&component.Text{Content: text}, r.Proto, r.State.State)
				b, err := encode(pk, r)
				if err != nil {
					rejected++
					continue
				}
				jsonEra := r.Proto.Lower(version.Minecraft_1_20_3) || r.StateName == "Login"
				emit(tn, r, lib.App("Check.C07.KDisconnect", lib.Bool(jsonEra), lib.Str(text)), "FX", b, map[string]any{"text": text, "json_era": jsonEra})
			}
		case tn == "playerinfo.Upsert":
			upsertRegs = append(upsertRegs, r)
		}
	}
	// player-info update: action subsets and permutations
	for _, r := range upsertRegs {
		nAct := 6
		if r.Proto.GreaterEqual(version.Minecraft_1_21_4) {
			nAct = 8
		} else if r.Proto.GreaterEqual(version.Minecraft_1_21_2) {
			nAct = 7
		}
		var sets [][]int
		full := r.Proto == version.MaximumVersion.Protocol ||
			(f.Tier == "thorough" && (r.Proto == version.Minecraft_1_19_3.Protocol || r.Proto == version.Minecraft_1_20_3.Protocol || r.Proto == version.Minecraft_1_21_2.Protocol || r.Proto == version.Minecraft_1_21_4.Protocol))
		if full {
			for m := 0; m < 1<<nAct; m++ { // every subset, canonical order
				var s []int
				for i := 0; i < nAct; i++ {
					if m>>i&1 == 1 {
						s = append(s, i)
					}
				}
				sets = append(sets, s)
			}
		}
		all := make([]int, nAct)
		for i := range all {
			all[i] = i
		}
		maxK := 3
		if !full {
			maxK = 2
			for i := 0; i < nAct; i++ { // singletons and the full set
				sets = append(sets, []int{i})
			}
			sets = append(sets, all)
		}
		for k := 2; k <= maxK; k++ {
			ps := perms(all, k)
			if k == 3 && f.Tier == "quick" { // quick: a sample of the 336 3-permutations
				cr := rng.Fork()
				for i := 0; i < 120; i++ {
					sets = append(sets, ps[cr.Intn(len(ps))])
				}
				continue
			}
			sets = append(sets, ps...)
		}
		p4 := perms(all, 4)
		if f.Tier == "thorough" && full {
			sets = append(sets, p4...)
		} else if full {
			cr := rng.Fork()
			for i := 0; i < 60; i++ {
				sets = append(sets, p4[cr.Intn(len(p4))])
			}
		}
		for _, acts := range sets {
			g := &pktgen.G{R: rng.Fork(), Proto: r.Proto, Dir: r.Dir, State: r.StateName}
			var as []playerinfo.UpsertAction
			for _, a := range acts {
				as = append(as, playerinfo.UpsertActions[a])
			}
			pk := &playerinfo.Upsert{}
			g.Upsert(pk, as)
			if as == nil {
				pk.ActionSet = nil
			}
			b, err := encode(pk, r)
			if err != nil {
				rejected++
				continue
			}
			canon := sort.IntsAreSorted(acts)
			emit("playerinfo.Upsert", r, lib.App("Check.C07.KUpsert", actsTerm(acts)), pktgen.DumpAt(pk, r.Proto), b,
				map[string]any{"actions": acts, "entries": len(pk.Entries)}, fmt.Sprintf("actions=%d", len(acts)), fmt.Sprintf("canonical=%v", canon))
		}
	}
	// ---- 1.7 plugin messages with long payloads: the array length needs the Forge three-byte form from 32768 on
	// (bit 15 of the short is the continuation flag). Uniform payloads, written compactly as (rep b n). ----
	for _, r := range regs {
		if r.Type.String() != "plugin.Message" || r.Proto.GreaterEqual(version.Minecraft_1_8) {
			continue
		}
		for _, n := range []int{32767, 32768, 32769, 40000, 65535, 65536, 100000} {
			fill := byte(7 + n%5)
			pk := &plugin.Message{Channel: "FML|HS", Data: bytes.Repeat([]byte{fill}, n)}
			b, err := encode(pk, r)
			if err != nil {
				rejected++
				continue
			}
			if len(b) < n || !bytes.Equal(b[len(b)-n:], pk.Data) {
				// not header ++ payload: print in full
				emit("plugin.Message", r, "Check.C07.KRef", pktgen.DumpAt(pk, r.Proto), b, map[string]any{"data_len": n}, "long17")
				continue
			}
			data := fmt.Sprintf("(Check.C07.rep %d %d)", fill, n)
			env := "(FS " + lib.List([]string{lib.Pair(`"Channel"`, "(FBy "+lib.Str(pk.Channel)+")"), lib.Pair(`"Data"`, "(FBy "+data+")")}) + ")"
			term := lib.App("Check.C07.mk", `"plugin.Message"`, lib.Z(int64(r.Proto)), lib.Bool(r.Dir == proto.ClientBound), "Check.C07.KRef", env,
				"("+lib.Bytes(b[:len(b)-n])+" ++ "+data+")%list")
			out.Add(term, map[string]any{"type": "plugin.Message", "protocol": int(r.Proto), "dir": r.Dir.String(), "state": r.StateName,
				"channel": pk.Channel, "data": fmt.Sprintf("%d x %02x", n, fill), "header_hex": fmt.Sprintf("%x", b[:len(b)-n])}, true,
				"type=plugin.Message", fmt.Sprintf("protocol=%d", r.Proto), fmt.Sprintf("long17=%d", n))
		}
	}
	// ---- concurrency: player-info updates for different viewers are encoded at the same time (every connection has
	// its own encoder); each output must still decode, with the vanilla reference, to ITS OWN intended values ----
	if len(upsertRegs) > 0 {
		r := upsertRegs[len(upsertRegs)-1] // the newest protocol (all eight actions exist)
		mk := func(acts []int, g *pktgen.G) *playerinfo.Upsert {
			var as []playerinfo.UpsertAction
			for _, a := range acts {
				as = append(as, playerinfo.UpsertActions[a])
			}
			pk := &playerinfo.Upsert{}
			g.Upsert(pk, as)
			for len(pk.Entries) < 2 { // at least two entries so that the per-entry loop runs after the first write
				pk.Entries = append(pk.Entries, &playerinfo.Entry{ProfileID: g.UUID(), Listed: true, Latency: 300, GameMode: 1, ListOrder: 7, ShowHat: true})
			}
			for _, e := range pk.Entries {
				e.DisplayName, e.RemoteChatSession = nil, nil
				if e.Profile.Name == "" {
					e.Profile.Name = "viewer"
				}
			}
			return pk
		}
		emitUpsert := func(pk *playerinfo.Upsert, acts []int, b []byte, how string) {
			emit("playerinfo.Upsert", r, lib.App("Check.C07.KUpsert", actsTerm(acts)), pktgen.DumpAt(pk, r.Proto), b,
				map[string]any{"actions": acts, "entries": len(pk.Entries), "concurrency": how}, "concurrency="+how)
		}
		// (a) staged: A's Encode is held after its first Write, B (different action set) is encoded completely, A resumes
		pairs := [][2][]int{{{3, 4}, {0, 2, 5}}, {{0, 1, 2, 3, 4, 5, 6, 7}, {4}}, {{2}, {3, 6, 7}}, {{0, 3}, {2, 4, 6}}}
		for _, pr := range pairs {
			g := &pktgen.G{R: rng.Fork(), Proto: r.Proto, Dir: r.Dir, State: r.StateName}
			pa, pb := mk(pr[0], g), mk(pr[1], g)
			gw := &gatedWriter{paused: make(chan struct{}), resume: make(chan struct{})}
			doneA := make(chan error, 1)
			go func() { doneA <- util.RecoverFunc(func() error { return pa.Encode(r.Ctx(), gw) }) }()
			select {
			case <-gw.paused:
			case <-time.After(10 * time.Second):
				panic("staged upsert: viewer A never reached its first write")
			}
			bb, errB := encode(pb, r)
			close(gw.resume)
			var errA error
			select {
			case errA = <-doneA:
			case <-time.After(10 * time.Second):
				panic("staged upsert: viewer A never finished")
			}
			if errA != nil || errB != nil {
				rejected++
				continue
			}
			emitUpsert(pa, pr[0], gw.buf.Bytes(), "staged-A")
			emitUpsert(pb, pr[1], bb, "staged-B")
		}
		// (b) unstaged stress: 8 goroutines encode their own packets in parallel; every output is judged - identical
		// outputs of the same packet are emitted once (the judge is a function of packet and bytes)
		const workers, perWorker = 8, 4
		iters := 3000
		if f.Tier != "quick" {
			iters = 20000
		}
		type wp struct {
			acts []int
			pk   *playerinfo.Upsert
			seen map[string]bool
		}
		sets := [][]int{{0}, {2}, {3}, {4}, {6}, {7}, {2, 3}, {3, 4}, {4, 6}, {0, 2}, {0, 3, 4}, {2, 4, 7}, {3, 6, 7}, {0, 2, 3, 4}, {2, 3, 4, 6, 7}, {0, 2, 3, 4, 6, 7},
			{0, 4}, {2, 6}, {3, 7}, {0, 7}, {4, 7}, {2, 3, 6}, {0, 3, 6}, {0, 2, 7}, {3, 4, 6}, {2, 4}, {0, 6}, {6, 7}, {0, 3}, {2, 7}, {3, 4, 7}, {0, 2, 4}}
		var all [workers][perWorker]*wp
		for w := 0; w < workers; w++ {
			for k := 0; k < perWorker; k++ {
				g := &pktgen.G{R: rng.Fork(), Proto: r.Proto, Dir: r.Dir, State: r.StateName}
				acts := sets[(w*perWorker+k)%len(sets)]
				all[w][k] = &wp{acts: acts, pk: mk(acts, g), seen: map[string]bool{}}
			}
		}
		var wg sync.WaitGroup
		for w := 0; w < workers; w++ {
			wg.Add(1)
			go func(w int) {
				defer wg.Done()
				for i := 0; i < iters; i++ {
					p := all[w][i%perWorker]
					var b bytes.Buffer
					if err := util.RecoverFunc(func() error { return p.pk.Encode(r.Ctx(), &b) }); err != nil {
						p.seen["!"+err.Error()] = true
						continue
					}
					if len(p.seen) < 8 {
						p.seen[string(b.Bytes())] = true
					}
				}
			}(w)
		}
		wg.Wait()
		stressOutputs := 0
		for w := 0; w < workers; w++ {
			for k := 0; k < perWorker; k++ {
				p := all[w][k]
				var outs []string
				for o := range p.seen {
					outs = append(outs, o)
				}
				sort.Strings(outs)
				for _, o := range outs {
					if strings.HasPrefix(o, "!") {
						rejected++
						continue
					}
					stressOutputs++
					emitUpsert(p.pk, p.acts, []byte(o), "stress")
				}
			}
		}
		out.Extra("upsert_concurrency", map[string]any{"staged_pairs": len(pairs), "stress_goroutines": workers, "stress_encodes": workers * iters,
			"stress_distinct_outputs_judged": stressOutputs, "stress_packets": workers * perWorker})
	}
	_ = chat.SystemMessageType
	frag, _ := pktgen.FragmentNames()
	var translated, hand []string
	for tn := range refTypes {
		if frag[tn] {
			translated = append(translated, tn)
		} else {
			hand = append(hand, tn)
		}
	}
	sort.Strings(translated)
	sort.Strings(hand)
	out.Extra("fragment_coverage", map[string]any{"reference_types_with_translated_encoder": translated, "reference_types_not_translated": hand,
		"hand_modelled": []string{"playerinfo.Upsert"}, "correspondence_only": []string{"packet.ServerLogin", "packet.Disconnect"}})
	out.Extra("encoder_rejected", rejected)
	out.Finish()
}
