// C07 harness: the packets the proxy builds itself, encoded by the REAL Encode for generated values at the
// protocol versions around every format change; the Coq judge parses the bytes with the vanilla reference
// decoder (Model/Vanilla.v) and compares with the intended values.
package main

import (
	"bytes"
	"fmt"
	"sort"

	"go.minekube.com/common/minecraft/component"

	p "go.minekube.com/gate/pkg/edition/java/proto/packet"
	"go.minekube.com/gate/pkg/edition/java/proto/packet/chat"
	"go.minekube.com/gate/pkg/edition/java/proto/packet/tablist/playerinfo"
	"go.minekube.com/gate/pkg/edition/java/proto/util"
	"go.minekube.com/gate/pkg/edition/java/proto/version"
	"go.minekube.com/gate/pkg/gate/proto"
	"go.minekube.com/gate/pkg/util/uuid"

	"verifharness/lib"
	"verifharness/pktgen"
)

var refTypes = map[string]bool{
	"packet.Handshake": true, "packet.StatusRequest": true, "packet.StatusResponse": true, "packet.StatusPing": true,
	"packet.KeepAlive": true, "packet.SetCompression": true, "packet.Transfer": true, "packet.LoginPluginMessage": true,
	"packet.LoginPluginResponse": true, "packet.EncryptionRequest": true, "packet.EncryptionResponse": true,
	"packet.ServerLoginSuccess": true, "plugin.Message": true, "playerinfo.Remove": true,
}

// protocols at both sides of every format change of the listed packets
var eraVersions = []int{4, 5, 47, 107, 338, 340, 393, 573, 735, 758, 759, 760, 761, 763, 764, 765, 766, 767, 768, 769, 775, 776}

func perms(xs []int, k int) [][]int {
	if k == 0 {
		return [][]int{{}}
	}
	var out [][]int
	for i, x := range xs {
		rest := append(append([]int{}, xs[:i]...), xs[i+1:]...)
		for _, t := range perms(rest, k-1) {
			out = append(out, append([]int{x}, t...))
		}
	}
	return out
}

func actsTerm(a []int) string {
	return lib.ListOf(a, func(i int) string { return lib.N(uint64(i)) })
}

func main() {
	f := lib.ParseFlags()
	rng := lib.NewRng(f.Seed)
	out := lib.NewOut("C07", f)
	out.Imports = "From Verif Require Import Check.C04.\n"
	out.Rule = "handshake, status, keep-alive, compression, transfer, login plugin messages, encryption request/response, login success, plugin message, player-info remove: " +
		"every registration at the protocols on both sides of each format change, generated values; login start with/without key and holder; disconnect with a plain text reason in every state; " +
		"player-info update: every subset of the actions in canonical order, every permutation of 2, of 3 and of 4 actions (quick: all 2-permutations, samples of the 3- and 4-permutations; thorough: all 336 and 1680) with 0-3 entries; " +
		"non-trivial = non-empty body"
	era := map[int]bool{}
	for _, v := range eraVersions {
		era[v] = true
	}
	regs := pktgen.All()
	emit := func(tn string, r pktgen.Reg, kind, env string, obs []byte, desc map[string]any, tags ...string) {
		term := lib.App("Check.C07.mk", `"`+tn+`"`, lib.Z(int64(r.Proto)), lib.Bool(r.Dir == proto.ClientBound), kind, env, lib.Bytes(obs))
		desc["type"], desc["protocol"], desc["dir"], desc["state"], desc["bytes_hex"] = tn, int(r.Proto), r.Dir.String(), r.StateName, fmt.Sprintf("%.400x", obs)
		out.Add(term, desc, len(obs) > 0, append(tags, "type="+tn, fmt.Sprintf("protocol=%d", r.Proto))...)
	}
	encode := func(pk proto.Packet, r pktgen.Reg) ([]byte, error) {
		var b bytes.Buffer
		err := util.RecoverFunc(func() error { return pk.Encode(r.Ctx(), &b) })
		return b.Bytes(), err
	}
	nVal := 2
	if f.Tier != "quick" {
		nVal = 6
	}
	rejected := 0
	var upsertRegs []pktgen.Reg
	for _, r := range regs {
		tn := r.Type.String()
		if !era[int(r.Proto)] && f.Tier != "thorough" {
			continue
		}
		switch {
		case refTypes[tn]:
			for i := 0; i < nVal; i++ {
				g := &pktgen.G{R: rng.Fork(), Proto: r.Proto, Dir: r.Dir, State: r.StateName}
				pk, _ := pktgen.Gen(r.Type, g)
				if h, ok := pk.(*p.Handshake); ok && h.Port >= 32768 && i == 0 {
					h.Port = 25565
				}
				b, err := encode(pk, r)
				if err != nil {
					rejected++
					continue
				}
				emit(tn, r, "Check.C07.KRef", pktgen.DumpAt(pk, r.Proto), b, map[string]any{"value": fmt.Sprintf("%.300v", fmt.Sprintf("%+v", pk))}, g.Tags...)
			}
		case tn == "packet.ServerLogin":
			for i := 0; i < nVal+2; i++ {
				g := &pktgen.G{R: rng.Fork(), Proto: r.Proto, Dir: r.Dir, State: r.StateName}
				pk, _ := pktgen.Gen(r.Type, g)
				s := pk.(*p.ServerLogin)
				b, err := encode(pk, r)
				if err != nil {
					rejected++
					continue
				}
				// the values the proxy means to send: the key (1.19 - 1.19.2) and the profile uuid of the key holder
				hasKey := s.PlayerKey != nil
				holder := s.HolderID
				if r.Proto.Lower(version.Minecraft_1_20_2) && hasKey && s.PlayerKey.SignatureHolder() != uuid.Nil {
					holder = s.PlayerKey.SignatureHolder()
				}
				fields := []string{
					lib.Pair(`"Username"`, "(FBy "+lib.Str(s.Username)+")"),
					lib.Pair(`"HasKey"`, "(FB "+lib.Bool(hasKey)+")"),
					lib.Pair(`"HasHolder"`, "(FB "+lib.Bool(holder != uuid.Nil)+")"),
					lib.Pair(`"Holder"`, "(FU "+lib.Bytes(holder[:])+")"),
				}
				if hasKey {
					fields = append(fields,
						lib.Pair(`"KeyExpiry"`, "(FZ "+lib.Z(s.PlayerKey.ExpiryTemporal().UnixMilli())+")"),
						lib.Pair(`"KeyBytes"`, "(FBy "+lib.Bytes(s.PlayerKey.SignedPublicKeyBytes())+")"),
						lib.Pair(`"KeySignature"`, "(FBy "+lib.Bytes(s.PlayerKey.Signature())+")"))
				}
				emit(tn, r, "Check.C07.KLoginStart", "(FS "+lib.List(fields)+")", b,
					map[string]any{"username": s.Username, "has_key": hasKey, "holder": holder.String()}, fmt.Sprintf("key=%v", hasKey), fmt.Sprintf("holder=%v", holder != uuid.Nil))
			}
		case tn == "packet.Disconnect":
			for i := 0; i < nVal; i++ {
				cr := rng.Fork()
				text := cr.StringOver("abcdefghijklmnopqrstuvwxyzABCDEFGHIJKLMNOPQRSTUVWXYZ0123456789 .,!", cr.Pick(0, 1, 12, 60))
				pk := p.NewDisconnect(&component.Text{Content: text}, r.Proto, r.State.State)
				b, err := encode(pk, r)
				if err != nil {
					rejected++
					continue
				}
				jsonEra := r.Proto.Lower(version.Minecraft_1_20_3) || r.StateName == "Login"
				emit(tn, r, lib.App("Check.C07.KDisconnect", lib.Bool(jsonEra), lib.Str(text)), "FX", b, map[string]any{"text": text, "json_era": jsonEra})
			}
		case tn == "playerinfo.Upsert":
			upsertRegs = append(upsertRegs, r)
		}
	}
	// player-info update: action subsets and permutations
	for _, r := range upsertRegs {
		nAct := 6
		if r.Proto.GreaterEqual(version.Minecraft_1_21_4) {
			nAct = 8
		} else if r.Proto.GreaterEqual(version.Minecraft_1_21_2) {
			nAct = 7
		}
		var sets [][]int
		full := r.Proto == version.MaximumVersion.Protocol ||
			(f.Tier == "thorough" && (r.Proto == version.Minecraft_1_19_3.Protocol || r.Proto == version.Minecraft_1_20_3.Protocol || r.Proto == version.Minecraft_1_21_2.Protocol || r.Proto == version.Minecraft_1_21_4.Protocol))
		if full {
			for m := 0; m < 1<<nAct; m++ { // every subset, canonical order
				var s []int
				for i := 0; i < nAct; i++ {
					if m>>i&1 == 1 {
						s = append(s, i)
					}
				}
				sets = append(sets, s)
			}
		}
		all := make([]int, nAct)
		for i := range all {
			all[i] = i
		}
		maxK := 3
		if !full {
			maxK = 2
			for i := 0; i < nAct; i++ { // singletons and the full set
				sets = append(sets, []int{i})
			}
			sets = append(sets, all)
		}
		for k := 2; k <= maxK; k++ {
			ps := perms(all, k)
			if k == 3 && f.Tier == "quick" { // quick: a sample of the 336 3-permutations
				cr := rng.Fork()
				for i := 0; i < 120; i++ {
					sets = append(sets, ps[cr.Intn(len(ps))])
				}
				continue
			}
			sets = append(sets, ps...)
		}
		p4 := perms(all, 4)
		if f.Tier == "thorough" && full {
			sets = append(sets, p4...)
		} else if full {
			cr := rng.Fork()
			for i := 0; i < 60; i++ {
				sets = append(sets, p4[cr.Intn(len(p4))])
			}
		}
		for _, acts := range sets {
			g := &pktgen.G{R: rng.Fork(), Proto: r.Proto, Dir: r.Dir, State: r.StateName}
			var as []playerinfo.UpsertAction
			for _, a := range acts {
				as = append(as, playerinfo.UpsertActions[a])
			}
			pk := &playerinfo.Upsert{}
			g.Upsert(pk, as)
			if as == nil {
				pk.ActionSet = nil
			}
			b, err := encode(pk, r)
			if err != nil {
				rejected++
				continue
			}
			canon := sort.IntsAreSorted(acts)
			emit("playerinfo.Upsert", r, lib.App("Check.C07.KUpsert", actsTerm(acts)), pktgen.DumpAt(pk, r.Proto), b,
				map[string]any{"actions": acts, "entries": len(pk.Entries)}, fmt.Sprintf("actions=%d", len(acts)), fmt.Sprintf("canonical=%v", canon))
		}
	}
	_ = chat.SystemMessageType
	frag, _ := pktgen.FragmentNames()
	var translated, hand []string
	for tn := range refTypes {
		if frag[tn] {
			translated = append(translated, tn)
		} else {
			hand = append(hand, tn)
		}
	}
	sort.Strings(translated)
	sort.Strings(hand)
	out.Extra("fragment_coverage", map[string]any{"reference_types_with_translated_encoder": translated, "reference_types_not_translated": hand,
		"hand_modelled": []string{"playerinfo.Upsert"}, "correspondence_only": []string{"packet.ServerLogin", "packet.Disconnect"}})
	out.Extra("encoder_rejected", rejected)
	out.Finish()
}
