// C19 harness: drives the real serverConnection.startHandshake (through
// pkg/edition/java/proxy/verif_export_c19.go) with a real client connection (custom RemoteAddr and
// connection type) and a real backend connection over an in-memory pipe, decodes the Handshake packet
// on the other end of the pipe with gate's own reader and records Handshake.ServerAddress, for
// generated virtual hosts, Forge markers, forwarding modes, profiles and addresser hooks.
package main

import (
	"context"
	"encoding/json"
	"errors"
	"fmt"
	"io"
	"net"
	"os"
	"strconv"
	"strings"
	"time"

	"github.com/go-logr/logr"
	"go.minekube.com/gate/pkg/edition/java/auth"
	"go.minekube.com/gate/pkg/edition/java/config"
	"go.minekube.com/gate/pkg/edition/java/netmc"
	"go.minekube.com/gate/pkg/edition/java/profile"
	"go.minekube.com/gate/pkg/edition/java/proto/packet"
	"go.minekube.com/gate/pkg/edition/java/proto/state"
	"go.minekube.com/gate/pkg/edition/java/proto/version"
	"go.minekube.com/gate/pkg/edition/java/proxy"
	"go.minekube.com/gate/pkg/edition/java/proxy/phase"
	"go.minekube.com/gate/pkg/gate/proto"
	"go.minekube.com/gate/pkg/util/netutil"
	"go.minekube.com/gate/pkg/util/uuid"

	"verifharness/lib"
)

// pk prints a Go string as Base.Hex.bytes through the packed Uint63 transport (Base/Pack63.v).
func pk(s string) string {
	b := []byte(s)
	if len(b) == 0 {
		return "[]"
	}
	var sb strings.Builder
	fmt.Fprintf(&sb, "(B %d [", len(b))
	for i := 0; i < len(b); i += 7 {
		var v uint64
		for j := 6; j >= 0; j-- {
			v <<= 8
			if i+j < len(b) {
				v |= uint64(b[i+j])
			}
		}
		if i > 0 {
			sb.WriteString(";")
		}
		sb.WriteString(strconv.FormatUint(v, 10))
	}
	sb.WriteString("]%uint63)")
	return sb.String()
}

// ---------- addresser hooks as data ----------

type addrSpec struct {
	kind string // none | identity | append | const | prepend | fail
	data string
}

func (a addrSpec) apply(x string) string {
	switch a.kind {
	case "append":
		return x + "\x00" + a.data
	case "const":
		return a.data
	case "prepend":
		return a.data + x
	}
	return x
}

func (a addrSpec) coq() string {
	switch a.kind {
	case "none":
		return "Check.C19.ANone"
	case "identity":
		return "Check.C19.AIdentity"
	case "append":
		return lib.App("Check.C19.AAppendNul", pk(a.data))
	case "const":
		return lib.App("Check.C19.AConst", pk(a.data))
	case "prepend":
		return lib.App("Check.C19.APrepend", pk(a.data))
	}
	return "Check.C19.AFail"
}

// a ServerInfo that implements proxy.HandshakeAddresser
type addresserInfo struct {
	proxy.ServerInfo
	spec addrSpec
}

func (a *addresserInfo) HandshakeAddr(def string, _ proxy.Player) string { return a.spec.apply(def) }

type backendAddresser struct{ spec addrSpec }

func (b *backendAddresser) BackendHandshakeAddr(def string, _ proxy.Player, _ proxy.RegisteredServer) (string, error) {
	if b.spec.kind == "fail" {
		return "", errors.New("harness: backend addresser failed")
	}
	return b.spec.apply(def), nil
}

func genAddrSpec(r *lib.Rng, backend bool) addrSpec {
	k := r.Intn(12)
	switch {
	case k < 6:
		return addrSpec{kind: "none"}
	case k < 7:
		return addrSpec{kind: "identity"}
	case k < 9:
		return addrSpec{kind: "append", data: r.PickS("floodgate-data", "", "a\x00b", "FML2", "FORGE7", "x:y")}
	case k < 10:
		return addrSpec{kind: "const", data: r.PickS("other.example.org", "", "other\x00FML3\x00", "\x00FORGE")}
	case k < 11:
		return addrSpec{kind: "prepend", data: r.PickS("pre.", "\x00", "x\x00")}
	}
	if backend {
		return addrSpec{kind: "fail"}
	}
	return addrSpec{kind: "identity"}
}

// ---------- connections ----------

type addrConn struct {
	net.Conn
	remote net.Addr
}

func (a addrConn) RemoteAddr() net.Addr { return a.remote }

type nopHandler struct{}

func (nopHandler) HandlePacket(*proto.PacketContext) {}
func (nopHandler) Disconnected()                     {}
func (nopHandler) Activated()                        {}
func (nopHandler) Deactivated()                      {}

// ---------- generators ----------

func genHostName(r *lib.Rng) string {
	const a = "abcdefghijklmnopqrstuvwxyzABCDEFGHIJKLMNOPQRSTUVWXYZ0123456789-"
	lab := func() string {
		if r.Chance(1, 8) {
			return r.PickS("FML2", "FML3x", "FORGE", "FORGE12", "FML", "fml2", "mängel", "例え")
		}
		return r.StringOver(a, r.Range(1, 6))
	}
	n := r.Range(1, 3)
	parts := make([]string, n)
	for i := range parts {
		parts[i] = lab()
	}
	return strings.Join(parts, ".")
}

func genToken(r *lib.Rng) string {
	return r.PickS("FML", "FML2", "FML3", "FML2extra", "FORGE", "FORGE1", "FORGE2", "FORGE12", "FORGE007",
		"FORGE-5", "FORGE+7", "FORGE-0", "FORGEx", "FORGE1x", "FORGE99999999999999999999",
		"FORGE-99999999999999999999", "FORGE9223372036854775807", "FORGE9223372036854775808", "FORGE+", "FORGE-",
		"forge", "data", "", "127.0.0.1", "00000000000000000000000000000000")
}

// the address the client put into its handshake (virtualHost = that + ":" + port)
func genClientAddr(r *lib.Rng) (string, string) {
	host := genHostName(r)
	k := r.Intn(16)
	switch {
	case k < 3:
		return host, "plain"
	case k < 9:
		n := r.Range(1, 3)
		s := host
		for i := 0; i < n; i++ {
			s += "\x00" + genToken(r)
		}
		if r.Bool() {
			s += "\x00"
		}
		return s, fmt.Sprintf("nul-parts=%d", n)
	case k < 10:
		return host + "///1.2.3.4:5555///1700000000" + r.PickS("", "\x00FML2\x00", "\x00FORGE"), "tcpshield"
	case k < 11:
		return "", "empty"
	case k < 12:
		return "\x00" + genToken(r) + r.PickS("", "\x00"), "empty-host"
	case k < 13:
		return r.PickS("[::1]", "::1", "2001:db8::1", "["+host, host+"]", host+":1234"), "colons-brackets"
	case k < 14:
		return host + ".", "trailing-dot"
	default:
		return host + "\x00" + r.PickS("FML\x00", "FML2\x00", "FML3\x00", "FORGE", "FORGE3"), "canonical-forge"
	}
}

func genPropString(r *lib.Rng, long bool) string {
	n := r.Range(0, 12)
	if long {
		n = r.Range(40, 160)
	}
	var sb strings.Builder
	for i := 0; i < n; i++ {
		switch r.Intn(24) {
		case 0:
			sb.WriteByte('"')
		case 1:
			sb.WriteByte('\\')
		case 2:
			sb.WriteByte(byte(r.Intn(32))) // control characters, NUL included
		case 3:
			sb.WriteString(r.PickS("<", ">", "&", "/", "\x7f", "'"))
		case 4:
			sb.WriteString(r.PickS("ä", "Ж", "例", "😀", " ", " ", "‧", "‪", "�", " "))
		case 5:
			sb.WriteByte(byte(r.Pick(0x80, 0xBF, 0xC0, 0xC3, 0xE2, 0xED, 0xF0, 0xF4, 0xFF))) // (mostly) invalid UTF-8
		case 6:
			sb.WriteString(r.PickS("\xe2\x80", "\xed\xa0\x80", "\xf0\x9f\x98", "\xc3\x28", "\xe2\x28\xa1"))
		default:
			const a = "abcdefghijklmnopqrstuvwxyzABCDEFGHIJKLMNOPQRSTUVWXYZ0123456789+/="
			sb.WriteByte(a[r.Intn(len(a))])
		}
	}
	return sb.String()
}

func genProps(r *lib.Rng) ([]profile.Property, string) {
	switch r.Intn(8) {
	case 0, 1:
		return nil, "nil"
	case 2:
		return []profile.Property{}, "empty"
	}
	n := r.Range(1, 3)
	ps := make([]profile.Property, n)
	for i := range ps {
		name := r.PickS("textures", "forgeClient", "extraData", "bungeeguard-token", genPropString(r, false))
		ps[i] = profile.Property{Name: name, Value: genPropString(r, r.Chance(1, 3))}
		if r.Bool() {
			ps[i].Signature = genPropString(r, r.Chance(1, 3))
		}
	}
	return ps, fmt.Sprintf("n=%d", n)
}

func propT(p profile.Property) string {
	return lib.App("mkProp", pk(p.Name), pk(p.Value), pk(p.Signature))
}

var sharedAuth auth.Authenticator

func main() {
	var aerr error
	if sharedAuth, aerr = auth.New(auth.Options{}); aerr != nil {
		fmt.Fprintln(os.Stderr, "auth.New:", aerr)
		os.Exit(2)
	}
	f := lib.ParseFlags()
	rng := lib.NewRng(f.Seed)
	out := lib.NewOut("C19", f)
	out.Imports = "From Verif Require Import Model.TryList Model.HandshakeAddr.\n"
	out.Rule = "one case = one serverConnection.startHandshake on real connections (pipe), Handshake.ServerAddress decoded by gate's reader on the backend side. Inputs: forwarding mode none/velocity/legacy/bungeeguard (forwarding modes 1/2 of the cases), connection type vanilla/undetermined/legacy-forge/modern-forge, client handshake address = host with 0-3 NUL parts and FML/FML2/FML3/FORGE/FORGEn markers (signs, overflow, garbage after FORGE), TCPShield tail, brackets/colons, empty host, trailing dot, + ':port'; profile properties nil/empty/1-3 entries whose strings contain quotes, backslashes, control characters (NUL), <>&, DEL, non-ASCII, U+2028/9, invalid UTF-8; server HandshakeAddresser and proxy BackendHandshakeAddresser each absent / identity / append-NUL-data / constant / prepend / failing. distinct = distinct Coq terms; non-trivial = forwarding address with at least one property, or a Forge connection type, or an installed addresser"
	n := f.Count(800)
	for ci := 0; ci < n; ci++ {
		genCase(rng.Fork(), out, ci)
	}
	out.Finish()
}

func genCase(r *lib.Rng, out *lib.Out, ci int) {
	// forwarding mode
	var mode config.ForwardingMode
	fwT, fwName := "FwNone", ""
	secret := ""
	switch k := r.Intn(8); {
	case k < 3:
		mode, fwName = config.NoneForwardingMode, "none"
	case k < 4:
		mode, fwName = config.VelocityForwardingMode, "velocity"
	case k < 6:
		mode, fwName, fwT = config.LegacyForwardingMode, "legacy", "FwLegacy"
	default:
		secret = genPropString(r, false)
		mode, fwName, fwT = config.BungeeGuardForwardingMode, "bungeeguard", lib.App("FwBungeeGuard", pk(secret))
	}
	// connection type
	var ct phase.ConnectionType
	ctT, ctName := "CtOther", ""
	switch k := r.Intn(8); {
	case k < 2:
		ct, ctName = phase.Vanilla, "vanilla"
	case k < 3:
		ct, ctName = phase.Undetermined, "undetermined"
	case k < 5:
		ct, ctName, ctT = phase.LegacyForge, "legacy-forge", "CtLegacyForge"
	default:
		ct, ctName, ctT = phase.ModernForge, "modern-forge", "CtModernForge"
	}
	ha := genAddrSpec(r, false)
	if mode == config.LegacyForwardingMode || mode == config.BungeeGuardForwardingMode {
		// keep most forwarding cases on the forwarding path (a server addresser switches it off)
		if !r.Chance(1, 6) {
			ha = addrSpec{kind: "none"}
		}
	}
	ba := genAddrSpec(r, true)
	clientAddr, addrKind := genClientAddr(r)
	vhost := fmt.Sprintf("%s:%d", clientAddr, r.Pick(25565, 25565, 1, 65535, 0))
	srvAddr := r.PickS("127.0.0.1:25566", "backend.local:25565", "[::1]:25565", "10.0.0.7:1")
	remote := r.PickS("1.2.3.4:5555", "[::1]:4444", "[2001:db8::1]:80", "203.0.113.9:65535", "pipe", "192.168.0.1")
	id, _ := uuid.FromBytes(r.Bytes(16))
	props, propsKind := genProps(r)

	cfg := config.DefaultConfig
	cfg.Servers = map[string]string{}
	cfg.ForcedHosts = map[string][]string{}
	cfg.Try = nil
	cfg.Forwarding.Mode = mode
	cfg.Forwarding.BungeeGuardSecret = secret
	px, err := proxy.New(proxy.Options{Config: &cfg, Authenticator: sharedAuth})
	if err != nil {
		fmt.Fprintln(os.Stderr, "proxy.New:", err)
		os.Exit(2)
	}
	if ba.kind != "none" {
		px.SetBackendHandshakeAddresser(&backendAddresser{spec: ba})
	}
	var info proxy.ServerInfo = proxy.NewServerInfo("backend", netutil.NewAddr(srvAddr, "tcp"))
	if ha.kind != "none" {
		info = &addresserInfo{ServerInfo: info, spec: ha}
	}

	// client connection of the player
	ca, cb := net.Pipe()
	go io.Copy(io.Discard, cb)
	client, _ := netmc.NewMinecraftConn(context.Background(), addrConn{Conn: ca, remote: netutil.NewAddr(remote, "tcp")},
		proto.ServerBound, 0, time.Minute, -1, nil)
	client.SetProtocol(version.Minecraft_1_20_2.Protocol)
	client.SetState(state.Play)
	client.SetType(ct)

	// backend connection; the peer decodes the first packet with gate's reader
	ba_, bb := net.Pipe()
	backend, _ := netmc.NewMinecraftConn(context.Background(), ba_, proto.ClientBound, 0, time.Minute, -1, nil)
	backend.AddSessionHandler(state.Login, nopHandler{})
	type rd struct {
		hs  *packet.Handshake
		err error
	}
	got := make(chan rd, 1)
	go func() {
		reader := netmc.NewReader(bb, proto.ServerBound, time.Minute, logr.Discard())
		pc, err := reader.ReadPacket()
		var hs *packet.Handshake
		if err == nil {
			hs, _ = pc.Packet.(*packet.Handshake)
		}
		got <- rd{hs, err}
		io.Copy(io.Discard, bb)
	}()

	prof := &profile.GameProfile{ID: id, Name: "Player", Properties: props}
	sc := proxy.VerifC19NewServerConn(px, client, prof, netutil.NewAddr(vhost, "tcp"), info, backend)
	startErr := sc.StartHandshake()
	_ = backend.Close()
	_ = client.Close()
	cb.Close()
	var res rd
	select {
	case res = <-got:
	case <-time.After(2 * time.Minute):
		out.GoViolation(map[string]any{"index": ci, "what": "backend side never saw a packet nor EOF (hang)"})
	}
	bb.Close()

	obsT, obsDesc := "None", "error"
	refT := "None"
	if startErr == nil && res.hs != nil {
		o := res.hs.ServerAddress
		obsT, obsDesc = lib.Some(pk(o)), fmt.Sprintf("%q", o)
		if parts := strings.Split(o, "\x00"); len(parts) == 4 {
			var rp []profile.Property
			if json.Unmarshal([]byte(parts[3]), &rp) == nil && rp != nil {
				refT = lib.Some(lib.ListOf(rp, propT))
			}
		}
	} else if startErr == nil {
		obsDesc = fmt.Sprintf("no handshake packet decoded: %v", res.err)
	} else {
		obsDesc = "startHandshake error: " + startErr.Error()
	}

	propsT := "None"
	if props != nil {
		propsT = lib.Some(lib.ListOf(props, propT))
	}
	ctxT := lib.App("mkCtx", pk(srvAddr), pk(remote), pk(string(id[:])), propsT, pk(vhost))
	term := lib.App("Check.C19.mk", fwT, ctT, ha.coq(), ba.coq(), ctxT, obsT, refT)
	forwarding := (mode == config.LegacyForwardingMode || mode == config.BungeeGuardForwardingMode) && ha.kind == "none"
	nontrivial := (forwarding && len(props) > 0) || ctT != "CtOther" || ha.kind != "none" || ba.kind != "none"
	tags := []string{"mode=" + fwName, "type=" + ctName, "ha=" + ha.kind, "ba=" + ba.kind, "addr=" + addrKind, "props=" + propsKind}
	if forwarding {
		tags = append(tags, "path=forwarding")
	} else {
		tags = append(tags, "path=host")
	}
	out.Add(term, map[string]any{
		"mode": fwName, "conn_type": ctName, "server_addresser": fmt.Sprintf("%s %q", ha.kind, ha.data), "backend_addresser": fmt.Sprintf("%s %q", ba.kind, ba.data),
		"virtual_host": fmt.Sprintf("%q", vhost), "server_addr": srvAddr, "remote": remote,
		"uuid": id.String(), "properties": fmt.Sprintf("%q", props), "observed": obsDesc,
	}, nontrivial, tags...)
}
