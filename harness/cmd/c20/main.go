// C20 harness: Velocity modern forwarding.
//   - findForwardingVersion called directly (through the proxy re-export of internal/velocity) on ints
//     inside and outside the byte range;
//   - the real backendLoginSessionHandler (pkg/edition/java/proxy/verif_export_c20.go) on real
//     connections over pipes: a velocity:player_info LoginPluginMessage with every request byte 0..255
//     (x protocols x key kinds), the LoginPluginResponse is decoded by gate's reader on the backend
//     side; a separate stream with random secrets / profiles / keys whose HMAC is re-computed in Coq;
//   - sequences of login-phase packets for the forwarding-required check.
package main

import (
	"context"
	"crypto/rsa"
	"fmt"
	"io"
	"net"
	"os"
	"strconv"
	"strings"
	"time"

	"github.com/go-logr/logr"
	"go.minekube.com/gate/pkg/edition/java/auth"
	"go.minekube.com/gate/pkg/edition/java/config"
	"go.minekube.com/gate/pkg/edition/java/netmc"
	"go.minekube.com/gate/pkg/edition/java/profile"
	"go.minekube.com/gate/pkg/edition/java/proto/packet"
	"go.minekube.com/gate/pkg/edition/java/proto/state"
	"go.minekube.com/gate/pkg/edition/java/proxy"
	"go.minekube.com/gate/pkg/edition/java/proxy/crypto"
	"go.minekube.com/gate/pkg/edition/java/proxy/crypto/keyrevision"
	"go.minekube.com/gate/pkg/gate/proto"
	"go.minekube.com/gate/pkg/util/netutil"
	"go.minekube.com/gate/pkg/util/uuid"

	"verifharness/lib"
)

// pk prints bytes as Base.Hex.bytes through the packed Uint63 transport (Base/Pack63.v).
func pk(b []byte) string {
	if len(b) == 0 {
		return "[]"
	}
	var sb strings.Builder
	fmt.Fprintf(&sb, "(B %d [", len(b))
	for i := 0; i < len(b); i += 7 {
		var v uint64
		for j := 6; j >= 0; j-- {
			v <<= 8
			if i+j < len(b) {
				v |= uint64(b[i+j])
			}
		}
		if i > 0 {
			sb.WriteString(";")
		}
		sb.WriteString(strconv.FormatUint(v, 10))
	}
	sb.WriteString("]%uint63)")
	return sb.String()
}

// ---------- keys ----------

type otherRevision struct{}

func (otherRevision) ApplicableTo() []proto.Protocol { return nil }

// fakeKey implements crypto.IdentifiedKey with caller-chosen contents (the forwarding code only reads
// the expiry, the key bytes, the signature, the holder and the revision).
type fakeKey struct {
	rev    keyrevision.Revision
	expiry int64
	pub    []byte
	sig    []byte
	holder uuid.UUID
}

func (k *fakeKey) Signer() *rsa.PublicKey                     { return nil }
func (k *fakeKey) ExpiryTemporal() time.Time                  { return time.UnixMilli(k.expiry).UTC() }
func (k *fakeKey) Expired() bool                              { return false }
func (k *fakeKey) Signature() []byte                          { return k.sig }
func (k *fakeKey) SignatureValid() bool                       { return true }
func (k *fakeKey) Salt() []byte                               { return nil }
func (k *fakeKey) SignedPublicKey() *rsa.PublicKey            { return nil }
func (k *fakeKey) SignedPublicKeyBytes() []byte               { return k.pub }
func (k *fakeKey) VerifyDataSignature([]byte, ...[]byte) bool { return true }
func (k *fakeKey) SignatureHolder() uuid.UUID                 { return k.holder }
func (k *fakeKey) KeyRevision() keyrevision.Revision          { return k.rev }

type keySpec struct {
	kind string // none | v1 | v2 | other-nil | other-custom
	key  *fakeKey
}

func (s keySpec) iface() crypto.IdentifiedKey {
	if s.key == nil {
		return nil
	}
	return s.key
}

func (s keySpec) kindT() string {
	switch s.kind {
	case "none":
		return "KNone"
	case "v1":
		return "KV1"
	case "v2":
		return "KV2"
	}
	return "KOther"
}

func (s keySpec) dataT() string {
	if s.key == nil {
		return "None"
	}
	h := "None"
	if s.key.holder != uuid.Nil {
		h = lib.Some(pk(s.key.holder[:]))
	}
	return lib.Some(lib.App("mkKey", s.kindT(), lib.Z(s.key.expiry), pk(s.key.pub), pk(s.key.sig), h))
}

func genKey(r *lib.Rng, kind string, small bool) keySpec {
	if kind == "none" {
		return keySpec{kind: kind}
	}
	k := &fakeKey{expiry: int64(r.U64()>>12) - (1 << 50)}
	n := r.Range(1, 40)
	if small {
		n = r.Range(1, 6)
	}
	k.pub, k.sig = r.Bytes(n), r.Bytes(r.Range(0, n))
	if r.Bool() {
		id, _ := uuid.FromBytes(r.Bytes(16))
		k.holder = id
	}
	switch kind {
	case "v1":
		k.rev = keyrevision.GenericV1
	case "v2":
		k.rev = keyrevision.LinkedV2
	case "other-custom":
		k.rev = otherRevision{}
	} // other-nil: rev stays nil
	return keySpec{kind: kind, key: k}
}

// ---------- direct player ----------

type directPlayer struct {
	prof     profile.GameProfile
	protocol proto.Protocol
	key      crypto.IdentifiedKey
}

func (p *directPlayer) ID() uuid.UUID                       { return p.prof.ID }
func (p *directPlayer) Username() string                    { return p.prof.Name }
func (p *directPlayer) GameProfile() profile.GameProfile    { return p.prof }
func (p *directPlayer) Protocol() proto.Protocol            { return p.protocol }
func (p *directPlayer) IdentifiedKey() crypto.IdentifiedKey { return p.key }

// ---------- connections ----------

type addrConn struct {
	net.Conn
	remote net.Addr
}

func (a addrConn) RemoteAddr() net.Addr { return a.remote }

type nopHandler struct{}

func (nopHandler) HandlePacket(*proto.PacketContext) {}
func (nopHandler) Disconnected()                     {}
func (nopHandler) Activated()                        {}
func (nopHandler) Deactivated()                      {}

var sharedAuth auth.Authenticator

type login struct {
	l       *proxy.VerifC20Login
	backend netmc.MinecraftConn
	client  netmc.MinecraftConn
	resp    chan *packet.LoginPluginResponse
	closers []io.Closer
}

func newLogin(mode config.ForwardingMode, secret []byte, protocol proto.Protocol, remote string,
	prof *profile.GameProfile, key crypto.IdentifiedKey) *login {
	cfg := config.DefaultConfig
	cfg.Servers = map[string]string{}
	cfg.ForcedHosts = map[string][]string{}
	cfg.Try = nil
	cfg.Forwarding.Mode = mode
	cfg.Forwarding.VelocitySecret = string(secret)
	px, err := proxy.New(proxy.Options{Config: &cfg, Authenticator: sharedAuth})
	if err != nil {
		fmt.Fprintln(os.Stderr, "proxy.New:", err)
		os.Exit(2)
	}
	ca, cb := net.Pipe()
	go io.Copy(io.Discard, cb)
	client, _ := netmc.NewMinecraftConn(context.Background(), addrConn{Conn: ca, remote: netutil.NewAddr(remote, "tcp")},
		proto.ServerBound, 0, time.Minute, -1, nil)
	client.SetProtocol(protocol)
	client.SetState(state.Play)
	ba, bb := net.Pipe()
	backend, _ := netmc.NewMinecraftConn(context.Background(), ba, proto.ClientBound, 0, time.Minute, -1, nil)
	backend.SetProtocol(protocol)
	backend.SetState(state.Login)
	backend.AddSessionHandler(state.Play, nopHandler{})
	resp := make(chan *packet.LoginPluginResponse, 8)
	go func() {
		rd := netmc.NewReader(bb, proto.ServerBound, time.Minute, logr.Discard())
		rd.SetProtocol(protocol)
		rd.SetState(state.Login)
		for {
			pc, err := rd.ReadPacket()
			if err == netmc.ErrReadPacketRetry {
				continue
			}
			if err != nil {
				close(resp)
				return
			}
			if p, ok := pc.Packet.(*packet.LoginPluginResponse); ok {
				resp <- p
			}
		}
	}()
	info := proxy.NewServerInfo("backend", netutil.NewAddr("127.0.0.1:25566", "tcp"))
	return &login{
		l:       proxy.VerifC20NewBackendLogin(px, client, prof, key, info, backend),
		backend: backend, client: client, resp: resp, closers: []io.Closer{cb, bb},
	}
}

func (l *login) close() {
	_ = l.backend.Close()
	_ = l.client.Close()
	for _, c := range l.closers {
		c.Close()
	}
}

// request sends one LoginPluginMessage through the handler and waits for the response packet.
func (l *login) request(id int, channel string, data []byte) *packet.LoginPluginResponse {
	l.l.Handle(&proto.PacketContext{Direction: proto.ClientBound, Packet: &packet.LoginPluginMessage{ID: id, Channel: channel, Data: data}})
	select {
	case p := <-l.resp:
		return p
	case <-time.After(2 * time.Minute):
		return nil
	}
}

// ---------- terms ----------

func propsT(ps []profile.Property) string {
	return lib.ListOf(ps, func(p profile.Property) string {
		return lib.Pair(pk([]byte(p.Name)), lib.Pair(pk([]byte(p.Value)), pk([]byte(p.Signature))))
	})
}

func inputT(secret []byte, addr string, protocol proto.Protocol, prof *profile.GameProfile, ks keySpec) string {
	return lib.App("mkIn", pk(secret), pk([]byte(addr)), lib.Z(int64(protocol)), pk(prof.ID[:]),
		pk([]byte(prof.Name)), propsT(prof.Properties), ks.dataT())
}

const velocityChannel = "velocity:player_info"

func main() {
	var aerr error
	if sharedAuth, aerr = auth.New(auth.Options{}); aerr != nil {
		fmt.Fprintln(os.Stderr, "auth.New:", aerr)
		os.Exit(2)
	}
	f := lib.ParseFlags()
	rng := lib.NewRng(f.Seed)
	out := lib.NewOut("C20", f)
	out.Imports = "From Verif Require Import Model.Prim Model.Forwarding.\n"
	out.Rule = "three streams: (1) findForwardingVersion called directly for requested ints {-2^31,-129,-128,-1,0..6,127,128,255,256,2^31-1,random} x protocols {47,758,759,760,761,762,767} x key kinds {none,V1,V2,nil revision,custom revision}; (2) velocity:player_info LoginPluginMessage through the real backendLoginSessionHandler on pipe connections for EVERY request byte 0..255 x protocols {759,760,761,767} x key kinds {none,V1,V2} plus empty and two-byte request data (body after the 32 MAC bytes judged in Coq, MAC not evaluated); (3) random secrets (0..100 bytes), IPs, names, 0-3 properties, keys, request bytes 0..5/127/128/255 with HMAC-SHA256 re-computed in Coq (bodies < 400 bytes), every 40th of them with a realistic big profile (signed textures ~2 KB, optionally a full-size LinkedV2 key and plugin properties) so that the payload exceeds 2 KiB; (4) sequences of 1-4 login-phase packets (forwarding request / other plugin request / login success) in velocity, none and legacy mode. Stream (2) is exhaustive and independent of the seed and tier; (1),(3),(4) scale with the tier. distinct = distinct Coq terms; non-trivial = chosen version above 1, or a refused / answered login event"

	// ---- (1) direct version function ----
	reqs := []int{-1 << 31, -129, -128, -1, 0, 1, 2, 3, 4, 5, 6, 127, 128, 255, 256, 1<<31 - 1}
	for i := 0; i < 4; i++ {
		reqs = append(reqs, int(int32(rng.U64())))
	}
	protos := []proto.Protocol{47, 758, 759, 760, 761, 762, 767}
	kinds := []string{"none", "v1", "v2", "other-nil", "other-custom"}
	for _, rq := range reqs {
		for _, pr := range protos {
			for _, kd := range kinds {
				ks := genKey(rng, kd, true)
				pl := &directPlayer{protocol: pr, key: ks.iface()}
				got := proxy.VerifC20FindForwardingVersion(rq, pl)
				out.Add(lib.App("Check.C20.CVersion", lib.Z(int64(rq)), lib.Z(int64(pr)), ks.kindT(), lib.Z(int64(got))),
					map[string]any{"kind": "findForwardingVersion", "requested": rq, "protocol": int(pr), "key": kd, "version": got},
					got > 1, "stream=direct", "key="+kd, fmt.Sprintf("version=%d", got))
			}
		}
	}

	// ---- (2) every request byte through the session handler ----
	emitRequest := func(r *lib.Rng, data []byte, pr proto.Protocol, ks keySpec, secret []byte, prof *profile.GameProfile,
		ip string, withMac bool, stream string) {
		remote := ip + ":54321"
		if strings.Contains(ip, ":") {
			remote = "[" + ip + "]:54321"
		}
		lg := newLogin(config.VelocityForwardingMode, secret, pr, remote, prof, ks.iface())
		p := lg.request(r.Intn(1000), velocityChannel, data)
		forwarded := lg.l.InformationForwarded()
		lg.close()
		obs, obsDesc, ver := "None", "no response", -1
		if p != nil && p.Success && forwarded {
			obs, obsDesc = lib.Some(pk(p.Data)), fmt.Sprintf("%d bytes", len(p.Data))
			if len(p.Data) > 32 {
				ver = int(p.Data[32])
				obsDesc += fmt.Sprintf(", version byte %d", ver)
			}
		} else if p != nil {
			obsDesc = fmt.Sprintf("response success=%v forwarded=%v", p.Success, forwarded)
		}
		out.Add(lib.App("Check.C20.CRequest", pk(data), inputT(secret, ip, pr, prof, ks), obs, lib.Bool(withMac)),
			map[string]any{"kind": "login plugin request", "request_data_hex": fmt.Sprintf("%x", data), "protocol": int(pr),
				"key": ks.kind, "secret_hex": fmt.Sprintf("%x", secret), "ip": ip, "name": prof.Name,
				"properties": len(prof.Properties), "observed": obsDesc},
			ver > 1, "stream="+stream, "key="+ks.kind, fmt.Sprintf("version=%d", ver))
	}
	// ---- (3) MAC cases ----
	// (HMAC evaluation in Coq costs ~0.2 s per case: the cases are spread over the shards of stream (2))
	nm := f.Count(150)
	macRng := rng.Fork()
	macDone := 0
	emitMac := func() {
		macDone++
		r := macRng.Fork()
		secret := r.Bytes(r.Pick(0, 1, 12, 12, 32, 63, 64, 65, 100))
		ip := r.PickS("1.2.3.4", "203.0.113.77", "::1", "2001:db8::1", "10.0.0.1")
		prof := &profile.GameProfile{Name: r.StringOver("abcdefghijklmnopqrstuvwxyzABCDEFGHIJKLMNOPQRSTUVWXYZ0123456789_", r.Range(1, 16))}
		copy(prof.ID[:], r.Bytes(16))
		for j := r.Intn(4); j > 0; j-- {
			p := profile.Property{Name: r.PickS("textures", "x", ""), Value: string(r.Bytes(r.Range(0, 40)))}
			if r.Bool() {
				p.Signature = string(r.Bytes(r.Range(1, 30)))
			}
			prof.Properties = append(prof.Properties, p)
		}
		pr := proto.Protocol(r.Pick(759, 760, 761, 763, 767))
		ks := genKey(r, r.PickS("none", "v1", "v2", "v2", "other-nil"), false)
		var data []byte
		switch k := r.Intn(10); {
		case k < 7:
			data = []byte{byte(r.Pick(0, 1, 2, 3, 4, 5, 127))}
		case k < 8:
			data = []byte{byte(r.Pick(128, 255))}
		case k < 9:
			data = nil
		default:
			data = r.Bytes(2)
		}
		stream := "mac"
		if macDone%40 == 5 {
			// a realistic big profile: signed textures (~1.3 KB value, ~0.7 KB signature) and/or several
			// plugin properties, with a full-size LinkedV2 key; the payload exceeds 2 KiB (the initial
			// capacity of CreateForwardingData's buffer). Few of them: SHA-256 in Coq costs ~20 ms/block.
			stream = "mac-large"
			const b64 = "ABCDEFGHIJKLMNOPQRSTUVWXYZabcdefghijklmnopqrstuvwxyz0123456789+/"
			prof.Properties = []profile.Property{{Name: "textures", Value: r.StringOver(b64, r.Range(1200, 1400)),
				Signature: r.StringOver(b64, 684)}}
			for j := r.Intn(3); j > 0; j-- {
				prof.Properties = append(prof.Properties, profile.Property{Name: "plugin:data", Value: r.StringOver(b64, r.Range(100, 400))})
			}
			if r.Bool() {
				pr = 760
				ks = genKey(r, "v2", false)
				ks.key.pub, ks.key.sig = r.Bytes(294), r.Bytes(512)
				data = []byte{3}
			} else {
				pr = proto.Protocol(r.Pick(761, 767))
				data = []byte{4}
			}
		}
		emitRequest(r, data, pr, ks, secret, prof, ip, true, stream)
	}

	exh := rng.Fork()
	exhCount := 0
	baseProf := &profile.GameProfile{Name: "Pl"}
	copy(baseProf.ID[:], []byte{0, 1, 2, 3, 4, 5, 6, 7, 8, 9, 10, 11, 12, 13, 14, 15})
	for _, pr := range []proto.Protocol{759, 760, 761, 767} {
		for _, kd := range []string{"none", "v1", "v2"} {
			ks := genKey(exh, kd, true)
			for b := 0; b < 256; b++ {
				emitRequest(exh, []byte{byte(b)}, pr, ks, []byte("s"), baseProf, "1.2.3.4", false, "exhaustive")
				exhCount++
				for macDone < nm && macDone*3072 < exhCount*nm {
					emitMac()
				}
			}
			emitRequest(exh, nil, pr, ks, []byte("s"), baseProf, "1.2.3.4", false, "exhaustive")
			emitRequest(exh, []byte{4, 4}, pr, ks, []byte("s"), baseProf, "1.2.3.4", false, "exhaustive")
		}
	}

	for macDone < nm {
		emitMac()
	}

	// ---- (4) forwarding required ----
	nr := f.Count(100)
	for i := 0; i < nr; i++ {
		r := rng.Fork()
		mode := config.VelocityForwardingMode
		modeName := "velocity"
		switch r.Intn(5) {
		case 0:
			mode, modeName = config.NoneForwardingMode, "none"
		case 1:
			mode, modeName = config.LegacyForwardingMode, "legacy"
		}
		prof := &profile.GameProfile{Name: "Pl"}
		lg := newLogin(mode, []byte("secret"), 762, "1.2.3.4:5", prof, nil)
		n := r.Range(1, 4)
		var evs, outs, trace []string
		nontrivial := false
		for j := 0; j < n; j++ {
			if j < n-1 && !r.Chance(1, 4) || r.Chance(1, 6) {
				vel := r.Bool()
				ch := velocityChannel
				if !vel {
					ch = r.PickS("other:channel", "velocity:player_inf", "fml:handshake")
				}
				before := lg.l.InformationForwarded()
				p := lg.request(j, ch, []byte{4})
				after := lg.l.InformationForwarded()
				o := "OutIgnored"
				if p != nil && p.Success && after && (mode == config.VelocityForwardingMode && vel) {
					o = "OutAnswered"
					nontrivial = true
				} else if after != before || (p != nil && p.Success) {
					o = "OutAnswered" // forwarding data handed out where none was due: the judge sees it
				}
				evs = append(evs, lib.App("EvPluginRequest", lib.Bool(vel)))
				outs = append(outs, o)
				trace = append(trace, fmt.Sprintf("request %s -> %s", ch, o))
			} else {
				lg.l.Handle(&proto.PacketContext{Direction: proto.ClientBound, Packet: &packet.ServerLoginSuccess{}})
				delivered, status, reason, _ := lg.l.Result()
				o := "OutProceed"
				if delivered && status == proxy.ServerDisconnectedConnectionStatus && reason == proxy.VerifC20ForwardingFailureReason() {
					o = "OutRefused"
					nontrivial = true
				} else if delivered {
					o = "OutRefused" // some other result was delivered: compared by the judge
					trace = append(trace, fmt.Sprintf("(unexpected result: status %v)", status))
				}
				evs = append(evs, "EvLoginSuccess")
				outs = append(outs, o)
				trace = append(trace, "login success -> "+o)
				break // the login handler is done after ServerLoginSuccess
			}
		}
		lg.close()
		out.Add(lib.App("Check.C20.CRequired", lib.Bool(mode == config.VelocityForwardingMode), lib.List(evs), lib.List(outs)),
			map[string]any{"kind": "forwarding required", "mode": modeName, "trace": trace},
			nontrivial, "stream=required", "mode="+modeName)
	}
	out.Finish()
}
