// C17 harness: drives the real connectedPlayer.nextServerToTry / setConnectedServer /
// setInFlightConnection (through pkg/edition/java/proxy/verif_export_c17.go) on a real Proxy built
// with proxy.New + Proxy.Register/Unregister, for generated forced-host/try configurations, virtual
// host spellings, registries and operation histories. Writes the observations for Check.C17.judge.
package main

import (
	"context"
	"fmt"
	"io"
	"net"
	"os"
	"strconv"
	"strings"
	"time"
	"unicode/utf8"

	"github.com/robinbraemer/event"
	"go.minekube.com/common/minecraft/component"
	"go.minekube.com/gate/pkg/edition/java/auth"
	"go.minekube.com/gate/pkg/edition/java/config"
	"go.minekube.com/gate/pkg/edition/java/netmc"
	"go.minekube.com/gate/pkg/edition/java/proto/state"
	"go.minekube.com/gate/pkg/edition/java/proto/version"
	"go.minekube.com/gate/pkg/edition/java/proxy"
	"go.minekube.com/gate/pkg/gate/proto"
	"go.minekube.com/gate/pkg/util/netutil"

	"verifharness/lib"
)

// pk prints a Go string as Base.Hex.bytes through the packed Uint63 transport (Base/Pack63.v):
// measured 9x cheaper for coqc than the hex string literals lib.Bytes uses for short strings.
func pk(s string) string {
	b := []byte(s)
	if len(b) == 0 {
		return "[]"
	}
	var sb strings.Builder
	fmt.Fprintf(&sb, "(B %d [", len(b))
	for i := 0; i < len(b); i += 7 {
		var v uint64
		for j := 6; j >= 0; j-- {
			v <<= 8
			if i+j < len(b) {
				v |= uint64(b[i+j])
			}
		}
		if i > 0 {
			sb.WriteString(";")
		}
		sb.WriteString(strconv.FormatUint(v, 10))
	}
	sb.WriteString("]%uint63)")
	return sb.String()
}

// ---------- generators ----------

const nameAlnum = "abcdefghijklmnopqrstuvwxyzABCDEFGHIJKLMNOPQRSTUVWXYZ0123456789"

// server names accepted by validation.ValidServerName: alnum, '-', '_', '.', alnum at both ends
func genServerName(r *lib.Rng) string {
	n := r.Range(1, 7)
	b := []byte{nameAlnum[r.Intn(len(nameAlnum))]}
	for i := 1; i < n; i++ {
		if i < n-1 && r.Chance(1, 6) {
			b = append(b, "-_."[r.Intn(3)])
		} else {
			b = append(b, nameAlnum[r.Intn(len(nameAlnum))])
		}
	}
	return string(b)
}

// code points inside Base/Text.lower_covered (where the Coq lower casing is claimed to equal Go's)
func genRune(r *lib.Rng) rune {
	switch r.Intn(12) {
	case 0:
		return rune(r.Range(0xC0, 0xFF)) // Latin-1 letters
	case 1:
		return rune(r.Range(0x391, 0x3C9)) // Greek
	case 2:
		return rune(r.Range(0x400, 0x45F)) // Cyrillic
	case 3:
		return rune(r.Range(0x4E00, 0x4E40)) // CJK (caseless)
	default:
		const a = "abcdefghijklmnopqrstuvwxyzABCDEFGHIJKLMNOPQRSTUVWXYZ0123456789-"
		return rune(a[r.Intn(len(a))])
	}
}

func genLabel(r *lib.Rng, ascii bool) string {
	n := r.Range(1, 6)
	var sb strings.Builder
	for i := 0; i < n; i++ {
		if ascii {
			const a = "abcdefghijklmnopqrstuvwxyzABCDEFGHIJKLMNOPQRSTUVWXYZ0123456789-"
			sb.WriteByte(a[r.Intn(len(a))])
		} else {
			sb.WriteRune(genRune(r))
		}
	}
	return sb.String()
}

// a plain host name (no NUL, '/', ':', '[', ']'; no dot at either end)
func genHost(r *lib.Rng) string {
	ascii := !r.Chance(1, 5)
	n := r.Range(1, 3)
	parts := make([]string, n)
	for i := range parts {
		parts[i] = genLabel(r, ascii)
	}
	return strings.Join(parts, ".")
}

func mangleCase(r *lib.Rng, s string) string {
	switch r.Intn(4) {
	case 0:
		return s
	case 1:
		return strings.ToUpper(s)
	case 2:
		return strings.ToLower(s)
	}
	rs := []rune(s)
	for i, c := range rs {
		if r.Bool() {
			u := []rune(strings.ToUpper(string(c)))
			if len(u) == 1 {
				rs[i] = u[0]
			}
		}
	}
	return string(rs)
}

// inCovered mirrors Base/Text.lower_covered; strings outside it are not used as hosts.
func inCovered(s string) bool {
	for i := 0; i < len(s); {
		c, w := utf8.DecodeRuneInString(s[i:])
		i += w
		ok := c < 256 || (c >= 913 && c <= 969) || (c >= 1024 && c <= 1119) || (c >= 12352 && c <= 12543) ||
			(c >= 19968 && c <= 40959) || (c >= 128512 && c <= 128591) || c == 0xFFFD
		if !ok {
			return false
		}
	}
	return true
}

type vhostGen struct {
	s     string
	hint  int // -1: none
	kind  string
	isNil bool
}

func genVhost(r *lib.Rng, host string) vhostGen {
	port := fmt.Sprintf(":%d", r.Pick(25565, 25565, 1, 65535, 0, 19132))
	fml := r.PickS("\x00FML\x00", "\x00FML2\x00", "\x00FML3\x00", "\x00FORGE", "\x00FORGE12\x00", "\x00", "\x00\x00x")
	shield := fmt.Sprintf("///%d.%d.%d.%d:%d///%d", r.Intn(256), r.Intn(256), r.Intn(256), r.Intn(256), r.Range(1, 65535), 1700000000+r.Intn(1000000))
	k := r.Intn(20)
	switch {
	case k < 4:
		return vhostGen{host + port, len(host), "port", false}
	case k < 6:
		return vhostGen{host + fml + port, len(host), "forge+port", false}
	case k < 8:
		return vhostGen{host + shield + port, len(host), "tcpshield+port", false}
	case k == 8:
		return vhostGen{host + shield + fml + port, len(host), "tcpshield+forge+port", false}
	case k == 9:
		return vhostGen{host, len(host), "bare", false}
	case k == 10: // trailing dot(s) in front of the port: the dot survives (Trim sees the port at the end)
		return vhostGen{host + strings.Repeat(".", r.Range(1, 2)) + port, -1, "dot-before-port", false}
	case k == 11: // trailing / leading dots without port, or before a NUL / TCPShield tail
		d := strings.Repeat(".", r.Range(1, 2))
		switch r.Intn(4) {
		case 0:
			return vhostGen{host + d, -1, "trailing-dot", false}
		case 1:
			return vhostGen{d + host + port, -1, "leading-dot", false}
		case 2:
			return vhostGen{host + d + fml + port, -1, "dot-before-forge", false}
		}
		return vhostGen{host + d + shield + port, -1, "dot-before-tcpshield", false}
	case k == 12: // the address itself already carries a port
		return vhostGen{host + ":25565" + port, -1, "two-ports", false}
	case k == 13: // bracketed (IPv6 style) hosts, well and ill formed
		in := r.PickS("::1", "2001:db8::1", host, "a:1", "", "fe80::1%eth0")
		switch r.Intn(5) {
		case 0:
			return vhostGen{"[" + in + "]" + port, -1, "bracket", false}
		case 1:
			return vhostGen{"[" + in + port, -1, "bracket-open", false}
		case 2:
			return vhostGen{in + "]" + port, -1, "bracket-close", false}
		case 3:
			return vhostGen{"[" + in + "]", -1, "bracket-noport", false}
		}
		return vhostGen{"[" + in + "]x" + port, -1, "bracket-junk", false}
	case k == 14: // separators in odd places
		s := host
		for i := r.Range(1, 3); i > 0; i-- {
			p := r.Intn(len(s) + 1)
			s = s[:p] + r.PickS("/", "//", "///", ":", ".", "\x00", "[", "]") + s[p:]
		}
		if r.Bool() {
			s += port
		}
		return vhostGen{s, -1, "separators", false}
	case k == 15: // invalid UTF-8 in the host (each bad byte becomes U+FFFD in strings.ToLower)
		p := r.Intn(len(host) + 1)
		s := host[:p] + string([]byte{byte(r.Pick(0x80, 0xBF, 0xC0, 0xC3, 0xE2, 0xF0, 0xFF))}) + host[p:]
		if !inCovered(s) {
			s = host
		}
		return vhostGen{s + port, -1, "invalid-utf8", false}
	case k == 16:
		return vhostGen{"", -1, "nil", true}
	case k == 17:
		return vhostGen{r.PickS("", ":", ".", "...", ":25565", "\x00", "///", ".:1", "[]:1"), -1, "degenerate", false}
	default:
		return vhostGen{host + port, len(host), "port", false}
	}
}

// ---------- one case ----------

type srv struct {
	name string
	rs   proxy.RegisteredServer // object of the latest registration (kept after Unregister)
	info proxy.ServerInfo
	reg  bool
	port int // one address per server slot
}

func plainName(s *srv) string {
	if s == nil {
		return "nil"
	}
	return s.name
}

func optName(s *srv) string {
	if s == nil {
		return "None"
	}
	return lib.Some(pk(s.name))
}

// one authenticator for all proxies of a run (auth.New generates an RSA key; irrelevant to C17)
var sharedAuth auth.Authenticator

func main() {
	var aerr error
	if sharedAuth, aerr = auth.New(auth.Options{}); aerr != nil {
		fmt.Fprintln(os.Stderr, "auth.New:", aerr)
		os.Exit(2)
	}
	f := lib.ParseFlags()
	rng := lib.NewRng(f.Seed)
	out := lib.NewOut("C17", f)
	out.Imports = "From Verif Require Import Model.TryList.\n"
	out.Rule = "one case = one player: 3-8 servers (valid names, distinct up to case), try list of 0-5 names, 0-3 forced hosts with lower-cased keys (as the loader leaves them; 1/12 of the configs keep a mixed-case key), a virtual host built from a forced key or a random host (ASCII, or Latin-1/Greek/Cyrillic/CJK, case mangled) plus port / Forge / TCPShield suffixes, trailing dots, brackets, misplaced separators, invalid UTF-8, nil; a history of 1-9 operations (nextServerToTry with the previous result or another server as failed server, setConnectedServer, promote in-flight, setInFlightConnection) with servers unregistered/re-registered in between; half of the cases end with handleConnectionErr2 on a real client connection (in-memory pipe, PLAY state) whose KickedFromServerEvent is captured by a subscriber (initial result, reason identity), 1/8 of them unsafe; 1/10 of the cases re-register a server under a case variant of its name (outside the loaded-configuration premise, correspondence only). distinct = distinct Coq terms; non-trivial = the history contains a nextServerToTry that had to skip at least one listed entry (excluded or unregistered) or that found nothing"

	n := f.Count(1000)
	for ci := 0; ci < n; ci++ {
		r := rng.Fork()
		genCase(r, out, ci)
	}
	out.Finish()
}

func genCase(r *lib.Rng, out *lib.Out, ci int) {
	// servers
	ns := r.Range(3, 8)
	var pool []*srv
	seen := map[string]bool{}
	for len(pool) < ns {
		nm := genServerName(r)
		if seen[strings.ToLower(nm)] {
			continue
		}
		seen[strings.ToLower(nm)] = true
		pool = append(pool, &srv{name: nm})
	}
	pickName := func() string {
		if r.Chance(1, 10) {
			nm := genServerName(r) // a name nobody registers
			if !seen[strings.ToLower(nm)] {
				return nm
			}
		}
		return pool[r.Intn(len(pool))].name
	}
	genList := func(lo, hi int) []string {
		l := make([]string, r.Range(lo, hi))
		for i := range l {
			l[i] = pickName()
		}
		return l
	}
	try := genList(0, 5)
	if r.Chance(1, 12) {
		try = nil
	}
	forced := map[string][]string{}
	var forcedKeys []string
	var hosts []string
	mixedKey := r.Chance(1, 12)
	for i := r.Intn(4); i > 0; i-- {
		h := genHost(r)
		key := strings.ToLower(h) // gate.finishConfigCandidate
		if mixedKey {
			key = mangleCase(r, h)
		}
		if _, dup := forced[key]; dup {
			continue
		}
		l := genList(1, 4)
		if r.Chance(1, 10) {
			l = []string{} // configured but empty: falls back to try
		}
		forced[key] = l
		forcedKeys = append(forcedKeys, key)
		hosts = append(hosts, h)
	}
	// virtual host
	var host string
	if len(hosts) > 0 && r.Chance(3, 4) {
		host = mangleCase(r, hosts[r.Intn(len(hosts))])
	} else {
		host = genHost(r)
	}
	if !inCovered(host) {
		host = "fallback.example.com"
	}
	vh := genVhost(r, host)

	cfg := config.DefaultConfig
	cfg.Servers = map[string]string{}
	cfg.Try = try
	cfg.ForcedHosts = forced
	cfg.Lite.Enabled = false
	// the final handleConnectionErr2 needs an active client connection and an event subscriber
	withKick := r.Chance(1, 2)
	mgr := event.New()
	var kickEvents []*proxy.KickedFromServerEvent
	var kickInitial []proxy.ServerKickResult
	event.Subscribe(mgr, 0, func(e *proxy.KickedFromServerEvent) {
		kickEvents = append(kickEvents, e)
		kickInitial = append(kickInitial, e.Result())
		// stop here: no redirect is attempted, the player is disconnected
		e.SetResult(&proxy.DisconnectPlayerKickResult{Reason: &component.Text{Content: "harness"}})
	})
	px, err := proxy.New(proxy.Options{Config: &cfg, Authenticator: sharedAuth, EventMgr: mgr})
	if err != nil {
		fmt.Fprintln(os.Stderr, "proxy.New:", err)
		os.Exit(2)
	}
	register := func(s *srv, name string, port int) {
		s.info = proxy.NewServerInfo(name, netutil.NewAddr(fmt.Sprintf("127.0.0.1:%d", port), "tcp"))
		rs, err := px.Register(s.info)
		if err != nil {
			fmt.Fprintln(os.Stderr, "Register:", name, err)
			os.Exit(2)
		}
		s.rs, s.name, s.reg = rs, name, true
	}
	caseVariant := r.Chance(1, 10)
	for i, s := range pool {
		s.port = 30000 + i
		if r.Chance(3, 4) {
			nm := s.name
			if caseVariant && r.Chance(1, 2) {
				nm = mangleCase(r, nm)
			}
			register(s, nm, s.port)
		} else {
			// give it an object anyway so that it can appear as a stale failed / connected server
			register(s, s.name, s.port)
			px.Unregister(s.info)
			s.reg = false
		}
	}
	regList := func() string {
		var l []string
		for _, s := range pool {
			if s.reg {
				l = append(l, pk(s.name))
			}
		}
		return lib.List(l)
	}

	var addr = netutil.NewAddr(vh.s, "tcp")
	if vh.isNil {
		addr = nil
	}
	var conn netmc.MinecraftConn
	if withKick {
		// a real client connection over an in-memory pipe, in PLAY state; the peer discards what is written
		a, b := net.Pipe()
		go io.Copy(io.Discard, b)
		defer b.Close()
		conn, _ = netmc.NewMinecraftConn(context.Background(), a, proto.ServerBound, 0, time.Minute, -1, nil)
		conn.SetProtocol(version.Minecraft_1_20_2.Protocol)
		conn.SetState(state.Play)
	}
	pl := proxy.VerifC17NewPlayer(px, conn, addr)
	vhObs := pl.VirtualHostname()

	// history
	var ops, obs []string
	var trace []string
	nops := r.Range(1, 9)
	var last *srv // server returned by the latest nextServerToTry
	byRS := func(rs proxy.RegisteredServer) *srv {
		for _, s := range pool {
			if s.rs == rs {
				return s
			}
		}
		return nil
	}
	nontrivial := false
	for oi := 0; oi < nops; oi++ {
		// registry churn
		if oi > 0 && r.Chance(1, 4) {
			s := pool[r.Intn(len(pool))]
			if s.reg {
				px.Unregister(s.info)
				s.reg = false
			} else {
				nm := s.name
				if caseVariant && r.Chance(1, 2) {
					nm = mangleCase(r, nm)
				}
				old := s.rs
				register(s, nm, s.port) // one address per server slot: RegisteredServerEqual then follows the name
				if last == s && old != s.rs {
					last = nil
				}
			}
		}
		k := r.Intn(10)
		if oi == 0 && r.Chance(2, 3) {
			k = 0
		}
		switch {
		case k < 6: // nextServerToTry
			var failed *srv
			switch {
			case oi == 0 || r.Chance(1, 8):
				failed = nil
			case last != nil && r.Chance(4, 5):
				failed = last
			default:
				failed = pool[r.Intn(len(pool))]
			}
			var cur proxy.RegisteredServer
			if failed != nil {
				cur = failed.rs
			}
			reg := regList()
			before, _ := pl.Cursor()
			got := pl.Next(cur)
			after, _ := pl.Cursor()
			res := "None"
			last = nil
			if got != nil {
				res = lib.Some(pk(got.ServerInfo().Name()))
				last = byRS(got)
				if after > before {
					nontrivial = true
				}
			} else {
				nontrivial = true
			}
			ops = append(ops, lib.App("ONext", reg, optName(failed)))
			obs = append(obs, lib.App("mkObs", res, lib.Nat(after)))
			gotName := "nil"
			if got != nil {
				gotName = got.ServerInfo().Name()
			}
			trace = append(trace, fmt.Sprintf("nextServerToTry(failed=%s) -> %s, tryIndex=%d", plainName(failed), gotName, after))
		case k < 7: // connected to the server chosen last (or any)
			s := last
			if s == nil || r.Chance(1, 4) {
				s = pool[r.Intn(len(pool))]
			}
			pl.SetConnected(s.rs)
			after, _ := pl.Cursor()
			ops = append(ops, lib.App("OConnected", optName(s)))
			obs = append(obs, lib.App("mkObs", "None", lib.Nat(after)))
			trace = append(trace, "connected "+s.name)
		case k < 8:
			pl.PromoteInFlight()
			after, _ := pl.Cursor()
			ops = append(ops, "OPromote")
			obs = append(obs, lib.App("mkObs", "None", lib.Nat(after)))
			trace = append(trace, "promote")
		default:
			var s *srv
			if !r.Chance(1, 4) {
				s = last
				if s == nil || r.Chance(1, 3) {
					s = pool[r.Intn(len(pool))]
				}
			}
			var rs proxy.RegisteredServer
			if s != nil {
				rs = s.rs
			}
			pl.SetInFlight(rs)
			after, _ := pl.Cursor()
			ops = append(ops, lib.App("OInFlight", optName(s)))
			obs = append(obs, lib.App("mkObs", "None", lib.Nat(after)))
			trace = append(trace, "setInFlight "+plainName(s))
		}
	}

	// final kick
	kickT := "None"
	var kickDesc any
	if withKick {
		var rsS *srv
		conName, _ := pl.State()
		switch {
		case last != nil && r.Chance(1, 2):
			rsS = last
		case conName != "" && r.Chance(2, 3):
			for _, s := range pool {
				if s.name == conName {
					rsS = s
				}
			}
		}
		if rsS == nil {
			rsS = pool[r.Intn(len(pool))]
		}
		safe := !r.Chance(1, 8)
		friendly := &component.Text{Content: "friendly reason"}
		reg := regList()
		before, _ := pl.Cursor()
		pl.ConnErr2(rsS.rs, nil, friendly, safe)
		after, _ := pl.Cursor()
		conAfter, inflAfter := pl.State()
		res, reasonOK, resDesc := "KUnsafe", true, "unsafe-disconnect"
		switch {
		case len(kickInitial) > 1:
			out.GoViolation(map[string]any{"index": ci, "what": "handleConnectionErr2 fired more than one KickedFromServerEvent"})
		case len(kickInitial) == 1:
			switch t := kickInitial[0].(type) {
			case *proxy.DisconnectPlayerKickResult:
				res, reasonOK, resDesc = "KDisconnect", t.Reason == component.Component(friendly), "disconnect"
				nontrivial = true
			case *proxy.RedirectPlayerKickResult:
				res, resDesc = lib.App("KRedirect", pk(t.Server.ServerInfo().Name())), "redirect "+t.Server.ServerInfo().Name()
				if after > before {
					nontrivial = true
				}
			case *proxy.NotifyKickResult:
				res, reasonOK, resDesc = "KNotify", t.Message == component.Component(friendly), "notify"
			default:
				res, resDesc = "KUnsafe", "unknown result type"
				reasonOK = false
			}
		}
		if !netmc.Closed(conn) {
			// every path ends in a disconnect here (the subscriber replaces the result)
			reasonOK = false
			resDesc += " (connection still open)"
		}
		on := func(s string) string {
			if s == "" {
				return "None"
			}
			return lib.Some(pk(s))
		}
		kickT = lib.Some(lib.Pair(
			lib.App("Check.C17.mkKick", reg, pk(rsS.name), lib.Bool(safe)),
			lib.App("Check.C17.mkKObs", res, lib.Bool(reasonOK), lib.Nat(after), on(conAfter), on(inflAfter))))
		kickDesc = map[string]any{"kicked_from": rsS.name, "safe": safe, "result": resDesc, "reason_is_friendly": reasonOK, "tryIndex": after}
		trace = append(trace, fmt.Sprintf("handleConnectionErr2(%s, safe=%v) -> %s", rsS.name, safe, resDesc))
	}

	// Coq term
	var fl []string
	for _, k := range forcedKeys {
		fl = append(fl, lib.Pair(pk(k), lib.ListOf(forced[k], pk)))
	}
	cfgT := lib.App("mkConfig", lib.List(fl), lib.ListOf(try, pk))
	hint := "None"
	if vh.hint >= 0 {
		hint = lib.Some(lib.Nat(vh.hint))
	}
	term := lib.App("Check.C17.mk", cfgT, pk(vh.s), pk(vhObs), hint, lib.List(ops), lib.List(obs), kickT)
	tags := []string{"vhost=" + vh.kind, fmt.Sprintf("ops=%d", nops)}
	if caseVariant {
		tags = append(tags, "registry=case-variant")
	} else {
		tags = append(tags, "registry=exact")
	}
	if mixedKey {
		tags = append(tags, "forced-keys=mixed-case")
	}
	if withKick {
		tags = append(tags, "kick=yes")
	}
	if _, ok := forced[vhObs]; ok {
		tags = append(tags, "forced-host-hit")
	} else {
		tags = append(tags, "try-list")
	}
	out.Add(term, map[string]any{
		"forced": forced, "try": try, "vhost": fmt.Sprintf("%q", vh.s), "vhost_kind": vh.kind,
		"hostname_observed": fmt.Sprintf("%q", vhObs), "history": trace, "kick": kickDesc,
	}, nontrivial, tags...)
}
