// C13 harness: drives the real loginInboundConn of package proxy (SendLoginPluginMessage through the
// exported LoginPhaseConnection interface, handleLoginPluginResponse directly and through the
// initial-login / auth session handlers, loginEventFired, clearOnAllMessagesHandled) and the Modern
// Forge login relay (relayToClient + forgeRelayConsumer) over recording client and backend
// connections.  Per call it records, in order, what happened on the calling goroutine: messages
// written to the client, flushes, consumer invocations, responses written to the backend, runs of
// the completion callback, an error return.
// Streams: sequential histories (exact comparison with the model in Coq), histories on a pre-1.13
// client (every send fails), goroutine runs stamped with a logical clock (Base.Lin).
package main

import (
	"bytes"
	"errors"
	"fmt"
	"runtime"
	"sync"
	"sync/atomic"
	"time"

	"go.minekube.com/gate/pkg/edition/java/proto/packet"
	"go.minekube.com/gate/pkg/edition/java/proto/state"
	"go.minekube.com/gate/pkg/edition/java/proto/version"
	"go.minekube.com/gate/pkg/edition/java/proxy"
	"go.minekube.com/gate/pkg/edition/java/proxy/message"
	gproto "go.minekube.com/gate/pkg/gate/proto"

	"verifharness/lib"
	"verifharness/recconn"
)

const (
	kSend = iota
	kRelay
	kResponse
	kFire
	kClear
)

const (
	cPlain = iota
	cSendMore
	cFail // records, then returns an error
)

type op struct {
	kind    int
	ckind   int // send: consumer kind
	tag     int
	more    int    // cSendMore: how many messages the consumer sends
	data    []byte // send / relay / response data
	bid     int    // relay: backend message id
	id      int    // response: message id
	success bool
	via     int
}

const (
	oMsg = iota
	oFlush
	oErr
	oCons
	oBackend
	oCompletion
)

type out struct {
	kind int
	id   int    // oMsg: message id; oBackend: backend id; oCons: tag
	data []byte // oMsg: data; oCons/oBackend: argument (when some)
	some bool   // oCons/oBackend: argument was non-nil
}

type result struct {
	o        op
	outs     []out
	inv, res int64
	thread   int
	delay    int
	meet     func()
}

type world struct {
	env     *proxy.VerifC13Env
	backend *recconn.Conn
	channel message.ChannelIdentifier
	clock   atomic.Int64
	mu      sync.Mutex
	cur     map[uint64]*result
}

func (w *world) log(o out) {
	id := recconn.Goid()
	w.mu.Lock()
	if r := w.cur[id]; r != nil {
		r.outs = append(r.outs, o)
	}
	w.mu.Unlock()
}

type consumer struct {
	w    *world
	kind int
	tag  int
	more int
}

func (c *consumer) OnMessageResponse(body []byte) error {
	c.w.log(out{kind: oCons, id: c.tag, data: append([]byte(nil), body...), some: body != nil})
	if c.kind == cSendMore {
		for i := 1; i <= c.more; i++ {
			t := c.tag + i
			_ = c.w.env.Conn().SendLoginPluginMessage(c.w.channel, []byte{byte(t)}, &consumer{w: c.w, kind: cPlain, tag: t})
		}
	}
	if c.kind == cFail {
		return errors.New("verif: this consumer fails")
	}
	return nil
}

func newWorld(pok bool) *world {
	w := &world{cur: map[uint64]*result{}}
	prot := version.Minecraft_1_20_3.Protocol
	if !pok {
		prot = version.Minecraft_1_12_2.Protocol
	}
	client := recconn.New(0, state.Login, prot)
	client.OnPacket = func(_ *recconn.Conn, p gproto.Packet, _ *state.Registry) {
		if m, ok := p.(*packet.LoginPluginMessage); ok {
			w.log(out{kind: oMsg, id: m.ID, data: append([]byte(nil), m.Data...)})
		}
	}
	client.OnFlush = func(*recconn.Conn) { w.log(out{kind: oFlush}) }
	w.backend = recconn.New(1, state.Login, prot)
	w.backend.OnPacket = func(_ *recconn.Conn, p gproto.Packet, _ *state.Registry) {
		if m, ok := p.(*packet.LoginPluginResponse); ok {
			w.log(out{kind: oBackend, id: m.ID, data: append([]byte(nil), m.Data...), some: m.Success})
		}
	}
	w.env = proxy.VerifC13New(client)
	ch, err := message.ChannelIdentifierFrom("verif:c13")
	if err != nil {
		panic(err)
	}
	w.channel = ch
	return w
}

// wire builds the response the way the client's bytes would be decoded
func wire(id int, success bool, data []byte) *packet.LoginPluginResponse {
	var buf bytes.Buffer
	in := &packet.LoginPluginResponse{ID: id, Success: success, Data: data}
	if err := in.Encode(&gproto.PacketContext{}, &buf); err != nil {
		panic(err)
	}
	outp := &packet.LoginPluginResponse{}
	if err := outp.Decode(&gproto.PacketContext{}, &buf); err != nil {
		panic(err)
	}
	return outp
}

var sink atomic.Int64

func spin(n int) {
	for i := 0; i < n; i++ {
		sink.Add(1)
	}
}

func (w *world) exec(r *result, gate func()) {
	id := recconn.Goid()
	w.mu.Lock()
	w.cur[id] = r
	w.mu.Unlock()
	if gate != nil {
		gate()
	}
	o := r.o
	r.inv = w.clock.Add(1)
	if r.meet != nil {
		r.meet()
	}
	spin(r.delay)
	switch o.kind {
	case kSend:
		err := w.env.Conn().SendLoginPluginMessage(w.channel, o.data, &consumer{w: w, kind: o.ckind, tag: o.tag, more: o.more})
		if err != nil {
			w.log(out{kind: oErr})
		}
	case kRelay:
		err := w.env.Relay(w.backend, &packet.LoginPluginMessage{ID: o.bid, Channel: proxy.ForgeLoginWrapperChannel, Data: o.data})
		if err != nil {
			w.log(out{kind: oErr})
		}
	case kResponse:
		w.env.Response(wire(o.id, o.success, o.data), o.via)
	case kFire:
		_ = w.env.Fire(func() error { w.log(out{kind: oCompletion}); return nil })
	case kClear:
		w.env.Clear()
	}
	r.res = w.clock.Add(1)
	w.mu.Lock()
	delete(w.cur, id)
	w.mu.Unlock()
}

// ---------- printing ----------

func bodyTerm(b []byte) string {
	return lib.ListOf(b, func(x byte) string { return lib.N(uint64(x)) })
}

func argTerm(some bool, b []byte) string {
	if !some {
		return "None"
	}
	return lib.Some(bodyTerm(b))
}

func opTerm(o op) string {
	switch o.kind {
	case kSend:
		k := lib.App("CPlain", lib.N(uint64(o.tag)))
		if o.ckind == cSendMore {
			k = lib.App("CSendMore", lib.N(uint64(o.tag)), lib.Nat(o.more))
		}
		if o.ckind == cFail {
			k = lib.App("CFail", lib.N(uint64(o.tag)))
		}
		return lib.App("OSend", k, bodyTerm(o.data))
	case kRelay:
		return lib.App("ORelay", lib.Z(int64(o.bid)), bodyTerm(o.data))
	case kResponse:
		return lib.App("OResponse", lib.Z(int64(o.id)), lib.Bool(o.success), bodyTerm(o.data))
	case kFire:
		return "OFire"
	default:
		return "OClear"
	}
}

func outTerm(x out) string {
	switch x.kind {
	case oMsg:
		return lib.App("Check.C13.OMsg", lib.Z(int64(x.id)), bodyTerm(x.data))
	case oFlush:
		return "Check.C13.OFlush"
	case oErr:
		return "Check.C13.OErr"
	case oCons:
		return lib.App("Check.C13.OCons", lib.N(uint64(x.id)), argTerm(x.some, x.data))
	case oBackend:
		return lib.App("Check.C13.OBackend", lib.Z(int64(x.id)), argTerm(x.some, x.data))
	default:
		return "Check.C13.OCompletion"
	}
}

func opDesc(o op) string {
	switch o.kind {
	case kSend:
		if o.ckind == cSendMore {
			return fmt.Sprintf("send(data %v, consumer %d that sends %d more)", o.data, o.tag, o.more)
		}
		if o.ckind == cFail {
			return fmt.Sprintf("send(data %v, consumer %d that returns an error)", o.data, o.tag)
		}
		return fmt.Sprintf("send(data %v, consumer %d)", o.data, o.tag)
	case kRelay:
		return fmt.Sprintf("relay backend message %d (data %v)", o.bid, o.data)
	case kResponse:
		return fmt.Sprintf("client response id %d success=%v data %v (via %d)", o.id, o.success, o.data, o.via)
	case kFire:
		return "loginEventFired(completion)"
	default:
		return "clearOnAllMessagesHandled"
	}
}

func outDesc(x out) string {
	switch x.kind {
	case oMsg:
		return fmt.Sprintf("client <- message %d %v", x.id, x.data)
	case oFlush:
		return "flush"
	case oErr:
		return "error returned"
	case oCons:
		if x.some {
			return fmt.Sprintf("consumer %d(%v)", x.id, x.data)
		}
		return fmt.Sprintf("consumer %d(nil)", x.id)
	case oBackend:
		return fmt.Sprintf("backend <- response %d success=%v %v", x.id, x.some, x.data)
	default:
		return "completion"
	}
}

func caseTerm(pok, concurrent bool, rs []*result) string {
	calls := lib.ListOf(rs, func(r *result) string {
		return lib.App("Lin.mkCall", opTerm(r.o), lib.ListOf(r.outs, outTerm), lib.Z(r.inv), lib.Z(r.res))
	})
	return lib.App("Check.C13.mk", lib.Bool(pok), lib.Bool(concurrent), calls)
}

func caseDesc(kind string, pok bool, rs []*result) map[string]any {
	var calls []map[string]any
	for _, r := range rs {
		var os []string
		for _, x := range r.outs {
			os = append(os, outDesc(x))
		}
		calls = append(calls, map[string]any{"call": opDesc(r.o), "thread": r.thread, "saw": os, "inv": r.inv, "res": r.res})
	}
	return map[string]any{"kind": kind, "client_1_13_or_later": pok, "calls": calls}
}

// ---------- generators ----------

type gen struct {
	r      *lib.Rng
	tag    int // next consumer tag (unique per case; data of a send = [tag])
	nextID int // ids the real code will hand out, if every send so far succeeded (used to aim responses)
	bid    int
}

func (g *gen) send() op {
	g.tag++
	o := op{kind: kSend, ckind: cPlain, tag: g.tag, data: []byte{byte(g.tag)}}
	if g.r.Chance(1, 6) {
		o.ckind = cFail
	} else if g.r.Chance(1, 8) {
		o.ckind = cSendMore
		o.more = g.r.Range(1, 2)
		g.tag += o.more
		g.nextID += o.more // upper estimate; only used to aim responses
	}
	if g.r.Chance(1, 14) {
		o.data = nil // "missing contents"
		return o
	}
	g.nextID++
	return o
}

func (g *gen) relay() op {
	g.bid++
	o := op{kind: kRelay, bid: g.bid, data: []byte{byte(200 + g.bid)}}
	if g.r.Chance(1, 6) {
		o.data = nil // relayToClient substitutes [0]
	}
	g.nextID++
	return o
}

func (g *gen) response() op {
	o := op{kind: kResponse, success: g.r.Chance(3, 4), via: g.r.Intn(3)}
	switch x := g.r.Intn(10); {
	case x < 7 && g.nextID > 0:
		o.id = g.r.Range(1, g.nextID)
	case x < 8:
		o.id = g.nextID + g.r.Range(1, 3) // not sent yet
	default:
		o.id = g.r.Pick(0, -1, 1<<31-1, -1<<31, 1000)
	}
	switch g.r.Intn(4) {
	case 0:
		o.data = nil
	case 1:
		o.data = []byte{}
	default:
		o.data = g.r.Bytes(g.r.Range(1, 3))
	}
	return o
}

// seqHistory: sends before the event, the event, then sends/relays/responses in any order;
// "orderly" histories answer every message once and never send after everything was answered.
func seqHistory(r *lib.Rng) []op {
	g := &gen{r: r}
	var ops []op
	pre := r.Pick(0, 0, 1, 2, 3, 4)
	for i := 0; i < pre; i++ {
		ops = append(ops, g.send())
		if r.Chance(1, 10) {
			ops = append(ops, g.response()) // the client answers before it was asked
		}
	}
	fire := !r.Chance(1, 10)
	if fire {
		ops = append(ops, op{kind: kFire})
	}
	n := r.Range(0, 14)
	cleared := false
	for i := 0; i < n; i++ {
		switch x := r.Intn(20); {
		case x < 5:
			ops = append(ops, g.send())
		case x < 8:
			if !cleared && r.Chance(1, 2) { // the auth handler clears the callback before the relay starts
				ops = append(ops, op{kind: kClear})
				cleared = true
			}
			ops = append(ops, g.relay())
		case x < 19:
			ops = append(ops, g.response())
		default:
			if !fire {
				ops = append(ops, op{kind: kFire})
				fire = true
			} else {
				ops = append(ops, g.response())
			}
		}
	}
	// closing sweep: answer everything that may still be outstanding, some of it twice
	if r.Chance(2, 3) {
		for _, id := range r.Perm(g.nextID) {
			ops = append(ops, op{kind: kResponse, id: id + 1, success: r.Chance(3, 4), data: r.Bytes(r.Range(0, 2)), via: r.Intn(3)})
			if r.Chance(1, 6) {
				ops = append(ops, op{kind: kResponse, id: id + 1, success: true, data: []byte{7}, via: 0})
			}
		}
	}
	return ops
}

// orderlyHistory: what a well-behaved login looks like: handlers send during the event, the event
// fires, the client answers each message once (any order), nothing is sent afterwards.  The
// recorded finding cannot trigger here.
func orderlyHistory(r *lib.Rng) []op {
	g := &gen{r: r}
	var ops []op
	pre := r.Range(0, 5)
	order := r.Perm(pre) // the order in which the client answers
	// which consumers return an error: none, the one answered last, one in the middle, all, random
	fails := make([]bool, pre)
	if pre > 0 {
		switch r.Intn(5) {
		case 1:
			fails[order[pre-1]] = true
		case 2:
			fails[order[pre/2]] = true
			if pre > 1 {
				fails[order[pre-1]] = false
			}
		case 3:
			for i := range fails {
				fails[i] = true
			}
		case 4:
			for i := range fails {
				fails[i] = r.Chance(1, 2)
			}
		}
	}
	for i := 0; i < pre; i++ {
		g.tag++
		g.nextID++
		o := op{kind: kSend, ckind: cPlain, tag: g.tag, data: []byte{byte(g.tag)}}
		if fails[i] {
			o.ckind = cFail
		}
		ops = append(ops, o)
	}
	ops = append(ops, op{kind: kFire})
	for _, id := range order {
		ops = append(ops, op{kind: kResponse, id: id + 1, success: r.Chance(3, 4), data: r.Bytes(r.Range(0, 3)), via: r.Intn(3)})
		if r.Chance(1, 5) {
			ops = append(ops, g.response())
		}
	}
	return ops
}

func runSequential(pok bool, ops []op) []*result {
	w := newWorld(pok)
	var rs []*result
	for _, o := range ops {
		r := &result{o: o}
		w.exec(r, nil)
		rs = append(rs, r)
	}
	return rs
}

type concProgram struct {
	prefix  []op
	threads [][]op
	delays  [][]int
}

// concGen: one goroutine sends (plain sends and relays; ids are then handed out in its program
// order), one answers, one fires the event.  No consumer sends from inside, no clear.
func concGen(r *lib.Rng) concProgram {
	g := &gen{r: r}
	var cp concProgram
	plain := func() op {
		g.tag++
		g.nextID++
		return op{kind: kSend, ckind: cPlain, tag: g.tag, data: []byte{byte(g.tag)}}
	}
	for i := r.Intn(3); i > 0; i-- {
		cp.prefix = append(cp.prefix, plain())
	}
	firedInPrefix := r.Chance(1, 2)
	if firedInPrefix {
		cp.prefix = append(cp.prefix, op{kind: kFire})
	}
	var sender, responder, firer []op
	ns := r.Range(1, 3)
	for i := 0; i < ns; i++ {
		if r.Chance(1, 3) {
			g.bid++
			g.nextID++
			sender = append(sender, op{kind: kRelay, bid: g.bid, data: []byte{byte(200 + g.bid)}})
		} else {
			sender = append(sender, plain())
		}
	}
	nr := r.Range(1, 3)
	for i := 0; i < nr; i++ {
		o := op{kind: kResponse, id: r.Range(1, g.nextID), success: r.Chance(3, 4), data: r.Bytes(r.Range(0, 2)), via: r.Intn(3)}
		responder = append(responder, o)
	}
	if !firedInPrefix {
		firer = append(firer, op{kind: kFire})
	}
	for _, t := range [][]op{sender, responder, firer} {
		if len(t) == 0 {
			continue
		}
		ds := make([]int, len(t))
		for i := range ds {
			ds[i] = r.Pick(5, 40, 150, 500)
		}
		cp.threads = append(cp.threads, t)
		cp.delays = append(cp.delays, ds)
	}
	return cp
}

type spinBarrier struct {
	n       int64
	arrived atomic.Int64
}

func (b *spinBarrier) wait(round int64) {
	b.arrived.Add(1)
	for i := 0; b.arrived.Load() < b.n*round; i++ {
		if i&0xffff == 0xffff {
			runtime.Gosched()
		}
	}
}

func runConcurrent(cp concProgram) []*result {
	w := newWorld(true)
	var rs []*result
	for _, o := range cp.prefix {
		r := &result{o: o}
		w.exec(r, nil)
		rs = append(rs, r)
	}
	per := make([][]*result, len(cp.threads))
	rounds := 0
	for t, ops := range cp.threads {
		for i, o := range ops {
			per[t] = append(per[t], &result{o: o, thread: t + 1, delay: cp.delays[t][i]})
		}
		if len(ops) > rounds {
			rounds = len(ops)
		}
	}
	bar := &spinBarrier{n: int64(len(cp.threads))}
	for i := 0; i < rounds; i++ {
		n := int64(0)
		for t := range per {
			if i < len(per[t]) {
				n++
			}
		}
		cnt := new(atomic.Int64)
		for t := range per {
			if i < len(per[t]) {
				per[t][i].meet = func() {
					cnt.Add(1)
					dl := time.Now().Add(20 * time.Millisecond)
					for j := 0; cnt.Load() < n; j++ {
						if j&0xfff == 0xfff && time.Now().After(dl) {
							return
						}
					}
				}
			}
		}
	}
	var wg sync.WaitGroup
	start := make(chan struct{})
	for t := range cp.threads {
		wg.Add(1)
		go func(t int) {
			defer wg.Done()
			<-start
			for i := 0; i < rounds; i++ {
				round := int64(i + 1)
				if i < len(per[t]) {
					w.exec(per[t][i], func() { bar.wait(round) })
				} else {
					bar.wait(round)
				}
			}
		}(t)
	}
	close(start)
	done := make(chan struct{})
	go func() { wg.Wait(); close(done) }()
	select {
	case <-done:
	case <-time.After(20 * time.Second):
		panic("C13 harness: goroutine run did not finish within 20 s")
	}
	for _, rr := range per {
		rs = append(rs, rr...)
	}
	return rs
}

func overlaps(rs []*result) bool {
	for i, a := range rs {
		for j, b := range rs {
			if i < j && a.thread != b.thread && a.thread != 0 && b.thread != 0 && a.inv < b.res && b.inv < a.res {
				return true
			}
		}
	}
	return false
}

func seqTags(kind string, rs []*result) (bool, []string) {
	tags := []string{"kind=" + kind}
	cons, ignored, completions, relayed := 0, 0, 0, 0
	for _, r := range rs {
		inv := false
		for _, x := range r.outs {
			switch x.kind {
			case oCons:
				cons++
				inv = true
			case oBackend:
				relayed++
				inv = true
			case oCompletion:
				completions++
			}
		}
		if r.o.kind == kResponse && !inv {
			ignored++
		}
	}
	if cons > 0 {
		tags = append(tags, "consumer-ran")
	}
	if relayed > 0 {
		tags = append(tags, "relayed")
	}
	if ignored > 0 {
		tags = append(tags, "response-ignored")
	}
	tags = append(tags, fmt.Sprintf("completions=%d", completions))
	tags = append(tags, fmt.Sprintf("calls=%d", len(rs)/5*5))
	return cons+relayed > 0 && ignored > 0, tags
}

func main() {
	f := lib.ParseFlags()
	rng := lib.NewRng(f.Seed)
	out := lib.NewOut("C13", f)
	out.Imports = "From Verif Require Import Base.Lin Model.LoginInbound.\n"
	out.Rule = "four streams over a real loginInboundConn (and modernForgeLoginRelay) on recording client/backend connections: (seq) 0..4 sends before the event (some answered before they were sent), the event (sometimes never, sometimes late), then up to 14 sends / relays of backend messages / client responses (right ids, ids not sent yet, extreme ids; success or failure; nil, empty or 1..3 byte bodies; through handleLoginPluginResponse or the initial-login / auth handlers), consumers that send more messages from inside, consumers that return an error, clearOnAllMessagesHandled before relays, sends without contents, and a closing sweep answering everything (some twice); (orderly) sends, the event, each message answered once, nothing sent afterwards, with consumers returning an error for none / the last answered / a middle / all / random messages; (old) the same on a 1.12.2 client where every send must fail; (conc) one sending, one answering and one firing goroutine, 1..3 calls each, logical clock. Non-trivial: seq/orderly/old = a consumer or the relay ran and some response was ignored; conc = two calls of different goroutines overlapped. Distinct = distinct Coq case terms."

	nSeq, nOrd, nOld, nConc := f.Count(180), f.Count(50), f.Count(10), f.Count(90)
	emitSeq := func(kind string, pok bool, ops []op) {
		if !out.Wanted() {
			out.Add("", nil, false)
			return
		}
		rs := runSequential(pok, ops)
		nt, tags := seqTags(kind, rs)
		out.Add(caseTerm(pok, false, rs), caseDesc(kind, pok, rs), nt, tags...)
	}
	for i := 0; i < nSeq; i++ {
		emitSeq("seq", true, seqHistory(rng.Fork()))
	}
	for i := 0; i < nOrd; i++ {
		emitSeq("orderly", true, orderlyHistory(rng.Fork()))
	}
	for i := 0; i < nOld; i++ {
		emitSeq("old", false, seqHistory(rng.Fork()))
	}
	for i := 0; i < nConc; i++ {
		cp := concGen(rng.Fork())
		if !out.Wanted() {
			out.Add("", nil, false)
			continue
		}
		rs := runConcurrent(cp)
		ov := overlaps(rs)
		for a := 0; a < 3 && !ov; a++ {
			rs = runConcurrent(cp)
			ov = overlaps(rs)
		}
		tags := []string{"kind=conc", fmt.Sprintf("threads=%d", len(cp.threads))}
		if ov {
			tags = append(tags, "conc-overlap")
		}
		out.Add(caseTerm(true, true, rs), caseDesc("conc", true, rs), ov, tags...)
	}
	out.Finish()
}
