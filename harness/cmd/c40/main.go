// C40 harness: gamertags x username formats through the real javaCompatibleUsername (export hook) after
// the same fmt.Sprintf call gate's onGameProfile makes, and XUIDs through the real BedrockData.JavaUuid.
package main

import (
	"context"
	"errors"
	"fmt"
	"net"
	"net/http"
	"strings"

	bconfig "go.minekube.com/gate/pkg/edition/bedrock/config"
	"go.minekube.com/gate/pkg/edition/java/profile"
	"go.minekube.com/gate/pkg/edition/java/proto/packet"
	"go.minekube.com/gate/pkg/edition/java/proxy"
	"go.minekube.com/gate/pkg/gate/proto"

	"go.minekube.com/gate/pkg/edition/bedrock/geyser"
	"go.minekube.com/gate/pkg/edition/bedrock/geyser/floodgate"

	"verifharness/lib"
)

type gen struct{ r *lib.Rng }

// fakeInbound is the login connection of a Bedrock player as the handler sees it: only Context() matters.
type fakeInbound struct{ ctx context.Context }

func (f *fakeInbound) Protocol() proto.Protocol                { return 0 }
func (f *fakeInbound) VirtualHost() net.Addr                   { return nil }
func (f *fakeInbound) HandshakeIntent() packet.HandshakeIntent { return packet.LoginHandshakeIntent }
func (f *fakeInbound) RemoteAddr() net.Addr                    { return nil }
func (f *fakeInbound) Active() bool                            { return true }
func (f *fakeInbound) Context() context.Context                { return f.ctx }

type noNetwork struct{}

func (noNetwork) RoundTrip(*http.Request) (*http.Response, error) {
	return nil, errors.New("network disabled in the harness")
}

// appliedProfile runs the real GameProfileRequest handler for one Bedrock player under cfg.
func appliedProfile(cfg *bconfig.Config, username string, xuid int64) (gp profile.GameProfile, panicked any) {
	defer func() { panicked = recover() }()
	gc := &geyser.GeyserConnection{BedrockData: &floodgate.BedrockData{Username: username, Xuid: xuid}}
	gc.Context = geyser.VerifWithBedrockContext(context.Background(), gc)
	e := proxy.NewGameProfileRequestEvent(&fakeInbound{ctx: gc.Context}, profile.GameProfile{Name: username}, false)
	geyser.VerifOnGameProfile(cfg, &http.Client{Transport: noNetwork{}}, e)
	return e.GameProfile(), nil
}

func (g gen) gamertag() (string, string) {
	n := g.r.Range(0, 40)
	if g.r.Chance(2, 3) {
		n = g.r.Range(0, 18)
	}
	switch g.r.Intn(9) {
	case 0, 1:
		return g.r.StringOver("abcdefghijklmnopqrstuvwxyzABCDEFGHIJKLMNOPQRSTUVWXYZ0123456789", n), "alnum"
	case 2:
		return g.r.StringOver("abcXYZ019 _", n), "spaces"
	case 3:
		return g.r.StringOver("aZ9_.-'!@#$%^&*()+=[]{}|;:,<>/?~` \t", n), "punctuation"
	case 4:
		return g.r.StringOver("äöüßéñçøÅλЖ水火龙🙂🎮x1 ", n), "unicode"
	case 5: // raw bytes: invalid UTF-8, truncated sequences, surrogates, overlong forms
		b := g.r.Bytes(n)
		return string(b), "raw-bytes"
	case 6:
		parts := []string{"\xc3", "\xe6\xb0", "\xf0\x9f\x99", "\xed\xa0\x80", "\xc0\xaf", "\xf4\x90\x80\x80", "ok", "\xe2\x82\xac", "\xff"}
		var sb strings.Builder
		for i := g.r.Range(0, 8); i > 0; i-- {
			sb.WriteString(parts[g.r.Intn(len(parts))])
		}
		return sb.String(), "broken-utf8"
	case 7:
		return strings.Repeat(g.r.PickS("a", "_", " ", "水", "\xff"), g.r.Pick(0, 1, 15, 16, 17, 40)), "boundary-length"
	default:
		return g.r.StringOver("abc \x00\x7f\u0080߿ࠀ￿\U00010000\U0010ffff", n), "edge-code-points"
	}
}

func (g gen) format() (string, string) {
	switch g.r.Intn(12) {
	case 0, 1, 2:
		return "_%s", "default"
	case 3:
		return "", "empty"
	case 4:
		return "%s", "bare"
	case 5:
		return g.r.StringOver("._*Bb ", g.r.Range(1, 4)) + "%s", "prefix"
	case 6:
		return "%s" + g.r.StringOver("_bedrock.B ", g.r.Range(1, 12)), "suffix"
	case 7:
		return g.r.StringOver("[_x", g.r.Range(0, 3)) + "%s" + g.r.StringOver("]_y水", g.r.Range(0, 3)), "both"
	case 8:
		return g.r.PickS("100%%_%s", "%%%s", "%s%%", "a%%b%sc"), "percent-literal"
	case 9:
		return strings.Repeat("p", g.r.Pick(15, 16, 17, 30)) + "%s", "long-prefix"
	case 10: // outside the fragment: other verbs, flags, widths, missing or extra operands
		return g.r.PickS("%s%s", "%v", "%q", "%d", "%5s", "%-20s|", "%.3s", "%x", "%", "abc%", "%!", "no-verb", "%[1]s%[1]s", "%T", "%+v", "%s %d", "%08s", "%c"), "other-verbs"
	default:
		return g.r.PickS("水%s", "%s🙂", "\xff%s", "Ω_%s_Ω"), "non-ascii-format"
	}
}

func main() {
	f := lib.ParseFlags()
	rng := lib.NewRng(f.Seed)
	out := lib.NewOut("C40", f)
	out.Imports = "From Verif Require Import Model.JavaIdentity.\n"
	out.Rule = "gamertags of length 0..40 (alphanumeric, with spaces, punctuation, non-ASCII letters and emoji, raw bytes, broken UTF-8 pieces, boundary lengths 0/1/15/16/17/40, edge code points) x username formats (default \"_%s\", empty, bare, prefix, suffix, both, %% literals, long prefixes, non-ASCII, and formats outside the %s fragment: other verbs, widths, missing/extra operands); XUIDs: small, random 1..2^63-1, int64 extremes, negatives, neighbours n and n+1; the identity applied by the real onGameProfile handler (GameProfileRequestEvent after the handler, no network) for 96 (config, gamertag, XUID) triples: BackendFloodgate enabled/disabled with and without allowed servers, all username-format classes, with and without a managed-Geyser block; distinct = distinct case term; non-trivial = name case whose formatted input is not already its own output, or any UUID case"
	g := gen{rng}

	n := f.Count(1700)
	for i := 0; i < n; i++ {
		tag, tk := g.gamertag()
		format, fk := g.format()
		formatted := tag
		if format != "" { // geyser.go: onGameProfile
			formatted = fmt.Sprintf(format, tag)
		}
		var name string
		panicked := func() (p any) {
			defer func() { p = recover() }()
			name = geyser.VerifJavaCompatibleUsername(formatted)
			return nil
		}()
		desc := map[string]any{"format": format, "gamertag_hex": fmt.Sprintf("%x", tag), "formatted_hex": fmt.Sprintf("%x", formatted), "observed": name}
		if panicked != nil {
			out.GoViolation(map[string]any{"known": nil, "what": "javaCompatibleUsername panicked", "panic": fmt.Sprint(panicked), "case": desc})
			continue
		}
		out.Add(lib.App("CName", lib.Str(format), lib.Str(tag), lib.Str(formatted), lib.Str(name)), desc, name != formatted,
			"kind=name", "tag="+tk, "format="+fk, fmt.Sprintf("outlen=%d", len(name)))
	}

	// UUIDs: SHA-1 inside Coq costs ~40 ms per case, so this stream stays small
	m := f.Count(150)
	seen := map[[16]byte]int64{}
	var xs []int64
	for i := 0; i < m; i++ {
		var x int64
		switch i % 10 {
		case 0:
			x = int64(i/10 + 1)
		case 1:
			x = 1<<63 - 1 - int64(i/10)
		case 2:
			x = -int64(g.r.U64()>>1) - 1
		case 3:
			x = -1 << 63
		case 4:
			if len(xs) > 0 {
				x = xs[len(xs)-1] + 1 // neighbour of the previous one
			}
		default:
			x = int64(g.r.U64()>>uint(g.r.Range(1, 30))) + 1 // realistic: around 2^53
		}
		if i%10 == 3 && i > 3 {
			x = int64(g.r.U64() >> 11)
		}
		xs = append(xs, x)
		d := &floodgate.BedrockData{Xuid: x}
		u, err := d.JavaUuid()
		desc := map[string]any{"xuid": x, "uuid": u.String()}
		if err != nil {
			out.GoViolation(map[string]any{"known": nil, "what": "JavaUuid returned an error", "case": desc})
			continue
		}
		// same XUID, same UUID: a second, independent value
		u2, _ := (&floodgate.BedrockData{Xuid: x, Username: "other", Proxy: true}).JavaUuid()
		if u2 != u {
			out.GoViolation(map[string]any{"known": nil, "what": "the same XUID gave two different UUIDs", "case": desc, "second": u2.String()})
		}
		// different XUIDs, different UUIDs over the generated set
		if prev, dup := seen[u]; dup && prev != x {
			out.GoViolation(map[string]any{"known": nil, "what": "two different XUIDs gave the same UUID", "case": desc, "other_xuid": prev})
		}
		seen[u] = x
		out.Add(lib.App("CUuid", lib.Z(x), lib.Bytes(u[:])), desc, true, "kind=uuid")
	}
	out.Extra("distinct_xuids", len(seen))

	// the identity applied by onGameProfile under every configuration that can influence it:
	// BackendFloodgate on/off (with and without allowed servers), username formats, managed Geyser block
	k := f.Count(96)
	seenCfg := map[bool]map[[16]byte]int64{false: {}, true: {}}
	for i := 0; i < k; i++ {
		tag, tk := g.gamertag()
		format, fk := g.format()
		backend := i%2 == 1
		cfg := &bconfig.Config{UsernameFormat: format, BackendFloodgate: bconfig.BackendFloodgate{Enabled: backend}}
		if backend && i%4 == 1 {
			cfg.BackendFloodgate.AllowedServers = []string{"lobby", "survival"}
		}
		if i%8 >= 6 {
			cfg.Managed = &bconfig.ManagedGeyser{Enabled: true}
			cfg.GeyserListenAddr, cfg.FloodgateKeyPath = "localhost:25567", "floodgate.pem"
		}
		var x int64
		switch i % 6 {
		case 0:
			x = int64(i/6 + 1)
		case 1:
			x = 1<<63 - 1 - int64(i)
		case 2:
			x = -int64(g.r.U64()>>1) - 1
		default:
			x = int64(g.r.U64()>>uint(g.r.Range(1, 30))) + 1
		}
		formatted := tag
		if format != "" {
			formatted = fmt.Sprintf(format, tag)
		}
		gp, pm := appliedProfile(cfg, tag, x)
		desc := map[string]any{"kind": "applied-profile", "format": format, "gamertag_hex": fmt.Sprintf("%x", tag), "xuid": x,
			"backend_floodgate_enabled": backend, "allowed_servers": cfg.BackendFloodgate.AllowedServers, "managed": cfg.Managed != nil,
			"applied_name": gp.Name, "applied_uuid": gp.ID.String()}
		if pm != nil {
			out.GoViolation(map[string]any{"known": nil, "what": "onGameProfile panicked", "panic": fmt.Sprint(pm), "case": desc})
			continue
		}
		// stable under a renamed gamertag, injective over the generated XUIDs, per configuration
		if again, _ := appliedProfile(cfg, "Renamed "+tag, x); again.ID != gp.ID {
			out.GoViolation(map[string]any{"known": nil, "what": "applied UUID depends on more than the XUID", "case": desc, "second": again.ID.String()})
		}
		if prev, dup := seenCfg[backend][gp.ID]; dup && prev != x {
			out.GoViolation(map[string]any{"known": nil, "what": "two different XUIDs were given the same applied UUID", "case": desc, "other_xuid": prev})
		}
		seenCfg[backend][gp.ID] = x
		out.Add(lib.App("CProfile", lib.Str(format), lib.Str(tag), lib.Str(formatted), lib.Z(x), lib.Bool(backend), lib.Str(gp.Name), lib.Bytes(gp.ID[:])),
			desc, true, "kind=applied-profile", "tag="+tk, "format="+fk, fmt.Sprintf("backendFloodgate=%v", backend))
	}
	out.Finish()
}
