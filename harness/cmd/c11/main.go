// C11 harness: drives the REAL player registry of the proxy (canRegisterConnection,
// registerConnection, unregisterConnection, teardown, Player.Disconnect and the login flow
// authSessionHandler.Activated) over real netmc connections on an in-memory net.Conn and writes
// what was observed as Coq cases for Check.C11.judge:
//
//	CSeq  sequential histories, every result plus a full lookup snapshot after every mutating call
//	CLin  concurrent histories of the atomic registry calls (16 goroutines, barrier rounds,
//	      logical clock); the linearization is searched here and validated in Coq
//	CRace logins racing through Activated; Coq checks the outcome is one the model's schedules allow
//
// Hangs are observations: every call runs under a watchdog.
package main

import (
	"context"
	"fmt"
	"net"
	"os"
	"runtime"
	"sort"
	"strings"
	"sync"
	"sync/atomic"
	"time"

	"github.com/robinbraemer/event"
	"go.minekube.com/common/minecraft/component"
	"go.minekube.com/gate/pkg/edition/java/config"
	"go.minekube.com/gate/pkg/edition/java/netmc"
	"go.minekube.com/gate/pkg/edition/java/profile"
	"go.minekube.com/gate/pkg/edition/java/proto/state"
	"go.minekube.com/gate/pkg/edition/java/proto/version"
	"go.minekube.com/gate/pkg/edition/java/proxy"
	"go.minekube.com/gate/pkg/edition/java/proxy/phase"
	"go.minekube.com/gate/pkg/gate/proto"
	"go.minekube.com/gate/pkg/util/uuid"

	"verifharness/lib"
)

// ---------- in-memory net.Conn: writes are discarded, reads block until Close ----------

type memConn struct {
	once sync.Once
	done chan struct{}
}

func newMemConn() *memConn { return &memConn{done: make(chan struct{})} }

type memAddr struct{}

func (memAddr) Network() string { return "mem" }
func (memAddr) String() string  { return "mem:0" }

func (c *memConn) Read(b []byte) (int, error)       { <-c.done; return 0, net.ErrClosed }
func (c *memConn) Write(b []byte) (int, error)      { return len(b), nil }
func (c *memConn) Close() error                     { c.once.Do(func() { close(c.done) }); return nil }
func (c *memConn) LocalAddr() net.Addr              { return memAddr{} }
func (c *memConn) RemoteAddr() net.Addr             { return memAddr{} }
func (c *memConn) SetDeadline(time.Time) error      { return nil }
func (c *memConn) SetReadDeadline(time.Time) error  { return nil }
func (c *memConn) SetWriteDeadline(time.Time) error { return nil }

// ---------- one proxy instance with a pool of player handles ----------

type poolEntry struct {
	Name  string
	ID    int
	Login bool // true: the player object is created by authSessionHandler.Activated (OLogin first)
}

type handle struct {
	conn    netmc.MinecraftConn
	prof    *profile.GameProfile
	player  atomic.Pointer[proxy.VerifC11Player]
	auth    netmc.SessionHandler
	isLogin bool
}

// kev: one entry of the ordered log of a kick-existing run
type kev struct {
	Tear bool
	H    int
	St   int
}

type discEv struct {
	pl *proxy.VerifC11Player
	st proxy.LoginStatus
}

type env struct {
	p       *proxy.Proxy
	online  bool
	kick    bool
	pool    []poolEntry
	hs      []*handle
	byPtr   sync.Map // *VerifC11Player -> handle index
	evMu    sync.Mutex
	evs     []discEv
	tried   []int       // kick cases: sessions whose login was started
	klog    []kev       // ordered log of registrations and DisconnectEvents (kick cases)
	onTear  func(h int) // kick cases: called inside the DisconnectEvent of handle h (after logging)
	idPool  []int
	nmPool  []string
	uuidOf  func(int) uuid.UUID
	watch   time.Duration
	leaked  bool
	started time.Time
}

func uuidAt(i int) uuid.UUID {
	var u uuid.UUID
	for k := range u {
		u[k] = byte(0x10*(i+1) + k)
	}
	return u
}

func newEnv(online, kick bool, pool []poolEntry) *env {
	cfg := config.DefaultConfig
	cfg.OnlineMode = online
	cfg.OnlineModeKickExistingPlayers = kick
	cfg.Compression.Threshold = -1
	mgr := event.New()
	p, err := proxy.New(proxy.Options{Config: &cfg, EventMgr: mgr})
	if err != nil {
		fmt.Fprintln(os.Stderr, "proxy.New:", err)
		os.Exit(2)
	}
	e := &env{p: p, online: online, kick: kick, pool: pool, uuidOf: uuidAt, watch: 250 * time.Millisecond}
	event.Subscribe(mgr, 0, func(ev *proxy.DisconnectEvent) {
		pl, _ := ev.Player().(*proxy.VerifC11Player)
		e.evMu.Lock()
		e.evs = append(e.evs, discEv{pl, ev.LoginStatus()})
		h := -1
		if v, ok := e.byPtr.Load(pl); ok {
			h = v.(int)
		}
		e.klog = append(e.klog, kev{Tear: true, H: h, St: statusClass(ev.LoginStatus())})
		hook := e.onTear
		e.evMu.Unlock()
		if hook != nil {
			hook(h)
		}
	})
	seenID := map[int]bool{}
	seenNm := map[string]bool{}
	for i, pe := range pool {
		conn, _ := netmc.NewMinecraftConn(context.Background(), newMemConn(), proto.ServerBound, 0, 0, -1, nil)
		conn.SetProtocol(version.Minecraft_1_20_2.Protocol)
		conn.SetType(phase.Vanilla)
		h := &handle{conn: conn, isLogin: pe.Login,
			prof: &profile.GameProfile{ID: uuidAt(pe.ID), Name: pe.Name}}
		if pe.Login {
			h.auth = proxy.VerifC11AuthHandler(p, conn, h.prof, online)
		} else {
			pl := proxy.VerifC11NewPlayer(p, conn, h.prof, online)
			h.player.Store(pl)
			e.byPtr.Store(pl, i)
			// the handler of a registered connection: Disconnected runs teardown
			conn.SetActiveSessionHandler(state.Play, proxy.VerifC11InitialConnectHandler(pl))
		}
		e.hs = append(e.hs, h)
		if !seenID[pe.ID] {
			seenID[pe.ID] = true
			e.idPool = append(e.idPool, pe.ID)
		}
		ln := strings.ToLower(pe.Name)
		if !seenNm[ln] {
			seenNm[ln] = true
			e.nmPool = append(e.nmPool, ln)
		}
	}
	return e
}

// close every connection so that nothing of this env stays referenced by running goroutines
func (e *env) dispose() {
	if e.leaked {
		return // teardown would block on muP; the stuck goroutines are abandoned
	}
	for _, h := range e.hs {
		_ = h.conn.Close()
	}
}

func (e *env) handleOf(pl proxy.Player) (int, bool) {
	if pl == nil {
		return 0, false
	}
	cp, ok := pl.(*proxy.VerifC11Player)
	if !ok || cp == nil {
		return 0, false
	}
	v, ok := e.byPtr.Load(cp)
	if !ok {
		return -1, true // a player object the harness did not create: never equal to a model value
	}
	return v.(int), true
}

// ---------- ops and results ----------

type opKind int

const (
	oCan opKind = iota
	oReg
	oUnreg
	oDisc
	oLogin
	oPlayer
	oByName
	oCount
	oPlayers
	oSnap
)

type op struct {
	K opKind
	H int    // handle, or id index for oPlayer
	S string // name for oByName
}

func (o op) coq() string {
	switch o.K {
	case oCan:
		return lib.App("OCan", lib.N(uint64(o.H)))
	case oReg:
		return lib.App("OReg", lib.N(uint64(o.H)))
	case oUnreg:
		return lib.App("OUnreg", lib.N(uint64(o.H)))
	case oDisc:
		return lib.App("ODisc", lib.N(uint64(o.H)))
	case oLogin:
		return lib.App("OLogin", lib.N(uint64(o.H)))
	case oPlayer:
		return lib.App("OPlayer", lib.N(uint64(o.H)))
	case oByName:
		return lib.App("OByName", coqStr(o.S))
	case oCount:
		return "OCount"
	case oPlayers:
		return "OPlayers"
	}
	return "OSnap"
}

func (o op) String() string {
	names := []string{"can", "reg", "unreg", "disc", "login", "player", "byname", "count", "players", "snap"}
	if o.K == oByName {
		return names[o.K] + "(" + o.S + ")"
	}
	if o.K >= oCount {
		return names[o.K]
	}
	return fmt.Sprintf("%s(%d)", names[o.K], o.H)
}

func coqStr(s string) string {
	for _, r := range s {
		if !(r == '_' || r >= '0' && r <= '9' || r >= 'a' && r <= 'z' || r >= 'A' && r <= 'Z') {
			panic("coqStr: name outside the generator alphabet")
		}
	}
	return `"` + s + `"`
}

type result struct {
	Kind string // unit bool opt count list snap hang
	B    bool
	Has  bool
	V    int
	L    []int
	ByID []int // -2 = none
	ByNm []int
	Disc [][2]int // (handle, status class) DisconnectEvents fired during the call
}

func optCoq(v int) string {
	if v == -2 {
		return "None"
	}
	if v < 0 {
		return lib.Some(lib.N(999999))
	}
	return lib.Some(lib.N(uint64(v)))
}

func nList(l []int) string {
	return lib.ListOf(l, func(v int) string {
		if v < 0 {
			return lib.N(999999)
		}
		return lib.N(uint64(v))
	})
}

func (r result) resCoq() string {
	switch r.Kind {
	case "unit":
		return "RUnit"
	case "bool":
		return lib.App("RBool", lib.Bool(r.B))
	case "opt":
		if !r.Has {
			return "(ROpt None)"
		}
		return lib.App("ROpt", optCoq(r.V))
	case "count":
		return lib.App("RCount", lib.N(uint64(r.V)))
	case "list":
		return lib.App("RList", nList(r.L))
	case "snap":
		return lib.App("RSnap", lib.ListOf(r.ByID, optCoq), lib.ListOf(r.ByNm, optCoq), nList(r.L), lib.N(uint64(r.V)))
	}
	return "RHang"
}

var statusCoq = []string{"SSuccessful", "SConflicting", "SCanceled"}

func (r result) coq() string {
	return lib.Pair(r.resCoq(), lib.ListOf(r.Disc, func(d [2]int) string {
		h := lib.N(999999)
		if d[0] >= 0 {
			h = lib.N(uint64(d[0]))
		}
		return lib.Pair(h, statusCoq[d[1]])
	}))
}

func statusClass(s proxy.LoginStatus) int {
	switch s {
	case proxy.SuccessfulLoginStatus:
		return 0
	case proxy.ConflictingLoginStatus:
		return 1
	}
	return 2 // CanceledByUser / CanceledByProxy / BeforeComplete
}

func (e *env) lookupID(i int) int {
	h, ok := e.handleOf(e.p.Player(e.uuidOf(i)))
	if !ok {
		return -2
	}
	return h
}

func (e *env) lookupName(n string) int {
	h, ok := e.handleOf(e.p.PlayerByName(n))
	if !ok {
		return -2
	}
	return h
}

func (e *env) players() []int {
	var l []int
	for _, pl := range e.p.Players() {
		h, _ := e.handleOf(pl)
		l = append(l, h)
	}
	sort.Ints(l)
	return l
}

// exec performs one op on the calling goroutine (no watchdog).
func (e *env) exec(o op) result {
	switch o.K {
	case oCan:
		return result{Kind: "bool", B: proxy.VerifC11CanRegister(e.p, e.hs[o.H].player.Load())}
	case oReg:
		return result{Kind: "bool", B: proxy.VerifC11Register(e.p, e.hs[o.H].player.Load())}
	case oUnreg:
		return result{Kind: "bool", B: proxy.VerifC11Unregister(e.p, e.hs[o.H].player.Load())}
	case oDisc:
		e.hs[o.H].player.Load().Disconnect(&component.Text{Content: "verif"})
		return result{Kind: "unit"}
	case oLogin:
		h := e.hs[o.H]
		// what initialLoginSessionHandler does once the client is authenticated
		h.conn.SetActiveSessionHandler(state.Login, h.auth)
		pl := proxy.VerifC11AuthPlayer(h.auth)
		if pl != nil {
			h.player.Store(pl)
			e.byPtr.Store(pl, o.H)
		}
		return result{Kind: "bool", B: pl != nil && pl.Active()}
	case oPlayer:
		v := e.lookupID(o.H)
		return result{Kind: "opt", Has: v != -2, V: v}
	case oByName:
		v := e.lookupName(o.S)
		return result{Kind: "opt", Has: v != -2, V: v}
	case oCount:
		return result{Kind: "count", V: e.p.PlayerCount()}
	case oPlayers:
		return result{Kind: "list", L: e.players()}
	}
	r := result{Kind: "snap"}
	for _, i := range e.idPool {
		r.ByID = append(r.ByID, e.lookupID(i))
	}
	for _, n := range e.nmPool {
		r.ByNm = append(r.ByNm, e.lookupName(n))
	}
	r.L = e.players()
	r.V = e.p.PlayerCount()
	return r
}

// takeEvents drains the DisconnectEvents recorded so far, resolved to handles.
func (e *env) takeEvents() [][2]int {
	e.evMu.Lock()
	evs := e.evs
	e.evs = nil
	e.evMu.Unlock()
	var out [][2]int
	for _, ev := range evs {
		h := -1
		if v, ok := e.byPtr.Load(ev.pl); ok {
			h = v.(int)
		}
		out = append(out, [2]int{h, statusClass(ev.st)})
	}
	return out
}

// waitAll waits for done to be closed. A hang is only declared when the call is still running after
// the watchdog time AND an independent PlayerCount probe issued then does not return either within
// the same time again (so a scheduling stall of this process is not mistaken for a deadlock).
func (e *env) waitAll(done <-chan struct{}, long bool) bool {
	limit := e.watch
	if long {
		limit = 20 * time.Second
	}
	select {
	case <-done:
		return true
	case <-time.After(limit):
	}
	probe := make(chan struct{})
	go func() { e.p.PlayerCount(); close(probe) }()
	select {
	case <-done:
		return true
	case <-probe:
		// the registry lock is free: the call is slow, not deadlocked on muP; give it real time
		select {
		case <-done:
			return true
		case <-time.After(3 * time.Second):
			return false
		}
	case <-time.After(limit):
	}
	select {
	case <-done:
		return true
	default:
		return false
	}
}

// call runs one op under the watchdog.
func (e *env) call(o op) result {
	var r result
	done := make(chan struct{})
	go func() { r = e.exec(o); close(done) }()
	if !e.waitAll(done, false) {
		e.leaked = true
		return result{Kind: "hang", Disc: e.takeEvents()}
	}
	r.Disc = e.takeEvents()
	return r
}

// ---------- generators ----------

var baseNames = []string{"Alice", "Bob", "Carol_7", "dave", "EVE", "x"}

func caseVariant(r *lib.Rng, s string) string {
	switch r.Intn(4) {
	case 0:
		return s
	case 1:
		return strings.ToLower(s)
	case 2:
		return strings.ToUpper(s)
	}
	b := []byte(s)
	for i := range b {
		if r.Bool() {
			b[i] = strings.ToUpper(string(b[i]))[0]
		} else {
			b[i] = strings.ToLower(string(b[i]))[0]
		}
	}
	return string(b)
}

// genPool: n handles over nNames base names (in case variants) and nIDs uuids.
// offlineLike ties the uuid to the exact spelling the way offline mode does (same spelling = same
// uuid, other spelling = other uuid); otherwise name and uuid are drawn independently.
func genPool(r *lib.Rng, n, nNames, nIDs int, loginShare int, offlineLike bool) []poolEntry {
	var pool []poolEntry
	spellID := map[string]int{}
	for i := 0; i < n; i++ {
		nm := caseVariant(r, baseNames[r.Intn(nNames)])
		id := r.Intn(nIDs)
		if offlineLike {
			if v, ok := spellID[nm]; ok {
				id = v
			} else {
				id = len(spellID)
				spellID[nm] = id
			}
		}
		pool = append(pool, poolEntry{Name: nm, ID: id, Login: r.Intn(100) < loginShare})
	}
	return pool
}

func poolCoq(pool []poolEntry) string {
	return lib.ListOf(pool, func(p poolEntry) string { return lib.Pair(coqStr(p.Name), lib.N(uint64(p.ID))) })
}

type histStep struct {
	O op
	R result
}

func histDesc(pool []poolEntry, online, kick bool, steps []histStep) map[string]any {
	var ops []string
	for _, s := range steps {
		if s.O.K == oSnap {
			ops = append(ops, fmt.Sprintf("snap -> %s byid=%v byname=%v all=%v n=%d", s.R.Kind, s.R.ByID, s.R.ByNm, s.R.L, s.R.V))
			continue
		}
		ops = append(ops, fmt.Sprintf("%s -> %s", s.O, resultText(s.R)))
	}
	return map[string]any{"online": online, "kick": kick, "pool": pool, "history": ops}
}

func resultText(r result) string {
	t := r.Kind
	switch r.Kind {
	case "bool":
		t = fmt.Sprint(r.B)
	case "opt":
		t = "none"
		if r.Has {
			t = fmt.Sprint(r.V)
		}
	case "count":
		t = fmt.Sprint(r.V)
	case "list":
		t = fmt.Sprint(r.L)
	}
	if len(r.Disc) > 0 {
		t += fmt.Sprintf(" disconnect-events(handle,status)=%v", r.Disc)
	}
	return t
}

// genSeqOps pre-generates a sequential op list (independent of results).
// allowFail=false keeps registerConnection away from handles whose name or id the generator's own
// bookkeeping says may be taken (no failing registerConnection with kick off).
func genSeqOps(r *lib.Rng, pool []poolEntry, kick bool, n int, allowFail bool) []op {
	var ops []op
	loggedIn := make([]bool, len(pool))
	closedMaybe := make([]bool, len(pool))
	regMaybe := make([]bool, len(pool)) // may currently be registered
	conflict := func(h int) bool {
		for j := range pool {
			if regMaybe[j] && (j == h || pool[j].ID == pool[h].ID || strings.EqualFold(pool[j].Name, pool[h].Name)) {
				return true
			}
		}
		return false
	}
	for len(ops) < n {
		h := r.Intn(len(pool))
		pe := pool[h]
		if pe.Login && !loggedIn[h] {
			// a connection handle has no player object before its login
			if r.Chance(2, 3) {
				loggedIn[h] = true
				if kick {
					for j := range pool {
						if regMaybe[j] && pool[j].ID == pe.ID {
							closedMaybe[j] = true
						}
					}
				}
				regMaybe[h] = true
				ops = append(ops, op{K: oLogin, H: h}, op{K: oSnap})
			}
			continue
		}
		switch k := r.Intn(100); {
		case k < 14:
			ops = append(ops, op{K: oCan, H: h})
		case k < 40:
			if kick && (closedMaybe[h] || regMaybe[h]) {
				// a closed player registered in kick mode makes the next kicker spin for ever; registering
				// a registered player again kicks (closes) itself first and ends in the same state
				continue
			}
			if !kick && !allowFail && conflict(h) {
				continue
			}
			if kick {
				// registering kicks (closes) whoever holds the same uuid, possibly h itself
				for j := range pool {
					if regMaybe[j] && pool[j].ID == pe.ID {
						closedMaybe[j] = true
					}
				}
			}
			regMaybe[h] = true
			ops = append(ops, op{K: oReg, H: h}, op{K: oSnap})
		case k < 52:
			ops = append(ops, op{K: oUnreg, H: h}, op{K: oSnap})
			regMaybe[h] = false
		case k < 70:
			ops = append(ops, op{K: oDisc, H: h}, op{K: oSnap})
			closedMaybe[h] = true
		case k < 78:
			ops = append(ops, op{K: oPlayer, H: pool[r.Intn(len(pool))].ID})
		case k < 88:
			ops = append(ops, op{K: oByName, S: caseVariant(r, pool[r.Intn(len(pool))].Name)})
		case k < 93:
			ops = append(ops, op{K: oCount})
		default:
			ops = append(ops, op{K: oPlayers})
		}
	}
	return ops
}

func runSeq(online, kick bool, pool []poolEntry, ops []op) []histStep {
	e := newEnv(online, kick, pool)
	defer e.dispose()
	var steps []histStep
	for _, o := range ops {
		r := e.call(o)
		steps = append(steps, histStep{o, r})
		if r.Kind == "hang" {
			break
		}
	}
	return steps
}

func seqTerm(online, kick bool, pool []poolEntry, steps []histStep) string {
	return lib.App("CSeq", lib.Bool(online), lib.Bool(kick), poolCoq(pool),
		lib.ListOf(steps, func(s histStep) string { return lib.Pair(s.O.coq(), s.R.coq()) }))
}

// ---------- concurrent histories ----------

type callRec struct {
	O        op
	R        result
	Inv, Res int64
}

const nGoroutines = 16

// runLin: rounds of nGoroutines simultaneous calls. Returns completed calls and whether calls hung.
func runLin(online bool, pool []poolEntry, rounds [][]op) ([]callRec, bool) {
	e := newEnv(online, false, pool)
	defer e.dispose()
	var clock atomic.Int64
	var hist []callRec
	for _, ops := range rounds {
		recs := make([]callRec, len(ops))
		flags := make([]atomic.Bool, len(ops))
		start := make(chan struct{})
		var wg sync.WaitGroup
		for g := range ops {
			wg.Add(1)
			go func(g int) {
				defer wg.Done()
				<-start
				recs[g].O = ops[g]
				inv := clock.Add(1)
				r := e.exec(ops[g])
				res := clock.Add(1)
				recs[g].R, recs[g].Inv, recs[g].Res = r, inv, res
				flags[g].Store(true)
			}(g)
		}
		done := make(chan struct{})
		go func() { wg.Wait(); close(done) }()
		close(start)
		if !e.waitAll(done, false) {
			e.leaked = true
			// a stuck goroutine is blocked inside exec and never sets its flag
			time.Sleep(10 * time.Millisecond)
			for g := range recs {
				if flags[g].Load() {
					hist = append(hist, recs[g])
				}
			}
			return hist, true
		}
		hist = append(hist, recs...)
	}
	return hist, false
}

// Go-side registry model, used ONLY to search a linearization order (untrusted; Coq validates).
type mstate struct {
	names  map[string]int
	ids    map[int]int
	leaked bool
}

func (m *mstate) key() string {
	var sb strings.Builder
	ks := make([]string, 0, len(m.names))
	for k, v := range m.names {
		ks = append(ks, fmt.Sprintf("%s=%d", k, v))
	}
	sort.Strings(ks)
	is := make([]string, 0, len(m.ids))
	for k, v := range m.ids {
		is = append(is, fmt.Sprintf("%d=%d", k, v))
	}
	sort.Strings(is)
	fmt.Fprint(&sb, ks, is, m.leaked)
	return sb.String()
}

func (m *mstate) clone() *mstate {
	c := &mstate{names: map[string]int{}, ids: map[int]int{}, leaked: m.leaked}
	for k, v := range m.names {
		c.names[k] = v
	}
	for k, v := range m.ids {
		c.ids[k] = v
	}
	return c
}

// apply returns the new state and whether the observed result is what this variant produces.
func (m *mstate) apply(pool []poolEntry, vUnreg, vLeak bool, o op, r result) (*mstate, bool) {
	if m.leaked {
		return m, false // every call blocks; a completed call cannot be ordered here
	}
	ln := func(h int) string { return strings.ToLower(pool[h].Name) }
	switch o.K {
	case oCan:
		_, a := m.names[ln(o.H)]
		_, b := m.ids[pool[o.H].ID]
		return m, r.Kind == "bool" && r.B == (!a && !b)
	case oReg:
		_, a := m.names[ln(o.H)]
		_, b := m.ids[pool[o.H].ID]
		if a || b {
			if r.Kind != "bool" || r.B {
				return m, false
			}
			if vLeak {
				c := m.clone()
				c.leaked = true
				return c, true
			}
			return m, true
		}
		if r.Kind != "bool" || !r.B {
			return m, false
		}
		c := m.clone()
		c.names[ln(o.H)] = o.H
		c.ids[pool[o.H].ID] = o.H
		return c, true
	case oUnreg:
		c := m.clone()
		cur, has := m.ids[pool[o.H].ID]
		var found bool
		if vUnreg {
			found = has
			delete(c.names, ln(o.H))
			delete(c.ids, pool[o.H].ID)
		} else {
			found = has && cur == o.H
			if v, ok := m.names[ln(o.H)]; ok && v == o.H {
				delete(c.names, ln(o.H))
			}
			if found {
				delete(c.ids, pool[o.H].ID)
			}
		}
		return c, r.Kind == "bool" && r.B == found
	case oPlayer:
		v, ok := m.ids[o.H]
		return m, r.Kind == "opt" && r.Has == ok && (!ok || r.V == v)
	case oByName:
		v, ok := m.names[strings.ToLower(o.S)]
		return m, r.Kind == "opt" && r.Has == ok && (!ok || r.V == v)
	case oCount:
		return m, r.Kind == "count" && r.V == len(m.ids)
	}
	return m, false
}

// searchLin: depth-first search with memoisation over (set of placed calls, model state).
func searchLin(pool []poolEntry, vUnreg, vLeak bool, h []callRec, hung bool) ([]int, bool) {
	n := len(h)
	type memoKey struct {
		set string
		st  string
	}
	dead := map[memoKey]bool{}
	placed := make([]bool, n)
	var order []int
	budget := 4000000
	var rec func(m *mstate, cnt int) bool
	setKey := func() string {
		b := make([]byte, n)
		for i, p := range placed {
			if p {
				b[i] = '1'
			} else {
				b[i] = '0'
			}
		}
		return string(b)
	}
	rec = func(m *mstate, cnt int) bool {
		if cnt == n {
			return m.leaked == hung
		}
		budget--
		if budget < 0 {
			return false
		}
		k := memoKey{setKey(), m.key()}
		if dead[k] {
			return false
		}
		// a call may come next only if no unplaced call responded before it was invoked
		minRes := int64(1 << 62)
		for i := 0; i < n; i++ {
			if !placed[i] && h[i].Res < minRes {
				minRes = h[i].Res
			}
		}
		for i := 0; i < n; i++ {
			if placed[i] || h[i].Inv > minRes {
				continue
			}
			m2, ok := m.apply(pool, vUnreg, vLeak, h[i].O, h[i].R)
			if !ok {
				continue
			}
			placed[i] = true
			order = append(order, i)
			if rec(m2, cnt+1) {
				return true
			}
			order = order[:len(order)-1]
			placed[i] = false
		}
		dead[k] = true
		return false
	}
	ok := rec(&mstate{names: map[string]int{}, ids: map[int]int{}}, 0)
	if !ok {
		return nil, budget >= 0
	}
	return append([]int(nil), order...), true
}

func genLinRounds(r *lib.Rng, pool []poolEntry, nRounds int, allowFail bool) [][]op {
	regOnce := make([]bool, len(pool))
	var rounds [][]op
	for i := 0; i < nRounds; i++ {
		var ops []op
		for g := 0; g < nGoroutines; g++ {
			h := r.Intn(len(pool))
			switch k := r.Intn(100); {
			case k < 15:
				ops = append(ops, op{K: oCan, H: h})
			case k < 45:
				if !allowFail {
					// every handle is registered at most once and handles have distinct names and ids
					if regOnce[h] {
						ops = append(ops, op{K: oPlayer, H: pool[h].ID})
						continue
					}
					regOnce[h] = true
				}
				ops = append(ops, op{K: oReg, H: h})
			case k < 60:
				ops = append(ops, op{K: oUnreg, H: h})
			case k < 75:
				ops = append(ops, op{K: oPlayer, H: pool[h].ID})
			case k < 90:
				ops = append(ops, op{K: oByName, S: caseVariant(r, pool[h].Name)})
			default:
				ops = append(ops, op{K: oCount})
			}
		}
		rounds = append(rounds, ops)
	}
	return rounds
}

func linTerm(online bool, pool []poolEntry, h []callRec, order []int, hung bool) string {
	return lib.App("CLin", lib.Bool(online), poolCoq(pool),
		lib.ListOf(h, func(c callRec) string {
			return lib.App("mkCall", c.O.coq(), c.R.coq(), lib.Z(c.Inv), lib.Z(c.Res))
		}),
		lib.ListOf(order, func(i int) string { return lib.Nat(i) }), lib.Bool(hung))
}

// ---------- racing logins ----------

// runRace registers the pre players, then starts one login per handle in logins at the same time.
func runRace(online, kick bool, pool []poolEntry, pre, logins []int) (results []result, final result) {
	e := newEnv(online, kick, pool)
	defer e.dispose()
	for _, h := range pre {
		if !proxy.VerifC11Register(e.p, e.hs[h].player.Load()) {
			panic("race: pre-registration failed")
		}
	}
	results = make([]result, len(logins))
	flags := make([]atomic.Bool, len(logins))
	start := make(chan struct{})
	var wg sync.WaitGroup
	for i, h := range logins {
		wg.Add(1)
		go func(i, h int) {
			defer wg.Done()
			<-start
			r := e.exec(op{K: oLogin, H: h})
			results[i] = r
			flags[i].Store(true)
		}(i, h)
	}
	done := make(chan struct{})
	go func() { wg.Wait(); close(done) }()
	close(start)
	if !e.waitAll(done, false) {
		e.leaked = true
		time.Sleep(10 * time.Millisecond)
		out := make([]result, len(logins))
		for i := range logins {
			if flags[i].Load() {
				out[i] = results[i]
			} else {
				out[i] = result{Kind: "hang"}
			}
		}
		return out, result{Kind: "hang"}
	}
	final = e.call(op{K: oSnap})
	final.Disc = nil
	return results, final
}

func raceTerm(online, kick bool, pool []poolEntry, pre, logins []int, results []result, final result) string {
	nl := func(l []int) string { return lib.ListOf(l, func(v int) string { return lib.N(uint64(v)) }) }
	return lib.App("CRace", lib.Bool(online), lib.Bool(kick), poolCoq(pool), nl(pre), nl(logins),
		lib.ListOf(results, func(r result) string { return r.resCoq() }), final.resCoq())
}

// runBurstHunt: up to maxRounds registration bursts on one proxy. In every round all 16 goroutines,
// lined up by a spin barrier, call registerConnection for 16 player objects that collide on names / UUIDs;
// then lookups; a cheap Go check looks for more than one winner per lower-case name or UUID or a wrong
// count. The first anomalous round (or else the last round) is returned as a history for the Coq judge;
// between rounds everybody unregisters so each round starts from the empty registry.
func runBurstHunt(online bool, pool []poolEntry, lookups []op, maxRounds int) (hist []callRec, round int, hung bool) {
	e := newEnv(online, false, pool)
	defer e.dispose()
	n := len(pool)
	for round = 0; round < maxRounds; round++ {
		var clock atomic.Int64
		recs := make([]callRec, n)
		var ready atomic.Int32
		var wg sync.WaitGroup
		for g := 0; g < n; g++ {
			wg.Add(1)
			go func(g int) {
				defer wg.Done()
				ready.Add(1)
				for spins := 1; int(ready.Load()) < n; spins++ {
					if spins%2000 == 0 {
						runtime.Gosched()
					}
				}
				o := op{K: oReg, H: g}
				inv := clock.Add(1)
				r := e.exec(o)
				res := clock.Add(1)
				recs[g] = callRec{O: o, R: r, Inv: inv, Res: res}
			}(g)
		}
		done := make(chan struct{})
		go func() { wg.Wait(); close(done) }()
		if !e.waitAll(done, true) {
			e.leaked = true
			return nil, round, true
		}
		hist = append(recs[:0:0], recs...)
		for _, o := range lookups {
			inv := clock.Add(1)
			r := e.exec(o)
			res := clock.Add(1)
			hist = append(hist, callRec{O: o, R: r, Inv: inv, Res: res})
		}
		// cheap anomaly check
		names, ids, winners := map[string]int{}, map[int]int{}, 0
		for g := 0; g < n; g++ {
			if recs[g].R.B {
				winners++
				names[strings.ToLower(pool[g].Name)]++
				ids[pool[g].ID]++
			}
		}
		bad := e.p.PlayerCount() != winners
		for _, c := range names {
			bad = bad || c > 1
		}
		for _, c := range ids {
			bad = bad || c > 1
		}
		if bad {
			return hist, round, false
		}
		for g := 0; g < n; g++ {
			proxy.VerifC11Unregister(e.p, e.hs[g].player.Load())
		}
		if e.p.PlayerCount() != 0 {
			return hist, round, false
		}
	}
	return hist, round - 1, false
}

// ---------- kick-existing: several sessions of one UUID ----------

// login runs the login of participant h: the real flow (Activated) for connection handles, a bare
// registerConnection for player handles; a successful registration is appended to the ordered log.
func (e *env) kickLogin(h int) bool {
	e.evMu.Lock()
	e.tried = append(e.tried, h)
	e.evMu.Unlock()
	var ok bool
	if e.hs[h].isLogin {
		ok = e.exec(op{K: oLogin, H: h}).B
		// Activated returns after registerConnection returned true and LoginSuccess was written
	} else {
		ok = e.exec(op{K: oReg, H: h}).B
	}
	if ok {
		e.evMu.Lock()
		e.klog = append(e.klog, kev{H: h})
		e.evMu.Unlock()
	}
	return ok
}

// liveHandles: sessions whose login was started and whose connection is still open
func (e *env) liveHandles(parts []int) []int {
	e.evMu.Lock()
	tried := map[int]bool{}
	for _, h := range e.tried {
		tried[h] = true
	}
	e.evMu.Unlock()
	var live []int
	for _, h := range parts {
		if tried[h] && e.hs[h].conn.Context().Err() == nil {
			live = append(live, h)
		}
	}
	return live
}

// runKickForced: handle 0 is online; handle 1 logs in (the kicker); every time the kicker disconnects the
// session it found, the NEXT intruder (handles 2, 3, ...) logs in on another goroutine from inside that
// session's DisconnectEvent and is waited for — i.e. it registers after the victim's teardown and before
// the kicker takes the registry lock again. Deterministic: the log order is exact.
func runKickForced(online bool, pool []poolEntry) (log []kev, live []int, final result, hung bool) {
	e := newEnv(online, true, pool)
	defer e.dispose()
	parts := make([]int, len(pool))
	for i := range pool {
		parts[i] = i
	}
	if !e.kickLogin(0) {
		panic("kick: first session did not register")
	}
	next := 2
	var mu sync.Mutex
	e.evMu.Lock()
	e.onTear = func(victim int) {
		mu.Lock()
		h := next
		if victim < 0 || victim == 1 || h >= len(pool) {
			mu.Unlock()
			return
		}
		next++
		mu.Unlock()
		done := make(chan struct{})
		go func() { defer close(done); e.kickLogin(h) }()
		select {
		case <-done:
		case <-time.After(5 * time.Second):
		}
	}
	e.evMu.Unlock()
	done := make(chan struct{})
	go func() { defer close(done); e.kickLogin(1) }()
	if !e.waitAll(done, true) {
		e.leaked = true
		return nil, nil, result{Kind: "hang"}, true
	}
	e.evMu.Lock()
	e.onTear = nil
	log = append([]kev(nil), e.klog...)
	e.evMu.Unlock()
	final = e.call(op{K: oSnap})
	final.Disc = nil
	return log, e.liveHandles(parts), final, false
}

// runKickFree: handle 0 optionally online, all other handles log in at the same time.
func runKickFree(online bool, pool []poolEntry, preOnline bool) (log []kev, live []int, final result, hung bool) {
	e := newEnv(online, true, pool)
	defer e.dispose()
	parts := make([]int, len(pool))
	for i := range pool {
		parts[i] = i
	}
	first := 0
	if preOnline {
		if !e.kickLogin(0) {
			panic("kick: first session did not register")
		}
		first = 1
	}
	start := make(chan struct{})
	var wg sync.WaitGroup
	for h := first; h < len(pool); h++ {
		wg.Add(1)
		go func(h int) { defer wg.Done(); <-start; e.kickLogin(h) }(h)
	}
	done := make(chan struct{})
	go func() { wg.Wait(); close(done) }()
	close(start)
	if !e.waitAll(done, true) {
		e.leaked = true
		return nil, nil, result{Kind: "hang"}, true
	}
	e.evMu.Lock()
	log = append([]kev(nil), e.klog...)
	e.evMu.Unlock()
	final = e.call(op{K: oSnap})
	final.Disc = nil
	return log, e.liveHandles(parts), final, false
}

func kickTerm(online bool, pool []poolEntry, exact bool, log []kev, live []int, final result) string {
	return lib.App("CKick", lib.Bool(online), poolCoq(pool), lib.Bool(exact),
		lib.ListOf(log, func(k kev) string {
			h := lib.N(999999)
			if k.H >= 0 {
				h = lib.N(uint64(k.H))
			}
			if k.Tear {
				return lib.App("KTear", h, statusCoq[k.St])
			}
			return lib.App("KReg", h)
		}),
		lib.ListOf(live, func(v int) string { return lib.N(uint64(v)) }), final.resCoq())
}

func kickLogText(log []kev) []string {
	var out []string
	for _, k := range log {
		if k.Tear {
			out = append(out, fmt.Sprintf("DisconnectEvent(%d,%s)", k.H, statusCoq[k.St]))
		} else {
			out = append(out, fmt.Sprintf("registered(%d)", k.H))
		}
	}
	return out
}

// ---------- main ----------

type job struct {
	run    func()
	emit   func()
	serial bool // runs alone after the worker pool (needs the cores for itself)
}

func main() {
	f := lib.ParseFlags()
	rng := lib.NewRng(f.Seed)
	out := lib.NewOut("C11", f)
	out.Imports = "From Verif Require Import Base.Lin Model.PlayerRegistry.\n"
	out.Rule = "sequential histories: 24-40 calls (canRegister/register/unregister/Disconnect/login via authSessionHandler.Activated/lookups) over a pool of 3-7 player objects sharing 1-3 base names in random case spellings and 1-3 UUIDs, offline and online, kick-existing on and off, a full lookup snapshot after every mutating call; concurrent histories: 16 goroutines x 3-6 barrier rounds of atomic registry calls, half of them registration-burst hunts (up to 1500 rounds per history for the first 20 hunts of a run and 200 for the further hunts of the thorough tier, of 16 registerConnection calls lined up by a spin barrier for players colliding on one lower-case name in case variants and/or on 2-3 UUIDs, then lookups; the first round with two winners for one name/UUID or a wrong count — else the last round — is the history judged in Coq), linearization searched in Go and validated in Coq; races: 2 logins (same name/UUID or not) started at once through Activated, optionally against a pre-registered player, outcome must be produced by some schedule of the model's login threads; kick-existing: 3-4 sessions of one UUID, half with the interleaving forced from inside the kicked session's DisconnectEvent (a further login registers after the victim's teardown and before the kicker re-locks; exact event log), half free-running, judged on the ordering clause over the log and on one-live-session-per-UUID at quiescence. distinct = distinct Coq term; non-trivial = a call was rejected, a player was replaced/kicked, a DisconnectEvent fired, or calls overlapped on the same name or UUID"

	var seqJobs, linJobs, raceJobs, kickJobs []job
	modes := [][2]bool{{false, false}, {true, false}, {true, true}, {false, true}}

	// (a) sequential histories
	nSeq := f.Count(90)
	for i := 0; i < nSeq; i++ {
		r := rng.Fork()
		md := modes[[]int{0, 0, 1, 2, 2, 3}[r.Intn(6)]]
		online, kick := md[0], md[1]
		pool := genPool(r, r.Range(3, 7), r.Range(1, 3), r.Range(1, 3), 35, r.Chance(1, 3))
		allowFail := r.Chance(1, 3)
		ops := genSeqOps(r, pool, kick, r.Range(24, 40), allowFail)
		var steps []histStep
		seqJobs = append(seqJobs, job{
			run: func() { steps = runSeq(online, kick, pool, ops) },
			emit: func() {
				nt := false
				tags := []string{"kind=seq", fmt.Sprintf("mode=online:%v,kick:%v", online, kick)}
				for _, s := range steps {
					if len(s.R.Disc) > 0 || (s.R.Kind == "bool" && !s.R.B && (s.O.K == oReg || s.O.K == oLogin || s.O.K == oCan)) {
						nt = true
					}
					if s.R.Kind == "hang" {
						tags = append(tags, "seq-ended-in-hang")
					}
					if s.O.K == oLogin && s.R.Kind == "bool" && !s.R.B {
						tags = append(tags, "login-rejected")
					}
				}
				out.Add(seqTerm(online, kick, pool, steps), histDesc(pool, online, kick, steps), nt, tags...)
			},
		})
	}

	// (b) concurrent histories (kick off: each call is one critical section)
	nLin := f.Count(20)
	for i := 0; i < nLin; i++ {
		r := rng.Fork()
		online := r.Bool()
		allowFail := r.Chance(1, 3)
		var pool []poolEntry
		if allowFail {
			pool = genPool(r, r.Range(4, 8), r.Range(1, 3), r.Range(2, 4), 0, false)
		} else {
			// distinct names and ids: registerConnection cannot be refused
			n := r.Range(5, 6)
			for k := 0; k < n; k++ {
				pool = append(pool, poolEntry{Name: caseVariant(r, baseNames[k]), ID: k})
			}
		}
		rounds := genLinRounds(r, pool, r.Range(3, 6), allowFail)
		burst := i%2 == 1
		var burstLookups []op
		burstRound := 0
		if burst {
			// registration bursts: all 16 goroutines call registerConnection at once for 16 different player
			// objects that collide on the lower-case name (case variants of one name) and/or on few UUIDs;
			// then lookups, then everybody unregisters, then a second burst. Exactly one registration per
			// name / UUID may succeed, whatever the interleaving.
			flavour := r.Intn(3)
			base := r.PickS("Herobrine", "Alice", "Notch_1")
			pool = nil
			for k := 0; k < nGoroutines; k++ {
				pe := poolEntry{Name: caseVariant(r, base), ID: k}
				switch flavour {
				case 1: // distinct names, two UUIDs
					pe = poolEntry{Name: fmt.Sprintf("P%d_x", k), ID: r.Intn(2)}
				case 2: // two names, three UUIDs
					pe = poolEntry{Name: caseVariant(r, r.PickS(base, "Bob")), ID: r.Intn(3)}
				}
				pool = append(pool, pe)
			}
			var lk []op
			for _, id := range []int{0, 1, 2} {
				lk = append(lk, op{K: oPlayer, H: id})
			}
			lk = append(lk, op{K: oCount}, op{K: oByName, S: caseVariant(r, base)}, op{K: oByName, S: "bob"}, op{K: oByName, S: "P3_X"})
			burstLookups = lk
		}
		var h []callRec
		var hung, complete bool
		var order []int
		linJobs = append(linJobs, job{
			serial: burst,
			run: func() {
				if burst {
					// thorough runs more hunts, not longer ones: the thorough tier is built with -race, where a
					// 16-goroutine spin barrier costs an order of magnitude more per round
					huntRounds := 1500
					if i >= 40 {
						huntRounds = 200
					}
					h, burstRound, hung = runBurstHunt(online, pool, burstLookups, huntRounds)
				} else {
					h, hung = runLin(online, pool, rounds)
				}
				for _, v := range [][2]bool{{false, false}} { // the code as it is now; pre-fix variants are not accepted
					var ok bool
					order, ok = searchLin(pool, v[0], v[1], h, hung)
					complete = ok
					if order != nil {
						break
					}
					if !ok {
						break
					}
				}
			},
			emit: func() {
				tags := []string{"kind=lin", fmt.Sprintf("lin-calls=%d", len(h)/16*16)}
				if burst {
					tags = append(tags, "lin-registration-burst")
					out.Extra(fmt.Sprintf("burst_rounds_job_%d", i), burstRound+1)
				}
				if hung {
					tags = append(tags, "lin-ended-in-hang")
				}
				if !complete {
					// search budget exhausted: nothing can be claimed either way
					out.Tag("lin-search-gave-up")
					out.Add(linTerm(online, pool, nil, nil, false), map[string]any{"note": "linearization search exceeded its budget; history dropped"}, false, "kind=lin-dropped")
					return
				}
				var calls []string
				for _, c := range h {
					calls = append(calls, fmt.Sprintf("[%d,%d] %s -> %s", c.Inv, c.Res, c.O, resultText(c.R)))
				}
				out.Add(linTerm(online, pool, h, order, hung),
					map[string]any{"online": online, "kick": false, "pool": pool, "calls": calls, "order": order, "calls_left_hanging": hung},
					true, tags...)
			},
		})
	}

	// (c) racing logins
	nRace := f.Count(30)
	for i := 0; i < nRace; i++ {
		r := rng.Fork()
		md := modes[[]int{0, 0, 1, 2, 3}[r.Intn(5)]]
		online, kick := md[0], md[1]
		base := baseNames[r.Intn(3)]
		var pool []poolEntry
		var pre, logins []int
		if r.Chance(1, 2) {
			pool = append(pool, poolEntry{Name: caseVariant(r, base), ID: r.Intn(2)})
			pre = []int{0}
		}
		for k := 0; k < 2; k++ {
			nm := base
			if r.Chance(1, 5) {
				nm = baseNames[3]
			}
			logins = append(logins, len(pool))
			pool = append(pool, poolEntry{Name: caseVariant(r, nm), ID: r.Intn(2), Login: true})
		}
		var results []result
		var final result
		raceJobs = append(raceJobs, job{
			run: func() { results, final = runRace(online, kick, pool, pre, logins) },
			emit: func() {
				tags := []string{"kind=race", fmt.Sprintf("mode=online:%v,kick:%v", online, kick)}
				if final.Kind == "hang" {
					tags = append(tags, "race-ended-in-hang")
				}
				var rs []string
				for _, x := range results {
					rs = append(rs, resultText(x))
				}
				out.Add(raceTerm(online, kick, pool, pre, logins, results, final),
					map[string]any{"online": online, "kick": kick, "pool": pool, "pre_registered": pre, "logins": logins,
						"login_results": rs, "final": fmt.Sprintf("%s byid=%v byname=%v all=%v n=%d", final.Kind, final.ByID, final.ByNm, final.L, final.V)},
					true, tags...)
			},
		})
	}

	// (d) kick-existing mode: 3 or 4 sessions of ONE UUID, forced interleaving (exact log) and free-running
	nKick := f.Count(20)
	for i := 0; i < nKick; i++ {
		r := rng.Fork()
		forced := i%2 == 0
		online := r.Chance(2, 3)
		base := baseNames[r.Intn(3)]
		n := r.Range(3, 4)
		preOnline := forced || r.Bool()
		if !forced && !preOnline {
			n = 3
		}
		var pool []poolEntry
		for k := 0; k < n; k++ {
			nm := base
			if r.Chance(1, 3) {
				nm = caseVariant(r, base)
			}
			// online + kick: the real login flow; offline + kick: canRegisterConnection would refuse a
			// taken name, so the sessions go through registerConnection directly
			pool = append(pool, poolEntry{Name: nm, ID: 0, Login: online})
		}
		var log []kev
		var live []int
		var final result
		var hung bool
		kickJobs = append(kickJobs, job{
			run: func() {
				if forced {
					log, live, final, hung = runKickForced(online, pool)
				} else {
					log, live, final, hung = runKickFree(online, pool, preOnline)
				}
			},
			emit: func() {
				tags := []string{"kind=kick", fmt.Sprintf("kick-sessions=%d", len(pool))}
				if forced {
					tags = append(tags, "kick-forced-interleaving")
				} else {
					tags = append(tags, "kick-free-running")
				}
				if hung {
					tags = append(tags, "kick-ended-in-hang")
				}
				kicked := 0
				for _, k := range log {
					if k.Tear {
						kicked++
					}
				}
				out.Add(kickTerm(online, pool, forced, log, live, final),
					map[string]any{"online": online, "kick": true, "pool": pool, "forced_interleaving": forced,
						"scenario":   "session 0 online first (forced, or free with pre_online); forced: session 1 logs in, and each time it disconnects the session it found, the next session (2, 3) logs in from inside that DisconnectEvent on another goroutine; free: the remaining sessions log in at once",
						"pre_online": preOnline, "log": kickLogText(log), "live_sessions_at_quiescence": live,
						"final": fmt.Sprintf("%s byid=%v byname=%v all=%v n=%d", final.Kind, final.ByID, final.ByNm, final.L, final.V)},
					kicked >= 1, tags...)
			},
		})
	}

	// interleave the kinds so that every shard gets a similar mix (evaluation cost differs by kind)
	var jobs []job
	for i, j, k, m := 0, 0, 0, 0; i < len(seqJobs) || j < len(linJobs) || k < len(raceJobs) || m < len(kickJobs); {
		for n := 0; n < 2 && m < len(kickJobs); n++ {
			jobs = append(jobs, kickJobs[m])
			m++
		}
		for n := 0; n < 9 && i < len(seqJobs); n++ {
			jobs = append(jobs, seqJobs[i])
			i++
		}
		for n := 0; n < 2 && j < len(linJobs); n++ {
			jobs = append(jobs, linJobs[j])
			j++
		}
		for n := 0; n < 3 && k < len(raceJobs); n++ {
			jobs = append(jobs, raceJobs[k])
			k++
		}
	}

	// run the jobs on a few workers (every job owns its proxy instance); emit in generation order.
	// Every job emits exactly one case, so the job index is the case index (replay keeps one).
	wanted := func(i int) bool { return f.Only < 0 || f.Only == i }
	var wg sync.WaitGroup
	sem := make(chan struct{}, 8)
	for i := range jobs {
		if !wanted(i) {
			continue
		}
		wg.Add(1)
		sem <- struct{}{}
		if jobs[i].serial {
			wg.Done()
			<-sem
			continue
		}
		go func(j job) {
			defer wg.Done()
			j.run()
			<-sem
		}(jobs[i])
	}
	wg.Wait()
	for i := range jobs {
		if wanted(i) && jobs[i].serial {
			jobs[i].run()
		}
	}
	for i := range jobs {
		if wanted(i) {
			jobs[i].emit()
		} else {
			out.Add("", nil, false) // keeps the numbering; dropped by the --only filter
		}
	}
	out.Finish()
}
