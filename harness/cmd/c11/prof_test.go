package main

import (
	"testing"
	"time"
)

func TestProfNewEnv(t *testing.T) {
	pool := []poolEntry{{"Alice", 0, false}, {"alice", 1, true}, {"Bob", 2, false}}
	t0 := time.Now()
	for i := 0; i < 20; i++ {
		e := newEnv(false, false, pool)
		e.dispose()
	}
	t.Logf("newEnv+dispose: %v each", time.Since(t0)/20)
	e := newEnv(false, false, pool)
	t0 = time.Now()
	for i := 0; i < 100; i++ {
		e.call(op{K: oSnap})
	}
	t.Logf("call snap: %v each", time.Since(t0)/100)
}
