// C02 harness: hostile byte streams through the real codec.NewDecoder(...).Decode().
// Streams are valid frames with one mutated field (length / claimed-size VarInts replaced by boundary
// values or non-minimal encodings, zlib bodies truncated / extended / corrupted / re-claimed), runs of
// empty frames, strict prefixes and random bytes; both directions, thresholds -1..2^20.
// Oracle (independent compress/zlib calls): for every compressed-looking frame body the full inflation
// (all output bytes, ended cleanly?, consumed all input?).
package main

import (
	"bufio"
	"bytes"
	"crypto/aes"
	"compress/zlib"
	"errors"
	"fmt"
	"io"
	"runtime"

	"github.com/go-logr/logr"
	"go.minekube.com/gate/pkg/edition/java/proto/codec"
	"go.minekube.com/gate/pkg/edition/java/proto/state"
	"go.minekube.com/gate/pkg/edition/java/proto/state/states"
	"go.minekube.com/gate/pkg/gate/proto"

	"verifharness/lib"
)

const maxFrame = 1<<21 - 1

func capOf(sb bool) int {
	if sb {
		return 2 << 20
	}
	return 8 << 20
}

// eofReader hands the stream out in planned chunk sizes (then the rest in one piece) and notes when the
// decoder asked for more than there is.
type eofReader struct {
	b      []byte
	pos    int
	sizes  []int
	k      int
	hitEOF bool
}

func (r *eofReader) Read(p []byte) (int, error) {
	if r.pos >= len(r.b) {
		r.hitEOF = true
		return 0, io.EOF
	}
	n := len(r.b) - r.pos
	if r.k < len(r.sizes) {
		n = min(n, r.sizes[r.k])
	}
	n = min(n, len(p))
	if r.k < len(r.sizes) {
		r.sizes[r.k] -= n
		if r.sizes[r.k] <= 0 {
			r.k++
		}
	}
	copy(p, r.b[r.pos:r.pos+n])
	r.pos += n
	return n, nil
}

// delivery = how the stream reaches the Decoder; the outcome must not depend on it
type delivery struct {
	mode   string // ctor | setreader | setreader+bufio+cfb8
	chunks string // whole | bytewise | small | mss | mixed
	sizes  []int
	secret []byte
}

func planDelivery(n int, rng *lib.Rng) delivery {
	d := delivery{mode: rng.PickS("ctor", "setreader", "setreader", "setreader+bufio+cfb8"),
		chunks: rng.PickS("whole", "bytewise", "small", "mss", "mixed", "mixed")}
	if d.mode == "setreader+bufio+cfb8" {
		d.secret = rng.Bytes(16)
	}
	for t := 0; t < n && d.chunks != "whole"; {
		var k int
		switch d.chunks {
		case "bytewise":
			k = 1
		case "small":
			k = rng.Range(1, 7)
		case "mss":
			k = 1448
		default:
			k = rng.Pick(1, rng.Range(2, 16), rng.Range(17, 300), 1448, rng.Range(1, n+1))
		}
		d.sizes = append(d.sizes, k)
		t += k
	}
	return d
}

// CFB8 encryption with crypto/aes (key = iv = secret), written here independently of gate's cipher code:
// the harness plays the peer that encrypts the hostile stream
func cfb8Encrypt(secret, plain []byte) []byte {
	blk, err := aes.NewCipher(secret)
	if err != nil {
		panic(err)
	}
	reg := append([]byte{}, secret...)
	out := make([]byte, len(plain))
	ks := make([]byte, 16)
	for i, x := range plain {
		blk.Encrypt(ks, reg)
		out[i] = x ^ ks[0]
		reg = append(reg[1:], out[i])
	}
	return out
}

type observed struct {
	payloads [][]byte
	term     string
	panicked any
	maxAlloc uint64
}

func runReal(stream []byte, thr int, sb bool, dl delivery) (o observed) {
	dirn := proto.ClientBound
	if sb {
		dirn = proto.ServerBound
	}
	rd := &eofReader{b: stream, sizes: append([]int{}, dl.sizes...)}
	var d *codec.Decoder
	switch dl.mode {
	case "ctor":
		d = codec.NewDecoder(rd, dirn, logr.Discard())
	case "setreader":
		d = codec.NewDecoder(bytes.NewReader(nil), dirn, logr.Discard())
		d.SetReader(rd)
	default: // the production wiring of netmc reader.EnableEncryption: bufio, then the CFB8 decrypt reader, via SetReader
		rd.b = cfb8Encrypt(dl.secret, stream)
		buf := bufio.NewReader(rd)
		d = codec.NewDecoder(buf, dirn, logr.Discard())
		dr, err := codec.NewDecryptReader(buf, dl.secret)
		if err != nil {
			panic(err)
		}
		d.SetReader(dr)
	}
	d.SetState(state.NewRegistry(states.HandshakeState)) // empty registry: payloads come back undecoded
	d.SetCompressionThreshold(thr)
	defer func() {
		if p := recover(); p != nil {
			o.panicked = p
			o.term = "OErr"
		}
	}()
	o.term = "OFuel"
	var ms runtime.MemStats
	for i := 0; i < len(stream)+2; i++ {
		runtime.ReadMemStats(&ms)
		before := ms.TotalAlloc
		ctx, err := d.Decode()
		runtime.ReadMemStats(&ms)
		if a := ms.TotalAlloc - before; a > o.maxAlloc {
			o.maxAlloc = a
		}
		if err != nil && !errors.Is(err, proto.ErrDecoderLeftBytes) {
			var fe *codec.FrameTooLargeError
			switch {
			case rd.hitEOF:
				o.term = "ONeedMore"
			case errors.As(err, &fe):
				o.term = "OFrameTooLarge"
			default:
				o.term = "OErr"
			}
			return
		}
		// keep the slice the decoder returned (no copy): the payloads of a stream are compared only after the whole
		// stream has been decoded, so a payload that a later Decode overwrites (buffer reuse) shows up as wrong
		o.payloads = append(o.payloads, ctx.Payload)
	}
	return
}

func varint(v int) []byte {
	u := uint32(int32(v))
	var b []byte
	for u >= 0x80 {
		b = append(b, byte(u)|0x80)
		u >>= 7
	}
	return append(b, byte(u))
}

// padded VarInt of exactly n bytes (non-minimal when n is larger than needed); n <= 5
func varintPad(v, n int) []byte {
	b := varint(v)
	for len(b) < n {
		b[len(b)-1] |= 0x80
		b = append(b, 0)
	}
	return b
}

func readVarint(b []byte) (v int, n int, ok bool) {
	var u uint32
	for i := 0; i < len(b); i++ {
		if i >= 5 {
			return 0, 0, false
		}
		u |= uint32(b[i]&0x7f) << uint(7*i)
		if b[i]&0x80 == 0 {
			return int(int32(u)), i + 1, true
		}
	}
	return 0, 0, false
}

func zl(p []byte, lvl int) []byte {
	var b bytes.Buffer
	w, _ := zlib.NewWriterLevel(&b, lvl)
	w.Write(p)
	w.Close()
	return b.Bytes()
}

type inflated struct {
	out      []byte
	clean    bool
	consumed bool
}

// full inflation with an independent zlib reader
func inflateAll(body []byte) inflated {
	br := bytes.NewReader(body)
	zr, err := zlib.NewReader(br)
	if err != nil {
		return inflated{}
	}
	out, err := io.ReadAll(io.LimitReader(zr, 9<<20+16))
	clean := err == nil
	if clean { // LimitReader hides EOF state: confirm the stream really ended
		var one [1]byte
		if n, e := zr.Read(one[:]); n != 0 || e != io.EOF {
			clean = false
		}
	}
	return inflated{out: out, clean: clean, consumed: br.Len() == 0}
}

func coqBytes(b []byte) string {
	if len(b) > 4096 {
		same := true
		for _, x := range b {
			if x != b[0] {
				same = false
				break
			}
		}
		if same {
			return fmt.Sprintf("(rep %d %d)", b[0], len(b))
		}
	}
	return lib.Bytes(b)
}

func payload(size int, rng *lib.Rng) []byte {
	if size < 1 {
		size = 1
	}
	p := make([]byte, size)
	switch rng.Intn(3) {
	case 0:
		copy(p, rng.Bytes(size))
	case 1:
		b := byte(rng.Intn(256))
		for i := range p {
			p[i] = b
		}
	default:
		pat := rng.Bytes(rng.Range(2, 7))
		for i := range p {
			p[i] = pat[i%len(pat)]
		}
	}
	p[0] = byte(rng.Range(1, 0x7f)) // single-byte packet id
	return p
}

// pieces of one frame before assembly
type fr struct {
	lenOverride *int // announce this length instead of the real one
	lenPad      int  // encode the length in this many bytes (0 = minimal)
	hasClaimed  bool
	claimed     int
	claimedPad  int
	body        []byte
}

func (f fr) bytes() []byte {
	var in []byte
	if f.hasClaimed {
		if f.claimedPad > 0 {
			in = append(in, varintPad(f.claimed, f.claimedPad)...)
		} else {
			in = append(in, varint(f.claimed)...)
		}
	}
	in = append(in, f.body...)
	l := len(in)
	if f.lenOverride != nil {
		l = *f.lenOverride
	}
	var out []byte
	if f.lenPad > 0 {
		out = varintPad(l, f.lenPad)
	} else {
		out = varint(l)
	}
	return append(out, in...)
}

// a frame the real encoder could have produced (or vanilla tolerates) for threshold t
func validFrame(t int, rng *lib.Rng, maxPayload int) (fr, string) {
	if t < 0 {
		return fr{body: payload(rng.Pick(1, 2, 127, 128, rng.Range(1, maxPayload)), rng)}, "plain"
	}
	if t > 0 && rng.Chance(2, 5) {
		sz := rng.Pick(1, t-1, t, max(1, t/2), rng.Range(1, max(1, min(t, maxPayload))))
		sz = max(1, min(sz, min(t, maxPayload)))
		return fr{hasClaimed: true, claimed: 0, body: payload(sz, rng)}, "uncompressed"
	}
	lo := max(t, 1)
	if lo > maxPayload {
		// threshold too large for a small stream: a well-formed frame below it
		return fr{hasClaimed: true, claimed: 0, body: payload(rng.Range(1, maxPayload), rng)}, "uncompressed"
	}
	sz := rng.Pick(lo, lo+1, rng.Range(lo, maxPayload), rng.Range(lo, maxPayload))
	p := payload(sz, rng)
	return fr{hasClaimed: true, claimed: len(p), body: zl(p, rng.Range(-1, 9))}, "compressed"
}

func ip(v int) *int { return &v }

var thresholds = []int{-1, 0, 1, 64, 256, 1024, 1 << 20}

func main() {
	f := lib.ParseFlags()
	rng := lib.NewRng(f.Seed)
	out := lib.NewOut("C02", f)
	out.Imports = "From Verif Require Import Model.Codec Check.C01.\n"
	out.Rule = "streams of 1..4 frames for threshold in {-1,0,1,64,256,1024,2^20} and both directions; one frame is mutated: length or claimed-size VarInt replaced by " +
		"-1, 0, t-1, t, t+1, cap, cap+1, 2^21-1, 2^21, 2^31-1, real+-1 or re-encoded non-minimally (2..5 bytes); zlib body truncated, extended with trailing bytes, " +
		"bit-flipped, Adler-32 corrupted, re-claimed larger/smaller (incl. multiples of 32768 where compress/flate flushes before the trailer); runs of 1..13 empty frames; " +
		"streams of 2..6 valid compressed frames with equal / decreasing / increasing / mixed sizes (small, up to 64 KiB, above 64 KiB); strict prefixes; uncompressed bodies of t-1, t, t+1 bytes; bodies inflating to cap, cap+1 constant bytes (written as `rep 1 n`); payloads without a packet id; random bytes. " +
		"distinct = distinct case term; non-trivial = not the random-bytes class, or the real decoder returned at least one payload. " +
		"Delivery is varied per case and must not matter: reader given to NewDecoder, or installed with SetReader afterwards, or SetReader with the production wiring (bufio + AES/CFB8 decrypt reader over the stream encrypted by the harness with crypto/aes); the reader hands the stream out whole, bytewise, in 1..7-byte pieces, in 1448-byte segments or in mixed PRNG-sized chunks. Every stream is decoded by the real decoder until the first failing Decode; the payload slices the decoder returned are kept WITHOUT copying and emitted only after the whole stream was decoded; heap growth per Decode (runtime.MemStats.TotalAlloc) is recorded as supporting evidence."

	var worstAlloc uint64
	drng := rng.Fork() // delivery choices; emit is always called in the same order
	emit := func(idx int, thr int, sb bool, stream []byte, kind string, tags ...string) {
		dl := planDelivery(len(stream), drng)
		o := runReal(stream, thr, sb, dl)
		tags = append(tags, "delivery="+dl.mode, "chunks="+dl.chunks)
		if o.maxAlloc > worstAlloc {
			worstAlloc = o.maxAlloc
		}
		if o.panicked != nil {
			out.GoViolation(map[string]any{"known": nil, "index": idx, "what": "Decode panicked", "panic": fmt.Sprint(o.panicked),
				"thr": thr, "serverbound": sb, "stream_hex": fmt.Sprintf("%x", stream)})
		}
		if lim := uint64(maxFrame + capOf(sb) + 8<<20); o.maxAlloc > lim {
			out.GoViolation(map[string]any{"known": nil, "index": idx, "what": "one Decode call allocated more than frame cap + inflate cap + 8 MiB",
				"bytes": o.maxAlloc, "thr": thr, "serverbound": sb, "stream_hex": fmt.Sprintf("%x", trunc(stream))})
		}
		// oracle tables: walk the frames by their announced lengths
		var it []string
		seenI := map[string]bool{}
		refAccept := 0
		for pos := 0; pos < len(stream) && thr >= 0; {
			l, n, ok := readVarint(stream[pos:])
			if !ok || l < 0 || l > maxFrame || pos+n+l > len(stream) {
				break
			}
			body := stream[pos+n : pos+n+l]
			pos += n + l
			if l == 0 {
				continue
			}
			claimed, cn, ok := readVarint(body)
			if !ok || claimed <= 0 {
				continue
			}
			zb := body[cn:]
			inf := inflateAll(zb)
			if !seenI[string(zb)] {
				seenI[string(zb)] = true
				it = append(it, lib.Pair(lib.Bytes(zb), lib.App("mkz", coqBytes(inf.out), lib.Bool(inf.clean))))
				if inf.clean && !inf.consumed {
					out.Tag("oracle:trailing-input-after-stream")
				}
			}
			if inf.clean && len(inf.out) == claimed {
				refAccept++
			}
		}
		term := lib.App("Check.C02.mk", lib.Z(int64(thr)), lib.Bool(sb), lib.Bytes(stream), lib.List(it),
			lib.ListOf(o.payloads, coqBytes), "Check.C01."+o.term)
		d := "clientbound"
		if sb {
			d = "serverbound"
		}
		tags = append(tags, "kind="+kind, fmt.Sprintf("thr=%d", thr), d, "end="+o.term, fmt.Sprintf("packets=%d", min(len(o.payloads), 4)))
		sizes := make([]int, len(o.payloads))
		for i, p := range o.payloads {
			sizes[i] = len(p)
		}
		out.Add(term, map[string]any{"kind": kind, "thr": thr, "serverbound": sb, "stream_hex": fmt.Sprintf("%x", trunc(stream)), "stream_len": len(stream),
			"delivery": dl.mode, "chunking": dl.chunks, "chunk_sizes": truncInts(dl.sizes), "secret_hex": fmt.Sprintf("%x", dl.secret),
			"observed_payload_sizes": sizes, "observed_end": o.term}, kind != "random" || len(o.payloads) > 0, tags...)
	}

	n := f.Count(330)
	for i := 0; i < n; i++ {
		cr := rng.Fork()
		thr := thresholds[cr.Intn(len(thresholds))]
		sb := cr.Bool()
		cp := capOf(sb)
		nf := cr.Range(1, 4)
		mutAt := cr.Intn(nf)
		var stream []byte
		kind := "valid"
		for j := 0; j < nf; j++ {
			fm, vk := validFrame(thr, cr, 700)
			if j == mutAt {
				kind = mutate(&fm, vk, thr, cp, cr)
			}
			stream = append(stream, fm.bytes()...)
		}
		switch {
		case cr.Chance(1, 12): // strict prefix of whatever we built
			stream = stream[:cr.Intn(len(stream))]
			kind += "+cut"
		case cr.Chance(1, 30):
			stream = cr.Bytes(cr.Range(0, 40))
			kind = "random"
		}
		emit(i, thr, sb, stream, kind)
	}

	// streams of 2..6 valid compressed frames on one Decoder: equal, decreasing, increasing and mixed sizes, small
	// (random content), up to 64 KiB and some above (constant content, a different byte per frame). All payloads
	// are held until the stream is done, so a decoder that hands out memory it later reuses is caught.
	idx := n
	nm := f.Count(24)
	for i := 0; i < nm; i++ {
		cr := rng.Fork()
		thr := cr.Pick(0, 1, 64, 256)
		sb := cr.Bool()
		k := cr.Range(2, 6)
		pattern := []string{"equal", "decreasing", "increasing", "mixed"}[i%4]
		scale := []string{"small", "upto64k", "around64k"}[(i/4)%3]
		sizes := make([]int, k)
		base := 0
		switch scale {
		case "small":
			base = cr.Range(max(thr, 40), 700)
		case "upto64k":
			base = cr.Pick(4097, 20000, 32768, 65535, 65536, cr.Range(4097, 65536))
		default:
			base = cr.Pick(65536, 65537, 70000, 131072)
		}
		for j := range sizes {
			switch pattern {
			case "equal":
				sizes[j] = base
			case "decreasing":
				sizes[j] = max(max(thr, 2), base-j*base/(k+1))
			case "increasing":
				sizes[j] = max(max(thr, 2), base-(k-1-j)*base/(k+1))
			default:
				sizes[j] = max(max(thr, 2), cr.Range(base/4+1, base+base/8))
			}
		}
		var stream []byte
		for j, sz := range sizes {
			var p []byte
			if scale == "small" {
				p = payload(sz, cr)
			} else {
				p = bytes.Repeat([]byte{byte(0x41 + j)}, sz) // starts with packet id 0x41+j
			}
			stream = append(stream, fr{hasClaimed: true, claimed: len(p), body: zl(p, cr.Range(-1, 9))}.bytes()...)
		}
		emit(idx, thr, sb, stream, "multi-compressed-"+pattern, "multi-compressed", "sizes="+scale)
		idx++
	}

	// fixed classes that must be present in every run
	for _, sb := range []bool{true, false} {
		for _, thr := range []int{0, 64, 256} {
			cr := rng.Fork()
			// the inputs of the two repaired findings (C02-1, C02-2), each in isolation: must be rejected now
			neg := fr{hasClaimed: true, claimed: cr.Pick(-1, -5, -1<<31), body: payload(cr.Range(1, max(1, thr)), cr)}
			if thr == 0 {
				neg.body = nil
			}
			emit(idx, thr, sb, append(neg.bytes(), fr{hasClaimed: true, claimed: 0, body: nil}.bytes()...), "claimed-negative", "fixed-finding-1-class")
			idx++
			p := payload(max(thr, 1)+cr.Range(50, 600), cr)
			emit(idx, thr, sb, fr{hasClaimed: true, claimed: max(thr, 1) + cr.Range(0, 40), body: zl(p, -1)}.bytes(), "body-longer-than-claimed", "fixed-finding-2-class")
			idx++
			// exact-size boundary of uncompressed frames
			for _, d := range []int{-1, 0, 1} {
				if thr+d >= 1 {
					emit(idx, thr, sb, fr{hasClaimed: true, claimed: 0, body: payload(thr+d, cr)}.bytes(), fmt.Sprintf("uncompressed-t%+d", d))
				} else {
					emit(idx, thr, sb, fr{hasClaimed: true, claimed: 0, body: nil}.bytes(), "uncompressed-empty")
				}
				idx++
			}
		}
		// multiples of the flate window: corrupt trailer after a full window flush
		cr := rng.Fork()
		q := make([]byte, 32768)
		for i := range q {
			q[i] = byte(i*7) | 1
		}
		z := zl(q, 6)
		bad := append([]byte{}, z...)
		bad[len(bad)-1] ^= 0x5a
		emit(idx, 256, sb, fr{hasClaimed: true, claimed: 32768, body: bad}.bytes(), "adler-corrupt-at-window", "fixed-finding-2-class")
		idx++
		emit(idx, 256, sb, fr{hasClaimed: true, claimed: 32768, body: z[:len(z)-cr.Range(1, 5)]}.bytes(), "trailer-cut-at-window", "fixed-finding-2-class")
		idx++
		// direction caps: bodies that really inflate to cap-1, cap, cap+1 zero bytes
		cp := capOf(sb)
		for _, d := range []int{0, 1} {
			if !sb && f.Tier == "quick" && d == 0 {
				continue // 8 MiB lists are expensive in Coq; quick keeps cap+1 only for clientbound
			}
			zeros := make([]byte, cp+d) // constant 0x01: starts with packet id 1
			for i := range zeros {
				zeros[i] = 1
			}
			emit(idx, 256, sb, fr{hasClaimed: true, claimed: cp + d, body: zl(zeros, 6)}.bytes(), fmt.Sprintf("inflates-to-cap%+d", d), "cap-boundary")
			idx++
		}
		// frame length cap: announce 2^21-1 and 2^21 with nothing behind (NeedMore vs FrameTooLarge)
		emit(idx, -1, sb, varint(maxFrame), "announce-2^21-1", "frame-cap")
		idx++
		emit(idx, -1, sb, append(varint(maxFrame+1), 1, 2, 3), "announce-2^21", "frame-cap")
		idx++
		// empty-frame runs
		for _, k := range []int{1, 10, 11, 12, 13, 25} {
			s := bytes.Repeat([]byte{0}, k)
			s = append(s, 2, 5, 6)
			emit(idx, -1, sb, s, fmt.Sprintf("empty-run-%d", k), "empty-frames")
			idx++
		}
		// payload that is not a packet id
		emit(idx, -1, sb, []byte{1, 0x80}, "no-packet-id", "packet-id")
		idx++
		emit(idx, -1, sb, []byte{6, 0xff, 0xff, 0xff, 0xff, 0xff, 0x01}, "packet-id-too-big", "packet-id")
		idx++
		// 5 continuation bytes: the code wants a 6th byte before giving up
		emit(idx, -1, sb, []byte{0xff, 0xff, 0xff, 0xff, 0xff}, "prefix-5-continuations", "non-minimal")
		idx++
		emit(idx, -1, sb, []byte{0xff, 0xff, 0xff, 0xff, 0xff, 0x01}, "prefix-6-bytes", "non-minimal")
		idx++
	}
	out.Extra("max_heap_growth_per_decode_bytes", worstAlloc)
	out.Extra("heap_note", "runtime.MemStats.TotalAlloc growth around each Decode call (includes zlib reader state); supporting evidence for the allocation bound, the bound itself is theorem C02_alloc_bound")
	out.Extra("large_payload_note", "payloads above 4 KiB in this check are constant byte strings written as `rep b n` and ARE evaluated in Coq (lists of up to 8 Mi elements)")
	out.Finish()
}

func truncInts(x []int) []int {
	if len(x) > 64 {
		return x[:64]
	}
	return x
}

func trunc(b []byte) []byte {
	if len(b) > 600 {
		return b[:600]
	}
	return b
}

// mutate changes one field of a valid frame and names the mutation
func mutate(fm *fr, vk string, thr, cp int, rng *lib.Rng) string {
	inner := len(fm.body)
	if fm.hasClaimed {
		inner += len(varint(fm.claimed))
	}
	lenVals := []int{-1, 0, thr - 1, thr, thr + 1, cp, cp + 1, maxFrame, maxFrame + 1, 1<<31 - 1, inner - 1, inner + 1, -1 << 31}
	claimVals := []int{-1, -5, -1 << 31, 0, thr - 1, thr, thr + 1, cp, cp + 1, 1<<31 - 1, maxFrame, maxFrame + 1}
	choice := rng.Intn(10)
	if vk != "compressed" && choice >= 6 {
		choice = rng.Intn(6)
	}
	if !fm.hasClaimed && (choice == 2 || choice == 3) {
		choice = rng.Intn(2)
	}
	switch choice {
	case 0:
		v := lenVals[rng.Intn(len(lenVals))]
		fm.lenOverride = ip(v)
		return "len=" + name(v, thr, cp, inner)
	case 1:
		fm.lenPad = rng.Range(2, 5)
		if fm.lenPad <= len(varint(inner)) {
			fm.lenPad = len(varint(inner)) + 1
		}
		if fm.lenPad > 5 {
			fm.lenPad = 5
		}
		return fmt.Sprintf("len-nonminimal-%d", fm.lenPad)
	case 2:
		old := fm.claimed
		v := claimVals[rng.Intn(len(claimVals))]
		fm.claimed = v
		return "claimed=" + name(v, thr, cp, old)
	case 3:
		fm.claimedPad = rng.Range(2, 5)
		if fm.claimedPad <= len(varint(fm.claimed)) {
			fm.claimedPad = min(5, len(varint(fm.claimed))+1)
		}
		return fmt.Sprintf("claimed-nonminimal-%d", fm.claimedPad)
	case 4:
		return "valid"
	case 5:
		fm.body = append(fm.body, rng.Bytes(rng.Range(1, 5))...)
		if vk == "compressed" {
			return "zlib-trailing-bytes"
		}
		return "body-extended"
	case 6:
		k := rng.Pick(1, 2, 4, 5, 6, len(fm.body)/2)
		if k >= len(fm.body) {
			k = 1
		}
		fm.body = fm.body[:len(fm.body)-k]
		return "zlib-truncated"
	case 7:
		d := rng.Pick(-1, 1, -fm.claimed/2, fm.claimed, 7, -7)
		fm.claimed += d
		if fm.claimed < 1 {
			fm.claimed = 1
		}
		if d < 0 {
			return "reclaimed-smaller"
		}
		return "reclaimed-larger"
	case 8:
		i := rng.Intn(len(fm.body))
		fm.body = append([]byte{}, fm.body...)
		fm.body[i] ^= 1 << uint(rng.Intn(8))
		return "zlib-bitflip"
	default:
		fm.body = append([]byte{}, fm.body...)
		fm.body[len(fm.body)-1-rng.Intn(4)] ^= 0xff
		return "adler-corrupt"
	}
}

func name(v, thr, cp, real int) string {
	switch {
	case v == -1<<31:
		return "min-int32"
	case v == 1<<31-1:
		return "max-int32"
	case v == cp:
		return "cap"
	case v == cp+1:
		return "cap+1"
	case v == maxFrame:
		return "2^21-1"
	case v == maxFrame+1:
		return "2^21"
	case v == real-1:
		return "real-1"
	case v == real+1:
		return "real+1"
	case v < 0:
		return "negative"
	case v == 0:
		return "0"
	case v == thr-1:
		return "t-1"
	case v == thr:
		return "t"
	case v == thr+1:
		return "t+1"
	}
	return "other"
}
